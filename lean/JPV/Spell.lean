/-
Spell — SPELLED paths: abstract paths (JPV/Ast.lean) together with every choice the grammar
/repo/jsonpath.peg declares insignificant and the renderers /verif/harness/jph/ast.go (`Spelling`) and
/verif/harness/jph/c18.go make:

  * the number of blanks at every place where the grammar has `space <- ' '*`: in front of and behind
    the whole path, after `[` and before `]` (`squareBracketStart/End`), around `,` (`sep`) and `:`
    (`sepSlice`), after `?(` and before its `)` (`filterStart/End`), after `(` and before `)` of a
    parenthesised sub-query (`subQueryStart/End`), around `||`, `&&` (`logicOr/And`), the comparison
    operators and `=~`, after `!` (`logicNot`);
  * the quote kind of every quoted member name and string literal;
  * the text of every integer (`+`, leading zeros, `-0…`: anything `[-+]?[0-9]+` that `Atoi` reads as
    the number) and of every number literal (anything of the shape of `lNumber` that `ParseFloat` reads
    as the number: `1.0`, `1e0`, `+1` …) — what `Atoi`/`ParseFloat` read is a hypothesis on `Ext`;
  * a slice with two colons whose step is left out (`[1:2:]`);
  * a child step as `.name` / `['name']` / `["name"]`, a wildcard step as `.*` / `[*]`;
  * `true/True/TRUE`, `false/False/FALSE`, `null/Null/NULL`;
  * parentheses around sub-queries (explicit `paren` nodes: the needed ones and redundant ones);
  * the leading `$` left out in front of a name, `*` or bracket (whole path only: `rootNode`).

Where two `space`s of the grammar are adjacent in every derivation, the run of blanks has ONE count
here (the strings are the same): the `space` that begins `jsonpathParameter` always follows another
`space` (of `filterStart`, `subQueryStart`, `logicAnd/Or`, `logicNot`, or the one after a comparison
operator), and the `space` that ends `continuedJsonpath` of an operand path is always followed by another
`space` (the one before the operator, of `logicAnd/Or`, of `subQueryEnd`/`filterEnd`); the same for the
`space` of `slice` when the step is left out together with its colon. The count is attached to the
punctuation that follows / precedes.

  `SPath.erase : SPath → Path`     forgets the choices (recorded texts empty)
  `Spell.print : SPath → List Char` the spelling
  `Spell.texts : SPath → Path`      the abstract path with the texts the library records for THAT spelling
-/
import JPV.Print
namespace JPV
namespace Spell
open Lex Print

def blanks (k : Nat) : List Char := List.replicate k ' '

/-! ### the leaves -/

inductive Quote where
  | sq | dq
  deriving Inhabited, Repr, DecidableEq

def Quote.char : Quote → Char
  | .sq => '\''
  | .dq => '"'

/-- `[-+]?` -/
inductive Sign where
  | pos0 | plus | minus
  deriving Inhabited, Repr, DecidableEq

def Sign.txt : Sign → List Char
  | .pos0 => []
  | .plus => ['+']
  | .minus => ['-']

/-- an integer as written: `[-+]? [0-9]+` -/
structure SInt where
  val : Int
  sign : Sign
  digits : List Char
  deriving Inhabited, Repr, DecidableEq

def SInt.txt (n : SInt) : List Char := n.sign.txt ++ n.digits

/-- the third part of a slice -/
inductive STail where
  | absent                             -- `[1:2]`
  | step (b a : Nat) (t : SInt)        -- `[1:2 : 3]`
  | colon (b a : Nat)                  -- `[1:2 : ]`
  deriving Inhabited, Repr, DecidableEq

inductive SSub where
  | idx (n : SInt)
  | wild
  | slice (s : Option SInt) (b1 a1 : Nat) (e : Option SInt) (t : STail)
  deriving Inhabited, Repr, DecidableEq

inductive SName where
  | key (q : Quote) (k : String)
  | wild
  deriving Inhabited, Repr, DecidableEq

/-- `true` / `True` / `TRUE` -/
inductive Cap where
  | lower | title | upper
  deriving Inhabited, Repr, DecidableEq

inductive SLit where
  | num (n : Int) (sg : Sign) (d : Char) (rest : List Char)     -- `[-+]? [0-9] [-+.0-9a-zA-Z]*`
  | bool (b : Bool) (c : Cap)
  | str (q : Quote) (s : String)
  | null (c : Cap)
  deriving Inhabited, Repr, DecidableEq

/-- how a child step is written -/
inductive ChildForm where
  | dot
  | br (lb : Nat) (q : Quote) (rb : Nat)
  deriving Inhabited, Repr, DecidableEq

/-- how a wildcard step is written -/
inductive WildForm where
  | dot
  | br (lb rb : Nat)
  deriving Inhabited, Repr, DecidableEq

/-- `b , a x`: a further element of a comma-separated list -/
abbrev Sep (α : Type) := Nat × Nat × α

mutual
inductive SStep where
  | child (f : ChildForm) (k : String)
  | wild (f : WildForm)
  | multi (lb : Nat) (n : SName) (ns : List (Sep SName)) (rb : Nat)
  | union (lb : Nat) (s : SSub) (ss : List (Sep SSub)) (rb : Nat)
  | filter (b0 b1 : Nat) (q : SQuery) (b2 b3 : Nat)      -- `[` b0 `?(` b1 q b2 `)` b3 `]`
  | desc (s : SStep)
inductive SQuery where
  | or (a : SQuery) (l r : Nat) (b : SQuery)
  | and (a : SQuery) (l r : Nat) (b : SQuery)
  | exist (neg : Option Nat) (p : SOpPath)               -- `some k`: `!` and `k` blanks
  | cmp (op : CmpOp) (l : SOperand) (bl br : Nat) (r : SOperand)
  | regex (p : SOpPath) (bl br : Nat) (re : String)
  | paren (l : Nat) (q : SQuery) (r : Nat)
inductive SOperand where
  | lit (l : SLit)
  | path (p : SOpPath)
/-- a path inside a filter -/
inductive SOpPath where
  | mk (head : Head) (steps : List SStep) (fns : List Fn)
end

/-- a whole spelled path -/
structure SPath where
  lead : Nat
  dollar : Bool               -- the leading `$` is written
  steps : List SStep
  fns : List Fn
  trail : Nat

instance : Inhabited SStep := ⟨.wild .dot⟩
instance : Inhabited SOpPath := ⟨.mk .root [] []⟩
instance : Inhabited SQuery := ⟨.exist none default⟩
instance : Inhabited SOperand := ⟨.lit (.null .lower)⟩
instance : Inhabited SPath := ⟨⟨0, true, [], [], 0⟩⟩

/-! ### printing -/

def optTxt : Option SInt → List Char
  | none => []
  | some n => n.txt

def tailP : STail → List Char
  | .absent => []
  | .step b a t => blanks b ++ ':' :: (blanks a ++ t.txt)
  | .colon b a => blanks b ++ ':' :: blanks a

def subP : SSub → List Char
  | .idx n => n.txt
  | .wild => ['*']
  | .slice s b1 a1 e t => optTxt s ++ (blanks b1 ++ ':' :: (blanks a1 ++ (optTxt e ++ tailP t)))

/-- the escaped body of a quoted member name -/
def keyBody (q : Quote) (k : String) : List Char :=
  match q with
  | .sq => escSingle k.toList
  | .dq => escDouble k.toList

def nameP : SName → List Char
  | .key q k => q.char :: (keyBody q k ++ [q.char])
  | .wild => ['*']

/-- `b , a x` -/
def sepP {α : Type} (pr : α → List Char) (x : Sep α) : List Char :=
  blanks x.1 ++ ',' :: (blanks x.2.1 ++ pr x.2.2)

def sepsP {α : Type} (pr : α → List Char) : List (Sep α) → List Char
  | [] => []
  | x :: xs => sepP pr x ++ sepsP pr xs

/-- `[` lb inner rb `]` -/
def brP (lb : Nat) (inner : List Char) (rb : Nat) : List Char :=
  '[' :: (blanks lb ++ (inner ++ (blanks rb ++ [']'])))

def capTrue : Cap → List Char
  | .lower => ['t', 'r', 'u', 'e']
  | .title => ['T', 'r', 'u', 'e']
  | .upper => ['T', 'R', 'U', 'E']

def capFalse : Cap → List Char
  | .lower => ['f', 'a', 'l', 's', 'e']
  | .title => ['F', 'a', 'l', 's', 'e']
  | .upper => ['F', 'A', 'L', 'S', 'E']

def capNull : Cap → List Char
  | .lower => ['n', 'u', 'l', 'l']
  | .title => ['N', 'u', 'l', 'l']
  | .upper => ['N', 'U', 'L', 'L']

/-- the body of a string literal: the quote and the backslash are escaped -/
def escLitQ (q : Quote) (s : List Char) : List Char :=
  s.flatMap (fun c => if c = q.char ∨ c = '\\' then ['\\', c] else [c])

def litP : SLit → List Char
  | .num _ sg d rest => sg.txt ++ d :: rest
  | .bool true c => capTrue c
  | .bool false c => capFalse c
  | .str q s => q.char :: (escLitQ q s.toList ++ [q.char])
  | .null c => capNull c

def childP (ad : Bool) (f : ChildForm) (k : String) : List Char :=
  match f with
  | .dot => if ad then escDot k.toList else '.' :: escDot k.toList
  | .br lb q rb => brP lb (nameP (.key q k)) rb

def wildP (ad : Bool) (f : WildForm) : List Char :=
  match f with
  | .dot => if ad then ['*'] else ['.', '*']
  | .br lb rb => brP lb ['*'] rb

mutual
/-- one step; `ad`: the step directly follows `..` (or stands in the place of an omitted `$`) -/
def step (ad : Bool) : SStep → List Char
  | .child f k => childP ad f k
  | .wild f => wildP ad f
  | .multi lb n ns rb => brP lb (nameP n ++ sepsP nameP ns) rb
  | .union lb s ss rb => brP lb (subP s ++ sepsP subP ss) rb
  | .filter b0 b1 q b2 b3 =>
    '[' :: (blanks b0 ++ '?' :: '(' :: (blanks b1 ++ (query q ++ (blanks b2 ++ ')' :: (blanks b3 ++ [']'])))))
  | .desc s => '.' :: '.' :: step true s
def steps : List SStep → List Char
  | [] => []
  | s :: ss => step false s ++ steps ss
def query : SQuery → List Char
  | .or a l r b => query a ++ (blanks l ++ '|' :: '|' :: (blanks r ++ query b))
  | .and a l r b => query a ++ (blanks l ++ '&' :: '&' :: (blanks r ++ query b))
  | .exist none p => opath p
  | .exist (some k) p => '!' :: (blanks k ++ opath p)
  | .cmp op l bl br r => operand l ++ (blanks bl ++ (opText op ++ (blanks br ++ operand r)))
  | .regex p bl br re =>
    opath p ++ (blanks bl ++ '=' :: '~' :: (blanks br ++ '/' :: (escRegex re.toList ++ ['/'])))
  | .paren l q r => '(' :: (blanks l ++ (query q ++ (blanks r ++ [')'])))
def operand : SOperand → List Char
  | .lit l => litP l
  | .path p => opath p
def opath : SOpPath → List Char
  | .mk h ss fns => headChar h :: (steps ss ++ fnsText fns)
end

/-- the steps of the whole path: with the `$`, or with the first step in its `$`-less form -/
def topSteps (dollar : Bool) (ss : List SStep) : List Char :=
  if dollar then '$' :: steps ss
  else match ss with
    | [] => []
    | s :: rest => step true s ++ steps rest

/-- the spelling -/
def print (a : SPath) : List Char :=
  blanks a.lead ++ (topSteps a.dollar a.steps ++ (fnsText a.fns ++ blanks a.trail))

def printS (a : SPath) : String := String.ofList (print a)

/-! ### forgetting the choices -/

def optVal : Option SInt → Option Int
  | none => none
  | some n => some n.val

def STail.erase : STail → Option Int
  | .absent => none
  | .step _ _ t => some t.val
  | .colon _ _ => none

def SSub.erase : SSub → Sub
  | .idx n => .idx n.val
  | .wild => .wild
  | .slice s _ _ e t => .slice (optVal s) (optVal e) t.erase

def SName.erase : SName → Name
  | .key _ k => .key k
  | .wild => .wild

def SLit.erase : SLit → Lit
  | .num n _ _ _ => .num n
  | .bool b _ => .bool b
  | .str _ s => .str s
  | .null _ => .null

def sepVals {α β : Type} (f : α → β) (xs : List (Sep α)) : List β := xs.map (fun x => f x.2.2)

/-! ### the texts the library records -/

/-- the recorded text of a child step -/
def childRecS (ad : Bool) (f : ChildForm) (k : String) : List Char :=
  match f with
  | .dot => if ad then k.toList else '.' :: escDot k.toList
  | .br lb q rb => brP lb (nameP (.key q k)) rb

def stripFn : Fn → Fn
  | .ffn _ n => .ffn "" n
  | .afn _ n => .afn "" n

def fnW (w : Bool) (f : Fn) : Fn := if w then fnT f else stripFn f

mutual
/-- `w = true`: the abstract step with the recorded text; `false`: with the empty text -/
def stepT (w : Bool) (ad : Bool) : SStep → Step
  | .child f k => .child (if w then String.ofList (childRecS ad f k) else "") k
  | .wild f => .wild (if w then String.ofList (wildP ad f) else "")
  | .multi lb n ns rb =>
    .multi (if w then String.ofList (step ad (.multi lb n ns rb)) else "") (n.erase :: sepVals SName.erase ns)
  | .union lb s ss rb =>
    .union (if w then String.ofList (step ad (.union lb s ss rb)) else "") (s.erase :: sepVals SSub.erase ss)
  | .filter b0 b1 q b2 b3 =>
    .filter (if w then String.ofList (step ad (.filter b0 b1 q b2 b3)) else "") (queryT w q)
  | .desc s => .desc (stepT w true s)
def stepsT (w : Bool) : List SStep → List Step
  | [] => []
  | s :: ss => stepT w false s :: stepsT w ss
def queryT (w : Bool) : SQuery → Query
  | .or a _ _ b => .or (queryT w a) (queryT w b)
  | .and a _ _ b => .and (queryT w a) (queryT w b)
  | .exist neg p => .exist neg.isSome (opathT w p)
  | .cmp op l _ _ r => .cmp op (operandT w l) (operandT w r)
  | .regex p _ _ re => .regex (opathT w p) re
  | .paren _ q _ => queryT w q
def operandT (w : Bool) : SOperand → Operand
  | .lit l => .lit l.erase
  | .path p => .path (opathT w p)
def opathT (w : Bool) : SOpPath → Path
  | .mk h ss fns => .mk h (stepsT w ss) (fns.map (fnW w))
end

/-- the steps of the whole path as abstract steps -/
def topStepsT (w : Bool) (dollar : Bool) (ss : List SStep) : List Step :=
  if dollar then stepsT w ss
  else match ss with
    | [] => []
    | s :: rest => stepT w true s :: stepsT w rest

/-- the abstract path with the texts the library records for this spelling -/
def texts (a : SPath) : Path := .mk .root (topStepsT true a.dollar a.steps) (a.fns.map (fnW true))

/-- the abstract path without any text: what the spelling is a spelling OF -/
def SPath.erase (a : SPath) : Path :=
  .mk .root (topStepsT false a.dollar a.steps) (a.fns.map (fnW false))

/-! ### the domain -/

def isDig (c : Char) : Bool := decide (48 ≤ c.toNat) && decide (c.toNat ≤ 57)

/-- `[-+.0-9a-zA-Z]` -/
def isLNum (c : Char) : Bool :=
  c.toNat == 45 || c.toNat == 43 || c.toNat == 46 || isDig c ||
  (decide (97 ≤ c.toNat) && decide (c.toNat ≤ 122)) || (decide (65 ≤ c.toNat) && decide (c.toNat ≤ 90))

def SInt.wf (n : SInt) : Bool := !n.digits.isEmpty && n.digits.all isDig

def optWf : Option SInt → Bool
  | none => true
  | some n => n.wf

def STail.wf : STail → Bool
  | .absent => true
  | .step _ _ t => t.wf
  | .colon _ _ => true

/-- the blanks in front of the colon of the third part -/
def STail.lead : STail → Nat
  | .absent => 0
  | .step b _ _ => b
  | .colon b _ => b

/-- an omitted bound is an EMPTY piece of text between two `space`s of the grammar: the run of blanks
    around it has ONE count, that of the `space` in front (`[`, `,` or the preceding `:`) — the count
    behind it (`b1` for the first bound, the `b` of the third part for the second bound) is 0 -/
def SSub.wf : SSub → Bool
  | .idx n => n.wf
  | .wild => true
  | .slice s b1 _ e t =>
    optWf s && optWf e && t.wf && (s.isSome || b1 == 0) && (e.isSome || t.lead == 0)

def SSub.isWild : SSub → Bool
  | .wild => true
  | _ => false

def SLit.wf : SLit → Bool
  | .num _ _ d rest => isDig d && rest.all isLNum
  | _ => true

def SLit.isNum : SLit → Bool
  | .num _ _ _ _ => true
  | _ => false

/-- no slice is written with two colons and no step (`[1:2:]`): see `C18Spell` — the tree `Parse`
    builds for it differs from the tree for `[1:2]` in the `omitted` flag of the step -/
def STail.noColon : STail → Bool
  | .colon _ _ => false
  | _ => true

def SSub.noColon : SSub → Bool
  | .slice _ _ _ _ t => t.noColon
  | _ => true

/-- `||` < `&&` < everything else -/
def level : SQuery → Nat
  | .or _ _ _ _ => 0
  | .and _ _ _ _ => 1
  | _ => 2

mutual
/-- * a dot child has a dot-spellable key; integers and number literals have the shape the grammar reads;
    * a multi-name selector has at least two names, a union a subscript that is not `*`;
    * `..` is followed by a bracket or dot child; the right operand of `||` is not a bare `||`, the operands
      of `&&` are not bare `||` (left) / `||`, `&&` (right): they are in parentheses;
    * `<`, `<=`, `>`, `>=` compare paths and number literals only; regular expressions without `/`, `\`. -/
def stepWf (inDesc : Bool) : SStep → Bool
  | .child f k => (match f with | .dot => dotSpellable k.toList | .br _ _ _ => true)
  | .wild _ => true
  | .multi _ _ ns _ => !ns.isEmpty
  | .union _ s ss _ =>
    s.wf && ss.all (fun x => x.2.2.wf) && (!s.isWild || ss.any (fun x => !x.2.2.isWild))
  | .filter _ _ q _ _ => queryWf q
  | .desc s => !inDesc && stepWf true s
def stepsWf : List SStep → Bool
  | [] => true
  | s :: ss => stepWf false s && stepsWf ss
def queryWf : SQuery → Bool
  | .or a _ _ b => queryWf a && queryWf b && decide (1 ≤ level b)
  | .and a _ _ b => queryWf a && queryWf b && decide (1 ≤ level a) && decide (2 ≤ level b)
  | .exist _ p => opathWf p
  | .cmp op l _ _ r => operandWf (isOrd op) l && operandWf (isOrd op) r
  | .regex p _ _ re => opathWf p && regexOK re
  | .paren _ q _ => queryWf q
def operandWf (ord : Bool) : SOperand → Bool
  | .lit l => l.wf && (!ord || l.isNum)
  | .path p => opathWf p
def opathWf : SOpPath → Bool
  | .mk _ ss fns => stepsWf ss && fns.all fnNameOK
end

def isDesc : SStep → Bool
  | .desc _ => true
  | _ => false

/-- the whole path: without the `$` there is a first step, and it is not `..` -/
def wf (a : SPath) : Bool :=
  stepsWf a.steps && a.fns.all fnNameOK &&
    (a.dollar || (match a.steps with | [] => false | s :: _ => !isDesc s))

/-! ### no slice with two colons and no step -/

mutual
def stepNC : SStep → Bool
  | .union _ s ss _ => s.noColon && ss.all (fun x => x.2.2.noColon)
  | .filter _ _ q _ _ => queryNC q
  | .desc s => stepNC s
  | _ => true
def stepsNC : List SStep → Bool
  | [] => true
  | s :: ss => stepNC s && stepsNC ss
def queryNC : SQuery → Bool
  | .or a _ _ b => queryNC a && queryNC b
  | .and a _ _ b => queryNC a && queryNC b
  | .exist _ p => opathNC p
  | .cmp _ l _ _ r => operandNC l && operandNC r
  | .regex p _ _ _ => opathNC p
  | .paren _ q _ => queryNC q
def operandNC : SOperand → Bool
  | .lit _ => true
  | .path p => opathNC p
def opathNC : SOpPath → Bool
  | .mk _ ss _ => stepsNC ss
end

def noColon (a : SPath) : Bool := stepsNC a.steps

/-! ### the plainest spelling of an abstract path (`Print.print`) as a spelled path -/

def plainInt (n : Int) : SInt :=
  match n with
  | .ofNat m => ⟨n, .pos0, natDigits m⟩
  | .negSucc m => ⟨n, .minus, natDigits (m + 1)⟩

def plainSub : Sub → SSub
  | .idx n => .idx (plainInt n)
  | .wild => .wild
  | .slice s e t =>
    .slice (s.map plainInt) 0 0 (e.map plainInt) (match t with | none => .absent | some t => .step 0 0 (plainInt t))

def plainName : Name → SName
  | .key k => .key .sq k
  | .wild => .wild

def plainLit : Lit → SLit
  | .num n => (match plainInt n with
    | ⟨_, sg, d :: rest⟩ => .num n sg d rest
    | ⟨_, sg, []⟩ => .num n sg '0' [])
  | .bool b => .bool b .lower
  | .str s => .str .sq s
  | .null => .null .lower

def plainSeps {α β : Type} (f : α → β) (xs : List α) : List (Sep β) := xs.map (fun x => (0, 0, f x))

def parenIf (b : Bool) (q : SQuery) : SQuery := if b then .paren 0 q 0 else q

mutual
def plainStep : Step → SStep
  | .child _ k => .child (if dotSpellable k.toList then .dot else .br 0 .sq 0) k
  | .wild _ => .wild .dot
  | .multi _ ns =>
    (match ns with
     | [] => .multi 0 .wild [] 0
     | n :: ns => .multi 0 (plainName n) (plainSeps plainName ns) 0)
  | .union _ ss =>
    (match ss with
     | [] => .union 0 .wild [] 0
     | s :: ss => .union 0 (plainSub s) (plainSeps plainSub ss) 0)
  | .filter _ q => .filter 0 0 (plainQuery 0 q) 0 0
  | .desc s => .desc (plainStep s)
def plainSteps : List Step → List SStep
  | [] => []
  | s :: ss => plainStep s :: plainSteps ss
def plainQuery (prec : Nat) : Query → SQuery
  | .or a b => parenIf (decide (0 < prec)) (.or (plainQuery 0 a) 0 0 (plainQuery 1 b))
  | .and a b => parenIf (decide (1 < prec)) (.and (plainQuery 1 a) 0 0 (plainQuery 2 b))
  | .exist neg p => .exist (if neg then some 0 else none) (plainOpPath p)
  | .cmp op l r => .cmp op (plainOperand l) 0 0 (plainOperand r)
  | .regex p re => .regex (plainOpPath p) 0 0 re
def plainOperand : Operand → SOperand
  | .lit l => .lit (plainLit l)
  | .path p => .path (plainOpPath p)
def plainOpPath : Path → SOpPath
  | .mk h ss fns => .mk h (plainSteps ss) fns
end

/-- `Print.print p` as a spelled path (for `p` with head `$`) -/
def plain : Path → SPath
  | .mk _ ss fns => ⟨0, true, plainSteps ss, fns, 0⟩

end Spell
end JPV
