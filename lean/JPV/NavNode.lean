/-
NavNode — the vocabulary the generator `nodes` (harness/cmd/translate/nodes.go) writes
`Gen/NodesGo.lean` in: what the Go `retrieve` / `retrieveMap` / `retrieveList` methods of the
navigation nodes and the three `retrieve…Next` helpers of `syntaxBasicNode` use, as operations on
the model state `Impl.St` (result buffer + logs). Hand-written; the generated file only mentions
these names. `Lemmas/NodeTie.lean` proves the generated methods equal to the corresponding
equations of `Impl.retrieve`; `Props/NodesGen.lean` states the ties.

Conventions of the translation (the generator's header repeats them):

* `container *bufferContainer` and the logs are the state `st : St`, threaded through every call
  that is handed `container` (and through `query.compute`, which logs calls and writes).
* A document value of static type `interface{}` that is the `current` of a `retrieve` call is a
  `GoVal`: the value plus the GHOST handle it was reached through (`loc`, what an Accessor built
  for it would capture; `none`: nothing settable is known — `Set: nil`). After a type assertion
  to a map / slice it is a `GoMap` / `GoList`: entries plus the definite position of the container
  (`loc.getD []`: unknown = relative root). Indexing a container gives a `GoVal` whose handle is
  (container position, key / index). A value that is handed on as plain `interface{}` without a
  container (`root`, `nextSrc` of retrieveAnyValueNext) is a bare `Val`.
* An `Accessor{Get: func() { return E }, Set: func(v) { P = v }}` literal is the buffer entry
  `Res.acc (value of E now) (some (place of P))`; `Set: nil` is `none`.
* Go panics (index out of range, nil `next`) are `.error` outcomes of `M`.
* `for … range` is `forRange` (a left fold in `M` over the assigned variables), the condition-only
  `for` of recursive descent is `whileLoop` with explicit fuel (`.error .outOfFuel` when it runs
  out: `Lemmas/NodeTie.lean` proves the number of values in the document is enough).
-/
import JPV.Impl.Retrieve
namespace JPV
namespace NavNode
open Impl

/-! ### values with ghost handles -/

/-- `current interface{}`: the value and the handle it was reached through -/
structure GoVal where
  v : Val
  loc : Option Loc
  deriving Inhabited

/-- `map[string]interface{}` (a document object): entries, position of the map -/
structure GoMap where
  kvs : List (String × Val)
  loc : Loc
  deriving Inhabited

/-- `[]interface{}` (a document array): elements, position of the slice -/
structure GoList where
  xs : List Val
  loc : Loc
  deriving Inhabited

/-- a value without a handle used as `current` -/
def GoVal.bare (v : Val) : GoVal := ⟨v, none⟩
/-- a typed map handed on as `interface{}` -/
def GoVal.ofMap (m : GoMap) : GoVal := ⟨.obj m.kvs, some m.loc⟩
/-- a typed slice handed on as `interface{}` -/
def GoVal.ofList (l : GoList) : GoVal := ⟨.arr l.xs, some l.loc⟩

/-- `x.(map[string]interface{})` -/
def asMap (x : GoVal) : Option GoMap :=
  match x.v with
  | .obj kvs => some ⟨kvs, x.loc.getD []⟩
  | _ => none

/-- `x.([]interface{})` -/
def asList (x : GoVal) : Option GoList :=
  match x.v with
  | .arr xs => some ⟨xs, x.loc.getD []⟩
  | _ => none

/-- the outcome of `switch t := x.(type)` with cases for the two container types -/
inductive Dyn where
  | map (m : GoMap)
  | list (l : GoList)
  | other

def typeSwitch (x : GoVal) : Dyn :=
  match x.v with
  | .obj kvs => .map ⟨kvs, x.loc.getD []⟩
  | .arr xs => .list ⟨xs, x.loc.getD []⟩
  | _ => .other

/-- `x == nil` -/
def isNil (x : GoVal) : Bool :=
  match x.v with
  | .null => true
  | _ => false

/-- `reflect.TypeOf(x).String()` (of a non-nil value) -/
def reflectTypeString (x : GoVal) : String := x.v.goTypeName

/-! ### lengths, indexing, slices (Go `int` is `Int`; out of range is a panic) -/

/-- `len(xs)` -/
def goLen {α : Type} (xs : List α) : Int := xs.length

/-- `xs[ix]` -/
def sliceIndex {α : Type} (xs : List α) (ix : Int) : M α :=
  match (if ix < 0 then none else xs[ix.toNat]?) with
  | none => .error .indexOutOfRange
  | some a => .ok a

/-- `xs[:n]` (for n ≤ len; capacity is not modelled) -/
def sliceTo {α : Type} (xs : List α) (n : Int) : M (List α) :=
  if n < 0 || n > xs.length then .error .indexOutOfRange else .ok (xs.take n.toNat)

/-- `xs[ix] = a` -/
def sliceSet {α : Type} (xs : List α) (ix : Int) (a : α) : M (List α) :=
  if ix < 0 || ix ≥ xs.length then .error .indexOutOfRange else .ok (xs.set ix.toNat a)

/-- `make([]interface{}, n, …)` holding handles: n nil interfaces -/
def makeGoVals (n : Int) : List GoVal := List.replicate n.toNat (GoVal.bare .null)

/-- `m[k]` with the comma-ok form: the member and its handle -/
def mapIndex (m : GoMap) (k : String) : Option GoVal :=
  match Val.lookup k m.kvs with
  | none => none
  | some v => some ⟨v, some (m.loc ++ [.key k])⟩

/-- `m[k]` (nil when absent) -/
def mapGet (m : GoMap) (k : String) : GoVal :=
  ⟨(Val.lookup k m.kvs).getD .null, some (m.loc ++ [.key k])⟩

/-- the place `m[k]` an Accessor's `Set` closure assigns to -/
def mapPlace (m : GoMap) (k : String) : Loc := m.loc ++ [.key k]

/-- `l[ix]`: the element and its handle -/
def listIndex (l : GoList) (ix : Int) : M GoVal :=
  match (if ix < 0 then none else l.xs[ix.toNat]?) with
  | none => .error .indexOutOfRange
  | some v => .ok ⟨v, some (l.loc ++ [.idx ix.toNat])⟩

/-- the place `l[ix]` -/
def listPlace (l : GoList) (ix : Int) : Loc := l.loc ++ [.idx ix.toNat]

/-- `getSortedKeys(m)` (cache.go; C07 ties the regenerated text to sorting) -/
def getSortedKeys (m : GoMap) : List String := (sortKV m.kvs).map (·.1)

/-! ### loops -/

/-- `for index := range xs`: 0 … len-1 -/
def rangeLen {α : Type} (xs : List α) : List Int := (List.range xs.length).map (fun (i : Nat) => (i : Int))

/-- `for index := n; index >= 0; index--`: n, n-1, …, 0 -/
def downFrom (n : Int) : List Int := (List.range (n + 1).toNat).reverse.map (fun (i : Nat) => (i : Int))

/-- a `for … range` loop: the body maps the tuple of assigned variables to its new value -/
def forRange {α σ : Type} : List α → σ → (α → σ → M σ) → M σ
  | [], s, _ => .ok s
  | x :: xs, s, body => do
    let s' ← body x s
    forRange xs s' body

/-- `for cond { body }` with fuel: `s` is the tuple of assigned variables -/
def whileLoop {σ : Type} : Nat → σ → (σ → Bool) → (σ → M σ) → M σ
  | 0, s, cond, _ => if cond s then .error .outOfFuel else .ok s
  | f + 1, s, cond, body =>
    if cond s then do
      let s' ← body s
      whileLoop f s' cond body
    else .ok s

/-! ### receivers -/

/-- `next.retrieve(root, current, container)` -/
abbrev Next := Val → GoVal → St → M (St × Option RtErr)

/-- the outcome of calling a method of a nil `next` (the model has no constructor of its own
    for a nil dereference; no tie relies on which panic this is) -/
def nilDeref : Panic := .typeAssertion

/-- `n.retrieve(…)` for a possibly nil `n` -/
def callNext (n : Option Next) : Next :=
  match n with
  | some f => f
  | none => fun _ _ _ => .error nilDeref

/-- the embedded `*syntaxBasicNode` as the retrieve methods see it -/
structure BasicRecv where
  /-- `errorRuntime`: identifies the node in the runtime errors it builds -/
  errorRuntime : Info
  accessorMode : Bool
  /-- `next` (`none`: nil) -/
  next : Option Next

/-- `syntaxChildSingleIdentifier` -/
structure SingleRecv where
  basic : BasicRecv
  identifier : String

/-- `syntaxChildWildcardIdentifier` -/
structure WildcardRecv where
  basic : BasicRecv

/-- a `syntaxNode` stored in a field: its `retrieve`, and what the type assertion
    `.(*syntaxChildSingleIdentifier)` finds (`some` of its `identifier` field) -/
structure NodeRef where
  retrieve : Next
  asSingle : Option String

/-- `syntaxChildMultiIdentifier` -/
structure MultiRecv where
  basic : BasicRecv
  identifiers : List NodeRef
  isAllWildcard : Bool
  unionQualifier : NodeRef

/-- `syntaxRecursiveChildIdentifier` -/
structure RecursiveRecv where
  basic : BasicRecv
  nextMapRequired : Bool
  nextListRequired : Bool

/-- `syntaxRootIdentifier` / `syntaxCurrentRootIdentifier` -/
structure RootRecv where
  basic : BasicRecv

/-- `syntaxUnionQualifier`; a subscript is its `getIndexes` -/
structure UnionRecv where
  basic : BasicRecv
  subscripts : List (Int → List Int)

/-- `syntaxFilterQualifier`; `query` is `query.compute(root, list)` (logs in `st`) -/
structure FilterRecv where
  basic : BasicRecv
  query : Val → List Val → St → M (VL × St)

/-- `addDeepestError` (C15Gen.addDeepest_tie: the regenerated text is `Impl.addDeepest`) -/
def addDeepestError (err : RtErr) (deepestTextLen : Nat) (deepestError : Option RtErr) : Nat × Option RtErr :=
  Impl.addDeepest err deepestTextLen deepestError

/-- `cells[ix] == emptyEntity` -/
def cellIsEmpty (vl : VL) (ix : Int) : M Bool := do
  let c ← sliceIndex vl.cells ix
  .ok c.isEmpty

end NavNode
end JPV
