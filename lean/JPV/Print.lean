/-
Print — the PLAINEST spelling of an abstract path (`Spelling{R: nil}.Path` of
/verif/harness/jph/ast.go) as a function `Path → List Char`, and `texts`: the same path with every
`Step.t` / `Fn.t` set to the source text the library records for that step when it parses the
printed string (ast.go fills `Step.Text` / `Fn.Text` with exactly these while rendering).

  head           `$` / `@`
  child          `.name` (every symbol backslash-escaped, `EscDot`) when the key is dot-spellable
                 (non-empty, no control character, no U+FFFD), else `['…']` with `EscSingle`;
                 recorded text: `.name` as written / the whole bracket; right after `..` the dot
                 form is written without the dot and the recorded text is the KEY (unescaped)
  wildcard       `.*`, after `..`: `*`
  multi-name     `['a','b',*]`
  union          `[1]`, `[0,1]`, `[1:2]`, `[1:2:3]`, `[:]`, `[*,1]` (omitted parts are omitted,
                 an omitted step is omitted together with its colon)
  `..`           `..` + step
  filter         `[?(…)]`, operators without spaces, parentheses exactly where precedence
                 (`||` < `&&` < basic) needs them
  function       `.name()`
  literals       decimal integers, `true`/`false`, `null`, `'…'` with `\'` and `\\`
  regex          `=~/…/` with `/` spelled `\/`

Everything is on `List Char` (the recogniser works on the rune array); `printS` is the `String`.
-/
import JPV.Ast
import JPV.Lex.Escape
namespace JPV
namespace Print
open Lex

/-! ### integers (`strconv.FormatInt(n, 10)`) -/

/-- decimal digits, most significant first; `fuel` > number of digits -/
def natDigitsAux : Nat → Nat → List Char → List Char
  | 0, _, acc => acc
  | fuel + 1, n, acc =>
    if n / 10 = 0 then Char.ofNat (48 + n % 10) :: acc
    else natDigitsAux fuel (n / 10) (Char.ofNat (48 + n % 10) :: acc)

def natDigits (n : Nat) : List Char := natDigitsAux (n + 1) n []

def intText : Int → List Char
  | .ofNat n => natDigits n
  | .negSucc n => '-' :: natDigits (n + 1)

def optInt : Option Int → List Char
  | none => []
  | some n => intText n

/-! ### names -/

/-- `DotSpellable` of ast.go -/
def dotSpellable (k : List Char) : Bool :=
  !k.isEmpty && k.all (fun c => !isControl c && c.toNat != 0xFFFD)

/-- `'EscSingle(k)'` -/
def quoted (k : String) : List Char := '\'' :: (escSingle k.toList ++ ['\''])

/-- `[` inner `]` -/
def bracket (inner : List Char) : List Char := '[' :: (inner ++ [']'])

/-- `strings.Join(parts, ",")` -/
def joinComma : List (List Char) → List Char
  | [] => []
  | [a] => a
  | a :: b :: rest => a ++ ',' :: joinComma (b :: rest)

def nameText : Name → List Char
  | .key k => quoted k
  | .wild => ['*']

def subText : Sub → List Char
  | .idx n => intText n
  | .wild => ['*']
  | .slice s e t =>
    optInt s ++ ':' :: (optInt e ++ (match t with | none => [] | some t => ':' :: intText t))

/-- a child step: how it is written, and the text the library records for it -/
def childStr (afterDesc : Bool) (k : String) : List Char :=
  if dotSpellable k.toList then (if afterDesc then escDot k.toList else '.' :: escDot k.toList)
  else bracket (quoted k)

def childRec (afterDesc : Bool) (k : String) : List Char :=
  if dotSpellable k.toList then (if afterDesc then k.toList else '.' :: escDot k.toList)
  else bracket (quoted k)

def wildStr (afterDesc : Bool) : List Char := if afterDesc then ['*'] else ['.', '*']

/-! ### literals, operators, functions -/

def escLitChar (c : Char) : List Char := if c = '\'' ∨ c = '\\' then ['\\', c] else [c]

/-- the body of a single-quoted string literal -/
def escLit (s : List Char) : List Char := s.flatMap escLitChar

def litText : Lit → List Char
  | .num n => intText n
  | .bool true => ['t', 'r', 'u', 'e']
  | .bool false => ['f', 'a', 'l', 's', 'e']
  | .str s => '\'' :: (escLit s.toList ++ ['\''])
  | .null => ['n', 'u', 'l', 'l']

def opText : CmpOp → List Char
  | .eq => ['=', '=']
  | .ne => ['!', '=']
  | .lt => ['<']
  | .le => ['<', '=']
  | .gt => ['>']
  | .ge => ['>', '=']

/-- `strings.ReplaceAll(re, "/", "\\/")` -/
def escRegex (re : List Char) : List Char := re.flatMap (fun c => if c = '/' then ['\\', '/'] else [c])

def fnName : Fn → String
  | .ffn _ n => n
  | .afn _ n => n

/-- `.name()` -/
def fnText (f : Fn) : List Char := '.' :: ((fnName f).toList ++ ['(', ')'])

def fnsText : List Fn → List Char
  | [] => []
  | f :: fs => fnText f ++ fnsText fs

def headChar : Head → Char
  | .root => '$'
  | .cur => '@'

def paren (b : Bool) (s : List Char) : List Char := if b then '(' :: (s ++ [')']) else s

/-! ### the printer -/

mutual
/-- one step; `ad`: the step directly follows `..` -/
def step (ad : Bool) : Step → List Char
  | .child _ k => childStr ad k
  | .wild _ => wildStr ad
  | .multi _ ns => bracket (joinComma (ns.map nameText))
  | .union _ ss => bracket (joinComma (ss.map subText))
  | .filter _ q => '[' :: '?' :: '(' :: (query 0 q ++ [')', ']'])
  | .desc s => '.' :: '.' :: step true s
def steps : List Step → List Char
  | [] => []
  | s :: ss => step false s ++ steps ss
/-- `prec`: 0 = anything may stand here, 1 = no bare `||`, 2 = no bare `||`/`&&` -/
def query (prec : Nat) : Query → List Char
  | .or a b => paren (decide (0 < prec)) (query 0 a ++ '|' :: '|' :: query 1 b)
  | .and a b => paren (decide (1 < prec)) (query 1 a ++ '&' :: '&' :: query 2 b)
  | .exist neg p => (if neg then ['!'] else []) ++ path p
  | .cmp op l r => operand l ++ (opText op ++ operand r)
  | .regex p re => path p ++ '=' :: '~' :: '/' :: (escRegex re.toList ++ ['/'])
def operand : Operand → List Char
  | .lit l => litText l
  | .path p => path p
def path : Path → List Char
  | .mk h ss fns => headChar h :: (steps ss ++ fnsText fns)
end

/-! ### the domain: abstract paths that have a spelling which parses back to them -/

def isWildSub : Sub → Bool
  | .wild => true
  | _ => false

/-- `[-_a-zA-Z0-9]` -/
def isFnChar (c : Char) : Bool :=
  c.toNat == 45 || c.toNat == 95 || (decide (97 ≤ c.toNat) && decide (c.toNat ≤ 122)) ||
  (decide (65 ≤ c.toNat) && decide (c.toNat ≤ 90)) || (decide (48 ≤ c.toNat) && decide (c.toNat ≤ 57))

def fnNameOK (f : Fn) : Bool := !(fnName f).toList.isEmpty && (fnName f).toList.all isFnChar

def isOrd : CmpOp → Bool
  | .eq => false
  | .ne => false
  | _ => true

def isNumLit : Lit → Bool
  | .num _ => true
  | _ => false

/-- a regular expression that the rule `regex` reads back unchanged -/
def regexOK (re : String) : Bool := re.toList.all (fun c => c != '/' && c != '\\')

mutual
/-- * a multi-name selector has at least two names (`['a']` is a child step);
    * a union has a subscript that is not `*` (`[*]` is a wildcard step, `[*,*]` a multi-name selector);
    * `..` is followed by a bracket or dot child, not by another `..`;
    * `<`, `<=`, `>`, `>=` compare paths and NUMBER literals only (`@.a<'x'` is not in the language). -/
def stepWf (inDesc : Bool) : Step → Bool
  | .child _ _ => true
  | .wild _ => true
  | .multi _ ns => decide (2 ≤ ns.length)
  | .union _ ss => ss.any (fun s => !isWildSub s)
  | .filter _ q => queryWf q
  | .desc s => !inDesc && stepWf true s
def stepsWf : List Step → Bool
  | [] => true
  | s :: ss => stepWf false s && stepsWf ss
def queryWf : Query → Bool
  | .or a b => queryWf a && queryWf b
  | .and a b => queryWf a && queryWf b
  | .exist _ p => pathWf p
  | .cmp op l r => operandWf (isOrd op) l && operandWf (isOrd op) r
  | .regex p re => pathWf p && regexOK re
def operandWf (ord : Bool) : Operand → Bool
  | .lit l => !ord || isNumLit l
  | .path p => pathWf p
def pathWf : Path → Bool
  | .mk _ ss fns => stepsWf ss && fns.all fnNameOK
end

/-- the whole path: additionally it starts with `$` -/
def wf : Path → Bool
  | .mk .root ss fns => pathWf (.mk .root ss fns)
  | .mk .cur _ _ => false

/-- the plainest spelling of `p` -/
def print (p : Path) : List Char := path p

def printS (p : Path) : String := String.ofList (print p)

/-! ### the recorded texts -/

def fnT : Fn → Fn
  | .ffn _ n => .ffn (String.ofList (fnText (.ffn "" n))) n
  | .afn _ n => .afn (String.ofList (fnText (.afn "" n))) n

mutual
def stepT (ad : Bool) : Step → Step
  | .child _ k => .child (String.ofList (childRec ad k)) k
  | .wild _ => .wild (String.ofList (wildStr ad))
  | .multi t ns => .multi (String.ofList (step ad (.multi t ns))) ns
  | .union t ss => .union (String.ofList (step ad (.union t ss))) ss
  | .filter t q => .filter (String.ofList (step ad (.filter t q))) (queryT q)
  | .desc s => .desc (stepT true s)
def stepsT : List Step → List Step
  | [] => []
  | s :: ss => stepT false s :: stepsT ss
def queryT : Query → Query
  | .or a b => .or (queryT a) (queryT b)
  | .and a b => .and (queryT a) (queryT b)
  | .exist neg p => .exist neg (pathT p)
  | .cmp op l r => .cmp op (operandT l) (operandT r)
  | .regex p re => .regex (pathT p) re
def operandT : Operand → Operand
  | .lit l => .lit l
  | .path p => .path (pathT p)
def pathT : Path → Path
  | .mk h ss fns => .mk h (stepsT ss) (fns.map fnT)
end

/-- `p` with every recorded text set to what the library records when it parses `print p` -/
def texts (p : Path) : Path := pathT p

end Print
end JPV
