/-
Auxiliary lemmas for the refinement: state bookkeeping, index ranges, container enumeration,
selection of filtered members.
-/
import JPV.WF
import JPV.Lemmas.Loop
import JPV.Lemmas.Cells
namespace JPV
open Impl TSem

/-- a sub-computation that leaves the buffer alone and writes only to fresh lists -/
structure SubInv (st st1 : St) : Prop where
  out : st1.out = st.out
  wr : ∃ ws, st1.writes = st.writes ++ ws ∧ ∀ w ∈ ws, w = Org.fresh

theorem SubInv.refl (st : St) : SubInv st st := ⟨rfl, ⟨[], by simp⟩⟩

theorem SubInv.trans {a b c : St} (h1 : SubInv a b) (h2 : SubInv b c) : SubInv a c := by
  obtain ⟨o1, w1, hw1, hf1⟩ := h1
  obtain ⟨o2, w2, hw2, hf2⟩ := h2
  refine ⟨o2.trans o1, w1 ++ w2, by rw [hw2, hw1, List.append_assoc], ?_⟩
  intro w hw
  rcases List.mem_append.mp hw with h | h
  · exact hf1 w h
  · exact hf2 w h

theorem SubInv.toExt {a b : St} (h : SubInv a b) : Ext a b [] :=
  ⟨⟨[], by simp [h.out]⟩, h.wr⟩

theorem SubInv.ext_trans {a b c : St} {D : List Val} (h1 : SubInv a b) (h2 : Ext b c D) : Ext a c D := by
  simpa using Ext.trans h1.toExt h2

theorem wrote_inv (st : St) (o : Org) (w : Nat) (h : o = .fresh ∨ w = 0) : SubInv st (st.wrote o w) := by
  refine ⟨rfl, List.replicate w o, rfl, ?_⟩
  intro x hx
  rcases h with h | h
  · subst h; exact (List.mem_replicate.mp hx).2
  · subst h; simp at hx

theorem call_inv (st : St) (c : Call) : SubInv st (st.call c) := ⟨rfl, ⟨[], by simp [St.call]⟩⟩

/-- running a sub-evaluation in its own container and taking the logs back -/
theorem back_inv (st s1 : St) (D : List Val) (h : Ext st.sub s1 D) : SubInv st (st.back s1) := by
  obtain ⟨_, ws, hw, hf⟩ := h
  exact ⟨rfl, ws, by simpa [St.back, St.sub] using hw, hf⟩

theorem sub_out_vals (st s1 : St) (D : List Val) (h : Ext st.sub s1 D) : s1.out.map Res.val = D := by
  obtain ⟨⟨R, ho, hv⟩, _⟩ := h
  simp [St.sub] at ho
  rw [ho, hv]

/-! ### RInv constructors -/

theorem RInv.of_err {st st1 : St} {err : RtErr} (h : SubInv st st1) : RInv st st1 (some err) [] :=
  ⟨h.toExt, fun h => by simp at h, fun h => absurd rfl h⟩

theorem RInv.pre {st st1 st' : St} {e : Option RtErr} {D : List Val} (h1 : SubInv st st1) (h2 : RInv st1 st' e D) :
    RInv st st' e D :=
  ⟨h1.ext_trans h2.ext, h2.ok_nonempty, h2.sel_ok⟩

/-! ### subscripts stay inside the array -/

theorem loopUp_range : ∀ (fuel : Nat) (i b step : Int), 0 ≤ i → 0 < step → ∀ x ∈ loopUp fuel i b step, 0 ≤ x ∧ x < b
  | 0, _, _, _, _, _ => by intro x hx; simp [loopUp] at hx
  | f + 1, i, b, step, hi, hs => by
    intro x hx
    simp only [loopUp] at hx
    split at hx
    · rcases List.mem_cons.mp hx with h | h
      · subst h; exact ⟨hi, by assumption⟩
      · exact loopUp_range f (i + step) b step (by omega) hs x h
    · simp at hx

theorem loopDown_range : ∀ (fuel : Nat) (i b step : Int) (n : Int), i < n → -1 ≤ b → step < 0 →
    ∀ x ∈ loopDown fuel i b step, 0 ≤ x ∧ x < n
  | 0, _, _, _, _, _, _, _ => by intro x hx; simp [loopDown] at hx
  | f + 1, i, b, step, n, hi, hb, hs => by
    intro x hx
    simp only [loopDown] at hx
    split at hx
    · rcases List.mem_cons.mp hx with h | h
      · subst h; exact ⟨by omega, hi⟩
      · exact loopDown_range f (i + step) b step n (by omega) hb hs x h
    · simp at hx

theorem normPos_bounds (v n : Int) (hn : 0 ≤ n) : 0 ≤ normPos v n ∧ normPos v n ≤ n := by
  simp only [normPos]
  repeat' split
  all_goals omega

theorem normNeg_bounds (v n : Int) (hn : 0 ≤ n) : -1 ≤ normNeg v n ∧ normNeg v n ≤ n - 1 := by
  simp only [normNeg]
  repeat' split
  all_goals omega

theorem subIndexes_range (s : SubI) (len : Nat) : ∀ x ∈ subIndexes s len, 0 ≤ x ∧ x < (len : Int) := by
  intro x hx
  have hn : (0 : Int) ≤ len := by omega
  cases s with
  | idx k =>
    unfold subIndexes at hx
    simp only [] at hx
    split at hx <;> simp at hx <;> omega
  | wild =>
    simp only [subIndexes, List.mem_map, List.mem_range] at hx
    obtain ⟨i, hi, rfl⟩ := hx
    omega
  | slicePos s e t =>
    have h1 := normPos_bounds (if s.omitted = true then 0 else s.number) len hn
    have h2 := normPos_bounds (if e.omitted = true then (len : Int) else e.number) len hn
    unfold subIndexes at hx
    simp only [] at hx
    by_cases hst : (if t.number > (len : Int) then (len : Int) else t.number) > 0
    · rw [if_pos hst] at hx
      have := loopUp_range _ _ _ _ h1.1 hst x hx
      omega
    · rw [if_neg hst] at hx
      simp at hx
  | sliceNeg s e t =>
    have h1 := normNeg_bounds (if s.omitted = true then (len : Int) - 1 else s.number) len hn
    have h2 := normNeg_bounds (if e.omitted = true then -(len : Int) - 1 else e.number) len hn
    unfold subIndexes at hx
    simp only [] at hx
    by_cases hst : t.number < 0
    · rw [if_pos hst] at hx
      exact loopDown_range _ _ _ _ (len : Int) (by omega) h2.1 hst x hx
    · rw [if_neg hst] at hx
      simp at hx

/-! ### container enumeration with and without locations -/

mutual
theorem containersLoc_fst : ∀ (v : Val) (loc : Loc), (containersLoc v loc).map (·.1) = Val.containers v
  | .arr xs, loc => by simp [containersLoc, Val.containers, containersLocList_fst xs loc 0]
  | .obj kvs, loc => by simp [containersLoc, Val.containers, containersLocKVs_fst kvs loc]
  | .null, _ | .bool _, _ | .num _, _ | .jnum _, _ | .str _, _ | .opq _ _, _ => by
    simp [containersLoc, Val.containers]
theorem containersLocList_fst : ∀ (xs : List Val) (loc : Loc) (i : Nat),
    (containersLocList xs loc i).map (·.1) = Val.containersList xs
  | [], _, _ => by simp [containersLocList, Val.containersList]
  | x :: xs, loc, i => by
    simp [containersLocList, Val.containersList, containersLoc_fst x, containersLocList_fst xs loc (i + 1)]
theorem containersLocKVs_fst : ∀ (kvs : List (String × Val)) (loc : Loc),
    (containersLocKVs kvs loc).map (·.1) = Val.containersKVs kvs
  | [], _ => by simp [containersLocKVs, Val.containersKVs]
  | (k, x) :: xs, loc => by
    simp [containersLocKVs, Val.containersKVs, containersLoc_fst x, containersLocKVs_fst xs loc]
end

/-! ### which members a filter keeps -/

theorem keepBy_zip_filter {α : Type} : ∀ (es : List α) (cells : List Cell), es.length = cells.length →
    ((es.zip cells).filter (fun ec => !ec.2.isEmpty)).map (·.1) = keepBy es (cells.map cellNonEmpty)
  | [], [], _ => rfl
  | [], _ :: _, h => by simp at h
  | _ :: _, [], h => by simp at h
  | e :: es, c :: cs, h => by
    have ih := keepBy_zip_filter es cs (by simpa using h)
    cases c with
    | empty =>
      have h1 : cellNonEmpty (Cell.empty) = false := rfl
      rw [List.zip_cons_cons, List.filter_cons_of_neg (by simp [Cell.isEmpty]), List.map_cons, h1, keepBy, ih]
      simp
    | val v =>
      have h1 : cellNonEmpty (Cell.val v) = true := rfl
      rw [List.zip_cons_cons, List.filter_cons_of_pos (by rfl), List.map_cons, List.map_cons, h1, keepBy, ih]
      simp

theorem keepBy_all_true {α : Type} : ∀ (es : List α), keepBy es (List.replicate es.length true) = es
  | [] => rfl
  | e :: es => by simp [keepBy, List.replicate_succ, keepBy_all_true es]

theorem keepBy_all_false {α : Type} : ∀ (es : List α) (n : Nat), keepBy es (List.replicate n false) = []
  | [], n => by cases n <;> rfl
  | _ :: _, 0 => rfl
  | e :: es, n + 1 => by simp [keepBy, List.replicate_succ, keepBy_all_false es n]

theorem keepBy_map {α β : Type} (g : α → β) : ∀ (es : List α) (bs : List Bool),
    (keepBy es bs).map g = keepBy (es.map g) bs
  | [], bs => by cases bs <;> rfl
  | _ :: _, [] => rfl
  | e :: es, b :: bs => by
    cases b <;> simp [keepBy, keepBy_map g es bs]

/-- single-valued chains select at most one value -/
theorem single_den (env : Env) : ∀ (ch : List N) (root cur : Val), singleChain ch = true →
    (den env ch root cur).length ≤ 1
  | [], _, _, _ => by simp [den]
  | n :: rest, root, cur, h => by
    simp only [singleChain, Bool.and_eq_true] at h
    obtain ⟨hn, hr⟩ := h
    have ih := fun r c => single_den env rest r c hr
    cases n with
    | root i => simp only [den]; exact ih _ _
    | cur i => simp only [den]; exact ih _ _
    | child i k =>
      cases cur <;> simp only [den, List.length_nil, Nat.zero_le]
      split
      · exact ih _ _
      · simp
    | ffn i name =>
      simp only [den]
      split
      · split
        · exact ih _ _
        · simp
      · simp
    | afn i name param =>
      simp only [den]
      split
      · simp
      · split
        · split
          · exact ih _ _
          · simp
        · simp
    | union i subs =>
      match subs, hn with
      | [.idx k], _ =>
        cases cur <;> simp only [den, List.length_nil, Nat.zero_le]
        rename_i xs
        simp only [List.flatMap_cons, List.flatMap_nil, List.append_nil]
        have hsub : subIndexes (.idx k) xs.length = [] ∨ ∃ j, subIndexes (.idx k) xs.length = [j] := by
          unfold subIndexes
          simp only []
          generalize (if k < 0 then k + (xs.length : Int) else k) = i'
          by_cases hc : (i' < 0 || i' ≥ (xs.length : Int)) = true
          · left; rw [if_pos hc]
          · right; exact ⟨i', by rw [if_neg hc]⟩
        rcases hsub with h | ⟨j, h⟩ <;> rw [h]
        · simp
        · simp only [List.flatMap_cons, List.flatMap_nil, List.append_nil]
          split
          · exact ih _ _
          · simp
    | wild i => simp [singleNode] at hn
    | multi i ids t => simp [singleNode] at hn
    | desc i a b => simp [singleNode] at hn
    | filter i q => simp [singleNode] at hn

end JPV
