/-
ParsePrintAssemble — `Build.assemble` on `Build.mkInfos` versus what the action machine does with the
same written elements: `setNodeChain` links the raw nodes from left to right (an aggregate function
wraps what is there, marked and with the accessor flag cleared), and at the very end
`deleteRootIdentifier` and `setConnectedText` (top level) / `updateAccessorMode` (filter operand)
run over the result.

    finish (assemble (mkInfos cfg top pres) [])
      = ccChain top "" (setAccChain (top && cfg.accessor) (delRoot (markVg (linkPres a [] pres))))
-/
import JPV.Lemmas.ParsePrintChain
namespace JPV.PP
open JPV.Peg JPV.Build

/-! ### top level / operand -/

/-- `mkInfos cfg top` by recursion -/
def infosG (cfg : Cfg) (top : Bool) : List Pre → List (Pre × Info)
  | [] => []
  | p :: ps =>
    (p, { text := p.text, conn := if top then p.text ++ tailConn ps else "", vg := preVg p,
          acc := top && cfg.accessor && noAfn ps }) :: infosG cfg top ps

theorem mkInfos_eq (cfg : Cfg) (top : Bool) (pres : List Pre) : mkInfos cfg top pres = infosG cfg top pres := by
  cases top with
  | true =>
    rw [mkInfos_true]
    induction pres with
    | nil => rfl
    | cons p ps ih => simp [infosT, infosG, ih]
  | false =>
    rw [mkInfos_false]
    induction pres with
    | nil => rfl
    | cons p ps ih => simp [infosF, infosG, ih]

/-- `setConnectedText` at top level, nothing inside a filter -/
def ccChain (top : Bool) (s : String) (l : List N) : List N := if top then connChain s l else l
def ccNode (top : Bool) (c : String) (n : N) : N := if top then connNode c n else n

theorem ccChain_nil (top : Bool) (s : String) : ccChain top s [] = [] := by
  cases top <;> simp [ccChain, connChain_nil]

theorem ccChain_snoc (top : Bool) (s : String) (y : N) (X : List N) :
    ccChain top s (X ++ [y]) = ccChain top (y.info.text ++ s) X ++ [ccNode top (y.info.text ++ s) y] := by
  cases top
  · simp [ccChain, ccNode]
  · simp [ccChain, ccNode, connChain_snoc]

theorem ccChain_single (top : Bool) (s : String) (y : N) :
    ccChain top s [y] = [ccNode top (y.info.text ++ s) y] := by
  have := ccChain_snoc top s y []
  simpa [ccChain_nil] using this

theorem ccChain_markVg (top : Bool) (c : String) (l : List N) :
    ccChain top c (Build.markVg l) = Build.markVg (ccChain top c l) := by
  cases top
  · rfl
  · simp [ccChain, connChain_markVg]

theorem ccChain_cons_tail (top : Bool) (c : String) (n : N) (rest : List N) :
    ∃ n', ccChain top c (n :: rest) = n' :: ccChain top c rest ∧ isHead n' = isHead n ∧ n'.info.vg = n.info.vg := by
  cases top
  · exact ⟨n, rfl, rfl, rfl⟩
  · refine ⟨_, by simp only [ccChain, if_true]; exact connChain_cons c n rest, connNode_isHead _ _, ?_⟩
    rw [connNode_info]

theorem ccChain_vg (top : Bool) (c : String) (l : List N) :
    (ccChain top c l).any (fun x => x.info.vg) = l.any (fun x => x.info.vg) := by
  cases top
  · rfl
  · exact any_vg_of_map (connChain_vg c l)

theorem ccNode_afn (top : Bool) (c : String) (i : Info) (name : String) (p : List N) :
    ccNode top c (.afn i name p) = .afn { i with conn := if top then c else i.conn } name (ccChain top c p) := by
  cases top
  · simp [ccNode, ccChain]
  · simp [ccNode, ccChain, connNode_afn]

/-! ### written elements -/

/-- the node of a written element, given its Info -/
def nodeWith : Pre → Info → N
  | .node _ _ mk, i => mk i
  | .ffn _ n, i => .ffn i n
  | .afn _ n, i => .afn i n []

/-- the node the actions push for a written element -/
def rawOf (a : Bool) (p : Pre) : N :=
  nodeWith p { text := p.text, conn := "", vg := preVg p, acc := a }

/-- a written step: the node stores its Info, the two Info updates of the machine go through the
    constructor, and it is neither `$`/`@` nor an aggregate -/
structure NiceMk (mk : Info → N) : Prop where
  info : ∀ i, (mk i).info = i
  conn : ∀ i c, connNode c (mk i) = mk { i with conn := c }
  acc : ∀ i a, nSetAcc a (mk i) = mk { i with acc := a }
  plain : ∀ i, isPlain (mk i) = true

def NicePre : Pre → Prop
  | .node _ _ mk => NiceMk mk
  | _ => True

theorem niceMk_ffn (name : String) : NiceMk (fun i => .ffn i name) :=
  ⟨fun _ => rfl, fun _ _ => rfl, fun _ _ => rfl, fun _ => rfl⟩

def isFnPre : Pre → Bool
  | .node _ _ _ => false
  | _ => true

/-- steps first, then functions -/
def presOK : List Pre → Bool
  | [] => true
  | p :: ps => if isFnPre p then ps.all isFnPre else presOK ps

def foundPre (env : Env) : Pre → Prop
  | .node _ _ _ => True
  | .ffn _ n => ∃ f, env.ffn n = some f
  | .afn _ n => ∃ f, env.afn n = some f

/-! ### the fold of `setNodeChain` -/

def linkFn (a : Bool) (root : List N) : Pre → List N
  | .afn t n => [.afn { text := t, conn := "", vg := false, acc := a } n (setAccChain false (Build.markVg root))]
  | p => root ++ [rawOf a p]

def linkPres (a : Bool) (root : List N) (ps : List Pre) : List N := ps.foldl (linkFn a) root

theorem linkPres_cons (a : Bool) (root : List N) (p : Pre) (ps : List Pre) :
    linkPres a root (p :: ps) = linkPres a (linkFn a root p) ps := rfl

/-! ### shapes of the chain under construction -/

/-- `$`/`@` first (not a value group itself) -/
def Shape1 (L : List N) : Prop := ∃ h rest, L = h :: rest ∧ isHead h = true ∧ h.info.vg = false

/-- an aggregate first, then filter functions; no value-group flags at this level -/
def Shape2 (L : List N) : Prop :=
  ∃ i name p rest, L = .afn i name p :: rest ∧ i.vg = false ∧ ∀ n ∈ rest, n.info.vg = false

/-- `deleteRootIdentifier` on the parameter of the first node only -/
def keepRoot : List N → List N
  | .afn i n p :: rest => .afn i n (delRoot p) :: rest
  | l => l

theorem keepRoot_shape1 {L : List N} (h : Shape1 L) : keepRoot L = L := by
  obtain ⟨hd, rest, rfl, hh, _⟩ := h
  cases hd <;> simp_all [keepRoot, isHead]

theorem keepRoot_snoc {L : List N} (hL : L ≠ []) (y : N) : keepRoot (L ++ [y]) = keepRoot L ++ [y] := by
  cases L with
  | nil => exact absurd rfl hL
  | cons n rest => cases n <;> simp [keepRoot]

theorem keepRoot_ne_nil {L : List N} (hL : L ≠ []) : keepRoot L ≠ [] := by
  cases L with
  | nil => exact absurd rfl hL
  | cons n rest => cases n <;> simp [keepRoot]

/-- the chain `Build` has after the same elements -/
def psi (top : Bool) (s : String) (b : Bool) (L : List N) : List N :=
  ccChain top s (setAccChain b (keepRoot L))

theorem markVg_none {l : List N} (h : l.any (fun x => x.info.vg) = false) : Build.markVg l = l := by
  cases l with
  | nil => rfl
  | cons n rest => rw [markVg_cons, h]; rfl

/-- deleting `$`/`@` after marking = marking what follows it -/
theorem delRoot_markVg_head (h m : N) (rest : List N) (hh : isHead h = true) (hv : h.info.vg = false) :
    delRoot (Build.markVg (h :: m :: rest)) = Build.markVg (m :: rest) := by
  have hany : (h :: m :: rest).any (fun x => x.info.vg) = (m :: rest).any (fun x => x.info.vg) := by
    simp [List.any_cons, hv]
  rw [markVg_cons, markVg_cons, hany]
  split
  · rw [delRoot_cons, delRootNode_head_cons _ _ _ (by rw [setVg_isHead]; exact hh), setVg_info]
    simp
  · rw [delRoot_cons, delRootNode_head_cons _ _ _ hh, hv]
    simp

theorem any_vg_afn (i : Info) (name : String) (p rest : List N) (hi : i.vg = false)
    (hrest : ∀ n ∈ rest, n.info.vg = false) : (N.afn i name p :: rest).any (fun x => x.info.vg) = false := by
  rw [List.any_cons]
  have : (N.afn i name p).info.vg = false := hi
  rw [this, Bool.false_or, List.any_eq_false]
  intro x hx; simp [hrest x hx]

/-- `finish` of the chain `Build` has = the machine's final pass over the linked chain -/
theorem finish_psi (top : Bool) (s : String) (b : Bool) (L : List N) (hL : Shape1 L ∨ Shape2 L) :
    finish (psi top s b L) = ccChain top s (setAccChain b (delRoot (Build.markVg L))) := by
  rcases hL with hL | hL
  · rw [psi, keepRoot_shape1 hL]
    obtain ⟨h, rest, rfl, hh, hv⟩ := hL
    cases rest with
    | nil =>
      have hm : Build.markVg [h] = [h] := markVg_none (by simp [hv])
      rw [hm, delRoot_cons, delRootNode_head_nil _ hh]
      simp only [setAccChain, List.map_cons, List.map_nil]
      rw [ccChain_single, finish, deleteHead_single]
      apply markVg_none
      cases top <;> simp [ccNode, connNode_info, nSetAcc_info, hv]
    | cons m rest =>
      rw [delRoot_markVg_head h m rest hh hv]
      simp only [setAccChain, List.map_cons]
      obtain ⟨h', e1, e2, _⟩ := ccChain_cons_tail top s (nSetAcc b h) (nSetAcc b m :: rest.map (nSetAcc b))
      obtain ⟨m', e3, _, _⟩ := ccChain_cons_tail top s (nSetAcc b m) (rest.map (nSetAcc b))
      rw [e1, e3, finish, deleteHead_head_cons _ _ _ (by rw [e2, nSetAcc_isHead]; exact hh), ← e3]
      have := setAcc_markVg b (m :: rest)
      simp only [setAccChain, List.map_cons] at this
      rw [← ccChain_markVg, ← this]
  · obtain ⟨i, name, p, rest, rfl, hi, hrest⟩ := hL
    have hnone : (N.afn i name p :: rest).any (fun x => x.info.vg) = false := any_vg_afn i name p rest hi hrest
    rw [markVg_none hnone, delRoot_cons, delRootNode_afn, psi]
    simp only [keepRoot]
    rw [finish]
    obtain ⟨h', e1, e2, _⟩ := ccChain_cons_tail top s (nSetAcc b (.afn i name (delRoot p))) (rest.map (nSetAcc b))
    simp only [setAccChain, List.map_cons]
    rw [e1, deleteHead_not_head _ _ (by rw [e2]; rfl), ← e1]
    apply markVg_none
    rw [ccChain_vg]
    have := any_vg_of_map (setAcc_vg b (N.afn i name (delRoot p) :: rest))
    simp only [setAccChain, List.map_cons] at this
    rw [this]
    exact any_vg_afn i name (delRoot p) rest hi hrest

/-! ### the simulation -/

theorem nodeWith_nice (top : Bool) (p : Pre) (hp : NicePre p) (hna : p.isAfn = false) (a b : Bool) (c : String) :
    ccNode top c (nSetAcc b (rawOf a p)) =
      nodeWith p { text := p.text, conn := if top then c else "", vg := preVg p, acc := b } ∧
    (rawOf a p).info.text = p.text := by
  cases p with
  | node t vg mk =>
    have h : NiceMk mk := hp
    simp only [rawOf, nodeWith, h.acc, h.info, Pre.text, and_true]
    cases top
    · simp [ccNode]
    · simp [ccNode, h.conn]
  | ffn t n =>
    simp only [rawOf, nodeWith, Pre.text]
    cases top <;> exact ⟨rfl, rfl⟩
  | afn t n => cases hna

theorem presOK_of_all_fn : ∀ (ps : List Pre), ps.all isFnPre = true → presOK ps = true
  | [], _ => rfl
  | p :: ps, h => by
    simp only [List.all_cons, Bool.and_eq_true] at h
    simp [presOK, h.1, h.2]

theorem psi_snoc (top : Bool) (s : String) (b : Bool) (L : List N) (hL : L ≠ []) (y : N) :
    psi top s b (L ++ [y]) =
      psi top (y.info.text ++ s) b L ++ [ccNode top (y.info.text ++ s) (nSetAcc b y)] := by
  unfold psi
  rw [keepRoot_snoc hL]
  simp only [setAccChain, List.map_append, List.map_cons, List.map_nil]
  rw [ccChain_snoc, nSetAcc_info]

theorem shape1_ne_nil {L : List N} (h : Shape1 L) : L ≠ [] := by
  obtain ⟨hd, rest, rfl, _⟩ := h; simp
theorem shape2_ne_nil {L : List N} (h : Shape2 L) : L ≠ [] := by
  obtain ⟨i, name, p, rest, rfl, _⟩ := h; simp

theorem shape1_snoc {L : List N} (h : Shape1 L) (y : N) : Shape1 (L ++ [y]) := by
  obtain ⟨hd, rest, rfl, hh, hv⟩ := h
  exact ⟨hd, rest ++ [y], rfl, hh, hv⟩

theorem shape2_snoc {L : List N} (h : Shape2 L) (y : N) (hy : y.info.vg = false) : Shape2 (L ++ [y]) := by
  obtain ⟨i, name, p, rest, rfl, hi, hr⟩ := h
  refine ⟨i, name, p, rest ++ [y], rfl, hi, ?_⟩
  intro n hn
  rcases List.mem_append.mp hn with hn | hn
  · exact hr n hn
  · simp only [List.mem_singleton] at hn; subst hn; exact hy

/-- a plain element or a filter function: `Build` appends the node with its final Info, the machine
    appends the raw node -/
theorem step_append (top : Bool) (p : Pre) (hp : NicePre p) (hna : p.isAfn = false) (a : Bool)
    (s : String) (b : Bool) (L : List N) (hL : L ≠ []) :
    psi top (p.text ++ s) b L ++ [nodeWith p { text := p.text, conn := if top then p.text ++ s else "", vg := preVg p, acc := b }]
      = psi top s b (L ++ [rawOf a p]) := by
  rw [psi_snoc top s b L hL]
  obtain ⟨h1, h2⟩ := nodeWith_nice top p hp hna a b (p.text ++ s)
  rw [h2, h1]

/-- the simulation: `assemble` over the Infos of `mkInfos` against `linkPres` over the raw nodes -/
theorem assemble_link (env : Env) (cfg : Cfg) (top a : Bool) :
    ∀ (ps : List Pre) (L A : List N),
      (∀ p ∈ ps, NicePre p) → (∀ p ∈ ps, foundPre env p) →
      ((Shape1 L ∧ presOK ps = true) ∨ (Shape2 L ∧ ps.all isFnPre = true)) →
      A = psi top (tailConn ps) (top && cfg.accessor && noAfn ps) L →
      assemble env (infosG cfg top ps) A = .ok (psi top "" (top && cfg.accessor) (linkPres a L ps)) ∧
        (Shape1 (linkPres a L ps) ∨ Shape2 (linkPres a L ps)) := by
  intro ps
  induction ps with
  | nil =>
    intro L A _ _ hinv hA
    refine ⟨?_, ?_⟩
    · simp only [infosG, assemble, linkPres, List.foldl_nil]
      rw [hA]; simp [tailConn_nil, noAfn]
    · rcases hinv with h | h
      · exact .inl h.1
      · exact .inr h.1
  | cons p ps ih =>
    intro L A hnice hfound hinv hA
    have hnice' : ∀ q ∈ ps, NicePre q := fun q hq => hnice q (List.mem_cons_of_mem _ hq)
    have hfound' : ∀ q ∈ ps, foundPre env q := fun q hq => hfound q (List.mem_cons_of_mem _ hq)
    have hp := hnice p List.mem_cons_self
    have hf := hfound p List.mem_cons_self
    have hLne : L ≠ [] := by
      rcases hinv with h | h
      · exact shape1_ne_nil h.1
      · exact shape2_ne_nil h.1
    rw [linkPres_cons]
    simp only [infosG]
    cases p with
    | node t vg mk =>
      have hinv1 : Shape1 L ∧ presOK ps = true := by
        rcases hinv with h | h
        · exact ⟨h.1, by simpa [presOK, isFnPre] using h.2⟩
        · simp [isFnPre] at h
      simp only [assemble]
      apply ih _ _ hnice' hfound' (.inl ⟨shape1_snoc hinv1.1 _, hinv1.2⟩)
      rw [hA, tailConn_cons, noAfn_cons]
      simp only [Pre.isAfn, Bool.not_false, Bool.true_and]
      have := step_append top (.node t vg mk) hp rfl a (tailConn ps) (top && cfg.accessor && noAfn ps) L hLne
      simpa [nodeWith, linkFn, Pre.text, preVg] using this
    | ffn t n =>
      obtain ⟨f, hf⟩ := hf
      simp only [assemble, hf]
      have hinv' : (Shape1 (L ++ [rawOf a (.ffn t n)]) ∧ presOK ps = true) ∨
          (Shape2 (L ++ [rawOf a (.ffn t n)]) ∧ ps.all isFnPre = true) := by
        rcases hinv with h | h
        · have hall : ps.all isFnPre = true := by simpa [presOK, isFnPre] using h.2
          exact .inl ⟨shape1_snoc h.1 _, presOK_of_all_fn ps hall⟩
        · have hall : ps.all isFnPre = true := by
            have := h.2; simp only [List.all_cons, Bool.and_eq_true] at this; exact this.2
          exact .inr ⟨shape2_snoc h.1 _ rfl, hall⟩
      apply ih _ _ hnice' hfound' hinv'
      rw [hA, tailConn_cons, noAfn_cons]
      simp only [Pre.isAfn, Bool.not_false, Bool.true_and]
      have := step_append top (.ffn t n) hp rfl a (tailConn ps) (top && cfg.accessor && noAfn ps) L hLne
      simpa [nodeWith, linkFn, Pre.text, preVg] using this
    | afn t n =>
      obtain ⟨f, hf⟩ := hf
      simp only [assemble, hf]
      have hall : ps.all isFnPre = true := by
        rcases hinv with h | h
        · simpa [presOK, isFnPre] using h.2
        · have := h.2; simp only [List.all_cons, Bool.and_eq_true] at this; exact this.2
      have hshape : Shape1 L ∨ Shape2 L := by
        rcases hinv with h | h
        · exact .inl h.1
        · exact .inr h.1
      apply ih _ _ hnice' hfound' (.inr ⟨⟨_, n, _, [], rfl, rfl, by simp⟩, hall⟩)
      rw [hA, tailConn_cons, noAfn_cons]
      simp only [Pre.isAfn, Bool.not_true, Bool.false_and, Bool.and_false, Pre.text, preVg]
      rw [finish_psi top _ false L hshape]
      simp only [psi, linkFn, keepRoot, setAccChain, List.map_cons, List.map_nil, nSetAcc_afn]
      rw [ccChain_single, ccNode_afn]
      simp only [N.info]
      have := delRoot_setAcc false (Build.markVg L)
      simp only [setAccChain] at this
      rw [this]

/-! ### the accessor flag of the top-level nodes is already the configuration's -/

/-- setting the flag to `a` changes nothing -/
def TA (a : Bool) (l : List N) : Prop := ∀ n ∈ l, nSetAcc a n = n

theorem TA.setAcc {a : Bool} {l : List N} (h : TA a l) : setAccChain a l = l := by
  unfold setAccChain
  conv => rhs; rw [← List.map_id l]
  exact List.map_congr_left h

theorem TA.markVg {a : Bool} {l : List N} (h : TA a l) : TA a (Build.markVg l) := by
  cases l with
  | nil => exact h
  | cons n rest =>
    rw [markVg_cons]
    split
    · intro x hx
      rcases List.mem_cons.mp hx with rfl | hx
      · rw [nSetAcc_setVg, h n List.mem_cons_self]
      · exact h x (List.mem_cons_of_mem _ hx)
    · exact h

theorem TA.delRoot {a : Bool} {l : List N} (h : TA a l) : TA a (delRoot l) := by
  cases l with
  | nil => rw [delRoot_nil]; exact h
  | cons n rest =>
    rw [delRoot_cons]
    have hrest : TA a rest := fun x hx => h x (List.mem_cons_of_mem _ hx)
    rcases node_kind n with hk | ⟨i, name, p, rfl⟩ | hk
    · cases rest with
      | nil => rw [delRootNode_head_nil _ hk]; exact h
      | cons m rest =>
        rw [delRootNode_head_cons _ _ _ hk]
        intro x hx
        rcases List.mem_cons.mp hx with rfl | hx
        · split
          · rw [nSetAcc_setVg, hrest m List.mem_cons_self]
          · exact hrest m List.mem_cons_self
        · exact hrest x (List.mem_cons_of_mem _ hx)
    · rw [delRootNode_afn]
      intro x hx
      rcases List.mem_cons.mp hx with rfl | hx
      · have := h _ List.mem_cons_self
        rw [nSetAcc_afn] at this ⊢
        injection this with h1 _ _
        rw [h1]
      · exact hrest x hx
    · rw [delRootNode_plain _ _ hk]; exact h

theorem TA.linkPres {a : Bool} : ∀ (ps : List Pre) {L : List N}, TA a L → (∀ p ∈ ps, NicePre p) →
    TA a (linkPres a L ps) := by
  intro ps
  induction ps with
  | nil => intro L h _; exact h
  | cons p ps ih =>
    intro L h hn
    rw [linkPres_cons]
    apply ih _ (fun q hq => hn q (List.mem_cons_of_mem _ hq))
    have hp := hn p List.mem_cons_self
    cases p with
    | node t vg mk =>
      have hm : NiceMk mk := hp
      intro x hx
      simp only [linkFn, List.mem_append, List.mem_singleton] at hx
      rcases hx with hx | rfl
      · exact h x hx
      · simp [rawOf, nodeWith, hm.acc]
    | ffn t n =>
      intro x hx
      simp only [linkFn, List.mem_append, List.mem_singleton] at hx
      rcases hx with hx | rfl
      · exact h x hx
      · rfl
    | afn t n =>
      intro x hx
      simp only [linkFn, List.mem_singleton] at hx
      subst hx
      rfl

end JPV.PP
