/-
ParsePrintPeg — a small calculus for running `Peg.run Gen.grammar` on inputs of known shape.

  `Sfx inp pos l`        the input from rune `pos` on is `l`
  `Acc F e inp p p' t`   with every fuel ≥ F, `e` started at `p` succeeds, ends at `p'`, tokens `t`
  `Rej F e inp p`        with every fuel ≥ F, `e` started at `p` fails (does NOT run out of fuel)

and one composition lemma per PEG constructor. Fuel is the recursion depth of the interpreter; all
recogniser lemmas of ParsePrint* state it in the linear form `C + 32 * (number of runes matched)`,
which composes through `*` loops (each round matches ≥ 1 rune and costs one level) and through the
recursion filter → path → filter (each level of nesting is ≥ 5 runes longer than what is nested).
-/
import JPV.Lemmas.Peg
import JPV.Gen.Grammar
namespace JPV.PP
open JPV.Peg

/-- the input from `pos` on is `l` -/
def Sfx (inp : Array Char) (pos : Nat) (l : List Char) : Prop := inp.toList.drop pos = l

theorem Sfx.zero (l : List Char) : Sfx l.toArray 0 l := by simp [Sfx]

theorem Sfx.head {inp : Array Char} {pos : Nat} {c : Char} {l : List Char} (h : Sfx inp pos (c :: l)) :
    inp[pos]? = some c := by
  unfold Sfx at h
  have : inp.toList[pos]? = some c := by
    rw [← List.head?_drop, h]; rfl
  simpa using this

theorem Sfx.tail {inp : Array Char} {pos : Nat} {c : Char} {l : List Char} (h : Sfx inp pos (c :: l)) :
    Sfx inp (pos + 1) l := by
  unfold Sfx at h ⊢
  rw [← List.drop_drop, h]; rfl

theorem Sfx.atEnd {inp : Array Char} {pos : Nat} (h : Sfx inp pos []) : inp[pos]? = none := by
  unfold Sfx at h
  have : inp.toList[pos]? = none := by
    rw [← List.head?_drop, h]; rfl
  simpa using this

theorem Sfx.size_le {inp : Array Char} {pos : Nat} (h : Sfx inp pos []) : inp.size ≤ pos := by
  unfold Sfx at h
  simpa using (List.drop_eq_nil_iff.mp h)

theorem Sfx.append {inp : Array Char} {pos : Nat} {a b : List Char} (h : Sfx inp pos (a ++ b)) :
    Sfx inp (pos + a.length) b := by
  unfold Sfx at h ⊢
  rw [← List.drop_drop, h]; simp

theorem Sfx.lt_size {inp : Array Char} {pos : Nat} {c : Char} {l : List Char} (h : Sfx inp pos (c :: l)) :
    pos < inp.size := by
  rcases Nat.lt_or_ge pos inp.size with hlt | hge
  · exact hlt
  · have := h.head
    rw [Array.getElem?_eq_none hge] at this; cases this

theorem Sfx.matchLit {inp : Array Char} : ∀ (cs : List Char) {pos : Nat} {l : List Char}, Sfx inp pos l →
    matchLit inp cs pos = cs.isPrefixOf l := by
  intro cs
  induction cs with
  | nil => intro pos l _; simp [Peg.matchLit]
  | cons c cs ih =>
    intro pos l h
    cases l with
    | nil => simp [Peg.matchLit, h.atEnd]
    | cons d l =>
      simp only [Peg.matchLit, h.head, ih h.tail, List.isPrefixOf]

/-- the text of a capture -/
theorem Sfx.textOf {inp : Array Char} {pos : Nat} {s r : List Char} (h : Sfx inp pos (s ++ r)) :
    String.ofList ((inp.toList.drop pos).take (pos + s.length - pos)) = String.ofList s := by
  unfold Sfx at h
  rw [h]; simp

/-! ### Acc / Rej -/

def Acc (F : Nat) (e : PE) (inp : Array Char) (p p' : Nat) (t : List Tok) : Prop :=
  ∀ f, F ≤ f → run Gen.grammar f e inp p = .ok p' t

def Rej (F : Nat) (e : PE) (inp : Array Char) (p : Nat) : Prop :=
  ∀ f, F ≤ f → run Gen.grammar f e inp p = .fail

variable {inp : Array Char}

theorem Acc.mono {F F' : Nat} {e : PE} {p p' : Nat} {t : List Tok} (h : Acc F e inp p p' t) (hF : F ≤ F') :
    Acc F' e inp p p' t := fun f hf => h f (Nat.le_trans hF hf)

theorem Rej.mono {F F' : Nat} {e : PE} {p : Nat} (h : Rej F e inp p) (hF : F ≤ F') :
    Rej F' e inp p := fun f hf => h f (Nat.le_trans hF hf)

theorem Acc.cast {F : Nat} {e : PE} {p p1 p2 : Nat} {t1 t2 : List Tok} (h : Acc F e inp p p1 t1)
    (hp : p1 = p2) (ht : t1 = t2) : Acc F e inp p p2 t2 := by subst hp; subst ht; exact h

/-- positive fuel -/
theorem exists_succ {F f : Nat} (h : F + 1 ≤ f) : ∃ m, f = m + 1 ∧ F ≤ m := ⟨f - 1, by omega, by omega⟩

theorem acc_act (i : Nat) (p : Nat) : Acc 1 (.act i) inp p p [.action i] := by
  intro f hf
  obtain ⟨m, rfl, _⟩ := exists_succ (F := 0) hf
  rfl

theorem acc_lit (s : String) (cs : List Char) (hcs : s.toList = cs) {p : Nat} {r : List Char}
    (h : Sfx inp p (cs ++ r)) : Acc 1 (.lit s) inp p (p + cs.length) [] := by
  intro f hf
  obtain ⟨m, rfl, _⟩ := exists_succ (F := 0) hf
  rw [run_lit, hcs, h.matchLit]
  have : cs.isPrefixOf (cs ++ r) = true := by simp
  rw [this, if_pos rfl, ← hcs, String.length_toList]

theorem rej_lit (s : String) (cs : List Char) (hcs : s.toList = cs) {p : Nat} {l : List Char}
    (h : Sfx inp p l) (hn : cs.isPrefixOf l = false) : Rej 1 (.lit s) inp p := by
  intro f hf
  obtain ⟨m, rfl, _⟩ := exists_succ (F := 0) hf
  rw [run_lit, hcs, h.matchLit, hn]
  rfl

theorem acc_cls (neg : Bool) (rs : List (Char × Char)) {p : Nat} {c : Char} {r : List Char}
    (h : Sfx inp p (c :: r)) (hc : (inRanges c rs != neg) = true) : Acc 1 (.cls neg rs) inp p (p + 1) [] := by
  intro f hf
  obtain ⟨m, rfl, _⟩ := exists_succ (F := 0) hf
  rw [run_cls, h.head]
  simp only [hc, if_true]

theorem rej_cls (neg : Bool) (rs : List (Char × Char)) {p : Nat} {c : Char} {r : List Char}
    (h : Sfx inp p (c :: r)) (hc : (inRanges c rs != neg) = false) : Rej 1 (.cls neg rs) inp p := by
  intro f hf
  obtain ⟨m, rfl, _⟩ := exists_succ (F := 0) hf
  rw [run_cls, h.head]
  simp only [hc]
  rfl

theorem rej_cls_nil (neg : Bool) (rs : List (Char × Char)) {p : Nat}
    (h : Sfx inp p []) : Rej 1 (.cls neg rs) inp p := by
  intro f hf
  obtain ⟨m, rfl, _⟩ := exists_succ (F := 0) hf
  rw [run_cls, h.atEnd]

theorem acc_any {p : Nat} {c : Char} {r : List Char} (h : Sfx inp p (c :: r)) : Acc 1 .any inp p (p + 1) [] := by
  intro f hf
  obtain ⟨m, rfl, _⟩ := exists_succ (F := 0) hf
  rw [run_any, if_pos h.lt_size]

theorem rej_any {p : Nat} (h : Sfx inp p []) : Rej 1 .any inp p := by
  intro f hf
  obtain ⟨m, rfl, _⟩ := exists_succ (F := 0) hf
  rw [run_any, if_neg (by have := h.size_le; omega)]

theorem Acc.seq {Fa Fb : Nat} {a b : PE} {p p1 p2 : Nat} {t1 t2 : List Tok}
    (ha : Acc Fa a inp p p1 t1) (hb : Acc Fb b inp p1 p2 t2) :
    Acc (max Fa Fb + 1) (.seq a b) inp p p2 (t1 ++ t2) := by
  intro f hf
  obtain ⟨m, rfl, hm⟩ := exists_succ hf
  rw [run_seq, ha m (by omega)]; simp only []; rw [hb m (by omega)]

theorem Rej.seq_l {Fa : Nat} {a : PE} (b : PE) {p : Nat} (ha : Rej Fa a inp p) :
    Rej (Fa + 1) (.seq a b) inp p := by
  intro f hf
  obtain ⟨m, rfl, hm⟩ := exists_succ hf
  rw [run_seq, ha m hm]

theorem Rej.seq_r {Fa Fb : Nat} {a b : PE} {p p1 : Nat} {t1 : List Tok}
    (ha : Acc Fa a inp p p1 t1) (hb : Rej Fb b inp p1) : Rej (max Fa Fb + 1) (.seq a b) inp p := by
  intro f hf
  obtain ⟨m, rfl, hm⟩ := exists_succ hf
  rw [run_seq, ha m (by omega)]; simp only []; rw [hb m (by omega)]

theorem Acc.alt_l {Fa : Nat} {a : PE} (b : PE) {p p1 : Nat} {t : List Tok} (ha : Acc Fa a inp p p1 t) :
    Acc (Fa + 1) (.alt a b) inp p p1 t := by
  intro f hf
  obtain ⟨m, rfl, hm⟩ := exists_succ hf
  rw [run_alt, ha m hm]

theorem Acc.alt_r {Fa Fb : Nat} {a b : PE} {p p1 : Nat} {t : List Tok}
    (ha : Rej Fa a inp p) (hb : Acc Fb b inp p p1 t) : Acc (max Fa Fb + 1) (.alt a b) inp p p1 t := by
  intro f hf
  obtain ⟨m, rfl, hm⟩ := exists_succ hf
  rw [run_alt, ha m (by omega)]; simp only []; rw [hb m (by omega)]

theorem Rej.alt {Fa Fb : Nat} {a b : PE} {p : Nat}
    (ha : Rej Fa a inp p) (hb : Rej Fb b inp p) : Rej (max Fa Fb + 1) (.alt a b) inp p := by
  intro f hf
  obtain ⟨m, rfl, hm⟩ := exists_succ hf
  rw [run_alt, ha m (by omega)]; simp only []; rw [hb m (by omega)]

theorem Acc.star_nil {Fa : Nat} {a : PE} {p : Nat} (ha : Rej Fa a inp p) :
    Acc (Fa + 1) (.star a) inp p p [] := by
  intro f hf
  obtain ⟨m, rfl, hm⟩ := exists_succ hf
  rw [run_star, ha m hm]

theorem Acc.star_cons {Fa Fs : Nat} {a : PE} {p p1 p2 : Nat} {t1 t2 : List Tok}
    (ha : Acc Fa a inp p p1 t1) (hs : Acc Fs (.star a) inp p1 p2 t2) :
    Acc (max Fa Fs + 1) (.star a) inp p p2 (t1 ++ t2) := by
  intro f hf
  obtain ⟨m, rfl, hm⟩ := exists_succ hf
  rw [run_star, ha m (by omega)]; simp only []; rw [hs m (by omega)]

theorem Acc.plus {Fa Fs : Nat} {a : PE} {p p1 p2 : Nat} {t1 t2 : List Tok}
    (ha : Acc Fa a inp p p1 t1) (hs : Acc Fs (.star a) inp p1 p2 t2) :
    Acc (max Fa Fs + 1) (.plus a) inp p p2 (t1 ++ t2) := by
  intro f hf
  obtain ⟨m, rfl, hm⟩ := exists_succ hf
  rw [run_plus, ha m (by omega)]; simp only []; rw [hs m (by omega)]

theorem Rej.plus {Fa : Nat} {a : PE} {p : Nat} (ha : Rej Fa a inp p) : Rej (Fa + 1) (.plus a) inp p := by
  intro f hf
  obtain ⟨m, rfl, hm⟩ := exists_succ hf
  rw [run_plus, ha m hm]

theorem Acc.opt_some {Fa : Nat} {a : PE} {p p1 : Nat} {t : List Tok} (ha : Acc Fa a inp p p1 t) :
    Acc (Fa + 1) (.opt a) inp p p1 t := by
  intro f hf
  obtain ⟨m, rfl, hm⟩ := exists_succ hf
  rw [run_opt, ha m hm]

theorem Acc.opt_none {Fa : Nat} {a : PE} {p : Nat} (ha : Rej Fa a inp p) :
    Acc (Fa + 1) (.opt a) inp p p [] := by
  intro f hf
  obtain ⟨m, rfl, hm⟩ := exists_succ hf
  rw [run_opt, ha m hm]

theorem Acc.not {Fa : Nat} {a : PE} {p : Nat} (ha : Rej Fa a inp p) : Acc (Fa + 1) (.not a) inp p p [] := by
  intro f hf
  obtain ⟨m, rfl, hm⟩ := exists_succ hf
  rw [run_not, ha m hm]

theorem Rej.not {Fa : Nat} {a : PE} {p p1 : Nat} {t : List Tok} (ha : Acc Fa a inp p p1 t) :
    Rej (Fa + 1) (.not a) inp p := by
  intro f hf
  obtain ⟨m, rfl, hm⟩ := exists_succ hf
  rw [run_not, ha m hm]

theorem Acc.cap {Fa : Nat} {a : PE} {p p1 : Nat} {t : List Tok} (ha : Acc Fa a inp p p1 t) :
    Acc (Fa + 1) (.cap a) inp p p1 (t ++ [.text p p1]) := by
  intro f hf
  obtain ⟨m, rfl, hm⟩ := exists_succ hf
  rw [run_cap, ha m hm]

theorem Rej.cap {Fa : Nat} {a : PE} {p : Nat} (ha : Rej Fa a inp p) : Rej (Fa + 1) (.cap a) inp p := by
  intro f hf
  obtain ⟨m, rfl, hm⟩ := exists_succ hf
  rw [run_cap, ha m hm]

theorem Acc.rule {Fa : Nat} (name : String) {body : PE} (hb : ruleBody Gen.grammar name = body)
    {p p1 : Nat} {t : List Tok} (ha : Acc Fa body inp p p1 t) : Acc (Fa + 1) (.rule name) inp p p1 t := by
  intro f hf
  obtain ⟨m, rfl, hm⟩ := exists_succ hf
  rw [run_rule, hb, ha m hm]

theorem Rej.rule {Fa : Nat} (name : String) {body : PE} (hb : ruleBody Gen.grammar name = body)
    {p : Nat} (ha : Rej Fa body inp p) : Rej (Fa + 1) (.rule name) inp p := by
  intro f hf
  obtain ⟨m, rfl, hm⟩ := exists_succ hf
  rw [run_rule, hb, ha m hm]

/-! ### `*` over a list of printed items -/

/-- concatenation of the printed items -/
def flat {α : Type} (pr : α → List Char) : List α → List Char
  | [] => []
  | x :: xs => pr x ++ flat pr xs

/-- the tokens of the rounds of a loop, each item at its own position -/
def toksStar {α : Type} (pr : α → List Char) (tk : α → Nat → List Tok) : List α → Nat → List Tok
  | [], _ => []
  | x :: xs, pos => tk x pos ++ toksStar pr tk xs (pos + (pr x).length)

/-- `a*` over the printed items `xs`, followed by `post` on which `a` fails.
    `Stop` is what every item needs to know about what follows it. -/
theorem acc_star_items {α : Type} (a : PE) (pr : α → List Char) (tk : α → Nat → List Tok)
    (Good : α → Prop) (Stop : List Char → Prop) (C E : Nat) (post : List Char)
    (hstop_post : Stop post)
    (hstop_item : ∀ x r, Good x → Stop (pr x ++ r))
    (hne : ∀ x, Good x → 1 ≤ (pr x).length)
    (hitem : ∀ x r pos, Good x → Stop r → Sfx inp pos (pr x ++ r) →
      Acc (C + 32 * (pr x).length) a inp pos (pos + (pr x).length) (tk x pos))
    (hend : ∀ pos, Sfx inp pos post → Rej E a inp pos) :
    ∀ (xs : List α) (pos : Nat), (∀ x ∈ xs, Good x) → Sfx inp pos (flat pr xs ++ post) →
      Acc (max C E + 1 + 32 * (flat pr xs).length) (.star a) inp pos (pos + (flat pr xs).length)
        (toksStar pr tk xs pos) := by
  intro xs
  induction xs with
  | nil =>
    intro pos _ h
    exact (Acc.star_nil (hend pos h)).mono (by simp [flat]; omega)
  | cons x xs ih =>
    intro pos hg h
    have hgx : Good x := hg x (by simp)
    have hgs : ∀ y ∈ xs, Good y := fun y hy => hg y (by simp [hy])
    simp only [flat, List.append_assoc] at h
    have hstop : Stop (flat pr xs ++ post) := by
      cases xs with
      | nil => simpa [flat] using hstop_post
      | cons y ys =>
        simp only [flat, List.append_assoc]
        exact hstop_item y _ (hgs y (by simp))
    have h1 := hitem x _ pos hgx hstop h
    have h2 := ih (pos + (pr x).length) hgs h.append
    have hl := hne x hgx
    refine ((Acc.star_cons h1 h2).mono ?_).cast ?_ ?_
    · simp only [flat, List.length_append]; omega
    · simp only [flat, List.length_append]; omega
    · rfl

end JPV.PP
