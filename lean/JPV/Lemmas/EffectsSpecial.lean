/-
Soundness of the tag checker, part 3: the actions that are not plain pop/push —
Action0 (sets `p.root`), Action2 (`setNodeChain`), Action4/7 (`setLastNodeText`), Action27 (needs a
non-empty capture), Action38/39 (`saveParams` / `loadParams`) — and the combined simulation lemma.
-/
import JPV.Lemmas.EffectsActions
namespace JPV.Peg

/-! ### chains keep their head -/

theorem delRoot_cons (n : N) (r : List N) : ∃ n' r', delRoot (n :: r) = n' :: r' := by
  unfold delRoot
  cases n <;> cases r <;> simp [delRootNode]

theorem connChain_cons (pfx : String) (n : N) (r : List N) : ∃ n' r', connChain pfx (n :: r) = n' :: r' := by
  unfold connChain
  exact ⟨_, _, rfl⟩

theorem innerHeadNode_setVg (n : N) : innerHeadNode n.setVg = innerHeadNode n := by
  cases n <;> simp [N.setVg, innerHeadNode]

theorem innerHeadNode_mapInfoDeep (f : Info → Info) (n : N) : innerHeadNode (nMapInfoDeep f n) = innerHeadNode n := by
  cases n <;> simp [nMapInfoDeep, nMapInfo, innerHeadNode]

theorem markVg_eq (n : N) (r : List N) :
    markVg (n :: r) = if (n :: r).any (fun x => x.info.vg) then n.setVg :: r else n :: r := rfl

theorem innerHead_markVg (ch : List N) : innerHead (markVg ch) = innerHead ch := by
  cases ch with
  | nil => rfl
  | cons n r =>
    rw [markVg_eq]
    split
    · simp [innerHead, innerHeadNode_setVg]
    · rfl

theorem markVg_cons (n : N) (r : List N) : ∃ n' r', markVg (n :: r) = n' :: r' := by
  rw [markVg_eq]
  split <;> exact ⟨_, _, rfl⟩

theorem innerHead_setAccChain (m : Bool) (ch : List N) : innerHead (setAccChain m ch) = innerHead ch := by
  cases ch with
  | nil => rfl
  | cons n r => simp [setAccChain, innerHead, nSetAcc, innerHeadNode_mapInfoDeep]

theorem innerHead_append (n : N) (r ch : List N) : innerHead ((n :: r) ++ ch) = innerHead (n :: r) := by
  simp [innerHead]

/-! ### setNodeChain on a frame of nodes -/

/-- linking a list of nodes onto a non-empty chain succeeds; the result is non-empty and has the
    same innermost head -/
theorem linkAll_chains : ∀ (L : List Item) (n : N) (r : List N), (∀ x ∈ L, IsChain x) →
    ∃ n' r', linkAll (n :: r) L = .ok (n' :: r') ∧ innerHead (n' :: r') = innerHead (n :: r) := by
  intro L
  induction L with
  | nil => intro n r _; exact ⟨n, r, rfl, rfl⟩
  | cons x rest ih =>
    intro n r hall
    obtain ⟨m, mr, rfl⟩ := hall x List.mem_cons_self
    have hrest : ∀ y ∈ rest, IsChain y := fun y hy => hall y (List.mem_cons_of_mem _ hy)
    unfold linkAll
    cases m with
    | afn i name p =>
      simp only [linkOne, bind, Except.bind]
      obtain ⟨n', r', h1, h2⟩ := ih (.afn i name (setAccChain false (markVg (n :: r)))) mr hrest
      refine ⟨n', r', h1, ?_⟩
      rw [h2]
      simp only [innerHead, innerHeadNode]
      rw [innerHead_setAccChain, innerHead_markVg]
      rfl
    | root i | cur i | child i k | wild i | multi i ids t | desc i a b | union i s | filter i q | ffn i nm =>
      simp only [linkOne, asNode, bind, Except.bind]
      obtain ⟨n', r', h1, h2⟩ := ih n (r ++ _ :: mr) hrest
      refine ⟨n', r', ?_, ?_⟩
      · simpa using h1
      · rw [h2]; simp [innerHead]

/-- Action2 on a frame that consists of one or more nodes -/
theorem act2_run (c : Ctx) (st : St) (p : Bool) (h : NodesRun p st.stack) :
    ∃ n r, act c 2 st = .ok { st with stack := [.chain (n :: r)] } ∧
      (p = true → innerHead (n :: r) ≠ .other) := by
  obtain ⟨stack, saved, root, tb, te⟩ := st
  obtain ⟨hne, hall, hp⟩ := h
  simp only at hne hall hp
  -- the frame bottom-first
  have hrev : ∃ first rest, stack.reverse = first :: rest := by
    cases hr : stack.reverse with
    | nil => exact absurd (List.reverse_eq_nil_iff.mp hr) hne
    | cons a b => exact ⟨a, b, rfl⟩
  obtain ⟨first, rest, hrev⟩ := hrev
  have hmem : ∀ x ∈ first :: rest, IsChain x := by
    intro x hx
    rw [← hrev] at hx
    exact hall x (List.mem_reverse.mp hx)
  obtain ⟨fn, fr, rfl⟩ := hmem first List.mem_cons_self
  have hlast : stack.getLast? = some (.chain (fn :: fr)) := by
    rw [List.getLast?_eq_head?_reverse, hrev]; rfl
  have hpf : p = true → innerHead (fn :: fr) ≠ .other := by
    intro hpt
    obtain ⟨ch, hch, hin⟩ := hp hpt
    rw [hlast] at hch
    cases hch
    exact hin
  cases rest with
  | nil =>
    -- a single node: setNodeChain does nothing
    have hstack : stack = [.chain (fn :: fr)] := by
      have := congrArg List.reverse hrev
      simpa using this
    subst hstack
    obtain ⟨n', r', hm⟩ := markVg_cons fn fr
    refine ⟨n', r', ?_, ?_⟩
    · show act2 c _ = _
      unfold act2
      simp [setNodeChain, updateRootValueGroup, asNode, bind, Except.bind, hm]
    · intro hpt
      rw [← hm, innerHead_markVg]
      exact hpf hpt
  | cons x xs =>
    obtain ⟨n', r', hl, hi⟩ := linkAll_chains (x :: xs) fn fr
      (fun y hy => hmem y (List.mem_cons_of_mem _ hy))
    obtain ⟨n'', r'', hm⟩ := markVg_cons n' r'
    refine ⟨n'', r'', ?_, ?_⟩
    · show act2 c _ = _
      unfold act2
      simp only [setNodeChain, hrev, asNode, bind, Except.bind, hl, updateRootValueGroup,
        List.reverse_cons, List.reverse_nil, List.nil_append, hm]
    · intro hpt
      rw [← hm, innerHead_markVg, hi]
      exact hpf hpt

/-! ### setLastNodeText keeps tags -/

theorem TagOK_setText {k : Tag} {n : N} {r : List N} (t : String) (h : TagOK k [.chain (n :: r)]) :
    TagOK k [.chain (nSetText t n :: r)] := by
  cases h with
  | node => exact .node _ _
  | nodeP _ hh =>
    refine .nodeP _ ?_
    simpa [innerHead, nSetText, innerHeadNode_mapInfoDeep] using hh
  | identC i k => exact .identC _ _
  | identW i => exact .identW _
  | idmC i k => exact .idmC _ _
  | idmW i => exact .idmW _
  | idmM i ids tw r => exact .idmM _ _ _ _
  | union i subs r => exact .union _ _ _

theorem TagOK_node_inv {k : Tag} {its : List Item} (hk : k.le .node = true) (h : TagOK k its) :
    ∃ n r, its = [.chain (n :: r)] := by
  have := h.le hk
  cases this
  exact ⟨_, _, rfl⟩

theorem Segs.items_nil {ks : List Tag} (h : Segs ks []) : ks = [] := by
  cases ks with
  | nil => rfl
  | cons k kr => exact absurd rfl (h.ne_nil (by simp))

/-! ### the special actions -/

theorem act0_sound {c : Ctx} {A : AState} {R S} {st : St} {ks : List Tag}
    (ht : takeTags [.node] A.known = some ks) (h : Gamma c A R S st) :
    Post (act c 0 st) (Gamma c { A with known := ks, rootSet := true } R S) := by
  obtain ⟨items, X, hst, hseg, hsv, hcap, _⟩ := h
  obtain ⟨i1, i2, rfl, h1, h2⟩ := takeTags_sound ht hseg
  have := segs1 h1
  cases this with
  | node n r =>
    obtain ⟨stack, saved, root, tb, te⟩ := st
    simp only at hst; subst hst
    obtain ⟨n1, r1, hd⟩ := delRoot_cons n r
    obtain ⟨n2, r2, hc⟩ := connChain_cons "" n1 r1
    have : act c 0 { stack := [Item.chain (n :: r)] ++ i2 ++ X, saved := saved, root := root, tb := tb, te := te }
        = .ok { stack := i2 ++ X, saved := saved, root := some (n2 :: r2), tb := tb, te := te } := by
      show act0 c _ = _
      simp [act0, pop, asNode, bind, Except.bind, hd, hc]
    rw [this]
    exact Post.ok ⟨i2, X, rfl, h2, hsv, hcap, fun _ => ⟨n2, r2, rfl⟩⟩

theorem act2_sound {c : Ctx} {A : AState} {R S} {st : St} {p top : Bool}
    (hk : A.known = []) (hb : A.base = .nodesBelow p top) (h : Gamma c A R S st) :
    Post (act c 2 st)
      (Gamma c { A with known := [if p then .nodeP else .node], base := .bottom top } R S) := by
  obtain ⟨items, X, hst, hseg, hsv, hcap, hroot⟩ := h
  rw [hk] at hseg
  have := hseg.nil_inv
  subst this
  simp only [List.nil_append] at hst
  -- the frame is a run of nodes
  have hrun : NodesRun p st.stack := by
    rw [hst]
    cases hs : A.sv with
    | none => rw [hs, hb] at hsv; exact hsv.1
    | some kb => obtain ⟨k0, b0⟩ := kb; rw [hs, hb] at hsv; exact hsv.1
  obtain ⟨n, r, hact, hp⟩ := act2_run c st p hrun
  rw [hact]
  refine Post.ok ⟨[.chain (n :: r)], [], rfl, ?_, ?_, hcap, hroot⟩
  · cases p with
    | true => exact Segs.single (.nodeP _ (hp rfl))
    | false => exact Segs.single (.node _ _)
  · cases hs : A.sv with
    | none =>
      rw [hs, hb] at hsv
      exact ⟨rfl, hsv.2⟩
    | some kb =>
      obtain ⟨k0, b0⟩ := kb
      rw [hs, hb] at hsv
      obtain ⟨_, htop, hop, hrest⟩ := hsv
      exact ⟨rfl, htop, rfl, hrest⟩

theorem setLastNodeText_sound {c : Ctx} {A : AState} {R S} {st : St} {k : Tag} {kr : List Tag} (t : String)
    (hk : A.known = k :: kr) (hle : k.le .node = true) (h : Gamma c A R S st) :
    Post (setLastNodeText t st) (Gamma c A R S) := by
  obtain ⟨items, X, hst, hseg, hsv, hcap, hroot⟩ := h
  rw [hk] at hseg
  cases hseg with
  | @cons _ _ its rest h1 h2 =>
    obtain ⟨n, r, rfl⟩ := TagOK_node_inv hle h1
    obtain ⟨stack, saved, root, tb, te⟩ := st
    simp only at hst; subst hst
    have : setLastNodeText t { stack := [Item.chain (n :: r)] ++ rest ++ X, saved := saved, root := root, tb := tb, te := te }
        = .ok { stack := [Item.chain (nSetText t n :: r)] ++ rest ++ X, saved := saved, root := root, tb := tb, te := te } := by
      simp [setLastNodeText, asNode, bind, Except.bind]
    rw [this]
    refine Post.ok ⟨_, X, rfl, ?_, hsv, hcap, hroot⟩
    rw [hk]
    exact .cons (TagOK_setText t h1) h2

theorem act27_sound {c : Ctx} {A : AState} {R S} {st : St} {ks : List Tag}
    (hc : A.capNE = true) (ht : takeTags [.jpb] A.known = some ks) (h : Gamma c A R S st) :
    Post (act c 27 st) (Gamma c { A with known := .query :: ks } R S) := by
  obtain ⟨items, X, hst, hseg, hsv, hcap, hroot⟩ := h
  obtain ⟨i1, i2, rfl, h1, h2⟩ := takeTags_sound ht hseg
  have hne := hcap hc
  obtain ⟨stack, saved, root, tb, te⟩ := st
  simp only at hst hne; subst hst
  have hj := segs1 h1
  cases hj
  all_goals
    show Post (act27 c _) _
    unfold act27
    simp only [pop, List.cons_append, List.nil_append, bind, Except.bind, asQuery, St.text]
    cases htx : (textOf c.input tb te).toList with
    | nil => exact absurd htx hne
    | cons ch rest =>
      simp only
      split
      · exact Post.ok ⟨[.query _] ++ i2, X, rfl, .cons (.query _) h2, hsv, hcap, hroot⟩
      · exact Post.ok ⟨[.query _] ++ i2, X, rfl, .cons (.query _) h2, hsv, hcap, hroot⟩

theorem act38_sound {c : Ctx} {A : AState} {R S} {st : St}
    (hs : A.sv = none) (hcond : (!A.known.isEmpty || A.base != .bottom false) = true)
    (h : Gamma c A R S st) :
    Post (act c 38 st)
      (Gamma c { A with known := [], base := .bottom false, sv := some (A.known, A.base) } R S) := by
  obtain ⟨items, X, hst, hseg, hsv, hcap, hroot⟩ := h
  rw [hs] at hsv
  obtain ⟨hbx, hsaved⟩ := hsv
  obtain ⟨stack, saved, root, tb, te⟩ := st
  simp only at hst hsaved hcap hroot; subst hst
  show Post (Except.ok (saveParams _)) _
  refine Post.ok ?_
  cases hfr : items ++ X with
  | nil =>
    -- nothing to put aside: then `paramsList` is empty
    have hitems : items = [] := (List.append_eq_nil_iff.mp hfr).1
    have hX : X = [] := (List.append_eq_nil_iff.mp hfr).2
    subst hitems hX
    have hkn : A.known = [] := hseg.items_nil
    have hsv0 : saved = [] := by
      rw [hkn] at hcond
      cases hb : A.base with
      | bottom top =>
        cases top with
        | true => exact hsaved.1 (by rw [hb]; rfl)
        | false => rw [hb] at hcond; simp at hcond
      | nodesBelow p top => rw [hb] at hbx; exact absurd rfl hbx.1
      | rest =>
        rw [hb] at hbx hsaved
        have := hsaved.2 rfl
        rcases this.2 with h | h
        · exact absurd hbx.symm h
        · rw [this.1, h]
    subst hsv0
    refine ⟨[], [], ?_, .nil, ?_, hcap, hroot⟩
    · simp [saveParams]
    · refine ⟨rfl, rfl, rfl, [], [], [], hseg, hbx, hsaved, .inr ⟨rfl, ?_, rfl⟩⟩
      simp [saveParams]
  | cons x xs =>
    refine ⟨[], [], ?_, .nil, ?_, ?_, ?_⟩
    · simp [saveParams]
    · refine ⟨rfl, rfl, rfl, items, X, saved, hseg, hbx, hsaved, .inl ⟨by rw [hfr]; simp, ?_⟩⟩
      simp [saveParams, hfr]
    · simpa [saveParams, hfr] using hcap
    · simpa [saveParams, hfr] using hroot

theorem act39_sound {c : Ctx} {A : AState} {R S} {st : St} {k : Tag} {k0 : List Tag} {b0 : Base}
    (hs : A.sv = some (k0, b0)) (hk : A.known = [k]) (hb : A.base = .bottom false)
    (hle : k.le .nodeP = true) (h : Gamma c A R S st) :
    Post (act c 39 st) (Gamma c { A with known := .jpb :: k0, base := b0, sv := none } R S) := by
  obtain ⟨items, X, hst, hseg, hsv, hcap, hroot⟩ := h
  rw [hs, hb] at hsv
  obtain ⟨hX, _, _, items0, X0, S0, hseg0, hbx0, hsaved0, hdisj⟩ := hsv
  simp only [BaseX] at hX
  subst hX
  rw [hk] at hseg
  have hn := (segs1 hseg).le hle
  cases hn with
  | nodeP ch hin =>
    obtain ⟨stack, saved, root, tb, te⟩ := st
    simp only [List.append_nil] at hst hdisj hcap hroot
    subst hst
    -- after loadParams
    have hload : loadParams { stack := [Item.chain ch], saved := saved, root := root, tb := tb, te := te }
        = { stack := Item.chain ch :: (items0 ++ X0), saved := S0, root := root, tb := tb, te := te } := by
      rcases hdisj with ⟨_, hsv⟩ | ⟨hnil, hsv, hS0⟩
      · subst hsv; simp [loadParams]
      · subst hsv; subst hS0; rw [hnil]; simp [loadParams]
    obtain ⟨n, r, rfl⟩ := innerHead_ne_nil hin
    show Post (act39 c _) _
    unfold act39
    simp only [hload, pop, bind, Except.bind, asNode]
    cases hh : innerHead (n :: r) with
    | other => exact absurd hh hin
    | root =>
      refine Post.ok ⟨[.bool true, .query (.exist (.proot _))] ++ items0, X0, rfl, ?_, ⟨hbx0, hsaved0⟩, hcap, hroot⟩
      exact .cons (.jpbR _) hseg0
    | cur =>
      refine Post.ok ⟨[.bool false, .query (.exist (.pcur _))] ++ items0, X0, rfl, ?_, ⟨hbx0, hsaved0⟩, hcap, hroot⟩
      exact .cons (.jpbC _) hseg0

/-- **every action simulates its abstract transfer function** -/
theorem act_sound (c : Ctx) (i : Nat) (A A' : AState) (R : List Item) (S : List (List Item)) (st : St)
    (he : actEff i A = some A') (h : Gamma c A R S st) : Post (act c i st) (Gamma c A' R S) := by
  unfold actEff at he
  split at he
  · -- 0
    split at he
    · rename_i ks ht; cases he; exact act0_sound ht h
    · cases he
  · -- 2
    split at he
    · rename_i p top hk hb; cases he; exact act2_sound hk hb h
    · cases he
  · -- 4
    split at he
    · rename_i k kr hk
      split at he
      · rename_i hle; cases he; exact setLastNodeText_sound _ hk hle h
      · cases he
    · cases he
  · -- 7
    split at he
    · rename_i k kr hk
      split at he
      · rename_i hle; cases he; exact setLastNodeText_sound _ hk hle h
      · cases he
    · cases he
  · -- 27
    split at he
    · rename_i hc
      split at he
      · rename_i ks ht; cases he; exact act27_sound hc ht h
      · cases he
    · cases he
  · -- 38
    split at he
    · cases he
    · rename_i hs
      split at he
      · rename_i hcond; cases he; exact act38_sound hs hcond h
      · cases he
  · -- 39
    split at he
    · rename_i k0 b0 k hs hk hb
      split at he
      · rename_i hle; cases he; exact act39_sound hs hk hb hle h
      · cases he
    · cases he
  · -- the plain pop/push actions
    split at he
    · rename_i pops pushes hsig
      split at he
      · rename_i ks ht; cases he; exact lift_local (actSig_local _ _ _ hsig) ht h
      · cases he
    · cases he

end JPV.Peg
