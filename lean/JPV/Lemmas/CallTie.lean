/-
CallTie — tie T1 for C14: the `retrieve` methods of the two function nodes as the translator
reads them from the Go source (Gen/FunctionsGo.lean, regenerated on every run) ARE the `.ffn` /
`.afn` equations of `Impl.retrieve`, on which `log_eq_calls` and every C14 corollary rest.
A change of either Go method that alters what is called, with what, how often, or what is done
with the result makes the generator stop or these proofs fail.
-/
import JPV.Gen.FunctionsGo
import JPV.Lemmas.Refine
namespace JPV
namespace CallTie
open Impl TSem FnNode

/-- the receiver of a `.ffn i name` node followed by `rest` -/
def filterRecv (env : Env) (i : Info) (name : String) (f : Val → Option Val) (rest : List N) : FilterRecv where
  function := fun v st => (f v, st.call (.ffn name v))
  next := fun root v st => retrieve env rest i root v none st
  failed := .func i

/-- the receiver of an `.afn i name param` node followed by `rest`, evaluated at location `aloc` -/
def aggRecv (env : Env) (i : Info) (name : String) (f : List Val → Option Val) (param rest : List N)
    (aloc : Option Loc) : AggRecv where
  function := fun vs st => (f vs, st.call (.afn name vs))
  paramRetrieve := fun root cur st => retrieve env param i root cur aloc st
  paramVg := chainVg param
  next := fun root v st => retrieve env rest i root v none st
  failed := .func i

/-- `syntaxFilterFunction.retrieve` is the `.ffn` equation of the model -/
theorem ffn_tie (env : Env) (i : Info) (name : String) (f : Val → Option Val) (hf : env.ffn name = some f)
    (rest : List N) (prev : Info) (root cur : Val) (aloc : Option Loc) (st : St) :
    retrieve env (.ffn i name :: rest) prev root cur aloc st =
      Gen.FunctionsGo.filterRetrieve (filterRecv env i name f rest) root cur st := by
  simp only [retrieve, hf, Gen.FunctionsGo.filterRetrieve, filterRecv]
  cases f cur <;> rfl

/-- `syntaxAggregateFunction.retrieve` is the `.afn` equation of the model. (Only difference:
    the model indexes `values.result[0]` also for a value-group parameter; the parameter chain
    of a well-formed tree never succeeds with an empty buffer, so the index exists.) -/
theorem afn_tie (env : Env) (i : Info) (name : String) (f : List Val → Option Val) (hf : env.afn name = some f)
    (param rest : List N) (hwf : wfChain env param = true)
    (prev : Info) (root cur : Val) (aloc : Option Loc) (st : St) :
    retrieve env (.afn i name param :: rest) prev root cur aloc st =
      Gen.FunctionsGo.aggregateRetrieve (aggRecv env i name f param rest aloc) root cur st := by
  obtain ⟨s1, e1, hp1, hp2⟩ := retrieve_ok env param hwf i root cur aloc st.sub
  have hsub : withBuf st [] = st.sub := rfl
  simp only [retrieve, Gen.FunctionsGo.aggregateRetrieve, aggRecv, hsub, hp1, bind, Except.bind, hf]
  cases e1 with
  | some err => rfl
  | none =>
    simp only []
    cases hout : s1.out with
    | nil => exact absurd hout (hp2.ok_nonempty rfl)
    | cons r0 rs =>
      simp only [Buf.vals, List.map_cons, aggArgs]
      -- robust against harmless rewrites of the Go text (e.g. with or without the defensive copy)
      cases hvg : chainVg param <;> cases hr0 : r0.val <;>
        simp only [Bool.not_true, Bool.not_false, Bool.false_eq_true, if_true, if_false, copy_make] <;>
        first
          | rfl
          | (cases f _ <;> rfl)

end CallTie
end JPV
