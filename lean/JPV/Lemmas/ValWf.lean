/-
ValWf — facts about canonical documents (`Val.wf`): already sorted, and every value reached
from a canonical value is canonical. Plus symmetry of structural equality.
-/
import JPV.Val
import JPV.Impl.Retrieve
namespace JPV
namespace ValWf
open Impl

theorem keysAsc_tail {a : String} {l : List String} (h : Val.keysAsc (a :: l) = true) :
    Val.keysAsc l = true := by
  cases l with
  | nil => rfl
  | cons b r =>
    simp only [Val.keysAsc, Bool.and_eq_true] at h
    exact h.2

theorem keysAsc_head {a b : String} {l : List String} (h : Val.keysAsc (a :: b :: l) = true) : a < b := by
  simp only [Val.keysAsc, Bool.and_eq_true, decide_eq_true_eq] at h
  exact h.1

theorem String.le_of_lt' {a b : String} (h : a < b) : a ≤ b := by
  show ¬ b < a
  exact String.lt_asymm h

/-- **sortKV_of_keysAsc**: canonical entry lists are already in the order `getSortedKeys` gives -/
theorem sortKV_of_keysAsc (kvs : List (String × Val)) (h : Val.keysAsc (kvs.map (·.1)) = true) :
    sortKV kvs = kvs := by
  induction kvs with
  | nil => rfl
  | cons kv rest ih =>
    obtain ⟨k, v⟩ := kv
    have ht : Val.keysAsc (rest.map (·.1)) = true := keysAsc_tail (a := k) h
    simp only [sortKV]
    rw [ih ht]
    cases rest with
    | nil => rfl
    | cons kv' r =>
      obtain ⟨k', v'⟩ := kv'
      have hlt : k < k' := keysAsc_head (l := r.map (·.1)) (by simpa using h)
      simp only [insertKV]
      rw [if_pos (String.le_of_lt' hlt)]

theorem wf_obj {kvs : List (String × Val)} (h : (Val.obj kvs).wf = true) :
    Val.keysAsc (kvs.map (·.1)) = true ∧ Val.wfKVs kvs = true := by
  simpa [Val.wf] using h

theorem wf_arr {xs : List Val} (h : (Val.arr xs).wf = true) : Val.wfList xs = true := by
  simpa [Val.wf] using h

theorem sortKV_of_wf {kvs : List (String × Val)} (h : (Val.obj kvs).wf = true) : sortKV kvs = kvs :=
  sortKV_of_keysAsc kvs (wf_obj h).1

theorem wfList_mem {xs : List Val} (h : Val.wfList xs = true) : ∀ x ∈ xs, x.wf = true := by
  induction xs with
  | nil => intro x hx; cases hx
  | cons y ys ih =>
    simp only [Val.wfList, Bool.and_eq_true] at h
    intro x hx
    rcases List.mem_cons.mp hx with rfl | hx
    · exact h.1
    · exact ih h.2 x hx

theorem wfKVs_mem {kvs : List (String × Val)} (h : Val.wfKVs kvs = true) :
    ∀ kv ∈ kvs, kv.2.wf = true := by
  induction kvs with
  | nil => intro x hx; cases hx
  | cons y ys ih =>
    obtain ⟨k, v⟩ := y
    simp only [Val.wfKVs, Bool.and_eq_true] at h
    intro x hx
    rcases List.mem_cons.mp hx with rfl | hx
    · exact h.1
    · exact ih h.2 x hx

theorem lookup_mem {k : String} {kvs : List (String × Val)} {v : Val} (h : Val.lookup k kvs = some v) :
    ∃ k', (k', v) ∈ kvs := by
  induction kvs with
  | nil => simp [Val.lookup] at h
  | cons y ys ih =>
    obtain ⟨k', v'⟩ := y
    simp only [Val.lookup] at h
    split at h
    · cases h; exact ⟨k', List.mem_cons_self⟩
    · obtain ⟨k'', hk⟩ := ih h
      exact ⟨k'', List.mem_cons_of_mem _ hk⟩

theorem wf_lookup {k : String} {kvs : List (String × Val)} {v : Val} (hw : (Val.obj kvs).wf = true)
    (h : Val.lookup k kvs = some v) : v.wf = true := by
  obtain ⟨k', hk⟩ := lookup_mem h
  exact wfKVs_mem (wf_obj hw).2 (k', v) hk

theorem wf_vals {kvs : List (String × Val)} (hw : (Val.obj kvs).wf = true) :
    ∀ v ∈ kvs.map (·.2), v.wf = true := by
  intro v hv
  obtain ⟨kv, hkv, rfl⟩ := List.mem_map.mp hv
  exact wfKVs_mem (wf_obj hw).2 kv hkv

theorem wf_elems {xs : List Val} (hw : (Val.arr xs).wf = true) : ∀ x ∈ xs, x.wf = true :=
  wfList_mem (wf_arr hw)

theorem wf_getElem? {xs : List Val} (hw : (Val.arr xs).wf = true) {i : Nat} {v : Val}
    (h : xs[i]? = some v) : v.wf = true :=
  wf_elems hw v (List.mem_of_getElem? h)

/-- members of a canonical value are canonical -/
theorem wf_members {v : Val} (hw : v.wf = true) : ∀ m ∈ v.members, m.wf = true := by
  cases v with
  | arr xs => exact wf_elems hw
  | obj kvs => exact wf_vals hw
  | _ => intro m hm; simp [Val.members] at hm

mutual
/-- every container below a canonical value is canonical -/
theorem wf_containers : (v : Val) → v.wf = true → ∀ c ∈ v.containers, c.wf = true
  | .arr xs, hw, c, hc => by
    simp only [Val.containers, List.mem_cons] at hc
    rcases hc with rfl | hc
    · exact hw
    · exact wf_containersList xs (wf_arr hw) c hc
  | .obj kvs, hw, c, hc => by
    simp only [Val.containers, List.mem_cons] at hc
    rcases hc with rfl | hc
    · exact hw
    · exact wf_containersKVs kvs (wf_obj hw).2 c hc
  | .null, _, c, hc => by simp [Val.containers] at hc
  | .bool _, _, c, hc => by simp [Val.containers] at hc
  | .num _, _, c, hc => by simp [Val.containers] at hc
  | .jnum _, _, c, hc => by simp [Val.containers] at hc
  | .str _, _, c, hc => by simp [Val.containers] at hc
  | .opq _ _, _, c, hc => by simp [Val.containers] at hc
theorem wf_containersList : (xs : List Val) → Val.wfList xs = true → ∀ c ∈ Val.containersList xs, c.wf = true
  | [], _, c, hc => by simp [Val.containersList] at hc
  | x :: xs, hw, c, hc => by
    simp only [Val.wfList, Bool.and_eq_true] at hw
    simp only [Val.containersList, List.mem_append] at hc
    rcases hc with hc | hc
    · exact wf_containers x hw.1 c hc
    · exact wf_containersList xs hw.2 c hc
theorem wf_containersKVs : (kvs : List (String × Val)) → Val.wfKVs kvs = true →
    ∀ c ∈ Val.containersKVs kvs, c.wf = true
  | [], _, c, hc => by simp [Val.containersKVs] at hc
  | (_, x) :: xs, hw, c, hc => by
    simp only [Val.wfKVs, Bool.and_eq_true] at hw
    simp only [Val.containersKVs, List.mem_append] at hc
    rcases hc with hc | hc
    · exact wf_containers x hw.1 c hc
    · exact wf_containersKVs xs hw.2 c hc
end

mutual
theorem containers_isContainer : (v : Val) → ∀ c ∈ v.containers, c.isContainer = true
  | .arr xs, c, hc => by
    simp only [Val.containers, List.mem_cons] at hc
    rcases hc with rfl | hc
    · rfl
    · exact containersList_isContainer xs c hc
  | .obj kvs, c, hc => by
    simp only [Val.containers, List.mem_cons] at hc
    rcases hc with rfl | hc
    · rfl
    · exact containersKVs_isContainer kvs c hc
  | .null, c, hc => by simp [Val.containers] at hc
  | .bool _, c, hc => by simp [Val.containers] at hc
  | .num _, c, hc => by simp [Val.containers] at hc
  | .jnum _, c, hc => by simp [Val.containers] at hc
  | .str _, c, hc => by simp [Val.containers] at hc
  | .opq _ _, c, hc => by simp [Val.containers] at hc
theorem containersList_isContainer : (xs : List Val) → ∀ c ∈ Val.containersList xs, c.isContainer = true
  | [], c, hc => by simp [Val.containersList] at hc
  | x :: xs, c, hc => by
    simp only [Val.containersList, List.mem_append] at hc
    rcases hc with hc | hc
    · exact containers_isContainer x c hc
    · exact containersList_isContainer xs c hc
theorem containersKVs_isContainer : (kvs : List (String × Val)) → ∀ c ∈ Val.containersKVs kvs, c.isContainer = true
  | [], c, hc => by simp [Val.containersKVs] at hc
  | (_, x) :: xs, c, hc => by
    simp only [Val.containersKVs, List.mem_append] at hc
    rcases hc with hc | hc
    · exact containers_isContainer x c hc
    · exact containersKVs_isContainer xs c hc
end

mutual
theorem beq_symm : (a b : Val) → Val.beq a b = Val.beq b a
  | .arr xs, b => by
    cases b <;> simp only [Val.beq]
    exact beqList_symm xs _
  | .obj xs, b => by
    cases b <;> simp only [Val.beq]
    exact beqKVs_symm xs _
  | .null, b => by cases b <;> simp only [Val.beq]
  | .bool x, b => by
    cases b <;> simp only [Val.beq]
    exact Bool.beq_comm
  | .num x, b => by
    cases b <;> simp only [Val.beq]
    exact Bool.beq_comm
  | .jnum x, b => by
    cases b <;> simp only [Val.beq]
    exact Bool.beq_comm
  | .str x, b => by
    cases b <;> simp only [Val.beq]
    exact Bool.beq_comm
  | .opq t c, b => by
    cases b with
    | opq t' c' =>
      simp only [Val.beq]
      rw [Bool.beq_comm (a := t), Bool.beq_comm (a := c)]
      by_cases h : c' = c
      · subst h; rfl
      · have : (c' == c) = false := by simpa using h
        simp [this]
    | _ => simp only [Val.beq]
theorem beqList_symm : (a b : List Val) → Val.beqList a b = Val.beqList b a
  | [], b => by cases b <;> simp only [Val.beqList]
  | x :: xs, b => by
    cases b with
    | nil => simp only [Val.beqList]
    | cons y ys => simp only [Val.beqList]; rw [beq_symm x y, beqList_symm xs ys]
theorem beqKVs_symm : (a b : List (String × Val)) → Val.beqKVs a b = Val.beqKVs b a
  | [], b => by cases b <;> simp only [Val.beqKVs]
  | (k, x) :: xs, b => by
    cases b with
    | nil => simp only [Val.beqKVs]
    | cons y ys =>
      obtain ⟨k', y⟩ := y
      simp only [Val.beqKVs]; rw [beq_symm x y, beqKVs_symm xs ys, Bool.beq_comm (a := k)]
end

end ValWf
end JPV
