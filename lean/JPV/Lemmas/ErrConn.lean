/-
ErrConn — (1) single-valued chains have at most one local failure; (2) the side condition
`ES.ConnDeep` follows from `CE.ConnOK` of the chain as written (`Fails.flat`: the parameter
chain of an aggregate before the aggregate): connected texts strictly shorter from node to
node, non-empty, inner identifiers carrying their node's.
-/
import JPV.Lemmas.ErrNodes
import JPV.Lemmas.BuildConn
namespace JPV
namespace ES
open Impl TSem Fails
open CE (tl ConnOK)

/-! ### single-valued chains -/

theorem grp_single {α : Type} (i : Info) (x : α) (F : α → List RtErr) : grp i [x] F = F x := by
  simp [grp]

theorem subIndexes_idx (k : Int) (n : Nat) : subIndexes (.idx k) n = [] ∨ ∃ j, subIndexes (.idx k) n = [j] := by
  unfold subIndexes
  simp only []
  generalize (if k < 0 then k + (n : Int) else k) = i'
  by_cases hc : (i' < 0 || i' ≥ (n : Int)) = true
  · left; rw [if_pos hc]
  · right; exact ⟨i', by rw [if_neg hc]⟩

theorem singleSubs_inv {subs : List SubI} (h : singleSubs subs = true) : ∃ k, subs = [.idx k] := by
  match subs, h with
  | [.idx k], _ => exact ⟨k, rfl⟩

theorem singleNode_union (i : Info) (subs : List SubI) : singleNode (.union i subs) = singleSubs subs := by
  match subs with
  | [.idx k] => rfl
  | [] => rfl
  | [.wild] => rfl
  | [.slicePos _ _ _] => rfl
  | [.sliceNeg _ _ _] => rfl
  | a :: _ :: _ => cases a <;> rfl

/-- a single-valued chain meets at most one failure, and none when it selects something -/
theorem fails_single (env : Env) : ∀ (ch : List N) (root cur : Val), singleDeep ch = true →
    (fails env ch root cur).length ≤ 1 ∧ (den env ch root cur ≠ [] → fails env ch root cur = [])
  | [], _, _, _ => by simp [fails]
  | .root i :: rest, root, cur, h => by
    simp only [singleDeep, singleDeepN, Bool.true_and] at h
    simp only [fails, failsN, den]
    exact fails_single env rest root root h
  | .cur i :: rest, root, cur, h => by
    simp only [singleDeep, singleDeepN, Bool.true_and] at h
    simp only [fails, failsN, den]
    exact fails_single env rest root cur h
  | .child i k :: rest, root, cur, h => by
    simp only [singleDeep, singleDeepN, Bool.true_and] at h
    cases cur with
    | obj kvs =>
      simp only [fails, failsN, den]
      cases hl : Val.lookup k kvs with
      | none => simp
      | some v => exact fails_single env rest root v h
    | null | bool _ | num _ | jnum _ | str _ | arr _ | opq _ _ => simp [fails, failsN, den]
  | .ffn i name :: rest, root, cur, h => by
    simp only [singleDeep, singleDeepN, Bool.true_and] at h
    simp only [fails, failsN, den]
    cases hf : env.ffn name with
    | none => simp
    | some f =>
      simp only []
      cases hfc : f cur with
      | none => simp
      | some r => exact fails_single env rest root r h
  | .union i subs :: rest, root, cur, h => by
    simp only [singleDeep, singleDeepN, Bool.and_eq_true] at h
    obtain ⟨hs, h⟩ := h
    obtain ⟨k, rfl⟩ := singleSubs_inv hs
    cases cur with
    | arr xs =>
      simp only [fails, failsN, den, List.flatMap_cons, List.flatMap_nil, List.append_nil]
      rcases subIndexes_idx k xs.length with h0 | ⟨j, h0⟩ <;> rw [h0]
      · simp [grp]
      · rw [grp_single]
        simp only [List.flatMap_cons, List.flatMap_nil, List.append_nil]
        cases hg : (if j < 0 then none else xs[j.toNat]?) with
        | none => simp
        | some v => exact fails_single env rest root v h
    | null | bool _ | num _ | jnum _ | str _ | obj _ | opq _ _ => simp [fails, failsN, den]
  | .afn i name param :: rest, root, cur, h => by
    simp only [singleDeep, singleDeepN, Bool.and_eq_true] at h
    obtain ⟨hp, hr⟩ := h
    obtain ⟨p1, p2⟩ := fails_single env param root cur hp
    simp only [fails, failsN, den]
    cases hd : den env param root cur with
    | nil =>
      simp only [List.append_nil]
      exact ⟨p1, fun h => absurd rfl h⟩
    | cons r0 rs =>
      rw [p2 (by rw [hd]; simp)]
      simp only [List.nil_append]
      cases hf : env.afn name with
      | none => simp
      | some f =>
        simp only []
        cases hfa : f (aggArgs (chainVg param) r0 (r0 :: rs)) with
        | none => simp
        | some r => exact fails_single env rest root r hr
  | .wild _ :: _, _, _, h => by simp [singleDeep, singleDeepN] at h
  | .multi _ _ _ :: _, _, _, h => by simp [singleDeep, singleDeepN] at h
  | .desc _ _ _ :: _, _, _, h => by simp [singleDeep, singleDeepN] at h
  | .filter _ _ :: _, _, _, h => by simp [singleDeep, singleDeepN] at h

theorem singleDeep_of_noAfn : ∀ (ch : List N), singleChain ch = true → noAfn ch = true → singleDeep ch = true
  | [], _, _ => rfl
  | n :: rest, h1, h2 => by
    simp only [singleChain, Bool.and_eq_true] at h1
    simp only [noAfn, Bool.and_eq_true] at h2
    have ih := singleDeep_of_noAfn rest h1.2 h2.2
    rw [singleDeep, ih, Bool.and_true]
    cases n with
    | union i subs =>
      simp only [singleDeepN]
      rw [← singleNode_union i subs]
      exact h1.1
    | afn i name param => simp [noAfnN] at h2
    | root i | cur i | child i k | ffn i name => rfl
    | wild i | multi i ids t | desc i a b | filter i q => simp [singleNode] at h1

/-! ### `ConnOK` of the chain as written gives `ConnDeep` -/

theorem errInfos_eq (n : N) : CE.errInfos n = Fails.errInfos n := by
  cases n <;> first | rfl | (simp only [CE.errInfos, Fails.errInfos]; congr 2; apply List.map_congr_left; intro id _; cases id <;> rfl)

theorem ConnOK.left {a b : List N} (h : ConnOK (a ++ b)) : ConnOK a :=
  ⟨(List.pairwise_append.mp h.1).1, fun n hn => h.2.1 n (List.mem_append_left _ hn),
    fun n hn => h.2.2 n (List.mem_append_left _ hn)⟩

theorem ConnOK.right {a b : List N} (h : ConnOK (a ++ b)) : ConnOK b :=
  ⟨(List.pairwise_append.mp h.1).2.1, fun n hn => h.2.1 n (List.mem_append_right _ hn),
    fun n hn => h.2.2 n (List.mem_append_right _ hn)⟩

/-- every Info of `infos` belongs to a node of the chain as written -/
theorem infos_flat : ∀ (ch : List N), ∀ j ∈ infos ch, ∃ n ∈ flat ch, j ∈ Fails.errInfos n
  | [], j, h => by simp [infos] at h
  | .afn i name param :: rest, j, h => by
    simp only [infos, infosN, List.mem_append, List.mem_cons] at h
    simp only [flat, flatN, List.mem_append, List.mem_cons]
    rcases h with h | rfl | h
    · obtain ⟨n, hn, hj⟩ := infos_flat param j h
      exact ⟨n, Or.inl hn, hj⟩
    · exact ⟨_, Or.inr (Or.inl rfl), by simp [Fails.errInfos, N.info]⟩
    · obtain ⟨n, hn, hj⟩ := infos_flat rest j h
      exact ⟨n, Or.inr (Or.inr hn), hj⟩
  | .root i :: rest, j, h | .cur i :: rest, j, h | .child i _ :: rest, j, h | .wild i :: rest, j, h
  | .desc i _ _ :: rest, j, h | .union i _ :: rest, j, h | .filter i _ :: rest, j, h | .ffn i _ :: rest, j, h => by
    simp only [infos, infosN, List.mem_cons] at h
    simp only [flat, flatN, List.mem_cons]
    rcases h with rfl | h
    · exact ⟨_, Or.inl rfl, by simp [Fails.errInfos, N.info]⟩
    · obtain ⟨n, hn, hj⟩ := infos_flat rest j h
      exact ⟨n, Or.inr hn, hj⟩
  | .multi i ids twin :: rest, j, h => by
    simp only [infos, infosN] at h
    simp only [flat, flatN, List.mem_cons]
    rcases List.mem_append.mp h with h | h
    · exact ⟨_, Or.inl rfl, h⟩
    · obtain ⟨n, hn, hj⟩ := infos_flat rest j h
      exact ⟨n, Or.inr hn, hj⟩

theorem connDeep_of_flat : ∀ (ch : List N), ConnOK (flat ch) → ConnDeep ch
  | [], _ => trivial
  | .afn i name param :: rest, h => by
    simp only [flat, flatN] at h
    simp only [ConnDeep, ConnDeepN]
    have hr : ConnOK (flat rest) := (ConnOK.right h).tail
    refine ⟨connDeep_of_flat param (ConnOK.left h), connDeep_of_flat rest hr, ?_, ?_⟩
    · exact h.2.1 (.afn i name param) (List.mem_append_right _ List.mem_cons_self)
    · intro j hj j' hj'
      obtain ⟨n, hn, hjn⟩ := infos_flat param j hj
      have hjc : j.conn = n.info.conn :=
        h.2.2 n (List.mem_append_left _ hn) j (by rw [errInfos_eq]; exact hjn)
      have : ∃ m ∈ N.afn i name param :: flat rest, j'.conn = m.info.conn := by
        rcases List.mem_cons.mp hj' with rfl | hj'
        · exact ⟨_, List.mem_cons_self, rfl⟩
        · obtain ⟨m, hm, hjm⟩ := infos_flat rest j' hj'
          exact ⟨m, List.mem_cons_of_mem _ hm,
            h.2.2 m (List.mem_append_right _ (List.mem_cons_of_mem _ hm)) j' (by rw [errInfos_eq]; exact hjm)⟩
      obtain ⟨m, hm, hmc⟩ := this
      rw [hjc, hmc]
      exact (List.pairwise_append.mp h.1).2.2 n hn m hm
  | .root i :: rest, h | .cur i :: rest, h | .child i _ :: rest, h | .wild i :: rest, h
  | .desc i _ _ :: rest, h | .union i _ :: rest, h | .filter i _ :: rest, h | .ffn i _ :: rest, h => by
    simp only [flat, flatN] at h
    simp only [ConnDeep, ConnDeepN]
    exact ⟨h.2.1 _ List.mem_cons_self, connDeep_of_flat rest h.tail⟩
  | .multi i ids twin :: rest, h => by
    simp only [flat, flatN] at h
    simp only [ConnDeep, ConnDeepN]
    refine ⟨fun j hj => ?_, connDeep_of_flat rest h.tail⟩
    have := h.2.2 (.multi i ids twin) List.mem_cons_self j (by rw [errInfos_eq]; exact hj)
    rw [this]
    exact h.2.1 _ List.mem_cons_self

theorem flat_of_noAfn : ∀ (ch : List N), noAfn ch = true → flat ch = ch
  | [], _ => rfl
  | n :: rest, h => by
    simp only [noAfn, Bool.and_eq_true] at h
    have ih := flat_of_noAfn rest h.2
    cases n <;> simp_all [flat, flatN, noAfnN]

end ES
end JPV
