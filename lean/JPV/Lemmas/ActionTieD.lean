/-
ActionTieD — ties for Action2 (`setNodeChain`, `updateRootValueGroup`) and Action0 (`p.root = deleteRootIdentifier(…)`,
`setConnectedText(p.root)`); sizes of the model's helper results.
-/
import JPV.Lemmas.ActionTieC
set_option linter.unusedVariables false
set_option linter.unusedSimpArgs false
namespace JPV
namespace ParserLayout
open JPV JPV.ParserNode JPV.ActionNode
open JPV.Gen.ParserHelpersGo JPV.Gen.ActionsGo

/-! ### composing a helper with what follows -/

theorem ASim.bind {c : Peg.Ctx} {tb te : Nat} {gen1 : M PS} {model1 : Peg.M Peg.St} {gen2 : PS → AM PS}
    {model2 : Peg.St → Peg.M Peg.St} (h1 : Sim c [] tb te gen1 model1)
    (h2 : ∀ g1 L1, Rep c g1 L1 [] → model1 = .ok (eraseSt L1 tb te) →
      ASim c tb te (gen2 g1) (model2 (eraseSt L1 tb te))) :
    ASim c tb te (liftH gen1 >>= gen2) (model1 >>= model2) := by
  cases model1 with
  | ok st1 =>
    obtain ⟨g1, L1, he, hr, hE⟩ := h1
    rw [he, liftH_ok, ebind_ok, ebind_ok, ← hE]
    exact h2 g1 L1 hr (by rw [hE])
  | error e =>
    rcases h1 with h | ⟨e', he, ha⟩
    · rw [h]; exact ASim.unrep
    · rw [he, liftH_err, ebind_err, ebind_err]
      exact ASim.err rfl ha

/-! ### sizes of what `setNodeChain` builds -/

theorem msizeCh_append (A B : List N) : msizeCh (A ++ B) = msizeCh A + msizeCh B := by
  induction A with
  | nil => simp only [List.nil_append, msizeCh, Nat.zero_add]
  | cons a A ih => simp only [List.cons_append, msizeCh, ih]; omega

theorem msizeN_setVg (n : N) : msizeN n.setVg = msizeN n := by cases n <;> rfl

theorem msizeN_nSetAcc (m : Bool) (n : N) : msizeN (Peg.nSetAcc m n) = msizeN n := by cases n <;> rfl

theorem msizeCh_markVg (ch : List N) : msizeCh (Peg.markVg ch) = msizeCh ch := by
  cases ch with
  | nil => rfl
  | cons n rest =>
    simp only [Peg.markVg]
    split
    · simp only [msizeCh, msizeN_setVg]
    · rfl

theorem msizeCh_setAccChain (m : Bool) (ch : List N) : msizeCh (Peg.setAccChain m ch) = msizeCh ch := by
  induction ch with
  | nil => rfl
  | cons n rest ih =>
    have ih' : msizeCh (List.map (Peg.nSetAcc m) rest) = msizeCh rest := ih
    simp only [Peg.setAccChain, List.map_cons, msizeCh, msizeN_nSetAcc, ih']

theorem msize_linkOne (root : List N) (it : Peg.Item) (r : List N) (h : Peg.linkOne root it = .ok r) :
    msizeCh r ≤ msizeCh root + msizeItem it := by
  cases it with
  | chain ch =>
    cases ch with
    | nil => simp [Peg.linkOne, Peg.asNode] at h; cases h
    | cons n tl =>
      cases n with
      | afn i name p =>
        simp only [Peg.linkOne] at h
        cases h
        simp only [msizeItem, msizeCh, msizeN, msizeCh_setAccChain, msizeCh_markVg]
        omega
      | _ =>
        simp only [Peg.linkOne, Peg.asNode, ebind_ok] at h
        cases h
        simp only [msizeItem, msizeCh_append]
        omega
  | _ => simp [Peg.linkOne, Peg.asNode] at h <;> cases h

theorem msize_linkAll : ∀ (items : List Peg.Item) (root r : List N), Peg.linkAll root items = .ok r →
    msizeCh r ≤ msizeCh root + msizeItems items
  | [], root, r, h => by
    simp only [Peg.linkAll] at h
    cases h
    simp only [msizeItems]; omega
  | it :: rest, root, r, h => by
    simp only [Peg.linkAll] at h
    cases h1 : Peg.linkOne root it with
    | error e => rw [h1] at h; cases h
    | ok r1 =>
      rw [h1, ebind_ok] at h
      have a := msize_linkOne root it r1 h1
      have b := msize_linkAll rest r1 r h
      simp only [msizeItems]
      omega

theorem msize_setNodeChain (st st' : Peg.St) (h : Peg.setNodeChain st = .ok st') :
    msizeItems st'.stack ≤ msizeItems st.stack := by
  unfold Peg.setNodeChain at h
  have hrev := msizeItems_reverse st.stack
  cases hr : st.stack.reverse with
  | nil => rw [hr] at h; cases h; exact Nat.le_refl _
  | cons first rest =>
    rw [hr] at h hrev
    cases rest with
    | nil => cases h; exact Nat.le_refl _
    | cons second more =>
      simp only at h
      cases h1 : Peg.asNode first with
      | error e => rw [h1] at h; cases h
      | ok root =>
        rw [h1, ebind_ok] at h
        cases h2 : Peg.linkAll root (second :: more) with
        | error e => rw [h2] at h; cases h
        | ok r =>
          rw [h2, ebind_ok] at h
          cases h
          have a := msize_linkAll _ _ _ h2
          have b : msizeCh root = msizeItem first := by
            cases first with
            | chain ch =>
              cases ch with
              | nil => cases h1
              | cons n tl => cases h1; rfl
            | _ => cases h1
          have hc : msizeItems [Peg.Item.chain r] = msizeCh r := by simp only [msizeItems, msizeItem]; omega
          show msizeItems [Peg.Item.chain r] ≤ msizeItems st.stack
          rw [hc]
          simp only [msizeItems] at hrev a
          omega

section
variable (c : Peg.Ctx) (lib : Lib) (al : ALib) (g : PS) (L : LSt) (tb te fuel : Nat) (buffer : String)

/-! ### Action2 -/

theorem act2_tie (hrep : Rep c g L []) (hfuel : msizeSt (eraseSt L tb te) + 2 ≤ fuel) :
    ASim c tb te (goAct2 fuel lib al (Peg.textOf c.input tb te) (tb : Int) buffer g) (Peg.act2 c (eraseSt L tb te)) := by
  obtain ⟨f, rfl⟩ : ∃ f, fuel = f + 2 := ⟨fuel - 2, by omega⟩
  have hsz := sizeItems_le_msizeSt L tb te
  have h1 := setNodeChain_tie c g L [] tb te f hrep (by omega)
  simp only [goAct2, Peg.act2]
  refine ASim.bind h1 ?_
  intro g1 L1 hr1 hm1
  have hle := msize_setNodeChain _ _ hm1
  rw [← sizeItems_stack L1 tb te, ← sizeItems_stack L tb te] at hle
  exact ASim.ofSim' (updateRootValueGroup_tie c g1 L1 [] tb te (f + 2) hr1 (by omega))

/-! ### Action0 -/

mutual
/-- every aggregate function of the chain has a parameter (`nepCh` on the model side) -/
def mnepCh : List N → Bool
  | [] => true
  | n :: rest => mnepN n && mnepCh rest
def mnepN : N → Bool
  | .afn _ _ p => !p.isEmpty && mnepCh p
  | _ => true
end

mutual
theorem nepCh_erase : ∀ (ch : List LN), nepCh ch = mnepCh (eraseCh ch)
  | [] => rfl
  | n :: rest => by
    rw [eraseCh_cons_ne, mnepCh, nepCh, nepN_erase n, nepCh_erase rest]
theorem nepN_erase : ∀ (n : LN), nepN n = mnepN (eraseN n)
  | .mk id i s => by
    cases s with
    | afn name p =>
      show (!p.isEmpty && nepCh p) = (!(eraseCh p).isEmpty && mnepCh (eraseCh p))
      rw [nepCh_erase p]
      cases p <;> rfl
    | _ => rfl
end

/-- what the grammar guarantees when `Action0` runs: in the chain it pops, with its root identifier deleted, every
    aggregate function has a parameter chain (`setNodeChain` gave it one) -/
def pre0 (st : Peg.St) : Bool :=
  match st.stack with
  | .chain ch :: _ => mnepCh (Peg.delRoot ch)
  | _ => true

/-- the held chain becomes `p.root` (what was there before is garbage now) -/
theorem Rep.toRoot {c : Peg.Ctx} {g : PS} {L : LSt} {ch : List LN} (h : Rep c g L (cellsCh ch none ++ [])) :
    Rep c { g with root := headRef ch } { L with root := ch } [] := by
  have hnd := h.nodup
  exact {
    params := h.params
    paramsList := h.paramsList
    root := rfl
    sat := h.sat.subset (by
      intro x hx
      simp only [cellsSt, List.mem_append, List.append_nil] at hx ⊢
      grind)
    nodup := by
      simp only [cellsSt, ids_append, List.nodup_append, List.mem_append, List.append_nil, ids_nil, List.nodup_nil,
        List.not_mem_nil] at hnd ⊢
      grind
    wfStack := h.wfStack
    wfSaved := h.wfSaved
    acc := h.acc
    ffn := h.ffn
    afn := h.afn }

theorem act0_tie (hrep : Rep c g L []) (hfuel : msizeSt (eraseSt L tb te) + 2 ≤ fuel)
    (hpre : pre0 (eraseSt L tb te) = true) :
    ASim c tb te (goAct0 fuel lib al (Peg.textOf c.input tb te) (tb : Int) buffer g) (Peg.act0 c (eraseSt L tb te)) := by
  rcases pop_cases c g L [] tb te hrep with ⟨hg, hm⟩ | ⟨it, s, hs, hg, hm, hrep1, hwf⟩
  · simp only [goAct0, Peg.act0, hg, hm, liftH_err, ebind_err]
    exact ASim.err rfl rfl
  · rcases asNode_cases it hwf with ⟨ch, rfl, hne, hga, hma⟩ | ⟨hga, hma⟩
    · have hst : (eraseSt L tb te).stack = .chain (eraseCh ch) :: (s.map eraseItem).reverse := by
        simp only [eraseSt, hs, List.map_append, List.map_cons, List.map_nil, List.reverse_append,
          List.reverse_cons, List.reverse_nil, List.nil_append, List.cons_append, eraseItem]
      have hsz : sizeCh ch + 2 ≤ fuel := by
        have h1 := sizeItems_le_msizeSt L tb te
        rw [hs, sizeItems_append] at h1
        simp only [sizeItems, sizeItem] at h1
        omega
      obtain ⟨g2, ch2, he2, hrep2, her2, hne2, hsz2⟩ := deleteRootIdentifier_tie c _ _ [] ch fuel hrep1 hsz
      have hnep : nepCh ch2 = true := by
        rw [nepCh_erase, her2]
        simp only [pre0, hst] at hpre
        exact hpre
      obtain ⟨hsat2, hnd2⟩ := hrep2.held_sat
      obtain ⟨h', he3, hs3, hf3⟩ := setConnectedText_chain fuel ch2 [] "" { g2 with root := headRef ch2 }
        (Or.inr ⟨rfl, rfl⟩) (hne2 hne) hnep (by omega) hsat2 hnd2
      have hrep3 : Rep c { g2 with heap := h' } _ (cellsCh (connChainL "" ch2) none ++ []) :=
        hrep2.update_held _ h' hf3 hs3 (fun i hi => by rw [ids_cellsCh_connChainL] at hi; exact hi)
          (by rw [ids_cellsCh_connChainL]; exact hnd2)
      have hrep4 := hrep3.toRoot
      simp only [goAct0, Peg.act0, hg, hm, hga, hma, he2, liftH_ok, ebind_ok]
      rw [he3]
      refine ASim.ok ⟨_, { stack := s, saved := L.saved, root := connChainL "" ch2 }, rfl, ?_, ?_⟩
      · rw [headRef_connChainL] at hrep4
        exact hrep4
      · have hne3 : connChainL "" ch2 ≠ [] := by
          intro h0
          have := headRef_connChainL "" ch2
          rw [h0] at this
          cases ch2 with
          | nil => exact hne2 hne rfl
          | cons n r => obtain ⟨id, i, sh⟩ := n; cases this
        cases hc : connChainL "" ch2 with
        | nil => exact absurd hc hne3
        | cons n r =>
          simp only [eraseSt, hc]
          rw [← hc, eraseCh_connChainL, her2]
    · simp only [goAct0, Peg.act0, hg, hm, hga, hma, liftH_ok, liftH_err, ebind_ok, ebind_err]
      exact ASim.err rfl rfl

end
end ParserLayout
end JPV
