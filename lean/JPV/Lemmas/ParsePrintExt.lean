/-
ParsePrintExt — the hypotheses of the parse ∘ print theorems about the parameters `ext`
(standard-library functions) and `env` (registered functions), for a whole abstract path:

  `ExtOK ext p`   every literal that occurs in `p` is read back by the routine the action calls
                  (`Atoi` on the integers of subscripts, the three unescape routines on member
                  names and string literals, `ParseFloat` on number literals, `regexp.Compile` on
                  regular expressions);
  `EnvOK env p`   the kind (filter / aggregate) recorded for a function in `p` is the kind
                  `pushFunction` decides on (it looks a name up as filter function first).

and the fragments of the domain `Print.wf` reached by the theorems.
-/
import JPV.Lemmas.ParsePrintPath
namespace JPV.PP
open JPV.Peg JPV.Print JPV.Lex

def litOK (ext : Ext) : Lit → Prop
  | .num n => ext.parseFloat (String.ofList (intText n)) = .ok n
  | .str s => ext.unescape (String.ofList (escLit s.toList)) = s
  | _ => True

mutual
def stepExt (ext : Ext) : Step → Prop
  | .child _ k => childOK ext k
  | .wild _ => True
  | .multi _ ns => ∀ n ∈ ns, nameOK ext n
  | .union _ ss => ∀ s ∈ ss, subOK ext s
  | .filter _ q => queryExt ext q
  | .desc s => stepExt ext s
def stepsExt (ext : Ext) : List Step → Prop
  | [] => True
  | s :: ss => stepExt ext s ∧ stepsExt ext ss
def queryExt (ext : Ext) : Query → Prop
  | .or a b => queryExt ext a ∧ queryExt ext b
  | .and a b => queryExt ext a ∧ queryExt ext b
  | .exist _ p => pathExt ext p
  | .cmp _ l r => operandExt ext l ∧ operandExt ext r
  | .regex p re => pathExt ext p ∧ ext.regexCompile re = .ok
def operandExt (ext : Ext) : Operand → Prop
  | .lit l => litOK ext l
  | .path p => pathExt ext p
def pathExt (ext : Ext) : Path → Prop
  | .mk _ ss _ => stepsExt ext ss
end

/-- every literal of `p` is read back by `ext` -/
def ExtOK (ext : Ext) (p : Path) : Prop := pathExt ext p

mutual
def stepEnv (env : Env) : Step → Prop
  | .filter _ q => queryEnv env q
  | .desc s => stepEnv env s
  | _ => True
def stepsEnv (env : Env) : List Step → Prop
  | [] => True
  | s :: ss => stepEnv env s ∧ stepsEnv env ss
def queryEnv (env : Env) : Query → Prop
  | .or a b => queryEnv env a ∧ queryEnv env b
  | .and a b => queryEnv env a ∧ queryEnv env b
  | .exist _ p => pathEnv env p
  | .cmp _ l r => operandEnv env l ∧ operandEnv env r
  | .regex p _ => pathEnv env p
def operandEnv (env : Env) : Operand → Prop
  | .lit _ => True
  | .path p => pathEnv env p
def pathEnv (env : Env) : Path → Prop
  | .mk _ ss fns => stepsEnv env ss ∧ ∀ f ∈ fns, fnKindOK env f
end

/-- the function kinds recorded in `p` are the ones the library decides on -/
def EnvOK (env : Env) (p : Path) : Prop := pathEnv env p

/-! ### fragments -/

def noFilterSteps (ss : List Step) : Bool := ss.all noFilterStep

/-- (b): paths without filters -/
def inFragmentB : Path → Bool
  | .mk h ss fns => wf (.mk h ss fns) && noFilterSteps ss

/-- (a): paths without filters and without functions -/
def inFragmentA : Path → Bool
  | .mk h ss fns => inFragmentB (.mk h ss fns) && fns.isEmpty

theorem stepsExt_mem {ext : Ext} : ∀ {ss : List Step}, stepsExt ext ss → ∀ s ∈ ss, stepExt ext s
  | [], _, _, h => by cases h
  | s :: ss, hs, x, hx => by
    rw [stepsExt] at hs
    rcases List.mem_cons.mp hx with rfl | hx
    · exact hs.1
    · exact stepsExt_mem hs.2 x hx

theorem stepExtOK_of_stepExt {ext : Ext} : ∀ (s : Step), noFilterStep s = true → stepExt ext s → stepExtOK ext s
  | .child _ _, _, h => by rw [stepExt] at h; exact h
  | .wild _, _, _ => trivial
  | .multi _ _, _, h => by rw [stepExt] at h; exact h
  | .union _ _, _, h => by rw [stepExt] at h; exact h
  | .filter _ _, h, _ => by cases h
  | .desc s, hn, h => by
    rw [stepExt] at h
    exact stepExtOK_of_stepExt s (by simpa [noFilterStep] using hn) h

theorem stepEnv_of_noFilter (env : Env) : ∀ (s : Step), noFilterStep s = true → stepEnv env s
  | .child _ _, _ => by simp [stepEnv]
  | .wild _, _ => by simp [stepEnv]
  | .multi _ _, _ => by simp [stepEnv]
  | .union _ _, _ => by simp [stepEnv]
  | .filter _ _, h => by cases h
  | .desc s, h => by
    rw [stepEnv]
    exact stepEnv_of_noFilter env s (by simpa [noFilterStep] using h)

theorem stepsEnv_of_noFilter (env : Env) : ∀ (ss : List Step), noFilterSteps ss = true → stepsEnv env ss
  | [], _ => by rw [stepsEnv]; trivial
  | s :: ss, h => by
    simp only [noFilterSteps, List.all_cons, Bool.and_eq_true] at h
    rw [stepsEnv]
    exact ⟨stepEnv_of_noFilter env s h.1, stepsEnv_of_noFilter env ss h.2⟩

end JPV.PP
