/-
ParsePrintRecD — recogniser lemmas, part D: one Print.step, the loop over the steps, a whole path
(`continuedJsonpath`, `jsonpathParameter`, `expression`), parametrised by what is known about the
filter steps (`FilterHyp`; trivially true for paths without filters).
-/
import JPV.Lemmas.ParsePrintRecC
import JPV.Peg.ParseModel
namespace JPV.PP
open JPV.Peg JPV.Print JPV.Lex

/-- what the Print.step lemmas need to know about a filter Print.step: its bracket is accepted -/
def RecBracketFilter (inp : Array Char) (t : String) (q : Query) : Prop :=
  ∀ (ad : Bool) (p : Nat) (r : List Char), Sfx inp p (Print.step ad (.filter t q) ++ r) →
    Acc (80 + 32 * (Print.step ad (.filter t q)).length) (.rule "bracketNode") inp p
      (p + (Print.step ad (.filter t q)).length) (tkStep ad p (.filter t q))

def FilterHyp (inp : Array Char) : Step → Prop
  | .filter t q => RecBracketFilter inp t q
  | .desc s => FilterHyp inp s
  | _ => True

def noFilterStep : Step → Bool
  | .filter _ _ => false
  | .desc s => noFilterStep s
  | _ => true

theorem filterHyp_of_noFilter (inp : Array Char) : ∀ (s : Step), noFilterStep s = true → FilterHyp inp s
  | .child _ _, _ => trivial
  | .wild _, _ => trivial
  | .multi _ _, _ => trivial
  | .union _ _, _ => trivial
  | .filter _ _, h => by cases h
  | .desc s, h => by
    unfold FilterHyp
    exact filterHyp_of_noFilter inp s (by simpa [noFilterStep] using h)

variable {inp : Array Char}

/-- a Print.step right after `..` -/
theorem acc_step_true (s : Step) (hwf : stepWf true s = true) (hf : FilterHyp inp s) {p : Nat} {r : List Char}
    (h : Sfx inp p (Print.step true s ++ r)) (hr : StepStop r) :
    Acc (90 + 32 * (Print.step true s).length) afterDesc inp p (p + (Print.step true s).length) (tkStep true p s) := by
  cases s with
  | child t k =>
    by_cases hk : dotSpellable k.toList = true
    · simp only [Print.step, childStr, hk, if_true] at h ⊢
      simp only [tkStep, hk, if_true]
      exact (acc_afterDesc_key k.toList hk h hr).mono (by omega)
    · have hk' : dotSpellable k.toList = false := by simpa using hk
      simp only [Print.step, childStr, hk', Bool.false_eq_true, if_false] at h ⊢
      simp only [tkStep, hk', Bool.false_eq_true, if_false]
      exact (acc_afterDesc_bracket (acc_bracket_child k h)).mono (by omega)
  | wild t =>
    simp only [Print.step, wildStr, if_true, List.cons_append, List.nil_append] at h ⊢
    simp only [tkStep, if_true]
    exact (acc_afterDesc_wild h).mono (by omega)
  | multi t ns =>
    cases ns with
    | nil => simp [stepWf] at hwf
    | cons n ns =>
      simp only [Print.step] at h ⊢
      simp only [tkStep, Print.step]
      exact (acc_afterDesc_bracket (acc_bracket_multi n ns h)).mono (by omega)
  | union t ss =>
    cases ss with
    | nil => simp [stepWf] at hwf
    | cons s ss =>
      simp only [Print.step] at h ⊢
      simp only [tkStep, Print.step]
      exact (acc_afterDesc_bracket (acc_bracket_union s ss (by simpa [stepWf] using hwf) h)).mono (by omega)
  | filter t q =>
    exact (acc_afterDesc_bracket (hf true p r h)).mono (by omega)
  | desc s => simp [stepWf] at hwf

theorem stepWf_true_of_false : ∀ (s : Step), stepWf true s = true → stepWf false s = true
  | .child _ _, _ => rfl
  | .wild _, _ => rfl
  | .multi _ _, h => h
  | .union _ _, h => h
  | .filter _ _, h => h
  | .desc _, h => by simp [stepWf] at h

/-- a Print.step as a `childNode` -/
theorem acc_step_false (s : Step) (hwf : stepWf false s = true) (hf : FilterHyp inp s) {p : Nat} {r : List Char}
    (h : Sfx inp p (Print.step false s ++ r)) (hr : StepStop r) :
    Acc (100 + 32 * (Print.step false s).length) (.rule "childNode") inp p (p + (Print.step false s).length)
      (tkStep false p s) := by
  cases s with
  | child t k =>
    by_cases hk : dotSpellable k.toList = true
    · simp only [Print.step, childStr, hk, if_true, List.cons_append] at h ⊢
      simp only [tkStep, hk, if_true]
      refine ((acc_childNode_dot k.toList hk h hr).mono ?_).cast ?_ rfl
      · simp only [Bool.false_eq_true, if_false, List.length_cons]; omega
      · simp only [Bool.false_eq_true, if_false, List.length_cons]; omega
    · have hk' : dotSpellable k.toList = false := by simpa using hk
      simp only [Print.step, childStr, hk', Bool.false_eq_true, if_false] at h ⊢
      simp only [tkStep, hk', Bool.false_eq_true, if_false]
      have hb := acc_bracket_child k h
      simp only [bracket, List.cons_append] at h
      exact (acc_childNode_bracket h hb).mono (by omega)
  | wild t =>
    simp only [Print.step, wildStr, List.cons_append, List.nil_append] at h ⊢
    simp only [tkStep]
    exact (acc_childNode_wild h).mono (by simp)
  | multi t ns =>
    cases ns with
    | nil => simp [stepWf] at hwf
    | cons n ns =>
      simp only [Print.step] at h ⊢
      simp only [tkStep, Print.step]
      have hb := acc_bracket_multi n ns h
      simp only [bracket, List.cons_append] at h
      exact (acc_childNode_bracket h hb).mono (by omega)
  | union t ss =>
    cases ss with
    | nil => simp [stepWf] at hwf
    | cons s ss =>
      simp only [Print.step] at h ⊢
      simp only [tkStep, Print.step]
      have hb := acc_bracket_union s ss (by simpa [stepWf] using hwf) h
      simp only [bracket, List.cons_append] at h
      exact (acc_childNode_bracket h hb).mono (by omega)
  | filter t q =>
    have hb := hf false p r h
    simp only [Print.step, List.cons_append] at h
    exact (acc_childNode_bracket h hb).mono (by omega)
  | desc s =>
    have hwf' : stepWf true s = true := by simpa [stepWf] using hwf
    simp only [Print.step, List.cons_append] at h ⊢
    simp only [tkStep]
    have a1 := acc_step_true s hwf' hf h.tail.tail hr
    refine ((acc_childNode_desc h a1).mono ?_).cast ?_ rfl
    · simp only [List.length_cons]; omega
    · simp only [List.length_cons]; omega

/-- every Print.step starts with `.` or `[` -/
theorem step_false_start : ∀ (s : Step) (r : List Char), stepWf false s = true →
    startsWith (fun c => c == '.' || c == '[') (Print.step false s ++ r) = true
  | .child t k, r, _ => by
    by_cases hk : dotSpellable k.toList = true <;> simp [Print.step, childStr, hk, bracket, startsWith]
  | .wild _, _, _ => rfl
  | .multi _ _, _, _ => rfl
  | .union _ _, _, _ => rfl
  | .filter _ _, _, _ => rfl
  | .desc _, _, _ => rfl

theorem step_false_length_pos (s : Step) (h : stepWf false s = true) : 1 ≤ (Print.step false s).length := by
  have := step_false_start s [] h
  cases hx : Print.step false s with
  | nil => rw [hx] at this; cases this
  | cons c l => simp

theorem steps_eq_flat (ss : List Step) : steps ss = flat (Print.step false) ss := by
  induction ss with
  | nil => rfl
  | cons s ss ih => simp [steps, flat, ih]

theorem tkSteps_eq (ss : List Step) : ∀ p, tkSteps p ss = toksStar (Print.step false) (fun s p => tkStep false p s) ss p := by
  induction ss with
  | nil => intro p; rfl
  | cons s ss ih => intro p; simp [tkSteps, toksStar, ih]

theorem stepsWf_mem : ∀ (ss : List Step), stepsWf ss = true → ∀ s ∈ ss, stepWf false s = true
  | [], _, _, hs => by cases hs
  | s :: ss, h, x, hx => by
    simp only [stepsWf, Bool.and_eq_true] at h
    rcases List.mem_cons.mp hx with rfl | hx
    · exact h.1
    · exact stepsWf_mem ss h.2 x hx

/-- `childNode*` over the steps of a printed path -/
theorem acc_steps (ss : List Step) (hwf : stepsWf ss = true) (hf : ∀ s ∈ ss, FilterHyp inp s)
    (fns : List Fn) (hfns : fns.all fnNameOK = true) {p : Nat} {r : List Char}
    (h : Sfx inp p (steps ss ++ (fnsText fns ++ r))) (hr : PathStop r) :
    Acc (101 + 32 * ((steps ss).length + (fnsText fns).length)) (.star (.rule "childNode")) inp p
      (p + (steps ss).length) (tkSteps p ss) := by
  rw [steps_eq_flat] at h ⊢
  rw [tkSteps_eq]
  have hstop_post : StepStop (fnsText fns ++ r) := by
    cases fns with
    | nil => exact hr.stepStop
    | cons f fs => exact .inr rfl
  refine (acc_star_items (inp := inp) (.rule "childNode") (Print.step false) (fun s p => tkStep false p s)
    (fun s => stepWf false s = true ∧ FilterHyp inp s) StepStop 100 (30 + (fnsText fns).length)
    (fnsText fns ++ r) hstop_post ?_ ?_ ?_ ?_ ss p ?_ h).mono (by omega)
  · intro s r' hs
    exact .inr (startsWith_of_true (by intro c hc; simp at hc; rcases hc with rfl | rfl <;> decide)
      (step_false_start s r' hs.1))
  · intro s hs; exact step_false_length_pos s hs.1
  · intro s r' pos hs hstop hsfx; exact acc_step_false s hs.1 hs.2 hsfx hstop
  · intro pos hsfx; exact rej_childNode_post fns hfns hsfx hr
  · intro s hs; exact ⟨stepsWf_mem ss hwf s hs, hf s hs⟩

/-- `continuedJsonpath` over the steps and functions of a printed path -/
theorem acc_continued (ss : List Step) (hwf : stepsWf ss = true) (hf : ∀ s ∈ ss, FilterHyp inp s)
    (fns : List Fn) (hfns : fns.all fnNameOK = true) {p : Nat} {r : List Char}
    (h : Sfx inp p (steps ss ++ (fnsText fns ++ r))) (hr : PathStop r) :
    Acc (105 + 32 * ((steps ss).length + (fnsText fns).length)) (.rule "continuedJsonpath") inp p
      (p + ((steps ss).length + (fnsText fns).length))
      (tkSteps p ss ++ (toksStar fnText tkFn fns (p + (steps ss).length) ++ [.action 2])) := by
  have a1 := acc_steps ss hwf hf fns hfns h hr
  exact ((acc_continued_of fns hfns a1 h.append hr).mono (by omega)).cast (by omega) rfl

/-- a path as a filter operand: `jsonpathParameter` -/
theorem acc_jsonpathParameter (hd : Head) (ss : List Step) (fns : List Fn)
    (hwf : pathWf (.mk hd ss fns) = true) (hf : ∀ s ∈ ss, FilterHyp inp s) {p : Nat} {r : List Char}
    (h : Sfx inp p (path (.mk hd ss fns) ++ r)) (hr : PathStop r) :
    Acc (115 + 32 * (path (.mk hd ss fns)).length) (.rule "jsonpathParameter") inp p
      (p + (path (.mk hd ss fns)).length) (tkPath p (.mk hd ss fns)) := by
  simp only [pathWf, Bool.and_eq_true] at hwf
  simp only [path, List.cons_append, List.append_assoc] at h
  have a1 := acc_continued ss hwf.1 hf fns hwf.2 h.tail hr
  refine ((acc_jsonpathParameter_of hd h a1).mono ?_).cast ?_ ?_
  · simp only [path, List.length_cons, List.length_append]; omega
  · simp only [path, List.length_cons, List.length_append]; omega
  · simp only [tkPath]

/-- the recogniser on a whole printed path -/
theorem acc_expression (ss : List Step) (fns : List Fn)
    (hwf : pathWf (.mk .root ss fns) = true) (hf : ∀ s ∈ ss, FilterHyp (print (.mk .root ss fns)).toArray s) :
    Acc (124 + 32 * (print (.mk .root ss fns)).length) (.alt exprAlt1 exprAlt2)
      (print (.mk .root ss fns)).toArray 0 (print (.mk .root ss fns)).length (tkExpr (.mk .root ss fns)) := by
  have h0 := Sfx.zero (print (.mk .root ss fns))
  simp only [pathWf, Bool.and_eq_true] at hwf
  have h0' : Sfx (print (.mk .root ss fns)).toArray 0 ('$' :: (steps ss ++ (fnsText fns ++ []))) := by
    simpa [print, path, headChar] using h0
  have a1 := acc_continued ss hwf.1 hf fns hwf.2 h0'.tail (.inl rfl)
  have a2 := acc_jsonpath_of h0' a1
  have hend : Sfx (print (.mk .root ss fns)).toArray (0 + 1 + ((steps ss).length + (fnsText fns).length)) [] := by
    have := h0'.tail.append.append
    simpa [Nat.add_assoc] using this
  have hlen : (print (.mk .root ss fns)).length = 0 + 1 + ((steps ss).length + (fnsText fns).length) := by
    simp [print, path]; omega
  rw [hlen]
  refine ((acc_expression_of a2 hend).mono (by omega)).cast rfl ?_
  simp [tkExpr, tkPath, headAct]

/-- `recognise` (the fuel of `parseModel`) on a whole printed path -/
theorem recognise_print (ss : List Step) (fns : List Fn)
    (hwf : pathWf (.mk .root ss fns) = true) (hf : ∀ s ∈ ss, FilterHyp (print (.mk .root ss fns)).toArray s) :
    recognise (print (.mk .root ss fns)).toArray =
      .ok (print (.mk .root ss fns)).length (tkExpr (.mk .root ss fns)) := by
  unfold recognise
  rw [expression_body]
  exact acc_expression ss fns hwf hf _ (by simp [fuelFor]; omega)

end JPV.PP
