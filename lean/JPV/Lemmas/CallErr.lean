/-
CallErr — which error a run returns when nothing is selected because functions failed
(the last clause of C14). The deepest-error bookkeeping of the fan-out loops
(`Impl.addDeepest`: shortest connectedText wins, first among equals unless it is a type
error) keeps a function failure whenever one occurred, provided the functions' connected
texts are shorter than those of the navigation nodes before them — which is how `Parse`
builds them (connectedText = the rest of the path from the node on).
-/
import JPV.Lemmas.CallLog
namespace JPV
namespace CE
open Impl TSem Calls CL

/-- `len(connectedText)` of the node an error names: what `addDeepestError` compares -/
def tl (err : RtErr) : Nat := err.info.conn.utf8ByteSize

/-- the error is the failure of a function node of `fns`, and a failed call of that function
    is in the log `L` -/
def Good (env : Env) (fns : List N) (L : List Call) (err : RtErr) : Prop :=
  ∃ n ∈ fns, err = .func n.info ∧ ∃ c ∈ L, callOf n c = true ∧ failedCall env c = true

theorem Good.mono {env : Env} {fns : List N} {L : List Call} {err : RtErr} (t : List Call)
    (h : Good env fns L err) : Good env fns (L ++ t) err := by
  obtain ⟨n, hn, he, c, hc, h1, h2⟩ := h
  exact ⟨n, hn, he, c, List.mem_append_left _ hc, h1, h2⟩

/-- the connected texts of the function nodes are non-empty and at most `B` bytes long -/
def FnBound (fns : List N) (B : Nat) : Prop :=
  ∀ n ∈ fns, 0 < n.info.conn.utf8ByteSize ∧ n.info.conn.utf8ByteSize ≤ B

theorem Good.facts {env : Env} {fns : List N} {B : Nat} (hB : FnBound fns B) {L : List Call} {err : RtErr}
    (h : Good env fns L err) : err.isType = false ∧ 0 < tl err ∧ tl err ≤ B := by
  obtain ⟨n, hn, he, _⟩ := h
  subst he
  exact ⟨rfl, hB n hn⟩

/-- what the loop has recorded so far: nothing, or an error that is a function failure or
    a shallow one; a function failure as soon as a branch produced one (`g`) -/
def J (env : Env) (fns : List N) (B : Nat) (L : List Call) (dl : Nat) (de : Option RtErr) (g : Prop) : Prop :=
  match de with
  | none => dl = 0 ∧ ¬ g
  | some err => dl = tl err ∧ (Good env fns L err ∨ B < tl err) ∧ (g → Good env fns L err)

theorem J.mono {env : Env} {fns : List N} {B : Nat} {L : List Call} {dl : Nat} {de : Option RtErr} {g : Prop}
    (t : List Call) (h : J env fns B L dl de g) : J env fns B (L ++ t) dl de g := by
  cases de with
  | none => exact h
  | some err =>
    obtain ⟨h1, h2, h3⟩ := h
    exact ⟨h1, h2.imp (Good.mono t) id, fun hg => Good.mono t (h3 hg)⟩

theorem J.weaken {env : Env} {fns : List N} {B : Nat} {L : List Call} {dl : Nat} {de : Option RtErr} {g g' : Prop}
    (hgg : g' → g) (hng : de = none → ¬ g') (h : J env fns B L dl de g) : J env fns B L dl de g' := by
  cases de with
  | none => exact ⟨h.1, hng rfl⟩
  | some err =>
    obtain ⟨h1, h2, h3⟩ := h
    exact ⟨h1, h2, fun hg => h3 (hgg hg)⟩

theorem addDeepest_eq (err : RtErr) (dl : Nat) (de : Option RtErr) :
    addDeepest err dl de =
      if (dl == 0 || decide (dl > tl err)) = true then (tl err, some err)
      else if (dl == tl err) = true then
        (match de with
         | some d => if d.isType = true then (dl, some err) else (dl, de)
         | none => (dl, de))
      else (dl, de) := rfl

/-- one more error arrives -/
theorem addDeepest_J {env : Env} {fns : List N} {B : Nat} (hB : FnBound fns B) {L : List Call}
    {dl : Nat} {de : Option RtErr} {g gx : Prop} (err : RtErr)
    (hJ : J env fns B L dl de g) (h1 : Good env fns L err ∨ B < tl err) (h2 : gx → Good env fns L err) :
    J env fns B L (addDeepest err dl de).1 (addDeepest err dl de).2 (g ∨ gx) := by
  have hpos : 0 < tl err := by
    rcases h1 with h | h
    · exact (h.facts hB).2.1
    · omega
  rw [addDeepest_eq]
  cases de with
  | none =>
    obtain ⟨hdl, hng⟩ := hJ
    subst hdl
    simp only [beq_self_eq_true, Bool.true_or, if_true]
    exact ⟨rfl, h1, fun hg => hg.elim (fun h => absurd h hng) h2⟩
  | some d0 =>
    obtain ⟨hdl, hd0, hgd⟩ := hJ
    have hpos0 : 0 < tl d0 := by
      rcases hd0 with h | h
      · exact (h.facts hB).2.1
      · omega
    by_cases hlt : (dl == 0 || decide (dl > tl err)) = true
    · rw [if_pos hlt]
      have hgt : tl err < tl d0 := by
        simp only [Bool.or_eq_true, beq_iff_eq, decide_eq_true_eq] at hlt
        omega
      refine ⟨rfl, h1, fun hg => hg.elim (fun hg => ?_) h2⟩
      rcases h1 with h | h
      · exact h
      · have := ((hgd hg).facts hB).2.2
        omega
    · rw [if_neg hlt]
      have hge : tl d0 ≤ tl err := by
        simp only [Bool.or_eq_true, beq_iff_eq, decide_eq_true_eq, not_or] at hlt
        omega
      have keep : J env fns B L dl (some d0) (g ∨ gx) ∨ (tl d0 = tl err ∧ d0.isType = true) := by
        by_cases hty : d0.isType = true
        · by_cases heq : tl d0 = tl err
          · exact Or.inr ⟨heq, hty⟩
          · left
            refine ⟨hdl, hd0, fun hg => hg.elim hgd (fun hx => ?_)⟩
            rcases hd0 with h | h
            · exact h
            · have := ((h2 hx).facts hB).2.2
              omega
        · left
          refine ⟨hdl, hd0, fun hg => hg.elim hgd (fun hx => ?_)⟩
          rcases hd0 with h | h
          · exact h
          · have := ((h2 hx).facts hB).2.2
            omega
      by_cases heq : (dl == tl err) = true
      · rw [if_pos heq]
        simp only []
        by_cases hty : d0.isType = true
        · rw [if_pos hty]
          have hdle : dl = tl err := by simpa using heq
          refine ⟨hdle, h1, fun hg => hg.elim (fun hg => ?_) h2⟩
          have := ((hgd hg).facts hB).1
          rw [hty] at this
          cases this
        · rw [if_neg hty]
          rcases keep with h | ⟨_, h⟩
          · exact h
          · exact absurd h hty
      · rw [if_neg heq]
        rcases keep with h | ⟨h, _⟩
        · exact h
        · exfalso
          apply heq
          simp [hdl, h]

/-! ### loops that never push a result -/

/-- a branch run on an empty buffer that selects nothing: the buffer stays empty, the log
    only grows, and the branch reports a function failure or a shallow error — a function
    failure when the branch is `good`; a skipped branch (`continue`) reports nothing -/
def BranchErr (env : Env) (fns : List N) (B : Nat) {α : Type} (f : α → St → M (St × Option RtErr))
    (good : α → Prop) (x : α) : Prop :=
  ∀ st st' e, st.out = [] → f x st = .ok (st', e) →
    st'.out = [] ∧ (∃ t, st'.log = st.log ++ t) ∧
    ((e = none ∧ ¬ good x) ∨
     ∃ err, e = some err ∧ (Good env fns st'.log err ∨ B < tl err) ∧ (good x → Good env fns st'.log err))

theorem stepAcc_empty {r : M (St × Option RtErr)} {st' : St} {e : Option RtErr} (hr : r = .ok (st', e))
    (hout : st'.out = []) (dl : Nat) (de : Option RtErr) :
    stepAcc r dl de = .ok (match e with
      | none => (st', dl, de)
      | some err => (st', (addDeepest err dl de).1, (addDeepest err dl de).2)) := by
  subst hr
  unfold stepAcc
  cases e with
  | none => rfl
  | some err => simp [bind, Except.bind, hout]

theorem loopAcc_err {env : Env} {fns : List N} {B : Nat} (hB : FnBound fns B) {α : Type}
    (f : α → St → M (St × Option RtErr)) (good : α → Prop) :
    ∀ (xs : List α), (∀ x ∈ xs, BranchErr env fns B f good x) →
      ∀ (st : St) (dl : Nat) (de : Option RtErr) (g : Prop) (acc : Acc), st.out = [] →
        J env fns B st.log dl de g → loopAcc f xs (st, dl, de) = .ok acc →
        acc.1.out = [] ∧ (∃ t, acc.1.log = st.log ++ t) ∧
          J env fns B acc.1.log acc.2.1 acc.2.2 (g ∨ ∃ x ∈ xs, good x)
  | [], _, st, dl, de, g, acc, hout, hJ, h => by
    simp only [loopAcc, Except.ok.injEq] at h
    subst h
    refine ⟨hout, ⟨[], by simp⟩, ?_⟩
    refine J.weaken (fun hg => hg.elim id (fun ⟨x, hx, _⟩ => by simp at hx)) (fun hn hg => ?_) hJ
    subst hn
    rcases hg with hg | ⟨x, hx, _⟩
    · exact hJ.2 hg
    · simp at hx
  | x :: xs, hb, st, dl, de, g, acc, hout, hJ, h => by
    simp only [loopAcc, bind, Except.bind] at h
    cases hs : stepAcc (f x st) dl de with
    | error p => rw [hs] at h; simp at h
    | ok acc1 =>
      rw [hs] at h
      simp only [] at h
      obtain ⟨e, hf⟩ := stepAcc_state hs
      obtain ⟨hout1, ⟨t1, hlog1⟩, hres⟩ := hb x List.mem_cons_self st acc1.1 e hout hf
      rw [stepAcc_empty hf hout1] at hs
      have hJ1 : J env fns B acc1.1.log acc1.2.1 acc1.2.2 (g ∨ good x) := by
        rw [hlog1] at hres ⊢
        rcases hres with ⟨he, hng⟩ | ⟨err, he, h1, h2⟩
        · subst he
          simp only [Except.ok.injEq] at hs
          rw [← hs]
          refine J.weaken (fun hg => hg.elim id (fun hx => absurd hx hng)) (fun hn hg => ?_) (hJ.mono t1)
          subst hn
          exact hg.elim hJ.2 hng
        · subst he
          simp only [Except.ok.injEq] at hs
          rw [← hs]
          exact addDeepest_J hB err (hJ.mono t1) h1 h2
      obtain ⟨s1, dl1, de1⟩ := acc1
      obtain ⟨hout2, ⟨t2, hlog2⟩, hJ2⟩ := loopAcc_err hB f good xs (fun y hy => hb y (List.mem_cons_of_mem _ hy))
        s1 dl1 de1 (g ∨ good x) acc hout1 hJ1 h
      refine ⟨hout2, ⟨t1 ++ t2, by rw [hlog2, hlog1, List.append_assoc]⟩, ?_⟩
      refine J.weaken ?_ (fun hn hg => ?_) hJ2
      · rintro (hg | ⟨y, hy, hgy⟩)
        · exact Or.inl (Or.inl hg)
        · rcases List.mem_cons.mp hy with rfl | hy'
          · exact Or.inl (Or.inr hgy)
          · exact Or.inr ⟨y, hy', hgy⟩
      · rw [hn] at hJ2
        apply hJ2.2
        rcases hg with hg | ⟨y, hy, hgy⟩
        · exact Or.inl (Or.inl hg)
        · rcases List.mem_cons.mp hy with rfl | hy'
          · exact Or.inl (Or.inr hgy)
          · exact Or.inr ⟨y, hy', hgy⟩

/-- a loop followed by the common tail: with an empty buffer the group's error is the recorded
    one, or the node's own "no member" when no branch reported anything -/
theorem group_err {env : Env} {fns : List N} {B : Nat} (hB : FnBound fns B) {α : Type}
    (f : α → St → M (St × Option RtErr)) (good : α → Prop) (xs : List α)
    (hb : ∀ x ∈ xs, BranchErr env fns B f good x) (i : Info) (hi : B < i.conn.utf8ByteSize)
    (st st' : St) (e : Option RtErr) (hout : st.out = [])
    (h : (do let acc ← loopAcc f xs (st, 0, none); pure (endGroup i acc) : M (St × Option RtErr)) = .ok (st', e)) :
    st'.out = [] ∧ (∃ t, st'.log = st.log ++ t) ∧
      ∃ err, e = some err ∧ (Good env fns st'.log err ∨ B < tl err) ∧
        ((∃ x ∈ xs, good x) → Good env fns st'.log err) := by
  simp only [bind, Except.bind, pure, Except.pure] at h
  cases hl : loopAcc f xs (st, 0, none) with
  | error p => rw [hl] at h; simp at h
  | ok acc =>
    rw [hl] at h
    simp only [endGroup, Except.ok.injEq, Prod.mk.injEq] at h
    obtain ⟨hout', hlog', hJ⟩ := loopAcc_err hB f good xs hb st 0 none False acc hout ⟨rfl, id⟩ hl
    obtain ⟨h1, h2⟩ := h
    subst h1
    refine ⟨hout', hlog', ?_⟩
    rw [← h2]
    simp only [finishGroup, hout', List.isEmpty_nil, Bool.not_true, Bool.false_eq_true, if_false]
    cases hde : acc.2.2 with
    | none =>
      rw [hde] at hJ
      refine ⟨.member i, rfl, Or.inr hi, fun hg => ?_⟩
      exact absurd (Or.inr hg) hJ.2
    | some err =>
      rw [hde] at hJ
      exact ⟨err, rfl, hJ.2.1, fun hg => hJ.2.2 (Or.inr hg)⟩

/-! ### chains -/

/-- the chain, run on an empty buffer, selects nothing: it reports a function failure or a
    shallow error, a function failure when `good root cur` -/
def ChainErr (env : Env) (fns : List N) (B : Nat) (ch : List N) (good : Val → Val → Prop) : Prop :=
  ∀ (prev : Info) (root cur : Val) (aloc : Option Loc) (st st' : St) (e : Option RtErr),
    st.out = [] → retrieve env ch prev root cur aloc st = .ok (st', e) → den env ch root cur = [] →
    st'.out = [] ∧ (∃ t, st'.log = st.log ++ t) ∧
    ∃ err, e = some err ∧ (Good env fns st'.log err ∨ B < tl err) ∧ (good root cur → Good env fns st'.log err)

theorem ChainErr.weaken {env : Env} {fns : List N} {B : Nat} {ch : List N} {good good' : Val → Val → Prop}
    (hgg : ∀ r c, good' r c → good r c) (h : ChainErr env fns B ch good) : ChainErr env fns B ch good' := by
  intro prev root cur aloc st st' e hout hr hden
  obtain ⟨a, b, err, he, h1, h2⟩ := h prev root cur aloc st st' e hout hr hden
  exact ⟨a, b, err, he, h1, fun hg => h2 (hgg _ _ hg)⟩

/-- an immediate error of a node whose connected text is long -/
theorem imm_err {env : Env} {fns : List N} {B : Nat} {st s1 st' : St} {e : Option RtErr} {err : RtErr}
    (hout : s1.out = []) (hlog : ∃ t, s1.log = st.log ++ t)
    (h : (Except.ok (s1, some err) : M (St × Option RtErr)) = .ok (st', e)) (hS : B < tl err)
    (good : Prop) (hng : ¬ good) :
    st'.out = [] ∧ (∃ t, st'.log = st.log ++ t) ∧
    ∃ err', e = some err' ∧ (Good env fns st'.log err' ∨ B < tl err') ∧ (good → Good env fns st'.log err') := by
  simp only [Except.ok.injEq, Prod.mk.injEq] at h
  obtain ⟨h1, h2⟩ := h
  subst h1
  exact ⟨hout, hlog, err, h2.symm, Or.inr hS, fun hg => absurd hg hng⟩

/-- a chain of filter functions that yields nothing: the error is the failure of one of them -/
theorem ffns_err {env : Env} {fns : List N} {B : Nat} : ∀ (fns' : List N), (∀ n ∈ fns', n ∈ fns) →
    allFfn fns' = true → ChainErr env fns B fns' (fun _ _ => True)
  | [], _, _ => by
    intro prev root cur aloc st st' e hout hr hden
    simp [den] at hden
  | .ffn i name :: rest, hsub, hall => by
    intro prev root cur aloc st st' e hout hr hden
    simp only [allFfn] at hall
    simp only [retrieve] at hr
    cases hf : env.ffn name with
    | none => rw [hf] at hr; simp at hr
    | some f =>
      rw [hf] at hr
      rw [den_ffn_one env i name f hf] at hden
      simp only [] at hr
      cases hfc : f cur with
      | none =>
        rw [hfc] at hr
        simp only [Except.ok.injEq, Prod.mk.injEq] at hr
        obtain ⟨h1, h2⟩ := hr
        subst h1
        have hG : Good env fns (st.call (.ffn name cur)).log (.func i) :=
          ⟨.ffn i name, hsub _ List.mem_cons_self, rfl, .ffn name cur, by simp [St.call],
            by simp [callOf], by simp [failedCall, hf, hfc]⟩
        exact ⟨hout, ⟨[.ffn name cur], rfl⟩, .func i, h2.symm, Or.inl hG, fun _ => hG⟩
      | some r =>
        rw [hfc] at hr hden
        simp only [] at hden
        obtain ⟨a, ⟨t, ht⟩, c⟩ := ffns_err rest (fun n hn => hsub n (List.mem_cons_of_mem _ hn)) hall
          i root r none (st.call (.ffn name cur)) st' e hout hr hden
        exact ⟨a, ⟨.ffn name cur :: t, by rw [ht]; simp [St.call]⟩, c⟩
  | .root _ :: _, _, hall | .cur _ :: _, _, hall | .child _ _ :: _, _, hall | .wild _ :: _, _, hall
  | .multi _ _ _ :: _, _, hall | .desc _ _ _ :: _, _, hall | .union _ _ :: _, _, hall
  | .filter _ _ :: _, _, hall | .afn _ _ _ :: _, _, hall => by simp [allFfn] at hall

/-- the statement for a navigation prefix `rest` followed by the functions `fns` -/
def PreErr (env : Env) (fns : List N) (B : Nat) (rest : List N) : Prop :=
  ChainErr env fns B (rest ++ fns) (fun root cur => den env rest root cur ≠ [])

theorem branch_of_pre {env : Env} {fns : List N} {B : Nat} {rest : List N} (h : PreErr env fns B rest)
    {α : Type} (f : α → St → M (St × Option RtErr)) (D : α → List Val) (x : α)
    (prev : Info) (root v : Val) (loc : Option Loc)
    (hf : ∀ st, f x st = retrieve env (rest ++ fns) prev root v loc st)
    (hden : den env (rest ++ fns) root v = []) (hD : D x = den env rest root v) :
    BranchErr env fns B f (fun y => D y ≠ []) x := by
  intro st st' e hout hr
  rw [hf] at hr
  obtain ⟨a, b, err, he, h1, h2⟩ := h prev root v loc st st' e hout hr hden
  exact ⟨a, b, Or.inr ⟨err, he, h1, fun hg => h2 (by show den env rest root v ≠ []; rw [← hD]; exact hg)⟩⟩

theorem flatMap_ne_nil {α β : Type} {l : List α} {f : α → List β} (h : l.flatMap f ≠ []) : ∃ x ∈ l, f x ≠ [] := by
  apply Classical.byContradiction
  intro hn
  apply h
  rw [List.flatMap_eq_nil_iff]
  intro x hx
  apply Classical.byContradiction
  intro hne
  exact hn ⟨x, hx, hne⟩

/-- a fan-out node whose branches run the rest of the chain -/
theorem loop_node {env : Env} {fns : List N} {B : Nat} (hB : FnBound fns B) {rest : List N}
    (h : PreErr env fns B rest) {α : Type} (f : α → St → M (St × Option RtErr)) (D' D : α → List Val)
    (xs : List α) (prev : Info) (root : Val)
    (hbr : ∀ x ∈ xs, ∃ v loc, (∀ st, f x st = retrieve env (rest ++ fns) prev root v loc st) ∧
      D' x = den env (rest ++ fns) root v ∧ D x = den env rest root v)
    (i : Info) (hi : B < i.conn.utf8ByteSize) (st st' : St) (e : Option RtErr) (hout : st.out = [])
    (hrun : (do let acc ← loopAcc f xs (st, 0, none); pure (endGroup i acc) : M (St × Option RtErr)) = .ok (st', e))
    (hden : xs.flatMap D' = []) :
    st'.out = [] ∧ (∃ t, st'.log = st.log ++ t) ∧
    ∃ err, e = some err ∧ (Good env fns st'.log err ∨ B < tl err) ∧
      (xs.flatMap D ≠ [] → Good env fns st'.log err) := by
  have hb : ∀ x ∈ xs, BranchErr env fns B f (fun y => D y ≠ []) x := by
    intro x hx
    obtain ⟨v, loc, hf, hD', hD⟩ := hbr x hx
    refine branch_of_pre h f D x prev root v loc hf ?_ hD
    rw [← hD']
    exact List.flatMap_eq_nil_iff.mp hden x hx
  obtain ⟨a, b, err, he, h1, h2⟩ := group_err hB f (fun y => D y ≠ []) xs hb i hi st st' e hout hrun
  exact ⟨a, b, err, he, h1, fun hg => h2 (flatMap_ne_nil hg)⟩

/-! ### navigation nodes -/

section nodes
variable {env : Env} {fns : List N} {B : Nat} {rest : List N}

theorem root_err (i : Info) (h : PreErr env fns B rest) : PreErr env fns B (.root i :: rest) := by
  intro prev root cur aloc st st' e hout hr hden
  simp only [List.cons_append, retrieve] at hr
  simp only [List.cons_append, den] at hden ⊢
  exact h i root root none st st' e hout hr hden

theorem cur_err (i : Info) (h : PreErr env fns B rest) : PreErr env fns B (.cur i :: rest) := by
  intro prev root cur aloc st st' e hout hr hden
  simp only [List.cons_append, retrieve] at hr
  simp only [List.cons_append, den] at hden ⊢
  exact h i root cur none st st' e hout hr hden

theorem child_err (i : Info) (k : String) (hi : B < i.conn.utf8ByteSize) (h : PreErr env fns B rest) :
    PreErr env fns B (.child i k :: rest) := by
  intro prev root cur aloc st st' e hout hr hden
  cases cur with
  | obj kvs =>
    simp only [List.cons_append, retrieve] at hr
    simp only [List.cons_append, den] at hden ⊢
    cases hl : Val.lookup k kvs with
    | none =>
      rw [hl] at hr
      exact imm_err hout ⟨[], by simp⟩ hr hi _ (by simp)
    | some v =>
      rw [hl] at hr hden
      exact h i root v _ st st' e hout hr hden
  | null | bool _ | num _ | jnum _ | str _ | arr _ | opq _ _ =>
    simp only [List.cons_append, retrieve] at hr
    simp only [den]
    exact imm_err hout ⟨[], by simp⟩ hr hi _ (by simp)

theorem wild_err (hB : FnBound fns B) (i : Info) (hi : B < i.conn.utf8ByteSize) (h : PreErr env fns B rest) :
    PreErr env fns B (.wild i :: rest) := by
  intro prev root cur aloc st st' e hout hr hden
  cases cur with
  | obj kvs =>
    simp only [List.cons_append, retrieve] at hr
    simp only [List.cons_append, den] at hden ⊢
    exact loop_node hB h _ (fun kv : String × Val => den env (rest ++ fns) root kv.2)
      (fun kv : String × Val => den env rest root kv.2) (sortKV kvs) i root
      (fun x _ => ⟨x.2, ext aloc (.key x.1), fun _ => rfl, rfl, rfl⟩) i hi st st' e hout hr hden
  | arr xs =>
    simp only [List.cons_append, retrieve] at hr
    simp only [List.cons_append, den] at hden ⊢
    rw [← zipIdx_flatMap_fst' (fun x => den env (rest ++ fns) root x) xs 0] at hden
    rw [← zipIdx_flatMap_fst' (fun x => den env rest root x) xs 0]
    exact loop_node hB h _ (fun xi : Val × Nat => den env (rest ++ fns) root xi.1)
      (fun xi : Val × Nat => den env rest root xi.1) xs.zipIdx i root
      (fun x _ => ⟨x.1, ext aloc (.idx x.2), fun _ => rfl, rfl, rfl⟩) i hi st st' e hout hr hden
  | null | bool _ | num _ | jnum _ | str _ | opq _ _ =>
    simp only [List.cons_append, retrieve] at hr
    simp only [den]
    exact imm_err hout ⟨[], by simp⟩ hr hi _ (by simp)

theorem desc_err (hB : FnBound fns B) (i : Info) (mr lr : Bool) (hi : B < i.conn.utf8ByteSize)
    (h : PreErr env fns B rest) : PreErr env fns B (.desc i mr lr :: rest) := by
  intro prev root cur aloc st st' e hout hr hden
  simp only [List.cons_append, retrieve] at hr
  simp only [List.cons_append, den] at hden ⊢
  by_cases hc : cur.isContainer = true
  · rw [if_pos hc] at hr
    rw [← containersLoc_fst cur (aloc.getD []),
      ← filter_map_fst' (fun c => if isObj c then mr else lr)
        (fun cl : Val × Loc => den env (rest ++ fns) root cl.1) (fun c => den env (rest ++ fns) root c) (fun _ => rfl)] at hden
    rw [← containersLoc_fst cur (aloc.getD []),
      ← filter_map_fst' (fun c => if isObj c then mr else lr)
        (fun cl : Val × Loc => den env rest root cl.1) (fun c => den env rest root c) (fun _ => rfl)]
    exact loop_node hB h _ (fun cl : Val × Loc => den env (rest ++ fns) root cl.1)
      (fun cl : Val × Loc => den env rest root cl.1) _ i root
      (fun x _ => ⟨x.1, some x.2, fun _ => rfl, rfl, rfl⟩) i hi st st' e hout hr hden
  · rw [if_neg hc] at hr
    have hcont : Val.containers cur = [] := by
      cases cur <;> simp [Val.isContainer] at hc <;> simp [Val.containers]
    rw [hcont]
    exact imm_err hout ⟨[], by simp⟩ hr hi _ (by simp)

theorem union_err (hB : FnBound fns B) (i : Info) (subs : List SubI) (hi : B < i.conn.utf8ByteSize)
    (h : PreErr env fns B rest) : PreErr env fns B (.union i subs :: rest) := by
  intro prev root cur aloc st st' e hout hr hden
  cases cur with
  | arr xs =>
    simp only [List.cons_append, retrieve] at hr
    simp only [List.cons_append, den] at hden ⊢
    refine loop_node hB h _
      (fun ix : Int => match (if ix < 0 then none else xs[ix.toNat]?) with
        | some v => den env (rest ++ fns) root v
        | none => [])
      (fun ix : Int => match (if ix < 0 then none else xs[ix.toNat]?) with
        | some v => den env rest root v
        | none => [])
      (subs.flatMap (fun s => subIndexes s xs.length)) i root (fun ix hix => ?_) i hi st st' e hout hr hden
    obtain ⟨s, _, hs⟩ := List.mem_flatMap.mp hix
    have hrg := subIndexes_range s xs.length ix hs
    have hlt : ix.toNat < xs.length := by omega
    have hget : (if ix < 0 then none else xs[ix.toNat]?) = some xs[ix.toNat] := by
      rw [if_neg (by omega)]
      exact List.getElem?_eq_getElem hlt
    refine ⟨xs[ix.toNat], ext aloc (.idx ix.toNat), fun st0 => ?_, ?_, ?_⟩ <;> simp only [hget]
  | null | bool _ | num _ | jnum _ | str _ | obj _ | opq _ _ =>
    simp only [List.cons_append, retrieve] at hr
    simp only [den]
    exact imm_err hout ⟨[], by simp⟩ hr hi _ (by simp)

end nodes

def midInfo : MId → Info
  | .key i _ => i
  | .wild i => i

/-- the infos a navigation node can put into an error -/
def errInfos : N → List Info
  | .multi i ids twin => i :: twin.toList ++ ids.map midInfo
  | n => [n.info]

section nodes2
variable {env : Env} {fns : List N} {B : Nat} {rest : List N}

theorem multi_err (hB : FnBound fns B) (i : Info) (ids : List MId) (twin : Option Info)
    (hi : ∀ j ∈ errInfos (.multi i ids twin), B < j.conn.utf8ByteSize)
    (h : PreErr env fns B rest) : PreErr env fns B (.multi i ids twin :: rest) := by
  intro prev root cur aloc st st' e hout hr hden
  have hi0 : B < i.conn.utf8ByteSize := hi i (by simp [errInfos])
  have hobj : ∀ kvs : List (String × Val),
      (do
        let acc ← loopAcc (fun (id : MId) st =>
            match id with
            | .key ii k =>
              (match Val.lookup k kvs with
               | none => (.ok (st, none) : M (St × Option RtErr))
               | some v => retrieve env (rest ++ fns) ii root v (ext aloc (.key k)) st)
            | .wild ii => do
              let acc ← loopAcc (fun (kv : String × Val) st => retrieve env (rest ++ fns) ii root kv.2 (ext aloc (.key kv.1)) st)
                (sortKV kvs) (st, 0, none)
              .ok (endGroup ii acc))
          ids (st, 0, none)
        (.ok (endGroup i acc) : M (St × Option RtErr))) = .ok (st', e) →
      ids.flatMap (fun id =>
        match id with
        | .key _ k => (match Val.lookup k kvs with
          | some v => den env (rest ++ fns) root v
          | none => [])
        | .wild _ => (sortKV kvs).flatMap (fun kv => den env (rest ++ fns) root kv.2)) = [] →
      st'.out = [] ∧ (∃ t, st'.log = st.log ++ t) ∧
      ∃ err, e = some err ∧ (Good env fns st'.log err ∨ B < tl err) ∧
        (ids.flatMap (fun id =>
          match id with
          | .key _ k => (match Val.lookup k kvs with
            | some v => den env rest root v
            | none => [])
          | .wild _ => (sortKV kvs).flatMap (fun kv => den env rest root kv.2)) ≠ [] → Good env fns st'.log err) := by
    intro kvs hr hden
    have hgrp := group_err (env := env) hB _ (fun id : MId => (match id with
          | .key _ k => (match Val.lookup k kvs with
            | some v => den env rest root v
            | none => [])
          | .wild _ => (sortKV kvs).flatMap (fun kv => den env rest root kv.2)) ≠ []) ids
      ?_ i hi0 st st' e hout hr
    · obtain ⟨a, b, err, he, h1, h2⟩ := hgrp
      exact ⟨a, b, err, he, h1, fun hg => h2 (flatMap_ne_nil hg)⟩
    · intro id hid
      have hdid := List.flatMap_eq_nil_iff.mp hden id hid
      have hii : B < (midInfo id).conn.utf8ByteSize :=
        hi _ (by
          show midInfo id ∈ i :: (twin.toList ++ ids.map midInfo)
          exact List.mem_cons_of_mem _ (List.mem_append_right _ (List.mem_map_of_mem hid)))
      intro st0 st1 e1 hout0 h1
      cases id with
      | key ii k =>
        simp only [] at h1 hdid ⊢
        cases hl : Val.lookup k kvs with
        | none =>
          rw [hl] at h1
          simp only [Except.ok.injEq, Prod.mk.injEq] at h1
          obtain ⟨h1a, h1b⟩ := h1
          subst h1a
          exact ⟨hout0, ⟨[], by simp⟩, Or.inl ⟨h1b.symm, by simp⟩⟩
        | some v =>
          rw [hl] at h1 hdid
          simp only [] at hdid
          obtain ⟨a, b, err, he, g1, g2⟩ := h ii root v _ st0 st1 e1 hout0 h1 hdid
          exact ⟨a, b, Or.inr ⟨err, he, g1, g2⟩⟩
      | wild ii =>
        simp only [] at h1 hdid ⊢
        obtain ⟨a, b, c⟩ := loop_node hB h _ (fun kv : String × Val => den env (rest ++ fns) root kv.2)
          (fun kv : String × Val => den env rest root kv.2) (sortKV kvs) ii root
          (fun x _ => ⟨x.2, ext aloc (.key x.1), fun _ => rfl, rfl, rfl⟩) ii hii st0 st1 e1 hout0 h1 hdid
        exact ⟨a, b, Or.inr c⟩
  cases cur with
  | obj kvs =>
    cases twin with
    | none =>
      simp only [List.cons_append, retrieve] at hr
      simp only [List.cons_append, den] at hden ⊢
      exact hobj kvs hr hden
    | some ti =>
      simp only [List.cons_append, retrieve] at hr
      simp only [List.cons_append, den] at hden ⊢
      exact hobj kvs hr hden
  | arr xs =>
    cases twin with
    | none =>
      simp only [List.cons_append, retrieve] at hr
      simp only [den]
      exact imm_err hout ⟨[], by simp⟩ hr hi0 _ (by simp)
    | some ti =>
      have hti : B < ti.conn.utf8ByteSize := hi ti (by simp [errInfos])
      simp only [List.cons_append, retrieve] at hr
      simp only [List.cons_append, den] at hden ⊢
      have e1 : ∀ (g : Val → List Val), (ids.flatMap (fun _ => xs.zipIdx)).flatMap (fun xi : Val × Nat => g xi.1)
          = ids.flatMap (fun _ => xs.flatMap g) := by
        intro g
        rw [List.flatMap_assoc]
        simp only [zipIdx_flatMap_fst']
      rw [← e1 (fun x => den env (rest ++ fns) root x)] at hden
      rw [← e1 (fun x => den env rest root x)]
      exact loop_node hB h _ (fun xi : Val × Nat => den env (rest ++ fns) root xi.1)
        (fun xi : Val × Nat => den env rest root xi.1) _ ti root
        (fun x _ => ⟨x.1, ext aloc (.idx x.2), fun _ => rfl, rfl, rfl⟩) ti hti st st' e hout hr hden
  | null | bool _ | num _ | jnum _ | str _ | opq _ _ =>
    cases twin <;>
    · simp only [List.cons_append, retrieve] at hr
      simp only [den]
      exact imm_err hout ⟨[], by simp⟩ hr hi0 _ (by simp)

end nodes2

section nodes3
variable {env : Env} {fns : List N} {B : Nat} {rest : List N}

theorem filter_err (hB : FnBound fns B) (i : Info) (q : Q) (hi : B < i.conn.utf8ByteSize)
    (hqwf : wfQ env q = true) (h : PreErr env fns B rest) : PreErr env fns B (.filter i q :: rest) := by
  intro prev root cur aloc st st' e hout hr hden
  simp only [List.cons_append, retrieve] at hr
  simp only [List.cons_append, den] at hden ⊢
  by_cases hc : cur.isContainer = true
  · rw [if_pos hc] at hr
    have hms := entriesSeg_snd cur
    generalize entriesSeg cur = E at hms hr
    obtain ⟨vl, st1, hq1, hsub, hvl, habs⟩ := computeQ_ok env q hqwf root (E.map (·.2)) st
    have hlog1 := (computeQ_log env q hqwf root (E.map (·.2)) st st1 vl hq1).2
    have hout1 : st1.out = [] := by rw [hsub.out, hout]
    simp only [hq1, bind, Except.bind] at hr
    rw [← hms, ← habs] at hden ⊢
    cases hcells : vl.cells with
    | nil => exact absurd hcells hvl.ne
    | cons c0 cs =>
      rw [hcells] at hr hden
      simp only [] at hr
      by_cases hshort : (!((c0 :: cs).length == (E.map (·.2)).length) && c0.isEmpty) = true
      · rw [if_pos hshort] at hr
        simp only [Bool.and_eq_true, Bool.not_eq_true', beq_eq_false_iff_ne, ne_eq] at hshort
        rw [absVL_not_each_empty _ c0 cs _ rfl hshort.1 hshort.2, keepBy_all_false]
        exact imm_err hout1 ⟨_, hlog1⟩ hr hi _ (by simp)
      · rw [if_neg hshort] at hr
        have hsel := filter_sel E c0 cs hshort
        rw [← hsel, ← flatMap_snd' (fun v => den env (rest ++ fns) root v)] at hden
        rw [← hsel, ← flatMap_snd' (fun v => den env rest root v)]
        obtain ⟨a, ⟨t, ht⟩, c⟩ := loop_node hB h
          (fun (sv : Seg × Val) st => retrieve env (rest ++ fns) i root sv.2 (ext aloc sv.1) st)
          (fun sv : Seg × Val => den env (rest ++ fns) root sv.2)
          (fun sv : Seg × Val => den env rest root sv.2) _ i root
          (fun x _ => ⟨x.2, ext aloc x.1, fun _ => rfl, rfl, rfl⟩) i hi st1 st' e hout1 hr hden
        exact ⟨a, ⟨_, by rw [ht, hlog1, List.append_assoc]⟩, c⟩
  · rw [if_neg hc] at hr
    have : entries cur = [] := by
      cases cur <;> simp [Val.isContainer] at hc <;> rfl
    rw [this]
    exact imm_err hout ⟨[], by simp⟩ hr hi _ (by simp [keepBy])

end nodes3

/-! ### the induction over the prefix, and the top-level statements -/

theorem wfChain_append' (env : Env) (a b : List N) (h : wfChain env (a ++ b) = true) :
    wfChain env a = true ∧ wfChain env b = true := by
  rw [wfChain_append, Bool.and_eq_true] at h
  exact h

theorem pre_err {env : Env} {fns : List N} {B : Nat} (hB : FnBound fns B) (hall : allFfn fns = true) :
    ∀ (pre : List N), fnFree pre = true → wfChain env pre = true →
      (∀ n ∈ pre, ∀ j ∈ errInfos n, B < j.conn.utf8ByteSize) → PreErr env fns B pre
  | [], _, _, _ => by
    have := ffns_err (env := env) (fns := fns) (B := B) fns (fun _ h => h) hall
    exact this.weaken (fun _ _ _ => trivial)
  | n :: rest, hfree, hwf, hinfo => by
    simp only [fnFree, Bool.and_eq_true] at hfree
    simp only [wfChain, Bool.and_eq_true] at hwf
    have ih := pre_err hB hall rest hfree.2 hwf.2 (fun m hm => hinfo m (List.mem_cons_of_mem _ hm))
    have hn := hinfo n List.mem_cons_self
    cases n with
    | root i => exact root_err i ih
    | cur i => exact cur_err i ih
    | child i k => exact child_err i k (hn i (by simp [errInfos, N.info])) ih
    | wild i => exact wild_err hB i (hn i (by simp [errInfos, N.info])) ih
    | multi i ids t => exact multi_err hB i ids t hn ih
    | desc i a b => exact desc_err hB i a b (hn i (by simp [errInfos, N.info])) ih
    | union i subs => exact union_err hB i subs (hn i (by simp [errInfos, N.info])) ih
    | filter i q =>
      have hq : wfQ env q = true := by simpa [wfN] using hwf.1
      exact filter_err hB i q (hn i (by simp [errInfos, N.info])) hq ih
    | ffn i name => simp [fnFreeN] at hfree
    | afn i name param => simp [fnFreeN] at hfree

/-- the run ended with the failure of a function node of `fns`, and a failed call of that
    function is in the log -/
def FailedFn (env : Env) (fns : List N) (o : Outcome × St) : Prop :=
  ∃ n ∈ fns, o.1 = .err (.func n.info) ∧ ∃ c ∈ o.2.log, callOf n c = true ∧ failedCall env c = true

theorem all_failed_bound (env : Env) (pre fns : List N) (B : Nat)
    (hwf : wfChain env (pre ++ fns) = true) (hfree : fnFree pre = true) (hall : allFfn fns = true)
    (hB : FnBound fns B) (hinfo : ∀ n ∈ pre, ∀ j ∈ errInfos n, B < j.conn.utf8ByteSize)
    (d : Val) (hsel : den env pre d d ≠ []) (hnone : den env (pre ++ fns) d d = []) :
    FailedFn env fns (Impl.run env (pre ++ fns) d) := by
  obtain ⟨st', e, h1, _⟩ := retrieve_ok env (pre ++ fns) hwf default d d (some []) {}
  have hpre := pre_err (env := env) hB hall pre hfree (wfChain_append' env pre fns hwf).1 hinfo
  obtain ⟨_, _, err, he, _, hg⟩ := hpre default d d (some []) {} st' e rfl h1 hnone
  subst he
  obtain ⟨n, hn, herr, c, hc, h2, h3⟩ := hg hsel
  refine ⟨n, hn, ?_, c, ?_, h2, h3⟩
  · simp only [Impl.run, h1, herr]
  · simpa only [Impl.run, h1] using hc

/-- the longest connected text among the function nodes -/
def maxConn : List N → Nat
  | [] => 0
  | n :: rest => max n.info.conn.utf8ByteSize (maxConn rest)

theorem le_maxConn : ∀ (fns : List N), ∀ m ∈ fns, m.info.conn.utf8ByteSize ≤ maxConn fns
  | [], _, h => by simp at h
  | n :: rest, m, h => by
    simp only [maxConn]
    rcases List.mem_cons.mp h with rfl | h
    · exact Nat.le_max_left _ _
    · exact Nat.le_trans (le_maxConn rest m h) (Nat.le_max_right _ _)

theorem maxConn_mem : ∀ (fns : List N), fns ≠ [] → ∃ m ∈ fns, maxConn fns = m.info.conn.utf8ByteSize
  | [], h => absurd rfl h
  | [n], _ => ⟨n, List.mem_cons_self, by simp [maxConn]⟩
  | n :: n' :: rest, _ => by
    obtain ⟨m, hm, he⟩ := maxConn_mem (n' :: rest) (by simp)
    by_cases hle : n.info.conn.utf8ByteSize ≤ maxConn (n' :: rest)
    · exact ⟨m, List.mem_cons_of_mem _ hm, by rw [maxConn, Nat.max_eq_right hle, he]⟩
    · exact ⟨n, List.mem_cons_self, by rw [maxConn, Nat.max_eq_left (by omega)]⟩

/-- how `Parse` lays out connected texts: every function's is non-empty and shorter than
    that of every navigation node before it -/
def ConnSep (pre fns : List N) : Prop :=
  (∀ m ∈ fns, 0 < m.info.conn.utf8ByteSize) ∧
  ∀ n ∈ pre, ∀ j ∈ errInfos n, ∀ m ∈ fns, m.info.conn.utf8ByteSize < j.conn.utf8ByteSize

theorem all_failed_pre (env : Env) (pre fns : List N)
    (hwf : wfChain env (pre ++ fns) = true) (hfree : fnFree pre = true) (hall : allFfn fns = true)
    (hsep : ConnSep pre fns)
    (d : Val) (hsel : den env pre d d ≠ []) (hnone : den env (pre ++ fns) d d = []) :
    FailedFn env fns (Impl.run env (pre ++ fns) d) := by
  by_cases hfns : fns = []
  · subst hfns
    rw [List.append_nil] at hnone
    exact absurd hnone hsel
  · obtain ⟨m, hm, hmax⟩ := maxConn_mem fns hfns
    refine all_failed_bound env pre fns (maxConn fns) hwf hfree hall
      (fun n hn => ⟨hsep.1 n hn, le_maxConn fns n hn⟩) (fun n hn j hj => ?_) d hsel hnone
    rw [hmax]
    exact hsep.2 n hn j hj m hm

def outcomeOf (e : Option RtErr) (st' : St) : Outcome :=
  match e with
  | some err => .err err
  | none => .ok st'.out

theorem run_of_retrieve {env : Env} {ch : List N} {d : Val} {st' : St} {e : Option RtErr}
    (h : retrieve env ch default d d (some []) {} = .ok (st', e)) :
    Impl.run env ch d = (outcomeOf e st', st') := by
  simp only [Impl.run, h]
  cases e <;> rfl

/-- an aggregate first: no loop surrounds the functions, so no assumption on texts is needed -/
theorem all_failed_agg (env : Env) (pre ffns : List N) (i : Info) (a : String)
    (hwf : wfChain env (.afn i a pre :: ffns) = true) (hall : allFfn ffns = true)
    (d : Val) (hsel : den env pre d d ≠ []) (hnone : den env (.afn i a pre :: ffns) d d = []) :
    FailedFn env (.afn i a pre :: ffns) (Impl.run env (.afn i a pre :: ffns) d) := by
  have hwf0 := hwf
  simp only [wfChain, wfN, Bool.and_eq_true] at hwf
  obtain ⟨⟨hreg, hwp⟩, hwr⟩ := hwf
  obtain ⟨st', e, h1, _⟩ := retrieve_ok env (.afn i a pre :: ffns) hwf0 default d d (some []) {}
  have hrun := run_of_retrieve h1
  obtain ⟨s1, e1, hp1, hp2⟩ := retrieve_ok env pre hwp i d d (some []) ({} : St).sub
  have hvals := sub_out_vals {} s1 _ hp2.ext
  have he1 : e1 = none := hp2.sel_ok hsel
  subst he1
  cases hout : s1.out with
  | nil => exact absurd hout (hp2.ok_nonempty rfl)
  | cons x xs =>
    cases hf : env.afn a with
    | none => simp [hf] at hreg
    | some f =>
      rw [hout] at hvals
      simp only [List.map_cons] at hvals
      simp only [den, ← hvals, hf] at hnone
      simp only [retrieve, hp1, bind, Except.bind, hout, hf, List.map_cons] at h1
      cases hfa : f (aggArgs (chainVg pre) x.val (x.val :: List.map Res.val xs)) with
      | none =>
        rw [hfa] at h1
        simp only [Except.ok.injEq, Prod.mk.injEq] at h1
        obtain ⟨h1a, h1b⟩ := h1
        rw [hrun, ← h1b, ← h1a]
        exact ⟨.afn i a pre, List.mem_cons_self, rfl,
          .afn a (aggArgs (chainVg pre) x.val (x.val :: List.map Res.val xs)), by simp [St.call], by simp [callOf],
          by simp [failedCall, hf, hfa]⟩
      | some r =>
        rw [hfa] at h1 hnone
        simp only [] at h1 hnone
        obtain ⟨_, _, err, he, _, hg⟩ := ffns_err (env := env) (fns := .afn i a pre :: ffns) (B := 0) ffns
          (fun n hn => List.mem_cons_of_mem _ hn) hall i d r none _ st' e rfl h1 hnone
        subst he
        obtain ⟨n, hn, herr, c, hc, h2, h3⟩ := hg trivial
        rw [hrun]
        exact ⟨n, hn, by rw [herr]; rfl, c, hc, h2, h3⟩

/-- without any assumption on texts: some logged call returned an error -/
theorem ffns_some_failed (env : Env) : ∀ (fns : List N), allFfn fns = true → wfChain env fns = true →
    ∀ root v, den env fns root v = [] → ∃ c ∈ calls env fns root v, failedCall env c = true
  | [], _, _, root, v, h => by simp [den] at h
  | .ffn i name :: rest, hall, hwf, root, v, h => by
    simp only [allFfn] at hall
    simp only [wfChain, wfN, Bool.and_eq_true] at hwf
    cases hf : env.ffn name with
    | none => simp [hf] at hwf
    | some f =>
      rw [den_ffn_one env i name f hf] at h
      rw [calls_ffn_one env i name f hf]
      cases hfv : f v with
      | none => exact ⟨.ffn name v, List.mem_cons_self, by simp [failedCall, hf, hfv]⟩
      | some r =>
        rw [hfv] at h
        obtain ⟨c, hc, hfc⟩ := ffns_some_failed env rest hall hwf.2 root r h
        exact ⟨c, List.mem_cons_of_mem _ hc, hfc⟩
  | .root _ :: _, hall, _, _, _, _ | .cur _ :: _, hall, _, _, _, _ | .child _ _ :: _, hall, _, _, _, _
  | .wild _ :: _, hall, _, _, _, _ | .multi _ _ _ :: _, hall, _, _, _, _ | .desc _ _ _ :: _, hall, _, _, _, _
  | .union _ _ :: _, hall, _, _, _, _ | .filter _ _ :: _, hall, _, _, _, _ | .afn _ _ _ :: _, hall, _, _, _, _ => by
    simp [allFfn] at hall

theorem some_failed (env : Env) (pre fns : List N)
    (hwf : wfChain env (pre ++ fns) = true) (hfree : fnFree pre = true) (hall : allFfn fns = true)
    (d : Val) (hsel : den env pre d d ≠ []) (hnone : den env (pre ++ fns) d d = []) :
    ∃ c ∈ (Impl.run env (pre ++ fns) d).2.log, failedCall env c = true := by
  rw [run_log env _ hwf, calls_append env fns pre hfree]
  rw [BD.den_append] at hnone
  obtain ⟨v, hv, _⟩ : ∃ v ∈ den env pre d d, True := by
    cases hd : den env pre d d with
    | nil => exact absurd hd hsel
    | cons a b => exact ⟨a, List.mem_cons_self, trivial⟩
  have hv0 := List.flatMap_eq_nil_iff.mp hnone v hv
  obtain ⟨c, hc, hfc⟩ := ffns_some_failed env fns hall (wfChain_append' env pre fns hwf).2 d v hv0
  exact ⟨c, List.mem_flatMap.mpr ⟨v, hv, hc⟩, hfc⟩

/-- `ConnSep`, decidable -/
def connSepB (pre fns : List N) : Bool :=
  fns.all (fun m => decide (0 < m.info.conn.utf8ByteSize)) &&
  pre.all (fun n => (errInfos n).all (fun j => fns.all (fun m =>
    decide (m.info.conn.utf8ByteSize < j.conn.utf8ByteSize))))

theorem connSepB_sound {pre fns : List N} (h : connSepB pre fns = true) : ConnSep pre fns := by
  simp only [connSepB, Bool.and_eq_true, List.all_eq_true, decide_eq_true_eq] at h
  exact ⟨h.1, h.2⟩

end CE
end JPV
