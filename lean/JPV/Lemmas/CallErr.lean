/-
CallErr — which error a run returns when nothing is selected because functions failed
(the last clause of C14). The deepest-error bookkeeping of the fan-out loops
(`Impl.addDeepest`: shortest connectedText wins, first among equals unless it is a type
error) keeps a function failure whenever one occurred, provided the functions' connected
texts are shorter than those of the navigation nodes before them — which is how `Parse`
builds them (connectedText = the rest of the path from the node on).
-/
import JPV.Lemmas.CallLog
namespace JPV
namespace CE
open Impl TSem Calls CL

/-- `len(connectedText)` of the node an error names: what `addDeepestError` compares -/
def tl (err : RtErr) : Nat := err.info.conn.utf8ByteSize

/-- the error is the failure of a function node of `fns`, and a failed call of that function
    is in the log `L` -/
def Good (env : Env) (fns : List N) (L : List Call) (err : RtErr) : Prop :=
  ∃ n ∈ fns, err = .func n.info ∧ ∃ c ∈ L, callOf n c = true ∧ failedCall env c = true

theorem Good.mono {env : Env} {fns : List N} {L : List Call} {err : RtErr} (t : List Call)
    (h : Good env fns L err) : Good env fns (L ++ t) err := by
  obtain ⟨n, hn, he, c, hc, h1, h2⟩ := h
  exact ⟨n, hn, he, c, List.mem_append_left _ hc, h1, h2⟩

/-- the connected texts of the function nodes are non-empty and at most `B` bytes long -/
def FnBound (fns : List N) (B : Nat) : Prop :=
  ∀ n ∈ fns, 0 < n.info.conn.utf8ByteSize ∧ n.info.conn.utf8ByteSize ≤ B

theorem Good.facts {env : Env} {fns : List N} {B : Nat} (hB : FnBound fns B) {L : List Call} {err : RtErr}
    (h : Good env fns L err) : err.isType = false ∧ 0 < tl err ∧ tl err ≤ B := by
  obtain ⟨n, hn, he, _⟩ := h
  subst he
  exact ⟨rfl, hB n hn⟩

/-- what the loop has recorded so far: nothing, or an error that is a function failure or
    a shallow one; a function failure as soon as a branch produced one (`g`) -/
def J (env : Env) (fns : List N) (B : Nat) (L : List Call) (dl : Nat) (de : Option RtErr) (g : Prop) : Prop :=
  match de with
  | none => dl = 0 ∧ ¬ g
  | some err => dl = tl err ∧ (Good env fns L err ∨ B < tl err) ∧ (g → Good env fns L err)

theorem J.mono {env : Env} {fns : List N} {B : Nat} {L : List Call} {dl : Nat} {de : Option RtErr} {g : Prop}
    (t : List Call) (h : J env fns B L dl de g) : J env fns B (L ++ t) dl de g := by
  cases de with
  | none => exact h
  | some err =>
    obtain ⟨h1, h2, h3⟩ := h
    exact ⟨h1, h2.imp (Good.mono t) id, fun hg => Good.mono t (h3 hg)⟩

theorem J.weaken {env : Env} {fns : List N} {B : Nat} {L : List Call} {dl : Nat} {de : Option RtErr} {g g' : Prop}
    (hgg : g' → g) (hng : de = none → ¬ g') (h : J env fns B L dl de g) : J env fns B L dl de g' := by
  cases de with
  | none => exact ⟨h.1, hng rfl⟩
  | some err =>
    obtain ⟨h1, h2, h3⟩ := h
    exact ⟨h1, h2, fun hg => h3 (hgg hg)⟩

theorem addDeepest_eq (err : RtErr) (dl : Nat) (de : Option RtErr) :
    addDeepest err dl de =
      if (dl == 0 || decide (dl > tl err)) = true then (tl err, some err)
      else if (dl == tl err) = true then
        (match de with
         | some d => if d.isType = true then (dl, some err) else (dl, de)
         | none => (dl, de))
      else (dl, de) := rfl

/-- one more error arrives -/
theorem addDeepest_J {env : Env} {fns : List N} {B : Nat} (hB : FnBound fns B) {L : List Call}
    {dl : Nat} {de : Option RtErr} {g gx : Prop} (err : RtErr)
    (hJ : J env fns B L dl de g) (h1 : Good env fns L err ∨ B < tl err) (h2 : gx → Good env fns L err) :
    J env fns B L (addDeepest err dl de).1 (addDeepest err dl de).2 (g ∨ gx) := by
  have hpos : 0 < tl err := by
    rcases h1 with h | h
    · exact (h.facts hB).2.1
    · omega
  rw [addDeepest_eq]
  cases de with
  | none =>
    obtain ⟨hdl, hng⟩ := hJ
    subst hdl
    simp only [beq_self_eq_true, Bool.true_or, if_true]
    exact ⟨rfl, h1, fun hg => hg.elim (fun h => absurd h hng) h2⟩
  | some d0 =>
    obtain ⟨hdl, hd0, hgd⟩ := hJ
    have hpos0 : 0 < tl d0 := by
      rcases hd0 with h | h
      · exact (h.facts hB).2.1
      · omega
    by_cases hlt : (dl == 0 || decide (dl > tl err)) = true
    · rw [if_pos hlt]
      have hgt : tl err < tl d0 := by
        simp only [Bool.or_eq_true, beq_iff_eq, decide_eq_true_eq] at hlt
        omega
      refine ⟨rfl, h1, fun hg => hg.elim (fun hg => ?_) h2⟩
      rcases h1 with h | h
      · exact h
      · have := ((hgd hg).facts hB).2.2
        omega
    · rw [if_neg hlt]
      have hge : tl d0 ≤ tl err := by
        simp only [Bool.or_eq_true, beq_iff_eq, decide_eq_true_eq, not_or] at hlt
        omega
      have keep : J env fns B L dl (some d0) (g ∨ gx) ∨ (tl d0 = tl err ∧ d0.isType = true) := by
        by_cases hty : d0.isType = true
        · by_cases heq : tl d0 = tl err
          · exact Or.inr ⟨heq, hty⟩
          · left
            refine ⟨hdl, hd0, fun hg => hg.elim hgd (fun hx => ?_)⟩
            rcases hd0 with h | h
            · exact h
            · have := ((h2 hx).facts hB).2.2
              omega
        · left
          refine ⟨hdl, hd0, fun hg => hg.elim hgd (fun hx => ?_)⟩
          rcases hd0 with h | h
          · exact h
          · have := ((h2 hx).facts hB).2.2
            omega
      by_cases heq : (dl == tl err) = true
      · rw [if_pos heq]
        simp only []
        by_cases hty : d0.isType = true
        · rw [if_pos hty]
          have hdle : dl = tl err := by simpa using heq
          refine ⟨hdle, h1, fun hg => hg.elim (fun hg => ?_) h2⟩
          have := ((hgd hg).facts hB).1
          rw [hty] at this
          cases this
        · rw [if_neg hty]
          rcases keep with h | ⟨_, h⟩
          · exact h
          · exact absurd h hty
      · rw [if_neg heq]
        rcases keep with h | ⟨h, _⟩
        · exact h
        · exfalso
          apply heq
          simp [hdl, h]

/-! ### loops that never push a result -/

/-- a branch run on an empty buffer that selects nothing: the buffer stays empty, the log
    only grows, and the branch reports a function failure or a shallow error — a function
    failure when the branch is `good`; a skipped branch (`continue`) reports nothing -/
def BranchErr (env : Env) (fns : List N) (B : Nat) {α : Type} (f : α → St → M (St × Option RtErr))
    (good : α → Prop) (x : α) : Prop :=
  ∀ st st' e, st.out = [] → f x st = .ok (st', e) →
    st'.out = [] ∧ (∃ t, st'.log = st.log ++ t) ∧
    ((e = none ∧ ¬ good x) ∨
     ∃ err, e = some err ∧ (Good env fns st'.log err ∨ B < tl err) ∧ (good x → Good env fns st'.log err))

theorem stepAcc_empty {r : M (St × Option RtErr)} {st' : St} {e : Option RtErr} (hr : r = .ok (st', e))
    (hout : st'.out = []) (dl : Nat) (de : Option RtErr) :
    stepAcc r dl de = .ok (match e with
      | none => (st', dl, de)
      | some err => (st', (addDeepest err dl de).1, (addDeepest err dl de).2)) := by
  subst hr
  unfold stepAcc
  cases e with
  | none => rfl
  | some err => simp [bind, Except.bind, hout]

theorem loopAcc_err {env : Env} {fns : List N} {B : Nat} (hB : FnBound fns B) {α : Type}
    (f : α → St → M (St × Option RtErr)) (good : α → Prop) :
    ∀ (xs : List α), (∀ x ∈ xs, BranchErr env fns B f good x) →
      ∀ (st : St) (dl : Nat) (de : Option RtErr) (g : Prop) (acc : Acc), st.out = [] →
        J env fns B st.log dl de g → loopAcc f xs (st, dl, de) = .ok acc →
        acc.1.out = [] ∧ (∃ t, acc.1.log = st.log ++ t) ∧
          J env fns B acc.1.log acc.2.1 acc.2.2 (g ∨ ∃ x ∈ xs, good x)
  | [], _, st, dl, de, g, acc, hout, hJ, h => by
    simp only [loopAcc, Except.ok.injEq] at h
    subst h
    refine ⟨hout, ⟨[], by simp⟩, ?_⟩
    refine J.weaken (fun hg => hg.elim id (fun ⟨x, hx, _⟩ => by simp at hx)) (fun hn hg => ?_) hJ
    subst hn
    rcases hg with hg | ⟨x, hx, _⟩
    · exact hJ.2 hg
    · simp at hx
  | x :: xs, hb, st, dl, de, g, acc, hout, hJ, h => by
    simp only [loopAcc, bind, Except.bind] at h
    cases hs : stepAcc (f x st) dl de with
    | error p => rw [hs] at h; simp at h
    | ok acc1 =>
      rw [hs] at h
      simp only [] at h
      obtain ⟨e, hf⟩ := stepAcc_state hs
      obtain ⟨hout1, ⟨t1, hlog1⟩, hres⟩ := hb x List.mem_cons_self st acc1.1 e hout hf
      rw [stepAcc_empty hf hout1] at hs
      have hJ1 : J env fns B acc1.1.log acc1.2.1 acc1.2.2 (g ∨ good x) := by
        rw [hlog1] at hres ⊢
        rcases hres with ⟨he, hng⟩ | ⟨err, he, h1, h2⟩
        · subst he
          simp only [Except.ok.injEq] at hs
          rw [← hs]
          refine J.weaken (fun hg => hg.elim id (fun hx => absurd hx hng)) (fun hn hg => ?_) (hJ.mono t1)
          subst hn
          exact hg.elim hJ.2 hng
        · subst he
          simp only [Except.ok.injEq] at hs
          rw [← hs]
          exact addDeepest_J hB err (hJ.mono t1) h1 h2
      obtain ⟨s1, dl1, de1⟩ := acc1
      obtain ⟨hout2, ⟨t2, hlog2⟩, hJ2⟩ := loopAcc_err hB f good xs (fun y hy => hb y (List.mem_cons_of_mem _ hy))
        s1 dl1 de1 (g ∨ good x) acc hout1 hJ1 h
      refine ⟨hout2, ⟨t1 ++ t2, by rw [hlog2, hlog1, List.append_assoc]⟩, ?_⟩
      refine J.weaken ?_ (fun hn hg => ?_) hJ2
      · rintro (hg | ⟨y, hy, hgy⟩)
        · exact Or.inl (Or.inl hg)
        · rcases List.mem_cons.mp hy with rfl | hy'
          · exact Or.inl (Or.inr hgy)
          · exact Or.inr ⟨y, hy', hgy⟩
      · rw [hn] at hJ2
        apply hJ2.2
        rcases hg with hg | ⟨y, hy, hgy⟩
        · exact Or.inl (Or.inl hg)
        · rcases List.mem_cons.mp hy with rfl | hy'
          · exact Or.inl (Or.inr hgy)
          · exact Or.inr ⟨y, hy', hgy⟩

/-- a loop followed by the common tail: with an empty buffer the group's error is the recorded
    one, or the node's own "no member" when no branch reported anything -/
theorem group_err {env : Env} {fns : List N} {B : Nat} (hB : FnBound fns B) {α : Type}
    (f : α → St → M (St × Option RtErr)) (good : α → Prop) (xs : List α)
    (hb : ∀ x ∈ xs, BranchErr env fns B f good x) (i : Info) (hi : B < i.conn.utf8ByteSize)
    (st st' : St) (e : Option RtErr) (hout : st.out = [])
    (h : (do let acc ← loopAcc f xs (st, 0, none); pure (endGroup i acc) : M (St × Option RtErr)) = .ok (st', e)) :
    st'.out = [] ∧ (∃ t, st'.log = st.log ++ t) ∧
      ∃ err, e = some err ∧ (Good env fns st'.log err ∨ B < tl err) ∧
        ((∃ x ∈ xs, good x) → Good env fns st'.log err) := by
  simp only [bind, Except.bind, pure, Except.pure] at h
  cases hl : loopAcc f xs (st, 0, none) with
  | error p => rw [hl] at h; simp at h
  | ok acc =>
    rw [hl] at h
    simp only [endGroup, Except.ok.injEq, Prod.mk.injEq] at h
    obtain ⟨hout', hlog', hJ⟩ := loopAcc_err hB f good xs hb st 0 none False acc hout ⟨rfl, id⟩ hl
    obtain ⟨h1, h2⟩ := h
    subst h1
    refine ⟨hout', hlog', ?_⟩
    rw [← h2]
    simp only [finishGroup, hout', List.isEmpty_nil, Bool.not_true, Bool.false_eq_true, if_false]
    cases hde : acc.2.2 with
    | none =>
      rw [hde] at hJ
      refine ⟨.member i, rfl, Or.inr hi, fun hg => ?_⟩
      exact absurd (Or.inr hg) hJ.2
    | some err =>
      rw [hde] at hJ
      exact ⟨err, rfl, hJ.2.1, fun hg => hJ.2.2 (Or.inr hg)⟩

/-! ### chains -/

/-- the chain, run on an empty buffer, selects nothing: it reports a function failure or a
    shallow error, a function failure when `good root cur` -/
def ChainErr (env : Env) (fns : List N) (B : Nat) (ch : List N) (good : Val → Val → Prop) : Prop :=
  ∀ (prev : Info) (root cur : Val) (aloc : Option Loc) (st st' : St) (e : Option RtErr),
    st.out = [] → retrieve env ch prev root cur aloc st = .ok (st', e) → den env ch root cur = [] →
    st'.out = [] ∧ (∃ t, st'.log = st.log ++ t) ∧
    ∃ err, e = some err ∧ (Good env fns st'.log err ∨ B < tl err) ∧ (good root cur → Good env fns st'.log err)

theorem ChainErr.weaken {env : Env} {fns : List N} {B : Nat} {ch : List N} {good good' : Val → Val → Prop}
    (hgg : ∀ r c, good' r c → good r c) (h : ChainErr env fns B ch good) : ChainErr env fns B ch good' := by
  intro prev root cur aloc st st' e hout hr hden
  obtain ⟨a, b, err, he, h1, h2⟩ := h prev root cur aloc st st' e hout hr hden
  exact ⟨a, b, err, he, h1, fun hg => h2 (hgg _ _ hg)⟩

/-- an immediate error of a node whose connected text is long -/
theorem imm_err {env : Env} {fns : List N} {B : Nat} {st s1 st' : St} {e : Option RtErr} {err : RtErr}
    (hout : s1.out = []) (hlog : ∃ t, s1.log = st.log ++ t)
    (h : (Except.ok (s1, some err) : M (St × Option RtErr)) = .ok (st', e)) (hS : B < tl err)
    (good : Prop) (hng : ¬ good) :
    st'.out = [] ∧ (∃ t, st'.log = st.log ++ t) ∧
    ∃ err', e = some err' ∧ (Good env fns st'.log err' ∨ B < tl err') ∧ (good → Good env fns st'.log err') := by
  simp only [Except.ok.injEq, Prod.mk.injEq] at h
  obtain ⟨h1, h2⟩ := h
  subst h1
  exact ⟨hout, hlog, err, h2.symm, Or.inr hS, fun hg => absurd hg hng⟩

/-- a chain of filter functions that yields nothing: the error is the failure of one of them -/
theorem ffns_err {env : Env} {fns : List N} {B : Nat} : ∀ (fns' : List N), (∀ n ∈ fns', n ∈ fns) →
    allFfn fns' = true → ChainErr env fns B fns' (fun _ _ => True)
  | [], _, _ => by
    intro prev root cur aloc st st' e hout hr hden
    simp [den] at hden
  | .ffn i name :: rest, hsub, hall => by
    intro prev root cur aloc st st' e hout hr hden
    simp only [allFfn] at hall
    simp only [retrieve] at hr
    cases hf : env.ffn name with
    | none => rw [hf] at hr; simp at hr
    | some f =>
      rw [hf] at hr
      rw [den_ffn_one env i name f hf] at hden
      simp only [] at hr
      cases hfc : f cur with
      | none =>
        rw [hfc] at hr
        simp only [Except.ok.injEq, Prod.mk.injEq] at hr
        obtain ⟨h1, h2⟩ := hr
        subst h1
        have hG : Good env fns (st.call (.ffn name cur)).log (.func i) :=
          ⟨.ffn i name, hsub _ List.mem_cons_self, rfl, .ffn name cur, by simp [St.call],
            by simp [callOf], by simp [failedCall, hf, hfc]⟩
        exact ⟨hout, ⟨[.ffn name cur], rfl⟩, .func i, h2.symm, Or.inl hG, fun _ => hG⟩
      | some r =>
        rw [hfc] at hr hden
        simp only [] at hden
        obtain ⟨a, ⟨t, ht⟩, c⟩ := ffns_err rest (fun n hn => hsub n (List.mem_cons_of_mem _ hn)) hall
          i root r none (st.call (.ffn name cur)) st' e hout hr hden
        exact ⟨a, ⟨.ffn name cur :: t, by rw [ht]; simp [St.call]⟩, c⟩
  | .root _ :: _, _, hall | .cur _ :: _, _, hall | .child _ _ :: _, _, hall | .wild _ :: _, _, hall
  | .multi _ _ _ :: _, _, hall | .desc _ _ _ :: _, _, hall | .union _ _ :: _, _, hall
  | .filter _ _ :: _, _, hall | .afn _ _ _ :: _, _, hall => by simp [allFfn] at hall

/-- the statement for a navigation prefix `rest` followed by the functions `fns` -/
def PreErr (env : Env) (fns : List N) (B : Nat) (rest : List N) : Prop :=
  ChainErr env fns B (rest ++ fns) (fun root cur => den env rest root cur ≠ [])

theorem branch_of_pre {env : Env} {fns : List N} {B : Nat} {rest : List N} (h : PreErr env fns B rest)
    {α : Type} (f : α → St → M (St × Option RtErr)) (D : α → List Val) (x : α)
    (prev : Info) (root v : Val) (loc : Option Loc)
    (hf : ∀ st, f x st = retrieve env (rest ++ fns) prev root v loc st)
    (hden : den env (rest ++ fns) root v = []) (hD : D x = den env rest root v) :
    BranchErr env fns B f (fun y => D y ≠ []) x := by
  intro st st' e hout hr
  rw [hf] at hr
  obtain ⟨a, b, err, he, h1, h2⟩ := h prev root v loc st st' e hout hr hden
  exact ⟨a, b, Or.inr ⟨err, he, h1, fun hg => h2 (by rw [← hD]; exact hg)⟩⟩

theorem flatMap_ne_nil {α β : Type} {l : List α} {f : α → List β} (h : l.flatMap f ≠ []) : ∃ x ∈ l, f x ≠ [] := by
  apply Classical.byContradiction
  intro hn
  apply h
  rw [List.flatMap_eq_nil_iff]
  intro x hx
  apply Classical.byContradiction
  intro hne
  exact hn ⟨x, hx, hne⟩

/-- a fan-out node whose branches run the rest of the chain -/
theorem loop_node {env : Env} {fns : List N} {B : Nat} (hB : FnBound fns B) {rest : List N}
    (h : PreErr env fns B rest) {α : Type} (f : α → St → M (St × Option RtErr)) (D' D : α → List Val)
    (xs : List α) (prev : Info) (root : Val)
    (hbr : ∀ x ∈ xs, ∃ v loc, (∀ st, f x st = retrieve env (rest ++ fns) prev root v loc st) ∧
      D' x = den env (rest ++ fns) root v ∧ D x = den env rest root v)
    (i : Info) (hi : B < i.conn.utf8ByteSize) (st st' : St) (e : Option RtErr) (hout : st.out = [])
    (hrun : (do let acc ← loopAcc f xs (st, 0, none); pure (endGroup i acc) : M (St × Option RtErr)) = .ok (st', e))
    (hden : xs.flatMap D' = []) :
    st'.out = [] ∧ (∃ t, st'.log = st.log ++ t) ∧
    ∃ err, e = some err ∧ (Good env fns st'.log err ∨ B < tl err) ∧
      (xs.flatMap D ≠ [] → Good env fns st'.log err) := by
  have hb : ∀ x ∈ xs, BranchErr env fns B f (fun y => D y ≠ []) x := by
    intro x hx
    obtain ⟨v, loc, hf, hD', hD⟩ := hbr x hx
    refine branch_of_pre h f D x prev root v loc hf ?_ hD
    rw [← hD']
    exact List.flatMap_eq_nil_iff.mp hden x hx
  obtain ⟨a, b, err, he, h1, h2⟩ := group_err hB f (fun y => D y ≠ []) xs hb i hi st st' e hout hrun
  exact ⟨a, b, err, he, h1, fun hg => h2 (flatMap_ne_nil hg)⟩

end CE
end JPV
