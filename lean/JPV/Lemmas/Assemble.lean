/-
Assemble — what `Build.mkInfos` and `Build.assemble` do to a written path: every element
keeps its value-group flag, plain nodes are appended, and the function suffix is the
specification's `applyFns` on the denotation of the chain so far.
-/
import JPV.Lemmas.DenBasic
import JPV.Spec
namespace JPV
namespace BD
open TSem Impl Build

def preVg : Pre → Bool
  | .node _ vg _ => vg
  | _ => false

/-- a plain node whose constructor stores the Info it is given -/
def PreGood : Pre → Prop
  | .node _ _ mk => ∀ i, (mk i).info = i
  | _ => False

def nodeOf : Pre × Info → N
  | (.node _ _ mk, i) => mk i
  | (.ffn _ name, i) => .ffn i name
  | (.afn _ name, i) => .afn i name []

/-- the Info attached to each written element carries that element's value-group flag -/
def Tagged (l : List (Pre × Info)) : Prop := ∀ x ∈ l, x.2.vg = preVg x.1

theorem suffixTexts_length (ts : List String) : (suffixTexts ts).length = ts.length := by
  induction ts with
  | nil => rfl
  | cons t ts ih => simp only [suffixTexts, List.length_cons, ih]

theorem mkInfos_fst (cfg : Cfg) (top : Bool) (pres : List Pre) :
    (mkInfos cfg top pres).map (·.1) = pres := by
  unfold mkInfos
  simp only [List.map_map]
  have hlen : pres.length ≤ (if top = true then suffixTexts (pres.map Pre.text) else pres.map (fun _ => "")).length := by
    split <;> simp [suffixTexts_length]
  have h2 := List.map_fst_zip hlen
  generalize (if top = true then suffixTexts (pres.map Pre.text) else pres.map (fun _ => "")) = conns at *
  have h1 := List.zipIdx_map_fst 0 (pres.zip conns)
  calc List.map _ ((pres.zip conns).zipIdx)
      = List.map (Prod.fst ∘ Prod.fst) ((pres.zip conns).zipIdx) := by
        apply List.map_congr_left; intro x _; rfl
    _ = List.map Prod.fst (List.map Prod.fst ((pres.zip conns).zipIdx)) := by rw [List.map_map]
    _ = pres := by rw [h1, h2]

theorem mkInfos_tagged (cfg : Cfg) (top : Bool) (pres : List Pre) : Tagged (mkInfos cfg top pres) := by
  intro x hx
  unfold mkInfos at hx
  obtain ⟨y, _, rfl⟩ := List.mem_map.mp hx
  obtain ⟨⟨p, c⟩, idx⟩ := y
  cases p <;> rfl

theorem tagged_append {a b : List (Pre × Info)} (h : Tagged (a ++ b)) : Tagged a ∧ Tagged b :=
  ⟨fun x hx => h x (List.mem_append_left _ hx), fun x hx => h x (List.mem_append_right _ hx)⟩

theorem tagged_cons {a : Pre × Info} {b : List (Pre × Info)} (h : Tagged (a :: b)) :
    a.2.vg = preVg a.1 ∧ Tagged b :=
  ⟨h a List.mem_cons_self, fun x hx => h x (List.mem_cons_of_mem _ hx)⟩

/-- plain nodes are appended one by one -/
theorem assemble_nodes (env : Env) (l : List (Pre × Info)) :
    (∀ x ∈ l, PreGood x.1) → ∀ ch, assemble env l ch = .ok (ch ++ l.map nodeOf) := by
  induction l with
  | nil => intro _ ch; simp [assemble]
  | cons x l ih =>
    intro h ch
    obtain ⟨p, i⟩ := x
    have hp := h (p, i) List.mem_cons_self
    cases p with
    | node t vg mk =>
      simp only [assemble]
      rw [ih (fun y hy => h y (List.mem_cons_of_mem _ hy))]
      simp [nodeOf]
    | ffn _ _ => exact absurd hp (by simp [PreGood])
    | afn _ _ => exact absurd hp (by simp [PreGood])

theorem assemble_append (env : Env) (a b : List (Pre × Info)) :
    ∀ ch, assemble env (a ++ b) ch = (assemble env a ch >>= fun ch' => assemble env b ch') := by
  induction a with
  | nil => intro ch; rfl
  | cons x a ih =>
    intro ch
    obtain ⟨p, i⟩ := x
    cases p with
    | node t vg mk => simp only [List.cons_append, assemble]; exact ih _
    | ffn t name =>
      simp only [List.cons_append, assemble]
      cases env.ffn name with
      | none => rfl
      | some f => exact ih _
    | afn t name =>
      simp only [List.cons_append, assemble]
      cases env.afn name with
      | none => rfl
      | some f => exact ih _

theorem nodes_any_vg (l : List (Pre × Info)) (hg : ∀ x ∈ l, PreGood x.1) (ht : Tagged l) :
    (l.map nodeOf).any (fun x => x.info.vg) = (l.map (·.1)).any preVg := by
  induction l with
  | nil => rfl
  | cons x l ih =>
    obtain ⟨p, i⟩ := x
    have hp := hg (p, i) List.mem_cons_self
    have hti := (tagged_cons ht).1
    simp only [List.map_cons, List.any_cons]
    rw [ih (fun y hy => hg y (List.mem_cons_of_mem _ hy)) (tagged_cons ht).2]
    cases p with
    | node t vg mk =>
      simp only [PreGood] at hp
      simp only [nodeOf, hp i]
      rw [hti]
    | ffn _ _ => exact absurd hp (by simp [PreGood])
    | afn _ _ => exact absurd hp (by simp [PreGood])

/-! ### the function suffix -/

/-- what is known about the chain assembled so far: it denotes `vs` from `start`, and its
    value-group flags say whether `vs` can hold more than one value -/
structure Inv (env : Env) (root start : Val) (ch : List N) (vs : List Val) (single : Bool) : Prop where
  hne : ch ≠ []
  hok : headOK root start ch
  hvg : headVgFalse ch
  hden : den env ch root start = vs
  hany : ch.any (fun x => x.info.vg) = !single
  hlen : single = true → vs.length ≤ 1

theorem headOK_append {root start : Val} {ch : List N} (l : List N) (hne : ch ≠ [])
    (h : headOK root start ch) : headOK root start (ch ++ l) := by
  cases ch with
  | nil => exact absurd rfl hne
  | cons n rest => cases n <;> exact h

theorem headVgFalse_append {ch : List N} (l : List N) (hne : ch ≠ [])
    (h : headVgFalse ch) : headVgFalse (ch ++ l) := by
  cases ch with
  | nil => exact absurd rfl hne
  | cons n rest => cases n <;> exact h

theorem flatMap_option {α β : Type} (f : α → Option β) (l : List α) :
    l.flatMap (fun v => (f v).toList) = l.filterMap f := by
  induction l with
  | nil => rfl
  | cons a l ih =>
    simp only [List.flatMap_cons, List.filterMap_cons, ih]
    cases f a <;> rfl

theorem applyFns_nil (env : Env) (fns : List Fn) (s : Bool) :
    (Spec.applyFns env fns s []).getD [] = [] := by
  induction fns generalizing s with
  | nil => rfl
  | cons fn fns ih =>
    cases fn with
    | ffn t name =>
      simp only [Spec.applyFns]
      cases env.ffn name with
      | none => rfl
      | some f => exact ih s
    | afn t name =>
      simp only [Spec.applyFns]
      cases env.afn name with
      | none => rfl
      | some f => rfl

theorem applyFns_afn_cons (env : Env) (t name : String) (f : List Val → Option Val) (rest : List Fn)
    (hf : env.afn name = some f) (single : Bool) (r0 : Val) (rs : List Val)
    (hlen : single = true → (r0 :: rs).length ≤ 1) :
    Spec.applyFns env (.afn t name :: rest) single (r0 :: rs) =
      (f (aggArgs (!single) r0 (r0 :: rs))).bind (fun r => Spec.applyFns env rest true [r]) := by
  simp only [Spec.applyFns, hf, List.isEmpty_cons, Bool.false_eq_true, if_false]
  cases single with
  | false => simp only [Bool.false_eq_true, if_false, Bool.not_false, aggArgs, if_true]; cases f (r0 :: rs) <;> rfl
  | true =>
    have : rs = [] := by
      have := hlen rfl
      cases rs with
      | nil => rfl
      | cons _ _ => simp at this
    subst this
    cases r0 <;> simp only [if_true, Bool.not_true, aggArgs, Bool.false_eq_true, if_false] <;>
      (first | (cases f _ <;> rfl))

theorem applyFns_afn_nil (env : Env) (t name : String) (f : List Val → Option Val) (rest : List Fn)
    (hf : env.afn name = some f) (single : Bool) :
    Spec.applyFns env (.afn t name :: rest) single [] = some [] := by
  simp only [Spec.applyFns, hf, List.isEmpty_nil, if_true]

/-- the values an aggregate node yields from its parameter's values -/
def afnOut (f : List Val → Option Val) (vg : Bool) : List Val → List Val
  | [] => []
  | r0 :: rs => (f (aggArgs vg r0 (r0 :: rs))).toList

theorem den_afn_single (env : Env) (i : Info) (name : String) (param : List N)
    (f : List Val → Option Val) (hf : env.afn name = some f) (root start : Val) :
    den env [.afn i name param] root start = afnOut f (chainVg param) (den env param root start) := by
  simp only [den, hf]
  cases den env param root start with
  | nil => rfl
  | cons r0 rs => simp only [afnOut]; cases f (aggArgs (chainVg param) r0 (r0 :: rs)) <;> rfl

theorem den_ffn_single (env : Env) (i : Info) (name : String) (f : Val → Option Val)
    (h : env.ffn name = some f) (root : Val) :
    den env [.ffn i name] root = fun v => (f v).toList := by
  funext v
  simp only [den, h]
  cases f v <;> rfl

theorem assemble_fns (env : Env) (root start : Val) (fns : List Fn) :
    ∀ (lfn : List (Pre × Info)) (ch : List N) (vs : List Val) (single : Bool) (ch' : List N),
      lfn.map (·.1) = fns.map fnPre → Tagged lfn → Inv env root start ch vs single →
      assemble env lfn ch = .ok ch' →
      ∃ single', Inv env root start ch' ((Spec.applyFns env fns single vs).getD []) single' := by
  induction fns with
  | nil =>
    intro lfn ch vs single ch' hm _ inv ha
    have : lfn = [] := by simpa using hm
    subst this
    simp only [assemble, Except.ok.injEq] at ha
    subst ha
    exact ⟨single, inv⟩
  | cons fn fns ih =>
    intro lfn ch vs single ch' hm ht inv ha
    cases lfn with
    | nil => simp at hm
    | cons x lfn' =>
      obtain ⟨p, i⟩ := x
      simp only [List.map_cons, List.cons.injEq] at hm
      obtain ⟨hp, hm'⟩ := hm
      have hti := (tagged_cons ht).1
      have ht' := (tagged_cons ht).2
      cases fn with
      | ffn t name =>
        simp only [fnPre] at hp
        subst hp
        simp only [assemble] at ha
        simp only [Spec.applyFns]
        cases hf : env.ffn name with
        | none => rw [hf] at ha; cases ha
        | some f =>
          rw [hf] at ha
          simp only
          refine ih lfn' _ (vs.filterMap f) single ch' hm' ht' ?_ ha
          refine ⟨by simp, headOK_append _ inv.hne inv.hok, headVgFalse_append _ inv.hne inv.hvg, ?_, ?_, ?_⟩
          · rw [den_append, inv.hden, den_ffn_single env i name f hf, flatMap_option]
          · have : i.vg = false := hti
            rw [List.any_append, inv.hany]
            simp [N.info, this]
          · intro hs
            exact Nat.le_trans (List.length_filterMap_le _ _) (inv.hlen hs)
      | afn t name =>
        simp only [fnPre] at hp
        subst hp
        simp only [assemble] at ha
        cases hf : env.afn name with
        | none => rw [hf] at ha; cases ha
        | some f =>
          rw [hf] at ha
          simp only at ha
          have hiv : i.vg = false := hti
          have base : ∀ vs1, vs1.length ≤ 1 →
              den env [.afn i name (finish ch)] root start = vs1 →
              Inv env root start [.afn i name (finish ch)] vs1 true := by
            intro vs1 hl hd
            exact ⟨by simp, trivial, trivial, hd, by simp [N.info, hiv], fun _ => hl⟩
          have hd0 : den env [.afn i name (finish ch)] root start = afnOut f (!single) vs := by
            rw [den_afn_single env i name _ f hf, den_finish env ch root start inv.hok,
              chainVg_finish ch inv.hvg, inv.hany, inv.hden]
          have hlen := inv.hlen
          clear inv
          cases vs with
          | nil =>
            rw [applyFns_afn_nil env t name f fns hf]
            obtain ⟨s', h'⟩ := ih lfn' _ [] true ch' hm' ht' (base [] (by simp) hd0) ha
            rw [applyFns_nil] at h'
            exact ⟨s', h'⟩
          | cons r0 rs =>
            rw [applyFns_afn_cons env t name f fns hf single r0 rs hlen]
            simp only [afnOut] at hd0
            cases hfa : f (aggArgs (!single) r0 (r0 :: rs)) with
            | none =>
              rw [hfa] at hd0
              obtain ⟨s', h'⟩ := ih lfn' _ [] true ch' hm' ht' (base [] (by simp) hd0) ha
              rw [applyFns_nil] at h'
              exact ⟨s', h'⟩
            | some r =>
              rw [hfa] at hd0
              exact ih lfn' _ [r] true ch' hm' ht' (base [r] (by simp) hd0) ha

end BD
end JPV
