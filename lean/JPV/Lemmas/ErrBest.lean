/-
ErrBest — which error the deepest-error bookkeeping (`Impl.addDeepest`, `Impl.stepAcc`,
`Impl.loopAcc`, `Impl.endGroup`) hands back, stated against an arbitrary list of "failures"
per branch. `Best s r F`: `r` is one of `F`; and in the strong mode (`s = true`, which needs
every connectedText to be non-empty) `r` has the shortest connectedText of all of `F` and is
not a type error when some failure of that length is not one.
-/
import JPV.Fails
import JPV.Lemmas.CallErr
namespace JPV
namespace ES
open Impl TSem Fails
open CE (tl addDeepest_eq)

structure Best (s : Bool) (r : RtErr) (F : List RtErr) : Prop where
  mem : r ∈ F
  strong : s = true → 0 < tl r ∧ (∀ f ∈ F, tl r ≤ tl f) ∧
    (∀ f ∈ F, tl f = tl r → f.isType = false → r.isType = false)

theorem Best.single {s : Bool} {r : RtErr} (hpos : s = true → 0 < tl r) : Best s r [r] :=
  ⟨List.mem_singleton.mpr rfl, fun hs => ⟨hpos hs, fun f hf => by rw [List.mem_singleton.mp hf]; exact Nat.le_refl _,
    fun f hf _ h => by rw [← List.mem_singleton.mp hf]; exact h⟩⟩

theorem Best.ne_nil {s : Bool} {r : RtErr} {F : List RtErr} (h : Best s r F) : F ≠ [] :=
  List.ne_nil_of_mem h.mem

theorem Best.congr {s : Bool} {r : RtErr} {F G : List RtErr} (h : Best s r F) (e : F = G) : Best s r G := e ▸ h

/-- the recorded error stays -/
theorem Best.keep {s : Bool} {r : RtErr} {F1 F2 : List RtErr} (h1 : Best s r F1)
    (h2 : s = true → (∀ f ∈ F2, tl r < tl f) ∨
      ((∀ f ∈ F2, tl r ≤ tl f) ∧ r.isType = false)) : Best s r (F1 ++ F2) := by
  refine ⟨List.mem_append_left _ h1.mem, fun hs => ?_⟩
  obtain ⟨p, m, t⟩ := h1.strong hs
  refine ⟨p, fun f hf => ?_, fun f hf he hty => ?_⟩
  · rcases List.mem_append.mp hf with hf | hf
    · exact m f hf
    · rcases h2 hs with h | h
      · exact Nat.le_of_lt (h f hf)
      · exact h.1 f hf
  · rcases List.mem_append.mp hf with hf | hf
    · exact t f hf he hty
    · rcases h2 hs with h | h
      · have := h f hf
        omega
      · exact h.2

/-- the new error replaces the recorded one -/
theorem Best.replace {s : Bool} {e : RtErr} {F1 F2 : List RtErr} (h2 : Best s e F2)
    (h1 : s = true → (∀ f ∈ F1, tl e < tl f) ∨
      ((∀ f ∈ F1, tl e ≤ tl f) ∧ ∀ f ∈ F1, tl f = tl e → f.isType = true)) : Best s e (F1 ++ F2) := by
  refine ⟨List.mem_append_right _ h2.mem, fun hs => ?_⟩
  obtain ⟨p, m, t⟩ := h2.strong hs
  refine ⟨p, fun f hf => ?_, fun f hf he hty => ?_⟩
  · rcases List.mem_append.mp hf with hf | hf
    · rcases h1 hs with h | h
      · exact Nat.le_of_lt (h f hf)
      · exact h.1 f hf
    · exact m f hf
  · rcases List.mem_append.mp hf with hf | hf
    · rcases h1 hs with h | h
      · have := h f hf
        omega
      · have := h.2 f hf he
        rw [this] at hty
        cases hty
    · exact t f hf he hty

/-- what the accumulator of a fan-out loop holds while the buffer is empty: nothing (and then
    no branch so far met a failure), or the best of the failures so far -/
def LI (s : Bool) (dl : Nat) (de : Option RtErr) (F : List RtErr) : Prop :=
  match de with
  | none => F = [] ∧ dl = 0
  | some r => Best s r F ∧ (s = true → dl = tl r)

theorem addDeepest_weak (e : RtErr) (dl : Nat) (r : RtErr) :
    (addDeepest e dl (some r)).2 = some e ∨ (addDeepest e dl (some r)).2 = some r := by
  rw [addDeepest_eq]
  split
  · exact Or.inl rfl
  · split
    · simp only []
      split
      · exact Or.inl rfl
      · exact Or.inr rfl
    · exact Or.inr rfl

/-- one more branch error arrives -/
theorem LI.step {s : Bool} {dl : Nat} {de : Option RtErr} {F F2 : List RtErr} {e : RtErr}
    (h : LI s dl de F) (h2 : Best s e F2) :
    LI s (addDeepest e dl de).1 (addDeepest e dl de).2 (F ++ F2) := by
  cases de with
  | none =>
    obtain ⟨hF, hdl⟩ := h
    subst hF hdl
    rw [addDeepest_eq]
    simp only [beq_self_eq_true, Bool.true_or, if_true, List.nil_append]
    exact ⟨h2, fun _ => rfl⟩
  | some r =>
    obtain ⟨h1, hdl⟩ := h
    cases s with
    | false =>
      rcases addDeepest_weak e dl r with hw | hw
      · rw [hw]
        exact ⟨⟨List.mem_append_right _ h2.mem, fun h => by cases h⟩, fun h => by cases h⟩
      · rw [hw]
        exact ⟨⟨List.mem_append_left _ h1.mem, fun h => by cases h⟩, fun h => by cases h⟩
    | true =>
      have hdl := hdl rfl
      obtain ⟨p1, m1, t1⟩ := h1.strong rfl
      obtain ⟨p2, m2, t2⟩ := h2.strong rfl
      rw [addDeepest_eq]
      by_cases hlt : (dl == 0 || decide (dl > tl e)) = true
      · rw [if_pos hlt]
        have hgt : tl e < tl r := by
          simp only [Bool.or_eq_true, beq_iff_eq, decide_eq_true_eq] at hlt
          omega
        refine ⟨Best.replace h2 (fun _ => Or.inl (fun f hf => ?_)), fun _ => rfl⟩
        have := m1 f hf
        omega
      · rw [if_neg hlt]
        have hge : tl r ≤ tl e := by
          simp only [Bool.or_eq_true, beq_iff_eq, decide_eq_true_eq, not_or] at hlt
          omega
        by_cases heq : (dl == tl e) = true
        · rw [if_pos heq]
          have heq' : tl r = tl e := by
            have : dl = tl e := by simpa using heq
            omega
          simp only []
          by_cases hty : r.isType = true
          · rw [if_pos hty]
            refine ⟨Best.replace h2 (fun _ => Or.inr ⟨fun f hf => ?_, fun f hf he => ?_⟩), fun _ => by simpa using heq⟩
            · have := m1 f hf
              omega
            · cases hft : f.isType with
              | true => rfl
              | false =>
                have := t1 f hf (by omega) hft
                rw [hty] at this
                cases this
          · rw [if_neg hty]
            refine ⟨Best.keep h1 (fun _ => Or.inr ⟨fun f hf => ?_, by simpa using hty⟩), fun _ => hdl⟩
            have := m2 f hf
            omega
        · rw [if_neg heq]
          refine ⟨Best.keep h1 (fun _ => Or.inl (fun f hf => ?_)), fun _ => hdl⟩
          have := m2 f hf
          have hne : ¬ dl = tl e := by simpa using heq
          omega

/-! ### loops -/

/-- what a branch returns when it is entered with an empty buffer and leaves it empty:
    the best of its failures, or nothing when it is a `continue` (`skip`) -/
def BranchF (s : Bool) {α : Type} (f : α → St → M (St × Option RtErr)) (FF : α → List RtErr)
    (skip : α → Bool) (x : α) : Prop :=
  ∀ st st' e, st.out = [] → f x st = .ok (st', e) → st'.out = [] →
    match e with
    | some r => Best s r (FF x) ∧ skip x = false
    | none => skip x = true ∧ FF x = []

theorem ext_out_nil {st st' : St} {D : List Val} (h : Ext st st' D) (h' : st'.out = []) : st.out = [] := by
  obtain ⟨⟨R, ho, _⟩, _⟩ := h
  rw [h'] at ho
  cases hst : st.out with
  | nil => rfl
  | cons a b => rw [hst] at ho; simp at ho

theorem stepAcc_nil {r : M (St × Option RtErr)} {st' : St} {e : Option RtErr} (hr : r = .ok (st', e))
    (hout : st'.out = []) (dl : Nat) (de : Option RtErr) :
    stepAcc r dl de = .ok (match e with
      | none => (st', dl, de)
      | some err => (st', (addDeepest err dl de).1, (addDeepest err dl de).2)) :=
  CE.stepAcc_empty hr hout dl de

/-- a branch only appends to the buffer -/
def Mono {α : Type} (f : α → St → M (St × Option RtErr)) (x : α) : Prop :=
  ∀ st st' e, f x st = .ok (st', e) → st'.out = [] → st.out = []

theorem loopAcc_mono {α : Type} (f : α → St → M (St × Option RtErr)) :
    ∀ (xs : List α), (∀ x ∈ xs, Mono f x) → ∀ (st : St) (dl : Nat) (de : Option RtErr) (acc : Acc),
      loopAcc f xs (st, dl, de) = .ok acc → acc.1.out = [] → st.out = []
  | [], _, st, dl, de, acc, h, hfin => by
    simp only [loopAcc, Except.ok.injEq] at h
    subst h
    exact hfin
  | x :: xs, hm, st, dl, de, acc, h, hfin => by
    simp only [loopAcc, bind, Except.bind] at h
    cases hs : stepAcc (f x st) dl de with
    | error p => rw [hs] at h; simp at h
    | ok acc1 =>
      rw [hs] at h
      simp only [] at h
      obtain ⟨e, hf⟩ := CL.stepAcc_state hs
      obtain ⟨s1, dl1, de1⟩ := acc1
      have := loopAcc_mono f xs (fun y hy => hm y (List.mem_cons_of_mem _ hy)) s1 dl1 de1 acc h hfin
      exact hm x List.mem_cons_self st s1 e hf this

theorem loopF {s : Bool} {α : Type} (f : α → St → M (St × Option RtErr))
    (FF : α → List RtErr) (skip : α → Bool) :
    ∀ (xs : List α), (∀ x ∈ xs, Mono f x) → (∀ x ∈ xs, BranchF s f FF skip x) →
      ∀ (st : St) (dl : Nat) (de : Option RtErr) (F0 : List RtErr) (acc : Acc), st.out = [] →
        LI s dl de F0 → loopAcc f xs (st, dl, de) = .ok acc → acc.1.out = [] →
        LI s acc.2.1 acc.2.2 (F0 ++ xs.flatMap FF) ∧
        (acc.2.2 = none → ∀ x ∈ xs, skip x = true) ∧
        (de = none → ∀ r, acc.2.2 = some r → ∃ x ∈ xs, skip x = false)
  | [], _, _, st, dl, de, F0, acc, _, hLI, h, _ => by
    simp only [loopAcc, Except.ok.injEq] at h
    subst h
    refine ⟨by simpa using hLI, fun _ x hx => by simp at hx, fun hn r hr => ?_⟩
    simp only [] at hr
    rw [hn] at hr
    cases hr
  | x :: xs, hbo, hbf, st, dl, de, F0, acc, hout, hLI, h, hfin => by
    simp only [loopAcc, bind, Except.bind] at h
    cases hs : stepAcc (f x st) dl de with
    | error p => rw [hs] at h; simp at h
    | ok acc1 =>
      rw [hs] at h
      simp only [] at h
      obtain ⟨e, hf⟩ := CL.stepAcc_state hs
      obtain ⟨s1, dl1, de1⟩ := acc1
      simp only [] at hf
      have hbo' := fun y hy => hbo y (List.mem_cons_of_mem _ hy)
      have hbf' := fun y hy => hbf y (List.mem_cons_of_mem _ hy)
      -- the rest of the loop only appends, so the buffer was still empty here
      have hl2 := h
      have hout1 : s1.out = [] := loopAcc_mono f xs hbo' s1 dl1 de1 acc h hfin
      have hb := hbf x List.mem_cons_self st s1 e hout hf hout1
      rw [stepAcc_nil hf hout1] at hs
      cases e with
      | none =>
        simp only [Except.ok.injEq, Prod.mk.injEq] at hs
        obtain ⟨_, hdl, hde⟩ := hs
        subst hdl hde
        obtain ⟨hsk, hFF⟩ := hb
        obtain ⟨a, b, c⟩ := loopF f FF skip xs hbo' hbf' s1 dl de F0 acc hout1 hLI hl2 hfin
        refine ⟨by simpa [List.flatMap_cons, hFF] using a, fun hn y hy => ?_, fun hn r hr => ?_⟩
        · rcases List.mem_cons.mp hy with rfl | hy
          · exact hsk
          · exact b hn y hy
        · obtain ⟨y, hy, hys⟩ := c hn r hr
          exact ⟨y, List.mem_cons_of_mem _ hy, hys⟩
      | some err =>
        simp only [Except.ok.injEq, Prod.mk.injEq] at hs
        obtain ⟨_, hdl, hde⟩ := hs
        obtain ⟨hbest, hsk⟩ := hb
        have hLI1 : LI s dl1 de1 (F0 ++ FF x) := by
          rw [← hdl, ← hde]
          exact hLI.step hbest
        obtain ⟨a, b, c⟩ := loopF f FF skip xs hbo' hbf' s1 dl1 de1 (F0 ++ FF x) acc hout1 hLI1 hl2 hfin
        have a' : LI s acc.2.1 acc.2.2 (F0 ++ (x :: xs).flatMap FF) := by
          simpa [List.flatMap_cons, List.append_assoc] using a
        refine ⟨a', fun hn => ?_, fun _ r _ => ⟨x, List.mem_cons_self, hsk⟩⟩
        -- an error was recorded, so the accumulator cannot end empty
        exfalso
        rw [hn] at a'
        have hne : F0 ++ (x :: xs).flatMap FF ≠ [] := by
          intro h0
          have := hbest.ne_nil
          simp only [List.flatMap_cons, List.append_eq_nil_iff] at h0
          exact this h0.2.1
        exact hne a'.1

/-- a loop from an empty accumulator followed by the common tail, entered with an empty
    buffer: an error is returned only with the buffer still empty; it is the node's own
    "member not exist" when every branch was a `continue`, else the best of the branches' failures -/
theorem groupF {s : Bool} {α : Type} (f : α → St → M (St × Option RtErr))
    (FF : α → List RtErr) (skip : α → Bool) (xs : List α)
    (hbo : ∀ x ∈ xs, Mono f x) (hbf : ∀ x ∈ xs, BranchF s f FF skip x)
    (i : Info) (st st' : St) (r : RtErr) (hout : st.out = [])
    (h : (do let acc ← loopAcc f xs (st, 0, none); pure (endGroup i acc) : M (St × Option RtErr)) = .ok (st', some r)) :
    st'.out = [] ∧
    (((∀ x ∈ xs, skip x = true) ∧ r = .member i) ∨ ((∃ x ∈ xs, skip x = false) ∧ Best s r (xs.flatMap FF))) := by
  simp only [bind, Except.bind, pure, Except.pure] at h
  cases hl : loopAcc f xs (st, 0, none) with
  | error p => rw [hl] at h; simp at h
  | ok acc =>
    rw [hl] at h
    simp only [endGroup, Except.ok.injEq, Prod.mk.injEq] at h
    obtain ⟨h1, h2⟩ := h
    have hfin : acc.1.out = [] := by
      simp only [finishGroup] at h2
      cases ho : acc.1.out with
      | nil => rfl
      | cons a b => simp [ho] at h2
    obtain ⟨a, b, c⟩ := loopF f FF skip xs hbo hbf st 0 none [] acc hout ⟨rfl, rfl⟩ hl hfin
    refine ⟨by rw [← h1]; exact hfin, ?_⟩
    simp only [finishGroup, hfin, List.isEmpty_nil, Bool.not_true, Bool.false_eq_true, if_false] at h2
    cases hde : acc.2.2 with
    | none =>
      rw [hde] at h2
      simp only [Option.some.injEq] at h2
      exact Or.inl ⟨b hde, h2.symm⟩
    | some r' =>
      rw [hde] at h2 a
      simp only [Option.some.injEq] at h2
      subst h2
      exact Or.inr ⟨c rfl _ hde, by simpa using a.1⟩

/-- the usual case: no branch is a `continue` -/
theorem groupF' {s : Bool} {α : Type} (f : α → St → M (St × Option RtErr))
    (FF : α → List RtErr) (xs : List α)
    (hbo : ∀ x ∈ xs, Mono f x) (hbf : ∀ x ∈ xs, BranchF s f FF (fun _ => false) x)
    (i : Info) (hi : s = true → 0 < i.conn.utf8ByteSize) (st st' : St) (r : RtErr) (hout : st.out = [])
    (h : (do let acc ← loopAcc f xs (st, 0, none); pure (endGroup i acc) : M (St × Option RtErr)) = .ok (st', some r)) :
    st'.out = [] ∧ Best s r (grp i xs FF) := by
  obtain ⟨a, b⟩ := groupF f FF (fun _ => false) xs hbo hbf i st st' r hout h
  refine ⟨a, ?_⟩
  rcases b with ⟨hall, hr⟩ | ⟨⟨x, hx, _⟩, hb⟩
  · have : xs = [] := by
      cases xs with
      | nil => rfl
      | cons x xs => have := hall x List.mem_cons_self; cases this
    subst this hr
    exact Best.single hi
  · have : xs.isEmpty = false := by
      cases xs with
      | nil => simp at hx
      | cons _ _ => rfl
    simp only [grp, this, Bool.false_eq_true, if_false]
    exact hb

end ES
end JPV
