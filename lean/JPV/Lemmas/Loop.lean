/-
Loop lemmas: what a fan-out loop with deepest-error bookkeeping does to the shared buffer.
-/
import JPV.TSem
namespace JPV
open Impl TSem

/-- `st'` extends `st`: the buffer grew by results whose values are `D`; every list written
    in between was fresh -/
structure Ext (st st' : St) (D : List Val) : Prop where
  out : ∃ R, st'.out = st.out ++ R ∧ R.map Res.val = D
  wr : ∃ ws, st'.writes = st.writes ++ ws ∧ ∀ w ∈ ws, w = Org.fresh

theorem Ext.refl (st : St) : Ext st st [] :=
  ⟨⟨[], by simp⟩, ⟨[], by simp⟩⟩

theorem Ext.trans {a b c : St} {D E : List Val} (h1 : Ext a b D) (h2 : Ext b c E) : Ext a c (D ++ E) := by
  obtain ⟨⟨R1, ho1, hv1⟩, ⟨w1, hw1, hf1⟩⟩ := h1
  obtain ⟨⟨R2, ho2, hv2⟩, ⟨w2, hw2, hf2⟩⟩ := h2
  refine ⟨⟨R1 ++ R2, ?_, ?_⟩, ⟨w1 ++ w2, ?_, ?_⟩⟩
  · rw [ho2, ho1, List.append_assoc]
  · simp [hv1, hv2]
  · rw [hw2, hw1, List.append_assoc]
  · intro w hw
    rcases List.mem_append.mp hw with h | h
    · exact hf1 w h
    · exact hf2 w h

theorem Ext.out_ne_nil {a b : St} {D : List Val} (h : Ext a b D) (hD : D ≠ []) : b.out ≠ [] := by
  obtain ⟨⟨R, ho, hv⟩, _⟩ := h
  intro hb
  rw [hb] at ho
  have : R = [] := by
    cases R with
    | nil => rfl
    | cons x xs => simp at ho
  subst this
  simp at hv
  exact hD hv

/-- the invariant of `retrieve` -/
structure RInv (st st' : St) (e : Option RtErr) (D : List Val) : Prop where
  ext : Ext st st' D
  ok_nonempty : e = none → st'.out ≠ []
  sel_ok : D ≠ [] → e = none

/-- a branch function is well behaved on `x` -/
def BranchOK {α : Type} (f : α → St → M (St × Option RtErr)) (D : α → List Val) (x : α) : Prop :=
  ∀ st, ∃ st' e, f x st = .ok (st', e) ∧ Ext st st' (D x)

theorem stepAcc_ok {r : M (St × Option RtErr)} {st' : St} {e : Option RtErr}
    (hr : r = .ok (st', e)) (dl : Nat) (de : Option RtErr) :
    ∃ dl' de', stepAcc r dl de = .ok (st', dl', de') := by
  subst hr
  unfold stepAcc
  cases e with
  | none => exact ⟨dl, de, rfl⟩
  | some err =>
    simp only [bind, Except.bind]
    by_cases hE : st'.out.isEmpty
    · simp [hE]
    · simp [hE]

theorem loopAcc_ok {α : Type} (f : α → St → M (St × Option RtErr)) (D : α → List Val) :
    ∀ (xs : List α), (∀ x ∈ xs, BranchOK f D x) → ∀ (st : St) (dl : Nat) (de : Option RtErr),
      ∃ st' dl' de', loopAcc f xs (st, dl, de) = .ok (st', dl', de') ∧ Ext st st' (xs.flatMap D)
  | [], _, st, dl, de => ⟨st, dl, de, rfl, by simpa using Ext.refl st⟩
  | x :: xs, h, st, dl, de => by
    obtain ⟨st1, e1, hf, hinv⟩ := h x (List.mem_cons_self) st
    obtain ⟨dl1, de1, hs⟩ := stepAcc_ok hf dl de
    obtain ⟨st2, dl2, de2, hl, hext⟩ := loopAcc_ok f D xs (fun y hy => h y (List.mem_cons_of_mem _ hy)) st1 dl1 de1
    refine ⟨st2, dl2, de2, ?_, ?_⟩
    · simp only [loopAcc, hs, bind, Except.bind]
      exact hl
    · simpa [List.flatMap_cons] using Ext.trans hinv hext

/-- the common tail of every value-group node yields the invariant -/
theorem endGroup_inv {st st' : St} {D : List Val} (i : Info) (dl : Nat) (de : Option RtErr)
    (h : Ext st st' D) : RInv st (endGroup i (st', dl, de)).1 (endGroup i (st', dl, de)).2 D := by
  refine ⟨h, ?_, ?_⟩
  · intro he
    simp only [endGroup, finishGroup] at he ⊢
    by_cases hE : st'.out.isEmpty
    · simp [hE] at he
      cases de <;> simp at he
    · intro hnil
      simp [hnil] at hE
  · intro hD
    have := h.out_ne_nil hD
    simp only [endGroup, finishGroup]
    have hE : st'.out.isEmpty = false := by
      cases hh : st'.out with
      | nil => exact absurd hh this
      | cons a b => rfl
    simp [hE]

end JPV
