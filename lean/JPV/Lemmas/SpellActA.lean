/-
SpellActA — action lemmas, part A, for SPELLED constructs (generalises ParsePrintActA and the plain-step
part of ParsePrintPath/ParsePrintActQ): the stack machine (`Peg.execFrom`) on the token lists of SpellToks
for integers as written, slices with blanks (tails `.absent`/`.step`; `.colon` is excluded by
`Spell.stepNC`), unions, names in both quote kinds, multi-name selectors, child steps in their three
forms, wildcard steps in both forms. Every lemma is in continuation style: the tokens of the construct
followed by an arbitrary `rest`.

Export: `sim_step_plain_s`.
-/
import JPV.Lemmas.SpellDefs
import JPV.Lemmas.ParsePrintActQ
namespace JPV.SP
open JPV.Peg JPV.PP JPV.Lex JPV.Build
open JPV.Spell (blanks Quote Sign SInt STail SSub SName ChildForm WildForm Sep SStep
  optTxt tailP subP keyBody nameP sepP sepsP brP childP wildP)

/-! ### small tools -/

private theorem sfx_cast {inp : Array Char} {p p' : Nat} {l : List Char} (h : Sfx inp p l) (e : p = p') :
    Sfx inp p' l := e ▸ h

private theorem blanks_length (k : Nat) : (blanks k).length = k := List.length_replicate ..

private theorem sepVals_cons {α β : Type} (f : α → β) (x : Sep α) (xs : List (Sep α)) :
    Spell.sepVals f (x :: xs) = f x.2.2 :: Spell.sepVals f xs := rfl

private theorem sepVals_nil {α β : Type} (f : α → β) : Spell.sepVals f ([] : List (Sep α)) = [] := rfl

private theorem sint_txt_pos (n : SInt) (hw : n.wf = true) : 0 < n.txt.length := by
  have hd : n.digits ≠ [] := by
    intro he
    simp [Spell.SInt.wf, he] at hw
  have : 0 < n.digits.length := List.length_pos_iff.mpr hd
  simp only [Spell.SInt.txt, List.length_append]
  omega

/-! ### `anyIndex` (action 21) -/

theorem exec_optS (c : Ctx) (o : Option SInt) (ho : optOKS c.ext o) (hw : Spell.optWf o = true) (f : Nat)
    {p : Nat} {r : List Char} (h : Sfx c.input p (optTxt o ++ r)) (stk : List Item) (sv : List (List Item))
    (rt : Option (List N)) (tb te : Nat) :
    ∃ tb' te', ∀ rest, execFrom c ⟨stk, sv, rt, tb, te⟩ (tkOptS p o f ++ rest) =
      execFrom c ⟨.idx (Build.bound (Spell.optVal o)) :: stk, sv, rt, tb', te'⟩ rest := by
  cases o with
  | none =>
    refine ⟨p + f, p + f, fun rest => ?_⟩
    simp only [optOKS] at ho
    simp [tkOptS, execFrom_text, execFrom_action, act, act21, St.text, textOf_empty,
      pushIndexSubscript, ho, push, bind, Except.bind, Build.bound, Spell.optVal]
  | some n =>
    refine ⟨p, p + n.txt.length, fun rest => ?_⟩
    simp only [optOKS, intOKS] at ho
    simp only [optTxt] at h
    have hl : 0 < n.txt.length := sint_txt_pos n hw
    simp [tkOptS, execFrom_text, execFrom_action, act, act21, St.text, textOf_sfx h,
      pushIndexSubscript, ho, push, bind, Except.bind, Build.bound, Spell.optVal, String.length_ofList, hl]

/-! ### `index` -/

theorem exec_subS (c : Ctx) (k : Nat) (s : SSub) (hs : subOKS c.ext s) (hw : s.wf = true) (hnc : s.noColon = true)
    {p : Nat} {r : List Char} (h : Sfx c.input p (subP s ++ r)) (stk : List Item) (sv : List (List Item))
    (rt : Option (List N)) (tb te : Nat) :
    ∃ tb' te', ∀ rest, execFrom c ⟨stk, sv, rt, tb, te⟩ (tkSubS k p s ++ rest) =
      execFrom c ⟨.chain [.union (mkInfo c "" (Build.subVg s.erase)) [Build.subI s.erase]] :: stk,
        sv, rt, tb', te'⟩ rest := by
  cases s with
  | idx n =>
    refine ⟨p, p + n.txt.length, fun rest => ?_⟩
    simp only [subOKS, intOKS] at hs
    simp only [subP] at h
    simp [tkSubS, execFrom_text, execFrom_action, act, act17, act19, St.text, textOf_sfx h,
      pushIndexSubscript, hs, push, pop, asSubscript, bind, Except.bind, Build.subVg, Build.subI,
      Spell.SSub.erase]
  | wild =>
    refine ⟨tb, te, fun rest => ?_⟩
    simp [tkSubS, execFrom_action, act, act18, act19, push, pop, asSubscript, bind, Except.bind,
      Build.subVg, Build.subI, Spell.SSub.erase]
  | slice s b1 a1 e t =>
    obtain ⟨hos, hoe, hot⟩ := hs
    have hw' : Spell.optWf s = true ∧ Spell.optWf e = true ∧ t.wf = true := by
      simp only [Spell.SSub.wf, Bool.and_eq_true] at hw
      exact ⟨hw.1.1.1.1, hw.1.1.1.2, hw.1.1.2⟩
    obtain ⟨hws, hwe, hwt⟩ := hw'
    cases t with
    | colon b a => simp [Spell.SSub.noColon, Spell.STail.noColon] at hnc
    | absent =>
      simp only [subP, tailP, List.append_nil, List.append_assoc, List.cons_append] at h
      simp only [tailOKS] at hot
      have he : Sfx c.input (sliceP1 p s b1 a1) (optTxt e ++ r) :=
        sfx_cast (h.append.append.tail.append) (by simp only [sliceP1, blanks_length])
      obtain ⟨tb1, te1, h1⟩ := exec_optS c s hos hws b1 h stk sv rt tb te
      obtain ⟨tb2, te2, h2⟩ := exec_optS c e hoe hwe k he (.idx (Build.bound (Spell.optVal s)) :: stk) sv rt tb1 te1
      refine ⟨tb2, te2, fun rest => ?_⟩
      simp only [tkSubS, tkSliceS, List.append_assoc, List.cons_append, List.nil_append]
      rw [h1, h2]
      simp [execFrom_action, act, act20, act16, act19, pushIndexSubscript, hot, push, pop, asIdx,
        asSubscript, bind, Except.bind, Build.subVg, Build.subI, Spell.SSub.erase, Spell.STail.erase]
    | step b a t =>
      simp only [subP, tailP, List.append_assoc, List.cons_append] at h
      simp only [tailOKS] at hot
      have he : Sfx c.input (sliceP1 p s b1 a1) (optTxt e ++ (blanks b ++ ':' :: (blanks a ++ (t.txt ++ r)))) :=
        sfx_cast (h.append.append.tail.append) (by simp only [sliceP1, blanks_length])
      have ht : Sfx c.input (sliceP2 p s b1 a1 e b a) (optTxt (some t) ++ r) :=
        sfx_cast (he.append.append.tail.append) (by simp only [sliceP2, blanks_length])
      obtain ⟨tb1, te1, h1⟩ := exec_optS c s hos hws b1 h stk sv rt tb te
      obtain ⟨tb2, te2, h2⟩ := exec_optS c e hoe hwe b he (.idx (Build.bound (Spell.optVal s)) :: stk) sv rt tb1 te1
      obtain ⟨tb3, te3, h3⟩ := exec_optS c (some t) hot hwt 0 ht
        (.idx (Build.bound (Spell.optVal e)) :: .idx (Build.bound (Spell.optVal s)) :: stk) sv rt tb2 te2
      refine ⟨tb3, te3, fun rest => ?_⟩
      simp only [tkSubS, tkSliceS, List.append_assoc, List.cons_append, List.nil_append]
      rw [h1, h2, h3]
      by_cases hge : 0 ≤ t.val <;>
      simp [execFrom_action, act, act16, act19, push, pop, asIdx,
        asSubscript, bind, Except.bind, Build.subVg, Build.subI, Build.bound, hge, Spell.optVal,
        Spell.SSub.erase, Spell.STail.erase]

/-! ### `union` -/

/-- the loop `(sep index {15})*` with the union collected so far on the stack -/
theorem exec_union_tailS (c : Ctx) (rb : Nat) (stk : List Item) (sv : List (List Item)) (rt : Option (List N)) :
    ∀ (ss : List (Sep SSub)) (q : Nat) (r : List Char) (i : Info) (subs : List SubI) (tb te : Nat),
      (∀ x ∈ ss, subOKS c.ext x.2.2 ∧ x.2.2.wf = true ∧ x.2.2.noColon = true) →
      Sfx c.input q (sepsP subP ss ++ r) →
      ∃ tb' te', ∀ rest,
        execFrom c ⟨.chain [.union i subs] :: stk, sv, rt, tb, te⟩ (tkSepsS subP tkSubS 15 rb ss q ++ rest) =
        execFrom c ⟨.chain [.union (if ss.isEmpty then i else { i with vg := true })
          (subs ++ (Spell.sepVals SSub.erase ss).map Build.subI)] :: stk, sv, rt, tb', te'⟩ rest := by
  intro ss
  induction ss with
  | nil =>
    intro q r i subs tb te _ _
    exact ⟨tb, te, fun rest => by simp [tkSepsS, sepVals_nil]⟩
  | cons x xs ih =>
    intro q r i subs tb te hok h
    obtain ⟨b, a, s⟩ := x
    simp only [sepsP, sepP, List.cons_append, List.append_assoc] at h
    obtain ⟨hs1, hs2, hs3⟩ := hok (b, a, s) (by simp)
    have hx : Sfx c.input (q + b + 1 + a) (subP s ++ (sepsP subP xs ++ r)) :=
      sfx_cast (h.append.tail.append) (by simp only [blanks_length])
    obtain ⟨tb1, te1, h1⟩ := exec_subS c (nextB rb xs) s hs1 hs2 hs3 hx (.chain [.union i subs] :: stk) sv rt tb te
    have h2 : Sfx c.input (q + (sepP subP (b, a, s)).length) (sepsP subP xs ++ r) :=
      sfx_cast (hx.append) (by
        simp only [sepP, List.length_append, List.length_cons, blanks_length]; omega)
    obtain ⟨tb2, te2, h3⟩ := ih (q + (sepP subP (b, a, s)).length) r { i with vg := true }
      (subs ++ [Build.subI s.erase]) tb1 te1 (fun y hy => hok y (by simp [hy])) h2
    refine ⟨tb2, te2, fun rest => ?_⟩
    simp only [tkSepsS, tkSepS, List.append_assoc, List.cons_append, List.nil_append]
    rw [h1, execFrom_action_ok c _ _ 15 _ (by simp [act, act15, pop, push, asUnion, bind, Except.bind]; rfl), h3]
    cases xs <;> simp [sepVals_cons]

theorem exec_unionS (c : Ctx) (rb : Nat) (s : SSub) (ss : List (Sep SSub))
    (hok : subOKS c.ext s ∧ s.wf = true ∧ s.noColon = true)
    (hoks : ∀ x ∈ ss, subOKS c.ext x.2.2 ∧ x.2.2.wf = true ∧ x.2.2.noColon = true) {p : Nat} {r : List Char}
    (h : Sfx c.input p (subP s ++ (sepsP subP ss ++ r))) (stk : List Item) (sv : List (List Item))
    (rt : Option (List N)) (tb te : Nat) :
    ∃ tb' te', ∀ rest, execFrom c ⟨stk, sv, rt, tb, te⟩ (tkUnionS rb p s ss ++ rest) =
      execFrom c ⟨.chain [.union (mkInfo c "" (unionVg (s.erase :: Spell.sepVals SSub.erase ss)))
        ((s.erase :: Spell.sepVals SSub.erase ss).map Build.subI)] :: stk, sv, rt, tb', te'⟩ rest := by
  obtain ⟨tb1, te1, h1⟩ := exec_subS c (nextB rb ss) s hok.1 hok.2.1 hok.2.2 h stk sv rt tb te
  obtain ⟨tb2, te2, h2⟩ := exec_union_tailS c rb stk sv rt ss (p + (subP s).length) r
    (mkInfo c "" (Build.subVg s.erase)) [Build.subI s.erase] tb1 te1 hoks h.append
  refine ⟨tb2, te2, fun rest => ?_⟩
  simp only [tkUnionS, List.append_assoc]
  rw [h1, h2]
  cases ss <;> simp [mkInfo, unionVg, sepVals_cons, sepVals_nil]

/-! ### names in brackets -/

theorem exec_nameS (c : Ctx) (k : Nat) (n : SName) (hn : nameOKS c.ext n) {p : Nat} {r : List Char}
    (h : Sfx c.input p (nameP n ++ r)) (stk : List Item) (sv : List (List Item)) (rt : Option (List N))
    (tb te : Nat) :
    ∃ tb' te', ∀ rest, execFrom c ⟨stk, sv, rt, tb, te⟩ (tkNameS k p n ++ rest) =
      execFrom c ⟨.chain (nameNode c n.erase) :: stk, sv, rt, tb', te'⟩ rest := by
  cases n with
  | key q key =>
    refine ⟨p + 1, p + 1 + (keyBody q key).length, fun rest => ?_⟩
    simp only [nameP, List.cons_append, List.append_assoc] at h
    have ht := textOf_sfx h.tail
    cases q with
    | sq =>
      simp only [nameOKS, keyOKS] at hn
      simp only [keyBody] at ht
      simp [tkNameS, quoteAct, keyBody, execFrom_text, execFrom_action, act, act13, St.text, ht, hn,
        pushChildSingle, push, bind, Except.bind, nameNode, Spell.SName.erase]
    | dq =>
      simp only [nameOKS, keyOKS] at hn
      simp only [keyBody] at ht
      simp [tkNameS, quoteAct, keyBody, execFrom_text, execFrom_action, act, act14, St.text, ht, hn,
        pushChildSingle, push, bind, Except.bind, nameNode, Spell.SName.erase]
  | wild =>
    refine ⟨tb, te, fun rest => ?_⟩
    simp [tkNameS, execFrom_action, act, act12, push, bind, Except.bind, nameNode, Spell.SName.erase]

/-- the loop `(sep bracketNodeIdentifier {11})*` with the multi-name node collected so far on the stack -/
theorem exec_names_tailS (c : Ctx) (stk : List Item) (sv : List (List Item)) (rt : Option (List N)) :
    ∀ (ns : List (Sep SName)) (q : Nat) (r : List Char) (i : Info) (ids : List MId) (twin : Option Info)
      (tb te : Nat),
      (∀ x ∈ ns, nameOKS c.ext x.2.2) → Sfx c.input q (sepsP nameP ns ++ r) →
      ∃ tb' te', ∀ rest,
        execFrom c ⟨.chain [.multi i ids twin] :: stk, sv, rt, tb, te⟩ (tkSepsS nameP tkNameS 11 0 ns q ++ rest) =
        execFrom c ⟨.chain [.multi i (ids ++ (Spell.sepVals SName.erase ns).map (mid0 c))
          (if twin.isSome && (Spell.sepVals SName.erase ns).all Build.isWildName then twin else none)] :: stk,
          sv, rt, tb', te'⟩ rest := by
  intro ns
  induction ns with
  | nil =>
    intro q r i ids twin tb te _ _
    refine ⟨tb, te, fun rest => ?_⟩
    cases twin <;> simp [tkSepsS, sepVals_nil]
  | cons x xs ih =>
    intro q r i ids twin tb te hok h
    obtain ⟨b, a, n⟩ := x
    simp only [sepsP, sepP, List.cons_append, List.append_assoc] at h
    have hx : Sfx c.input (q + b + 1 + a) (nameP n ++ (sepsP nameP xs ++ r)) :=
      sfx_cast (h.append.tail.append) (by simp only [blanks_length])
    obtain ⟨tb1, te1, h1⟩ := exec_nameS c (nextB 0 xs) n (hok (b, a, n) (by simp)) hx
      (.chain [.multi i ids twin] :: stk) sv rt tb te
    have h2 : Sfx c.input (q + (sepP nameP (b, a, n)).length) (sepsP nameP xs ++ r) :=
      sfx_cast (hx.append) (by
        simp only [sepP, List.length_append, List.length_cons, blanks_length]; omega)
    obtain ⟨tb2, te2, h3⟩ := ih (q + (sepP nameP (b, a, n)).length) r i (ids ++ [mid0 c n.erase])
      (if twin.isSome && Build.isWildName n.erase then twin else none) tb1 te1
      (fun y hy => hok y (by simp [hy])) h2
    refine ⟨tb2, te2, fun rest => ?_⟩
    simp only [tkSepsS, tkSepS, List.append_assoc, List.cons_append, List.nil_append]
    rw [h1, execFrom_action_ok c _ _ 11 _ (act11_multi c n.erase i ids twin stk sv rt tb1 te1), h3]
    cases twin <;> cases hx : Build.isWildName n.erase <;> simp [hx, sepVals_cons]

theorem exec_namesS (c : Ctx) (n : SName) (x : Sep SName) (xs : List (Sep SName))
    (hok : nameOKS c.ext n) (hoks : ∀ y ∈ x :: xs, nameOKS c.ext y.2.2)
    {p : Nat} {r : List Char} (h : Sfx c.input p (nameP n ++ (sepsP nameP (x :: xs) ++ r)))
    (stk : List Item) (sv : List (List Item)) (rt : Option (List N)) (tb te : Nat) :
    ∃ tb' te', ∀ rest, execFrom c ⟨stk, sv, rt, tb, te⟩ (tkNamesS p n (x :: xs) ++ rest) =
      execFrom c ⟨.chain [.multi (mkInfo c "" true) ((n.erase :: Spell.sepVals SName.erase (x :: xs)).map (mid0 c))
        (if (n.erase :: Spell.sepVals SName.erase (x :: xs)).all Build.isWildName then some (mkInfo c "" true)
          else none)] :: stk, sv, rt, tb', te'⟩ rest := by
  obtain ⟨b, a, n2⟩ := x
  simp only [sepsP, sepP, List.cons_append, List.append_assoc] at h
  obtain ⟨tb1, te1, h1⟩ := exec_nameS c 0 n hok h stk sv rt tb te
  have hx : Sfx c.input (p + (nameP n).length + b + 1 + a) (nameP n2 ++ (sepsP nameP xs ++ r)) :=
    sfx_cast (h.append.append.tail.append) (by simp only [blanks_length])
  obtain ⟨tb2, te2, h2⟩ := exec_nameS c (nextB 0 xs) n2 (hoks (b, a, n2) (by simp)) hx
    (.chain (nameNode c n.erase) :: stk) sv rt tb1 te1
  have h3 : Sfx c.input (p + (nameP n).length + (sepP nameP (b, a, n2)).length) (sepsP nameP xs ++ r) :=
    sfx_cast (hx.append) (by
      simp only [sepP, List.length_append, List.length_cons, blanks_length]; omega)
  obtain ⟨tb3, te3, h4⟩ := exec_names_tailS c stk sv rt xs _ r (mkInfo c "" true) [mid0 c n.erase, mid0 c n2.erase]
    (if Build.isWildName n.erase && Build.isWildName n2.erase then some (mkInfo c "" true) else none) tb2 te2
    (fun y hy => hoks y (by simp [hy])) h3
  refine ⟨tb3, te3, fun rest => ?_⟩
  simp only [tkNamesS, tkSepsS, tkSepS, List.append_assoc, List.cons_append, List.nil_append]
  rw [h1, h2, execFrom_action_ok c _ _ 11 _ (act11_first c n.erase n2.erase stk sv rt tb2 te2), h4]
  cases hx : Build.isWildName n.erase <;> cases hy : Build.isWildName n2.erase <;> simp [hx, hy, sepVals_cons]

/-! ### the raw node of a plain step, from the abstract step with its recorded text -/

/-- the chain a spelled plain step leaves on the stack -/
def rawT (a : Bool) : Step → List N
  | .child t k => [.child (rawInfo a t false) k]
  | .wild t => [.wild (rawInfo a t true)]
  | .multi t ns =>
    [.multi (rawInfo a t true) (ns.map (rawMId a t)) (if ns.all Build.isWildName then some (rawInfo a t true) else none)]
  | .union t ss => [.union (rawInfo a t (unionVg ss)) (ss.map Build.subI)]
  | _ => []

theorem stepPre_plain_s (env : Env) (cfg : Cfg) (a ad : Bool) (s : SStep) (hp : isPlainStep s = true) :
    ∃ pres, stepPre env cfg (Spell.stepT true ad s) = .ok pres ∧
      pres.map (rawOf a) = rawT a (Spell.stepT true ad s) := by
  cases s with
  | child f k =>
    rw [Spell.stepT]
    exact ⟨_, by rw [stepPre], rfl⟩
  | wild f =>
    rw [Spell.stepT]
    exact ⟨_, by rw [stepPre], rfl⟩
  | multi lb n ns rb =>
    rw [Spell.stepT]
    refine ⟨_, by rw [stepPre], ?_⟩
    simp only [List.map_cons, List.map_nil, rawOf, nodeWith, rawT, Pre.text, preVg]
    have : ∀ (T : String) (l : List Name), l.map (mid (rawInfo a T true)) = l.map (rawMId a T) :=
      fun T l => List.map_congr_left (fun n _ => rawMId_eq a _ n)
    rw [← this]
    rfl
  | union lb s ss rb =>
    rw [Spell.stepT]
    exact ⟨_, stepPre_union' env cfg _ _, rfl⟩
  | filter _ _ _ _ _ => cases hp
  | desc _ => cases hp

/-! ### steps -/

theorem exec_step_child_dot (c : Ctx) (ad : Bool) (k : String) (hk : childOKS c.ext .dot k) {p : Nat} {r : List Char}
    (h : Sfx c.input p (Spell.step ad (.child .dot k) ++ r)) (stk : List Item) (sv : List (List Item))
    (rt : Option (List N)) (tb te : Nat) :
    ∃ tb' te', ∀ rest, execFrom c ⟨stk, sv, rt, tb, te⟩ (tkStepS ad p (.child .dot k) ++ rest) =
      execFrom c ⟨.chain (rawT c.acc (Spell.stepT true ad (.child .dot k))) :: stk, sv, rt, tb', te'⟩ rest := by
  simp only [childOKS] at hk
  cases ad with
  | true =>
    simp only [Spell.step, childP, if_true] at h
    refine ⟨p, p + (escDot k.toList).length, fun rest => ?_⟩
    simp [tkStepS, execFrom_text, execFrom_action, act, act10, St.text, textOf_sfx h, hk, pushChildSingle,
      push, bind, Except.bind, rawT, Spell.stepT, Spell.childRecS, String.ofList_toList, mkInfo, rawInfo]
  | false =>
    simp only [Spell.step, childP, Bool.false_eq_true, if_false, List.cons_append] at h
    have h' : Sfx c.input p (('.' :: escDot k.toList) ++ r) := h
    have hlen : p + 1 + (escDot k.toList).length = p + ('.' :: escDot k.toList).length := by
      simp only [List.length_cons]; omega
    refine ⟨p, p + ('.' :: escDot k.toList).length, fun rest => ?_⟩
    simp only [tkStepS, Bool.false_eq_true, if_false, List.cons_append, List.nil_append, hlen]
    rw [execFrom_text, execFrom_action_ok c _ ⟨.chain [.child (mkInfo c k false) k] :: stk, sv, rt, p + 1,
      p + ('.' :: escDot k.toList).length⟩ 10 _ (by
        rw [← hlen]
        simp [act, act10, St.text, textOf_sfx h.tail, hk, pushChildSingle, push]),
      exec_setText c 4 (.inl rfl) _ _ h']
    simp [rawT, Spell.stepT, Spell.childRecS, nSetText, nMapInfoDeep, nMapInfo, mkInfo, rawInfo]

theorem exec_step_child_br (c : Ctx) (ad : Bool) (lb : Nat) (q : Quote) (rb : Nat) (k : String)
    (hk : childOKS c.ext (.br lb q rb) k) {p : Nat} {r : List Char}
    (h : Sfx c.input p (Spell.step ad (.child (.br lb q rb) k) ++ r)) (stk : List Item) (sv : List (List Item))
    (rt : Option (List N)) (tb te : Nat) :
    ∃ tb' te', ∀ rest, execFrom c ⟨stk, sv, rt, tb, te⟩ (tkStepS ad p (.child (.br lb q rb) k) ++ rest) =
      execFrom c ⟨.chain (rawT c.acc (Spell.stepT true ad (.child (.br lb q rb) k))) :: stk, sv, rt, tb', te'⟩ rest := by
  simp only [childOKS] at hk
  have h1 : Sfx c.input (p + 1 + lb) (nameP (.key q k) ++ (blanks rb ++ (']' :: r))) := by
    have := h
    simp only [Spell.step, childP, brP, List.cons_append, List.append_assoc, List.nil_append] at this
    exact sfx_cast (this.tail.append) (by simp only [blanks_length])
  obtain ⟨tb1, te1, h2⟩ := exec_nameS c 0 (.key q k) hk h1 stk sv rt tb te
  refine ⟨p, p + (Spell.step ad (.child (.br lb q rb) k)).length, fun rest => ?_⟩
  simp only [tkStepS, List.append_assoc, List.cons_append, List.nil_append]
  rw [h2, Spell.SName.erase, nameNode, exec_setText c 7 (.inr rfl) _ _ h]
  simp [rawT, Spell.stepT, Spell.childRecS, Spell.step, childP, nSetText, nMapInfoDeep, nMapInfo, mkInfo, rawInfo]

theorem exec_step_wild_dot (c : Ctx) (ad : Bool) {p : Nat} {r : List Char}
    (h : Sfx c.input p (Spell.step ad (.wild .dot) ++ r)) (stk : List Item) (sv : List (List Item))
    (rt : Option (List N)) (tb te : Nat) :
    ∃ tb' te', ∀ rest, execFrom c ⟨stk, sv, rt, tb, te⟩ (tkStepS ad p (.wild .dot) ++ rest) =
      execFrom c ⟨.chain (rawT c.acc (Spell.stepT true ad (.wild .dot))) :: stk, sv, rt, tb', te'⟩ rest := by
  cases ad with
  | true =>
    refine ⟨tb, te, fun rest => ?_⟩
    simp [tkStepS, execFrom_action, act, act12, push, bind, Except.bind, rawT, Spell.stepT, wildP, mkInfo, rawInfo]
  | false =>
    simp only [Spell.step, wildP, Bool.false_eq_true, if_false] at h
    refine ⟨p, p + ['.', '*'].length, fun rest => ?_⟩
    have hlen : p + 2 = p + ['.', '*'].length := rfl
    simp only [tkStepS, Bool.false_eq_true, if_false, List.cons_append, List.nil_append, hlen]
    rw [execFrom_action_ok c _ ⟨.chain [.wild (mkInfo c "*" true)] :: stk, sv, rt, tb, te⟩ 12 _ rfl,
      exec_setText c 4 (.inl rfl) _ _ h]
    simp [rawT, Spell.stepT, wildP, nSetText, nMapInfoDeep, nMapInfo, mkInfo, rawInfo]

theorem exec_step_wild_br (c : Ctx) (ad : Bool) (lb rb : Nat) {p : Nat} {r : List Char}
    (h : Sfx c.input p (Spell.step ad (.wild (.br lb rb)) ++ r)) (stk : List Item) (sv : List (List Item))
    (rt : Option (List N)) (tb te : Nat) :
    ∃ tb' te', ∀ rest, execFrom c ⟨stk, sv, rt, tb, te⟩ (tkStepS ad p (.wild (.br lb rb)) ++ rest) =
      execFrom c ⟨.chain (rawT c.acc (Spell.stepT true ad (.wild (.br lb rb)))) :: stk, sv, rt, tb', te'⟩ rest := by
  refine ⟨p, p + (Spell.step ad (.wild (.br lb rb))).length, fun rest => ?_⟩
  simp only [tkStepS, List.cons_append, List.nil_append]
  rw [execFrom_action_ok c _ ⟨.chain [.wild (mkInfo c "*" true)] :: stk, sv, rt, tb, te⟩ 12 _ rfl,
    exec_setText c 7 (.inr rfl) _ _ h]
  simp [rawT, Spell.stepT, Spell.step, wildP, nSetText, nMapInfoDeep, nMapInfo, mkInfo, rawInfo]

theorem exec_step_multi_s (c : Ctx) (ad : Bool) (lb : Nat) (n : SName) (ns : List (Sep SName)) (rb : Nat)
    (hwf : Spell.stepWf ad (.multi lb n ns rb) = true) (hok : stepExtS c.ext (.multi lb n ns rb))
    {p : Nat} {r : List Char} (h : Sfx c.input p (Spell.step ad (.multi lb n ns rb) ++ r))
    (stk : List Item) (sv : List (List Item)) (rt : Option (List N)) (tb te : Nat) :
    ∃ tb' te', ∀ rest, execFrom c ⟨stk, sv, rt, tb, te⟩ (tkStepS ad p (.multi lb n ns rb) ++ rest) =
      execFrom c ⟨.chain (rawT c.acc (Spell.stepT true ad (.multi lb n ns rb))) :: stk, sv, rt, tb', te'⟩ rest := by
  match ns, hwf, hok, h with
  | [], hwf, _, _ => simp [Spell.stepWf] at hwf
  | x :: xs, _, hok, h =>
    rw [stepExtS] at hok
    have h1 : Sfx c.input (p + 1 + lb) (nameP n ++ (sepsP nameP (x :: xs) ++ (blanks rb ++ (']' :: r)))) := by
      have := h
      simp only [Spell.step, brP, List.cons_append, List.append_assoc, List.nil_append] at this
      exact sfx_cast (this.tail.append) (by simp only [blanks_length])
    obtain ⟨tb1, te1, h2⟩ := exec_namesS c n x xs hok.1 hok.2 h1 stk sv rt tb te
    refine ⟨p, p + (Spell.step ad (.multi lb n (x :: xs) rb)).length, fun rest => ?_⟩
    simp only [tkStepS, List.append_assoc, List.cons_append, List.nil_append]
    rw [h2, exec_setText c 7 (.inr rfl) _ _ h]
    rw [Spell.stepT]
    simp only [rawT, nSetText, nMapInfoDeep, map_setText_mid0, if_true]
    congr 5
    cases (n.erase :: Spell.sepVals SName.erase (x :: xs)).all Build.isWildName <;> rfl

theorem exec_step_union_s (c : Ctx) (ad : Bool) (lb : Nat) (s : SSub) (ss : List (Sep SSub)) (rb : Nat)
    (hwf : Spell.stepWf ad (.union lb s ss rb) = true) (hnc : Spell.stepNC (.union lb s ss rb) = true)
    (hok : stepExtS c.ext (.union lb s ss rb))
    {p : Nat} {r : List Char} (h : Sfx c.input p (Spell.step ad (.union lb s ss rb) ++ r))
    (stk : List Item) (sv : List (List Item)) (rt : Option (List N)) (tb te : Nat) :
    ∃ tb' te', ∀ rest, execFrom c ⟨stk, sv, rt, tb, te⟩ (tkStepS ad p (.union lb s ss rb) ++ rest) =
      execFrom c ⟨.chain (rawT c.acc (Spell.stepT true ad (.union lb s ss rb))) :: stk, sv, rt, tb', te'⟩ rest := by
  rw [stepExtS] at hok
  have hwf' : s.wf = true ∧ ∀ x ∈ ss, x.2.2.wf = true := by
    simp only [Spell.stepWf, Bool.and_eq_true, List.all_eq_true] at hwf
    exact ⟨hwf.1.1, hwf.1.2⟩
  have hnc' : s.noColon = true ∧ ∀ x ∈ ss, x.2.2.noColon = true := by
    simp only [Spell.stepNC, Bool.and_eq_true, List.all_eq_true] at hnc
    exact hnc
  have h1 : Sfx c.input (p + 1 + lb) (subP s ++ (sepsP subP ss ++ (blanks rb ++ (']' :: r)))) := by
    have := h
    simp only [Spell.step, brP, List.cons_append, List.append_assoc, List.nil_append] at this
    exact sfx_cast (this.tail.append) (by simp only [blanks_length])
  obtain ⟨tb1, te1, h2⟩ := exec_unionS c rb s ss ⟨hok.1, hwf'.1, hnc'.1⟩
    (fun x hx => ⟨hok.2 x hx, hwf'.2 x hx, hnc'.2 x hx⟩) h1 stk sv rt tb te
  refine ⟨p, p + (Spell.step ad (.union lb s ss rb)).length, fun rest => ?_⟩
  simp only [tkStepS, List.append_assoc, List.cons_append, List.nil_append]
  rw [h2, exec_setText c 7 (.inr rfl) _ _ h]
  rw [Spell.stepT]
  rfl

/-- a step that is neither `..` nor a filter -/
theorem exec_step_plain_s (c : Ctx) (ad : Bool) (s : SStep) (hp : isPlainStep s = true)
    (hwf : Spell.stepWf ad s = true) (hnc : Spell.stepNC s = true) (hok : stepExtS c.ext s) {p : Nat} {r : List Char}
    (h : Sfx c.input p (Spell.step ad s ++ r)) (stk : List Item) (sv : List (List Item))
    (rt : Option (List N)) (tb te : Nat) :
    ∃ tb' te', ∀ rest, execFrom c ⟨stk, sv, rt, tb, te⟩ (tkStepS ad p s ++ rest) =
      execFrom c ⟨.chain (rawT c.acc (Spell.stepT true ad s)) :: stk, sv, rt, tb', te'⟩ rest := by
  cases s with
  | child f k =>
    rw [stepExtS] at hok
    cases f with
    | dot => exact exec_step_child_dot c ad k hok h stk sv rt tb te
    | br lb q rb => exact exec_step_child_br c ad lb q rb k hok h stk sv rt tb te
  | wild f =>
    cases f with
    | dot => exact exec_step_wild_dot c ad h stk sv rt tb te
    | br lb rb => exact exec_step_wild_br c ad lb rb h stk sv rt tb te
  | multi lb n ns rb => exact exec_step_multi_s c ad lb n ns rb hwf hok h stk sv rt tb te
  | union lb s ss rb => exact exec_step_union_s c ad lb s ss rb hwf hnc hok h stk sv rt tb te
  | filter _ _ _ _ _ => cases hp
  | desc _ => cases hp

/-- a step that is neither `..` nor a filter -/
theorem sim_step_plain_s (c : Ctx) (cfg : Cfg) (ad : Bool) (s : SStep) (hp : isPlainStep s = true)
    (hwf : Spell.stepWf ad s = true) (hnc : Spell.stepNC s = true) (hok : stepExtS c.ext s) :
    SStepSim c cfg ad s := by
  intro p r h
  refine ⟨0, ?_⟩
  obtain ⟨pres, h1, h2⟩ := stepPre_plain_s c.env cfg c.acc ad s hp
  rw [h1]
  constructor
  · intro v hv stk sv rt tb te _
    cases hv
    obtain ⟨tb', te', h3⟩ := exec_step_plain_s c ad s hp hwf hnc hok h stk sv rt tb te
    refine ⟨tb', te', fun rest => ?_⟩
    rw [h3, ← h2]
    rfl
  · intro e he; cases he

end JPV.SP
