/-
SpecFilter — laws of `Spec.verdicts` and `Spec.cmpHolds` used by C09 and C10: verdict lists are
per-member maps, comparison is symmetric under mirroring, `!=` negates `==`, `<=` against a
number is `<` or `==`, and what a holding comparison says about its operands.
-/
import JPV.Spec
import JPV.Lemmas.ValWf
namespace JPV
namespace SpecFil
open Spec

/-! ### list helpers -/

theorem zipWith_map_map {α β γ δ : Type} (f : β → γ → δ) (g : α → β) (h : α → γ) (ms : List α) :
    List.zipWith f (ms.map g) (ms.map h) = ms.map (fun m => f (g m) (h m)) := by
  induction ms with
  | nil => rfl
  | cons a l ih => simp only [List.map_cons, List.zipWith_cons_cons, ih]

theorem all_map_const_some {α β : Type} (ms : List α) (c : β) :
    (ms.map (fun _ => some c)).all (·.isNone) = ms.isEmpty := by
  cases ms <;> simp

/-- `keep` by positions: the members whose verdict is `true`, in container order -/
theorem keep_spec : ∀ (ms : List Val) (bs : List Bool),
    keep ms bs = (List.range ms.length).filterMap (fun i => if bs.getD i false then ms[i]? else none)
  | [], bs => by cases bs <;> simp [keep]
  | m :: ms, [] => by simp [keep]
  | m :: ms, b :: bs => by
    simp only [keep, List.length_cons, List.range_succ_eq_map, List.filterMap_cons, List.filterMap_map]
    have ih := keep_spec ms bs
    cases b <;> simp [ih, Function.comp_def]

/-! ### verdicts as maps over the members -/

/-- the operand's value for one member -/
def operandVal (env : Env) (o : Operand) (root m : Val) : Option Val :=
  match o with
  | .lit l => some l.toVal
  | .path p => firstOf (evalPath env p root m)

theorem operandVals_eq_map (env : Env) (o : Operand) (root : Val) (ms : List Val) :
    operandVals env o root ms = ms.map (operandVal env o root) := by
  cases o <;> simp only [operandVals] <;> rfl

/-- the both-absent flag of a comparison over the members `ms` -/
def cornerOf (env : Env) (l r : Operand) (root : Val) (ms : List Val) : Bool :=
  (operandVals env l root ms).all (·.isNone) && (operandVals env r root ms).all (·.isNone)

def hasLitOf (l r : Operand) : Bool := operandIsLit l || operandIsLit r

theorem verdicts_cmp_map (env : Env) (op : CmpOp) (l r : Operand) (root : Val) (ms : List Val) :
    verdicts env (.cmp op l r) root ms =
      ms.map (fun m => cmpHolds op (hasLitOf l r) (cornerOf env l r root ms)
        (operandVal env l root m) (operandVal env r root m)) := by
  simp only [verdicts, cornerOf, hasLitOf]
  rw [operandVals_eq_map env l, operandVals_eq_map env r, zipWith_map_map]

theorem cornerOf_comm (env : Env) (l r : Operand) (root : Val) (ms : List Val) :
    cornerOf env l r root ms = cornerOf env r l root ms := by
  simp only [cornerOf, Bool.and_comm]

theorem hasLitOf_comm (l r : Operand) : hasLitOf l r = hasLitOf r l := by
  simp only [hasLitOf, Bool.or_comm]

theorem verdicts_length (env : Env) (root : Val) :
    (q : Query) → ∀ ms, (verdicts env q root ms).length = ms.length
  | .or a b, ms => by
    simp only [verdicts, List.length_zipWith, verdicts_length env root a, verdicts_length env root b, Nat.min_self]
  | .and a b, ms => by
    simp only [verdicts, List.length_zipWith, verdicts_length env root a, verdicts_length env root b, Nat.min_self]
  | .exist _ _, ms => by simp only [verdicts, List.length_map]
  | .cmp op l r, ms => by rw [verdicts_cmp_map, List.length_map]
  | .regex _ _, ms => by simp only [verdicts, List.length_map]

/-! ### the comparison of one member -/

theorem litEq_symm (a b : Val) : litEq a b = litEq b a := by
  cases a <;> cases b <;> simp [litEq, Val.asNum?, Bool.beq_comm]

def mirror : CmpOp → CmpOp
  | .eq => .eq | .ne => .ne | .lt => .gt | .le => .ge | .gt => .lt | .ge => .le

theorem numRel_mirror (op : CmpOp) (x y : Int) : numRel op x y = numRel (mirror op) y x := by
  cases op <;> simp only [numRel, mirror, GT.gt, GE.ge]
  · exact Bool.beq_comm
  · simp only [bne, Bool.beq_comm]

/-- the equality part of `cmpHolds` -/
def eqPart (hasLit corner : Bool) (l r : Option Val) : Bool :=
  if hasLit then (match l, r with | some a, some b => litEq a b | _, _ => false)
  else (match l, r with | some a, some b => Val.beq a b | _, _ => false) || corner

theorem cmpHolds_eq (hasLit corner : Bool) (l r : Option Val) :
    cmpHolds .eq hasLit corner l r = eqPart hasLit corner l r := rfl

theorem cmpHolds_ne (hasLit corner : Bool) (l r : Option Val) :
    cmpHolds .ne hasLit corner l r = !cmpHolds .eq hasLit corner l r := rfl

theorem eqPart_symm (hasLit corner : Bool) (l r : Option Val) :
    eqPart hasLit corner l r = eqPart hasLit corner r l := by
  unfold eqPart
  cases l <;> cases r <;> simp only [litEq_symm, ValWf.beq_symm]
  all_goals rfl

theorem cmpHolds_mirror (op : CmpOp) (hasLit corner : Bool) (l r : Option Val) :
    cmpHolds op hasLit corner l r = cmpHolds (mirror op) hasLit corner r l := by
  cases op
  · exact eqPart_symm hasLit corner l r
  · show (!eqPart hasLit corner l r) = !eqPart hasLit corner r l
    rw [eqPart_symm]
  all_goals
    cases l with
    | none => cases r <;> rfl
    | some a =>
      cases r with
      | none => rfl
      | some b =>
        simp only [cmpHolds, mirror]
        cases a.asNum? <;> cases b.asNum? <;> simp only [numRel, GT.gt, GE.ge]

/-- ordering comparison of one member: both present, both numbers, related by value -/
def ordPart (op : CmpOp) (l r : Option Val) : Bool :=
  match l, r with
  | some a, some b => (match a.asNum?, b.asNum? with
    | some x, some y => numRel op x y
    | _, _ => false)
  | _, _ => false

theorem cmpHolds_ord (op : CmpOp) (h1 : op ≠ .eq) (h2 : op ≠ .ne) (hasLit corner : Bool) (l r : Option Val) :
    cmpHolds op hasLit corner l r = ordPart op l r := by
  cases op <;> first | exact absurd rfl h1 | exact absurd rfl h2 | rfl

theorem litEq_num_right (a b : Val) (n : Int) (hb : b.asNum? = some n) :
    litEq a b = (match a.asNum? with | some x => x == n | none => false) := by
  cases b <;> simp only [Val.asNum?, Option.some.injEq, reduceCtorEq] at hb <;> subst hb <;>
    cases a <;> simp [litEq, Val.asNum?]

theorem int_le_split (x y : Int) : decide (x ≤ y) = (decide (x < y) || x == y) := by
  rw [Bool.eq_iff_iff]
  simp only [decide_eq_true_eq, Bool.or_eq_true, beq_iff_eq]
  omega

theorem int_ge_split (x y : Int) : decide (x ≥ y) = (decide (x > y) || x == y) := by
  rw [Bool.eq_iff_iff]
  simp only [decide_eq_true_eq, Bool.or_eq_true, beq_iff_eq, GE.ge, GT.gt]
  omega

/-- with a literal operand and a number on one side, `<=` is `<` or `==` (and `>=` is `>` or `==`) -/
theorem cmpHolds_le_split (corner : Bool) (l r : Option Val)
    (h : (∃ b n, r = some b ∧ b.asNum? = some n) ∨ (∃ a n, l = some a ∧ a.asNum? = some n)) :
    cmpHolds .le true corner l r = (cmpHolds .lt true corner l r || cmpHolds .eq true corner l r) ∧
    cmpHolds .ge true corner l r = (cmpHolds .gt true corner l r || cmpHolds .eq true corner l r) := by
  rcases h with ⟨b, n, rfl, hb⟩ | ⟨a, n, rfl, ha⟩
  · cases l with
    | none => exact ⟨rfl, rfl⟩
    | some a =>
      simp only [cmpHolds, if_true, litEq_num_right a b n hb, hb]
      cases a.asNum? with
      | none => exact ⟨rfl, rfl⟩
      | some x => exact ⟨int_le_split x n, int_ge_split x n⟩
  · cases r with
    | none => exact ⟨rfl, rfl⟩
    | some b =>
      simp only [cmpHolds, if_true, litEq_symm a b, litEq_num_right b a n ha, ha]
      cases b.asNum? with
      | none => exact ⟨rfl, rfl⟩
      | some y =>
        simp only [numRel]
        rw [Bool.beq_comm (a := y)]
        exact ⟨int_le_split n y, int_ge_split n y⟩

/-! ### what a holding comparison says about the operands (C10) -/

/-- JSON type of a literal -/
def litType (l : Lit) (a : Val) : Prop :=
  match l with
  | .num _ => ∃ n, a = .num n ∨ a = .jnum n
  | .str _ => ∃ s, a = .str s
  | .bool _ => ∃ b, a = .bool b
  | .null => a = .null

theorem litEq_type (a : Val) (l : Lit) (h : litEq a l.toVal = true) : litType l a := by
  cases l <;> cases a <;> simp [litEq, Lit.toVal, Val.asNum?, litType] at h ⊢

/-- having the value of a literal (numbers: by numeric value, either decoding) -/
def litValue (l : Lit) (a : Val) : Prop :=
  match l with
  | .num n => a.asNum? = some n
  | .str s => a = .str s
  | .bool b => a = .bool b
  | .null => a = .null

theorem litEq_value (a : Val) (l : Lit) (h : litEq a l.toVal = true) : litValue l a := by
  cases l <;> cases a <;> simp [litEq, Lit.toVal, Val.asNum?, litValue] at h ⊢ <;> exact h

theorem ordPart_true (op : CmpOp) (l r : Option Val) (h : ordPart op l r = true) :
    ∃ a b x y, l = some a ∧ r = some b ∧ a.asNum? = some x ∧ b.asNum? = some y ∧ numRel op x y = true := by
  cases l with
  | none => simp [ordPart] at h
  | some a =>
    cases r with
    | none => simp [ordPart] at h
    | some b =>
      simp only [ordPart] at h
      cases ha : a.asNum? with
      | none => simp [ha] at h
      | some x =>
        cases hb : b.asNum? with
        | none => simp [ha, hb] at h
        | some y =>
          simp only [ha, hb] at h
          exact ⟨a, b, x, y, rfl, rfl, ha, hb, h⟩

theorem asNum?_some (a : Val) (x : Int) (h : a.asNum? = some x) : a = .num x ∨ a = .jnum x := by
  cases a <;> simp [Val.asNum?] at h <;> simp [h]

mutual
/-- structural equality never relates values of different Go types -/
theorem beq_type : (a b : Val) → Val.beq a b = true → a.goTypeName = b.goTypeName
  | .null, b, h => by cases b <;> simp [Val.beq] at h <;> rfl
  | .bool _, b, h => by cases b <;> simp [Val.beq] at h <;> rfl
  | .num _, b, h => by cases b <;> simp [Val.beq] at h <;> rfl
  | .jnum _, b, h => by cases b <;> simp [Val.beq] at h <;> rfl
  | .str _, b, h => by cases b <;> simp [Val.beq] at h <;> rfl
  | .arr _, b, h => by cases b <;> simp [Val.beq] at h <;> rfl
  | .obj _, b, h => by cases b <;> simp [Val.beq] at h <;> rfl
  | .opq t c, b, h => by
    cases b <;> simp [Val.beq] at h
    simp [Val.goTypeName, h.1.1]
end

end SpecFil
end JPV
