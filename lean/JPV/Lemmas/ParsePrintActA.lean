/-
ParsePrintActA — action lemmas, part A: the stack machine (`Peg.execFrom`) on the token lists of
ParsePrintToks for subscripts, unions, names, steps without filters, functions. Every lemma is in
continuation style: the tokens of the construct followed by an arbitrary `rest`.
-/
import JPV.Lemmas.ParsePrintRaw
import JPV.Lemmas.Actions
import JPV.Lemmas.ParsePrintRecD
namespace JPV.PP
open JPV.Peg JPV.Print JPV.Lex

/-! ### captures -/

theorem textOf_empty (inp : Array Char) (p : Nat) : textOf inp p p = "" := by
  simp [textOf]

/-! ### `anyIndex` (action 21) -/

theorem exec_opt (c : Ctx) (o : Option Int) (ho : optOK c.ext o) {p : Nat} {r : List Char}
    (h : Sfx c.input p (optInt o ++ r)) (stk : List Item) (sv : List (List Item)) (rt : Option (List N))
    (tb te : Nat) :
    ∀ rest, execFrom c ⟨stk, sv, rt, tb, te⟩ (tkOpt p o ++ rest) =
      execFrom c ⟨.idx (Build.bound o) :: stk, sv, rt, p, p + (optInt o).length⟩ rest := by
  intro rest
  cases o with
  | none =>
    simp only [optOK] at ho
    simp [tkOpt, optInt, execFrom_text, execFrom_action, act, act21, St.text, textOf_empty,
      pushIndexSubscript, ho, push, bind, Except.bind, Build.bound]
  | some n =>
    simp only [optOK, intOK] at ho
    simp only [optInt] at h ⊢
    have hl : 0 < (intText n).length := intText_length_pos n
    simp [tkOpt, optInt, execFrom_text, execFrom_action, act, act21, St.text, textOf_sfx h,
      pushIndexSubscript, ho, push, bind, Except.bind, Build.bound, String.length_ofList, hl]

/-! ### `index` -/

theorem exec_sub (c : Ctx) (s : Sub) (hs : subOK c.ext s) {p : Nat} {r : List Char}
    (h : Sfx c.input p (subText s ++ r)) (stk : List Item) (sv : List (List Item)) (rt : Option (List N))
    (tb te : Nat) :
    ∃ tb' te', ∀ rest, execFrom c ⟨stk, sv, rt, tb, te⟩ (tkSub p s ++ rest) =
      execFrom c ⟨.chain [.union (mkInfo c "" (Build.subVg s)) [Build.subI s]] :: stk, sv, rt, tb', te'⟩ rest := by
  cases s with
  | idx n =>
    refine ⟨p, p + (intText n).length, fun rest => ?_⟩
    simp only [subOK, intOK] at hs
    simp only [subText] at h
    simp [tkSub, execFrom_text, execFrom_action, act, act17, act19, St.text, textOf_sfx h,
      pushIndexSubscript, hs, push, pop, asSubscript, bind, Except.bind, Build.subVg, Build.subI]
  | wild =>
    refine ⟨tb, te, fun rest => ?_⟩
    simp [tkSub, execFrom_action, act, act18, act19, push, pop, asSubscript, bind, Except.bind,
      Build.subVg, Build.subI]
  | slice s e t =>
    obtain ⟨hos, hoe, hot⟩ := hs
    cases t with
    | none =>
      simp only [subText, List.append_nil, List.append_assoc, List.cons_append] at h
      simp only at hot
      refine ⟨p + (optInt s).length + 1, p + (optInt s).length + 1 + (optInt e).length, fun rest => ?_⟩
      simp only [tkSub, List.append_assoc]
      rw [exec_opt c s hos h, exec_opt c e hoe h.append.tail]
      simp [execFrom_action, act, act20, act16, act19, pushIndexSubscript, hot, push, pop, asIdx,
        asSubscript, bind, Except.bind, Build.subVg, Build.subI]
    | some t =>
      simp only [subText, List.append_assoc, List.cons_append] at h
      simp only at hot
      refine ⟨p + (optInt s).length + 1 + (optInt e).length + 1,
        p + (optInt s).length + 1 + (optInt e).length + 1 + (intText t).length, fun rest => ?_⟩
      simp only [tkSub, List.append_assoc]
      rw [exec_opt c s hos h, exec_opt c e hoe h.append.tail,
        exec_opt c (some t) hot (r := r) h.append.tail.append.tail]
      by_cases ht : 0 ≤ t <;>
      simp [execFrom_action, act, act16, act19, push, pop, asIdx,
        asSubscript, bind, Except.bind, Build.subVg, Build.subI, Build.bound, ht, optInt]

/-! ### `union` -/

/-- one action on a given state, continuation style -/
theorem execFrom_action_ok (c : Ctx) (st st' : St) (i : Nat) (rest : List Tok) (h : act c i st = .ok st') :
    execFrom c st (.action i :: rest) = execFrom c st' rest := by
  rw [execFrom_action, h]; rfl

/-- the loop `(sep index {15})*` with the union collected so far on the stack -/
theorem exec_union_tail (c : Ctx) (stk : List Item) (sv : List (List Item)) (rt : Option (List N)) :
    ∀ (ss : List Sub) (p : Nat) (r : List Char) (i : Info) (subs : List SubI) (tb te : Nat),
      (∀ x ∈ ss, subOK c.ext x) → Sfx c.input p (flat commaSub ss ++ r) →
      ∃ tb' te', ∀ rest,
        execFrom c ⟨.chain [.union i subs] :: stk, sv, rt, tb, te⟩ (toksStar commaSub tkCommaSub ss p ++ rest) =
        execFrom c ⟨.chain [.union (if ss.isEmpty then i else { i with vg := true }) (subs ++ ss.map Build.subI)] :: stk,
          sv, rt, tb', te'⟩ rest := by
  intro ss
  induction ss with
  | nil =>
    intro p r i subs tb te _ _
    exact ⟨tb, te, fun rest => by simp [toksStar]⟩
  | cons x xs ih =>
    intro p r i subs tb te hok h
    simp only [flat, commaSub, List.cons_append, List.append_assoc] at h
    obtain ⟨tb1, te1, h1⟩ := exec_sub c x (hok x (by simp)) h.tail (.chain [.union i subs] :: stk) sv rt tb te
    have h2 : Sfx c.input (p + (commaSub x).length) (flat commaSub xs ++ r) := by
      have := h.tail.append
      simpa [commaSub, Nat.add_assoc, Nat.add_comm 1] using this
    obtain ⟨tb2, te2, h3⟩ := ih (p + (commaSub x).length) r { i with vg := true } (subs ++ [Build.subI x]) tb1 te1
      (fun y hy => hok y (by simp [hy])) h2
    refine ⟨tb2, te2, fun rest => ?_⟩
    simp only [toksStar, tkCommaSub, List.append_assoc, List.cons_append, List.nil_append]
    rw [h1, execFrom_action_ok c _ _ 15 _ (by simp [act, act15, pop, push, asUnion, bind, Except.bind]; rfl), h3]
    cases xs <;> simp

theorem exec_union (c : Ctx) (s : Sub) (ss : List Sub) (hok : ∀ x ∈ s :: ss, subOK c.ext x) {p : Nat} {r : List Char}
    (h : Sfx c.input p (joinComma ((s :: ss).map subText) ++ r)) (stk : List Item) (sv : List (List Item))
    (rt : Option (List N)) (tb te : Nat) :
    ∃ tb' te', ∀ rest, execFrom c ⟨stk, sv, rt, tb, te⟩ (tkUnion p (s :: ss) ++ rest) =
      execFrom c ⟨.chain [.union (mkInfo c "" (match s :: ss with | [x] => Build.subVg x | _ => true))
        ((s :: ss).map Build.subI)] :: stk, sv, rt, tb', te'⟩ rest := by
  rw [joinComma_subs, List.append_assoc] at h
  obtain ⟨tb1, te1, h1⟩ := exec_sub c s (hok s (by simp)) h stk sv rt tb te
  obtain ⟨tb2, te2, h2⟩ := exec_union_tail c stk sv rt ss (p + (subText s).length) r
    (mkInfo c "" (Build.subVg s)) [Build.subI s] tb1 te1 (fun y hy => hok y (by simp [hy])) h.append
  refine ⟨tb2, te2, fun rest => ?_⟩
  simp only [tkUnion, List.append_assoc]
  rw [h1, h2]
  cases ss <;> simp [mkInfo]

/-! ### names in brackets -/

/-- what `bracketNodeIdentifier` pushes -/
def nameNode (c : Ctx) : Name → List N
  | .key k => [.child (mkInfo c k false) k]
  | .wild => [.wild (mkInfo c "*" true)]

/-- an inner identifier before `setLastNodeText` -/
def mid0 (c : Ctx) : Name → MId
  | .key k => .key (mkInfo c k false) k
  | .wild => .wild (mkInfo c "*" true)

theorem toMId_nameNode (c : Ctx) (n : Name) : toMId (nameNode c n) = .ok (mid0 c n, Build.isWildName n) := by
  cases n <;> rfl

theorem exec_name (c : Ctx) (n : Name) (hn : nameOK c.ext n) {p : Nat} {r : List Char}
    (h : Sfx c.input p (nameText n ++ r)) (stk : List Item) (sv : List (List Item)) (rt : Option (List N))
    (tb te : Nat) :
    ∃ tb' te', ∀ rest, execFrom c ⟨stk, sv, rt, tb, te⟩ (tkName p n ++ rest) =
      execFrom c ⟨.chain (nameNode c n) :: stk, sv, rt, tb', te'⟩ rest := by
  cases n with
  | key k =>
    refine ⟨p + 1, p + 1 + (escSingle k.toList).length, fun rest => ?_⟩
    simp only [nameOK, keyOK] at hn
    simp only [nameText, quoted, List.cons_append, List.append_assoc] at h
    simp [tkName, execFrom_text, execFrom_action, act, act13, St.text, textOf_sfx h.tail, hn,
      pushChildSingle, push, bind, Except.bind, nameNode]
  | wild =>
    refine ⟨tb, te, fun rest => ?_⟩
    simp [tkName, execFrom_action, act, act12, push, bind, Except.bind, nameNode]

theorem act11_multi (c : Ctx) (x : Name) (i : Info) (ids : List MId) (twin : Option Info) (stk : List Item)
    (sv : List (List Item)) (rt : Option (List N)) (tb te : Nat) :
    act c 11 ⟨.chain (nameNode c x) :: .chain [.multi i ids twin] :: stk, sv, rt, tb, te⟩ =
      .ok ⟨.chain [.multi i (ids ++ [mid0 c x]) (if twin.isSome && Build.isWildName x then twin else none)] :: stk,
        sv, rt, tb, te⟩ := by
  cases x <;> rfl

theorem act11_first (c : Ctx) (x y : Name) (stk : List Item)
    (sv : List (List Item)) (rt : Option (List N)) (tb te : Nat) :
    act c 11 ⟨.chain (nameNode c y) :: .chain (nameNode c x) :: stk, sv, rt, tb, te⟩ =
      .ok ⟨.chain [.multi (mkInfo c "" true) [mid0 c x, mid0 c y]
        (if Build.isWildName x && Build.isWildName y then some (mkInfo c "" true) else none)] :: stk,
        sv, rt, tb, te⟩ := by
  cases x <;> cases y <;> rfl

/-- the loop `(sep bracketNodeIdentifier {11})*` with the multi-name node collected so far on the stack -/
theorem exec_names_tail (c : Ctx) (stk : List Item) (sv : List (List Item)) (rt : Option (List N)) :
    ∀ (ns : List Name) (p : Nat) (r : List Char) (i : Info) (ids : List MId) (twin : Option Info) (tb te : Nat),
      (∀ x ∈ ns, nameOK c.ext x) → Sfx c.input p (flat commaName ns ++ r) →
      ∃ tb' te', ∀ rest,
        execFrom c ⟨.chain [.multi i ids twin] :: stk, sv, rt, tb, te⟩ (toksStar commaName tkCommaName ns p ++ rest) =
        execFrom c ⟨.chain [.multi i (ids ++ ns.map (mid0 c))
          (if twin.isSome && ns.all Build.isWildName then twin else none)] :: stk, sv, rt, tb', te'⟩ rest := by
  intro ns
  induction ns with
  | nil =>
    intro p r i ids twin tb te _ _
    refine ⟨tb, te, fun rest => ?_⟩
    cases twin <;> simp [toksStar]
  | cons x xs ih =>
    intro p r i ids twin tb te hok h
    simp only [flat, commaName, List.cons_append, List.append_assoc] at h
    obtain ⟨tb1, te1, h1⟩ := exec_name c x (hok x (by simp)) h.tail (.chain [.multi i ids twin] :: stk) sv rt tb te
    have h2 : Sfx c.input (p + (commaName x).length) (flat commaName xs ++ r) := by
      have := h.tail.append
      simpa [commaName, Nat.add_assoc, Nat.add_comm 1] using this
    obtain ⟨tb2, te2, h3⟩ := ih (p + (commaName x).length) r i (ids ++ [mid0 c x])
      (if twin.isSome && Build.isWildName x then twin else none) tb1 te1
      (fun y hy => hok y (by simp [hy])) h2
    refine ⟨tb2, te2, fun rest => ?_⟩
    simp only [toksStar, tkCommaName, List.append_assoc, List.cons_append, List.nil_append]
    rw [h1, execFrom_action_ok c _ _ 11 _ (act11_multi c x i ids twin stk sv rt tb1 te1), h3]
    cases twin <;> cases hx : Build.isWildName x <;> simp [hx]

theorem exec_names (c : Ctx) (n n2 : Name) (ns : List Name) (hok : ∀ x ∈ n :: n2 :: ns, nameOK c.ext x)
    {p : Nat} {r : List Char} (h : Sfx c.input p (joinComma ((n :: n2 :: ns).map nameText) ++ r))
    (stk : List Item) (sv : List (List Item)) (rt : Option (List N)) (tb te : Nat) :
    ∃ tb' te', ∀ rest, execFrom c ⟨stk, sv, rt, tb, te⟩ (tkNames p (n :: n2 :: ns) ++ rest) =
      execFrom c ⟨.chain [.multi (mkInfo c "" true) ((n :: n2 :: ns).map (mid0 c))
        (if (n :: n2 :: ns).all Build.isWildName then some (mkInfo c "" true) else none)] :: stk,
        sv, rt, tb', te'⟩ rest := by
  rw [joinComma_names, List.append_assoc] at h
  simp only [flat, commaName, List.cons_append, List.append_assoc] at h
  obtain ⟨tb1, te1, h1⟩ := exec_name c n (hok n (by simp)) h stk sv rt tb te
  obtain ⟨tb2, te2, h2⟩ := exec_name c n2 (hok n2 (by simp)) h.append.tail (.chain (nameNode c n) :: stk) sv rt tb1 te1
  have h3 : Sfx c.input (p + (nameText n).length + (commaName n2).length) (flat commaName ns ++ r) := by
    have := h.append.tail.append
    simpa [commaName, Nat.add_assoc, Nat.add_comm 1] using this
  obtain ⟨tb3, te3, h4⟩ := exec_names_tail c stk sv rt ns _ r (mkInfo c "" true) [mid0 c n, mid0 c n2]
    (if Build.isWildName n && Build.isWildName n2 then some (mkInfo c "" true) else none) tb2 te2
    (fun y hy => hok y (by simp [hy])) h3
  refine ⟨tb3, te3, fun rest => ?_⟩
  simp only [tkNames, toksStar, tkCommaName, List.append_assoc, List.cons_append, List.nil_append]
  rw [h1, h2, execFrom_action_ok c _ _ 11 _ (act11_first c n n2 stk sv rt tb2 te2), h4]
  cases hx : Build.isWildName n <;> cases hy : Build.isWildName n2 <;> simp [hx, hy]

/-! ### steps -/

/-- `setLastNodeText(text)` (actions 4 and 7) after its capture -/
theorem exec_setText (c : Ctx) (i : Nat) (hi : i = 4 ∨ i = 7) (n : N) (tl : List N) {p : Nat} {s r : List Char}
    (h : Sfx c.input p (s ++ r)) (stk : List Item) (sv : List (List Item)) (rt : Option (List N)) (tb te : Nat)
    (rest : List Tok) :
    execFrom c ⟨.chain (n :: tl) :: stk, sv, rt, tb, te⟩ (.text p (p + s.length) :: .action i :: rest) =
      execFrom c ⟨.chain (nSetText (String.ofList s) n :: tl) :: stk, sv, rt, p, p + s.length⟩ rest := by
  rcases hi with rfl | rfl <;>
  simp [execFrom_text, execFrom_action, act, act4, act7, setLastNodeText, St.text, textOf_sfx h, asNode,
    bind, Except.bind]

theorem exec_step_child (c : Ctx) (ad : Bool) (t k : String) (hk : childOK c.ext k) {p : Nat} {r : List Char}
    (h : Sfx c.input p (Print.step ad (.child t k) ++ r)) (stk : List Item) (sv : List (List Item))
    (rt : Option (List N)) (tb te : Nat) :
    ∃ tb' te', ∀ rest, execFrom c ⟨stk, sv, rt, tb, te⟩ (tkStep ad p (.child t k) ++ rest) =
      execFrom c ⟨.chain (rawStep c.acc ad (.child t k)) :: stk, sv, rt, tb', te'⟩ rest := by
  by_cases hd : dotSpellable k.toList = true
  · simp only [childOK, hd, if_true] at hk
    cases ad with
    | true =>
      simp only [Print.step, childStr, hd, if_true] at h
      refine ⟨p, p + (escDot k.toList).length, fun rest => ?_⟩
      simp [tkStep, hd, execFrom_text, execFrom_action, act, act10, St.text, textOf_sfx h, hk, pushChildSingle,
        push, bind, Except.bind, rawStep, rawStepQ, childRec, String.ofList_toList, mkInfo, rawInfo]
    | false =>
      simp only [Print.step, childStr, hd, if_true, Bool.false_eq_true, if_false, List.cons_append] at h
      have h' : Sfx c.input p (('.' :: escDot k.toList) ++ r) := h
      have hlen : p + 1 + (escDot k.toList).length = p + ('.' :: escDot k.toList).length := by
        simp only [List.length_cons]; omega
      refine ⟨p, p + ('.' :: escDot k.toList).length, fun rest => ?_⟩
      simp only [tkStep, hd, if_true, Bool.false_eq_true, if_false, List.cons_append, List.nil_append, hlen]
      rw [execFrom_text, execFrom_action_ok c _ ⟨.chain [.child (mkInfo c k false) k] :: stk, sv, rt, p + 1,
        p + ('.' :: escDot k.toList).length⟩ 10 _ (by
          rw [← hlen]
          simp [act, act10, St.text, textOf_sfx h.tail, hk, pushChildSingle, push]),
        exec_setText c 4 (.inl rfl) _ _ h']
      simp [rawStep, rawStepQ, childRec, hd, nSetText, nMapInfoDeep, nMapInfo, mkInfo, rawInfo]
  · have hd' : dotSpellable k.toList = false := by simpa using hd
    simp only [childOK, hd', Bool.false_eq_true, if_false] at hk
    simp only [Print.step, childStr, hd', Bool.false_eq_true, if_false] at h
    have h1 : Sfx c.input (p + 1) (nameText (.key k) ++ (']' :: r)) := by
      have := h
      simp only [bracket, List.cons_append, List.append_assoc] at this
      simpa [nameText] using this.tail
    obtain ⟨tb1, te1, h2⟩ := exec_name c (.key k) hk h1 stk sv rt tb te
    refine ⟨p, p + (bracket (quoted k)).length, fun rest => ?_⟩
    simp only [tkStep, hd', Bool.false_eq_true, if_false, List.append_assoc, List.cons_append, List.nil_append]
    rw [h2, nameNode, exec_setText c 7 (.inr rfl) _ _ h]
    simp [rawStep, rawStepQ, childRec, hd', nSetText, nMapInfoDeep, nMapInfo, mkInfo, rawInfo]

theorem exec_step_wild (c : Ctx) (ad : Bool) (t : String) {p : Nat} {r : List Char}
    (h : Sfx c.input p (Print.step ad (.wild t) ++ r)) (stk : List Item) (sv : List (List Item))
    (rt : Option (List N)) (tb te : Nat) :
    ∃ tb' te', ∀ rest, execFrom c ⟨stk, sv, rt, tb, te⟩ (tkStep ad p (.wild t) ++ rest) =
      execFrom c ⟨.chain (rawStep c.acc ad (.wild t)) :: stk, sv, rt, tb', te'⟩ rest := by
  cases ad with
  | true =>
    refine ⟨tb, te, fun rest => ?_⟩
    simp [tkStep, execFrom_action, act, act12, push, bind, Except.bind, rawStep, rawStepQ, wildStr, mkInfo, rawInfo]
  | false =>
    simp only [Print.step, wildStr, Bool.false_eq_true, if_false] at h
    refine ⟨p, p + ['.', '*'].length, fun rest => ?_⟩
    have hlen : p + 2 = p + ['.', '*'].length := rfl
    simp only [tkStep, Bool.false_eq_true, if_false, List.cons_append, List.nil_append, hlen]
    rw [execFrom_action_ok c _ ⟨.chain [.wild (mkInfo c "*" true)] :: stk, sv, rt, tb, te⟩ 12 _ rfl,
      exec_setText c 4 (.inl rfl) _ _ h]
    simp [rawStep, rawStepQ, wildStr, nSetText, nMapInfoDeep, nMapInfo, mkInfo, rawInfo]

theorem map_setText_mid0 (c : Ctx) (T : String) (ns : List Name) :
    List.map (midMapInfo (fun i => { i with text := T })) (ns.map (mid0 c)) = ns.map (rawMId c.acc T) := by
  rw [List.map_map]
  apply List.map_congr_left
  intro n _
  cases n <;> rfl

theorem exec_step_multi (c : Ctx) (ad : Bool) (t : String) (ns : List Name) (hwf : stepWf ad (.multi t ns) = true)
    (hok : ∀ n ∈ ns, nameOK c.ext n) {p : Nat} {r : List Char}
    (h : Sfx c.input p (Print.step ad (.multi t ns) ++ r)) (stk : List Item) (sv : List (List Item))
    (rt : Option (List N)) (tb te : Nat) :
    ∃ tb' te', ∀ rest, execFrom c ⟨stk, sv, rt, tb, te⟩ (tkStep ad p (.multi t ns) ++ rest) =
      execFrom c ⟨.chain (rawStep c.acc ad (.multi t ns)) :: stk, sv, rt, tb', te'⟩ rest := by
  match ns, hwf, hok, h with
  | [], hwf, _, _ => simp [stepWf] at hwf
  | [_], hwf, _, _ => simp [stepWf] at hwf
  | n :: n2 :: ns, _, hok, h =>
    have h1 : Sfx c.input (p + 1) (joinComma ((n :: n2 :: ns).map nameText) ++ (']' :: r)) := by
      have := h
      simp only [Print.step, bracket, List.cons_append, List.append_assoc] at this
      simpa using this.tail
    obtain ⟨tb1, te1, h2⟩ := exec_names c n n2 ns hok h1 stk sv rt tb te
    refine ⟨p, p + (Print.step ad (.multi t (n :: n2 :: ns))).length, fun rest => ?_⟩
    simp only [tkStep, List.append_assoc, List.cons_append, List.nil_append]
    rw [h2, exec_setText c 7 (.inr rfl) _ _ h]
    simp only [rawStep, rawStepQ, nSetText, nMapInfoDeep, map_setText_mid0]
    congr 5
    cases (n :: n2 :: ns).all Build.isWildName <;> rfl

theorem exec_step_union (c : Ctx) (ad : Bool) (t : String) (ss : List Sub) (hwf : stepWf ad (.union t ss) = true)
    (hok : ∀ s ∈ ss, subOK c.ext s) {p : Nat} {r : List Char}
    (h : Sfx c.input p (Print.step ad (.union t ss) ++ r)) (stk : List Item) (sv : List (List Item))
    (rt : Option (List N)) (tb te : Nat) :
    ∃ tb' te', ∀ rest, execFrom c ⟨stk, sv, rt, tb, te⟩ (tkStep ad p (.union t ss) ++ rest) =
      execFrom c ⟨.chain (rawStep c.acc ad (.union t ss)) :: stk, sv, rt, tb', te'⟩ rest := by
  match ss, hwf, hok, h with
  | [], hwf, _, _ => simp [stepWf] at hwf
  | s :: ss, _, hok, h =>
    have h1 : Sfx c.input (p + 1) (joinComma ((s :: ss).map subText) ++ (']' :: r)) := by
      have := h
      simp only [Print.step, bracket, List.cons_append, List.append_assoc] at this
      simpa using this.tail
    obtain ⟨tb1, te1, h2⟩ := exec_union c s ss hok h1 stk sv rt tb te
    refine ⟨p, p + (Print.step ad (.union t (s :: ss))).length, fun rest => ?_⟩
    simp only [tkStep, List.append_assoc, List.cons_append, List.nil_append]
    rw [h2, exec_setText c 7 (.inr rfl) _ _ h]
    rfl

/-- a step that is neither `..` nor a filter -/
theorem exec_step_plain (c : Ctx) (ad : Bool) (s : Step) (hnd : ∀ s', s ≠ .desc s') (hnf : noFilterStep s = true)
    (hwf : stepWf ad s = true) (hok : stepExtOK c.ext s) {p : Nat} {r : List Char}
    (h : Sfx c.input p (Print.step ad s ++ r)) (stk : List Item) (sv : List (List Item))
    (rt : Option (List N)) (tb te : Nat) :
    ∃ tb' te', ∀ rest, execFrom c ⟨stk, sv, rt, tb, te⟩ (tkStep ad p s ++ rest) =
      execFrom c ⟨.chain (rawStep c.acc ad s) :: stk, sv, rt, tb', te'⟩ rest := by
  cases s with
  | child t k => exact exec_step_child c ad t k hok h stk sv rt tb te
  | wild t => exact exec_step_wild c ad t h stk sv rt tb te
  | multi t ns => exact exec_step_multi c ad t ns hwf hok h stk sv rt tb te
  | union t ss => exact exec_step_union c ad t ss hwf hok h stk sv rt tb te
  | filter t q => cases hnf
  | desc s' => exact absurd rfl (hnd s')

/-- the flags `pushRecursiveChildIdentifier` reads off the node that follows `..` -/
theorem pushRecursiveChild_raw (c : Ctx) (s : Step) (hnd : ∀ s', s ≠ .desc s') (hnf : noFilterStep s = true)
    (st : St) :
    pushRecursiveChild c (rawStep c.acc true s) st = push (.chain (rawStep c.acc false (.desc s))) st := by
  cases s with
  | child t k => rfl
  | wild t => rfl
  | multi t ns => rfl
  | union t ss => rfl
  | filter t q => cases hnf
  | desc s' => exact absurd rfl (hnd s')

theorem exec_step (c : Ctx) (ad : Bool) (s : Step) (hnf : noFilterStep s = true)
    (hwf : stepWf ad s = true) (hok : stepExtOK c.ext s) {p : Nat} {r : List Char}
    (h : Sfx c.input p (Print.step ad s ++ r)) (stk : List Item) (sv : List (List Item))
    (rt : Option (List N)) (tb te : Nat) :
    ∃ tb' te', ∀ rest, execFrom c ⟨stk, sv, rt, tb, te⟩ (tkStep ad p s ++ rest) =
      execFrom c ⟨.chain (rawStep c.acc ad s) :: stk, sv, rt, tb', te'⟩ rest := by
  by_cases hd : ∃ s', s = .desc s'
  · obtain ⟨s', rfl⟩ := hd
    have hwf' : ad = false ∧ stepWf true s' = true := by simpa [stepWf] using hwf
    obtain ⟨rfl, hwf1⟩ := hwf'
    have hnd : ∀ s'', s' ≠ .desc s'' := by
      intro s'' he; subst he; simp [stepWf] at hwf1
    have hnf' : noFilterStep s' = true := by simpa [noFilterStep] using hnf
    have hok' : stepExtOK c.ext s' := by simpa [stepExtOK] using hok
    have h1 : Sfx c.input (p + 2) (Print.step true s' ++ r) := by
      have := h
      simp only [Print.step, List.cons_append] at this
      exact this.tail.tail
    obtain ⟨tb1, te1, h2⟩ := exec_step_plain c true s' hnd hnf' hwf1 hok' h1 stk sv rt tb te
    refine ⟨tb1, te1, fun rest => ?_⟩
    simp only [tkStep, List.append_assoc, List.cons_append, List.nil_append]
    have hne : ∃ a l, rawStep c.acc true s' = a :: l := by
      cases s' <;> exact ⟨_, _, rfl⟩
    obtain ⟨a, l, hal⟩ := hne
    rw [h2, execFrom_action_ok c _ ⟨.chain (rawStep c.acc false (.desc s')) :: stk, sv, rt, tb1, te1⟩ 3 _ (by
      simp only [act, act3, pop, hal, asNode, bind, Except.bind]
      rw [← hal, pushRecursiveChild_raw c s' hnd hnf']; rfl)]
  · exact exec_step_plain c ad s (fun s' he => hd ⟨s', he⟩) hnf hwf hok h stk sv rt tb te

/-! ### functions -/

theorem exec_fn (c : Ctx) (f : Fn) {p : Nat} {r : List Char} (h : Sfx c.input p (fnText f ++ r))
    (stk : List Item) (sv : List (List Item)) (rt : Option (List N)) (tb te : Nat) :
    ∀ rest, execFrom c ⟨stk, sv, rt, tb, te⟩ (tkFn f p ++ rest) =
      (pushFunction c (String.ofList (fnText f)) (fnName f) ⟨stk, sv, rt, p, p + (fnText f).length⟩ >>=
        fun st' => execFrom c st' rest) := by
  intro rest
  have h1 : Sfx c.input (p + 1) ((fnName f).toList ++ ('(' :: ')' :: r)) := by
    have := h
    simp only [fnText, List.cons_append, List.append_assoc] at this
    simpa using this.tail
  simp [tkFn, execFrom_text, execFrom_action, act, act6, act5, St.text, textOf_sfx h1, textOf_sfx h,
    String.ofList_toList, push, pop, asStr, bind, Except.bind]

/-! ### `childNode*` -/

theorem exec_steps (c : Ctx) (sv : List (List Item)) (rt : Option (List N)) :
    ∀ (ss : List Step) (p : Nat) (r : List Char) (stk : List Item) (tb te : Nat),
      (∀ s ∈ ss, noFilterStep s = true ∧ stepWf false s = true ∧ stepExtOK c.ext s) →
      Sfx c.input p (steps ss ++ r) →
      ∃ tb' te', ∀ rest, execFrom c ⟨stk, sv, rt, tb, te⟩ (tkSteps p ss ++ rest) =
        execFrom c ⟨(ss.map (fun s => Item.chain (rawStep c.acc false s))).reverse ++ stk, sv, rt, tb', te'⟩ rest := by
  intro ss
  induction ss with
  | nil =>
    intro p r stk tb te _ _
    exact ⟨tb, te, fun rest => by simp [tkSteps]⟩
  | cons s ss ih =>
    intro p r stk tb te hok h
    simp only [steps, List.append_assoc] at h
    obtain ⟨hnf, hwf, hext⟩ := hok s (by simp)
    obtain ⟨tb1, te1, h1⟩ := exec_step c false s hnf hwf hext h stk sv rt tb te
    obtain ⟨tb2, te2, h2⟩ := ih (p + (Print.step false s).length) r (.chain (rawStep c.acc false s) :: stk) tb1 te1
      (fun y hy => hok y (by simp [hy])) h.append
    refine ⟨tb2, te2, fun rest => ?_⟩
    simp only [tkSteps, List.append_assoc]
    rw [h1, h2]
    simp

/-- `exec_steps` with `tb' = tb`, `te' = te` when there is no step -/
theorem exec_steps_nil (c : Ctx) (st : St) (p : Nat) (rest : List Tok) :
    execFrom c st (tkSteps p [] ++ rest) = execFrom c st rest := rfl

end JPV.PP
