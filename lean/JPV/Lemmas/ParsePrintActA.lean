/-
ParsePrintActA — action lemmas, part A: the stack machine (`Peg.execFrom`) on the token lists of
ParsePrintToks for subscripts, unions, names, steps without filters, functions. Every lemma is in
continuation style: the tokens of the construct followed by an arbitrary `rest`.
-/
import JPV.Lemmas.ParsePrintRaw
import JPV.Lemmas.Actions
import JPV.Lemmas.ParsePrintRecD
namespace JPV.PP
open JPV.Peg JPV.Print JPV.Lex

/-! ### captures -/

theorem textOf_empty (inp : Array Char) (p : Nat) : textOf inp p p = "" := by
  simp [textOf]

/-! ### `anyIndex` (action 21) -/

theorem exec_opt (c : Ctx) (o : Option Int) (ho : optOK c.ext o) {p : Nat} {r : List Char}
    (h : Sfx c.input p (optInt o ++ r)) (stk : List Item) (sv : List (List Item)) (rt : Option (List N))
    (tb te : Nat) :
    ∀ rest, execFrom c ⟨stk, sv, rt, tb, te⟩ (tkOpt p o ++ rest) =
      execFrom c ⟨.idx (Build.bound o) :: stk, sv, rt, p, p + (optInt o).length⟩ rest := by
  intro rest
  cases o with
  | none =>
    simp only [optOK] at ho
    simp [tkOpt, optInt, execFrom_text, execFrom_action, act, act21, St.text, textOf_empty,
      pushIndexSubscript, ho, push, bind, Except.bind, Build.bound]
  | some n =>
    simp only [optOK, intOK] at ho
    simp only [optInt] at h ⊢
    have hl : 0 < (intText n).length := intText_length_pos n
    simp [tkOpt, optInt, execFrom_text, execFrom_action, act, act21, St.text, textOf_sfx h,
      pushIndexSubscript, ho, push, bind, Except.bind, Build.bound, String.length_ofList, hl]

/-! ### `index` -/

theorem exec_sub (c : Ctx) (s : Sub) (hs : subOK c.ext s) {p : Nat} {r : List Char}
    (h : Sfx c.input p (subText s ++ r)) (stk : List Item) (sv : List (List Item)) (rt : Option (List N))
    (tb te : Nat) :
    ∃ tb' te', ∀ rest, execFrom c ⟨stk, sv, rt, tb, te⟩ (tkSub p s ++ rest) =
      execFrom c ⟨.chain [.union (mkInfo c "" (Build.subVg s)) [Build.subI s]] :: stk, sv, rt, tb', te'⟩ rest := by
  cases s with
  | idx n =>
    refine ⟨p, p + (intText n).length, fun rest => ?_⟩
    simp only [subOK, intOK] at hs
    simp only [subText] at h
    simp [tkSub, execFrom_text, execFrom_action, act, act17, act19, St.text, textOf_sfx h,
      pushIndexSubscript, hs, push, pop, asSubscript, bind, Except.bind, Build.subVg, Build.subI]
  | wild =>
    refine ⟨tb, te, fun rest => ?_⟩
    simp [tkSub, execFrom_action, act, act18, act19, push, pop, asSubscript, bind, Except.bind,
      Build.subVg, Build.subI]
  | slice s e t =>
    obtain ⟨hos, hoe, hot⟩ := hs
    cases t with
    | none =>
      simp only [subText, List.append_nil, List.append_assoc, List.cons_append] at h
      simp only at hot
      refine ⟨p + (optInt s).length + 1, p + (optInt s).length + 1 + (optInt e).length, fun rest => ?_⟩
      simp only [tkSub, List.append_assoc]
      rw [exec_opt c s hos h, exec_opt c e hoe h.append.tail]
      simp [execFrom_action, act, act20, act16, act19, pushIndexSubscript, hot, push, pop, asIdx,
        asSubscript, bind, Except.bind, Build.subVg, Build.subI]
    | some t =>
      simp only [subText, List.append_assoc, List.cons_append] at h
      simp only at hot
      refine ⟨p + (optInt s).length + 1 + (optInt e).length + 1,
        p + (optInt s).length + 1 + (optInt e).length + 1 + (intText t).length, fun rest => ?_⟩
      simp only [tkSub, List.append_assoc]
      rw [exec_opt c s hos h, exec_opt c e hoe h.append.tail,
        exec_opt c (some t) hot (r := r) h.append.tail.append.tail]
      by_cases ht : 0 ≤ t <;>
      simp [execFrom_action, act, act16, act19, push, pop, asIdx,
        asSubscript, bind, Except.bind, Build.subVg, Build.subI, Build.bound, ht, optInt]

/-! ### `union` -/

/-- one action on a given state, continuation style -/
theorem execFrom_action_ok (c : Ctx) (st st' : St) (i : Nat) (rest : List Tok) (h : act c i st = .ok st') :
    execFrom c st (.action i :: rest) = execFrom c st' rest := by
  rw [execFrom_action, h]; rfl

/-- the loop `(sep index {15})*` with the union collected so far on the stack -/
theorem exec_union_tail (c : Ctx) (stk : List Item) (sv : List (List Item)) (rt : Option (List N)) :
    ∀ (ss : List Sub) (p : Nat) (r : List Char) (i : Info) (subs : List SubI) (tb te : Nat),
      (∀ x ∈ ss, subOK c.ext x) → Sfx c.input p (flat commaSub ss ++ r) →
      ∃ tb' te', ∀ rest,
        execFrom c ⟨.chain [.union i subs] :: stk, sv, rt, tb, te⟩ (toksStar commaSub tkCommaSub ss p ++ rest) =
        execFrom c ⟨.chain [.union (if ss.isEmpty then i else { i with vg := true }) (subs ++ ss.map Build.subI)] :: stk,
          sv, rt, tb', te'⟩ rest := by
  intro ss
  induction ss with
  | nil =>
    intro p r i subs tb te _ _
    exact ⟨tb, te, fun rest => by simp [toksStar]⟩
  | cons x xs ih =>
    intro p r i subs tb te hok h
    simp only [flat, commaSub, List.cons_append, List.append_assoc] at h
    obtain ⟨tb1, te1, h1⟩ := exec_sub c x (hok x (by simp)) h.tail (.chain [.union i subs] :: stk) sv rt tb te
    have h2 : Sfx c.input (p + (commaSub x).length) (flat commaSub xs ++ r) := by
      have := h.tail.append
      simpa [commaSub, Nat.add_assoc, Nat.add_comm 1] using this
    obtain ⟨tb2, te2, h3⟩ := ih (p + (commaSub x).length) r { i with vg := true } (subs ++ [Build.subI x]) tb1 te1
      (fun y hy => hok y (by simp [hy])) h2
    refine ⟨tb2, te2, fun rest => ?_⟩
    simp only [toksStar, tkCommaSub, List.append_assoc, List.cons_append, List.nil_append]
    rw [h1, execFrom_action_ok c _ _ 15 _ (by simp [act, act15, pop, push, asUnion, bind, Except.bind]; rfl), h3]
    cases xs <;> simp

theorem exec_union (c : Ctx) (s : Sub) (ss : List Sub) (hok : ∀ x ∈ s :: ss, subOK c.ext x) {p : Nat} {r : List Char}
    (h : Sfx c.input p (joinComma ((s :: ss).map subText) ++ r)) (stk : List Item) (sv : List (List Item))
    (rt : Option (List N)) (tb te : Nat) :
    ∃ tb' te', ∀ rest, execFrom c ⟨stk, sv, rt, tb, te⟩ (tkUnion p (s :: ss) ++ rest) =
      execFrom c ⟨.chain [.union (mkInfo c "" (match s :: ss with | [x] => Build.subVg x | _ => true))
        ((s :: ss).map Build.subI)] :: stk, sv, rt, tb', te'⟩ rest := by
  rw [joinComma_subs, List.append_assoc] at h
  obtain ⟨tb1, te1, h1⟩ := exec_sub c s (hok s (by simp)) h stk sv rt tb te
  obtain ⟨tb2, te2, h2⟩ := exec_union_tail c stk sv rt ss (p + (subText s).length) r
    (mkInfo c "" (Build.subVg s)) [Build.subI s] tb1 te1 (fun y hy => hok y (by simp [hy])) h.append
  refine ⟨tb2, te2, fun rest => ?_⟩
  simp only [tkUnion, List.append_assoc]
  rw [h1, h2]
  cases ss <;> simp [mkInfo]

/-! ### names in brackets -/

/-- what `bracketNodeIdentifier` pushes -/
def nameNode (c : Ctx) : Name → List N
  | .key k => [.child (mkInfo c k false) k]
  | .wild => [.wild (mkInfo c "*" true)]

/-- an inner identifier before `setLastNodeText` -/
def mid0 (c : Ctx) : Name → MId
  | .key k => .key (mkInfo c k false) k
  | .wild => .wild (mkInfo c "*" true)

theorem toMId_nameNode (c : Ctx) (n : Name) : toMId (nameNode c n) = .ok (mid0 c n, Build.isWildName n) := by
  cases n <;> rfl

theorem exec_name (c : Ctx) (n : Name) (hn : nameOK c.ext n) {p : Nat} {r : List Char}
    (h : Sfx c.input p (nameText n ++ r)) (stk : List Item) (sv : List (List Item)) (rt : Option (List N))
    (tb te : Nat) :
    ∃ tb' te', ∀ rest, execFrom c ⟨stk, sv, rt, tb, te⟩ (tkName p n ++ rest) =
      execFrom c ⟨.chain (nameNode c n) :: stk, sv, rt, tb', te'⟩ rest := by
  cases n with
  | key k =>
    refine ⟨p + 1, p + 1 + (escSingle k.toList).length, fun rest => ?_⟩
    simp only [nameOK, keyOK] at hn
    simp only [nameText, quoted, List.cons_append, List.append_assoc] at h
    simp [tkName, execFrom_text, execFrom_action, act, act13, St.text, textOf_sfx h.tail, hn,
      pushChildSingle, push, bind, Except.bind, nameNode]
  | wild =>
    refine ⟨tb, te, fun rest => ?_⟩
    simp [tkName, execFrom_action, act, act12, push, bind, Except.bind, nameNode]

theorem act11_multi (c : Ctx) (x : Name) (i : Info) (ids : List MId) (twin : Option Info) (stk : List Item)
    (sv : List (List Item)) (rt : Option (List N)) (tb te : Nat) :
    act c 11 ⟨.chain (nameNode c x) :: .chain [.multi i ids twin] :: stk, sv, rt, tb, te⟩ =
      .ok ⟨.chain [.multi i (ids ++ [mid0 c x]) (if twin.isSome && Build.isWildName x then twin else none)] :: stk,
        sv, rt, tb, te⟩ := by
  cases x <;> rfl

theorem act11_first (c : Ctx) (x y : Name) (stk : List Item)
    (sv : List (List Item)) (rt : Option (List N)) (tb te : Nat) :
    act c 11 ⟨.chain (nameNode c y) :: .chain (nameNode c x) :: stk, sv, rt, tb, te⟩ =
      .ok ⟨.chain [.multi (mkInfo c "" true) [mid0 c x, mid0 c y]
        (if Build.isWildName x && Build.isWildName y then some (mkInfo c "" true) else none)] :: stk,
        sv, rt, tb, te⟩ := by
  cases x <;> cases y <;> rfl

/-- the loop `(sep bracketNodeIdentifier {11})*` with the multi-name node collected so far on the stack -/
theorem exec_names_tail (c : Ctx) (stk : List Item) (sv : List (List Item)) (rt : Option (List N)) :
    ∀ (ns : List Name) (p : Nat) (r : List Char) (i : Info) (ids : List MId) (twin : Option Info) (tb te : Nat),
      (∀ x ∈ ns, nameOK c.ext x) → Sfx c.input p (flat commaName ns ++ r) →
      ∃ tb' te', ∀ rest,
        execFrom c ⟨.chain [.multi i ids twin] :: stk, sv, rt, tb, te⟩ (toksStar commaName tkCommaName ns p ++ rest) =
        execFrom c ⟨.chain [.multi i (ids ++ ns.map (mid0 c))
          (if twin.isSome && ns.all Build.isWildName then twin else none)] :: stk, sv, rt, tb', te'⟩ rest := by
  intro ns
  induction ns with
  | nil =>
    intro p r i ids twin tb te _ _
    refine ⟨tb, te, fun rest => ?_⟩
    cases twin <;> simp [toksStar]
  | cons x xs ih =>
    intro p r i ids twin tb te hok h
    simp only [flat, commaName, List.cons_append, List.append_assoc] at h
    obtain ⟨tb1, te1, h1⟩ := exec_name c x (hok x (by simp)) h.tail (.chain [.multi i ids twin] :: stk) sv rt tb te
    have h2 : Sfx c.input (p + (commaName x).length) (flat commaName xs ++ r) := by
      have := h.tail.append
      simpa [commaName, Nat.add_assoc, Nat.add_comm 1] using this
    obtain ⟨tb2, te2, h3⟩ := ih (p + (commaName x).length) r i (ids ++ [mid0 c x])
      (if twin.isSome && Build.isWildName x then twin else none) tb1 te1
      (fun y hy => hok y (by simp [hy])) h2
    refine ⟨tb2, te2, fun rest => ?_⟩
    simp only [toksStar, tkCommaName, List.append_assoc, List.cons_append, List.nil_append]
    rw [h1, execFrom_action_ok c _ _ 11 _ (act11_multi c x i ids twin stk sv rt tb1 te1), h3]
    cases twin <;> cases hx : Build.isWildName x <;> simp [hx]

theorem exec_names (c : Ctx) (n n2 : Name) (ns : List Name) (hok : ∀ x ∈ n :: n2 :: ns, nameOK c.ext x)
    {p : Nat} {r : List Char} (h : Sfx c.input p (joinComma ((n :: n2 :: ns).map nameText) ++ r))
    (stk : List Item) (sv : List (List Item)) (rt : Option (List N)) (tb te : Nat) :
    ∃ tb' te', ∀ rest, execFrom c ⟨stk, sv, rt, tb, te⟩ (tkNames p (n :: n2 :: ns) ++ rest) =
      execFrom c ⟨.chain [.multi (mkInfo c "" true) ((n :: n2 :: ns).map (mid0 c))
        (if (n :: n2 :: ns).all Build.isWildName then some (mkInfo c "" true) else none)] :: stk,
        sv, rt, tb', te'⟩ rest := by
  rw [joinComma_names, List.append_assoc] at h
  simp only [flat, commaName, List.cons_append, List.append_assoc] at h
  obtain ⟨tb1, te1, h1⟩ := exec_name c n (hok n (by simp)) h stk sv rt tb te
  obtain ⟨tb2, te2, h2⟩ := exec_name c n2 (hok n2 (by simp)) h.append.tail (.chain (nameNode c n) :: stk) sv rt tb1 te1
  have h3 : Sfx c.input (p + (nameText n).length + (commaName n2).length) (flat commaName ns ++ r) := by
    have := h.append.tail.append
    simpa [commaName, Nat.add_assoc, Nat.add_comm 1] using this
  obtain ⟨tb3, te3, h4⟩ := exec_names_tail c stk sv rt ns _ r (mkInfo c "" true) [mid0 c n, mid0 c n2]
    (if Build.isWildName n && Build.isWildName n2 then some (mkInfo c "" true) else none) tb2 te2
    (fun y hy => hok y (by simp [hy])) h3
  refine ⟨tb3, te3, fun rest => ?_⟩
  simp only [tkNames, toksStar, tkCommaName, List.append_assoc, List.cons_append, List.nil_append]
  rw [h1, h2, execFrom_action_ok c _ _ 11 _ (act11_first c n n2 stk sv rt tb2 te2), h4]
  cases hx : Build.isWildName n <;> cases hy : Build.isWildName n2 <;> simp [hx, hy]

end JPV.PP
