/-
ParsePrintDriverExt — the hypotheses `ExtOK ext p` are satisfiable: the executable instance
`Peg.driverExt` (JPV/Peg/ExtDriver.lean: models of strconv.Atoi, the three unescape routines, …)
reads back every member name, every string literal and every integer within int64.
(`strconv.ParseFloat` and `regexp.Compile` are modelled only partially there; for them the
hypotheses are discharged per literal, see the examples in Props/ParsePrint.lean.)
-/
import JPV.Lemmas.ParsePrintExt
import JPV.Peg.ExtDriver
import JPV.Props.C16
namespace JPV.PP
open JPV.Peg JPV.Print JPV.Lex

theorem driver_keyOK (k : String) : keyOK driverExt k := by
  have := Props.C16.C16_single_roundtripS k
  simpa [keyOK, driverExt, escSingleS] using this

theorem driver_childOK (k : String) : childOK driverExt k := by
  unfold childOK
  split
  · rename_i hk
    have hne := dotSpellable_ne_nil hk
    have hnc := dotSpellable_noControl hk
    have := Props.C16.C16_dot_roundtripS k hne (fun c hc => by simp [hnc c hc])
    simpa [driverExt, escDotS] using this
  · exact driver_keyOK k

theorem driver_nameOK (n : Name) : nameOK driverExt n := by
  cases n with
  | key k => exact driver_keyOK k
  | wild => trivial

/-! ### string literals -/

theorem unescapeBackslash_escLit : ∀ (s : List Char), unescapeBackslash (escLit s) = s := by
  intro s
  induction s with
  | nil => rfl
  | cons c r ih =>
    have hcons : escLit (c :: r) = escLitChar c ++ escLit r := by simp [escLit]
    rw [hcons]
    unfold escLitChar
    split
    · rename_i hc
      have hn : c ≠ '\n' := by rcases hc with rfl | rfl <;> decide
      simp only [List.cons_append, List.nil_append]
      rw [unescapeBackslash_esc c _ hn, ih]
    · rename_i hc
      have hb : c ≠ '\\' := fun h => hc (.inr h)
      simp only [List.cons_append, List.nil_append]
      rw [unescapeBackslash_plain c _ hb, ih]

theorem driver_strLit (s : String) : litOK driverExt (.str s) := by
  simp [litOK, driverExt, unescapeBackslashS, String.toList_ofList, unescapeBackslash_escLit, String.ofList_toList]

/-! ### integers -/

theorem digit_val : ∀ d, d < 10 →
    (Char.ofNat (48 + d)).toNat - '0'.toNat = d ∧ Peg.isDigit (Char.ofNat (48 + d)) = true ∧
    Char.ofNat (48 + d) ≠ '-' ∧ Char.ofNat (48 + d) ≠ '+' := by decide

def dvFrom (a : Nat) (cs : List Char) : Nat := cs.foldl (fun a c => 10 * a + (c.toNat - '0'.toNat)) a

theorem natDigitsAux_acc : ∀ (fuel n : Nat) (acc : List Char), n < fuel →
    natDigitsAux fuel n acc = natDigitsAux fuel n [] ++ acc := by
  intro fuel
  induction fuel with
  | zero => intro n acc h; omega
  | succ fuel ih =>
    intro n acc h
    unfold natDigitsAux
    split
    · simp
    · rename_i hn
      have hlt : n / 10 < fuel := by omega
      rw [ih (n / 10) (Char.ofNat (48 + n % 10) :: acc) hlt, ih (n / 10) [Char.ofNat (48 + n % 10)] hlt]
      simp

theorem natDigitsAux_val : ∀ (fuel n : Nat), n < fuel →
    dvFrom 0 (natDigitsAux fuel n []) = n ∧ (natDigitsAux fuel n []).all Peg.isDigit = true := by
  intro fuel
  induction fuel with
  | zero => intro n h; omega
  | succ fuel ih =>
    intro n h
    have hd := digit_val (n % 10) (Nat.mod_lt _ (by decide))
    unfold natDigitsAux
    split
    · rename_i hn
      simp only [dvFrom, List.foldl_cons, List.foldl_nil, Nat.mul_zero, Nat.zero_add, hd.1, List.all_cons,
        List.all_nil, Bool.and_true, hd.2.1, and_true]
      omega
    · rename_i hn
      have hlt : n / 10 < fuel := by omega
      rw [natDigitsAux_acc fuel (n / 10) _ hlt]
      obtain ⟨h1, h2⟩ := ih (n / 10) hlt
      refine ⟨?_, ?_⟩
      · simp only [dvFrom] at h1 ⊢
        rw [List.foldl_append, h1]
        simp only [List.foldl_cons, List.foldl_nil, hd.1]
        omega
      · simp [h2, hd.2.1]

theorem natDigits_val (n : Nat) : digitsVal (natDigits n) = n ∧ (natDigits n).all Peg.isDigit = true :=
  natDigitsAux_val (n + 1) n (by omega)

theorem natDigits_head (n : Nat) : ∃ c l, natDigits n = c :: l ∧ c ≠ '-' ∧ c ≠ '+' := by
  unfold natDigits natDigitsAux
  have hd := digit_val (n % 10) (Nat.mod_lt _ (by decide))
  split
  · exact ⟨_, _, rfl, hd.2.2.1, hd.2.2.2⟩
  · rename_i hn
    have hlt : n / 10 < n := by omega
    rw [natDigitsAux_acc n (n / 10) _ hlt]
    have hd' := digit_val (n / 10 % 10) (Nat.mod_lt _ (by decide))
    cases hx : natDigitsAux n (n / 10) [] with
    | nil =>
      -- impossible: a positive fuel always yields a digit
      have : n ≠ 0 := by omega
      obtain ⟨m, rfl⟩ : ∃ m, n = m + 1 := ⟨n - 1, by omega⟩
      unfold natDigitsAux at hx
      split at hx
      · cases hx
      · rename_i h2
        have hlt2 : (m + 1) / 10 / 10 < m := by omega
        rw [natDigitsAux_acc m _ _ hlt2] at hx
        simp at hx
    | cons c l =>
      refine ⟨c, l ++ [Char.ofNat (48 + n % 10)], by simp, ?_⟩
      -- the first character of a run of digits is a digit
      have hall := (natDigitsAux_val n (n / 10) hlt).2
      rw [hx] at hall
      simp only [List.all_cons, Bool.and_eq_true] at hall
      have hc := hall.1
      constructor <;> (intro h; subst h; revert hc; decide)

/-- `atoiModel` reads the decimal spelling of every int64 back -/
theorem driver_intOK (n : Int) (h1 : -9223372036854775808 ≤ n) (h2 : n ≤ 9223372036854775807) :
    intOK driverExt n := by
  unfold intOK
  show atoiModel (String.ofList (intText n)) = some n
  unfold atoiModel
  rw [String.toList_ofList]
  cases n with
  | ofNat m =>
    obtain ⟨c, l, hcl, hm, hp⟩ := natDigits_head m
    obtain ⟨hv, hall⟩ := natDigits_val m
    have hs : splitSign (intText (Int.ofNat m)) = (false, natDigits m) := by
      simp only [intText, hcl]
      unfold splitSign
      split
      · rename_i heq; cases heq; exact absurd rfl hm
      · rename_i heq; cases heq; exact absurd rfl hp
      · rfl
    rw [hs]
    have hne : (natDigits m).isEmpty = false := by rw [hcl]; rfl
    simp only [hne, hall, Bool.not_true, Bool.or_self, Bool.false_eq_true, if_false, hv]
    have h2' : (m : Int) ≤ 9223372036854775807 := h2
    have : ¬ ((m : Int) < -9223372036854775808 ∨ (m : Int) > 9223372036854775807) := by omega
    simp only [Bool.or_eq_true, decide_eq_true_eq, this, if_false]
    rfl
  | negSucc m =>
    obtain ⟨hv, hall⟩ := natDigits_val (m + 1)
    obtain ⟨c, l, hcl, _, _⟩ := natDigits_head (m + 1)
    have hs : splitSign (intText (Int.negSucc m)) = (true, natDigits (m + 1)) := rfl
    rw [hs]
    have hne : (natDigits (m + 1)).isEmpty = false := by rw [hcl]; rfl
    simp only [hne, hall, Bool.not_true, Bool.or_self, Bool.false_eq_true, if_false, hv, if_true]
    have h1' : -9223372036854775808 ≤ Int.negSucc m := h1
    have e : -((m + 1 : Nat) : Int) = Int.negSucc m := by omega
    rw [e]
    have : ¬ (Int.negSucc m < -9223372036854775808 ∨ Int.negSucc m > 9223372036854775807) := by omega
    simp only [Bool.or_eq_true, decide_eq_true_eq, this, if_false]

end JPV.PP
