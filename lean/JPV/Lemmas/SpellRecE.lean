/-
SpellRecE — recogniser lemmas for SPELLED filter queries (generalises ParsePrintRecE): literals in every
spelling, operands followed by `k` blanks, `comparator` with blanks around the operator, `basicQuery`
(parenthesised sub-query / comparison / existence test with `!` and blanks), the `&&` / `||` loops in
continuation style, `filter`, and the bracket of a filter step with its four runs of blanks. The
structural recursion that ties them together is in SpellRecF.

Everything here lives in the namespace `JPV.SP.RecE`, so that the names of the auxiliary lemmas cannot clash
with those of the sibling files SpellRecA–C (inner namespaces shadow outer ones).
-/
import JPV.Lemmas.SpellRecB
import JPV.Lemmas.SpellRecC
import JPV.Lemmas.ParsePrintRecBlank
namespace JPV.SP.RecE
open JPV.Peg JPV.PP JPV.Lex
open JPV.Print (fnText fnsText opText escRegex headChar)
open JPV.Spell (Quote Sign SInt STail SSub SName Cap SLit ChildForm WildForm Sep SStep SQuery SOperand SOpPath SPath
  litP escLitQ capTrue capFalse capNull)

variable {inp : Array Char}

/-! ### blanks -/

theorem sblanks_length (k : Nat) : (Spell.blanks k).length = k := by simp [Spell.blanks]

theorem sblanks_split (c k : Nat) (hc : c ≤ k) :
    Spell.blanks k = Spell.blanks c ++ Spell.blanks (k - c) := by
  simp only [Spell.blanks, List.replicate_append_replicate]
  congr 1; omega

/-- arithmetic on lengths of concatenations with blanks -/
macro "qlen" : tactic =>
  `(tactic| (simp only [List.length_append, List.length_cons, List.length_nil, sblanks_length] <;> omega))

/-- `c` of the `k` blanks have been consumed -/
theorem sfx_skip {p k : Nat} {r : List Char} (c : Nat) (hc : c ≤ k) (h : Sfx inp p (Spell.blanks k ++ r)) :
    Sfx inp (p + c) (Spell.blanks (k - c) ++ r) := by
  rw [sblanks_split c k hc, List.append_assoc] at h
  have := h.append
  rwa [sblanks_length] at this

theorem sfx_blanks {p k : Nat} {r : List Char} (h : Sfx inp p (Spell.blanks k ++ r)) : Sfx inp (p + k) r := by
  have := h.append
  rwa [sblanks_length] at this

/-- `space` takes the rest of a run of `k` blanks of which `c` are consumed already -/
theorem acc_space_rest {p k : Nat} {r : List Char} (c : Nat) (hc : c ≤ k) (h : Sfx inp p (Spell.blanks k ++ r))
    (hr : NoSp r) : Acc (3 + k) (.rule "space") inp (p + c) (p + k) [] :=
  ((acc_space_n (k - c) (sfx_skip c hc h) hr).mono (by omega)).cast (by omega) rfl

theorem acc_space_k {p k : Nat} {r : List Char} (h : Sfx inp p (Spell.blanks k ++ r))
    (hr : NoSp r) : Acc (3 + k) (.rule "space") inp p (p + k) [] :=
  acc_space_n k h hr

/-- the first character behind a run of blanks -/
theorem startsWith_blanks (P : Char → Bool) (b : Bool) (hsp : P ' ' = b) (k : Nat) {r : List Char}
    (hr : startsWith P r = b) : startsWith P (Spell.blanks k ++ r) = b := by
  cases k with
  | zero => exact hr
  | succ k => exact hsp

/-! ### `lNumber` on every spelling -/

theorem isLNumChar_of_isLNum (c : Char) (h : Spell.isLNum c = true) : isLNumChar c = true := by
  simp only [isLNumChar, inRanges, Spell.isLNum, Spell.isDig] at *
  generalize c.toNat = n at *
  simp at *
  omega

theorem isDigit_of_isDig (c : Char) (h : Spell.isDig c = true) : isDigit c = true := h

/-- `[0-9] [-+.0-9a-zA-Z]*` -/
theorem acc_lnum_tail (d : Char) (rest : List Char) (hd : Spell.isDig d = true)
    (hrest : rest.all Spell.isLNum = true) {p : Nat} {r : List Char}
    (h : Sfx inp p (d :: (rest ++ r))) (hr : startsWith isLNumChar r = false) :
    Acc (4 + 32 * (rest.length + 1)) (.seq (.cls false [(Char.ofNat 48, Char.ofNat 57)])
        (.star (.cls false [(Char.ofNat 45, Char.ofNat 45), (Char.ofNat 43, Char.ofNat 43), (Char.ofNat 46, Char.ofNat 46),
          (Char.ofNat 48, Char.ofNat 57), (Char.ofNat 97, Char.ofNat 122), (Char.ofNat 65, Char.ofNat 90)])))
      inp p (p + (rest.length + 1)) [] := by
  have h1 : Acc 1 (.cls false [(Char.ofNat 48, Char.ofNat 57)]) inp p (p + 1) [] :=
    acc_cls false _ h (by rw [inRanges_digit, isDigit_of_isDig d hd]; rfl)
  have h2 := acc_star_cls _ isLNumChar (fun _ => rfl) rest
    (fun c hc => isLNumChar_of_isLNum c (List.all_eq_true.mp hrest c hc)) h.tail hr
  exact ((Acc.seq h1 h2).mono (by omega)).cast (by omega) rfl

theorem numTxt_length (sg : Sign) (d : Char) (rest : List Char) :
    (sg.txt ++ d :: rest).length = sg.txt.length + (rest.length + 1) := by simp

theorem acc_lNumber_s (sg : Sign) (d : Char) (rest : List Char) (hd : Spell.isDig d = true)
    (hrest : rest.all Spell.isLNum = true) {p : Nat} {r : List Char}
    (h : Sfx inp p ((sg.txt ++ d :: rest) ++ r)) (hr : startsWith isLNumChar r = false) :
    Acc (10 + 32 * (sg.txt ++ d :: rest).length) (.rule "lNumber") inp p (p + (sg.txt ++ d :: rest).length)
      [.text p (p + (sg.txt ++ d :: rest).length), .action 40] := by
  suffices hb : Acc (6 + 32 * (sg.txt ++ d :: rest).length)
      (.seq (.opt (.cls false [(Char.ofNat 45, Char.ofNat 45), (Char.ofNat 43, Char.ofNat 43)]))
      (.seq (.cls false [(Char.ofNat 48, Char.ofNat 57)])
        (.star (.cls false [(Char.ofNat 45, Char.ofNat 45), (Char.ofNat 43, Char.ofNat 43), (Char.ofNat 46, Char.ofNat 46),
          (Char.ofNat 48, Char.ofNat 57), (Char.ofNat 97, Char.ofNat 122), (Char.ofNat 65, Char.ofNat 90)]))))
      inp p (p + (sg.txt ++ d :: rest).length) [] from
    ((Acc.rule "lNumber" lNumber_body (Acc.seq (Acc.cap hb) (acc_act 40 _))).mono (by omega)).cast rfl rfl
  rw [numTxt_length]
  cases sg with
  | pos0 =>
    have h' : Sfx inp p (d :: (rest ++ r)) := by simpa [Sign.txt] using h
    have h0 : Rej 1 (.cls false [(Char.ofNat 45, Char.ofNat 45), (Char.ofNat 43, Char.ofNat 43)]) inp p := by
      refine rej_cls false _ h' ?_
      rw [inRanges_pm, not_sign_of_digit d hd]; rfl
    have h1 := acc_lnum_tail d rest hd hrest h' hr
    exact ((Acc.seq (Acc.opt_none h0) h1).mono (by simp [Sign.txt]; omega)).cast (by simp [Sign.txt]) rfl
  | plus =>
    have h' : Sfx inp p ('+' :: d :: (rest ++ r)) := by simpa [Sign.txt] using h
    have h0 : Acc 1 (.cls false [(Char.ofNat 45, Char.ofNat 45), (Char.ofNat 43, Char.ofNat 43)]) inp p (p + 1) [] :=
      acc_cls false _ h' (by rw [inRanges_pm]; rfl)
    have h1 := acc_lnum_tail d rest hd hrest h'.tail hr
    exact ((Acc.seq (Acc.opt_some h0) h1).mono (by simp [Sign.txt]; omega)).cast (by simp [Sign.txt]; omega) rfl
  | minus =>
    have h' : Sfx inp p ('-' :: d :: (rest ++ r)) := by simpa [Sign.txt] using h
    have h0 : Acc 1 (.cls false [(Char.ofNat 45, Char.ofNat 45), (Char.ofNat 43, Char.ofNat 43)]) inp p (p + 1) [] :=
      acc_cls false _ h' (by rw [inRanges_pm]; rfl)
    have h1 := acc_lnum_tail d rest hd hrest h'.tail hr
    exact ((Acc.seq (Acc.opt_some h0) h1).mono (by simp [Sign.txt]; omega)).cast (by simp [Sign.txt]; omega) rfl

/-! ### `lBool`, `lNull` in the three spellings -/

theorem acc_true3 (c : Cap) {p : Nat} {r : List Char} (h : Sfx inp p (capTrue c ++ r)) :
    Acc 4 (.alt (.lit "true") (.alt (.lit "True") (.lit "TRUE"))) inp p (p + 4) [] := by
  cases c with
  | lower =>
    exact ((Acc.alt_l _ (acc_lit "true" ['t', 'r', 'u', 'e'] rfl (r := r) h)).mono (by omega)).cast rfl rfl
  | title =>
    exact ((Acc.alt_r (rej_lit "true" ['t', 'r', 'u', 'e'] rfl h rfl)
      (Acc.alt_l _ (acc_lit "True" ['T', 'r', 'u', 'e'] rfl (r := r) h))).mono (by omega)).cast rfl rfl
  | upper =>
    exact ((Acc.alt_r (rej_lit "true" ['t', 'r', 'u', 'e'] rfl h rfl)
      (Acc.alt_r (rej_lit "True" ['T', 'r', 'u', 'e'] rfl h rfl)
        (acc_lit "TRUE" ['T', 'R', 'U', 'E'] rfl (r := r) h))).mono (by omega)).cast rfl rfl

theorem acc_false3 (c : Cap) {p : Nat} {r : List Char} (h : Sfx inp p (capFalse c ++ r)) :
    Acc 4 (.alt (.lit "false") (.alt (.lit "False") (.lit "FALSE"))) inp p (p + 5) [] := by
  cases c with
  | lower =>
    exact ((Acc.alt_l _ (acc_lit "false" ['f', 'a', 'l', 's', 'e'] rfl (r := r) h)).mono (by omega)).cast rfl rfl
  | title =>
    exact ((Acc.alt_r (rej_lit "false" ['f', 'a', 'l', 's', 'e'] rfl h rfl)
      (Acc.alt_l _ (acc_lit "False" ['F', 'a', 'l', 's', 'e'] rfl (r := r) h))).mono (by omega)).cast rfl rfl
  | upper =>
    exact ((Acc.alt_r (rej_lit "false" ['f', 'a', 'l', 's', 'e'] rfl h rfl)
      (Acc.alt_r (rej_lit "False" ['F', 'a', 'l', 's', 'e'] rfl h rfl)
        (acc_lit "FALSE" ['F', 'A', 'L', 'S', 'E'] rfl (r := r) h))).mono (by omega)).cast rfl rfl

theorem acc_null3 (c : Cap) {p : Nat} {r : List Char} (h : Sfx inp p (capNull c ++ r)) :
    Acc 4 (.alt (.lit "null") (.alt (.lit "Null") (.lit "NULL"))) inp p (p + 4) [] := by
  cases c with
  | lower =>
    exact ((Acc.alt_l _ (acc_lit "null" ['n', 'u', 'l', 'l'] rfl (r := r) h)).mono (by omega)).cast rfl rfl
  | title =>
    exact ((Acc.alt_r (rej_lit "null" ['n', 'u', 'l', 'l'] rfl h rfl)
      (Acc.alt_l _ (acc_lit "Null" ['N', 'u', 'l', 'l'] rfl (r := r) h))).mono (by omega)).cast rfl rfl
  | upper =>
    exact ((Acc.alt_r (rej_lit "null" ['n', 'u', 'l', 'l'] rfl h rfl)
      (Acc.alt_r (rej_lit "Null" ['N', 'u', 'l', 'l'] rfl h rfl)
        (acc_lit "NULL" ['N', 'U', 'L', 'L'] rfl (r := r) h))).mono (by omega)).cast rfl rfl

theorem capTrue_length (c : Cap) : (capTrue c).length = 4 := by cases c <;> rfl
theorem capFalse_length (c : Cap) : (capFalse c).length = 5 := by cases c <;> rfl
theorem capNull_length (c : Cap) : (capNull c).length = 4 := by cases c <;> rfl

/-- the first character of `true`/`True`/`TRUE` … -/
theorem startsWith_capTrue (P : Char → Bool) (b : Bool) (h1 : P 't' = b) (h2 : P 'T' = b) (c : Cap) (r : List Char) :
    startsWith P (capTrue c ++ r) = b := by cases c <;> assumption
theorem startsWith_capFalse (P : Char → Bool) (b : Bool) (h1 : P 'f' = b) (h2 : P 'F' = b) (c : Cap) (r : List Char) :
    startsWith P (capFalse c ++ r) = b := by cases c <;> assumption
theorem startsWith_capNull (P : Char → Bool) (b : Bool) (h1 : P 'n' = b) (h2 : P 'N' = b) (c : Cap) (r : List Char) :
    startsWith P (capNull c ++ r) = b := by cases c <;> assumption

theorem acc_lBool_true_s (c : Cap) {p : Nat} {r : List Char} (h : Sfx inp p (capTrue c ++ r)) :
    Acc 8 (.rule "lBool") inp p (p + 4) [.action 41] :=
  ((Acc.rule "lBool" lBool_body (Acc.alt_l _ (Acc.seq (acc_true3 c h) (acc_act 41 _)))).mono (by omega)).cast rfl rfl

theorem acc_lBool_false_s (c : Cap) {p : Nat} {r : List Char} (h : Sfx inp p (capFalse c ++ r)) :
    Acc 8 (.rule "lBool") inp p (p + 5) [.action 42] :=
  ((Acc.rule "lBool" lBool_body (Acc.alt_r
    (Rej.seq_l _ (rej_true3 h (startsWith_capFalse _ false rfl rfl c r)))
    (Acc.seq (acc_false3 c h) (acc_act 42 _)))).mono (by omega)).cast rfl rfl

theorem acc_lNull_s (c : Cap) {p : Nat} {r : List Char} (h : Sfx inp p (capNull c ++ r)) :
    Acc 7 (.rule "lNull") inp p (p + 4) [.action 45] :=
  ((Acc.rule "lNull" lNull_body (Acc.seq (acc_null3 c h) (acc_act 45 _))).mono (by omega)).cast rfl rfl

/-! ### `lString` with either quote -/

/-- the code of the quote character -/
def qcode : Quote → Nat
  | .sq => 39
  | .dq => 34

theorem qcode_char (q : Quote) : Char.ofNat (qcode q) = q.char := by cases q <;> rfl
theorem qcode_toNat (q : Quote) : (Char.ofNat (qcode q)).toNat = qcode q := by cases q <;> decide

/-- one round of the loop of `lString` -/
def strItemQ (q : Quote) : PE :=
  .alt (.seq (.lit "\\") (.cls false [(Char.ofNat 92, Char.ofNat 92), (Char.ofNat (qcode q), Char.ofNat (qcode q))]))
    (.cls true [(Char.ofNat (qcode q), Char.ofNat (qcode q))])

theorem lString_body_q : ruleBody Gen.grammar "lString" =
    .alt (.seq (.lit "'") (.seq (.cap (.star (strItemQ .sq))) (.seq (.lit "'") (.act 43))))
      (.seq (.lit "\"") (.seq (.cap (.star (strItemQ .dq))) (.seq (.lit "\"") (.act 44)))) := rfl

def escLitQChar (q : Quote) (c : Char) : List Char := if c = q.char ∨ c = '\\' then ['\\', c] else [c]

theorem escLitQ_eq_flat (q : Quote) (s : List Char) : escLitQ q s = flat (escLitQChar q) s := by
  induction s with
  | nil => rfl
  | cons c s ih =>
    have : escLitQ q (c :: s) = escLitQChar q c ++ escLitQ q s := by simp [escLitQ, escLitQChar]
    rw [this, ih]; rfl

/-- the loop of `lString` over the escaped body, in front of the closing quote -/
theorem acc_str_loop_q (q : Quote) (s : List Char) {p : Nat} {r : List Char}
    (h : Sfx inp p (escLitQ q s ++ q.char :: r)) :
    Acc (5 + 32 * (escLitQ q s).length) (.star (strItemQ q)) inp p (p + (escLitQ q s).length) [] := by
  rw [escLitQ_eq_flat] at h ⊢
  refine ((acc_star_items (inp := inp) (strItemQ q) (escLitQChar q) (fun _ _ => []) (fun _ => True) (fun _ => True)
    4 3 (q.char :: r) trivial ?_ ?_ ?_ ?_ s p (fun _ _ => trivial) h).mono (by omega)).cast rfl (toksStar_nil _ _ _)
  · intro _ _ _; trivial
  · intro c _; unfold escLitQChar; split <;> simp
  · intro c r' pos _ _ hs
    by_cases hc : c = q.char ∨ c = '\\'
    · simp only [escLitQChar, if_pos hc, List.cons_append, List.nil_append] at hs ⊢
      have a1 := acc_lit1 "\\" '\\' rfl hs
      have a2 : Acc 1 (.cls false [(Char.ofNat 92, Char.ofNat 92), (Char.ofNat (qcode q), Char.ofNat (qcode q))]) inp
          (pos + 1) (pos + 1 + 1) [] := by
        refine acc_cls false _ hs.tail ?_
        rw [inRanges_two c 92 (qcode q) (by decide) (qcode_toNat q), qcode_char]
        rcases hc with rfl | rfl
        · simp
        · simp
      exact ((Acc.alt_l _ (Acc.seq a1 a2)).mono (by simp)).cast (by simp) rfl
    · have hc1 : c ≠ q.char := fun h => hc (.inl h)
      have hc2 : c ≠ '\\' := fun h => hc (.inr h)
      simp only [escLitQChar, if_neg hc, List.cons_append, List.nil_append] at hs ⊢
      have r1 := rej_lit1 "\\" '\\' [] rfl hs (by simp [startsWith, hc2])
      have a2 : Acc 1 (.cls true [(Char.ofNat (qcode q), Char.ofNat (qcode q))]) inp pos (pos + 1) [] := by
        refine acc_cls true _ hs ?_
        rw [inRanges_one c (qcode q) (qcode_toNat q), qcode_char]
        have : (c == q.char) = false := by simpa using hc1
        rw [this]; rfl
      exact ((Acc.alt_r (Rej.seq_l _ r1) a2).mono (by simp)).cast (by simp) rfl
  · intro pos hs
    have r1 := rej_lit1 "\\" '\\' [] rfl hs (by cases q <;> rfl)
    have r2 : Rej 1 (.cls true [(Char.ofNat (qcode q), Char.ofNat (qcode q))]) inp pos :=
      rej_cls true _ hs (by rw [inRanges_one _ (qcode q) (qcode_toNat q), qcode_char]; simp)
    exact (Rej.alt (Rej.seq_l _ r1) r2).mono (by omega)

theorem acc_lString_s (q : Quote) (s : List Char) {p : Nat} {r : List Char}
    (h : Sfx inp p (q.char :: (escLitQ q s ++ q.char :: r))) :
    Acc (13 + 32 * (escLitQ q s).length) (.rule "lString") inp p (p + 1 + (escLitQ q s).length + 1)
      [.text (p + 1) (p + 1 + (escLitQ q s).length), .action (strAct q)] := by
  have a2 := acc_str_loop_q q s h.tail
  cases q with
  | sq =>
    have a1 := acc_lit1 "'" '\'' rfl h
    have a3 := acc_lit1 "'" '\'' rfl h.tail.append
    exact ((Acc.rule "lString" lString_body_q (Acc.alt_l _ (Acc.seq a1 (Acc.seq (Acc.cap a2)
      (Acc.seq a3 (acc_act 43 _)))))).mono (by omega)).cast rfl (by simp [strAct])
  | dq =>
    have r0 := rej_lit1 "'" '\'' [] rfl h rfl
    have a1 := acc_lit1 "\"" '"' rfl h
    have a3 := acc_lit1 "\"" '"' rfl h.tail.append
    exact ((Acc.rule "lString" lString_body_q (Acc.alt_r (Rej.seq_l _ r0) (Acc.seq a1 (Acc.seq (Acc.cap a2)
      (Acc.seq a3 (acc_act 44 _)))))).mono (by omega)).cast rfl (by simp [strAct])

/-! ### `qLiteral` -/

theorem litP_num_length (n : Int) (sg : Sign) (d : Char) (rest : List Char) :
    (litP (.num n sg d rest)).length = (sg.txt ++ d :: rest).length := rfl

theorem acc_qLiteral_s (l : SLit) (hwf : l.wf = true) {p : Nat} {r : List Char} (h : Sfx inp p (litP l ++ r))
    (hr : startsWith isLNumChar r = false) :
    Acc (18 + 32 * (litP l).length) (.rule "qLiteral") inp p (p + (litP l).length) (tkLitS p l) := by
  refine (Acc.rule "qLiteral" qLiteral_body (Fa := 17 + 32 * (litP l).length) ?_).mono (by omega)
  cases l with
  | num n sg d rest =>
    simp only [SLit.wf, Bool.and_eq_true] at hwf
    simp only [litP] at h ⊢
    exact (Acc.alt_l _ (acc_lNumber_s sg d rest hwf.1 hwf.2 h hr)).mono (by omega)
  | bool b c =>
    cases b with
    | true =>
      simp only [litP] at h ⊢
      have r1 := rej_lNumber h (startsWith_capTrue _ false rfl rfl c r)
      exact ((Acc.alt_r r1 (Acc.alt_l _ (acc_lBool_true_s c h))).mono (by omega)).cast
        (by rw [capTrue_length]) rfl
    | false =>
      simp only [litP] at h ⊢
      have r1 := rej_lNumber h (startsWith_capFalse _ false rfl rfl c r)
      exact ((Acc.alt_r r1 (Acc.alt_l _ (acc_lBool_false_s c h))).mono (by omega)).cast
        (by rw [capFalse_length]) rfl
  | str q s =>
    simp only [litP, List.cons_append, List.append_assoc, List.nil_append] at h ⊢
    have r1 := rej_lNumber h (by cases q <;> rfl)
    have r2 := rej_lBool h (by cases q <;> rfl)
    refine ((Acc.alt_r r1 (Acc.alt_r r2 (Acc.alt_l _ (acc_lString_s q s.toList h)))).mono ?_).cast ?_ rfl
    · qlen
    · qlen
  | null c =>
    simp only [litP] at h ⊢
    have r1 := rej_lNumber h (startsWith_capNull _ false rfl rfl c r)
    have r2 := rej_lBool h (startsWith_capNull _ false rfl rfl c r)
    have r3 := rej_lString h (startsWith_capNull _ false rfl rfl c r)
    exact ((Acc.alt_r r1 (Acc.alt_r r2 (Acc.alt_r r3 (acc_lNull_s c h)))).mono (by omega)).cast
      (by rw [capNull_length]) rfl

/-- a literal starts with a literal-start character, never with a blank, `=`, `$`, `@` … -/
theorem startsWith_litP (P : Char → Bool) (b : Bool) (hP : ∀ c, isLitStart c = true → P c = b)
    (l : SLit) (hwf : l.wf = true) (r : List Char) : startsWith P (litP l ++ r) = b := by
  cases l with
  | num n sg d rest =>
    simp only [SLit.wf, Bool.and_eq_true] at hwf
    cases sg with
    | pos0 => exact hP d (by simp [isLitStart, isNumStart, isDigit_of_isDig d hwf.1])
    | plus => exact hP '+' (by decide)
    | minus => exact hP '-' (by decide)
  | bool b' c => cases b' <;> cases c <;> exact hP _ (by decide)
  | str q s => cases q <;> exact hP _ (by decide)
  | null c => cases c <;> exact hP _ (by decide)

/-! ### paths as operands: `jsonpathFilter`, `singleJsonpathFilter` -/

theorem acc_jsonpathFilter_s (q : SOpPath) (hq : OPathHyp inp q) (k : Nat) {p : Nat} {r : List Char}
    (h : Sfx inp p (Spell.opath q ++ (Spell.blanks k ++ r))) (hr : PathStop r) :
    Acc (123 + 32 * ((Spell.opath q).length + k)) (.rule "jsonpathFilter") inp p (p + (Spell.opath q).length + k)
      (.action 38 :: (tkOPathS p q ++ [.action 39])) :=
  ((Acc.rule "jsonpathFilter" jsonpathFilter_body
    (Acc.seq (acc_act 38 _) (Acc.seq (acc_opath q hq k h hr) (acc_act 39 _)))).mono (by omega)).cast rfl (by simp)

/-- the tokens of `singleJsonpathFilter` -/
def tkSJFS (k : Nat) (p : Nat) (q : SOpPath) : List Tok :=
  .action 38 :: (tkOPathS p q ++ [.action 39, .text p (p + (Spell.opath q).length + k), .action 37])

theorem tkOperandS_path (k : Nat) (ord : Bool) (p : Nat) (q : SOpPath) :
    tkOperandS k ord p (.path q) = tkSJFS k p q := by
  simp only [tkOperandS, tkSJFS]

theorem tkOperandS_lit (k : Nat) (ord : Bool) (p : Nat) (l : SLit) :
    tkOperandS k ord p (.lit l) = tkLitS p l ++ [.action (if ord then 36 else 35)] := by
  simp only [tkOperandS]

theorem acc_sjf_s (q : SOpPath) (hq : OPathHyp inp q) (k : Nat) {p : Nat} {r : List Char}
    (h : Sfx inp p (Spell.opath q ++ (Spell.blanks k ++ r))) (hr : PathStop r) :
    Acc (126 + 32 * ((Spell.opath q).length + k)) (.rule "singleJsonpathFilter") inp p
      (p + (Spell.opath q).length + k) (tkSJFS k p q) :=
  ((Acc.rule "singleJsonpathFilter" sjf_body
    (Acc.seq (Acc.cap (acc_jsonpathFilter_s q hq k h hr)) (acc_act 37 _))).mono (by omega)).cast rfl
      (by simp [tkSJFS])

theorem opath_cons (q : SOpPath) : ∃ hd l, Spell.opath q = headChar hd :: l := by
  cases q with
  | mk hd ss fns => exact ⟨hd, Spell.steps ss ++ fnsText fns, by simp only [Spell.opath]⟩

theorem startsWith_opath (P : Char → Bool) (b : Bool) (h1 : P '$' = b) (h2 : P '@' = b)
    (q : SOpPath) (r : List Char) : startsWith P (Spell.opath q ++ r) = b := by
  obtain ⟨hd, l, hq⟩ := opath_cons q
  rw [hq]
  cases hd
  · exact h1
  · exact h2

theorem opath_length_pos (q : SOpPath) : 1 ≤ (Spell.opath q).length := by
  obtain ⟨hd, l, hq⟩ := opath_cons q
  rw [hq]; simp

theorem operand_lit (l : SLit) : Spell.operand (.lit l) = litP l := by simp only [Spell.operand]
theorem operand_path (q : SOpPath) : Spell.operand (.path q) = Spell.opath q := by simp only [Spell.operand]

theorem operandWf_lit {ord : Bool} {l : SLit} (h : Spell.operandWf ord (.lit l) = true) : l.wf = true := by
  simp only [Spell.operandWf, Bool.and_eq_true] at h
  exact h.1

theorem operandWf_false_of {ord : Bool} {o : SOperand} (h : Spell.operandWf ord o = true) :
    Spell.operandWf false o = true := by
  cases o with
  | lit l =>
    have := operandWf_lit h
    simp only [Spell.operandWf, this, Bool.not_false, Bool.true_or, Bool.and_self]
  | path q =>
    simp only [Spell.operandWf] at h ⊢
    exact h

theorem startsWith_soperand (P : Char → Bool) (b : Bool) (hP : ∀ c, isLitStart c = true → P c = b)
    (h1 : P '$' = b) (h2 : P '@' = b) (o : SOperand) (ord : Bool) (hwf : Spell.operandWf ord o = true)
    (r : List Char) : startsWith P (Spell.operand o ++ r) = b := by
  cases o with
  | lit l => rw [operand_lit]; exact startsWith_litP P b hP l (operandWf_lit hwf) r
  | path q => rw [operand_path]; exact startsWith_opath P b h1 h2 q r

/-- a property of the first character of an operand that fails for every possible first character -/
theorem soperand_first_not (P : Char → Bool) (hd : ∀ c, isDigit c = true → P c = false)
    (h : P '-' = false ∧ P '+' = false ∧ P 't' = false ∧ P 'T' = false ∧ P 'f' = false ∧ P 'F' = false ∧
      P '\'' = false ∧ P '"' = false ∧ P 'n' = false ∧ P 'N' = false ∧ P '$' = false ∧ P '@' = false)
    (o : SOperand) (ord : Bool) (hwf : Spell.operandWf ord o = true) (r : List Char) :
    startsWith P (Spell.operand o ++ r) = false := by
  refine startsWith_soperand P false ?_ h.2.2.2.2.2.2.2.2.2.2.1 h.2.2.2.2.2.2.2.2.2.2.2 o ord hwf r
  intro c hc
  rcases isLitStart_cases c hc with hc | rfl | rfl | rfl | rfl | rfl | rfl | rfl | rfl | rfl | rfl
  · exact hd c hc
  all_goals simp only [h]

theorem noSp_soperand (o : SOperand) (ord : Bool) (hwf : Spell.operandWf ord o = true) (r : List Char) :
    NoSp (Spell.operand o ++ r) := by
  rw [noSp_iff]
  exact soperand_first_not _ (by intro c hc; simp; intro h; subst h; revert hc; decide) (by decide) o ord hwf r

theorem soperand_length_pos (o : SOperand) (ord : Bool) (hwf : Spell.operandWf ord o = true) :
    1 ≤ (Spell.operand o).length := by
  have := startsWith_soperand (fun _ => true) true (fun _ _ => rfl) rfl rfl o ord hwf []
  cases hx : Spell.operand o with
  | nil => rw [hx] at this; cases this
  | cons c l => simp

theorem soperand_not_eq (o : SOperand) (ord : Bool) (hwf : Spell.operandWf ord o = true) (r : List Char) :
    startsWith (fun d => d == '=') (Spell.operand o ++ r) = false :=
  soperand_first_not _ (by intro c hc; simp; intro h; subst h; revert hc; decide) (by decide) o ord hwf r

theorem soperand_not_paren (o : SOperand) (ord : Bool) (hwf : Spell.operandWf ord o = true) (r : List Char) :
    startsWith (fun d => d == '(') (Spell.operand o ++ r) = false :=
  soperand_first_not _ (by intro c hc; simp; intro h; subst h; revert hc; decide) (by decide) o ord hwf r

/-! ### `qParam`, `qNumericParam` on an operand followed by `k` blanks -/

theorem capO_le (k : Nat) (o : SOperand) : capO k o ≤ k := by cases o <;> simp [capO]

theorem blanks_noLNum (k : Nat) {r : List Char} (hr : PathStop r) :
    startsWith isLNumChar (Spell.blanks k ++ r) = false :=
  startsWith_blanks _ false rfl k hr.noLNum

theorem operandHyp_path {q : SOpPath} (h : OperandHyp inp (.path q)) : OPathHyp inp q := h

theorem acc_qParam_s (o : SOperand) (ho : OperandHyp inp o) (hwf : Spell.operandWf false o = true) (k : Nat)
    {p : Nat} {r : List Char} (h : Sfx inp p (Spell.operand o ++ (Spell.blanks k ++ r))) (hr : PathStop r) :
    Acc (128 + 32 * ((Spell.operand o).length + k)) (.rule "qParam") inp p
      (p + (Spell.operand o).length + capO k o) (tkOperandS k false p o) := by
  cases o with
  | lit l =>
    rw [operand_lit] at h ⊢
    rw [tkOperandS_lit]
    exact ((Acc.rule "qParam" qParam_body (Acc.alt_l _ (Acc.seq
      (acc_qLiteral_s l (operandWf_lit hwf) h (blanks_noLNum k hr)) (acc_act 35 _)))).mono
      (by omega)).cast (by simp [capO]) (by simp)
  | path q =>
    rw [operand_path] at h ⊢
    rw [tkOperandS_path]
    have r1 := rej_qLiteral h (startsWith_opath _ false (by decide) (by decide) q _)
    exact ((Acc.rule "qParam" qParam_body (Acc.alt_r (Rej.seq_l _ r1) (acc_sjf_s q ho k h hr))).mono
      (by omega)).cast (by simp [capO]) rfl

theorem acc_qNumericParam_s (o : SOperand) (ho : OperandHyp inp o) (hwf : Spell.operandWf true o = true) (k : Nat)
    {p : Nat} {r : List Char} (h : Sfx inp p (Spell.operand o ++ (Spell.blanks k ++ r))) (hr : PathStop r) :
    Acc (128 + 32 * ((Spell.operand o).length + k)) (.rule "qNumericParam") inp p
      (p + (Spell.operand o).length + capO k o) (tkOperandS k true p o) := by
  cases o with
  | lit l =>
    rw [operand_lit] at h ⊢
    rw [tkOperandS_lit]
    cases l with
    | num n sg d rest =>
      have hw := operandWf_lit hwf
      simp only [SLit.wf, Bool.and_eq_true] at hw
      simp only [litP] at h ⊢
      exact ((Acc.rule "qNumericParam" qNumericParam_body
        (Acc.alt_l _ (Acc.seq (acc_lNumber_s sg d rest hw.1 hw.2 h (blanks_noLNum k hr)) (acc_act 36 _)))).mono
        (by omega)).cast (by simp [capO]) (by simp [tkLitS, litP])
    | bool b c => simp [Spell.operandWf, SLit.isNum] at hwf
    | str q s => simp [Spell.operandWf, SLit.isNum] at hwf
    | null c => simp [Spell.operandWf, SLit.isNum] at hwf
  | path q =>
    rw [operand_path] at h ⊢
    rw [tkOperandS_path]
    have r1 := rej_lNumber h (startsWith_opath _ false (by decide) (by decide) q _)
    exact ((Acc.rule "qNumericParam" qNumericParam_body (Acc.alt_r (Rej.seq_l _ r1) (acc_sjf_s q ho k h hr))).mono
      (by omega)).cast (by simp [capO]) rfl

/-! ### `comparator` -/

/-- `'op' space param {i}` with `br` blanks behind the operator -/
theorem acc_opRhs_s (s : String) (cs : List Char) (hs : s.toList = cs) (par : String) (i : Nat) {F : Nat}
    {p br e : Nat} {body : List Char} {T : List Tok}
    (h : Sfx inp p (cs ++ (Spell.blanks br ++ body))) (hsp : NoSp body)
    (ha : Acc F (.rule par) inp (p + cs.length + br) e T) :
    Acc (F + 5 + br) (opRhs s par i) inp p e (T ++ [.action i]) :=
  ((Acc.seq (acc_lit s cs hs h) (Acc.seq (acc_space_k h.append hsp) (Acc.seq ha (acc_act i _)))).mono
    (by omega)).cast rfl (by simp)

/-- the shape of the input at the right operand of a comparison -/
theorem sfx_rhs {p : Nat} {cs : List Char} {br : Nat} {t : List Char}
    (h : Sfx inp p (cs ++ (Spell.blanks br ++ t))) : Sfx inp (p + cs.length + br) t :=
  sfx_blanks h.append

/-- `==` / `!=`, blanks, and the right operand followed by `k` blanks -/
theorem acc_cmpEq_s (op : CmpOp) (hop : Print.isOrd op = false) (br : Nat) (o : SOperand) (ho : OperandHyp inp o)
    (hwf : Spell.operandWf false o = true) (k : Nat) {p : Nat} {rest : List Char}
    (h : Sfx inp p (opText op ++ (Spell.blanks br ++ (Spell.operand o ++ (Spell.blanks k ++ rest)))))
    (hrest : PathStop rest) :
    Acc (134 + 32 * (br + ((Spell.operand o).length + k))) cmpEq inp p
      (p + (opText op).length + br + (Spell.operand o).length + capO k o)
      (tkOperandS k false (p + (opText op).length + br) o ++ [.action (opAction op)]) := by
  have hsp := noSp_soperand o false hwf (Spell.blanks k ++ rest)
  cases op with
  | eq =>
    have a1 := acc_qParam_s o ho hwf k (sfx_rhs h) hrest
    exact (Acc.alt_l _ (acc_opRhs_s "==" ['=', '='] rfl "qParam" 28 h hsp a1)).mono (by omega)
  | ne =>
    have a1 := acc_qParam_s o ho hwf k (sfx_rhs h) hrest
    exact (Acc.alt_r (rej_opRhs "==" ['=', '='] rfl "qParam" 28 h rfl)
      (acc_opRhs_s "!=" ['!', '='] rfl "qParam" 29 h hsp a1)).mono (by omega)
  | lt => cases hop
  | le => cases hop
  | gt => cases hop
  | ge => cases hop

/-- nothing but `=` makes `<=` out of `<` -/
theorem blanks_not_eq (br : Nat) {t : List Char} (ht : startsWith (fun d => d == '=') t = false) :
    startsWith (fun d => d == '=') (Spell.blanks br ++ t) = false :=
  startsWith_blanks _ false rfl br ht

/-- `<=` / `<` / `>=` / `>`, blanks, and the right operand followed by `k` blanks -/
theorem acc_cmpOrd_s (op : CmpOp) (hop : Print.isOrd op = true) (br : Nat) (o : SOperand) (ho : OperandHyp inp o)
    (hwf : Spell.operandWf true o = true) (k : Nat) {p : Nat} {rest : List Char}
    (h : Sfx inp p (opText op ++ (Spell.blanks br ++ (Spell.operand o ++ (Spell.blanks k ++ rest)))))
    (hrest : PathStop rest) :
    Acc (137 + 32 * (br + ((Spell.operand o).length + k))) cmpOrd inp p
      (p + (opText op).length + br + (Spell.operand o).length + capO k o)
      (tkOperandS k true (p + (opText op).length + br) o ++ [.action (opAction op)]) := by
  have hsp := noSp_soperand o true hwf (Spell.blanks k ++ rest)
  have hne := blanks_not_eq br (soperand_not_eq o true hwf (Spell.blanks k ++ rest))
  have a1 := acc_qNumericParam_s o ho hwf k (sfx_rhs h) hrest
  cases op with
  | eq => cases hop
  | ne => cases hop
  | le =>
    exact (Acc.alt_l _ (acc_opRhs_s "<=" ['<', '='] rfl "qNumericParam" 30 h hsp a1)).mono (by omega)
  | lt =>
    exact (Acc.alt_r (rej_opRhs "<=" ['<', '='] rfl "qNumericParam" 30 h (not_prefix2 '<' '=' hne))
      (Acc.alt_l _ (acc_opRhs_s "<" ['<'] rfl "qNumericParam" 31 h hsp a1))).mono (by omega)
  | ge =>
    exact (Acc.alt_r (rej_opRhs "<=" ['<', '='] rfl "qNumericParam" 30 h rfl)
      (Acc.alt_r (rej_opRhs "<" ['<'] rfl "qNumericParam" 31 h rfl)
        (Acc.alt_l _ (acc_opRhs_s ">=" ['>', '='] rfl "qNumericParam" 32 h hsp a1)))).mono (by omega)
  | gt =>
    exact (Acc.alt_r (rej_opRhs "<=" ['<', '='] rfl "qNumericParam" 30 h rfl)
      (Acc.alt_r (rej_opRhs "<" ['<'] rfl "qNumericParam" 31 h rfl)
        (Acc.alt_r (rej_opRhs ">=" ['>', '='] rfl "qNumericParam" 32 h (not_prefix2 '>' '=' hne))
          (acc_opRhs_s ">" ['>'] rfl "qNumericParam" 33 h hsp a1)))).mono (by omega)

/-- the first alternative gives up behind the left operand and its blanks when neither `==` nor `!=` follows -/
theorem rej_cmpAlt1_s (o : SOperand) (ho : OperandHyp inp o) (hwf : Spell.operandWf false o = true) (k : Nat)
    {p : Nat} {r : List Char} (h : Sfx inp p (Spell.operand o ++ (Spell.blanks k ++ r))) (hr : PathStop r)
    (h1 : ['=', '='].isPrefixOf r = false) (h2 : ['!', '='].isPrefixOf r = false) :
    Rej (130 + 32 * ((Spell.operand o).length + k)) cmpAlt1 inp p := by
  have hb := sfx_blanks h.append
  have a2 : Acc (3 + k) (.rule "space") inp (p + (Spell.operand o).length + capO k o)
      (p + (Spell.operand o).length + k) [] := acc_space_rest (capO k o) (capO_le k o) h.append hr.noSp
  exact (Rej.seq_r (acc_qParam_s o ho hwf k h hr) (Rej.seq_r a2
    (Rej.alt (rej_opRhs "==" ['=', '='] rfl "qParam" 28 hb h1)
      (rej_opRhs "!=" ['!', '='] rfl "qParam" 29 hb h2)))).mono (by omega)

/-- the second alternative gives up behind the left operand and its blanks when neither `<` nor `>` follows -/
theorem rej_cmpAlt2_s (o : SOperand) (ho : OperandHyp inp o) (hwf : Spell.operandWf true o = true) (k : Nat)
    {p : Nat} {r : List Char} (h : Sfx inp p (Spell.operand o ++ (Spell.blanks k ++ r))) (hr : PathStop r)
    (hno : startsWith (fun c => c == '<' || c == '>') r = false) :
    Rej (130 + 32 * ((Spell.operand o).length + k)) cmpAlt2 inp p := by
  have hlt : startsWith (fun c => c == '<') r = false :=
    startsWith_false_of_imp (by intro c hc; simp at hc; simp [hc]) hno
  have hgt : startsWith (fun c => c == '>') r = false :=
    startsWith_false_of_imp (by intro c hc; simp at hc; simp [hc]) hno
  have h' := sfx_blanks h.append
  have a2 : Acc (3 + k) (.rule "space") inp (p + (Spell.operand o).length + capO k o)
      (p + (Spell.operand o).length + k) [] := acc_space_rest (capO k o) (capO_le k o) h.append hr.noSp
  exact (Rej.seq_r (acc_qNumericParam_s o ho hwf k h hr) (Rej.seq_r a2
    (Rej.alt (rej_opRhs "<=" ['<', '='] rfl "qNumericParam" 30 h' (not_prefix_of_startsWith '<' _ hlt))
    (Rej.alt (rej_opRhs "<" ['<'] rfl "qNumericParam" 31 h' (not_prefix_of_startsWith '<' _ hlt))
    (Rej.alt (rej_opRhs ">=" ['>', '='] rfl "qNumericParam" 32 h' (not_prefix_of_startsWith '>' _ hgt))
      (rej_opRhs ">" ['>'] rfl "qNumericParam" 33 h' (not_prefix_of_startsWith '>' _ hgt))))))).mono (by omega)

/-- the length of a spelled comparison -/
def cmpLen (op : CmpOp) (l : SOperand) (bl br : Nat) (r : SOperand) : Nat :=
  (Spell.operand l).length + bl + (opText op).length + br + (Spell.operand r).length

theorem query_cmp (op : CmpOp) (l : SOperand) (bl br : Nat) (r : SOperand) :
    Spell.query (.cmp op l bl br r) =
      Spell.operand l ++ (Spell.blanks bl ++ (opText op ++ (Spell.blanks br ++ Spell.operand r))) := by
  simp only [Spell.query]

theorem query_cmp_length (op : CmpOp) (l : SOperand) (bl br : Nat) (r : SOperand) :
    (Spell.query (.cmp op l bl br r)).length = cmpLen op l bl br r := by
  rw [query_cmp]; unfold cmpLen; qlen

/-- `l op r` with blanks around the operator, followed by `k` blanks -/
theorem acc_comparator_cmp_s (op : CmpOp) (l r : SOperand) (bl br : Nat) (hl : OperandHyp inp l) (hr : OperandHyp inp r)
    (hwl : Spell.operandWf (Print.isOrd op) l = true) (hwr : Spell.operandWf (Print.isOrd op) r = true) (k : Nat)
    {p : Nat} {rest : List Char}
    (h : Sfx inp p (Spell.operand l ++ (Spell.blanks bl ++ (opText op ++ (Spell.blanks br ++
      (Spell.operand r ++ (Spell.blanks k ++ rest))))))) (hrest : PathStop rest) :
    Acc (142 + 32 * (cmpLen op l bl br r + k)) (.rule "comparator") inp p
      (p + cmpLen op l bl br r + capO k r)
      (tkOperandS bl (Print.isOrd op) p l ++
        (tkOperandS k (Print.isOrd op) (p + (Spell.operand l).length + bl + (opText op).length + br) r ++
          [.action (opAction op)])) := by
  have hstop : PathStop (opText op ++ (Spell.blanks br ++ (Spell.operand r ++ (Spell.blanks k ++ rest)))) := by
    cases op <;> exact .inr rfl
  have hpos := opText_length_pos op
  have hb := sfx_blanks h.append
  have a2 : Acc (3 + bl) (.rule "space") inp (p + (Spell.operand l).length + capO bl l)
      (p + (Spell.operand l).length + bl) [] := acc_space_rest (capO bl l) (capO_le bl l) h.append hstop.noSp
  unfold cmpLen
  cases hop : Print.isOrd op with
  | false =>
    rw [hop] at hwl hwr
    have a1 := acc_qParam_s l hl hwl bl h hstop
    have a3 := acc_cmpEq_s op hop br r hr hwr k hb hrest
    refine ((Acc.rule "comparator" comparator_body (Acc.alt_l _ (Acc.seq a1 (Acc.seq a2 a3)))).mono ?_).cast ?_ ?_
    · omega
    · omega
    · simp
  | true =>
    rw [hop] at hwl hwr
    have r1 := rej_cmpAlt1_s l hl (operandWf_false_of hwl) bl h hstop (by cases op <;> first | rfl | cases hop)
      (by cases op <;> first | rfl | cases hop)
    have a1 := acc_qNumericParam_s l hl hwl bl h hstop
    have a3 := acc_cmpOrd_s op hop br r hr hwr k hb hrest
    refine ((Acc.rule "comparator" comparator_body
      (Acc.alt_r r1 (Acc.alt_l _ (Acc.seq a1 (Acc.seq a2 a3))))).mono ?_).cast ?_ ?_
    · omega
    · omega
    · simp

/-! ### what follows a basic query -/

theorem opathWf_of_hyp {q : SOpPath} (hq : OPathHyp inp q) : Spell.opathWf q = true := by
  cases q with
  | mk hd ss fns => exact hq.1

theorem pathOperandWf_s (q : SOpPath) (hq : OPathHyp inp q) (ord : Bool) : Spell.operandWf ord (.path q) = true := by
  simp only [Spell.operandWf]; exact opathWf_of_hyp hq

/-- `comparator` fails on a path that is followed by blanks and `)`, `&&` or `||` -/
theorem rej_comparator_path_s (q : SOpPath) (hq : OPathHyp inp q) (k : Nat) {p : Nat} {r : List Char}
    (h : Sfx inp p (Spell.opath q ++ (Spell.blanks k ++ r))) (hr : QStop r) :
    Rej (133 + 32 * ((Spell.opath q).length + k)) (.rule "comparator") inp p := by
  have hps := hr.pathStop
  obtain ⟨c, r', rfl, hc⟩ := hr.cases
  have h1 : ['=', '='].isPrefixOf (c :: r') = false := by rcases hc with rfl | rfl | rfl <;> rfl
  have h2 : ['!', '='].isPrefixOf (c :: r') = false := by rcases hc with rfl | rfl | rfl <;> rfl
  have h3 : ['=', '~'].isPrefixOf (c :: r') = false := by rcases hc with rfl | rfl | rfl <;> rfl
  have h4 : startsWith (fun c => c == '<' || c == '>') (c :: r') = false := by
    rcases hc with rfl | rfl | rfl <;> rfl
  have h' : Sfx inp p (Spell.operand (.path q) ++ (Spell.blanks k ++ c :: r')) := by rw [operand_path]; exact h
  have r1 := rej_cmpAlt1_s (.path q) hq (pathOperandWf_s q hq false) k h' hps h1 h2
  have r2 := rej_cmpAlt2_s (.path q) hq (pathOperandWf_s q hq true) k h' hps h4
  rw [operand_path] at r1 r2
  have hb := sfx_blanks h.append
  have r3 : Rej (130 + 32 * ((Spell.opath q).length + k)) cmpAlt3 inp p :=
    (Rej.seq_r (acc_sjf_s q hq k h hps) (Rej.seq_r (acc_space hb hps.noSp)
      (Rej.seq_l _ (rej_lit "=~" ['=', '~'] rfl hb h3)))).mono (by omega)
  exact (Rej.rule "comparator" comparator_body (Rej.alt r1 (Rej.alt r2 r3))).mono (by omega)

/-- the length of a spelled regular-expression match -/
def regexLen (q : SOpPath) (bl br : Nat) (re : List Char) : Nat :=
  (Spell.opath q).length + bl + 2 + br + 1 + re.length + 1

/-- `q =~ /re/` -/
theorem acc_comparator_regex_s (q : SOpPath) (hq : OPathHyp inp q) (bl br : Nat) (re : List Char)
    (hre : ∀ c ∈ re, c ≠ '/' ∧ c ≠ '\\') {p : Nat} {rest : List Char}
    (h : Sfx inp p (Spell.opath q ++ (Spell.blanks bl ++ '=' :: '~' :: (Spell.blanks br ++ '/' :: (re ++ '/' :: rest))))) :
    Acc (142 + 32 * regexLen q bl br re) (.rule "comparator") inp p (p + regexLen q bl br re)
      (tkSJFS bl p q ++ [.text (p + (Spell.opath q).length + bl + 2 + br + 1)
        (p + (Spell.opath q).length + bl + 2 + br + 1 + re.length), .action 34]) := by
  have hps : PathStop ('=' :: '~' :: (Spell.blanks br ++ '/' :: (re ++ '/' :: rest))) := .inr rfl
  have h' : Sfx inp p (Spell.operand (.path q) ++
      (Spell.blanks bl ++ '=' :: '~' :: (Spell.blanks br ++ '/' :: (re ++ '/' :: rest)))) := by
    rw [operand_path]; exact h
  have r1 := rej_cmpAlt1_s (.path q) hq (pathOperandWf_s q hq false) bl h' hps rfl rfl
  have r2 := rej_cmpAlt2_s (.path q) hq (pathOperandWf_s q hq true) bl h' hps rfl
  rw [operand_path] at r1 r2
  have a1 := acc_sjf_s q hq bl h hps
  have h1 := sfx_blanks h.append
  have a2 := acc_space h1 hps.noSp
  have a3 := acc_lit "=~" ['=', '~'] rfl h1
  have h2 := h1.tail.tail
  have a4 := acc_space_k h2 (noSp_cons (by decide) _)
  have h3 := sfx_blanks h2
  have a5 := acc_lit1 "/" '/' rfl h3
  have h4 := h3.tail
  have a6 := Acc.cap (Acc.rule "regex" regex_body (acc_regex_loop re hre h4))
  have a7 := acc_lit1 "/" '/' rfl h4.append
  unfold regexLen
  refine ((Acc.rule "comparator" comparator_body (Acc.alt_r r1 (Acc.alt_r r2
    (Acc.seq a1 (Acc.seq a2 (Acc.seq a3 (Acc.seq a4 (Acc.seq a5 (Acc.seq a6 (Acc.seq a7 (acc_act 34 _))))))))))).mono
      ?_).cast ?_ ?_
  · omega
  · omega
  · simp [Nat.add_assoc]

/-! ### equations of the printer and of the token lists -/

theorem query_or (a : SQuery) (l r : Nat) (b : SQuery) : Spell.query (.or a l r b) =
    Spell.query a ++ (Spell.blanks l ++ '|' :: '|' :: (Spell.blanks r ++ Spell.query b)) := by
  simp only [Spell.query]
theorem query_and (a : SQuery) (l r : Nat) (b : SQuery) : Spell.query (.and a l r b) =
    Spell.query a ++ (Spell.blanks l ++ '&' :: '&' :: (Spell.blanks r ++ Spell.query b)) := by
  simp only [Spell.query]
theorem query_exist_none (q : SOpPath) : Spell.query (.exist none q) = Spell.opath q := by
  simp only [Spell.query]
theorem query_exist_some (j : Nat) (q : SOpPath) :
    Spell.query (.exist (some j) q) = '!' :: (Spell.blanks j ++ Spell.opath q) := by
  simp only [Spell.query]
theorem query_regex (q : SOpPath) (bl br : Nat) (re : String) : Spell.query (.regex q bl br re) =
    Spell.opath q ++ (Spell.blanks bl ++ '=' :: '~' :: (Spell.blanks br ++ '/' :: (escRegex re.toList ++ ['/']))) := by
  simp only [Spell.query]
theorem query_paren (l : Nat) (q : SQuery) (r : Nat) : Spell.query (.paren l q r) =
    '(' :: (Spell.blanks l ++ (Spell.query q ++ (Spell.blanks r ++ [')']))) := by
  simp only [Spell.query]

theorem tkQS_or (k p : Nat) (a : SQuery) (l r : Nat) (b : SQuery) : tkQS k p (.or a l r b) =
    tkQS l p a ++ (tkQS k (p + (Spell.query a).length + l + 2 + r) b ++ [.action 24]) := by
  simp only [tkQS]
theorem tkQS_and (k p : Nat) (a : SQuery) (l r : Nat) (b : SQuery) : tkQS k p (.and a l r b) =
    tkQS l p a ++ (tkQS k (p + (Spell.query a).length + l + 2 + r) b ++ [.action 25]) := by
  simp only [tkQS]
theorem tkQS_exist (k p : Nat) (neg : Option Nat) (q : SOpPath) : tkQS k p (.exist neg q) =
    .action 38 :: (tkOPathS (p + negLen neg) q ++
      [.action 39, .text p (p + (Spell.query (.exist neg q)).length + k), .action 27]) := by
  simp only [tkQS]
theorem tkQS_cmp (k p : Nat) (op : CmpOp) (l : SOperand) (bl br : Nat) (r : SOperand) :
    tkQS k p (.cmp op l bl br r) =
      tkOperandS bl (isOrdOp op) p l ++
        (tkOperandS k (isOrdOp op) (p + (Spell.operand l).length + bl + (opText op).length + br) r ++
          [.action (opAction op), .text p (p + (Spell.query (.cmp op l bl br r)).length + capO k r), .action 26]) := by
  simp only [tkQS]
theorem tkQS_regex (k p : Nat) (q : SOpPath) (bl br : Nat) (re : String) : tkQS k p (.regex q bl br re) =
    .action 38 :: (tkOPathS p q ++
      [.action 39, .text p (p + (Spell.opath q).length + bl), .action 37,
       .text (p + (Spell.opath q).length + bl + 2 + br + 1)
         (p + (Spell.opath q).length + bl + 2 + br + 1 + (escRegex re.toList).length), .action 34,
       .text p (p + (Spell.query (.regex q bl br re)).length), .action 26]) := by
  simp only [tkQS]
theorem tkQS_paren (k p : Nat) (l : Nat) (q : SQuery) (r : Nat) :
    tkQS k p (.paren l q r) = tkQS r (p + 1 + l) q := by
  simp only [tkQS]

theorem capQ_or (k : Nat) (a : SQuery) (l r : Nat) (b : SQuery) : capQ k (.or a l r b) = capQ k b := by
  simp only [capQ]
theorem capQ_and (k : Nat) (a : SQuery) (l r : Nat) (b : SQuery) : capQ k (.and a l r b) = capQ k b := by
  simp only [capQ]

theorem capQ_le (k : Nat) : (q : SQuery) → capQ k q ≤ k
  | .or a l r b => by rw [capQ_or]; exact capQ_le k b
  | .and a l r b => by rw [capQ_and]; exact capQ_le k b
  | .exist _ _ => by simp only [capQ]; exact Nat.le_refl k
  | .cmp _ _ _ _ r => by simp only [capQ]; exact capO_le k r
  | .regex _ _ _ _ => by simp only [capQ]; exact Nat.zero_le k
  | .paren _ _ _ => by simp only [capQ]; exact Nat.zero_le k

/-! ### `basicQuery` on the basic forms -/

theorem acc_basic_cmp_s (op : CmpOp) (l r : SOperand) (bl br : Nat) (hl : OperandHyp inp l) (hr : OperandHyp inp r)
    (hwl : Spell.operandWf (Print.isOrd op) l = true) (hwr : Spell.operandWf (Print.isOrd op) r = true) (k : Nat)
    {p : Nat} {rest : List Char}
    (h : Sfx inp p (Spell.query (.cmp op l bl br r) ++ (Spell.blanks k ++ rest))) (hrest : QStop rest) :
    Acc (150 + 32 * ((Spell.query (.cmp op l bl br r)).length + k)) (.rule "basicQuery") inp p
      (p + (Spell.query (.cmp op l bl br r)).length + capQ k (.cmp op l bl br r)) (tkQS k p (.cmp op l bl br r)) := by
  rw [tkQS_cmp, query_cmp_length]
  rw [query_cmp] at h
  simp only [List.append_assoc] at h
  have r1 := rej_subQuery h (soperand_not_paren l _ hwl _)
  have a2 := acc_comparator_cmp_s op l r bl br hl hr hwl hwr k h hrest.pathStop
  refine ((Acc.rule "basicQuery" basicQuery_body (Acc.alt_r r1 (Acc.alt_l _
    (Acc.seq (Acc.cap a2) (acc_act 26 _))))).mono ?_).cast ?_ ?_
  · omega
  · simp only [capQ]
  · simp only [isOrdOp_eq, List.append_assoc, List.cons_append, List.nil_append]

theorem regex_length_s (q : SOpPath) (bl br : Nat) (re : String) (hre : Print.regexOK re = true) :
    (Spell.query (.regex q bl br re)).length = regexLen q bl br re.toList := by
  rw [query_regex, escRegex_ok _ hre]; unfold regexLen; qlen

theorem acc_basic_regex_s (q : SOpPath) (hq : OPathHyp inp q) (bl br : Nat) (re : String)
    (hre : Print.regexOK re = true) (k : Nat) {p : Nat} {rest : List Char}
    (h : Sfx inp p (Spell.query (.regex q bl br re) ++ (Spell.blanks k ++ rest))) :
    Acc (150 + 32 * ((Spell.query (.regex q bl br re)).length + k)) (.rule "basicQuery") inp p
      (p + (Spell.query (.regex q bl br re)).length + capQ k (.regex q bl br re)) (tkQS k p (.regex q bl br re)) := by
  have hlen := regex_length_s q bl br re hre
  rw [tkQS_regex, hlen]
  rw [query_regex, escRegex_ok _ hre] at h
  simp only [List.append_assoc, List.cons_append, List.nil_append] at h
  have r1 := rej_subQuery h (startsWith_opath _ false (by decide) (by decide) q _)
  have a2 := acc_comparator_regex_s q hq bl br re.toList (regexOK_chars hre) h
  refine ((Acc.rule "basicQuery" basicQuery_body (Acc.alt_r r1 (Acc.alt_l _
    (Acc.seq (Acc.cap a2) (acc_act 26 _))))).mono ?_).cast ?_ ?_
  · omega
  · simp only [capQ]; omega
  · simp only [escRegex_ok _ hre, tkSJFS]
    simp

/-- `p` / `! p` followed by `k` blanks -/
theorem acc_basic_exist_s (neg : Option Nat) (q : SOpPath) (hq : OPathHyp inp q) (k : Nat)
    {p : Nat} {rest : List Char} (h : Sfx inp p (Spell.query (.exist neg q) ++ (Spell.blanks k ++ rest)))
    (hrest : QStop rest) :
    Acc (150 + 32 * ((Spell.query (.exist neg q)).length + k)) (.rule "basicQuery") inp p
      (p + (Spell.query (.exist neg q)).length + capQ k (.exist neg q)) (tkQS k p (.exist neg q)) := by
  rw [tkQS_exist]
  cases neg with
  | none =>
    rw [query_exist_none] at h ⊢
    have r1 := rej_subQuery h (startsWith_opath _ false (by decide) (by decide) q _)
    have r2 := rej_comparator_path_s q hq k h hrest
    have r3 := logicNot_rej h (startsWith_opath _ false (by decide) (by decide) q _)
    have a4 := acc_jsonpathFilter_s q hq k h hrest.pathStop
    refine ((Acc.rule "basicQuery" basicQuery_body (Acc.alt_r r1 (Acc.alt_r (Rej.seq_l _ (Rej.cap r2))
      (Acc.seq (Acc.cap (Acc.seq (Acc.opt_none r3) a4)) (acc_act 27 _))))).mono ?_).cast ?_ ?_
    · omega
    · simp only [capQ]
    · simp [negLen]
  | some j =>
    rw [query_exist_some] at h ⊢
    simp only [List.cons_append, List.append_assoc] at h
    have r1 := rej_subQuery h rfl
    have r2 := rej_comparator_start h rfl
    have a3 : Acc (6 + j) (.rule "logicNot") inp p (p + 1 + j) [] :=
      ((Acc.rule "logicNot" logicNot_body (Acc.seq (acc_lit1 "!" '!' rfl h)
        (acc_space_k h.tail (noSp_iff _ |>.mpr (startsWith_opath _ false (by decide) (by decide) q _))))).mono
        (by omega)).cast rfl rfl
    have a4 := acc_jsonpathFilter_s q hq k (sfx_blanks h.tail) hrest.pathStop
    refine ((Acc.rule "basicQuery" basicQuery_body (Acc.alt_r r1 (Acc.alt_r (Rej.seq_l _ (Rej.cap r2))
      (Acc.seq (Acc.cap (Acc.seq (Acc.opt_some a3) a4)) (acc_act 27 _))))).mono ?_).cast ?_ ?_
    · qlen
    · simp only [capQ]; qlen
    · simp [negLen, sblanks_length, Nat.add_assoc, Nat.add_comm, Nat.add_left_comm]

/-! ### `&&` and `||` with blanks around them -/

theorem acc_logicAnd_s {p0 l c r : Nat} {t : List Char} (hc : c ≤ l)
    (h : Sfx inp p0 (Spell.blanks l ++ '&' :: '&' :: (Spell.blanks r ++ t))) (ht : NoSp t) :
    Acc (8 + l + r) (.rule "logicAnd") inp (p0 + c) (p0 + l + 2 + r) [] := by
  have h1 := sfx_blanks h
  have a1 := acc_space_rest c hc h (noSp_cons (by decide) _)
  have a2 := acc_lit "&&" ['&', '&'] rfl h1
  have a3 := acc_space_k h1.tail.tail ht
  exact ((Acc.rule "logicAnd" logicAnd_body (Acc.seq a1 (Acc.seq a2 a3))).mono (by omega)).cast rfl rfl

theorem acc_logicOr_s {p0 l c r : Nat} {t : List Char} (hc : c ≤ l)
    (h : Sfx inp p0 (Spell.blanks l ++ '|' :: '|' :: (Spell.blanks r ++ t))) (ht : NoSp t) :
    Acc (8 + l + r) (.rule "logicOr") inp (p0 + c) (p0 + l + 2 + r) [] := by
  have h1 := sfx_blanks h
  have a1 := acc_space_rest c hc h (noSp_cons (by decide) _)
  have a2 := acc_lit "||" ['|', '|'] rfl h1
  have a3 := acc_space_k h1.tail.tail ht
  exact ((Acc.rule "logicOr" logicOr_body (Acc.seq a1 (Acc.seq a2 a3))).mono (by omega)).cast rfl rfl

theorem rej_logicAnd_s {p0 j c : Nat} {t : List Char} (hc : c ≤ j) (h : Sfx inp p0 (Spell.blanks j ++ t))
    (ht : startsWith (fun c => c == ' ' || c == '&') t = false) : Rej (6 + j) (.rule "logicAnd") inp (p0 + c) :=
  (Rej.rule "logicAnd" logicAnd_body (Rej.seq_r
    (acc_space_rest c hc h (noSp_of (P := fun c => c == ' ' || c == '&') rfl ht))
    (Rej.seq_l _ (rej_lit1 "&&" '&' ['&'] rfl (sfx_blanks h)
      (startsWith_false_of_imp (by intro c hc; simp at hc; simp [hc]) ht))))).mono (by omega)

theorem rej_logicOr_s {p0 j c : Nat} {t : List Char} (hc : c ≤ j) (h : Sfx inp p0 (Spell.blanks j ++ t))
    (ht : startsWith (fun c => c == ' ' || c == '|') t = false) : Rej (6 + j) (.rule "logicOr") inp (p0 + c) :=
  (Rej.rule "logicOr" logicOr_body (Rej.seq_r
    (acc_space_rest c hc h (noSp_of (P := fun c => c == ' ' || c == '|') rfl ht))
    (Rej.seq_l _ (rej_lit1 "||" '|' ['|'] rfl (sfx_blanks h)
      (startsWith_false_of_imp (by intro c hc; simp at hc; simp [hc]) ht))))).mono (by omega)

/-- the `&&` loop stops in front of blanks and `)` or `||` -/
theorem acc_and_end_s {p0 j c : Nat} {r : List Char} (hc : c ≤ j) (h : Sfx inp p0 (Spell.blanks j ++ r))
    (hr : Q0Stop r) : Acc (8 + j) (.star andItem) inp (p0 + c) (p0 + c) [] :=
  (Acc.star_nil (Rej.seq_l _ (rej_logicAnd_s hc h hr.noAnd))).mono (by omega)

/-- the `||` loop stops in front of blanks and `)` -/
theorem acc_or_end_s {p0 j c : Nat} {r : List Char} (hc : c ≤ j) (h : Sfx inp p0 (Spell.blanks j ++ ')' :: r)) :
    Acc (8 + j) (.star orItem) inp (p0 + c) (p0 + c) [] :=
  (Acc.star_nil (Rej.seq_l _ (rej_logicOr_s hc h rfl))).mono (by omega)

/-! ### the three levels of a query, in continuation style -/

/-- `basicQuery` accepts a query of level 2 followed by `k` blanks -/
def P2S (inp : Array Char) (q : SQuery) : Prop :=
  ∀ (k p : Nat) (r : List Char), Sfx inp p (Spell.query q ++ (Spell.blanks k ++ r)) → QStop r →
    Acc (150 + 32 * ((Spell.query q).length + k)) (.rule "basicQuery") inp p
      (p + (Spell.query q).length + capQ k q) (tkQS k p q)

/-- the body of `andQuery` accepts a query of level ≥ 1 followed by whatever further rounds of the `&&` loop
    accept (the loop starts behind the blanks the query has taken itself) -/
def P1S (inp : Array Char) (q : SQuery) : Prop :=
  ∀ (k p : Nat) (r : List Char), Sfx inp p (Spell.query q ++ (Spell.blanks k ++ r)) → QStop r →
    ∀ (Fk p'' : Nat) (T : List Tok), Acc Fk (.star andItem) inp (p + (Spell.query q).length + capQ k q) p'' T →
      Acc (max (160 + 32 * ((Spell.query q).length + k)) (Fk + (Spell.query q).length)) andBody inp p p''
        (tkQS k p q ++ T)

/-- the body of `query` accepts any query followed by whatever further rounds of the `||` loop accept -/
def P0S (inp : Array Char) (q : SQuery) : Prop :=
  ∀ (k p : Nat) (r : List Char), Sfx inp p (Spell.query q ++ (Spell.blanks k ++ r)) → Q0Stop r →
    ∀ (Fk p'' : Nat) (T : List Tok), Acc Fk (.star orItem) inp (p + (Spell.query q).length + capQ k q) p'' T →
      Acc (max (170 + 32 * ((Spell.query q).length + k)) (Fk + (Spell.query q).length)) orBody inp p p''
        (tkQS k p q ++ T)

theorem queryWf_or {a b : SQuery} {l r : Nat} (h : Spell.queryWf (.or a l r b) = true) :
    Spell.queryWf a = true ∧ Spell.queryWf b = true ∧ 1 ≤ Spell.level b := by
  simpa [Spell.queryWf, and_assoc] using h

theorem queryWf_and {a b : SQuery} {l r : Nat} (h : Spell.queryWf (.and a l r b) = true) :
    Spell.queryWf a = true ∧ Spell.queryWf b = true ∧ 1 ≤ Spell.level a ∧ 2 ≤ Spell.level b := by
  simpa [Spell.queryWf, and_assoc] using h

theorem queryWf_cmp {op : CmpOp} {l r : SOperand} {bl br : Nat} (h : Spell.queryWf (.cmp op l bl br r) = true) :
    Spell.operandWf (Print.isOrd op) l = true ∧ Spell.operandWf (Print.isOrd op) r = true := by
  simpa [Spell.queryWf] using h

/-- no spelled query starts with a blank -/
theorem query_noSp : (q : SQuery) → Spell.queryWf q = true → (r : List Char) → NoSp (Spell.query q ++ r)
  | .or a l r' b, hwf, r => by
    rw [query_or, List.append_assoc]; exact query_noSp a (queryWf_or hwf).1 _
  | .and a l r' b, hwf, r => by
    rw [query_and, List.append_assoc]; exact query_noSp a (queryWf_and hwf).1 _
  | .exist none q, _, r => by
    rw [query_exist_none, noSp_iff]; exact startsWith_opath _ false (by decide) (by decide) q r
  | .exist (some j) q, _, r => by
    rw [query_exist_some]; exact noSp_cons (by decide) _
  | .cmp op l bl br r', hwf, r => by
    rw [query_cmp, List.append_assoc]; exact noSp_soperand l _ (queryWf_cmp hwf).1 _
  | .regex q bl br re, _, r => by
    rw [query_regex, List.append_assoc, noSp_iff]; exact startsWith_opath _ false (by decide) (by decide) q _
  | .paren l q r', _, r => by
    rw [query_paren]; exact noSp_cons (by decide) _

theorem litP_length_pos (l : SLit) : 1 ≤ (litP l).length := by
  cases l with
  | num n sg d rest => rw [litP_num_length, numTxt_length]; omega
  | bool b c => cases b <;> simp only [litP, capTrue_length, capFalse_length] <;> omega
  | str q s => simp [litP]
  | null c => simp only [litP, capNull_length]; omega

theorem soperand_length_pos' (o : SOperand) : 1 ≤ (Spell.operand o).length := by
  cases o with
  | lit l => rw [operand_lit]; exact litP_length_pos l
  | path q => rw [operand_path]; exact opath_length_pos q

theorem query_length_pos (q : SQuery) : 1 ≤ (Spell.query q).length := by
  cases q with
  | or a l r b => rw [query_or]; qlen
  | and a l r b => rw [query_and]; qlen
  | exist neg q =>
    have := opath_length_pos q
    cases neg with
    | none => rw [query_exist_none]; exact this
    | some j => rw [query_exist_some]; qlen
  | cmp op l bl br r => have := soperand_length_pos' l; rw [query_cmp]; qlen
  | regex q bl br re => have := opath_length_pos q; rw [query_regex]; qlen
  | paren l q r => rw [query_paren]; qlen

/-! ### glue between the levels -/

/-- a basic query as the first operand of an `&&` chain -/
theorem p1_of_p2_s (q : SQuery) (h2 : P2S inp q) : P1S inp q := by
  intro k p r h hr Fk p'' T hk
  have hpos := query_length_pos q
  exact (Acc.seq (h2 k p r h hr) hk).mono (by omega)

/-- `a && b` -/
theorem p1_and_s (a b : SQuery) (l r : Nat) (hwb : Spell.queryWf b = true) (ha : P1S inp a) (hb : P2S inp b) :
    P1S inp (.and a l r b) := by
  intro k p rest h hr Fk p'' T hk
  have hposa := query_length_pos a
  rw [capQ_and] at hk
  rw [query_and] at h hk ⊢
  rw [tkQS_and]
  simp only [List.append_assoc, List.cons_append] at h
  have h1 := h.append
  have a1 := acc_logicAnd_s (capQ_le l a) h1 (query_noSp b hwb _)
  have h2 : Sfx inp (p + (Spell.query a).length + l + 2 + r) (Spell.query b ++ (Spell.blanks k ++ rest)) :=
    sfx_blanks (sfx_blanks h1).tail.tail
  have a2 := hb k _ rest h2 hr
  have hk' : Acc Fk (.star andItem) inp
      (p + (Spell.query a).length + l + 2 + r + (Spell.query b).length + capQ k b) p'' T :=
    hk.cast_start (by qlen)
  have item := Acc.seq a1 (Acc.seq a2 (acc_act 25 _))
  have loop := Acc.star_cons item hk'
  have := ha l p _ h rfl _ _ _ loop
  refine (this.mono ?_).cast rfl ?_
  · qlen
  · simp

/-- a query of level ≥ 1 as the first operand of an `||` chain -/
theorem p0_of_p1_s (q : SQuery) (h1 : P1S inp q) : P0S inp q := by
  intro k p r h hr Fk p'' T hk
  have hpos := query_length_pos q
  have hend := acc_and_end_s (capQ_le k q) h.append hr
  have a1 := Acc.rule "andQuery" andQuery_body (h1 k p r h hr.qStop _ _ _ hend)
  refine ((Acc.seq a1 hk).mono ?_).cast rfl ?_
  · omega
  · simp

/-- `a || b` -/
theorem p0_or_s (a b : SQuery) (l r : Nat) (hwb : Spell.queryWf b = true) (ha : P0S inp a) (hb : P1S inp b) :
    P0S inp (.or a l r b) := by
  intro k p rest h hr Fk p'' T hk
  have hposa := query_length_pos a
  have hposb := query_length_pos b
  rw [capQ_or] at hk
  rw [query_or] at h hk ⊢
  rw [tkQS_or]
  simp only [List.append_assoc, List.cons_append] at h
  have h1 := h.append
  have a1 := acc_logicOr_s (capQ_le l a) h1 (query_noSp b hwb _)
  have h2 : Sfx inp (p + (Spell.query a).length + l + 2 + r) (Spell.query b ++ (Spell.blanks k ++ rest)) :=
    sfx_blanks (sfx_blanks h1).tail.tail
  have a2 := Acc.rule "andQuery" andQuery_body
    (hb k _ rest h2 hr.qStop _ _ _ (acc_and_end_s (capQ_le k b) h2.append hr))
  have hk' : Acc Fk (.star orItem) inp
      (p + (Spell.query a).length + l + 2 + r + (Spell.query b).length + capQ k b) p'' T :=
    hk.cast_start (by qlen)
  have item := Acc.seq a1 (Acc.seq a2 (acc_act 24 _))
  have loop := Acc.star_cons item hk'
  have := ha l p _ h rfl _ _ _ loop
  refine (this.mono ?_).cast rfl ?_
  · qlen
  · simp

/-- `( q )` as a basic query -/
theorem acc_paren_s (q : SQuery) (l r : Nat) (hwf : Spell.queryWf q = true) (h0 : P0S inp q) {p : Nat} {rest : List Char}
    (h : Sfx inp p ('(' :: (Spell.blanks l ++ (Spell.query q ++ (Spell.blanks r ++ ')' :: rest))))) :
    Acc (180 + 32 * (l + (Spell.query q).length + r)) (.rule "basicQuery") inp p
      (p + 1 + l + (Spell.query q).length + r + 1) (tkQS r (p + 1 + l) q) := by
  have hpos := query_length_pos q
  have a1 : Acc (6 + l) (.rule "subQueryStart") inp p (p + 1 + l) [] :=
    ((Acc.rule "subQueryStart" subQueryStart_body (Acc.seq (acc_lit1 "(" '(' rfl h)
      (acc_space_k h.tail (query_noSp q hwf _)))).mono (by omega)).cast rfl rfl
  have h2 := sfx_blanks h.tail
  have hb := h2.append
  have hc := capQ_le r q
  have a2 := Acc.rule "query" query_body (h0 r (p + 1 + l) _ h2 rfl _ _ _ (acc_or_end_s hc hb))
  have a3 : Acc (6 + r) (.rule "subQueryEnd") inp (p + 1 + l + (Spell.query q).length + capQ r q)
      (p + 1 + l + (Spell.query q).length + r + 1) [] :=
    ((Acc.rule "subQueryEnd" subQueryEnd_body (Acc.seq (acc_space_rest (capQ r q) hc hb (noSp_cons (by decide) _))
      (acc_lit1 ")" ')' rfl (sfx_blanks hb)))).mono (by omega)).cast rfl rfl
  refine ((Acc.rule "basicQuery" basicQuery_body (Acc.alt_l _ (Acc.seq a1 (Acc.seq a2 a3)))).mono ?_).cast rfl ?_
  · omega
  · simp

/-- a parenthesised query is a basic query -/
theorem p2_paren_s (q : SQuery) (l r : Nat) (hwf : Spell.queryWf q = true) (h0 : P0S inp q) :
    P2S inp (.paren l q r) := by
  intro k p rest h hr
  rw [tkQS_paren]
  rw [query_paren] at h ⊢
  simp only [List.append_assoc, List.cons_append, List.nil_append] at h
  refine ((acc_paren_s q l r hwf h0 h).mono ?_).cast ?_ rfl
  · qlen
  · simp only [capQ]; qlen

/-! ### `filter` and the bracket of a filter step -/

theorem acc_filter_s (q : SQuery) (b1 b2 : Nat) (hwf : Spell.queryWf q = true) (h0 : P0S inp q) {p : Nat} {rest : List Char}
    (h : Sfx inp p ('?' :: '(' :: (Spell.blanks b1 ++ (Spell.query q ++ (Spell.blanks b2 ++ ')' :: rest))))) :
    Acc (182 + 32 * (b1 + (Spell.query q).length + b2)) (.rule "filter") inp p
      (p + 2 + b1 + (Spell.query q).length + b2 + 1) (tkQS b2 (p + 2 + b1) q ++ [.action 23]) := by
  have hpos := query_length_pos q
  have a1 : Acc (6 + b1) (.rule "filterStart") inp p (p + 2 + b1) [] :=
    ((Acc.rule "filterStart" filterStart_body (Acc.seq
      (acc_lit "?(" ['?', '('] rfl (r := Spell.blanks b1 ++ (Spell.query q ++ (Spell.blanks b2 ++ ')' :: rest))) h)
      (acc_space_k h.tail.tail (query_noSp q hwf _)))).mono (by omega)).cast rfl rfl
  have h2 : Sfx inp (p + 2 + b1) (Spell.query q ++ (Spell.blanks b2 ++ ')' :: rest)) := sfx_blanks h.tail.tail
  have hb := h2.append
  have hc := capQ_le b2 q
  have a2 := Acc.rule "query" query_body (h0 b2 (p + 2 + b1) _ h2 rfl _ _ _ (acc_or_end_s hc hb))
  have a3 : Acc (6 + b2) (.rule "filterEnd") inp (p + 2 + b1 + (Spell.query q).length + capQ b2 q)
      (p + 2 + b1 + (Spell.query q).length + b2 + 1) [] :=
    ((Acc.rule "filterEnd" filterEnd_body (Acc.seq (acc_space_rest (capQ b2 q) hc hb (noSp_cons (by decide) _))
      (acc_lit1 ")" ')' rfl (sfx_blanks hb)))).mono (by omega)).cast rfl rfl
  refine ((Acc.rule "filter" filter_body (Acc.seq a1 (Acc.seq a2 (Acc.seq a3 (acc_act 23 _))))).mono ?_).cast rfl ?_
  · omega
  · simp

/-- the inside of the bracket of a filter step -/
def filterInner (b1 : Nat) (q : SQuery) (b2 : Nat) : List Char :=
  '?' :: '(' :: (Spell.blanks b1 ++ (Spell.query q ++ (Spell.blanks b2 ++ [')'])))

theorem step_filter (ad : Bool) (b0 b1 : Nat) (q : SQuery) (b2 b3 : Nat) :
    Spell.step ad (.filter b0 b1 q b2 b3) = Spell.brP b0 (filterInner b1 q b2) b3 := by
  simp [Spell.step, Spell.brP, filterInner]

theorem filterInner_length (b1 : Nat) (q : SQuery) (b2 : Nat) :
    (filterInner b1 q b2).length = 2 + b1 + (Spell.query q).length + b2 + 1 := by
  unfold filterInner; qlen

theorem brP_length (lb : Nat) (inner : List Char) (rb : Nat) :
    (Spell.brP lb inner rb).length = 1 + lb + inner.length + rb + 1 := by
  unfold Spell.brP; qlen

/-- the bracket of a filter step -/
theorem recBracketFilterS_of_p0 (b0 b1 : Nat) (q : SQuery) (b2 b3 : Nat) (hwf : Spell.queryWf q = true)
    (h0 : P0S inp q) : RecBracketFilterS inp b0 b1 q b2 b3 := by
  intro ad p r h
  have ht : tkStepS ad p (.filter b0 b1 q b2 b3) = (tkQS b2 (p + 1 + b0 + 2 + b1) q ++ [.action 23]) ++
      [.text p (p + (Spell.step ad (.filter b0 b1 q b2 b3)).length), .action 7] := by
    simp only [tkStepS, List.append_assoc, List.cons_append, List.nil_append]
  rw [ht]
  rw [step_filter] at h ⊢
  have hin : Sfx inp (p + 1 + b0) ('?' :: '(' :: (Spell.blanks b1 ++ (Spell.query q ++
      (Spell.blanks b2 ++ ')' :: (Spell.blanks b3 ++ ']' :: r))))) := by
    have h' : Sfx inp p ('[' :: (Spell.blanks b0 ++ ('?' :: '(' :: (Spell.blanks b1 ++ (Spell.query q ++
        (Spell.blanks b2 ++ ')' :: (Spell.blanks b3 ++ ']' :: r))))))) := by
      simpa [Spell.brP, filterInner] using h
    exact sfx_blanks h'.tail
  have r1 := rej_bci_start hin rfl
  have a2 := acc_filter_s q b1 b2 hwf h0 hin
  have aq := Acc.rule "qualifier" qualifier_body (Acc.alt_r (rej_union_q hin) (Acc.alt_r (rej_script_q hin) a2))
  have ain : Acc (186 + 32 * (b1 + (Spell.query q).length + b2))
      (.alt (.rule "bracketChildIdentifier") (.rule "qualifier")) inp
      (p + 1 + b0) (p + 1 + b0 + (filterInner b1 q b2).length + 0) (tkQS b2 (p + 1 + b0 + 2 + b1) q ++ [.action 23]) :=
    ((Acc.alt_r r1 aq).mono (by omega)).cast (by rw [filterInner_length]; omega) rfl
  refine (acc_bracketNode_b b0 (filterInner b1 q b2) b3 0 _ h (noSp_cons (by decide) _) (Nat.zero_le _) ain).mono ?_
  rw [brP_length, filterInner_length]; omega

end JPV.SP.RecE
