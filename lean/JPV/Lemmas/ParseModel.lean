/-
Lemmas about `parseModel`: where the `unrecognized input` error comes from.
-/
import JPV.Lemmas.GrammarFacts
import JPV.Lemmas.Actions
namespace JPV.Peg

theorem Reason.msg_unrec (r : Reason) (h : r.msg = "unrecognized input") : r = .unrecognizedInput := by
  cases r with
  | unrecognizedInput => rfl
  | twoCurrentNode => exact absurd h (by decide)
  | filterValueGroup => exact absurd h (by decide)

/-- Only Action1 raises `unrecognized input`, and it reports the begin of the capture `< .* >`,
    which is where `jsonpath?` stopped. -/
theorem unrec_position (c : Ctx) (f p pos : Nat) (toks : List Tok)
    (hrun : run Gen.grammar f (ruleBody Gen.grammar "expression") c.input 0 = .ok p toks)
    (hex : execFrom c {} toks = .error (.syntaxErr pos .unrecognizedInput)) :
    ∃ f' t1, run Gen.grammar f' exprAlt1 c.input 0 = .fail ∧
      run Gen.grammar f' (.opt (.rule "jsonpath")) c.input 0 = .ok pos t1 := by
  rw [expression_body] at hrun
  obtain ⟨f1, rfl⟩ := run_ok_fuel hrun
  rcases run_alt_inv hrun with h1 | ⟨hfail, h2⟩
  · -- the first alternative matched: its tokens contain no Action1
    have hclean := run_clean (inp := c.input) grammar_clean f1 exprAlt1 0 p toks (by decide) h1
    have hno : Tok.action 1 ∉ toks := by
      intro hm
      have := hclean 1 hm
      simp at this
    exact False.elim ((execFrom_nu c toks {} hno).elim _ hex)
  · -- the second alternative
    unfold exprAlt2 at h2
    obtain ⟨f2, rfl⟩ := run_ok_fuel h2
    obtain ⟨p1, t1, t2, hopt, hrest, rfl⟩ := run_seq_inv h2
    obtain ⟨f3, rfl⟩ := run_ok_fuel hrest
    obtain ⟨p2, t3, t4, hcap, hend, rfl⟩ := run_seq_inv hrest
    obtain ⟨f4, rfl⟩ := run_ok_fuel hcap
    obtain ⟨ts, hstar, rfl⟩ := run_cap_inv hcap
    obtain ⟨p3, t5, t6, hE, hA, rfl⟩ := run_seq_inv hend
    obtain ⟨f5, rfl⟩ := run_ok_fuel hE
    rw [run_rule, end_body] at hE
    obtain ⟨f6, rfl⟩ := run_ok_fuel hE
    obtain ⟨rfl, rfl⟩ := run_not_inv hE
    obtain ⟨rfl, rfl⟩ := run_act_inv hA
    have hts : ts = [] := (star_any_end _ _ _ _ hstar).2.2
    subst hts
    -- the tokens of `jsonpath?` contain no Action1
    have hclean := run_clean (inp := c.input) grammar_clean _ (.opt (.rule "jsonpath")) 0 p1 t1
      (by decide) hopt
    have hno : Tok.action 1 ∉ t1 := by
      intro hm
      have := hclean 1 hm
      simp at this
    rw [execFrom_append] at hex
    cases hx : execFrom c {} t1 with
    | error e =>
      rw [hx] at hex
      change Except.error e = Except.error _ at hex
      cases hex
      exact False.elim ((execFrom_nu c t1 {} hno).elim _ hx)
    | ok st1 =>
      rw [hx] at hex
      change execFrom c st1 (([] ++ [Tok.text p1 p]) ++ ([] ++ [Tok.action 1])) = _ at hex
      change (Except.error (Stop.syntaxErr p1 Reason.unrecognizedInput) : M St) = _ at hex
      cases hex
      refine ⟨f6 + 1 + 1 + 1 + 1 + 1, t1, hfail, ?_⟩
      rw [run_succ _ _ _ (by rw [hopt]; simp), hopt]

end JPV.Peg
