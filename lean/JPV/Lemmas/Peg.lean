/-
Lemmas about the PEG interpreter: one unfolding equation per constructor, fuel monotonicity,
expressions that cannot fail, where `.*` ends.
-/
import JPV.Peg.Peg
namespace JPV.Peg

variable {g : Grammar} {inp : Array Char}

/-! ### unfolding equations -/

theorem run_zero (e : PE) (pos : Nat) : run g 0 e inp pos = .outOfFuel := by
  cases e <;> rfl

theorem run_lit (f : Nat) (s : String) (pos : Nat) :
    run g (f + 1) (.lit s) inp pos =
      if matchLit inp s.toList pos then .ok (pos + s.length) [] else .fail := rfl

theorem run_cls (f : Nat) (neg : Bool) (rs : List (Char × Char)) (pos : Nat) :
    run g (f + 1) (.cls neg rs) inp pos =
      match inp[pos]? with
      | some c => if inRanges c rs != neg then .ok (pos + 1) [] else .fail
      | none => .fail := rfl

theorem run_any (f : Nat) (pos : Nat) :
    run g (f + 1) .any inp pos = if pos < inp.size then .ok (pos + 1) [] else .fail := rfl

theorem run_seq (f : Nat) (a b : PE) (pos : Nat) :
    run g (f + 1) (.seq a b) inp pos =
      match run g f a inp pos with
      | .ok p t =>
        match run g f b inp p with
        | .ok p' t' => .ok p' (t ++ t')
        | r => r
      | r => r := rfl

theorem run_alt (f : Nat) (a b : PE) (pos : Nat) :
    run g (f + 1) (.alt a b) inp pos =
      match run g f a inp pos with
      | .fail => run g f b inp pos
      | r => r := rfl

theorem run_star (f : Nat) (a : PE) (pos : Nat) :
    run g (f + 1) (.star a) inp pos =
      match run g f a inp pos with
      | .fail => .ok pos []
      | .outOfFuel => .outOfFuel
      | .ok p t =>
        match run g f (.star a) inp p with
        | .ok p' t' => .ok p' (t ++ t')
        | r => r := rfl

theorem run_plus (f : Nat) (a : PE) (pos : Nat) :
    run g (f + 1) (.plus a) inp pos =
      match run g f a inp pos with
      | .ok p t =>
        match run g f (.star a) inp p with
        | .ok p' t' => .ok p' (t ++ t')
        | r => r
      | r => r := rfl

theorem run_opt (f : Nat) (a : PE) (pos : Nat) :
    run g (f + 1) (.opt a) inp pos =
      match run g f a inp pos with
      | .fail => .ok pos []
      | r => r := rfl

theorem run_not (f : Nat) (a : PE) (pos : Nat) :
    run g (f + 1) (.not a) inp pos =
      match run g f a inp pos with
      | .fail => .ok pos []
      | .ok _ _ => .fail
      | .outOfFuel => .outOfFuel := rfl

theorem run_and (f : Nat) (a : PE) (pos : Nat) :
    run g (f + 1) (.and a) inp pos =
      match run g f a inp pos with
      | .ok _ _ => .ok pos []
      | r => r := rfl

theorem run_rule (f : Nat) (name : String) (pos : Nat) :
    run g (f + 1) (.rule name) inp pos = run g f (ruleBody g name) inp pos := rfl

theorem run_cap (f : Nat) (a : PE) (pos : Nat) :
    run g (f + 1) (.cap a) inp pos =
      match run g f a inp pos with
      | .ok p t => .ok p (t ++ [.text pos p])
      | r => r := rfl

theorem run_act (f : Nat) (i : Nat) (pos : Nat) :
    run g (f + 1) (.act i) inp pos = .ok pos [.action i] := rfl

/-! ### fuel monotonicity -/

/-- one more unit of fuel does not change an answer that is not `outOfFuel` -/
theorem run_succ : ∀ (f : Nat) (e : PE) (pos : Nat),
    run g f e inp pos ≠ .outOfFuel → run g (f + 1) e inp pos = run g f e inp pos := by
  intro f
  induction f with
  | zero => intro e pos h; exact absurd (run_zero e pos) h
  | succ f ih =>
    intro e pos h
    cases e with
    | lit s => rfl
    | cls neg rs => rfl
    | any => rfl
    | act i => rfl
    | rule name =>
      rw [run_rule] at h ⊢
      rw [run_rule]
      exact ih _ _ h
    | seq a b =>
      rw [run_seq] at h
      rw [run_seq (f + 1), run_seq f]
      cases ha : run g f a inp pos with
      | fail => rw [ih a pos (by rw [ha]; simp), ha]
      | outOfFuel => rw [ha] at h; exact absurd rfl h
      | ok p t =>
        rw [ih a pos (by rw [ha]; simp), ha]
        rw [ha] at h
        simp only at h ⊢
        cases hb : run g f b inp p with
        | fail => rw [ih b p (by rw [hb]; simp), hb]
        | outOfFuel => rw [hb] at h; exact absurd rfl h
        | ok p' t' => rw [ih b p (by rw [hb]; simp), hb]
    | alt a b =>
      rw [run_alt] at h
      rw [run_alt (f + 1), run_alt f]
      cases ha : run g f a inp pos with
      | fail =>
        rw [ih a pos (by rw [ha]; simp), ha]
        rw [ha] at h
        simp only at h ⊢
        exact ih b pos h
      | outOfFuel => rw [ha] at h; exact absurd rfl h
      | ok p t => rw [ih a pos (by rw [ha]; simp), ha]
    | star a =>
      rw [run_star] at h
      rw [run_star (f + 1), run_star f]
      cases ha : run g f a inp pos with
      | fail => rw [ih a pos (by rw [ha]; simp), ha]
      | outOfFuel => rw [ha] at h; exact absurd rfl h
      | ok p t =>
        rw [ih a pos (by rw [ha]; simp), ha]
        rw [ha] at h
        simp only at h ⊢
        cases hb : run g f (.star a) inp p with
        | fail => rw [ih _ p (by rw [hb]; simp), hb]
        | outOfFuel => rw [hb] at h; exact absurd rfl h
        | ok p' t' => rw [ih _ p (by rw [hb]; simp), hb]
    | plus a =>
      rw [run_plus] at h
      rw [run_plus (f + 1), run_plus f]
      cases ha : run g f a inp pos with
      | fail => rw [ih a pos (by rw [ha]; simp), ha]
      | outOfFuel => rw [ha] at h; exact absurd rfl h
      | ok p t =>
        rw [ih a pos (by rw [ha]; simp), ha]
        rw [ha] at h
        simp only at h ⊢
        cases hb : run g f (.star a) inp p with
        | fail => rw [ih _ p (by rw [hb]; simp), hb]
        | outOfFuel => rw [hb] at h; exact absurd rfl h
        | ok p' t' => rw [ih _ p (by rw [hb]; simp), hb]
    | opt a =>
      rw [run_opt] at h
      rw [run_opt (f + 1), run_opt f]
      cases ha : run g f a inp pos with
      | fail => rw [ih a pos (by rw [ha]; simp), ha]
      | outOfFuel => rw [ha] at h; exact absurd rfl h
      | ok p t => rw [ih a pos (by rw [ha]; simp), ha]
    | not a =>
      rw [run_not] at h
      rw [run_not (f + 1), run_not f]
      cases ha : run g f a inp pos with
      | fail => rw [ih a pos (by rw [ha]; simp), ha]
      | outOfFuel => rw [ha] at h; exact absurd rfl h
      | ok p t => rw [ih a pos (by rw [ha]; simp), ha]
    | and a =>
      rw [run_and] at h
      rw [run_and (f + 1), run_and f]
      cases ha : run g f a inp pos with
      | fail => rw [ih a pos (by rw [ha]; simp), ha]
      | outOfFuel => rw [ha] at h; exact absurd rfl h
      | ok p t => rw [ih a pos (by rw [ha]; simp), ha]
    | cap a =>
      rw [run_cap] at h
      rw [run_cap (f + 1), run_cap f]
      cases ha : run g f a inp pos with
      | fail => rw [ih a pos (by rw [ha]; simp), ha]
      | outOfFuel => rw [ha] at h; exact absurd rfl h
      | ok p t => rw [ih a pos (by rw [ha]; simp), ha]

/-- more fuel never changes an answer that is not `outOfFuel` -/
theorem run_mono {f f' : Nat} (e : PE) (pos : Nat) (hle : f ≤ f')
    (h : run g f e inp pos ≠ .outOfFuel) : run g f' e inp pos = run g f e inp pos := by
  induction hle with
  | refl => rfl
  | step _ ih => rw [run_succ _ e pos (by rw [ih]; exact h), ih]

/-! ### expressions that cannot fail -/

theorem star_ne_fail : ∀ (f : Nat) (a : PE) (pos : Nat), run g f (.star a) inp pos ≠ .fail := by
  intro f
  induction f with
  | zero => intro a pos; rw [run_zero]; simp
  | succ f ih =>
    intro a pos
    rw [run_star]
    cases ha : run g f a inp pos with
    | fail => simp
    | outOfFuel => simp
    | ok p t =>
      simp only
      have := ih a p
      cases hb : run g f (.star a) inp p with
      | fail => exact absurd hb this
      | outOfFuel => simp
      | ok p' t' => simp

theorem opt_ne_fail (f : Nat) (a : PE) (pos : Nat) : run g f (.opt a) inp pos ≠ .fail := by
  cases f with
  | zero => rw [run_zero]; simp
  | succ f =>
    rw [run_opt]
    cases ha : run g f a inp pos <;> simp

theorem act_ne_fail (f : Nat) (i : Nat) (pos : Nat) : run g f (.act i) inp pos ≠ .fail := by
  cases f with
  | zero => rw [run_zero]; simp
  | succ f => rw [run_act]; simp

theorem cap_ne_fail (f : Nat) (a : PE) (pos : Nat)
    (h : ∀ f, run g f a inp pos ≠ .fail) : run g f (.cap a) inp pos ≠ .fail := by
  cases f with
  | zero => rw [run_zero]; simp
  | succ f =>
    rw [run_cap]
    cases ha : run g f a inp pos with
    | fail => exact absurd ha (h f)
    | outOfFuel => simp
    | ok p t => simp

/-- a sequence cannot fail when its first part cannot and its second part cannot fail wherever the
    first part can end -/
theorem seq_ne_fail (f : Nat) (a b : PE) (pos : Nat)
    (ha : ∀ f, run g f a inp pos ≠ .fail)
    (hb : ∀ f f' p t, run g f a inp pos = .ok p t → run g f' b inp p ≠ .fail) :
    run g f (.seq a b) inp pos ≠ .fail := by
  cases f with
  | zero => rw [run_zero]; simp
  | succ f =>
    rw [run_seq]
    cases h1 : run g f a inp pos with
    | fail => exact absurd h1 (ha f)
    | outOfFuel => simp
    | ok p t =>
      simp only
      cases h2 : run g f b inp p with
      | fail => exact absurd h2 (hb f f p t h1)
      | outOfFuel => simp
      | ok p' t' => simp

/-! ### where things end -/

/-- `.*` stops only at the end of the input -/
theorem star_any_end : ∀ (f pos p : Nat) (t : List Tok),
    run g f (.star .any) inp pos = .ok p t → inp.size ≤ p ∧ pos ≤ p ∧ t = [] := by
  intro f
  induction f with
  | zero => intro pos p t h; rw [run_zero] at h; cases h
  | succ f ih =>
    intro pos p t h
    rw [run_star] at h
    cases f with
    | zero => rw [run_zero] at h; cases h
    | succ f =>
      rw [run_any] at h
      by_cases hlt : pos < inp.size
      · rw [if_pos hlt] at h
        simp only at h
        cases hb : run g (f + 1) (.star .any) inp (pos + 1) with
        | fail => rw [hb] at h; cases h
        | outOfFuel => rw [hb] at h; cases h
        | ok p' t' =>
          rw [hb] at h
          simp only at h
          cases h
          have := ih (pos + 1) _ _ hb
          exact ⟨this.1, by omega, by simp [this.2.2]⟩
      · rw [if_neg hlt] at h
        cases h
        exact ⟨by omega, Nat.le_refl _, rfl⟩

/-- `.*` stops exactly at the end when started inside the input -/
theorem star_any_end_eq (f pos p : Nat) (t : List Tok) (hpos : pos ≤ inp.size)
    (h : run g f (.star .any) inp pos = .ok p t) : p = inp.size := by
  induction f generalizing pos p t with
  | zero => rw [run_zero] at h; cases h
  | succ f ih =>
    rw [run_star] at h
    cases f with
    | zero => rw [run_zero] at h; cases h
    | succ f =>
      rw [run_any] at h
      by_cases hlt : pos < inp.size
      · rw [if_pos hlt] at h
        simp only at h
        cases hb : run g (f + 1) (.star .any) inp (pos + 1) with
        | fail => rw [hb] at h; cases h
        | outOfFuel => rw [hb] at h; cases h
        | ok p' t' =>
          rw [hb] at h
          simp only at h
          cases h
          exact ih (pos + 1) _ _ (by omega) hb
      · rw [if_neg hlt] at h
        cases h
        omega

/-- `!.` succeeds at and beyond the end of the input -/
theorem not_any_ne_fail (f pos : Nat) (h : inp.size ≤ pos) : run g f (.not .any) inp pos ≠ .fail := by
  cases f with
  | zero => rw [run_zero]; simp
  | succ f =>
    rw [run_not]
    cases f with
    | zero => rw [run_zero]; simp
    | succ f =>
      rw [run_any, if_neg (by omega)]
      simp

/-- positions never move backwards -/
theorem run_pos_le : ∀ (f : Nat) (e : PE) (pos p : Nat) (t : List Tok),
    run g f e inp pos = .ok p t → pos ≤ p := by
  intro f
  induction f with
  | zero => intro e pos p t h; rw [run_zero] at h; cases h
  | succ f ih =>
    intro e pos p t h
    cases e with
    | lit s =>
      rw [run_lit] at h
      split at h
      · cases h; omega
      · cases h
    | cls neg rs =>
      rw [run_cls] at h
      split at h
      · split at h
        · cases h; omega
        · cases h
      · cases h
    | any =>
      rw [run_any] at h
      split at h
      · cases h; omega
      · cases h
    | act i => rw [run_act] at h; cases h; exact Nat.le_refl _
    | rule name => rw [run_rule] at h; exact ih _ _ _ _ h
    | seq a b =>
      rw [run_seq] at h
      cases ha : run g f a inp pos with
      | fail => rw [ha] at h; cases h
      | outOfFuel => rw [ha] at h; cases h
      | ok p1 t1 =>
        rw [ha] at h
        simp only at h
        cases hb : run g f b inp p1 with
        | fail => rw [hb] at h; cases h
        | outOfFuel => rw [hb] at h; cases h
        | ok p2 t2 =>
          rw [hb] at h
          cases h
          exact Nat.le_trans (ih _ _ _ _ ha) (ih _ _ _ _ hb)
    | alt a b =>
      rw [run_alt] at h
      cases ha : run g f a inp pos with
      | fail => rw [ha] at h; exact ih _ _ _ _ h
      | outOfFuel => rw [ha] at h; cases h
      | ok p1 t1 => rw [ha] at h; cases h; exact ih _ _ _ _ ha
    | star a =>
      rw [run_star] at h
      cases ha : run g f a inp pos with
      | fail => rw [ha] at h; cases h; exact Nat.le_refl _
      | outOfFuel => rw [ha] at h; cases h
      | ok p1 t1 =>
        rw [ha] at h
        simp only at h
        cases hb : run g f (.star a) inp p1 with
        | fail => rw [hb] at h; cases h
        | outOfFuel => rw [hb] at h; cases h
        | ok p2 t2 =>
          rw [hb] at h
          cases h
          exact Nat.le_trans (ih _ _ _ _ ha) (ih _ _ _ _ hb)
    | plus a =>
      rw [run_plus] at h
      cases ha : run g f a inp pos with
      | fail => rw [ha] at h; cases h
      | outOfFuel => rw [ha] at h; cases h
      | ok p1 t1 =>
        rw [ha] at h
        simp only at h
        cases hb : run g f (.star a) inp p1 with
        | fail => rw [hb] at h; cases h
        | outOfFuel => rw [hb] at h; cases h
        | ok p2 t2 =>
          rw [hb] at h
          cases h
          exact Nat.le_trans (ih _ _ _ _ ha) (ih _ _ _ _ hb)
    | opt a =>
      rw [run_opt] at h
      cases ha : run g f a inp pos with
      | fail => rw [ha] at h; cases h; exact Nat.le_refl _
      | outOfFuel => rw [ha] at h; cases h
      | ok p1 t1 => rw [ha] at h; cases h; exact ih _ _ _ _ ha
    | not a =>
      rw [run_not] at h
      cases ha : run g f a inp pos with
      | fail => rw [ha] at h; cases h; exact Nat.le_refl _
      | outOfFuel => rw [ha] at h; cases h
      | ok p1 t1 => rw [ha] at h; cases h
    | and a =>
      rw [run_and] at h
      cases ha : run g f a inp pos with
      | fail => rw [ha] at h; cases h
      | outOfFuel => rw [ha] at h; cases h
      | ok p1 t1 => rw [ha] at h; cases h; exact Nat.le_refl _
    | cap a =>
      rw [run_cap] at h
      cases ha : run g f a inp pos with
      | fail => rw [ha] at h; cases h
      | outOfFuel => rw [ha] at h; cases h
      | ok p1 t1 => rw [ha] at h; cases h; exact ih _ _ _ _ ha

/-- inside the input, positions stay inside the input -/
theorem matchLit_le_size : ∀ (cs : List Char) (pos : Nat), pos ≤ inp.size →
    matchLit inp cs pos = true → pos + cs.length ≤ inp.size := by
  intro cs
  induction cs with
  | nil => intro pos h _; simpa using h
  | cons c cs ih =>
    intro pos hle h
    unfold matchLit at h
    cases hc : inp[pos]? with
    | none => rw [hc] at h; cases h
    | some d =>
      rw [hc] at h
      simp only [Bool.and_eq_true] at h
      have hlt : pos < inp.size := by
        rcases Array.getElem?_eq_some_iff.mp hc with ⟨hlt, _⟩
        exact hlt
      have := ih (pos + 1) (by omega) h.2
      simp only [List.length_cons]
      omega

theorem run_le_size : ∀ (f : Nat) (e : PE) (pos p : Nat) (t : List Tok), pos ≤ inp.size →
    run g f e inp pos = .ok p t → p ≤ inp.size := by
  intro f
  induction f with
  | zero => intro e pos p t _ h; rw [run_zero] at h; cases h
  | succ f ih =>
    intro e pos p t hle h
    cases e with
    | lit s =>
      rw [run_lit] at h
      split at h
      · rename_i hm
        cases h
        have := matchLit_le_size s.toList pos hle hm
        simpa [String.length_toList] using this
      · cases h
    | cls neg rs =>
      rw [run_cls] at h
      split at h
      · rename_i c hc
        have hlt : pos < inp.size := by
          rcases Array.getElem?_eq_some_iff.mp hc with ⟨hlt, _⟩
          exact hlt
        split at h
        · cases h; omega
        · cases h
      · cases h
    | any =>
      rw [run_any] at h
      split at h
      · cases h; omega
      · cases h
    | act i => rw [run_act] at h; cases h; exact hle
    | rule name => rw [run_rule] at h; exact ih _ _ _ _ hle h
    | seq a b =>
      rw [run_seq] at h
      cases ha : run g f a inp pos with
      | fail => rw [ha] at h; cases h
      | outOfFuel => rw [ha] at h; cases h
      | ok p1 t1 =>
        rw [ha] at h
        simp only at h
        cases hb : run g f b inp p1 with
        | fail => rw [hb] at h; cases h
        | outOfFuel => rw [hb] at h; cases h
        | ok p2 t2 =>
          rw [hb] at h
          cases h
          exact ih _ _ _ _ (ih _ _ _ _ hle ha) hb
    | alt a b =>
      rw [run_alt] at h
      cases ha : run g f a inp pos with
      | fail => rw [ha] at h; exact ih _ _ _ _ hle h
      | outOfFuel => rw [ha] at h; cases h
      | ok p1 t1 => rw [ha] at h; cases h; exact ih _ _ _ _ hle ha
    | star a =>
      rw [run_star] at h
      cases ha : run g f a inp pos with
      | fail => rw [ha] at h; cases h; exact hle
      | outOfFuel => rw [ha] at h; cases h
      | ok p1 t1 =>
        rw [ha] at h
        simp only at h
        cases hb : run g f (.star a) inp p1 with
        | fail => rw [hb] at h; cases h
        | outOfFuel => rw [hb] at h; cases h
        | ok p2 t2 =>
          rw [hb] at h
          cases h
          exact ih _ _ _ _ (ih _ _ _ _ hle ha) hb
    | plus a =>
      rw [run_plus] at h
      cases ha : run g f a inp pos with
      | fail => rw [ha] at h; cases h
      | outOfFuel => rw [ha] at h; cases h
      | ok p1 t1 =>
        rw [ha] at h
        simp only at h
        cases hb : run g f (.star a) inp p1 with
        | fail => rw [hb] at h; cases h
        | outOfFuel => rw [hb] at h; cases h
        | ok p2 t2 =>
          rw [hb] at h
          cases h
          exact ih _ _ _ _ (ih _ _ _ _ hle ha) hb
    | opt a =>
      rw [run_opt] at h
      cases ha : run g f a inp pos with
      | fail => rw [ha] at h; cases h; exact hle
      | outOfFuel => rw [ha] at h; cases h
      | ok p1 t1 => rw [ha] at h; cases h; exact ih _ _ _ _ hle ha
    | not a =>
      rw [run_not] at h
      cases ha : run g f a inp pos with
      | fail => rw [ha] at h; cases h; exact hle
      | outOfFuel => rw [ha] at h; cases h
      | ok p1 t1 => rw [ha] at h; cases h
    | and a =>
      rw [run_and] at h
      cases ha : run g f a inp pos with
      | fail => rw [ha] at h; cases h
      | outOfFuel => rw [ha] at h; cases h
      | ok p1 t1 => rw [ha] at h; cases h; exact hle
    | cap a =>
      rw [run_cap] at h
      cases ha : run g f a inp pos with
      | fail => rw [ha] at h; cases h
      | outOfFuel => rw [ha] at h; cases h
      | ok p1 t1 => rw [ha] at h; cases h; exact ih _ _ _ _ hle ha

/-! ### inversion: what a successful run of a compound expression consists of -/

theorem run_ok_fuel {f : Nat} {e : PE} {pos p : Nat} {t : List Tok}
    (h : run g f e inp pos = .ok p t) : ∃ f', f = f' + 1 := by
  cases f with
  | zero => rw [run_zero] at h; cases h
  | succ f' => exact ⟨f', rfl⟩

theorem run_seq_inv {f : Nat} {a b : PE} {pos p : Nat} {t : List Tok}
    (h : run g (f + 1) (.seq a b) inp pos = .ok p t) :
    ∃ p1 t1 t2, run g f a inp pos = .ok p1 t1 ∧ run g f b inp p1 = .ok p t2 ∧ t = t1 ++ t2 := by
  rw [run_seq] at h
  cases ha : run g f a inp pos with
  | fail => rw [ha] at h; cases h
  | outOfFuel => rw [ha] at h; cases h
  | ok p1 t1 =>
    rw [ha] at h
    simp only at h
    cases hb : run g f b inp p1 with
    | fail => rw [hb] at h; cases h
    | outOfFuel => rw [hb] at h; cases h
    | ok p2 t2 => rw [hb] at h; cases h; exact ⟨p1, t1, t2, rfl, hb, rfl⟩

theorem run_alt_inv {f : Nat} {a b : PE} {pos p : Nat} {t : List Tok}
    (h : run g (f + 1) (.alt a b) inp pos = .ok p t) :
    run g f a inp pos = .ok p t ∨ (run g f a inp pos = .fail ∧ run g f b inp pos = .ok p t) := by
  rw [run_alt] at h
  cases ha : run g f a inp pos with
  | fail => rw [ha] at h; exact .inr ⟨rfl, h⟩
  | outOfFuel => rw [ha] at h; cases h
  | ok p1 t1 => rw [ha] at h; exact .inl h

theorem run_cap_inv {f : Nat} {a : PE} {pos p : Nat} {t : List Tok}
    (h : run g (f + 1) (.cap a) inp pos = .ok p t) :
    ∃ t1, run g f a inp pos = .ok p t1 ∧ t = t1 ++ [.text pos p] := by
  rw [run_cap] at h
  cases ha : run g f a inp pos with
  | fail => rw [ha] at h; cases h
  | outOfFuel => rw [ha] at h; cases h
  | ok p1 t1 => rw [ha] at h; cases h; exact ⟨t1, rfl, rfl⟩

theorem run_not_inv {f : Nat} {a : PE} {pos p : Nat} {t : List Tok}
    (h : run g (f + 1) (.not a) inp pos = .ok p t) : p = pos ∧ t = [] := by
  rw [run_not] at h
  cases ha : run g f a inp pos with
  | fail => rw [ha] at h; cases h; exact ⟨rfl, rfl⟩
  | outOfFuel => rw [ha] at h; cases h
  | ok p1 t1 => rw [ha] at h; cases h

theorem run_act_inv {f : Nat} {i : Nat} {pos p : Nat} {t : List Tok}
    (h : run g (f + 1) (.act i) inp pos = .ok p t) : p = pos ∧ t = [.action i] := by
  rw [run_act] at h; cases h; exact ⟨rfl, rfl⟩

/-! ### which actions a run can produce -/

/-- no action with a `badAct` index, no reference to a `badRule` -/
def PE.clean (badAct : Nat → Bool) (badRule : String → Bool) : PE → Bool
  | .act i => !badAct i
  | .rule n => !badRule n
  | .seq a b => a.clean badAct badRule && b.clean badAct badRule
  | .alt a b => a.clean badAct badRule && b.clean badAct badRule
  | .star a => a.clean badAct badRule
  | .plus a => a.clean badAct badRule
  | .opt a => a.clean badAct badRule
  | .not a => a.clean badAct badRule
  | .and a => a.clean badAct badRule
  | .cap a => a.clean badAct badRule
  | _ => true

/-- every rule that is not a `badRule` is clean -/
def cleanGrammar (badAct : Nat → Bool) (badRule : String → Bool) (g : Grammar) : Bool :=
  g.all (fun r => badRule r.1 || r.2.clean badAct badRule)

theorem ruleBody_clean {badAct : Nat → Bool} {badRule : String → Bool} (name : String)
    (hg : cleanGrammar badAct badRule g = true) (hn : badRule name = false) :
    (ruleBody g name).clean badAct badRule = true := by
  unfold ruleBody
  induction g with
  | nil => rfl
  | cons r rest ih =>
    obtain ⟨n, b⟩ := r
    simp only [cleanGrammar, List.all_cons, Bool.and_eq_true, Bool.or_eq_true] at hg
    simp only [List.lookup]
    cases hnb : (name == n) with
    | true =>
      simp only
      have : n = name := by simpa using (beq_iff_eq.mp hnb).symm
      rcases hg.1 with h | h
      · rw [this, hn] at h; cases h
      · exact h
    | false =>
      simp only
      exact ih hg.2

theorem run_clean {badAct : Nat → Bool} {badRule : String → Bool}
    (hg : cleanGrammar badAct badRule g = true) :
    ∀ (f : Nat) (e : PE) (pos p : Nat) (t : List Tok), e.clean badAct badRule = true →
      run g f e inp pos = .ok p t → ∀ i, Tok.action i ∈ t → badAct i = false := by
  intro f
  induction f with
  | zero => intro e pos p t _ h; rw [run_zero] at h; cases h
  | succ f ih =>
    intro e pos p t hc h i hi
    cases e with
    | lit s =>
      rw [run_lit] at h
      split at h
      · cases h; cases hi
      · cases h
    | cls neg rs =>
      rw [run_cls] at h
      split at h
      · split at h
        · cases h; cases hi
        · cases h
      · cases h
    | any =>
      rw [run_any] at h
      split at h
      · cases h; cases hi
      · cases h
    | act j =>
      rw [run_act] at h
      cases h
      simp only [List.mem_singleton, Tok.action.injEq] at hi
      subst hi
      simpa [PE.clean] using hc
    | rule name =>
      rw [run_rule] at h
      have hn : badRule name = false := by simpa [PE.clean] using hc
      exact ih _ _ _ _ (ruleBody_clean name hg hn) h i hi
    | seq a b =>
      simp only [PE.clean, Bool.and_eq_true] at hc
      obtain ⟨p1, t1, t2, ha, hb, rfl⟩ := run_seq_inv h
      rcases List.mem_append.mp hi with h1 | h2
      · exact ih _ _ _ _ hc.1 ha i h1
      · exact ih _ _ _ _ hc.2 hb i h2
    | alt a b =>
      simp only [PE.clean, Bool.and_eq_true] at hc
      rcases run_alt_inv h with ha | ⟨_, hb⟩
      · exact ih _ _ _ _ hc.1 ha i hi
      · exact ih _ _ _ _ hc.2 hb i hi
    | star a =>
      have hc' : a.clean badAct badRule = true := by simpa [PE.clean] using hc
      rw [run_star] at h
      cases ha : run g f a inp pos with
      | fail => rw [ha] at h; cases h; cases hi
      | outOfFuel => rw [ha] at h; cases h
      | ok p1 t1 =>
        rw [ha] at h
        simp only at h
        cases hb : run g f (.star a) inp p1 with
        | fail => rw [hb] at h; cases h
        | outOfFuel => rw [hb] at h; cases h
        | ok p2 t2 =>
          rw [hb] at h
          cases h
          rcases List.mem_append.mp hi with h1 | h2
          · exact ih _ _ _ _ hc' ha i h1
          · exact ih _ _ _ _ hc hb i h2
    | plus a =>
      have hc' : a.clean badAct badRule = true := by simpa [PE.clean] using hc
      have hcs : (PE.star a).clean badAct badRule = true := by simpa [PE.clean] using hc
      rw [run_plus] at h
      cases ha : run g f a inp pos with
      | fail => rw [ha] at h; cases h
      | outOfFuel => rw [ha] at h; cases h
      | ok p1 t1 =>
        rw [ha] at h
        simp only at h
        cases hb : run g f (.star a) inp p1 with
        | fail => rw [hb] at h; cases h
        | outOfFuel => rw [hb] at h; cases h
        | ok p2 t2 =>
          rw [hb] at h
          cases h
          rcases List.mem_append.mp hi with h1 | h2
          · exact ih _ _ _ _ hc' ha i h1
          · exact ih _ _ _ _ hcs hb i h2
    | opt a =>
      have hc' : a.clean badAct badRule = true := by simpa [PE.clean] using hc
      rw [run_opt] at h
      cases ha : run g f a inp pos with
      | fail => rw [ha] at h; cases h; cases hi
      | outOfFuel => rw [ha] at h; cases h
      | ok p1 t1 => rw [ha] at h; cases h; exact ih _ _ _ _ hc' ha i hi
    | not a =>
      obtain ⟨_, rfl⟩ := run_not_inv h
      cases hi
    | and a =>
      rw [run_and] at h
      cases ha : run g f a inp pos with
      | fail => rw [ha] at h; cases h
      | outOfFuel => rw [ha] at h; cases h
      | ok p1 t1 => rw [ha] at h; cases h; cases hi
    | cap a =>
      have hc' : a.clean badAct badRule = true := by simpa [PE.clean] using hc
      obtain ⟨t1, ha, rfl⟩ := run_cap_inv h
      rcases List.mem_append.mp hi with h1 | h2
      · exact ih _ _ _ _ hc' ha i h1
      · simp at h2

end JPV.Peg
