/-
Helper definitions and lemmas for Props/RunGoGen.lean (worker L30): the bound `adds` on the number of `add` calls,
the invariant `Good`, the frame `Post` between two states, and the character-level templates of `RunGo`.
-/
import JPV.Peg.RunGo
import JPV.Props.PegRuntimeGen
import JPV.Lemmas.RunGoAdds
namespace JPV
namespace RunGoGen
open JPV.Peg JPV.Peg.Runtime JPV.Gen.PegRuntime JPV.Peg.RunGo JPV.PegRuntimeGen

/-- the numbering separates named rules, Action0, PegText, Action1… -/
structure Num.WF (n : Num) : Prop where
  lt : n.a0 < n.text
  rule : ∀ name, n.rule name < n.a0

/-- the runes of the input, as `[]rune(string)` decodes them -/
def runes (input : Array Char) : List Nat := input.toList.map Char.toNat

/-- what the invariant says about the memo table and the switch `disableMemoize` (the only parts of the state the
character / token templates never touch) -/
abbrev MemP := List (Key × Memo) → Bool → Prop

/-- memoisation OFF: the switch is set and the table stays empty -/
def MOff : MemP := fun memo d => d = true ∧ memo = []

/-- the invariant of the runtime state, generic in the memo part -/
structure Good (M : MemP) (input : Array Char) (s : RT) : Prop where
  buf : s.buffer = runes input ++ [endSymbol]
  inv : s.tokenIndex ≤ s.tree.length
  mem : M s.memo s.disableMemoize

/-- tokens `tree[t0 : tokenIndex]` -/
def seg (t0 : Nat) (s : RT) : List Runtime.Tok := (s.tree.take s.tokenIndex).drop t0

/-- what a template may have done between s and s': tokens below the entry tokenIndex untouched, tokenIndex moved
up by at most k -/
structure Post (M : MemP) (input : Array Char) (s s' : RT) (k : Nat) : Prop where
  good : Good M input s'
  pre : s'.tree.take s.tokenIndex = s.tree.take s.tokenIndex
  lo : s.tokenIndex ≤ s'.tokenIndex
  hi : s'.tokenIndex ≤ s.tokenIndex + k

theorem char_lt (c : Char) : c.toNat < 1114112 := by
  have := c.valid
  simp [UInt32.isValidChar, Nat.isValidChar] at this
  have e : c.toNat = c.val.toNat := rfl
  omega

theorem runes_lt (input : Array Char) : ∀ r ∈ runes input, r ≠ endSymbol := by
  intro r hr
  unfold runes at hr
  obtain ⟨c, _, rfl⟩ := List.mem_map.mp hr
  have := char_lt c
  unfold endSymbol; omega

theorem runes_length (input : Array Char) : (runes input).length = input.size := by simp [runes]

/-- `buffer[position]` in a good state -/
theorem bufAt {M : MemP} {input : Array Char} {s : RT} (h : Good M input s) (hp : s.position ≤ input.size) :
    getAt s.buffer s.position = some (match input[s.position]? with | some c => c.toNat | none => endSymbol) := by
  unfold getAt
  rw [h.buf]
  by_cases hlt : s.position < input.size
  · rw [List.getElem?_append_left (by rw [runes_length]; exact hlt)]
    simp [runes, hlt]
  · have he : s.position = input.size := by omega
    rw [he, List.getElem?_append_right (by rw [runes_length]; omega), runes_length]
    simp

theorem Post.refl {M : MemP} {input : Array Char} {s : RT} (h : Good M input s) (k : Nat) : Post M input s s k :=
  ⟨h, rfl, Nat.le_refl _, Nat.le_add_right _ _⟩

theorem Post.mono {M : MemP} {input : Array Char} {s s' : RT} {k k' : Nat} (h : Post M input s s' k) (hk : k ≤ k') : Post M input s s' k' :=
  ⟨h.good, h.pre, h.lo, Nat.le_trans h.hi (Nat.add_le_add_left hk _)⟩

/-- moving `position` only -/
theorem Good.setPos {M : MemP} {input : Array Char} {s : RT} (h : Good M input s) (q : Nat) : Good M input { s with position := q } :=
  ⟨h.buf, h.inv, h.mem⟩

theorem Post.setPos {M : MemP} {input : Array Char} {s s' : RT} {k : Nat} (h : Post M input s s' k) (q : Nat) :
    Post M input s { s' with position := q } k :=
  ⟨h.good.setPos q, h.pre, h.lo, h.hi⟩

theorem seg_setPos (t0 : Nat) (s : RT) (q : Nat) : seg t0 { s with position := q } = seg t0 s := rfl

theorem seg_self {M : MemP} {input : Array Char} {s : RT} (_h : Good M input s) : seg s.tokenIndex s = [] := by
  unfold seg
  apply List.drop_eq_nil_of_le
  rw [List.length_take]; exact Nat.min_le_left _ _

/-- `position, tokenIndex = p0, t0` at a failure label -/
theorem Post.restore {M : MemP} {input : Array Char} {s s1 : RT} {k : Nat} (h : Post M input s s1 k) (k' : Nat) :
    Post M input s (restore s.position s.tokenIndex s1) k' := by
  refine ⟨⟨h.good.buf, ?_, h.good.mem⟩, h.pre, Nat.le_refl _, Nat.le_add_right _ _⟩
  show s.tokenIndex ≤ s1.tree.length
  exact Nat.le_trans h.lo h.good.inv

theorem seg_restore (s s1 : RT) : seg s.tokenIndex (restore s.position s.tokenIndex s1) = [] := by
  unfold seg restore
  apply List.drop_eq_nil_of_le
  rw [List.length_take]; exact Nat.min_le_left _ _

theorem take_drop_split {α} (l : List α) (t0 t1 t2 : Nat) (h01 : t0 ≤ t1) (h12 : t1 ≤ t2) (h2 : t2 ≤ l.length) :
    (l.take t2).drop t0 = (l.take t1).drop t0 ++ (l.take t2).drop t1 := by
  have h : l.take t2 = (l.take t2).take t1 ++ (l.take t2).drop t1 := (List.take_append_drop t1 _).symm
  have ht : (l.take t2).take t1 = l.take t1 := by rw [List.take_take, Nat.min_eq_left h12]
  rw [ht] at h
  conv => lhs; rw [h]
  rw [List.drop_append_of_le_length]
  rw [List.length_take]; omega

theorem Post.trans {M : MemP} {input : Array Char} {s s1 s2 : RT} {k1 k2 : Nat} (h1 : Post M input s s1 k1) (h2 : Post M input s1 s2 k2) :
    Post M input s s2 (k1 + k2) ∧ seg s.tokenIndex s2 = seg s.tokenIndex s1 ++ seg s1.tokenIndex s2 := by
  have hpre : s2.tree.take s.tokenIndex = s.tree.take s.tokenIndex := by
    have e1 : s2.tree.take s.tokenIndex = (s2.tree.take s1.tokenIndex).take s.tokenIndex := by
      rw [List.take_take, Nat.min_eq_left h1.lo]
    have e2 : s1.tree.take s.tokenIndex = (s1.tree.take s1.tokenIndex).take s.tokenIndex := by
      rw [List.take_take, Nat.min_eq_left h1.lo]
    rw [e1, h2.pre, ← e2, h1.pre]
  refine ⟨⟨h2.good, hpre, Nat.le_trans h1.lo h2.lo, ?_⟩, ?_⟩
  · have := h1.hi; have := h2.hi; omega
  · unfold seg
    rw [take_drop_split s2.tree s.tokenIndex s1.tokenIndex s2.tokenIndex h1.lo h2.lo h2.good.inv, h2.pre]

/-! ## add -/

theorem add_post {M : MemP} {input : Array Char} (r b : Nat) {s : RT} (h : Good M input s) (hb : s.tokenIndex + 1 < 4294967296) :
    ∃ s', add r b s = some s' ∧ Post M input s s' 1 ∧ s'.position = s.position ∧
      seg s.tokenIndex s' = [⟨r, b, s.position⟩] := by
  obtain ⟨mx, he⟩ := PR_add_eq r b s h.inv hb
  have hl : (List.take s.tokenIndex s.tree).length = s.tokenIndex := by
    rw [List.length_take]; exact Nat.min_eq_left h.inv
  refine ⟨_, he, ⟨⟨h.buf, ?_, h.mem⟩, ?_, Nat.le_succ _, Nat.le_refl _⟩, rfl, ?_⟩
  · show s.tokenIndex + 1 ≤ (s.tree.take s.tokenIndex ++ [(⟨r, b, s.position⟩ : Runtime.Tok)] ++ s.tree.drop (s.tokenIndex + 1)).length
    simp only [List.length_append, hl, List.length_singleton]; omega
  · show (s.tree.take s.tokenIndex ++ [(⟨r, b, s.position⟩ : Runtime.Tok)] ++ s.tree.drop (s.tokenIndex + 1)).take s.tokenIndex = _
    rw [List.append_assoc, List.take_append_of_le_length (by omega), List.take_of_length_le (by omega)]
  · show ((s.tree.take s.tokenIndex ++ [(⟨r, b, s.position⟩ : Runtime.Tok)] ++ s.tree.drop (s.tokenIndex + 1)).take (s.tokenIndex + 1)).drop s.tokenIndex = _
    have hl2 : (s.tree.take s.tokenIndex ++ [(⟨r, b, s.position⟩ : Runtime.Tok)]).length = s.tokenIndex + 1 := by
      simp [hl]
    rw [List.take_append_of_le_length (by omega), List.take_of_length_le (by omega),
      List.drop_append_of_le_length (by omega), List.drop_of_length_le (by omega)]
    rfl

/-! ## kinds -/

theorem kinds_append (n : Num) (a b : List Runtime.Tok) : n.kinds (a ++ b) = n.kinds a ++ n.kinds b := by
  unfold Num.kinds; exact List.filterMap_append

theorem kinds_text (n : Num) (b e : Nat) : n.kinds [⟨n.text, b, e⟩] = [.text b e] := by
  simp [Num.kinds, Num.kind]

theorem kinds_act (n : Num) (hw : Num.WF n) (i b e : Nat) : n.kinds [⟨n.act i, b, e⟩] = [.action i] := by
  have := hw.lt
  by_cases hi : i = 0
  · subst hi
    have h1 : n.a0 ≠ n.text := by omega
    simp [Num.kinds, Num.kind, Num.act, h1]
  · have h1 : n.text + i ≠ n.text := by omega
    have h2 : n.text + i ≠ n.a0 := by omega
    have h3 : n.text < n.text + i := by omega
    simp [Num.kinds, Num.kind, Num.act, hi, h2, h3]

theorem kinds_rule (n : Num) (hw : Num.WF n) (name : String) (b e : Nat) : n.kinds [⟨n.rule name, b, e⟩] = [] := by
  have := hw.lt
  have := hw.rule name
  have h1 : n.rule name ≠ n.text := by omega
  have h2 : n.rule name ≠ n.a0 := by omega
  have h3 : ¬ (n.text < n.rule name) := by omega
  simp [Num.kinds, Num.kind, h1, h2, h3]

/-! ## character templates -/

theorem inRanges_eq (c : Char) (rs : List (Char × Char)) : inRanges c rs = inRangesN c.toNat rs := by
  induction rs with
  | nil => rfl
  | cons r rest ih => obtain ⟨lo, hi⟩ := r; simp [inRanges, inRangesN, ih]

theorem inRangesN_end (rs : List (Char × Char)) : inRangesN endSymbol rs = false := by
  induction rs with
  | nil => rfl
  | cons r rest ih =>
    obtain ⟨lo, hi⟩ := r
    have := char_lt hi
    have h : ¬ (endSymbol ≤ hi.toNat) := by unfold endSymbol; omega
    simp [inRangesN, ih, h]

/-- `.` -/
theorem dot_spec {M : MemP} {input : Array Char} {s : RT} (h : Good M input s) (hp : s.position ≤ input.size)
    (hn : input.size + 1 < 4294967296) :
    dotGo s = if s.position < input.size then (.ok, { s with position := s.position + 1 }) else (.fail, s) := by
  have := PR_matchDot s (runes input) h.buf (runes_lt input) (by rw [runes_length]; exact hp) (by omega)
  unfold dotGo
  rw [this, runes_length]
  by_cases hlt : s.position < input.size
  · simp [hlt]
  · simp [hlt]

/-- a literal: on success position moves by its length; on failure only position may have moved -/
theorem lit_spec {M : MemP} {input : Array Char} (hn : input.size + 1 < 4294967296) (cs : List Char) :
    ∀ s : RT, Good M input s → s.position ≤ input.size →
      if matchLit input cs s.position then
        litGo cs s = (.ok, { s with position := s.position + cs.length }) ∧ s.position + cs.length ≤ input.size
      else ∃ q, litGo cs s = (.fail, { s with position := q }) := by
  induction cs with
  | nil => intro s _ hp; simp [matchLit, litGo]; exact hp
  | cons c cs ih =>
    intro s h hp
    unfold litGo matchLit
    rw [bufAt h hp]
    cases hc : input[s.position]? with
    | none =>
      have : (endSymbol != c.toNat) = true := by
        have := char_lt c; simp [endSymbol]; omega
      simp only [this, if_true, Bool.false_eq_true, if_false]
      exact ⟨s.position, rfl⟩
    | some d =>
      have hlt : s.position < input.size := by
        rcases Nat.lt_or_ge s.position input.size with h1 | h1
        · exact h1
        · rw [Array.getElem?_eq_none h1] at hc; cases hc
      by_cases hcd : c = d
      · subst hcd
        have h1 : (c.toNat != c.toNat) = false := by simp
        have hadv : advance s = { s with position := s.position + 1 } := by
          unfold advance; rw [u32_of_lt (by omega)]
        simp only [h1, Bool.false_eq_true, if_false, beq_self_eq_true, Bool.true_and, hadv]
        have := ih { s with position := s.position + 1 } (h.setPos _) (by show s.position + 1 ≤ input.size; omega)
        simp only at this
        split
        · rename_i hm
          rw [if_pos hm] at this
          refine ⟨by rw [this.1]; simp [Nat.add_assoc, Nat.add_comm 1], ?_⟩
          have := this.2; simp only [List.length_cons]; omega
        · rename_i hm
          rw [if_neg hm] at this
          obtain ⟨q, hq⟩ := this
          exact ⟨q, by rw [hq]⟩
      · have h1 : (d.toNat != c.toNat) = true := by
          simp; intro he; exact hcd (Char.toNat_inj.mp he).symm
        have h2 : (c == d) = false := by simp [hcd]
        simp only [h1, if_true, h2, Bool.false_and, Bool.false_eq_true, if_false]
        exact ⟨s.position, rfl⟩

end RunGoGen
end JPV
