/-
ActionTieB — ties for the actions that pop two or three values:
Action 11 16 24 25 28 29 30 31 32 33 34.
-/
import JPV.Lemmas.ActionTie
set_option linter.unusedVariables false
set_option linter.unusedSimpArgs false
namespace JPV
namespace ParserLayout
open JPV JPV.ParserNode JPV.ActionNode
open JPV.Gen.ParserHelpersGo JPV.Gen.ActionsGo

/-! ### regrouping held cells -/

theorem Rep.assoc {c : Peg.Ctx} {g : PS} {L : LSt} {A B X : List (Nat × Cell)} (h : Rep c g L (A ++ (B ++ X))) :
    Rep c g L ((A ++ B) ++ X) := by rw [List.append_assoc]; exact h

theorem Rep.swap {c : Peg.Ctx} {g : PS} {L : LSt} {A B X : List (Nat × Cell)} (h : Rep c g L (A ++ (B ++ X))) :
    Rep c g L ((B ++ A) ++ X) := by
  refine h.held ?_ ?_
  · intro x hx
    simp only [List.mem_append] at hx ⊢
    rcases hx with (hx | hx) | hx
    · exact Or.inr (Or.inl hx)
    · exact Or.inl hx
    · exact Or.inr (Or.inr hx)
  · intro hnd
    have hp : (A ++ (B ++ X)).Perm ((B ++ A) ++ X) := by
      rw [← List.append_assoc]
      exact List.Perm.append_right X List.perm_append_comm
    exact nodup_perm hp hnd

/-- held cells that are no longer referred to may be forgotten -/
theorem Rep.drop {c : Peg.Ctx} {g : PS} {L : LSt} {A X : List (Nat × Cell)} (h : Rep c g L (A ++ X)) : Rep c g L X := by
  refine h.held (fun x hx => List.mem_append_right _ hx) ?_
  intro hnd
  rw [ids_append, List.nodup_append] at hnd
  exact hnd.2.1

/-- `p.push(x)` for a held value -/
theorem push_plain_sim' (c : Peg.Ctx) (g : PS) (L : LSt) (tb te : Nat) (it : LItem) (hwf : wfItem it)
    (hrep : Rep c g L (cellsItem it ++ [])) :
    ASim c tb te (liftH (push (gitem it) g) >>= fun p => .ok p) (.ok (Peg.push (eraseItem it) (eraseSt L tb te))) := by
  obtain ⟨g', he, hr, hE⟩ := push_tie c g L [] it tb te hrep hwf
  rw [he]
  exact ASim.ok ⟨g', _, rfl, hr, hE⟩

/-! ### Action24, Action25 -/

section
variable (c : Peg.Ctx) (lib : Lib) (al : ALib) (g : PS) (L : LSt) (tb te fuel : Nat) (buffer : String)

theorem act24_tie (hrep : Rep c g L []) :
    ASim c tb te (goAct24 fuel lib al (Peg.textOf c.input tb te) (tb : Int) buffer g) (Peg.act24 c (eraseSt L tb te)) := by
  rcases pop_cases c g L [] tb te hrep with ⟨hg, hm⟩ | ⟨it, s, hs, hg, hm, hrep1, hwf⟩
  · simp only [goAct24, Peg.act24, hg, hm, liftH_err, ebind_err]
    exact ASim.err rfl rfl
  · rcases asQuery_cases it with ⟨qr, rfl, hga, hma⟩ | hma | ⟨hga, hma⟩
    · rcases pop_cases c _ _ _ tb te hrep1 with ⟨hg2, hm2⟩ | ⟨it2, s2, hs2, hg2, hm2, hrep2, hwf2⟩
      · simp only [goAct24, Peg.act24, hg, hm, hga, hma, hg2, hm2, liftH_ok, liftH_err, ebind_ok, ebind_err]
        exact ASim.err rfl rfl
      · rcases asQuery_cases it2 with ⟨ql, rfl, hga2, hma2⟩ | hma2 | ⟨hga2, hma2⟩
        · simp only [goAct24, Peg.act24, hg, hm, hga, hma, hg2, hm2, hga2, hma2, liftH_ok, ebind_ok]
          exact ASim.ofSim' (pushLogicalOr_tie c _ _ [] tb te ql qr hrep2.assoc)
        · simp only [Peg.act24, hm, hma, hm2, hma2, ebind_ok, ebind_err]
          exact ASim.unrep
        · simp only [goAct24, Peg.act24, hg, hm, hga, hma, hg2, hm2, hga2, hma2, liftH_ok, liftH_err, ebind_ok, ebind_err]
          exact ASim.err rfl rfl
    · simp only [Peg.act24, hm, hma, ebind_ok, ebind_err]
      exact ASim.unrep
    · simp only [goAct24, Peg.act24, hg, hm, hga, hma, liftH_ok, liftH_err, ebind_ok, ebind_err]
      exact ASim.err rfl rfl

theorem act25_tie (hrep : Rep c g L []) :
    ASim c tb te (goAct25 fuel lib al (Peg.textOf c.input tb te) (tb : Int) buffer g) (Peg.act25 c (eraseSt L tb te)) := by
  rcases pop_cases c g L [] tb te hrep with ⟨hg, hm⟩ | ⟨it, s, hs, hg, hm, hrep1, hwf⟩
  · simp only [goAct25, Peg.act25, hg, hm, liftH_err, ebind_err]
    exact ASim.err rfl rfl
  · rcases asQuery_cases it with ⟨qr, rfl, hga, hma⟩ | hma | ⟨hga, hma⟩
    · rcases pop_cases c _ _ _ tb te hrep1 with ⟨hg2, hm2⟩ | ⟨it2, s2, hs2, hg2, hm2, hrep2, hwf2⟩
      · simp only [goAct25, Peg.act25, hg, hm, hga, hma, hg2, hm2, liftH_ok, liftH_err, ebind_ok, ebind_err]
        exact ASim.err rfl rfl
      · rcases asQuery_cases it2 with ⟨ql, rfl, hga2, hma2⟩ | hma2 | ⟨hga2, hma2⟩
        · simp only [goAct25, Peg.act25, hg, hm, hga, hma, hg2, hm2, hga2, hma2, liftH_ok, ebind_ok]
          exact ASim.ofSim' (pushLogicalAnd_tie c _ _ [] tb te ql qr hrep2.assoc)
        · simp only [Peg.act25, hm, hma, hm2, hma2, ebind_ok, ebind_err]
          exact ASim.unrep
        · simp only [goAct25, Peg.act25, hg, hm, hga, hma, hg2, hm2, hga2, hma2, liftH_ok, liftH_err, ebind_ok, ebind_err]
          exact ASim.err rfl rfl
    · simp only [Peg.act25, hm, hma, ebind_ok, ebind_err]
      exact ASim.unrep
    · simp only [goAct25, Peg.act25, hg, hm, hga, hma, liftH_ok, liftH_err, ebind_ok, ebind_err]
      exact ASim.err rfl rfl

end

/-! ### the comparison actions -/

theorem rankL_erase (p : LP) : rankL p = Peg.rank (eraseP p) := by cases p <;> rfl

theorem mkEQL_erase (l r : LP) : eraseQ (mkEQL l r) = Peg.mkEQ (eraseP l) (eraseP r) := by
  unfold mkEQL Peg.mkEQ
  rw [rankL_erase l, rankL_erase r]
  by_cases h : Peg.rank (eraseP l) > Peg.rank (eraseP r)
  · simp only [h, if_true]
    cases l <;> rfl
  · simp only [h, if_false]
    cases r <;> rfl

theorem mkEQL_cells (l r : LP) :
    cellsQ (mkEQL l r) = cellsP l ++ cellsP r ∨ cellsQ (mkEQL l r) = cellsP r ++ cellsP l := by
  unfold mkEQL
  by_cases h : rankL l > rankL r
  · right
    simp only [h, if_true]
    cases l <;> rfl
  · left
    simp only [h, if_false]
    cases r <;> rfl

theorem mkOrdL_erase (l r : LP) :
    eraseQ (mkGEL l r) = Peg.mkGE (eraseP l) (eraseP r) ∧ eraseQ (mkGTL l r) = Peg.mkGT (eraseP l) (eraseP r) ∧
    eraseQ (mkLEL l r) = Peg.mkLE (eraseP l) (eraseP r) ∧ eraseQ (mkLTL l r) = Peg.mkLT (eraseP l) (eraseP r) := by
  unfold mkGEL mkGTL mkLEL mkLTL Peg.mkGE Peg.mkGT Peg.mkLE Peg.mkLT
  rw [rankL_erase l, rankL_erase r]
  by_cases h : Peg.rank (eraseP l) > Peg.rank (eraseP r)
  · simp only [h, if_true]; exact ⟨rfl, rfl, rfl, rfl⟩
  · simp only [h, if_false]; exact ⟨rfl, rfl, rfl, rfl⟩

theorem mkOrdL_cells (l r : LP) (q : LQ) (hq : q = mkGEL l r ∨ q = mkGTL l r ∨ q = mkLEL l r ∨ q = mkLTL l r) :
    cellsQ q = cellsP l ++ cellsP r ∨ cellsQ q = cellsP r ++ cellsP l := by
  by_cases h : rankL l > rankL r
  · right
    rcases hq with rfl | rfl | rfl | rfl <;> simp only [mkGEL, mkGTL, mkLEL, mkLTL, h, if_true] <;> rfl
  · left
    rcases hq with rfl | rfl | rfl | rfl <;> simp only [mkGEL, mkGTL, mkLEL, mkLTL, h, if_false] <;> rfl

section
variable (c : Peg.Ctx) (lib : Lib) (al : ALib) (g : PS) (L : LSt) (tb te fuel : Nat) (buffer : String)

/-- the common shape of Action28–33: pop right, pop left, call a function that pushes one query built from both -/
theorem compare_sim (f : GCP → GCP → PS → M PS) (mkL : LP → LP → LQ) (mk : P → P → Q)
    (hf : ∀ (l r : LP) (g : PS), f (gcp l) (gcp r) g = push (GItem.query (gq (mkL l r))) g)
    (herase : ∀ l r, eraseQ (mkL l r) = mk (eraseP l) (eraseP r))
    (hcells : ∀ l r, cellsQ (mkL l r) = cellsP l ++ cellsP r ∨ cellsQ (mkL l r) = cellsP r ++ cellsP l)
    (hrep : Rep c g L []) :
    ASim c tb te
      (liftH (pop g) >>= fun r1 => liftH (GItem.asCompareParameter r1.1) >>= fun rp =>
        liftH (pop r1.2) >>= fun r2 => liftH (GItem.asCompareParameter r2.1) >>= fun lp =>
        liftH (f lp rp r2.2) >>= fun p => .ok p)
      (Peg.compareAction mk (eraseSt L tb te)) := by
  rcases pop_cases c g L [] tb te hrep with ⟨hg, hm⟩ | ⟨it, s, hs, hg, hm, hrep1, hwf⟩
  · simp only [Peg.compareAction, hg, hm, liftH_err, ebind_err]
    exact ASim.err rfl rfl
  · rcases asCP_cases it with ⟨pr, rfl, hga, hma⟩ | ⟨hga, hma⟩
    · rcases pop_cases c _ _ _ tb te hrep1 with ⟨hg2, hm2⟩ | ⟨it2, s2, hs2, hg2, hm2, hrep2, hwf2⟩
      · simp only [Peg.compareAction, hg, hm, hga, hma, hg2, hm2, liftH_ok, liftH_err, ebind_ok, ebind_err]
        exact ASim.err rfl rfl
      · rcases asCP_cases it2 with ⟨pl, rfl, hga2, hma2⟩ | ⟨hga2, hma2⟩
        · simp only [Peg.compareAction, hg, hm, hga, hma, hg2, hm2, hga2, hma2, liftH_ok, ebind_ok, hf]
          have key : ∀ (g2 : PS) (L2 : LSt), Rep c g2 L2 (cellsItem (.cp pl) ++ (cellsItem (.cp pr) ++ [])) →
              Rep c g2 L2 (cellsItem (.query (mkL pl pr)) ++ []) := by
            intro g2 L2 h
            show Rep c g2 L2 (cellsQ (mkL pl pr) ++ [])
            rcases hcells pl pr with h' | h'
            · rw [h']; exact h.assoc
            · rw [h']; exact h.swap
          obtain ⟨g', he, hr, hE⟩ := push_tie c _ _ [] (.query (mkL pl pr)) tb te (key _ _ hrep2) trivial
          have he' : push (GItem.query (gq (mkL pl pr))) _ = .ok g' := he
          rw [he']
          refine ASim.ok ⟨g', _, rfl, hr, ?_⟩
          rw [hE]
          show Peg.push (.query (eraseQ (mkL pl pr))) _ = _
          rw [herase]
        · simp only [Peg.compareAction, hg, hm, hga, hma, hg2, hm2, hga2, hma2, liftH_ok, liftH_err, ebind_ok, ebind_err]
          exact ASim.err rfl rfl
    · simp only [Peg.compareAction, hg, hm, hga, hma, liftH_ok, liftH_err, ebind_ok, ebind_err]
      exact ASim.err rfl rfl

theorem act28_tie (hal : ALibRep al c) (hrep : Rep c g L []) :
    ASim c tb te (goAct28 fuel lib al (Peg.textOf c.input tb te) (tb : Int) buffer g) (Peg.act28 c (eraseSt L tb te)) :=
  compare_sim c g L tb te al.pushCompareEQ mkEQL Peg.mkEQ hal.eq mkEQL_erase mkEQL_cells hrep

theorem act29_tie (hal : ALibRep al c) (hrep : Rep c g L []) :
    ASim c tb te (goAct29 fuel lib al (Peg.textOf c.input tb te) (tb : Int) buffer g) (Peg.act29 c (eraseSt L tb te)) :=
  compare_sim c g L tb te al.pushCompareNE (fun l r => .not (mkEQL l r)) (fun l r => .not (Peg.mkEQ l r)) hal.ne
    (fun l r => by show Q.not (eraseQ (mkEQL l r)) = _; rw [mkEQL_erase]) mkEQL_cells hrep

theorem act30_tie (hal : ALibRep al c) (hrep : Rep c g L []) :
    ASim c tb te (goAct30 fuel lib al (Peg.textOf c.input tb te) (tb : Int) buffer g) (Peg.act30 c (eraseSt L tb te)) :=
  compare_sim c g L tb te al.pushCompareLE mkLEL Peg.mkLE hal.le (fun l r => (mkOrdL_erase l r).2.2.1)
    (fun l r => mkOrdL_cells l r _ (Or.inr (Or.inr (Or.inl rfl)))) hrep

theorem act31_tie (hal : ALibRep al c) (hrep : Rep c g L []) :
    ASim c tb te (goAct31 fuel lib al (Peg.textOf c.input tb te) (tb : Int) buffer g) (Peg.act31 c (eraseSt L tb te)) :=
  compare_sim c g L tb te al.pushCompareLT mkLTL Peg.mkLT hal.lt (fun l r => (mkOrdL_erase l r).2.2.2)
    (fun l r => mkOrdL_cells l r _ (Or.inr (Or.inr (Or.inr rfl)))) hrep

theorem act32_tie (hal : ALibRep al c) (hrep : Rep c g L []) :
    ASim c tb te (goAct32 fuel lib al (Peg.textOf c.input tb te) (tb : Int) buffer g) (Peg.act32 c (eraseSt L tb te)) :=
  compare_sim c g L tb te al.pushCompareGE mkGEL Peg.mkGE hal.ge (fun l r => (mkOrdL_erase l r).1)
    (fun l r => mkOrdL_cells l r _ (Or.inl rfl)) hrep

theorem act33_tie (hal : ALibRep al c) (hrep : Rep c g L []) :
    ASim c tb te (goAct33 fuel lib al (Peg.textOf c.input tb te) (tb : Int) buffer g) (Peg.act33 c (eraseSt L tb te)) :=
  compare_sim c g L tb te al.pushCompareGT mkGTL Peg.mkGT hal.gt (fun l r => (mkOrdL_erase l r).2.1)
    (fun l r => mkOrdL_cells l r _ (Or.inr (Or.inl rfl))) hrep

theorem act34_tie (hlib : LibRep lib c) (hrep : Rep c g L []) :
    ASim c tb te (goAct34 fuel lib al (Peg.textOf c.input tb te) (tb : Int) buffer g) (Peg.act34 c (eraseSt L tb te)) := by
  rcases pop_cases c g L [] tb te hrep with ⟨hg, hm⟩ | ⟨it, s, hs, hg, hm, hrep1, hwf⟩
  · simp only [goAct34, Peg.act34, hg, hm, liftH_err, ebind_err]
    exact ASim.err rfl rfl
  · rcases asCP_cases it with ⟨pl, rfl, hga, hma⟩ | ⟨hga, hma⟩
    · simp only [goAct34, Peg.act34, hg, hm, hga, hma, liftH_ok, ebind_ok]
      exact ASim.ofSim' (pushCompareRegex_tie c lib hlib _ _ [] tb te pl _ hrep1)
    · simp only [goAct34, Peg.act34, hg, hm, hga, hma, liftH_ok, liftH_err, ebind_ok, ebind_err]
      exact ASim.err rfl rfl


/-! ### Action11 -/

/-- what the grammar guarantees when `Action11` runs: the two identifiers it pops are single nodes (two fresh
    identifiers, or the multi-name node the previous `Action11` pushed and a fresh identifier) -/
def pre11 (st : Peg.St) : Bool :=
  match st.stack with
  | .chain a :: .chain b :: _ => a.length == 1 && b.length == 1
  | _ => true

theorem eraseCh_length (ch : List LN) : (eraseCh ch).length = ch.length := by
  rw [eraseCh_eq_map, List.length_map]

theorem act11_tie (hrep : Rep c g L []) (hpre : pre11 (eraseSt L tb te) = true) :
    ASim c tb te (goAct11 fuel lib al (Peg.textOf c.input tb te) (tb : Int) buffer g) (Peg.act11 c (eraseSt L tb te)) := by
  rcases pop_cases c g L [] tb te hrep with ⟨hg, hm⟩ | ⟨it, s, hs, hg, hm, hrep1, hwf⟩
  · simp only [goAct11, Peg.act11, hg, hm, liftH_err, ebind_err]
    exact ASim.err rfl rfl
  · rcases asNode_cases it hwf with ⟨ch2, rfl, hne2, hga, hma⟩ | ⟨hga, hma⟩
    · rcases pop_cases c _ _ _ tb te hrep1 with ⟨hg2, hm2⟩ | ⟨it2, s2, hs2, hg2, hm2, hrep2, hwf2⟩
      · simp only [goAct11, Peg.act11, hg, hm, hga, hma, hg2, hm2, liftH_ok, liftH_err, ebind_ok, ebind_err]
        exact ASim.err rfl rfl
      · rcases asNode_cases it2 hwf2 with ⟨ch1, rfl, hne1, hga2, hma2⟩ | ⟨hga2, hma2⟩
        · simp only [goAct11, Peg.act11, hg, hm, hga, hma, hg2, hm2, hga2, hma2, liftH_ok, ebind_ok]
          have hs2' : s = s2 ++ [.chain ch1] := hs2
          have hst : (eraseSt L tb te).stack =
              .chain (eraseCh ch2) :: .chain (eraseCh ch1) :: (s2.map eraseItem).reverse := by
            simp only [eraseSt, hs, hs2', List.map_append, List.map_cons, List.map_nil, List.reverse_append,
              List.reverse_cons, List.reverse_nil, List.nil_append, List.cons_append, eraseItem]
          simp only [pre11, hst, eraseCh_length, Bool.and_eq_true, beq_iff_eq] at hpre
          obtain ⟨n2, rfl⟩ : ∃ n, ch2 = [n] := by
            cases ch2 with
            | nil => simp at hpre
            | cons n r => cases r with
              | nil => exact ⟨n, rfl⟩
              | cons _ _ => simp at hpre
          obtain ⟨n1, rfl⟩ : ∃ n, ch1 = [n] := by
            cases ch1 with
            | nil => simp at hpre
            | cons n r => cases r with
              | nil => exact ⟨n, rfl⟩
              | cons _ _ => simp at hpre
          exact ASim.ofSim' (pushChildMultiIdentifier_tie c _ _ [] tb te n1 n2 hrep2.assoc)
        · simp only [goAct11, Peg.act11, hg, hm, hga, hma, hg2, hm2, hga2, hma2, liftH_ok, liftH_err, ebind_ok, ebind_err]
          exact ASim.err rfl rfl
    · simp only [goAct11, Peg.act11, hg, hm, hga, hma, liftH_ok, liftH_err, ebind_ok, ebind_err]
      exact ASim.err rfl rfl

/-! ### Action16 -/

theorem act16_tie (hrep : Rep c g L []) :
    ASim c tb te (goAct16 fuel lib al (Peg.textOf c.input tb te) (tb : Int) buffer g) (Peg.act16 c (eraseSt L tb te)) := by
  rcases pop_cases c g L [] tb te hrep with ⟨hg, hm⟩ | ⟨it, s, hs, hg, hm, hrep1, hwf⟩
  · simp only [goAct16, Peg.act16, hg, hm, liftH_err, ebind_err]
    exact ASim.err rfl rfl
  · rcases asIdx_cases it with ⟨step, rfl, hga, hma⟩ | ⟨hga, hma⟩
    · rcases pop_cases c _ _ _ tb te hrep1 with ⟨hg2, hm2⟩ | ⟨it2, s2, hs2, hg2, hm2, hrep2, hwf2⟩
      · simp only [goAct16, Peg.act16, hg, hm, hga, hma, hg2, hm2, liftH_ok, liftH_err, ebind_ok, ebind_err]
        exact ASim.err rfl rfl
      · rcases asIdx_cases it2 with ⟨en, rfl, hga2, hma2⟩ | ⟨hga2, hma2⟩
        · rcases pop_cases c _ _ _ tb te hrep2 with ⟨hg3, hm3⟩ | ⟨it3, s3, hs3, hg3, hm3, hrep3, hwf3⟩
          · simp only [goAct16, Peg.act16, hg, hm, hga, hma, hg2, hm2, hga2, hma2, hg3, hm3, liftH_ok, liftH_err,
              ebind_ok, ebind_err]
            exact ASim.err rfl rfl
          · rcases asIdx_cases it3 with ⟨st, rfl, hga3, hma3⟩ | ⟨hga3, hma3⟩
            · simp only [goAct16, Peg.act16, hg, hm, hga, hma, hg2, hm2, hga2, hma2, hg3, hm3, hga3, hma3, liftH_ok,
                ebind_ok]
              have hrep4 : Rep c _ _ [] := hrep3
              cases hom : step.isOmitted with
              | true =>
                have h1 : (boundOf step).omitted = true := hom
                simp only [h1, if_true, ebind_ok]
                have hpos : decide ((1 : Int) ≥ 0) = true := by decide
                simp only [hpos, if_true, ge_iff_le, show ((0 : Int) ≤ 1) = True from by simp]
                exact ASim.ofSim' (pushSlicePositiveStepSubscript_tie c _ _ [] tb te st en _ hrep4)
              | false =>
                have h1 : (boundOf step).omitted = false := hom
                simp only [h1, if_false, ebind_ok, Bool.false_eq_true]
                by_cases hsg : step.number ≥ 0
                · have h2 : (boundOf step).number ≥ 0 := hsg
                  simp only [hsg, h2, decide_true, if_true]
                  exact ASim.ofSim' (pushSlicePositiveStepSubscript_tie c _ _ [] tb te st en step hrep4)
                · have h2 : ¬ (boundOf step).number ≥ 0 := hsg
                  simp only [hsg, h2, decide_false, if_false, Bool.false_eq_true]
                  exact ASim.ofSim' (pushSliceNegativeStepSubscript_tie c _ _ [] tb te st en step hrep4)
            · simp only [goAct16, Peg.act16, hg, hm, hga, hma, hg2, hm2, hga2, hma2, hg3, hm3, hga3, hma3, liftH_ok,
                liftH_err, ebind_ok, ebind_err]
              exact ASim.err rfl rfl
        · simp only [goAct16, Peg.act16, hg, hm, hga, hma, hg2, hm2, hga2, hma2, liftH_ok, liftH_err, ebind_ok, ebind_err]
          exact ASim.err rfl rfl
    · simp only [goAct16, Peg.act16, hg, hm, hga, hma, liftH_ok, liftH_err, ebind_ok, ebind_err]
      exact ASim.err rfl rfl

end
end ParserLayout
end JPV
