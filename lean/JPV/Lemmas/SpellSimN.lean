/-
SpellSimN — parse ∘ spell = build ∘ texts UP TO THE `omitted` FLAG of slice steps, for ALL well-formed
spelled paths (slices `[1:2:]` included, no `noColon` hypothesis): the mutual structural recursion over
`SStep`/`SQuery`/`SOperand`/`SOpPath` for the simulations `SimG` of SpellSimN2, the first step of a `$`-less
path on the empty stack, and the top level (`exec`, action 0, `outcomeOf`).

Export: `spell_parse_norm_all`.
-/
import JPV.Lemmas.SpellSimN2
import JPV.Lemmas.BuildWf
set_option linter.unusedSimpArgs false
namespace JPV.SP
open JPV.Peg JPV.PP JPV.Lex JPV.Build
open JPV.Print (fnText fnsText opText escRegex headChar)
open JPV.Spell (Quote Sign SInt STail SSub SName Cap SLit ChildForm WildForm Sep SStep SQuery SOperand SOpPath SPath
  optTxt tailP subP keyBody nameP sepP sepsP brP litP childP wildP escLitQ)

/-! ### the mutual structural recursion (no `noColon` hypotheses) -/

mutual
theorem sim_stepN (c : Ctx) (cfg : Cfg) : (s : SStep) → (ad : Bool) → Spell.stepWf ad s = true →
    stepExtS c.ext s → stepEnvS c.env s → SStepSimG false c cfg ad s
  | .child f k, ad, hwf, hext, _ => sim_step_plainG false c cfg ad _ rfl hwf hext
  | .wild f, ad, hwf, hext, _ => sim_step_plainG false c cfg ad _ rfl hwf hext
  | .multi lb n ns rb, ad, hwf, hext, _ => sim_step_plainG false c cfg ad _ rfl hwf hext
  | .union lb s ss rb, ad, hwf, hext, _ => sim_step_plainG false c cfg ad _ rfl hwf hext
  | .filter b0 b1 q b2 b3, ad, hwf, hext, henv =>
    sim_step_filterG false c cfg ad b0 b1 q b2 b3
      (sim_queryG c cfg q false (by rw [Spell.stepWf] at hwf; exact hwf)
        (by rw [stepExtS] at hext; exact hext) (by rw [stepEnvS] at henv; exact henv))
  | .desc s, true, hwf, _, _ => by simp [Spell.stepWf] at hwf
  | .desc s, false, hwf, hext, henv =>
    have hwf1 : Spell.stepWf true s = true := by simpa [Spell.stepWf] using hwf
    have hnd : ∀ s', s ≠ .desc s' := by
      intro s' he; subst he; simp [Spell.stepWf] at hwf1
    sim_step_descN c cfg s hnd
      (sim_stepN c cfg s true hwf1 (by rw [stepExtS] at hext; exact hext)
        (by rw [stepEnvS] at henv; exact henv))
theorem sim_stepsN (c : Ctx) (cfg : Cfg) : (ss : List SStep) → Spell.stepsWf ss = true →
    stepsExtS c.ext ss → stepsEnvS c.env ss → ∀ s ∈ ss, SStepSimG false c cfg false s
  | [], _, _, _ => fun _ hs => by cases hs
  | s :: ss, hwf, hext, henv =>
    have hwf' : Spell.stepWf false s = true ∧ Spell.stepsWf ss = true := by simpa [Spell.stepsWf] using hwf
    have hext' : stepExtS c.ext s ∧ stepsExtS c.ext ss := by rw [stepsExtS] at hext; exact hext
    have henv' : stepEnvS c.env s ∧ stepsEnvS c.env ss := by rw [stepsEnvS] at henv; exact henv
    fun x hx => (List.mem_cons.mp hx).elim (fun e => e ▸ sim_stepN c cfg s false hwf'.1 hext'.1 henv'.1)
      (fun hx => sim_stepsN c cfg ss hwf'.2 hext'.2 henv'.2 x hx)
theorem sim_queryG (c : Ctx) (cfg : Cfg) : (q : SQuery) → (z : Bool) → Spell.queryWf q = true →
    queryExtS c.ext q → queryEnvS c.env q → SQSimG z c cfg q
  | .or a l r b, z, hwf, hext, henv =>
    have hwf' : (Spell.queryWf a = true ∧ Spell.queryWf b = true) ∧ 1 ≤ Spell.level b := by
      simpa [Spell.queryWf] using hwf
    have hext' : queryExtS c.ext a ∧ queryExtS c.ext b := by rw [queryExtS] at hext; exact hext
    have henv' : queryEnvS c.env a ∧ queryEnvS c.env b := by rw [queryEnvS] at henv; exact henv
    sim_orG z c cfg a l r b (sim_queryG c cfg a z hwf'.1.1 hext'.1 henv'.1)
      (sim_queryG c cfg b false hwf'.1.2 hext'.2 henv'.2)
  | .and a l r b, z, hwf, hext, henv =>
    have hwf' : ((Spell.queryWf a = true ∧ Spell.queryWf b = true) ∧ 1 ≤ Spell.level a) ∧ 2 ≤ Spell.level b := by
      simpa [Spell.queryWf] using hwf
    have hext' : queryExtS c.ext a ∧ queryExtS c.ext b := by rw [queryExtS] at hext; exact hext
    have henv' : queryEnvS c.env a ∧ queryEnvS c.env b := by rw [queryEnvS] at henv; exact henv
    sim_andG z c cfg a l r b (sim_queryG c cfg a z hwf'.1.1.1 hext'.1 henv'.1)
      (sim_queryG c cfg b false hwf'.1.1.2 hext'.2 henv'.2)
  | .exist neg p, z, hwf, hext, henv =>
    sim_existG z c cfg neg p (sim_paramG c cfg p z (by rw [Spell.queryWf] at hwf; exact hwf)
      (by rw [queryExtS] at hext; exact hext) (by rw [queryEnvS] at henv; exact henv))
  | .cmp op l bl br r, z, hwf, hext, henv =>
    have hwf' : Spell.operandWf (Print.isOrd op) l = true ∧ Spell.operandWf (Print.isOrd op) r = true := by
      simpa [Spell.queryWf] using hwf
    have hext' : operandExtS c.ext l ∧ operandExtS c.ext r := by rw [queryExtS] at hext; exact hext
    have henv' : operandEnvS c.env l ∧ operandEnvS c.env r := by rw [queryEnvS] at henv; exact henv
    sim_cmpG z c cfg op l bl br r (sim_operandG c cfg l z _ hwf'.1 hext'.1 henv'.1)
      (sim_operandG c cfg r false _ hwf'.2 hext'.2 henv'.2)
  | .regex p bl br re, z, hwf, hext, henv =>
    have hwf' : Spell.opathWf p = true ∧ Print.regexOK re = true := by simpa [Spell.queryWf] using hwf
    have hext' : opathExtS c.ext p ∧ c.ext.regexCompile re = .ok := by rw [queryExtS] at hext; exact hext
    sim_regexG z c cfg p bl br re (sim_paramG c cfg p z hwf'.1 hext'.1
      (by rw [queryEnvS] at henv; exact henv)) hwf'.2 hext'.2
  | .paren l q r, z, hwf, hext, henv =>
    sim_parenG z c cfg l q r (sim_queryG c cfg q z (by rw [Spell.queryWf] at hwf; exact hwf)
      (by rw [queryExtS] at hext; exact hext) (by rw [queryEnvS] at henv; exact henv))
theorem sim_operandG (c : Ctx) (cfg : Cfg) : (o : SOperand) → (z : Bool) → (ord : Bool) →
    Spell.operandWf ord o = true → operandExtS c.ext o → operandEnvS c.env o → SOperandSimG z c cfg o
  | .lit l, z, _, _, hext, _ => sim_operand_litG z c cfg l (by rw [operandExtS] at hext; exact hext)
  | .path p, z, _, hwf, hext, henv =>
    sim_operand_pathG z c cfg p (sim_paramG c cfg p z (by rw [Spell.operandWf] at hwf; exact hwf)
      (by rw [operandExtS] at hext; exact hext) (by rw [operandEnvS] at henv; exact henv))
theorem sim_paramG (c : Ctx) (cfg : Cfg) : (p : SOpPath) → (z : Bool) → Spell.opathWf p = true →
    opathExtS c.ext p → opathEnvS c.env p → SParamSimG z c cfg p
  | .mk h ss fns, z, hwf, hext, henv =>
    have hwf' : Spell.stepsWf ss = true ∧ fns.all Print.fnNameOK = true := by simpa [Spell.opathWf] using hwf
    have henv' : stepsEnvS c.env ss ∧ ∀ f ∈ fns, fnKindOK c.env f := by rw [opathEnvS] at henv; exact henv
    paramSimG z c cfg h ss fns
      (sim_stepsN c cfg ss hwf'.1 (by rw [opathExtS] at hext; exact hext) henv'.1) henv'.2
end

/-! ### the end of the run: action 0, the final check of `exec`, `outcomeOf` -/

/-- the final check of `exec` -/
def finF (st : St) : M (List N) :=
  match st.root with
  | some (n :: rest) => .ok (n :: rest)
  | _ => .error (.panic .nilRoot)

theorem exec_eqF (c : Ctx) (toks : List Tok) :
    exec c toks = (execFrom c ⟨[], [], none, 0, 0⟩ toks >>= finF) := rfl

theorem finF_norm (st : St) : finF (normSt st) = Except.map normCh (finF st) := by
  obtain ⟨stk, sv, rt, tb, te⟩ := st
  cases rt with
  | none => rfl
  | some l =>
    cases l with
    | nil => rfl
    | cons n rest => rfl

theorem map_bind_finF (X : M St) : Except.map normCh (X >>= finF) = (Except.map normSt X >>= finF) := by
  cases X with
  | error e => rfl
  | ok st => exact (finF_norm st).symm

theorem exec_finishF (c : Ctx) (L : List N) (hL : L ≠ []) (tb te : Nat) :
    (execFrom c ⟨[.chain L], [], none, tb, te⟩ [.action 0] >>= finF) = .ok (connChain "" (delRoot L)) :=
  exec_finish c L hL tb te

theorem normOutcome_stop (inp : Array Char) (s : Stop) : normOutcome (outcomeOfStop inp s) = outcomeOfStop inp s := by
  cases s <;> rfl

theorem normOutcome_outcomeOf (inp : Array Char) (X : M (List N)) :
    normOutcome (outcomeOf inp X) = outcomeOf inp (Except.map normCh X) := by
  cases X with
  | error s => exact normOutcome_stop inp s
  | ok ch => rfl

/-- the run ends with the chain `L` on the stack and action 0 -/
theorem finish_ok (inp : Array Char) (c : Ctx) (toks : List Tok) (L : List N) (tb' te' : Nat) (ch : List N) (pos : Nat)
    (hL : L ≠ [])
    (ex : Except.map normSt (execFrom c ⟨[], [], none, 0, 0⟩ toks) =
      Except.map normSt (execFrom c ⟨[.chain L], [], none, tb', te'⟩ [.action 0]))
    (hch : connChain "" (delRoot L) = ch) :
    normOutcome (outcomeOf inp (exec c toks)) = normOutcome (outcomeOfBuild inp pos (.ok ch)) := by
  rw [normOutcome_outcomeOf, exec_eqF, map_bind_finF, ex, ← map_bind_finF, exec_finishF _ _ hL, hch]
  rfl

/-- the run stops with the error of `Build` -/
theorem finish_err (inp : Array Char) (c : Ctx) (toks : List Tok) (pos : Nat) (e : ParseErr)
    (ex : Except.map normSt (execFrom c ⟨[], [], none, 0, 0⟩ toks) = .error (stopOf pos e)) :
    normOutcome (outcomeOf inp (exec c toks)) = normOutcome (outcomeOfBuild inp pos (.error e)) := by
  rw [normOutcome_outcomeOf, exec_eqF, map_bind_finF, ex]
  exact (normOutcome_stop inp (stopOf pos e)).symm

/-! ### the whole path with its `$` -/

theorem spell_parse_norm_dollar (env : Env) (ext : Peg.Ext) (cfg : Cfg) (lead : Nat) (ss : List SStep) (fns : List Fn)
    (trail : Nat) (hwf : Spell.wf ⟨lead, true, ss, fns, trail⟩ = true) (hext : ExtOKS ext ⟨lead, true, ss, fns, trail⟩)
    (henv : EnvOKS env ⟨lead, true, ss, fns, trail⟩) :
    ∃ pos, normOutcome (parseModel env ext cfg (Spell.printS ⟨lead, true, ss, fns, trail⟩)) =
      normOutcome (outcomeOfBuild (Spell.print ⟨lead, true, ss, fns, trail⟩).toArray pos
        (Build.build env cfg (Spell.texts ⟨lead, true, ss, fns, trail⟩))) := by
  have hrec := recognise_spell _ hwf
  have hwf' : Spell.stepsWf ss = true ∧ fns.all Print.fnNameOK = true := by
    simpa [Spell.wf] using hwf
  have hext' : stepsExtS ext ss := hext
  have henv' : stepsEnvS env ss ∧ ∀ f ∈ fns, fnKindOK env f := henv
  have hs := sim_stepsN ⟨env, ext, cfg.accessor, (Spell.print ⟨lead, true, ss, fns, trail⟩).toArray⟩ cfg ss
    hwf'.1 hext' henv'.1
  have hsfx : Sfx (Spell.print ⟨lead, true, ss, fns, trail⟩).toArray lead
      (Spell.opath (.mk .root ss fns) ++ Spell.blanks trail) := by
    have h0 := Sfx.zero (Spell.print ⟨lead, true, ss, fns, trail⟩)
    have h1 : Spell.print ⟨lead, true, ss, fns, trail⟩ =
        Spell.blanks lead ++ (Spell.opath (.mk .root ss fns) ++ Spell.blanks trail) := by
      simp [Spell.print, Spell.topSteps, Spell.opath, headChar]
    have h2 := h0
    rw [h1] at h2
    rw [h1]
    simpa using sfx_blanks h2
  obtain ⟨pos, hcore⟩ := path_coreN ⟨env, ext, cfg.accessor, (Spell.print ⟨lead, true, ss, fns, trail⟩).toArray⟩ cfg
    true .root ss fns hs henv'.2 hsfx
  obtain ⟨hok, herr⟩ := hcore [] none 0 0
  refine ⟨pos, ?_⟩
  have htexts : Spell.texts ⟨lead, true, ss, fns, trail⟩ = Spell.opathT true (.mk .root ss fns) := by
    simp [Spell.texts, Spell.topStepsT, Spell.opathT]
  rw [parseModel_spell, parseInput_of_recognise env ext cfg hrec, tkTopS_dollar, Build.build, htexts]
  cases hb : buildPath env cfg true (Spell.opathT true (.mk .root ss fns)) with
  | ok ch =>
    obtain ⟨sp, hsp, hall, tb', te', ex⟩ := hok ch hb
    have hb' := buildPath_of_sp' env cfg true cfg.accessor .root _ fns sp hsp hall
    rw [opathT_mk, hb'] at hb
    cases hb
    refine finish_ok _ _ _ _ tb' te' _ pos (markVg_ne_nil (linkedOf_ne_nil _ _ _ _)) (ex _) ?_
    have hnice := stepsPre_nice env cfg _ sp hsp
    have hTA : TA cfg.accessor (linkedOf cfg.accessor .root sp fns) := by
      unfold linkedOf
      apply TA.linkPres
      · intro n hn; simp at hn; subst hn; rfl
      · intro q hq
        rcases List.mem_append.mp hq with hq | hq
        · exact (hnice q hq).1
        · obtain ⟨f, _, rfl⟩ := List.mem_map.mp hq
          cases f <;> trivial
    have := (hTA.markVg).delRoot
    show connChain "" (delRoot (Build.markVg (linkedOf cfg.accessor .root sp fns))) =
      ccChain true "" (setAccChain (true && cfg.accessor)
        (delRoot (Build.markVg (linkedOf cfg.accessor .root sp fns))))
    simp only [ccChain, Bool.true_and, if_true, this.setAcc]
  | error e => exact finish_err _ _ _ pos e (herr e hb _)

/-! ### the whole path without its `$`: the first step on the empty stack -/

/-- `path_core0f` of SpellSim0 up to the flag -/
theorem path_core0fN (c : Ctx) (cfg : Cfg) (s : SStep) (ss : List SStep) (fns : List Fn)
    (hnd : ∀ s', s ≠ .desc s') (h0 : SStepSimG true c cfg true s)
    (hs : ∀ x ∈ ss, SStepSimG false c cfg false x) (hk : ∀ f ∈ fns, fnKindOK c.env f) {p : Nat} {r : List Char}
    (hsfx : Sfx c.input p (Spell.step true s ++ (Spell.steps ss ++ (fnsText fns ++ r)))) :
    ∃ pos, ∀ (rt : Option (List N)) (tb te : Nat),
    (∀ ch, buildPath c.env cfg true
        (.mk .root (Spell.stepT true true s :: Spell.stepsT true ss) (fns.map Print.fnT)) = .ok ch →
      ∃ p0 sp, NicePre p0 ∧ isFnPre p0 = false ∧
        stepsPre c.env cfg (Spell.stepT true true s :: Spell.stepsT true ss) = .ok (p0 :: sp) ∧
        (∀ f ∈ fns, fnFound c.env f = true) ∧
        ∃ tb' te', ∀ rest, Except.map normSt (execFrom c ⟨[], [], rt, tb, te⟩
            (tkStepS true p s ++ (tkStepsS (p + (Spell.step true s).length) ss ++
              (toksStar fnText tkFn fns (p + (Spell.step true s).length + (Spell.steps ss).length) ++
                ([.action 2] ++ rest))))) =
          Except.map normSt (execFrom c ⟨[.chain (Build.markVg (linkPres c.acc [rawOf c.acc p0] (sp ++ fns.map fnPreT)))],
            [], rt, tb', te'⟩ rest)) ∧
    (∀ e, buildPath c.env cfg true
        (.mk .root (Spell.stepT true true s :: Spell.stepsT true ss) (fns.map Print.fnT)) = .error e →
      ∀ rest, Except.map normSt (execFrom c ⟨[], [], rt, tb, te⟩
          (tkStepS true p s ++ (tkStepsS (p + (Spell.step true s).length) ss ++
            (toksStar fnText tkFn fns (p + (Spell.step true s).length + (Spell.steps ss).length) ++
              ([.action 2] ++ rest))))) = .error (stopOf pos e)) := by
  obtain ⟨pos0, S0⟩ := h0 p _ hsfx
  cases hpre0 : stepPre c.env cfg (Spell.stepT true true s) with
  | error e0 =>
    have hsp' : stepsPre c.env cfg (Spell.stepT true true s :: Spell.stepsT true ss) = .error e0 := by
      rw [stepsPre, hpre0]; rfl
    have hb := buildPath_steps_err' c.env cfg true .root _ (fns.map Print.fnT) e0 hsp'
    refine ⟨pos0, fun rt tb te => ⟨fun ch hch => (by rw [hb] at hch; cases hch), fun e he => ?_⟩⟩
    rw [hb] at he
    cases he
    exact fun rest => S0.err0 e0 hpre0 rt tb te _
  | ok pres0 =>
  obtain ⟨t0, vg0, mk0, rfl, hmk0⟩ := stepPre_single c.env cfg _ (stepT_not_desc_s true true s hnd) pres0 hpre0
  have h1 := hsfx.append
  obtain ⟨pos, hss⟩ := stepsSim_of_N c cfg ss _ _ hs h1
  refine ⟨pos, fun rt tb te => ?_⟩
  obtain ⟨tb0, te0, e0⟩ := S0.ok0 _ hpre0 rt tb te
  simp only [List.map_cons, List.map_nil] at e0
  have h2 := h1.append
  rw [fnsText_eq_flat] at h2
  cases hsp : stepsPre c.env cfg (Spell.stepsT true ss) with
  | error e1 =>
    have hsp' : stepsPre c.env cfg (Spell.stepT true true s :: Spell.stepsT true ss) = .error e1 := by
      rw [stepsPre, hpre0, hsp]; rfl
    have hb := buildPath_steps_err' c.env cfg true .root _ (fns.map Print.fnT) e1 hsp'
    refine ⟨fun ch hch => (by rw [hb] at hch; cases hch), fun e he => ?_⟩
    rw [hb] at he
    cases he
    have ex := hss.err _ hsp [.chain [rawOf c.acc (.node t0 vg0 mk0)]] [] rt tb0 te0 (by simp)
    exact fun rest => by rw [e0, ex]
  | ok sp =>
    have hsp' : stepsPre c.env cfg (Spell.stepT true true s :: Spell.stepsT true ss) =
        .ok (.node t0 vg0 mk0 :: sp) := by
      rw [stepsPre, hpre0, hsp]; rfl
    have hnice := stepsPre_nice c.env cfg _ sp hsp
    obtain ⟨groups, hg1, hg2, tb1, te1, e1⟩ := hss.ok sp hsp [.chain [rawOf c.acc (.node t0 vg0 mk0)]] [] rt tb0 te0
      (by simp)
    by_cases hall : ∀ f ∈ fns, fnFound c.env f = true
    · have hb := buildPath_of_sp' c.env cfg true c.acc .root _ fns _ hsp' hall
      refine ⟨fun ch _ => ⟨.node t0 vg0 mk0, sp, hmk0, rfl, hsp', hall, ?_⟩,
        fun e he => (by rw [hb] at he; cases he)⟩
      obtain ⟨tb2, te2, e2⟩ := exec_fns c [] rt fns (p + (Spell.step true s).length + (Spell.steps ss).length) r
        (groupItems c.acc groups ++ [.chain [rawOf c.acc (.node t0 vg0 mk0)]]) tb1 te1
        (fun f hf => ⟨hk f hf, hall f hf⟩) h2
      refine ⟨tb2, te2, fun rest => ?_⟩
      rw [e0, e1, e2]
      simp only [List.singleton_append, execFrom_action]
      have hlink : linkAll [rawOf c.acc (.node t0 vg0 mk0)]
          (groups.map (fun g => Item.chain (g.map (rawOf c.acc))) ++
            fns.map (fun f => Item.chain [rawOf c.acc (fnPreT f)])) =
          .ok (linkPres c.acc [rawOf c.acc (.node t0 vg0 mk0)] (sp ++ fns.map fnPreT)) := by
        rw [linkAll_append, linkAll_groups c.acc groups _ (fun g hg => ⟨hg2 g hg, fun q hq =>
          hnice q (by rw [← hg1]; exact List.mem_flatten.mpr ⟨g, hg, hq⟩)⟩)]
        simp only [bind, Except.bind]
        rw [linkAll_fns, hg1, linkPres_append, linkPres_nodes c.acc sp _ (fun q hq => (hnice q hq).2)]
      have hstack : (fns.map (fun f => Item.chain [rawOf c.acc (fnPreT f)])).reverse ++
          (groupItems c.acc groups ++ [Item.chain [rawOf c.acc (.node t0 vg0 mk0)]]) =
          (groups.map (fun g => Item.chain (g.map (rawOf c.acc))) ++
            fns.map (fun f => Item.chain [rawOf c.acc (fnPreT f)])).reverse ++
              [Item.chain [rawOf c.acc (.node t0 vg0 mk0)]] := by
        simp [groupItems]
      rw [hstack, act2_eq c _ _ _ (by simp) hlink]
      rfl
    · obtain ⟨fs1, f, fs2, rfl, hf1, hf2⟩ := fns_split c.env fns hall
      have hb := buildPath_missing_of_sp' c.env cfg true .root _ fs1 f fs2 _ hsp' hf1 hf2
      refine ⟨fun ch hch => (by rw [hb] at hch; cases hch), fun e he => ?_⟩
      rw [hb] at he
      cases he
      intro rest
      rw [e0, e1, stopOf_fn _ 0]
      exact map_err_of (exec_fns_missing c [] rt fs1 f fs2 _ r _ tb1 te1
        (fun g hg => ⟨hk g (by simp [hg]), hf1 g hg⟩) (hk f (by simp)) hf2 h2 _)

/-- the first step of a `$`-less path, on the empty stack at top level -/
theorem sim_first_stepN (c : Ctx) (cfg : Cfg) (s : SStep) (hd : Spell.isDesc s = false)
    (hwf : Spell.stepWf false s = true) (hext : stepExtS c.ext s) (henv : stepEnvS c.env s) :
    SStepSimG true c cfg true s := by
  cases s with
  | child f k => exact sim_step_plainG true c cfg true _ rfl (by rw [stepWf_plain _ rfl true false]; exact hwf) hext
  | wild f => exact sim_step_plainG true c cfg true _ rfl (by rw [stepWf_plain _ rfl true false]; exact hwf) hext
  | multi lb n ns rb =>
    exact sim_step_plainG true c cfg true _ rfl (by rw [stepWf_plain _ rfl true false]; exact hwf) hext
  | union lb s ss' rb =>
    exact sim_step_plainG true c cfg true _ rfl (by rw [stepWf_plain _ rfl true false]; exact hwf) hext
  | filter b0 b1 q b2 b3 =>
    exact sim_step_filterG true c cfg true b0 b1 q b2 b3
      (sim_queryG c cfg q true (by rw [Spell.stepWf] at hwf; exact hwf)
        (by rw [stepExtS] at hext; exact hext) (by rw [stepEnvS] at henv; exact henv))
  | desc s' => simp [Spell.isDesc] at hd

theorem spell_parse_norm_nodollar (env : Env) (ext : Peg.Ext) (cfg : Cfg) (lead : Nat) (s : SStep) (ss : List SStep)
    (fns : List Fn) (trail : Nat) (hwf : Spell.wf ⟨lead, false, s :: ss, fns, trail⟩ = true)
    (hext : ExtOKS ext ⟨lead, false, s :: ss, fns, trail⟩) (henv : EnvOKS env ⟨lead, false, s :: ss, fns, trail⟩) :
    ∃ pos, normOutcome (parseModel env ext cfg (Spell.printS ⟨lead, false, s :: ss, fns, trail⟩)) =
      normOutcome (outcomeOfBuild (Spell.print ⟨lead, false, s :: ss, fns, trail⟩).toArray pos
        (Build.build env cfg (Spell.texts ⟨lead, false, s :: ss, fns, trail⟩))) := by
  have hrec := recognise_spell _ hwf
  generalize hA : (Spell.print ⟨lead, false, s :: ss, fns, trail⟩).toArray = inp at hrec ⊢
  have hwf' : ((Spell.stepWf false s = true ∧ Spell.stepsWf ss = true) ∧ fns.all Print.fnNameOK = true) ∧
      Spell.isDesc s = false := by
    simpa [Spell.wf, Spell.stepsWf] using hwf
  have hext' : stepExtS ext s ∧ stepsExtS ext ss := by
    have := hext; unfold ExtOKS at this; rw [stepsExtS] at this; exact this
  have henv' : (stepEnvS env s ∧ stepsEnvS env ss) ∧ ∀ f ∈ fns, fnKindOK env f := by
    have := henv; unfold EnvOKS at this; rw [stepsEnvS] at this; exact this
  have hs' := sim_stepsN ⟨env, ext, cfg.accessor, inp⟩ cfg ss hwf'.1.1.2 hext'.2 henv'.1.2
  have hnd : ∀ s', s ≠ .desc s' := by
    intro s' h; subst h; simp [Spell.isDesc] at hwf'
  have h0 : SStepSimG true ⟨env, ext, cfg.accessor, inp⟩ cfg true s :=
    sim_first_stepN ⟨env, ext, cfg.accessor, inp⟩ cfg s hwf'.2 hwf'.1.1.1 hext'.1 henv'.1.1
  have hsfx : Sfx inp lead (Spell.step true s ++ (Spell.steps ss ++ (fnsText fns ++ Spell.blanks trail))) := by
    have h1 : Spell.print ⟨lead, false, s :: ss, fns, trail⟩ =
        Spell.blanks lead ++ (Spell.step true s ++ (Spell.steps ss ++ (fnsText fns ++ Spell.blanks trail))) := by
      simp [Spell.print, Spell.topSteps]
    have h2 := Sfx.zero (Spell.print ⟨lead, false, s :: ss, fns, trail⟩)
    rw [hA] at h2
    rw [h1] at h2
    simpa using sfx_blanks h2
  obtain ⟨pos, hcore⟩ := path_core0fN ⟨env, ext, cfg.accessor, inp⟩ cfg s ss fns hnd h0 hs' henv'.2 hsfx
  obtain ⟨hok, herr⟩ := hcore none 0 0
  refine ⟨pos, ?_⟩
  have htexts : Spell.texts ⟨lead, false, s :: ss, fns, trail⟩ =
      .mk .root (Spell.stepT true true s :: Spell.stepsT true ss) (fns.map Print.fnT) := by
    simp [Spell.texts, Spell.topStepsT, fnW_true]
  have hpm : parseModel env ext cfg (Spell.printS ⟨lead, false, s :: ss, fns, trail⟩) = parseInput env ext cfg inp := by
    rw [parseModel_spell, hA]
  rw [hpm, parseInput_of_recognise env ext cfg hrec, tkTopS_nodollar, Build.build, htexts]
  cases hb : buildPath env cfg true
      (.mk .root (Spell.stepT true true s :: Spell.stepsT true ss) (fns.map Print.fnT)) with
  | ok ch =>
    obtain ⟨p0, sp, hn0, hf0, hsp, hall, tb', te', ex⟩ := hok ch hb
    have hb' := buildPath_of_sp' env cfg true cfg.accessor .root _ fns _ hsp hall
    rw [hb'] at hb
    cases hb
    have hne : linkPres cfg.accessor [rawOf cfg.accessor p0] (sp ++ fns.map fnPreT) ≠ [] :=
      linkPres_ne_nil _ _ _ (by simp)
    refine finish_ok _ _ _ _ tb' te' _ pos (markVg_ne_nil hne) (ex _) ?_
    have hnice := stepsPre_nice env cfg _ _ hsp
    have hTA : TA cfg.accessor (linkPres cfg.accessor [rawOf cfg.accessor p0] (sp ++ fns.map fnPreT)) := by
      apply TA.linkPres
      · intro n hn
        simp only [List.mem_singleton] at hn
        subst hn
        cases p0 with
        | node t vg mk =>
          have hm : NiceMk mk := hn0
          simp only [rawOf, nodeWith]
          rw [hm.acc]
        | ffn t n => cases hf0
        | afn t n => cases hf0
      · intro q hq
        rcases List.mem_append.mp hq with hq | hq
        · exact (hnice q (List.mem_cons_of_mem _ hq)).1
        · obtain ⟨f, _, rfl⟩ := List.mem_map.mp hq
          cases f <;> trivial
    have := (hTA.markVg).delRoot
    rw [List.cons_append, headless_eq cfg.accessor p0 hn0 hf0]
    show connChain "" (delRoot (Build.markVg
        (linkPres cfg.accessor [rawOf cfg.accessor p0] (sp ++ fns.map fnPreT)))) =
      ccChain true "" (setAccChain (true && cfg.accessor)
        (delRoot (Build.markVg (linkPres cfg.accessor [rawOf cfg.accessor p0] (sp ++ fns.map fnPreT)))))
    simp only [ccChain, Bool.true_and, if_true, this.setAcc]
  | error e => exact finish_err _ _ _ pos e (herr e hb _)

/-- **parse ∘ spell = build ∘ texts up to the `omitted` flag of slice steps**, on the WHOLE domain of spelled
    paths (slices `[1:2:]` included): `Parse` on the spelling answers the chain `Build.build` answers on the
    texts recorded for that spelling — up to `normCh` —, or the error `Build.build` answers -/
theorem spell_parse_norm_all' (env : Env) (ext : Peg.Ext) (cfg : Cfg) (a : SPath) (hwf : Spell.wf a = true)
    (hext : ExtOKS ext a) (henv : EnvOKS env a) :
    ∃ pos, normOutcome (parseModel env ext cfg (Spell.printS a)) =
      normOutcome (outcomeOfBuild (Spell.print a).toArray pos (Build.build env cfg (Spell.texts a))) := by
  obtain ⟨lead, dollar, steps, fns, trail⟩ := a
  cases dollar with
  | true => exact spell_parse_norm_dollar env ext cfg lead steps fns trail hwf hext henv
  | false =>
    cases steps with
    | nil => simp [Spell.wf] at hwf
    | cons s ss => exact spell_parse_norm_nodollar env ext cfg lead s ss fns trail hwf hext henv

/-! ### `Build` never sets the flag: its trees are fixed by `normCh` -/

section clean
open BD (bind_ok stepPre_union stepPre_desc buildP_eq buildPath_eq headPreOf mkInfos_fst)

/-- no slice step of the chain carries the flag -/
def CleanCh (ch : List N) : Prop := ∀ n ∈ ch, normN n = n

theorem CleanCh.eq : ∀ {ch : List N}, CleanCh ch → normCh ch = ch
  | [], _ => by rw [normCh]
  | n :: rest, h => by
    rw [normCh, h n (by simp), CleanCh.eq (fun m hm => h m (List.mem_cons_of_mem _ hm))]

theorem normN_setVg_cl (n : N) : normN n.setVg = (normN n).setVg := by
  cases n <;> simp [N.setVg, normN]

theorem CleanCh.markVg {ch : List N} (h : CleanCh ch) : CleanCh (Build.markVg ch) := by
  cases ch with
  | nil => exact h
  | cons n rest =>
    simp only [Build.markVg]
    split
    · intro m hm
      rcases List.mem_cons.mp hm with rfl | hm
      · rw [normN_setVg_cl, h n (by simp)]
      · exact h m (List.mem_cons_of_mem _ hm)
    · exact h

theorem CleanCh.finish {ch : List N} (h : CleanCh ch) : CleanCh (Build.finish ch) := by
  unfold Build.finish
  apply CleanCh.markVg
  intro n hn
  exact h n (BW.deleteHead_sub ch n hn)

theorem CleanCh.snoc {ch : List N} {n : N} (h : CleanCh ch) (hn : normN n = n) : CleanCh (ch ++ [n]) := by
  intro m hm
  rcases List.mem_append.mp hm with hm | hm
  · exact h m hm
  · simp only [List.mem_singleton] at hm; subst hm; exact hn

def CleanPre : Pre → Prop
  | .node _ _ mk => ∀ i, normN (mk i) = mk i
  | _ => True

theorem assemble_clean (env : Env) (l : List (Pre × Info)) :
    ∀ ch c, (∀ x ∈ l, CleanPre x.1) → CleanCh ch → assemble env l ch = .ok c → CleanCh c := by
  induction l with
  | nil =>
    intro ch c _ hch ha
    simp only [assemble, Except.ok.injEq] at ha
    subst ha
    exact hch
  | cons x l ih =>
    intro ch c hl hch ha
    obtain ⟨p, i⟩ := x
    have hp := hl (p, i) List.mem_cons_self
    have hl' : ∀ x ∈ l, CleanPre x.1 := fun y hy => hl y (List.mem_cons_of_mem _ hy)
    cases p with
    | node t vg mk =>
      simp only [assemble] at ha
      exact ih _ c hl' (hch.snoc (hp i)) ha
    | ffn t name =>
      simp only [assemble] at ha
      cases hf : env.ffn name with
      | none => rw [hf] at ha; cases ha
      | some f =>
        rw [hf] at ha
        exact ih _ c hl' (hch.snoc (by rw [normN])) ha
    | afn t name =>
      simp only [assemble] at ha
      cases hf : env.afn name with
      | none => rw [hf] at ha; cases ha
      | some f =>
        rw [hf] at ha
        refine ih _ c hl' ?_ ha
        intro n hn
        simp only [List.mem_singleton] at hn
        subst hn
        rw [normN, hch.finish.eq]

def CleanPres (sp : List Pre) : Prop := ∀ p ∈ sp, CleanPre p

theorem cleanPres_single {t : String} {vg : Bool} {mk : Info → N} (h : ∀ i, normN (mk i) = mk i) :
    CleanPres [.node t vg mk] := by
  intro p hp
  simp only [List.mem_singleton] at hp
  subst hp
  exact h

theorem normSub_subI (s : Sub) : normSub (Build.subI s) = Build.subI s := by
  cases s with
  | idx n => rfl
  | wild => rfl
  | slice s e t =>
    simp only [Build.subI]
    split <;> rfl

theorem path_clean_glue (env : Env) (cfg : Cfg) (top : Bool) (h : Head) (fns : List Fn) (sp : List Pre)
    (c : List N) (hs : CleanPres sp)
    (hb : assemble env (mkInfos cfg top (headPreOf h :: sp ++ fns.map fnPre)) [] = .ok c) :
    CleanCh (Build.finish c) := by
  have hfst := mkInfos_fst cfg top (headPreOf h :: sp ++ fns.map fnPre)
  generalize mkInfos cfg top (headPreOf h :: sp ++ fns.map fnPre) = L at hb hfst
  refine (assemble_clean env L [] c ?_ (fun n hn => by cases hn) hb).finish
  intro x hx
  have hx1 : x.1 ∈ headPreOf h :: sp ++ fns.map fnPre := by
    rw [← hfst]; exact List.mem_map.mpr ⟨x, hx, rfl⟩
  rcases List.mem_cons.mp hx1 with e | hx1
  · rw [e]
    cases h <;> (intro i; simp only [normN])
  · rcases List.mem_append.mp hx1 with hx1 | hx1
    · exact hs _ hx1
    · obtain ⟨fn, _, e⟩ := List.mem_map.mp hx1
      rw [← e]
      cases fn <;> trivial

theorem normQ_cmp_of {x y : P} (c : Cmp) (hx : normP x = x) (hy : normP y = y) : normQ (.cmp x y c) = .cmp x y c := by
  rw [normQ, hx, hy]

theorem normQ_mkEq (l r : P) (hl : normP l = l) (hr : normP r = r) : normQ (mkEq l r) = mkEq l r := by
  cases l <;> cases r <;> simp only [mkEq, Build.rank] <;>
    first
    | exact normQ_cmp_of _ hl hr
    | exact normQ_cmp_of _ hr hl
    | (simp; first | exact normQ_cmp_of _ hl hr | exact normQ_cmp_of _ hr hl)

theorem normQ_mkOrd (op : CmpOp) (l r : P) (hl : normP l = l) (hr : normP r = r) :
    normQ (mkOrd op l r) = mkOrd op l r := by
  cases op <;> simp only [mkOrd] <;> split <;>
    first | exact normQ_cmp_of _ hr hl | exact normQ_cmp_of _ hl hr

theorem cmp_clean_glue (op : CmpOp) (tl tr : P) (tq : Q) (hl : normP tl = tl) (hr : normP tr = tr)
    (hq : (if (isCur tl && isCur tr) = true then Except.error ParseErr.twoCurrentNodes else
            match op with
            | .eq => Except.ok (mkEq tl tr)
            | .ne => .ok (.not (mkEq tl tr))
            | _ => .ok (mkOrd op tl tr)) = Except.ok tq) :
    normQ tq = tq := by
  by_cases hc : (isCur tl && isCur tr) = true
  · rw [if_pos hc] at hq; cases hq
  · rw [if_neg hc] at hq
    cases op <;> cases hq <;>
      first
      | exact normQ_mkEq tl tr hl hr
      | (rw [normQ, normQ_mkEq tl tr hl hr])
      | exact normQ_mkOrd _ tl tr hl hr

theorem buildP_clean_glue (single : Bool) (p : Path) (ch : List N) (tp : P) (hp : normCh ch = ch)
    (h : (if (single && chainVg ch) = true then Except.error ParseErr.valueGroupOperand else
            match BD.Path.head p with
            | Head.root => Except.ok (P.proot ch)
            | Head.cur => .ok (.pcur ch)) = Except.ok tp) :
    normP tp = tp := by
  by_cases hc : (single && chainVg ch) = true
  · rw [if_pos hc] at h; cases h
  · rw [if_neg hc] at h
    cases hh : BD.Path.head p <;> rw [hh] at h <;> (cases h; rw [normP, hp])

mutual
theorem step_clean (env : Env) (cfg : Cfg) :
    (s : Step) → (ps : List Pre) → stepPre env cfg s = .ok ps → CleanPres ps
  | .child t k, ps, h => by
    rw [stepPre] at h; cases h
    exact cleanPres_single (fun _ => by rw [normN])
  | .wild t, ps, h => by
    rw [stepPre] at h; cases h
    exact cleanPres_single (fun _ => by rw [normN])
  | .multi t ns, ps, h => by
    rw [stepPre] at h; cases h
    exact cleanPres_single (fun _ => by rw [normN])
  | .union t ss, ps, h => by
    rw [stepPre_union] at h; cases h
    refine cleanPres_single (fun _ => ?_)
    rw [normN, List.map_map]
    congr 1
    exact List.map_congr_left (fun s _ => normSub_subI s)
  | .filter t q, ps, h => by
    rw [stepPre] at h
    obtain ⟨tq, hq, h2⟩ := bind_ok h
    cases h2
    have := query_clean env cfg q tq hq
    exact cleanPres_single (fun _ => by rw [normN, this])
  | .desc s, ps, h => by
    rw [stepPre_desc] at h
    obtain ⟨inner, hi, h2⟩ := bind_ok h
    cases h2
    intro p hp
    rcases List.mem_cons.mp hp with rfl | hp
    · intro i; rw [normN]
    · exact step_clean env cfg s inner hi p hp

theorem steps_clean (env : Env) (cfg : Cfg) :
    (ss : List Step) → (ps : List Pre) → stepsPre env cfg ss = .ok ps → CleanPres ps
  | [], ps, h => by
    rw [stepsPre] at h; cases h
    intro p hp; cases hp
  | s :: ss, ps, h => by
    rw [stepsPre] at h
    obtain ⟨a, ha, h2⟩ := bind_ok h
    obtain ⟨b, hb, h3⟩ := bind_ok h2
    cases h3
    intro p hp
    rcases List.mem_append.mp hp with hp | hp
    · exact step_clean env cfg s a ha p hp
    · exact steps_clean env cfg ss b hb p hp

theorem path_clean (env : Env) (cfg : Cfg) :
    (p : Path) → (top : Bool) → (ch : List N) → buildPath env cfg top p = .ok ch → normCh ch = ch
  | .mk h steps fns, top, ch, hb => by
    rw [buildPath_eq] at hb
    obtain ⟨sp, hsp, h2⟩ := bind_ok hb
    obtain ⟨c, hc, h3⟩ := bind_ok h2
    cases h3
    exact (path_clean_glue env cfg top h fns sp c (steps_clean env cfg steps sp hsp) hc).eq

theorem operand_clean (env : Env) (cfg : Cfg) :
    (o : Operand) → (tp : P) → buildOperand env cfg o = .ok tp → normP tp = tp
  | .lit l, tp, h => by
    rw [buildOperand] at h
    cases h
    rw [normP]
  | .path p, tp, h => by
    rw [buildOperand, buildP_eq] at h
    obtain ⟨ch, hch, h2⟩ := bind_ok h
    exact buildP_clean_glue true p ch tp (path_clean env cfg p false ch hch) h2

theorem query_clean (env : Env) (cfg : Cfg) :
    (q : Query) → (tq : Q) → buildQ env cfg q = .ok tq → normQ tq = tq
  | .or a b, tq, h => by
    rw [buildQ] at h
    obtain ⟨ta, ha, h2⟩ := bind_ok h
    obtain ⟨tb, hb, h3⟩ := bind_ok h2
    cases h3
    rw [normQ, query_clean env cfg a ta ha, query_clean env cfg b tb hb]
  | .and a b, tq, h => by
    rw [buildQ] at h
    obtain ⟨ta, ha, h2⟩ := bind_ok h
    obtain ⟨tb, hb, h3⟩ := bind_ok h2
    cases h3
    rw [normQ, query_clean env cfg a ta ha, query_clean env cfg b tb hb]
  | .exist neg p, tq, h => by
    rw [buildQ, buildP_eq] at h
    obtain ⟨e, he, h2⟩ := bind_ok h
    cases h2
    obtain ⟨ch, hch, h3⟩ := bind_ok he
    have := buildP_clean_glue false p ch e (path_clean env cfg p false ch hch) h3
    cases neg
    · simp only [Bool.false_eq_true, if_false]; rw [normQ, this]
    · simp only [if_true]; rw [normQ, normQ, this]
  | .cmp op l r, tq, h => by
    rw [buildQ] at h
    obtain ⟨tl, hl, h2⟩ := bind_ok h
    obtain ⟨tr, hr', h3⟩ := bind_ok h2
    exact cmp_clean_glue op tl tr tq (operand_clean env cfg l tl hl) (operand_clean env cfg r tr hr') h3
  | .regex p re, tq, h => by
    rw [buildQ, buildP_eq] at h
    obtain ⟨tl, hl, h2⟩ := bind_ok h
    cases h2
    obtain ⟨ch, hch, h3⟩ := bind_ok hl
    have := buildP_clean_glue true p ch tl (path_clean env cfg p false ch hch) h3
    rw [normQ, this, normP]
end

/-- the trees of `Build.build` carry no `omitted` flag on a slice step -/
theorem build_clean (env : Env) (cfg : Cfg) (p : Path) (ch : List N) (hb : Build.build env cfg p = .ok ch) :
    normCh ch = ch :=
  path_clean env cfg p true ch hb

theorem normOutcome_ofBuild (env : Env) (cfg : Cfg) (inp : Array Char) (pos : Nat) (p : Path) :
    normOutcome (outcomeOfBuild inp pos (Build.build env cfg p)) = outcomeOfBuild inp pos (Build.build env cfg p) := by
  cases hb : Build.build env cfg p with
  | error e => exact normOutcome_stop inp (stopOf pos e)
  | ok ch =>
    show ParseOutcome.ok (normCh ch) = ParseOutcome.ok ch
    rw [build_clean env cfg p ch hb]

end clean

/-- **parse ∘ spell = build ∘ texts up to the `omitted` flag of slice steps**, on the WHOLE domain of spelled
    paths (slices `[1:2:]` included): after clearing that flag in the tree `Parse` builds (`normOutcome`),
    `Parse` on the spelling answers exactly the chain `Build.build` answers on the texts recorded for that
    spelling, or the error `Build.build` answers -/
theorem spell_parse_norm_all (env : Env) (ext : Peg.Ext) (cfg : Cfg) (a : SPath) (hwf : Spell.wf a = true)
    (hext : ExtOKS ext a) (henv : EnvOKS env a) :
    ∃ pos, normOutcome (parseModel env ext cfg (Spell.printS a)) =
      outcomeOfBuild (Spell.print a).toArray pos (Build.build env cfg (Spell.texts a)) := by
  obtain ⟨pos, h⟩ := spell_parse_norm_all' env ext cfg a hwf hext henv
  exact ⟨pos, by rw [h, normOutcome_ofBuild]⟩

end JPV.SP
