/-
NodeTie — tie T1 for the navigation nodes: lemmas.
-/
import JPV.Gen.NodesGo
import JPV.Lemmas.Refine
import JPV.Lemmas.ValWf
namespace JPV
namespace NodeTie
open Impl NavNode Gen.NodesGo

/-! ### receivers of the model's nodes -/

/-- `next` of a node followed by `rest` (nil at the end of the chain) -/
def nextOf (env : Env) (i : Info) (rest : List N) : Option Next :=
  match rest with
  | [] => none
  | _ :: _ => some (fun root v st => retrieve env rest i root v.v v.loc st)

/-- the embedded basic node of a node with Info `i` followed by `rest` -/
def basicRecv (env : Env) (i : Info) (rest : List N) : BasicRecv :=
  { errorRuntime := i, accessorMode := i.acc, next := nextOf env i rest }

/-! ### the three helpers -/

theorem anyNext_eq (env : Env) (i : Info) (rest : List N) (root v : Val) (st : St) :
    syntaxBasicNode_retrieveAnyValueNext (basicRecv env i rest) root v st = retrieve env rest i root v none st := by
  cases rest with
  | nil =>
    simp only [syntaxBasicNode_retrieveAnyValueNext, basicRecv, nextOf, retrieve]
    obtain ⟨t, c, vg, a⟩ := i
    cases a <;> rfl
  | cons n rest' => rfl

theorem mapNext_eq (env : Env) (i : Info) (rest : List N) (root : Val) (m : GoMap) (k : String) (st : St) :
    syntaxBasicNode_retrieveMapNext (basicRecv env i rest) root m k st =
      (match Val.lookup k m.kvs with
       | none => .ok (st, some (.member i))
       | some v => retrieve env rest i root v (some (m.loc ++ [.key k])) st) := by
  unfold syntaxBasicNode_retrieveMapNext mapIndex
  cases h : Val.lookup k m.kvs with
  | none => rfl
  | some v =>
    cases rest with
    | nil =>
      simp only [basicRecv, nextOf, retrieve, mapGet, mapPlace, h]
      obtain ⟨t, c, vg, a⟩ := i
      cases a <;> rfl
    | cons n rest' => rfl

theorem listNext_eq (env : Env) (i : Info) (rest : List N) (root : Val) (l : GoList) (ix : Int) (st : St) :
    syntaxBasicNode_retrieveListNext (basicRecv env i rest) root l ix st =
      (match (if ix < 0 then none else l.xs[ix.toNat]?) with
       | none => .error .indexOutOfRange
       | some v => retrieve env rest i root v (some (l.loc ++ [.idx ix.toNat])) st) := by
  unfold syntaxBasicNode_retrieveListNext listIndex
  cases h : (if ix < 0 then none else l.xs[ix.toNat]?) with
  | none =>
    cases rest with
    | nil =>
      simp only [basicRecv, nextOf]
      obtain ⟨t, c, vg, a⟩ := i
      cases a <;> rfl
    | cons n rest' => rfl
  | some v =>
    cases rest with
    | nil =>
      simp only [basicRecv, nextOf, retrieve, listPlace]
      obtain ⟨t, c, vg, a⟩ := i
      cases a <;> rfl
    | cons n rest' => rfl


/-! ### loops with the deepest-error bookkeeping -/

/-- a generated `for … range` loop whose body is "run the branch, record its error" is `loopAcc` -/
theorem forRange_loopAcc {α : Type} (f : α → St → M (St × Option RtErr)) (body : α → Acc → M Acc)
    (h : ∀ x st dl de, body x (st, dl, de) = stepAcc (f x st) dl de) :
    ∀ (xs : List α) (acc : Acc), forRange xs acc body = loopAcc f xs acc
  | [], acc => rfl
  | x :: xs, (st, dl, de) => by
    simp only [forRange, loopAcc, h]
    cases stepAcc (f x st) dl de with
    | error p => rfl
    | ok acc' => exact forRange_loopAcc f body h xs acc'

/-- the statement sequence `if err := CALL; err != nil { if len(container.result) == 0 { … = addDeepestError(…) } }` -/
theorem record_eq (r : M (St × Option RtErr)) (dl : Nat) (de : Option RtErr) :
    (do
      let (st, err) ← r
      let (dl, de) ← (match err with
        | none => pure (dl, de)
        | some err => do
          let (dl, de) ← (if goLen st.out == 0 then do
              let (dl, de) := addDeepestError err dl de
              pure (dl, de)
            else pure (dl, de))
          pure (dl, de))
      pure (st, dl, de) : M Acc) = stepAcc r dl de := by
  cases r with
  | error p => rfl
  | ok p =>
    obtain ⟨st, e⟩ := p
    cases e with
    | none => rfl
    | some err =>
      obtain ⟨out, lg, wr⟩ := st
      cases out <;> rfl

/-- the statements after the last loop of every value-group method -/
theorem finish_eq (i : Info) (st : St) (dl : Nat) (de : Option RtErr) :
    (if goLen st.out > 0 then .ok (st, none)
     else if de.isNone then .ok (st, some (RtErr.member i))
     else .ok (st, de) : M (St × Option RtErr)) = .ok (endGroup i (st, dl, de)) := by
  obtain ⟨out, lg, wr⟩ := st
  cases out with
  | nil => cases de <;> rfl
  | cons a b =>
    have : goLen (a :: b) > 0 := by simp only [goLen, List.length_cons]; omega
    simp only [this, if_true, endGroup, finishGroup]
    rfl

theorem typeName_eq (cur : Val) (aloc : Option Loc) :
    (if !isNil ⟨cur, aloc⟩ then reflectTypeString ⟨cur, aloc⟩ else msgTypeNull) = cur.goTypeName := by
  cases cur <;> rfl

/-! ### general facts about `loopAcc` / `forRange` -/

theorem loopAcc_map {α β : Type} (g : β → α) (f : α → St → M (St × Option RtErr)) :
    ∀ (xs : List β) (acc : Acc), loopAcc f (xs.map g) acc = loopAcc (fun b => f (g b)) xs acc
  | [], _ => rfl
  | x :: xs, (st, dl, de) => by
    simp only [List.map_cons, loopAcc]
    cases stepAcc (f (g x) st) dl de with
    | error p => rfl
    | ok acc' => exact loopAcc_map g f xs acc'

theorem loopAcc_congr {α : Type} (f f' : α → St → M (St × Option RtErr)) :
    ∀ (xs : List α) (acc : Acc), (∀ x ∈ xs, ∀ st, f x st = f' x st) → loopAcc f xs acc = loopAcc f' xs acc
  | [], _, _ => rfl
  | x :: xs, (st, dl, de), h => by
    simp only [loopAcc, h x (List.mem_cons_self) st]
    cases stepAcc (f' x st) dl de with
    | error p => rfl
    | ok acc' => exact loopAcc_congr f f' xs acc' (fun y hy => h y (List.mem_cons_of_mem _ hy))

theorem loopAcc_append {α : Type} (f : α → St → M (St × Option RtErr)) :
    ∀ (xs ys : List α) (acc : Acc), loopAcc f (xs ++ ys) acc = (loopAcc f xs acc >>= loopAcc f ys)
  | [], ys, acc => rfl
  | x :: xs, ys, (st, dl, de) => by
    simp only [List.cons_append, loopAcc]
    cases stepAcc (f x st) dl de with
    | error p => rfl
    | ok acc' => exact loopAcc_append f xs ys acc'

theorem stepAcc_skip (st : St) (dl : Nat) (de : Option RtErr) : stepAcc (.ok (st, none)) dl de = .ok (st, dl, de) := rfl

theorem loopAcc_filter {α : Type} (p : α → Bool) (f : α → St → M (St × Option RtErr)) :
    ∀ (xs : List α) (acc : Acc),
      loopAcc f (xs.filter p) acc = loopAcc (fun x st => if p x then f x st else .ok (st, none)) xs acc
  | [], _ => rfl
  | x :: xs, (st, dl, de) => by
    cases hp : p x with
    | false =>
      simp only [List.filter_cons, hp, loopAcc, Bool.false_eq_true, if_false, stepAcc_skip]
      exact loopAcc_filter p f xs (st, dl, de)
    | true =>
      simp only [List.filter_cons, hp, loopAcc, if_true]
      cases stepAcc (f x st) dl de with
      | error p => rfl
      | ok acc' => exact loopAcc_filter p f xs acc'

theorem forRange_congr {α σ : Type} (body body' : α → σ → M σ) :
    ∀ (xs : List α) (s : σ), (∀ x ∈ xs, ∀ s, body x s = body' x s) → forRange xs s body = forRange xs s body'
  | [], _, _ => rfl
  | x :: xs, s, h => by
    simp only [forRange, h x List.mem_cons_self s]
    cases body' x s with
    | error p => rfl
    | ok s' => exact forRange_congr body body' xs s' (fun y hy => h y (List.mem_cons_of_mem _ hy))

theorem forRange_append {α σ : Type} (body : α → σ → M σ) :
    ∀ (xs ys : List α) (s : σ), forRange (xs ++ ys) s body = (forRange xs s body >>= fun s' => forRange ys s' body)
  | [], ys, s => rfl
  | x :: xs, ys, s => by
    simp only [List.cons_append, forRange]
    cases body x s with
    | error p => rfl
    | ok s' => exact forRange_append body xs ys s'

/-- a range loop whose body is itself a range loop over `g x` is the range loop over the `flatMap` -/
theorem forRange_flatMap {α β σ : Type} (g : α → List β) (body : β → σ → M σ) :
    ∀ (xs : List α) (s : σ), forRange xs s (fun x s => forRange (g x) s body) = forRange (xs.flatMap g) s body
  | [], s => rfl
  | x :: xs, s => by
    simp only [forRange, List.flatMap_cons, forRange_append]
    cases forRange (g x) s body with
    | error p => rfl
    | ok s' => exact forRange_flatMap g body xs s'

theorem rangeLen_eq {α : Type} (xs : List α) : rangeLen xs = xs.zipIdx.map (fun xi => (xi.2 : Int)) := by
  have : xs.zipIdx.map (fun xi => (xi.2 : Int)) = (xs.zipIdx.map Prod.snd).map (fun (i : Nat) => (i : Int)) := by
    rw [List.map_map]; rfl
  rw [this, List.zipIdx_map_snd, rangeLen, List.range_eq_range']

/-- indexing by the positions of `xs` finds the elements of `xs` -/
theorem loopAcc_rangeLen (xs : List Val) (g : Val → Nat → St → M (St × Option RtErr)) (acc : Acc) :
    loopAcc (fun (ix : Int) st =>
        match (if ix < 0 then none else xs[ix.toNat]?) with
        | none => .error .indexOutOfRange
        | some v => g v ix.toNat st) (rangeLen xs) acc =
      loopAcc (fun (xi : Val × Nat) st => g xi.1 xi.2 st) xs.zipIdx acc := by
  rw [rangeLen_eq, loopAcc_map]
  apply loopAcc_congr
  intro xi hxi st
  have h := List.mem_zipIdx_iff_getElem?.mp hxi
  have hneg : ¬ ((xi.2 : Int) < 0) := by omega
  simp only [hneg, if_false, Int.toNat_natCast, h]

theorem lookup_of_mem : ∀ (kvs : List (String × Val)), (kvs.map (·.1)).Nodup → ∀ kv ∈ kvs,
    Val.lookup kv.1 kvs = some kv.2
  | [], _, kv, h => absurd h List.not_mem_nil
  | (k', v') :: rest, hnd, kv, h => by
    simp only [List.map_cons, List.nodup_cons] at hnd
    rcases List.mem_cons.mp h with rfl | h'
    · simp [Val.lookup]
    · have hne : kv.1 ≠ k' := by
        intro he
        apply hnd.1
        rw [← he]
        exact List.mem_map_of_mem h'
      have : (kv.1 == k') = false := by simpa using hne
      simp only [Val.lookup, this, Bool.false_eq_true, if_false]
      exact lookup_of_mem rest hnd.2 kv h'

/-- the keys of an object are pairwise different (what a Go map guarantees) -/
def keysNodup : Val → Prop
  | .obj kvs => (kvs.map (·.1)).Nodup
  | _ => True

theorem keysNodup_of_wf {v : Val} (h : v.wf = true) : keysNodup v := by
  cases v with
  | obj kvs =>
    have := (wf_obj h).1
    exact (pairwise_of_keysAsc _ this).imp (fun hlt => by
      intro he; subst he; exact absurd hlt (String.lt_irrefl _))
  | _ => trivial

/-! ### `*` -/

def wildRecv (env : Env) (i : Info) (rest : List N) : WildcardRecv := { basic := basicRecv env i rest }

theorem wildMap_eq (env : Env) (i : Info) (rest : List N) (root : Val) (m : GoMap) (st : St) :
    syntaxChildWildcardIdentifier_retrieveMap (wildRecv env i rest) root m st =
      (do
        let acc ← loopAcc (fun (k : String) st =>
            match Val.lookup k m.kvs with
            | none => .ok (st, some (.member i))
            | some v => retrieve env rest i root v (some (m.loc ++ [.key k])) st)
          (getSortedKeys m) (st, 0, none)
        .ok (endGroup i acc)) := by
  unfold syntaxChildWildcardIdentifier_retrieveMap
  dsimp only
  rw [forRange_loopAcc (fun (k : String) st =>
            match Val.lookup k m.kvs with
            | none => .ok (st, some (.member i))
            | some v => retrieve env rest i root v (some (m.loc ++ [.key k])) st)]
  · simp only [bind, Except.bind]
    cases loopAcc _ (getSortedKeys m) (st, 0, none) with
    | error p => rfl
    | ok acc =>
      obtain ⟨st', dl, de⟩ := acc
      exact finish_eq i st' dl de
  · intro k st dl de
    simp only [wildRecv, mapNext_eq]
    exact record_eq _ dl de

end NodeTie
end JPV
