/-
NodeTie — tie T1 for the navigation nodes, lemmas (statements for the pipeline: Props/NodesGen.lean).

The `retrieve` / `retrieveMap` / `retrieveList` methods as the translator reads them from the Go
source (Gen/NodesGo.lean, regenerated on every run by the generator `nodes`) against the equations
of the hand-written model `Impl.retrieve`. Contents:

  * receivers of the model's nodes (`basicRecv`, `singleRecv`, `wildRecv`, `multiRecv`, `unionRecv`,
    `filterRecv`, `descRecv`): the node's Info, its accessor flag, `next` = the model's evaluation of
    the rest of the chain (`none` for the empty rest);
  * the three helpers (`anyNext_eq`, `mapNext_eq`, `listNext_eq`);
  * generated `for … range` loops with the deepest-error bookkeeping are `Impl.loopAcc`
    (`forRange_loopAcc`, `record_eq`, `finish_eq`) — the proofs never depend on the shape of a loop
    body beyond definitional unfolding: bodies are left to unification and compared pointwise;
  * one lemma per node kind (`root_eq` … `filter_eq`);
  * recursive descent: `descBody` (the loop body as generated), `descBody_eq` (one iteration: pop,
    hand the container to `next` if its kind is required, push the member containers in reverse),
    `descLoop` (induction on fuel: the stack loop visits `todo S` = the pre-order enumeration of
    what is on the stack), `descLoop_eq_preorder`, `desc_eq`, and `containersLoc_length_le` (fuel).
-/
import JPV.Gen.NodesGo
import JPV.Lemmas.Refine
import JPV.Lemmas.ValWf
import JPV.Lemmas.SortKV
namespace JPV
namespace NodeTie
open Impl NavNode Gen.NodesGo ValWf SortKVL

/-! ### receivers of the model's nodes -/

/-- `next` of a node followed by `rest` (nil at the end of the chain) -/
def nextOf (env : Env) (i : Info) (rest : List N) : Option Next :=
  match rest with
  | [] => none
  | _ :: _ => some (fun root v st => retrieve env rest i root v.v v.loc st)

/-- the embedded basic node of a node with Info `i` followed by `rest` -/
def basicRecv (env : Env) (i : Info) (rest : List N) : BasicRecv :=
  { errorRuntime := i, accessorMode := i.acc, next := nextOf env i rest }

/-! ### the three helpers -/

theorem anyNext_eq (env : Env) (i : Info) (rest : List N) (root v : Val) (st : St) :
    syntaxBasicNode_retrieveAnyValueNext (basicRecv env i rest) root v st = retrieve env rest i root v none st := by
  cases rest with
  | nil =>
    simp only [syntaxBasicNode_retrieveAnyValueNext, basicRecv, nextOf, retrieve]
    obtain ⟨t, c, vg, a⟩ := i
    cases a <;> rfl
  | cons n rest' => rfl

theorem mapNext_eq (env : Env) (i : Info) (rest : List N) (root : Val) (m : GoMap) (k : String) (st : St) :
    syntaxBasicNode_retrieveMapNext (basicRecv env i rest) root m k st =
      (match Val.lookup k m.kvs with
       | none => .ok (st, some (.member i))
       | some v => retrieve env rest i root v (some (m.loc ++ [.key k])) st) := by
  unfold syntaxBasicNode_retrieveMapNext mapIndex
  cases h : Val.lookup k m.kvs with
  | none => rfl
  | some v =>
    cases rest with
    | nil =>
      simp only [basicRecv, nextOf, retrieve, mapGet, mapPlace, h]
      obtain ⟨t, c, vg, a⟩ := i
      cases a <;> rfl
    | cons n rest' => rfl

theorem listNext_eq (env : Env) (i : Info) (rest : List N) (root : Val) (l : GoList) (ix : Int) (st : St) :
    syntaxBasicNode_retrieveListNext (basicRecv env i rest) root l ix st =
      (match (if ix < 0 then none else l.xs[ix.toNat]?) with
       | none => .error .indexOutOfRange
       | some v => retrieve env rest i root v (some (l.loc ++ [.idx ix.toNat])) st) := by
  unfold syntaxBasicNode_retrieveListNext listIndex
  cases h : (if ix < 0 then none else l.xs[ix.toNat]?) with
  | none =>
    cases rest with
    | nil =>
      simp only [basicRecv, nextOf]
      obtain ⟨t, c, vg, a⟩ := i
      cases a <;> rfl
    | cons n rest' => rfl
  | some v =>
    cases rest with
    | nil =>
      simp only [basicRecv, nextOf, retrieve, listPlace]
      obtain ⟨t, c, vg, a⟩ := i
      cases a <;> rfl
    | cons n rest' => rfl


/-! ### loops with the deepest-error bookkeeping -/

/-- a generated `for … range` loop whose body is "run the branch, record its error" is `loopAcc` -/
theorem forRange_loopAcc {α : Type} (f : α → St → M (St × Option RtErr)) (body : α → Acc → M Acc)
    (h : ∀ x st dl de, body x (st, dl, de) = stepAcc (f x st) dl de) :
    ∀ (xs : List α) (acc : Acc), forRange xs acc body = loopAcc f xs acc
  | [], acc => rfl
  | x :: xs, (st, dl, de) => by
    simp only [forRange, loopAcc, h]
    cases stepAcc (f x st) dl de with
    | error p => rfl
    | ok acc' => exact forRange_loopAcc f body h xs acc'

/-- the statement sequence `if err := CALL; err != nil { if len(container.result) == 0 { … = addDeepestError(…) } }` -/
theorem record_eq (r : M (St × Option RtErr)) (dl : Nat) (de : Option RtErr) :
    (do
      let (st, err) ← r
      let (dl, de) ← (match err with
        | none => pure (dl, de)
        | some err => do
          let (dl, de) ← (if goLen st.out == 0 then do
              let (dl, de) := addDeepestError err dl de
              pure (dl, de)
            else pure (dl, de))
          pure (dl, de))
      pure (st, dl, de) : M Acc) = stepAcc r dl de := by
  cases r with
  | error p => rfl
  | ok p =>
    obtain ⟨st, e⟩ := p
    cases e with
    | none => rfl
    | some err =>
      obtain ⟨out, lg, wr⟩ := st
      cases out <;> rfl

/-- the statements after the last loop of every value-group method -/
theorem finish_eq (i : Info) (st : St) (dl : Nat) (de : Option RtErr) :
    (if goLen st.out > 0 then .ok (st, none)
     else if de.isNone then .ok (st, some (RtErr.member i))
     else .ok (st, de) : M (St × Option RtErr)) = .ok (endGroup i (st, dl, de)) := by
  obtain ⟨out, lg, wr⟩ := st
  cases out with
  | nil => cases de <;> rfl
  | cons a b =>
    have : goLen (a :: b) > 0 := by simp only [goLen, List.length_cons]; omega
    simp only [this, if_true, endGroup, finishGroup]
    rfl

theorem typeName_eq (cur : Val) (aloc : Option Loc) :
    (if !isNil ⟨cur, aloc⟩ then reflectTypeString ⟨cur, aloc⟩ else msgTypeNull) = cur.goTypeName := by
  cases cur <;> rfl

/-! ### general facts about `loopAcc` / `forRange` -/

theorem loopAcc_map {α β : Type} (g : β → α) (f : α → St → M (St × Option RtErr)) :
    ∀ (xs : List β) (acc : Acc), loopAcc f (xs.map g) acc = loopAcc (fun b => f (g b)) xs acc
  | [], _ => rfl
  | x :: xs, (st, dl, de) => by
    simp only [List.map_cons, loopAcc]
    cases stepAcc (f (g x) st) dl de with
    | error p => rfl
    | ok acc' => exact loopAcc_map g f xs acc'

theorem loopAcc_congr {α : Type} (f f' : α → St → M (St × Option RtErr)) :
    ∀ (xs : List α) (acc : Acc), (∀ x ∈ xs, ∀ st, f x st = f' x st) → loopAcc f xs acc = loopAcc f' xs acc
  | [], _, _ => rfl
  | x :: xs, (st, dl, de), h => by
    simp only [loopAcc, h x (List.mem_cons_self) st]
    cases stepAcc (f' x st) dl de with
    | error p => rfl
    | ok acc' => exact loopAcc_congr f f' xs acc' (fun y hy => h y (List.mem_cons_of_mem _ hy))

theorem loopAcc_append {α : Type} (f : α → St → M (St × Option RtErr)) :
    ∀ (xs ys : List α) (acc : Acc), loopAcc f (xs ++ ys) acc = (loopAcc f xs acc >>= loopAcc f ys)
  | [], ys, acc => rfl
  | x :: xs, ys, (st, dl, de) => by
    simp only [List.cons_append, loopAcc]
    cases stepAcc (f x st) dl de with
    | error p => rfl
    | ok acc' => exact loopAcc_append f xs ys acc'

theorem stepAcc_skip (st : St) (dl : Nat) (de : Option RtErr) : stepAcc (.ok (st, none)) dl de = .ok (st, dl, de) := rfl

theorem loopAcc_filter {α : Type} (p : α → Bool) (f : α → St → M (St × Option RtErr)) :
    ∀ (xs : List α) (acc : Acc),
      loopAcc f (xs.filter p) acc = loopAcc (fun x st => if p x then f x st else .ok (st, none)) xs acc
  | [], _ => rfl
  | x :: xs, (st, dl, de) => by
    cases hp : p x with
    | false =>
      simp only [List.filter_cons, hp, loopAcc, Bool.false_eq_true, if_false, stepAcc_skip]
      exact loopAcc_filter p f xs (st, dl, de)
    | true =>
      simp only [List.filter_cons, hp, loopAcc, if_true]
      cases stepAcc (f x st) dl de with
      | error p => rfl
      | ok acc' => exact loopAcc_filter p f xs acc'

theorem forRange_congr {α σ : Type} (body body' : α → σ → M σ) :
    ∀ (xs : List α) (s : σ), (∀ x ∈ xs, ∀ s, body x s = body' x s) → forRange xs s body = forRange xs s body'
  | [], _, _ => rfl
  | x :: xs, s, h => by
    simp only [forRange, h x List.mem_cons_self s]
    cases body' x s with
    | error p => rfl
    | ok s' => exact forRange_congr body body' xs s' (fun y hy => h y (List.mem_cons_of_mem _ hy))

theorem forRange_append {α σ : Type} (body : α → σ → M σ) :
    ∀ (xs ys : List α) (s : σ), forRange (xs ++ ys) s body = (forRange xs s body >>= fun s' => forRange ys s' body)
  | [], ys, s => rfl
  | x :: xs, ys, s => by
    simp only [List.cons_append, forRange]
    cases body x s with
    | error p => rfl
    | ok s' => exact forRange_append body xs ys s'

/-- a range loop whose body is itself a range loop over `g x` is the range loop over the `flatMap` -/
theorem forRange_flatMap {α β σ : Type} (g : α → List β) (body : β → σ → M σ) :
    ∀ (xs : List α) (s : σ), forRange xs s (fun x s => forRange (g x) s body) = forRange (xs.flatMap g) s body
  | [], s => rfl
  | x :: xs, s => by
    simp only [forRange, List.flatMap_cons, forRange_append]
    cases forRange (g x) s body with
    | error p => rfl
    | ok s' => exact forRange_flatMap g body xs s'

theorem rangeLen_eq {α : Type} (xs : List α) : rangeLen xs = xs.zipIdx.map (fun xi => (xi.2 : Int)) := by
  have : xs.zipIdx.map (fun xi => (xi.2 : Int)) = (xs.zipIdx.map Prod.snd).map (fun (i : Nat) => (i : Int)) := by
    rw [List.map_map]; rfl
  rw [this, List.zipIdx_map_snd, rangeLen, List.range_eq_range']

/-- indexing by the positions of `xs` finds the elements of `xs` -/
theorem loopAcc_rangeLen (xs : List Val) (g : Val → Nat → St → M (St × Option RtErr)) (acc : Acc) :
    loopAcc (fun (ix : Int) st =>
        match (if ix < 0 then none else xs[ix.toNat]?) with
        | none => .error .indexOutOfRange
        | some v => g v ix.toNat st) (rangeLen xs) acc =
      loopAcc (fun (xi : Val × Nat) st => g xi.1 xi.2 st) xs.zipIdx acc := by
  rw [rangeLen_eq, loopAcc_map]
  apply loopAcc_congr
  intro xi hxi st
  have h := List.mem_zipIdx_iff_getElem?.mp hxi
  have hneg : ¬ ((xi.2 : Int) < 0) := by omega
  simp only [hneg, if_false, Int.toNat_natCast, h]

theorem lookup_of_mem : ∀ (kvs : List (String × Val)), (kvs.map (·.1)).Nodup → ∀ kv ∈ kvs,
    Val.lookup kv.1 kvs = some kv.2
  | [], _, kv, h => absurd h List.not_mem_nil
  | (k', v') :: rest, hnd, kv, h => by
    simp only [List.map_cons, List.nodup_cons] at hnd
    rcases List.mem_cons.mp h with rfl | h'
    · simp [Val.lookup]
    · have hne : kv.1 ≠ k' := by
        intro he
        apply hnd.1
        rw [← he]
        exact List.mem_map_of_mem h'
      have : (kv.1 == k') = false := by simpa using hne
      simp only [Val.lookup, this, Bool.false_eq_true, if_false]
      exact lookup_of_mem rest hnd.2 kv h'

/-- the keys of an object are pairwise different (what a Go map guarantees) -/
def keysNodup : Val → Prop
  | .obj kvs => (kvs.map (·.1)).Nodup
  | _ => True

theorem keysNodup_of_wf {v : Val} (h : v.wf = true) : keysNodup v := by
  cases v with
  | obj kvs =>
    have := (wf_obj h).1
    exact (pairwise_of_keysAsc _ this).imp (fun hlt => by
      intro he; subst he; exact absurd hlt (String.lt_irrefl _))
  | _ => trivial

/-! ### `*` -/

def wildRecv (env : Env) (i : Info) (rest : List N) : WildcardRecv := { basic := basicRecv env i rest }

theorem wildMap_eq (env : Env) (i : Info) (rest : List N) (root : Val) (m : GoMap) (st : St) :
    syntaxChildWildcardIdentifier_retrieveMap (wildRecv env i rest) root m st =
      (do
        let acc ← loopAcc (fun (k : String) st =>
            match Val.lookup k m.kvs with
            | none => .ok (st, some (.member i))
            | some v => retrieve env rest i root v (some (m.loc ++ [.key k])) st)
          (getSortedKeys m) (st, 0, none)
        .ok (endGroup i acc)) := by
  unfold syntaxChildWildcardIdentifier_retrieveMap
  dsimp only
  rw [forRange_loopAcc (fun (k : String) st =>
            match Val.lookup k m.kvs with
            | none => .ok (st, some (.member i))
            | some v => retrieve env rest i root v (some (m.loc ++ [.key k])) st)]
  · simp only [bind, Except.bind]
    cases loopAcc _ (getSortedKeys m) (st, 0, none) with
    | error p => rfl
    | ok acc =>
      obtain ⟨st', dl, de⟩ := acc
      exact finish_eq i st' dl de
  · intro k st dl de
    simp only [wildRecv, mapNext_eq]
    exact record_eq _ dl de


theorem wildList_eq (env : Env) (i : Info) (rest : List N) (root : Val) (l : GoList) (st : St) :
    syntaxChildWildcardIdentifier_retrieveList (wildRecv env i rest) root l st =
      (do
        let acc ← loopAcc (fun (xi : Val × Nat) st => retrieve env rest i root xi.1 (some (l.loc ++ [.idx xi.2])) st)
          l.xs.zipIdx (st, 0, none)
        .ok (endGroup i acc)) := by
  unfold syntaxChildWildcardIdentifier_retrieveList
  dsimp only
  rw [forRange_loopAcc (fun (ix : Int) st =>
        match (if ix < 0 then none else l.xs[ix.toNat]?) with
        | none => .error .indexOutOfRange
        | some v => retrieve env rest i root v (some (l.loc ++ [.idx ix.toNat])) st)]
  · have h := loopAcc_rangeLen l.xs (fun v n st => retrieve env rest i root v (some (l.loc ++ [.idx n])) st) (st, 0, none)
    rw [h]
    simp only [bind, Except.bind]
    cases loopAcc _ l.xs.zipIdx (st, 0, none) with
    | error p => rfl
    | ok acc =>
      obtain ⟨st', dl, de⟩ := acc
      exact finish_eq i st' dl de
  · intro ix st dl de
    simp only [wildRecv, listNext_eq]
    exact record_eq _ dl de

/-- the object loop of `*` on a map whose keys are pairwise different, as the model writes it -/
theorem wildMap_model (env : Env) (i : Info) (rest : List N) (root : Val) (kvs : List (String × Val))
    (hnd : (kvs.map (·.1)).Nodup) (loc : Loc) (acc : Acc) :
    loopAcc (fun (k : String) st =>
        match Val.lookup k kvs with
        | none => .ok (st, some (.member i))
        | some v => retrieve env rest i root v (some (loc ++ [.key k])) st)
      (getSortedKeys ⟨kvs, loc⟩) acc =
    loopAcc (fun (kv : String × Val) st => retrieve env rest i root kv.2 (some (loc ++ [.key kv.1])) st)
      (sortKV kvs) acc := by
  rw [getSortedKeys, loopAcc_map]
  apply loopAcc_congr
  intro kv hkv st
  have hmem : kv ∈ kvs := (sortKV_perm kvs).mem_iff.mp hkv
  simp only [lookup_of_mem kvs hnd kv hmem]

theorem wild_eq (env : Env) (i : Info) (rest : List N) (prev : Info) (root cur : Val) (aloc : Option Loc) (st : St)
    (hk : keysNodup cur) :
    retrieve env (.wild i :: rest) prev root cur aloc st =
      syntaxChildWildcardIdentifier_retrieve (wildRecv env i rest) root ⟨cur, aloc⟩ st := by
  cases cur with
  | obj kvs =>
    simp only [retrieve, syntaxChildWildcardIdentifier_retrieve, typeSwitch, wildMap_eq]
    rw [wildMap_model env i rest root kvs hk]
    rfl
  | arr xs =>
    simp only [retrieve, syntaxChildWildcardIdentifier_retrieve, typeSwitch, wildList_eq]
    rfl
  | _ => simp only [retrieve]; rfl

/-! ### `.name`, `$`, `@` -/

def singleRecv (env : Env) (i : Info) (k : String) (rest : List N) : SingleRecv :=
  { basic := basicRecv env i rest, identifier := k }

theorem child_eq (env : Env) (i : Info) (k : String) (rest : List N) (prev : Info) (root cur : Val)
    (aloc : Option Loc) (st : St) :
    retrieve env (.child i k :: rest) prev root cur aloc st =
      syntaxChildSingleIdentifier_retrieve (singleRecv env i k rest) root ⟨cur, aloc⟩ st := by
  cases cur with
  | obj kvs =>
    simp only [retrieve, syntaxChildSingleIdentifier_retrieve, asMap, singleRecv, mapNext_eq]
    rfl
  | _ => simp only [retrieve]; rfl

def rootRecv (env : Env) (i : Info) (rest : List N) : RootRecv := { basic := basicRecv env i rest }

theorem root_eq (env : Env) (i : Info) (rest : List N) (prev : Info) (root cur : Val) (aloc : Option Loc) (st : St) :
    retrieve env (.root i :: rest) prev root cur aloc st =
      syntaxRootIdentifier_retrieve (rootRecv env i rest) root ⟨cur, aloc⟩ st := by
  simp only [retrieve, syntaxRootIdentifier_retrieve, rootRecv, anyNext_eq]

theorem cur_eq (env : Env) (i : Info) (rest : List N) (prev : Info) (root cur : Val) (aloc : Option Loc) (st : St) :
    retrieve env (.cur i :: rest) prev root cur aloc st =
      syntaxCurrentRootIdentifier_retrieve (rootRecv env i rest) root ⟨cur, aloc⟩ st := by
  simp only [retrieve, syntaxCurrentRootIdentifier_retrieve, rootRecv, anyNext_eq]


/-! ### `[…]` with subscripts -/

def unionRecv (env : Env) (i : Info) (subs : List SubI) (rest : List N) : UnionRecv :=
  { basic := basicRecv env i rest, subscripts := subs.map (fun s n => subIndexes s n.toNat) }

theorem repack_eq (x : M Acc) :
    (do let (st, dl, de) ← x; pure (st, dl, de) : M Acc) = x := by
  cases x with
  | error p => rfl
  | ok r => rfl

theorem union_eq (env : Env) (i : Info) (subs : List SubI) (rest : List N) (prev : Info) (root cur : Val)
    (aloc : Option Loc) (st : St) :
    retrieve env (.union i subs :: rest) prev root cur aloc st =
      syntaxUnionQualifier_retrieve (unionRecv env i subs rest) root ⟨cur, aloc⟩ st := by
  cases cur with
  | arr xs =>
    simp only [retrieve, syntaxUnionQualifier_retrieve, asList]
    rw [forRange_congr _ (fun subscript acc => forRange (subscript (goLen xs)) acc (fun index (acc : Acc) =>
        stepAcc (syntaxBasicNode_retrieveListNext (unionRecv env i subs rest).basic root ⟨xs, aloc.getD []⟩ index acc.1) acc.2.1 acc.2.2))]
    · rw [forRange_flatMap, forRange_loopAcc (fun (ix : Int) st =>
        match (if ix < 0 then none else xs[ix.toNat]?) with
        | none => .error .indexOutOfRange
        | some v => retrieve env rest i root v (ext aloc (.idx ix.toNat)) st)]
      · have hidx : List.flatMap (fun subscript => subscript (goLen xs)) (unionRecv env i subs rest).subscripts =
            List.flatMap (fun s => subIndexes s xs.length) subs := by
          simp only [unionRecv, List.flatMap_map, goLen, Int.toNat_natCast]
        rw [hidx]
        simp only [bind, Except.bind]
        cases loopAcc _ _ (st, 0, none) with
        | error p => rfl
        | ok acc =>
          obtain ⟨st', dl, de⟩ := acc
          exact (finish_eq i st' dl de).symm
      · intro ix st dl de
        simp only [unionRecv, listNext_eq]
        rfl
    · intro sub _ acc
      obtain ⟨st, dl, de⟩ := acc
      dsimp only
      rw [forRange_congr _ (fun index (acc : Acc) =>
        stepAcc (syntaxBasicNode_retrieveListNext (unionRecv env i subs rest).basic root ⟨xs, aloc.getD []⟩ index acc.1) acc.2.1 acc.2.2)]
      · exact repack_eq _
      · intro ix _ acc
        obtain ⟨st, dl, de⟩ := acc
        exact record_eq _ dl de
  | _ => simp only [retrieve]; rfl


/-! ### `['a','b',*]` -/

theorem forRange_map {α β σ : Type} (g : β → α) (body : α → σ → M σ) :
    ∀ (xs : List β) (s : σ), forRange (xs.map g) s body = forRange xs s (fun b => body (g b))
  | [], _ => rfl
  | x :: xs, s => by
    simp only [List.map_cons, forRange]
    cases body (g x) s with
    | error p => rfl
    | ok s' => exact forRange_map g body xs s'

/-- an inner identifier of a multi-name node as a `syntaxNode`: the generated methods again -/
def idRef (env : Env) (rest : List N) : MId → NodeRef
  | .key ii k => { retrieve := syntaxChildSingleIdentifier_retrieve (singleRecv env ii k rest), asSingle := some k }
  | .wild ii => { retrieve := syntaxChildWildcardIdentifier_retrieve (wildRecv env ii rest), asSingle := none }

/-- the union twin of an all-wildcard multi-name node: one `*` subscript per name -/
def twinRef (env : Env) (ids : List MId) (rest : List N) : Option Info → NodeRef
  | some ti => { retrieve := syntaxUnionQualifier_retrieve (unionRecv env ti (ids.map (fun _ => SubI.wild)) rest),
                 asSingle := none }
  | none => { retrieve := fun _ _ _ => .error nilDeref, asSingle := none }

def multiRecv (env : Env) (i : Info) (ids : List MId) (twin : Option Info) (rest : List N) : MultiRecv :=
  { basic := basicRecv env i rest, identifiers := ids.map (idRef env rest), isAllWildcard := twin.isSome,
    unionQualifier := twinRef env ids rest twin }

/-- what one name of a multi-name node does on an object -/
def multiBranch (env : Env) (rest : List N) (root : Val) (kvs : List (String × Val)) (aloc : Option Loc) :
    MId → St → M (St × Option RtErr) :=
  fun id st =>
    match id with
    | .key ii k =>
      (match Val.lookup k kvs with
       | none => .ok (st, none)
       | some v => retrieve env rest ii root v (ext aloc (.key k)) st)
    | .wild ii => do
      let acc ← loopAcc (fun (kv : String × Val) st => retrieve env rest ii root kv.2 (ext aloc (.key kv.1)) st)
        (sortKV kvs) (st, 0, none)
      .ok (endGroup ii acc)

theorem multiMap_eq (env : Env) (i : Info) (ids : List MId) (twin : Option Info) (rest : List N) (root : Val)
    (kvs : List (String × Val)) (hnd : (kvs.map (·.1)).Nodup) (aloc : Option Loc) (st : St) :
    syntaxChildMultiIdentifier_retrieveMap (multiRecv env i ids twin rest) root ⟨kvs, aloc.getD []⟩ st =
      (do
        let acc ← loopAcc (multiBranch env rest root kvs aloc) ids (st, 0, none)
        .ok (endGroup i acc)) := by
  unfold syntaxChildMultiIdentifier_retrieveMap
  dsimp only
  simp only [multiRecv, forRange_map]
  rw [forRange_loopAcc (multiBranch env rest root kvs aloc)]
  · simp only [bind, Except.bind]
    cases loopAcc _ ids (st, 0, none) with
    | error p => rfl
    | ok acc =>
      obtain ⟨st', dl, de⟩ := acc
      exact finish_eq i st' dl de
  · intro id st dl de
    cases id with
    | key ii k =>
      simp only [idRef, mapIndex, multiBranch]
      cases h : Val.lookup k kvs with
      | none => rfl
      | some v =>
        dsimp only
        have hc := child_eq env ii k rest ii root (.obj kvs) (some (aloc.getD [])) st
        simp only [GoVal.ofMap, ← hc, retrieve, h]
        exact record_eq _ dl de
    | wild ii =>
      simp only [idRef, multiBranch]
      have hw := wild_eq env ii rest ii root (.obj kvs) (some (aloc.getD [])) st hnd
      simp only [GoVal.ofMap, ← hw, retrieve]
      exact record_eq _ dl de

theorem multiTwin_model (env : Env) (ti : Info) (ids : List MId) (rest : List N) (root : Val) (xs : List Val)
    (aloc : Option Loc) (acc : Acc) :
    loopAcc (fun (ix : Int) st =>
        match (if ix < 0 then none else xs[ix.toNat]?) with
        | none => .error .indexOutOfRange
        | some v => retrieve env rest ti root v (ext aloc (.idx ix.toNat)) st)
      ((ids.map (fun _ => SubI.wild)).flatMap (fun s => subIndexes s xs.length)) acc =
    loopAcc (fun (xi : Val × Nat) st => retrieve env rest ti root xi.1 (ext aloc (.idx xi.2)) st)
      (ids.flatMap (fun _ => xs.zipIdx)) acc := by
  have hl : (ids.map (fun _ => SubI.wild)).flatMap (fun s => subIndexes s xs.length) =
      (ids.flatMap (fun _ => xs.zipIdx)).map (fun xi => (xi.2 : Int)) := by
    rw [List.flatMap_map, List.map_flatMap]
    congr 1
    funext _
    exact rangeLen_eq xs
  rw [hl, loopAcc_map]
  apply loopAcc_congr
  intro xi hxi st
  obtain ⟨_, _, hmem⟩ := List.mem_flatMap.mp hxi
  have h := List.mem_zipIdx_iff_getElem?.mp hmem
  have hneg : ¬ ((xi.2 : Int) < 0) := by omega
  simp only [hneg, if_false, Int.toNat_natCast, h]

theorem multi_eq (env : Env) (i : Info) (ids : List MId) (twin : Option Info) (rest : List N) (prev : Info)
    (root cur : Val) (aloc : Option Loc) (st : St) (hk : keysNodup cur) :
    retrieve env (.multi i ids twin :: rest) prev root cur aloc st =
      syntaxChildMultiIdentifier_retrieve (multiRecv env i ids twin rest) root ⟨cur, aloc⟩ st := by
  have hobj : ∀ kvs, cur = .obj kvs →
      syntaxChildMultiIdentifier_retrieve (multiRecv env i ids twin rest) root ⟨cur, aloc⟩ st =
      (do
        let acc ← loopAcc (multiBranch env rest root kvs aloc) ids (st, 0, none)
        .ok (endGroup i acc)) := by
    intro kvs hc
    subst hc
    unfold syntaxChildMultiIdentifier_retrieve
    simp only [asList, asMap, multiMap_eq env i ids twin rest root kvs hk]
    cases (multiRecv env i ids twin rest).isAllWildcard <;> rfl
  cases twin with
  | none =>
    cases cur with
    | obj kvs =>
      rw [hobj kvs rfl]
      simp only [retrieve]
      rfl
    | _ => simp only [retrieve]; rfl
  | some ti =>
    cases cur with
    | obj kvs =>
      rw [hobj kvs rfl]
      simp only [retrieve]
      rfl
    | arr xs =>
      have hu := union_eq env ti (ids.map (fun _ => SubI.wild)) rest prev root (.arr xs) aloc st
      have hm := multiTwin_model env ti ids rest root xs aloc (st, 0, none)
      have hgoal : syntaxChildMultiIdentifier_retrieve (multiRecv env i ids (some ti) rest) root ⟨.arr xs, aloc⟩ st =
          syntaxUnionQualifier_retrieve (unionRecv env ti (ids.map (fun _ => SubI.wild)) rest) root ⟨.arr xs, aloc⟩ st := rfl
      rw [hgoal, ← hu]
      simp only [retrieve]
      exact (congrArg (fun x => x >>= fun acc => (Except.ok (endGroup ti acc) : M (St × Option RtErr))) hm).symm
    | _ => simp only [retrieve]; rfl


/-! ### `[?(…)]` -/


theorem forRange_loopAcc_mem {α : Type} (f : α → St → M (St × Option RtErr)) (body : α → Acc → M Acc) :
    ∀ (xs : List α) (acc : Acc), (∀ x ∈ xs, ∀ st dl de, body x (st, dl, de) = stepAcc (f x st) dl de) →
      forRange xs acc body = loopAcc f xs acc
  | [], acc, _ => rfl
  | x :: xs, (st, dl, de), h => by
    simp only [forRange, loopAcc, h x List.mem_cons_self]
    cases stepAcc (f x st) dl de with
    | error p => rfl
    | ok acc' => exact forRange_loopAcc_mem f body xs acc' (fun y hy => h y (List.mem_cons_of_mem _ hy))

/-- a loop over the positions of `zs` whose branch at position `i` is `H zs[i]` is the loop over `zs` -/
theorem loopAcc_index {γ : Type} (zs : List γ) (F : Int → St → M (St × Option RtErr)) (H : γ → St → M (St × Option RtErr))
    (h : ∀ (i : Nat) (hi : i < zs.length) (st : St), F (i : Int) st = H zs[i] st) (acc : Acc) :
    loopAcc F (rangeLen zs) acc = loopAcc H zs acc := by
  rw [rangeLen_eq, loopAcc_map]
  have h1 : loopAcc (fun (zi : γ × Nat) => F (zi.2 : Int)) zs.zipIdx acc = loopAcc (fun (zi : γ × Nat) => H zi.1) zs.zipIdx acc := by
    apply loopAcc_congr
    intro zi hzi st
    have hg := List.mem_zipIdx_iff_getElem?.mp hzi
    obtain ⟨hlt, heq⟩ := List.getElem?_eq_some_iff.mp hg
    rw [h zi.2 hlt st, heq]
  rw [h1, ← loopAcc_map (fun (zi : γ × Nat) => zi.1) H, List.zipIdx_map_fst]

theorem rangeLen_congr {α β : Type} (xs : List α) (ys : List β) (h : xs.length = ys.length) : rangeLen xs = rangeLen ys := by
  simp only [rangeLen, h]



theorem sliceIndex_append_mid {α : Type} (pre : List α) (k : α) (post : List α) :
    sliceIndex (pre ++ k :: post) (pre.length : Int) = .ok k := by
  have hneg : ¬ ((pre.length : Int) < 0) := by omega
  simp [sliceIndex, hneg]

theorem sliceSet_append_mid {α : Type} (done : List α) (t0 : α) (tail : List α) (a : α) :
    sliceSet (done ++ t0 :: tail) (done.length : Int) a = .ok (done ++ a :: tail) := by
  have h1 : ¬ ((done.length : Int) < 0) := by omega
  have h2 : ¬ ((done.length : Int) ≥ ((done ++ t0 :: tail).length : Int)) := by
    simp only [List.length_append, List.length_cons]; omega
  simp only [sliceSet, h1, h2, Bool.or_self, decide_false, Bool.false_eq_true, if_false, Int.toNat_natCast, List.set_append_right _ _ (Nat.le_refl _), Nat.sub_self, List.set_cons_zero]

theorem fill_step {α β : Type} (g : α → β) (pre : List α) (k : α) (ks : List α) (done : List β) (t0 : β) (tail : List β)
    (hd : done.length = pre.length) :
    (do
      let t_1 ← sliceIndex (pre ++ k :: ks) (pre.length : Int)
      let valueList ← sliceSet (done ++ t0 :: tail) (pre.length : Int) (g t_1)
      pure valueList : M (List β)) = .ok (done ++ g k :: tail) := by
  rw [sliceIndex_append_mid, ← hd]
  show sliceSet (done ++ t0 :: tail) (done.length : Int) (g k) = _
  rw [sliceSet_append_mid]

/-- the loop `for index := range keys { list[index] = g(keys[index]) }` on a list of the right length -/
theorem fill_loop {α β : Type} (g : α → β) : ∀ (ks pre : List α) (done tail : List β),
    done.length = pre.length → tail.length = ks.length →
    forRange ((List.range' pre.length ks.length).map (fun (i : Nat) => (i : Int))) (done ++ tail)
      (fun index valueList => do
        let t_1 ← sliceIndex (pre ++ ks) index
        let valueList ← sliceSet valueList index (g t_1)
        pure valueList) = .ok (done ++ ks.map g)
  | [], pre, done, tail, _, ht => by
    cases tail with
    | nil => rfl
    | cons a b => simp at ht
  | k :: ks, pre, done, tail, hd, ht => by
    cases tail with
    | nil => simp at ht
    | cons t0 tail' =>
      have hs := fill_step g pre k ks done t0 tail' hd
      have ih := fill_loop g ks (pre ++ [k]) (done ++ [g k]) tail' (by simp [hd]) (by simpa using ht)
      simp only [List.length_append, List.length_cons, List.length_nil, List.append_assoc, List.cons_append,
        List.nil_append, Nat.zero_add] at ih
      simp only [List.length_cons, List.range'_succ, List.map_cons, forRange, hs]
      exact ih

theorem fill_loop' {α β : Type} (g : α → β) (ks : List α) (init : List β) (h : init.length = ks.length) :
    forRange (rangeLen ks) init
      (fun index valueList => do
        let t_1 ← sliceIndex ks index
        let valueList ← sliceSet valueList index (g t_1)
        pure valueList) = .ok (ks.map g) := by
  have := fill_loop g ks [] [] init rfl h
  simpa [rangeLen, List.range_eq_range'] using this



theorem cellIsEmpty_at (vl : VL) (i : Nat) (hi : i < vl.cells.length) :
    cellIsEmpty vl (i : Int) = .ok vl.cells[i].isEmpty := by
  have hneg : ¬ ((i : Int) < 0) := by omega
  simp [cellIsEmpty, sliceIndex, hneg, hi, bind, Except.bind]

/-- the selection loop of a filter: every member when the query answered with one verdict for
    all, else the members whose cell is not the marker -/
theorem filter_loop {β : Type} (es : List β) (vl : VL) (isEach : Bool)
    (hlen : isEach = true → vl.cells.length = es.length)
    (b : Int → St → M (St × Option RtErr)) (h : β → St → M (St × Option RtErr))
    (hb : ∀ (i : Nat) (hi : i < es.length) (st : St), b (i : Int) st = h es[i] st)
    (body : Int → Acc → M Acc)
    (hbody : ∀ ix st dl de, body ix (st, dl, de) =
      (if isEach then do
          let t_3 ← cellIsEmpty vl ix
          if t_3 then pure (st, dl, de) else stepAcc (b ix st) dl de
        else stepAcc (b ix st) dl de))
    (acc : Acc) :
    forRange (rangeLen es) acc body =
      loopAcc h (if isEach then ((es.zip vl.cells).filter (fun ec => !ec.2.isEmpty)).map (·.1) else es) acc := by
  cases isEach with
  | false =>
    simp only [Bool.false_eq_true, if_false] at hbody ⊢
    rw [forRange_loopAcc b body hbody]
    exact loopAcc_index es b h hb acc
  | true =>
    simp only [if_true] at hbody ⊢
    have hl := hlen rfl
    rw [forRange_loopAcc (fun ix st =>
        match cellIsEmpty vl ix with
        | .ok true => .ok (st, none)
        | .ok false => b ix st
        | .error p => .error p)]
    · rw [rangeLen_congr es (es.zip vl.cells) (by simp [hl]),
        loopAcc_index (es.zip vl.cells) _ (fun ec st => if !ec.2.isEmpty then h ec.1 st else .ok (st, none)),
        loopAcc_map, loopAcc_filter]
      intro i hi st
      have hi1 : i < es.length := by simp at hi; omega
      have hi2 : i < vl.cells.length := by simp at hi; omega
      rw [cellIsEmpty_at vl i hi2, List.getElem_zip]
      cases hc : vl.cells[i].isEmpty with
      | true => simp
      | false => simp [hb i hi1 st]
    · intro ix st dl de
      rw [hbody]
      cases cellIsEmpty vl ix with
      | error p => rfl
      | ok t => cases t <;> rfl

theorem goLen_beq {α β : Type} (xs : List α) (ys : List β) : (goLen xs == goLen ys) = (xs.length == ys.length) := by
  simp only [goLen]
  cases h : xs.length == ys.length with
  | true =>
    have : xs.length = ys.length := by simpa using h
    simp [this]
  | false =>
    have : xs.length ≠ ys.length := by simpa using h
    simp
    omega

/-- a filter after its query has answered `vl` (never an empty list): the early return on a
    whole-list "no", the selection loop, the common tail -/
theorem filter_tail {β : Type} (i : Info) (es : List β) (vl : VL) (st : St) (hne : vl.cells ≠ [])
    (b : Int → St → M (St × Option RtErr)) (h : β → St → M (St × Option RtErr))
    (hb : ∀ (i : Nat) (hi : i < es.length) (st : St), b (i : Int) st = h es[i] st)
    (body : Int → Acc → M Acc)
    (hbody : ∀ ix st dl de, body ix (st, dl, de) =
      (if (goLen vl.cells == goLen es) then do
          let t_3 ← cellIsEmpty vl ix
          if t_3 then pure (st, dl, de) else stepAcc (b ix st) dl de
        else stepAcc (b ix st) dl de))
    (fin : Acc → M (St × Option RtErr)) (hfin : ∀ st dl de, fin (st, dl, de) = .ok (endGroup i (st, dl, de))) :
    (if !(goLen vl.cells == goLen es) then do
       let t_4 ← cellIsEmpty vl 0
       if t_4 then .ok (st, some (RtErr.member i)) else (forRange (rangeLen es) (st, 0, none) body >>= fin)
     else (forRange (rangeLen es) (st, 0, none) body >>= fin)) =
    (match vl.cells with
     | [] => .error .indexOutOfRange
     | c0 :: _ =>
       if !(vl.cells.length == es.length) && c0.isEmpty then .ok (st, some (.member i)) else do
         let sel := if (vl.cells.length == es.length) then
             ((es.zip vl.cells).filter (fun ec => !ec.2.isEmpty)).map (·.1) else es
         let acc ← loopAcc h sel (st, 0, none)
         .ok (endGroup i acc)) := by
  rw [filter_loop es vl (goLen vl.cells == goLen es) (fun he => by rw [goLen_beq] at he; simpa using he) b h hb body hbody]
  rw [goLen_beq]
  obtain ⟨c0, cs, hc⟩ : ∃ c0 cs, vl.cells = c0 :: cs := by
    cases hc : vl.cells with
    | nil => exact absurd hc hne
    | cons c0 cs => exact ⟨c0, cs, rfl⟩
  have h0 : cellIsEmpty vl 0 = .ok c0.isEmpty := by
    have := cellIsEmpty_at vl 0 (by rw [hc]; simp)
    simpa [hc] using this
  generalize (vl.cells.length == es.length) = isEach
  generalize ((es.zip vl.cells).filter (fun ec => !ec.2.isEmpty)).map (·.1) = selF
  have hrest : ∀ sel, (loopAcc h sel (st, 0, none) >>= fin) =
      (do
         let acc ← loopAcc h sel (st, 0, none)
         .ok (endGroup i acc)) := by
    intro sel
    simp only [bind, Except.bind]
    cases loopAcc h sel (st, 0, none) with
    | error p => rfl
    | ok acc =>
      obtain ⟨st', dl, de⟩ := acc
      exact hfin st' dl de
  rw [hc]
  cases isEach with
  | true => simpa using hrest selF
  | false =>
    simp only [Bool.not_false, if_true, h0, Bool.true_and]
    cases c0.isEmpty with
    | true => rfl
    | false => exact hrest es


/-- what a filter does once its query has answered `vl`, over the members `es` with branch `h` -/
def filterSel {β : Type} (i : Info) (es : List β) (h : β → St → M (St × Option RtErr)) (vl : VL) (st : St) :
    M (St × Option RtErr) :=
  match vl.cells with
  | [] => .error .indexOutOfRange
  | c0 :: _ =>
    if !(vl.cells.length == es.length) && c0.isEmpty then .ok (st, some (.member i)) else do
      let sel := if (vl.cells.length == es.length) then
          ((es.zip vl.cells).filter (fun ec => !ec.2.isEmpty)).map (·.1) else es
      let acc ← loopAcc h sel (st, 0, none)
      .ok (endGroup i acc)

theorem zip_sel_map {β γ : Type} (g : β → γ) : ∀ (es : List β) (cells : List Cell),
    (((es.map g).zip cells).filter (fun ec => !ec.2.isEmpty)).map (·.1) =
      (((es.zip cells).filter (fun ec => !ec.2.isEmpty)).map (·.1)).map g
  | [], _ => rfl
  | _ :: _, [] => rfl
  | e :: es, c :: cs => by
    simp only [List.map_cons, List.zip_cons_cons, List.filter_cons]
    cases c.isEmpty <;> simp [zip_sel_map g es cs]

theorem filterSel_map {β γ : Type} (i : Info) (g : β → γ) (es : List β) (h : γ → St → M (St × Option RtErr))
    (vl : VL) (st : St) : filterSel i (es.map g) h vl st = filterSel i es (fun b => h (g b)) vl st := by
  unfold filterSel
  simp only [List.length_map, zip_sel_map]
  cases vl.cells with
  | nil => rfl
  | cons c0 cs =>
    dsimp only
    cases ((c0 :: cs).length == es.length) with
    | true => simp only [if_true, loopAcc_map]
    | false => simp only [Bool.false_eq_true, if_false, loopAcc_map]

def filterRecv (env : Env) (i : Info) (q : Q) (rest : List N) : FilterRecv :=
  { basic := basicRecv env i rest, query := fun root ms st => computeQ env q root ms st }

theorem filterList_eq (env : Env) (i : Info) (q : Q) (rest : List N) (root : Val) (l : GoList) (st : St)
    (hq : ∀ vl st1, computeQ env q root l.xs st = .ok (vl, st1) → vl.cells ≠ []) :
    syntaxFilterQualifier_retrieveList (filterRecv env i q rest) root l st =
      (do
        let (vl, st1) ← computeQ env q root l.xs st
        filterSel i l.xs.zipIdx (fun xi st => retrieve env rest i root xi.1 (some (l.loc ++ [.idx xi.2])) st) vl st1) := by
  unfold syntaxFilterQualifier_retrieveList
  simp only [filterRecv]
  cases hc : computeQ env q root l.xs st with
  | error p => rfl
  | ok r =>
    obtain ⟨vl, st1⟩ := r
    have e1 : rangeLen l.xs = rangeLen l.xs.zipIdx := rangeLen_congr _ _ (by simp)
    have e2 : goLen l.xs = goLen l.xs.zipIdx := by simp [goLen]
    rw [e1, e2]
    refine filter_tail i l.xs.zipIdx vl st1 (hq vl st1 hc)
      (fun ix st => syntaxBasicNode_retrieveListNext (basicRecv env i rest) root l ix st)
      (fun xi st => retrieve env rest i root xi.1 (some (l.loc ++ [.idx xi.2])) st) ?hb _ ?hbody _ ?hfin
    case hb =>
      intro n hn st
      have hn' : n < l.xs.length := by simpa using hn
      have hneg : ¬ ((n : Int) < 0) := by omega
      simp only [listNext_eq, hneg, if_false, Int.toNat_natCast, List.getElem?_eq_getElem hn', List.getElem_zipIdx]
      simp
    case hbody =>
      intro ix st dl de
      dsimp only
      cases (goLen vl.cells == goLen l.xs.zipIdx) with
      | false => exact record_eq _ dl de
      | true =>
        simp only [if_true]
        cases cellIsEmpty vl ix with
        | error p => rfl
        | ok t =>
          cases t with
          | true => rfl
          | false => exact record_eq _ dl de
    case hfin =>
      intro st dl de
      exact finish_eq i st dl de



theorem ok_bind {α β : Type} (a : α) (f : α → M β) : ((Except.ok a : M α) >>= f) = f a := rfl

theorem sortKV_vals (kvs : List (String × Val)) (hnd : (kvs.map (·.1)).Nodup) (loc : Loc) :
    (((sortKV kvs).map (·.1)).map (mapGet ⟨kvs, loc⟩)).map GoVal.v = (sortKV kvs).map (·.2) := by
  rw [List.map_map, List.map_map]
  apply List.map_congr_left
  intro kv hkv
  have hmem : kv ∈ kvs := (sortKV_perm kvs).mem_iff.mp hkv
  simp [mapGet, lookup_of_mem kvs hnd kv hmem]

theorem filterMap_eq (env : Env) (i : Info) (q : Q) (rest : List N) (root : Val) (m : GoMap) (st : St)
    (hnd : (m.kvs.map (·.1)).Nodup)
    (hq : ∀ vl st1, computeQ env q root ((sortKV m.kvs).map (·.2)) st = .ok (vl, st1) → vl.cells ≠ []) :
    syntaxFilterQualifier_retrieveMap (filterRecv env i q rest) root m st =
      (do
        let (vl, st1) ← computeQ env q root ((sortKV m.kvs).map (·.2)) st
        filterSel i (sortKV m.kvs) (fun kv st => retrieve env rest i root kv.2 (some (m.loc ++ [.key kv.1])) st) vl st1) := by
  unfold syntaxFilterQualifier_retrieveMap
  simp only [filterRecv]
  have hfill := fill_loop' (mapGet m) (getSortedKeys m) (makeGoVals (goLen (getSortedKeys m)))
    (by simp [makeGoVals, goLen])
  rw [hfill]
  have hv : ((getSortedKeys m).map (mapGet m)).map GoVal.v = (sortKV m.kvs).map (·.2) := sortKV_vals m.kvs hnd m.loc
  simp only [ok_bind, hv]
  cases hc : computeQ env q root ((sortKV m.kvs).map (·.2)) st with
  | error p => rfl
  | ok r =>
    obtain ⟨vl, st1⟩ := r
    have e1 : rangeLen (getSortedKeys m) = rangeLen (sortKV m.kvs) := rangeLen_congr _ _ (by simp [getSortedKeys])
    have e2 : goLen m.kvs = goLen (sortKV m.kvs) := by simp [goLen, (sortKV_perm m.kvs).length_eq]
    simp only [ok_bind]
    rw [e1, e2]
    refine filter_tail i (sortKV m.kvs) vl st1 (hq vl st1 hc)
      (fun ix st => sliceIndex (getSortedKeys m) ix >>= fun t => syntaxBasicNode_retrieveMapNext (basicRecv env i rest) root m t st)
      (fun kv st => retrieve env rest i root kv.2 (some (m.loc ++ [.key kv.1])) st) ?hb _ ?hbody _ ?hfin
    case hb =>
      intro n hn st
      have hneg : ¬ ((n : Int) < 0) := by omega
      have hmem : (sortKV m.kvs)[n] ∈ m.kvs := (sortKV_perm m.kvs).mem_iff.mp (List.getElem_mem hn)
      simp only [sliceIndex, getSortedKeys, hneg, if_false, Int.toNat_natCast, List.getElem?_map,
        List.getElem?_eq_getElem hn, Option.map_some, ok_bind, mapNext_eq, lookup_of_mem m.kvs hnd _ hmem]
    case hbody =>
      intro ix st dl de
      dsimp only
      have hstep : ∀ (r : M String), (do
            let t_2 ← r
            let (st, err) ← syntaxBasicNode_retrieveMapNext (basicRecv env i rest) root m t_2 st
            let (dl, de) ← (match err with
              | none => pure (dl, de)
              | some err => do
                let (dl, de) ← (if goLen st.out == 0 then do
                    let (dl, de) := addDeepestError err dl de
                    pure (dl, de)
                  else pure (dl, de))
                pure (dl, de))
            pure (st, dl, de) : M Acc) =
          stepAcc (r >>= fun t => syntaxBasicNode_retrieveMapNext (basicRecv env i rest) root m t st) dl de := by
        intro r
        cases r with
        | error p => rfl
        | ok t => exact record_eq _ dl de
      cases (goLen vl.cells == goLen (sortKV m.kvs)) with
      | false => exact hstep _
      | true =>
        simp only [if_true]
        cases cellIsEmpty vl ix with
        | error p => rfl
        | ok t =>
          cases t with
          | true => rfl
          | false => exact hstep _
    case hfin =>
      intro st dl de
      exact finish_eq i st dl de



/-- the `.filter` equation of the model, with the part after the query named -/
theorem filter_model (env : Env) (i : Info) (q : Q) (rest : List N) (prev : Info) (root cur : Val)
    (aloc : Option Loc) (st : St) (hc : cur.isContainer = true) :
    retrieve env (.filter i q :: rest) prev root cur aloc st =
      (do
        let (vl, st1) ← computeQ env q root ((entriesSeg cur).map (·.2)) st
        filterSel i (entriesSeg cur) (fun sv st => retrieve env rest i root sv.2 (ext aloc sv.1) st) vl st1) := by
  simp only [retrieve, hc, if_true, filterSel, List.length_map]
  rfl

theorem filter_eq (env : Env) (i : Info) (q : Q) (rest : List N) (prev : Info) (root cur : Val)
    (aloc : Option Loc) (st : St) (hk : keysNodup cur)
    (hq : ∀ ms vl st1, computeQ env q root ms st = .ok (vl, st1) → vl.cells ≠ []) :
    retrieve env (.filter i q :: rest) prev root cur aloc st =
      syntaxFilterQualifier_retrieve (filterRecv env i q rest) root ⟨cur, aloc⟩ st := by
  cases cur with
  | obj kvs =>
    rw [filter_model _ _ _ _ _ _ _ _ _ rfl]
    simp only [syntaxFilterQualifier_retrieve, typeSwitch]
    rw [filterMap_eq env i q rest root ⟨kvs, aloc.getD []⟩ st hk (hq _)]
    simp only [entriesSeg, List.map_map, filterSel_map]
    rfl
  | arr xs =>
    rw [filter_model _ _ _ _ _ _ _ _ _ rfl]
    simp only [syntaxFilterQualifier_retrieve, typeSwitch]
    rw [filterList_eq env i q rest root ⟨xs, aloc.getD []⟩ st (hq _)]
    simp only [entriesSeg, List.map_map, filterSel_map]
    have : (List.map ((fun x => x.2) ∘ fun (xi : Val × Nat) => (Seg.idx xi.2, xi.1)) xs.zipIdx) = xs := by
      have h1 : ((fun (x : Seg × Val) => x.2) ∘ fun (xi : Val × Nat) => (Seg.idx xi.2, xi.1)) = Prod.fst := rfl
      rw [h1, List.zipIdx_map_fst]
    rw [this]
    rfl
  | _ => simp only [retrieve]; rfl



/-! ### `..` : the explicit stack against the pre-order enumeration -/

/-- the members of a container at `loc` with their handles, in the order the model lists them -/
def membersG (v : Val) (loc : Loc) : List GoVal :=
  match v with
  | .obj kvs => kvs.map (fun kv => ⟨kv.2, some (loc ++ [.key kv.1])⟩)
  | .arr xs => xs.zipIdx.map (fun xi => ⟨xi.1, some (loc ++ [.idx xi.2])⟩)
  | _ => []

/-- the containers at and below a stack element, pre-order -/
def below (g : GoVal) : List (Val × Loc) := containersLoc g.v (g.loc.getD [])

theorem containersLocList_eq : ∀ (xs : List Val) (loc : Loc) (n : Nat),
    containersLocList xs loc n = (xs.zipIdx n).flatMap (fun xi => containersLoc xi.1 (loc ++ [.idx xi.2]))
  | [], _, _ => rfl
  | x :: xs, loc, n => by
    simp only [containersLocList, List.zipIdx_cons, List.flatMap_cons, containersLocList_eq xs loc (n + 1)]

theorem containersLocKVs_eq : ∀ (kvs : List (String × Val)) (loc : Loc),
    containersLocKVs kvs loc = kvs.flatMap (fun kv => containersLoc kv.2 (loc ++ [.key kv.1]))
  | [], _ => rfl
  | (k, x) :: kvs, loc => by
    simp only [containersLocKVs, List.flatMap_cons, containersLocKVs_eq kvs loc]

theorem containersLoc_unfold (v : Val) (loc : Loc) (hc : v.isContainer = true) :
    containersLoc v loc = (v, loc) :: (membersG v loc).flatMap below := by
  cases v with
  | obj kvs =>
    simp only [containersLoc, containersLocKVs_eq, membersG, List.flatMap_map, below]
    rfl
  | arr xs =>
    simp only [containersLoc, containersLocList_eq, membersG, List.flatMap_map, below]
    rfl
  | _ => simp [Val.isContainer] at hc

theorem below_nonContainer (g : GoVal) (h : g.v.isContainer = false) : below g = [] := by
  obtain ⟨v, l⟩ := g
  cases v <;> first | rfl | simp [Val.isContainer] at h

theorem flatMap_below_filter : ∀ (ms : List GoVal),
    (ms.filter (fun g => g.v.isContainer)).flatMap below = ms.flatMap below
  | [] => rfl
  | g :: ms => by
    cases h : g.v.isContainer with
    | true => simp only [List.filter_cons, h, if_true, List.flatMap_cons, flatMap_below_filter ms]
    | false =>
      simp only [List.filter_cons, h, Bool.false_eq_true, if_false, List.flatMap_cons, flatMap_below_filter ms,
        below_nonContainer g h, List.nil_append]

theorem membersG_wf (v : Val) (loc : Loc) (hw : v.wf = true) : ∀ g ∈ membersG v loc, g.v.wf = true := by
  intro g hg
  cases v with
  | obj kvs =>
    simp only [membersG, List.mem_map] at hg
    obtain ⟨kv, hkv, rfl⟩ := hg
    exact wfKVs_mem (wf_obj hw).2 kv hkv
  | arr xs =>
    simp only [membersG, List.mem_map] at hg
    obtain ⟨xi, hxi, rfl⟩ := hg
    have := List.mem_zipIdx_iff_getElem?.mp hxi
    exact wf_elems hw _ (List.mem_of_getElem? this)
  | _ => simp [membersG] at hg

mutual
/-- number of values in a document -/
def valSize : Val → Nat
  | .arr xs => 1 + valSizeList xs
  | .obj kvs => 1 + valSizeKVs kvs
  | _ => 1
def valSizeList : List Val → Nat
  | [] => 0
  | x :: xs => valSize x + valSizeList xs
def valSizeKVs : List (String × Val) → Nat
  | [] => 0
  | (_, x) :: xs => valSize x + valSizeKVs xs
end

mutual
theorem containersLoc_length_le : ∀ (v : Val) (loc : Loc), (containersLoc v loc).length ≤ valSize v
  | .arr xs, loc => by
    simp only [containersLoc, List.length_cons, valSize]
    have := containersLocList_length_le xs loc 0
    omega
  | .obj kvs, loc => by
    simp only [containersLoc, List.length_cons, valSize]
    have := containersLocKVs_length_le kvs loc
    omega
  | .null, _ | .bool _, _ | .num _, _ | .jnum _, _ | .str _, _ | .opq _ _, _ => by simp [containersLoc, valSize]
theorem containersLocList_length_le : ∀ (xs : List Val) (loc : Loc) (n : Nat),
    (containersLocList xs loc n).length ≤ valSizeList xs
  | [], _, _ => by simp [containersLocList, valSizeList]
  | x :: xs, loc, n => by
    simp only [containersLocList, List.length_append, valSizeList]
    have h1 := containersLoc_length_le x (loc ++ [.idx n])
    have h2 := containersLocList_length_le xs loc (n + 1)
    omega
theorem containersLocKVs_length_le : ∀ (kvs : List (String × Val)) (loc : Loc),
    (containersLocKVs kvs loc).length ≤ valSizeKVs kvs
  | [], _ => by simp [containersLocKVs, valSizeKVs]
  | (k, x) :: kvs, loc => by
    simp only [containersLocKVs, List.length_append, valSizeKVs]
    have h1 := containersLoc_length_le x (loc ++ [.key k])
    have h2 := containersLocKVs_length_le kvs loc
    omega
end



theorem downFrom_len (n : Nat) : downFrom ((n : Int) - 1) = (List.range n).reverse.map (fun (i : Nat) => (i : Int)) := by
  have : ((n : Int) - 1 + 1).toNat = n := by omega
  simp only [downFrom, this]

/-- the loop `for index := len-1; index >= 0; index-- { node := items[index]; if container { push } }` -/
theorem pushDown_rev (get : Int → M GoVal) (body : Int → List GoVal → M (List GoVal))
    (hbody : ∀ ix tn, body ix tn = get ix >>= fun node => .ok (if node.v.isContainer then tn ++ [node] else tn)) :
    ∀ (ritems : List GoVal) (S : List GoVal),
      (∀ (i : Nat) (hi : i < ritems.reverse.length), get i = .ok ritems.reverse[i]) →
      forRange ((List.range ritems.length).reverse.map (fun (i : Nat) => (i : Int))) S body =
        .ok (S ++ ritems.filter (fun g => g.v.isContainer))
  | [], S, _ => by simp [forRange]
  | r :: rs, S, h => by
    have hlast : get (rs.length : Int) = .ok r := by
      have := h rs.length (by simp)
      simpa using this
    have hinit : ∀ (i : Nat) (hi : i < rs.reverse.length), get i = .ok rs.reverse[i] := by
      intro i hi
      have hi' : i < (r :: rs).reverse.length := by simp at hi ⊢; omega
      rw [h i hi']
      congr 1
      simp only [List.reverse_cons]
      rw [List.getElem_append_left]
    simp only [List.length_cons, List.range_succ, List.reverse_append, List.reverse_cons, List.reverse_nil,
      List.nil_append, List.cons_append, List.map_cons, forRange, hbody, hlast]
    show forRange _ (if r.v.isContainer = true then S ++ [r] else S) body = _
    rw [pushDown_rev get body hbody rs _ hinit]
    cases hc : r.v.isContainer <;> simp [hc]

theorem pushDown (get : Int → M GoVal) (body : Int → List GoVal → M (List GoVal))
    (hbody : ∀ ix tn, body ix tn = get ix >>= fun node => .ok (if node.v.isContainer then tn ++ [node] else tn))
    (items : List GoVal) (S : List GoVal) (h : ∀ (i : Nat) (hi : i < items.length), get i = .ok items[i]) :
    forRange (downFrom (goLen items - 1)) S body = .ok (S ++ (items.filter (fun g => g.v.isContainer)).reverse) := by
  have := pushDown_rev get body hbody items.reverse S (by simpa using h)
  rw [goLen, downFrom_len]
  simpa [List.filter_reverse] using this



/-- `pushDown` with the index list and the body left to unification -/
theorem pushDown' (get : Int → M GoVal) {body : Int → List GoVal → M (List GoVal)} (items : List GoVal)
    (S : List GoVal) {L : List Int}
    (h : ∀ (i : Nat) (hi : i < items.length), get i = .ok items[i])
    (hbody : ∀ ix tn, body ix tn = get ix >>= fun node => .ok (if node.v.isContainer then tn ++ [node] else tn))
    (hL : L = downFrom (goLen items - 1)) :
    forRange L S body = .ok (S ++ (items.filter (fun g => g.v.isContainer)).reverse) := by
  subst hL
  exact pushDown get body hbody items S h

/-- the body of the stack loop, as the generator writes it -/
def descBody (i : RecursiveRecv) (root : Val) :
    St × Nat × Option RtErr × List GoVal → M (St × Nat × Option RtErr × List GoVal) :=
  fun (st, deepestTextLen, deepestError, targetNodes) => do
      let currentNode ← sliceIndex targetNodes (goLen targetNodes - 1)
      let targetNodes ← sliceTo targetNodes (goLen targetNodes - 1)
      let (st, deepestTextLen, deepestError, targetNodes) ← (match typeSwitch currentNode with
        | .map typedNodes => do
          let (st, deepestTextLen, deepestError) ← (if i.nextMapRequired then do
              let (st, err) ← callNext i.basic.next root (GoVal.ofMap typedNodes) st
              let (deepestTextLen, deepestError) ← (match err with
                | none => pure (deepestTextLen, deepestError)
                | some err => do
                  let (deepestTextLen, deepestError) ← (if goLen st.out == 0 then do
                      let (deepestTextLen, deepestError) := addDeepestError err deepestTextLen deepestError
                      pure (deepestTextLen, deepestError)
                    else pure (deepestTextLen, deepestError))
                  pure (deepestTextLen, deepestError))
              pure (st, deepestTextLen, deepestError)
            else pure (st, deepestTextLen, deepestError))
          let sortKeys := getSortedKeys typedNodes
          let targetNodes ← forRange (downFrom (goLen typedNodes.kvs - 1)) targetNodes (fun index targetNodes => do
            let t_1 ← sliceIndex sortKeys index
            let node := mapGet typedNodes t_1
            let targetNodes ← (match typeSwitch node with
              | .map _ | .list _ => do
                let targetNodes := targetNodes ++ [node]
                pure targetNodes
              | .other => pure targetNodes)
            pure targetNodes)
          pure (st, deepestTextLen, deepestError, targetNodes)
        | .list typedNodes => do
          let (st, deepestTextLen, deepestError) ← (if i.nextListRequired then do
              let (st, err) ← callNext i.basic.next root (GoVal.ofList typedNodes) st
              let (deepestTextLen, deepestError) ← (match err with
                | none => pure (deepestTextLen, deepestError)
                | some err => do
                  let (deepestTextLen, deepestError) ← (if goLen st.out == 0 then do
                      let (deepestTextLen, deepestError) := addDeepestError err deepestTextLen deepestError
                      pure (deepestTextLen, deepestError)
                    else pure (deepestTextLen, deepestError))
                  pure (deepestTextLen, deepestError))
              pure (st, deepestTextLen, deepestError)
            else pure (st, deepestTextLen, deepestError))
          let targetNodes ← forRange (downFrom (goLen typedNodes.xs - 1)) targetNodes (fun index targetNodes => do
            let node ← listIndex typedNodes index
            let targetNodes ← (match typeSwitch node with
              | .map _ | .list _ => do
                let targetNodes := targetNodes ++ [node]
                pure targetNodes
              | .other => pure targetNodes)
            pure targetNodes)
          pure (st, deepestTextLen, deepestError, targetNodes)
        | .other => pure (st, deepestTextLen, deepestError, targetNodes))
      pure (st, deepestTextLen, deepestError, targetNodes)

theorem pop_top (S : List GoVal) (top : GoVal) :
    sliceIndex (S ++ [top]) (goLen (S ++ [top]) - 1) = .ok top := by
  have h1 : goLen (S ++ [top]) - 1 = (S.length : Int) := by simp [goLen]
  rw [h1]
  exact sliceIndex_append_mid S top []

theorem pop_rest (S : List GoVal) (top : GoVal) :
    sliceTo (S ++ [top]) (goLen (S ++ [top]) - 1) = .ok S := by
  have h1 : goLen (S ++ [top]) - 1 = (S.length : Int) := by simp [goLen]
  rw [h1]
  have h2 : ¬ ((S.length : Int) < 0) := by omega
  have h3 : ¬ ((S.length : Int) > ((S ++ [top]).length : Int)) := by
    simp only [List.length_append, List.length_cons, List.length_nil]; omega
  simp only [sliceTo, h2, h3, decide_false, Bool.or_self, Bool.false_eq_true, if_false, Int.toNat_natCast,
    List.take_left']

/-- the container test of the inner loops -/
theorem push_if (node : GoVal) (tn : List GoVal) :
    (match typeSwitch node with
      | .map _ | .list _ => (pure (tn ++ [node]) : M (List GoVal))
      | .other => pure tn) = .ok (if node.v.isContainer then tn ++ [node] else tn) := by
  obtain ⟨v, l⟩ := node
  cases v <;> rfl

/-- what one iteration does with the container on top of the stack: hand it to `next` when its
    kind is required, record the error, push the containers among its members in reverse -/
def descStep (i : RecursiveRecv) (root : Val) (top : GoVal) (st : St) (dl : Nat) (de : Option RtErr) : M Acc :=
  stepAcc (if (if isObj top.v then i.nextMapRequired else i.nextListRequired)
    then callNext i.basic.next root ⟨top.v, some (top.loc.getD [])⟩ st else .ok (st, none)) dl de

theorem descBody_eq (i : RecursiveRecv) (root : Val) (S : List GoVal) (top : GoVal)
    (hc : top.v.isContainer = true) (hw : top.v.wf = true) (st : St) (dl : Nat) (de : Option RtErr) :
    descBody i root (st, dl, de, S ++ [top]) =
      (do
        let (st', dl', de') ← descStep i root top st dl de
        pure (st', dl', de',
          S ++ ((membersG top.v (top.loc.getD [])).filter (fun g => g.v.isContainer)).reverse)) := by
  obtain ⟨v, ol⟩ := top
  simp only [descBody, pop_top, pop_rest, ok_bind]
  cases v with
  | obj kvs =>
    have hts : typeSwitch ⟨.obj kvs, ol⟩ = .map ⟨kvs, ol.getD []⟩ := rfl
    have hsort : sortKV kvs = kvs := sortKV_of_wf hw
    have hnd : (kvs.map (·.1)).Nodup := keysNodup_of_wf (v := .obj kvs) hw
    rw [hts]
    simp only []
    rw [pushDown' (fun ix => sliceIndex (getSortedKeys ⟨kvs, ol.getD []⟩) ix >>= fun t => .ok (mapGet ⟨kvs, ol.getD []⟩ t))
      (membersG (.obj kvs) (ol.getD [])) S]
    · simp only [descStep, isObj, if_true, GoVal.ofMap]
      cases i.nextMapRequired with
      | false => rfl
      | true =>
        simp only [if_true]
        cases callNext i.basic.next root ⟨.obj kvs, some (ol.getD [])⟩ st with
        | error p => rfl
        | ok r =>
          obtain ⟨st', e⟩ := r
          cases e with
          | none => rfl
          | some err =>
            obtain ⟨out, lg, wr⟩ := st'
            cases out <;> rfl
    · intro n hn
      have hn' : n < kvs.length := by simpa [membersG] using hn
      have hneg : ¬ ((n : Int) < 0) := by omega
      have hmem : kvs[n] ∈ kvs := List.getElem_mem hn'
      simp only [sliceIndex, getSortedKeys, hsort, hneg, if_false, Int.toNat_natCast, List.getElem?_map,
        List.getElem?_eq_getElem hn', Option.map_some, ok_bind, mapGet, lookup_of_mem kvs hnd _ hmem, membersG,
        List.getElem_map, Option.getD_some]
    · intro ix tn
      cases sliceIndex (getSortedKeys ⟨kvs, ol.getD []⟩) ix with
      | error p => rfl
      | ok t => exact push_if _ tn
    · simp [goLen, membersG]
  | arr xs =>
    have hts : typeSwitch ⟨.arr xs, ol⟩ = .list ⟨xs, ol.getD []⟩ := rfl
    rw [hts]
    simp only []
    rw [pushDown' (fun ix => listIndex ⟨xs, ol.getD []⟩ ix) (membersG (.arr xs) (ol.getD [])) S]
    · simp only [descStep, isObj, Bool.false_eq_true, if_false, GoVal.ofList]
      cases i.nextListRequired with
      | false => rfl
      | true =>
        simp only [if_true]
        cases callNext i.basic.next root ⟨.arr xs, some (ol.getD [])⟩ st with
        | error p => rfl
        | ok r =>
          obtain ⟨st', e⟩ := r
          cases e with
          | none => rfl
          | some err =>
            obtain ⟨out, lg, wr⟩ := st'
            cases out <;> rfl
    · intro n hn
      have hn' : n < xs.length := by simpa [membersG] using hn
      have hneg : ¬ ((n : Int) < 0) := by omega
      simp only [listIndex, hneg, if_false, Int.toNat_natCast, List.getElem?_eq_getElem hn', membersG,
        List.getElem_map, List.getElem_zipIdx, Nat.zero_add]
    · intro ix tn
      cases listIndex ⟨xs, ol.getD []⟩ ix with
      | error p => rfl
      | ok t => exact push_if _ tn
    · simp [goLen, membersG]
  | _ => simp [Val.isContainer] at hc



/-- the containers still to be visited, in the order the stack loop will visit them -/
def todo (S : List GoVal) : List (Val × Loc) := S.reverse.flatMap below

/-- which containers are handed to `next` -/
def required (i : RecursiveRecv) (cl : Val × Loc) : Bool := if isObj cl.1 then i.nextMapRequired else i.nextListRequired

/-- the call the loop makes for a container -/
def descCall (i : RecursiveRecv) (root : Val) (cl : Val × Loc) (st : St) : M (St × Option RtErr) :=
  callNext i.basic.next root ⟨cl.1, some cl.2⟩ st

theorem todo_push (S : List GoVal) (top : GoVal) (hc : top.v.isContainer = true) :
    todo (S ++ [top]) = (top.v, top.loc.getD []) ::
      todo (S ++ ((membersG top.v (top.loc.getD [])).filter (fun g => g.v.isContainer)).reverse) := by
  simp only [todo, List.reverse_append, List.reverse_cons, List.reverse_nil, List.nil_append, List.cons_append,
    List.flatMap_cons, List.reverse_reverse, List.flatMap_append, flatMap_below_filter]
  rw [below, containersLoc_unfold _ _ hc]
  rfl

theorem descLoop (i : RecursiveRecv) (root : Val)
    (cond : St × Nat × Option RtErr × List GoVal → Bool)
    (hcond : ∀ st dl de S, cond (st, dl, de, S) = decide (goLen S > 0)) :
    ∀ (fuel : Nat) (S : List GoVal) (st : St) (dl : Nat) (de : Option RtErr),
      (∀ g ∈ S, g.v.isContainer = true ∧ g.v.wf = true) → (todo S).length ≤ fuel →
      whileLoop fuel (st, dl, de, S) cond (descBody i root) =
        (do
          let (st', dl', de') ← loopAcc (descCall i root) ((todo S).filter (required i)) (st, dl, de)
          pure (st', dl', de', [])) := by
  intro fuel
  induction fuel with
  | zero =>
    intro S st dl de hinv hlen
    rcases List.eq_nil_or_concat S with rfl | ⟨S', top, hS⟩
    · simp only [whileLoop, hcond, goLen, List.length_nil]
      rfl
    · rw [List.concat_eq_append] at hS
      subst hS
      rw [todo_push S' top (hinv top (by simp)).1] at hlen
      simp at hlen
  | succ f ih =>
    intro S st dl de hinv hlen
    rcases List.eq_nil_or_concat S with rfl | ⟨S', top, hS⟩
    · simp only [whileLoop, hcond, goLen, List.length_nil]
      rfl
    · rw [List.concat_eq_append] at hS
      subst hS
      have htop := hinv top (by simp)
      have hpos : decide (goLen (S' ++ [top]) > 0) = true := by
        simp only [goLen, List.length_append, List.length_cons, List.length_nil, decide_eq_true_eq]; omega
      rw [todo_push S' top htop.1] at hlen ⊢
      simp only [List.length_cons] at hlen
      have hinv' : ∀ g ∈ S' ++ ((membersG top.v (top.loc.getD [])).filter (fun g => g.v.isContainer)).reverse,
          g.v.isContainer = true ∧ g.v.wf = true := by
        intro g hg
        rcases List.mem_append.mp hg with h | h
        · exact hinv g (List.mem_append_left _ h)
        · have h' := List.mem_filter.mp (List.mem_reverse.mp h)
          exact ⟨h'.2, membersG_wf _ _ htop.2 g h'.1⟩
      simp only [whileLoop, hcond, hpos, if_true, descBody_eq i root S' top htop.1 htop.2]
      simp only [descStep, List.filter_cons, required]
      rcases Bool.eq_false_or_eq_true (if isObj top.v then i.nextMapRequired else i.nextListRequired) with hreq | hreq
      · simp only [hreq, if_true, loopAcc, descCall]
        cases stepAcc (callNext i.basic.next root ⟨top.v, some (top.loc.getD [])⟩ st) dl de with
        | error p => rfl
        | ok acc =>
          obtain ⟨st', dl', de'⟩ := acc
          exact ih _ st' dl' de' hinv' (by omega)
      · simp only [hreq, Bool.false_eq_true, if_false, stepAcc_skip, ok_bind]
        exact ih _ st dl de hinv' (by omega)



theorem todo_single (g : GoVal) : todo [g] = containersLoc g.v (g.loc.getD []) := by
  simp [todo, below]

/-- `descLoop_eq_preorder`: on a canonical document, with fuel at least the number of values in
    it, the explicit stack of `syntaxRecursiveChildIdentifier.retrieve` hands to `next` exactly the
    containers of the pre-order enumeration `containersLoc` whose kind `next` asked for, each with
    its location, in that order, with the deepest-error bookkeeping of a fan-out loop — for EVERY
    `next` (receiver `r` arbitrary). -/
theorem descLoop_eq_preorder (r : RecursiveRecv) (root cur : Val) (aloc : Option Loc) (st : St)
    (hc : cur.isContainer = true) (hw : cur.wf = true) (fuel : Nat) (hf : valSize cur ≤ fuel) :
    syntaxRecursiveChildIdentifier_retrieve fuel r root ⟨cur, aloc⟩ st =
      (do
        let acc ← loopAcc (descCall r root) ((containersLoc cur (aloc.getD [])).filter (required r)) (st, 0, none)
        .ok (endGroup r.basic.errorRuntime acc)) := by
  have hlen : (todo [⟨cur, aloc⟩]).length ≤ fuel := by
    rw [todo_single]
    exact Nat.le_trans (containersLoc_length_le cur _) hf
  have hinv : ∀ g ∈ [(⟨cur, aloc⟩ : GoVal)], g.v.isContainer = true ∧ g.v.wf = true := by
    intro g hg
    rw [List.mem_singleton.mp hg]
    exact ⟨hc, hw⟩
  have hset : sliceSet (makeGoVals 1) 0 (⟨cur, aloc⟩ : GoVal) = .ok [⟨cur, aloc⟩] := rfl
  have hloop := descLoop r root (fun (st, deepestTextLen, deepestError, targetNodes) => decide (goLen targetNodes > 0))
    (fun _ _ _ _ => rfl) fuel [⟨cur, aloc⟩] st 0 none hinv hlen
  rw [todo_single] at hloop
  have hmain : (do
      let deepestTextLen : Nat := 0
      let deepestError : Option RtErr := none
      let targetNodes := makeGoVals 1
      let targetNodes ← sliceSet targetNodes 0 (⟨cur, aloc⟩ : GoVal)
      let (st, deepestTextLen, deepestError, targetNodes) ← whileLoop fuel (st, deepestTextLen, deepestError, targetNodes)
        (fun (st, deepestTextLen, deepestError, targetNodes) => decide (goLen targetNodes > 0)) (descBody r root)
      if goLen st.out > 0 then
        .ok (st, none)
      else do
        if deepestError.isNone then
          .ok (st, some (RtErr.member r.basic.errorRuntime))
        else do
          .ok (st, deepestError) : M (St × Option RtErr)) =
      (do
        let acc ← loopAcc (descCall r root) ((containersLoc cur (aloc.getD [])).filter (required r)) (st, 0, none)
        .ok (endGroup r.basic.errorRuntime acc)) := by
    simp only [hset, ok_bind, hloop]
    simp only [bind, Except.bind]
    cases loopAcc (descCall r root) _ (st, 0, none) with
    | error p => rfl
    | ok acc =>
      obtain ⟨st', dl, de⟩ := acc
      exact finish_eq r.basic.errorRuntime st' dl de
  rw [← hmain]
  cases cur with
  | obj kvs => rfl
  | arr xs => rfl
  | _ => simp [Val.isContainer] at hc



def descRecv (env : Env) (i : Info) (mr lr : Bool) (rest : List N) : RecursiveRecv :=
  { basic := basicRecv env i rest, nextMapRequired := mr, nextListRequired := lr }

theorem desc_eq (env : Env) (i : Info) (mr lr : Bool) (rest : List N) (hrest : rest ≠ []) (prev : Info)
    (root cur : Val) (aloc : Option Loc) (st : St) (hw : cur.wf = true) (fuel : Nat) (hf : valSize cur ≤ fuel) :
    retrieve env (.desc i mr lr :: rest) prev root cur aloc st =
      syntaxRecursiveChildIdentifier_retrieve fuel (descRecv env i mr lr rest) root ⟨cur, aloc⟩ st := by
  cases hc : cur.isContainer with
  | false =>
    simp only [retrieve, hc, Bool.false_eq_true, if_false]
    cases cur <;> first | rfl | simp [Val.isContainer] at hc
  | true =>
    rw [descLoop_eq_preorder _ root cur aloc st hc hw fuel hf]
    simp only [retrieve, hc, if_true]
    cases rest with
    | nil => exact absurd rfl hrest
    | cons n rest' => rfl

/-- a `next` that only records what it is handed (value and location), and never fails -/
def logNext : Next := fun _ v st => .ok (st.push (.acc v.v v.loc), none)

theorem loopAcc_log (i : RecursiveRecv) (root : Val) (hn : i.basic.next = some logNext) :
    ∀ (cls : List (Val × Loc)) (st : St) (dl : Nat) (de : Option RtErr),
      loopAcc (descCall i root) cls (st, dl, de) =
        .ok ({ st with out := st.out ++ cls.map (fun cl => Res.acc cl.1 (some cl.2)) }, dl, de)
  | [], st, dl, de => by simp [loopAcc]
  | cl :: cls, st, dl, de => by
    simp only [loopAcc, descCall, hn, callNext, logNext, stepAcc_skip, ok_bind]
    rw [loopAcc_log i root hn cls]
    simp [St.push]

/-- the sequence of (container, location) pairs the stack loop hands to `next`, made explicit with
    a recording `next`: the buffer grows by exactly the filtered pre-order enumeration -/
theorem descLoop_visits (r : RecursiveRecv) (hn : r.basic.next = some logNext) (root cur : Val) (aloc : Option Loc)
    (st : St) (hc : cur.isContainer = true) (hw : cur.wf = true) (fuel : Nat) (hf : valSize cur ≤ fuel) :
    ∃ e, syntaxRecursiveChildIdentifier_retrieve fuel r root ⟨cur, aloc⟩ st =
      .ok ({ st with out := st.out ++
        ((containersLoc cur (aloc.getD [])).filter (required r)).map (fun cl => Res.acc cl.1 (some cl.2)) }, e) := by
  rw [descLoop_eq_preorder r root cur aloc st hc hw fuel hf, loopAcc_log r root hn]
  exact ⟨_, rfl⟩


end NodeTie
end JPV
