/-
Lemmas/PegEquivSimL — one simulation lemma per rule of the checker `eqv` (Peg/Equiv).
`SimAt gs gt f F k as bs`: wherever `k` holds, an answer of the sequence `as` under `gs` with fuel `f`
is the answer of `bs` under `gt` with fuel `F`.
-/
import JPV.Lemmas.PegEquivBeh
namespace JPV.Peg

def SimAt (gs gt : Grammar) (f F : Nat) (k : Know) (as bs : List PE) : Prop :=
  ∀ (inp : Array Char) (pos : Nat) (r : Result), k.holds inp pos →
    runSeq gs f as inp pos = r → r ≠ .outOfFuel → runSeq gt F bs inp pos = r

def SimE (gs gt : Grammar) (f F : Nat) (k : Know) (a b : PE) : Prop :=
  ∀ (inp : Array Char) (pos : Nat) (r : Result), k.holds inp pos →
    run gs f a inp pos = r → r ≠ .outOfFuel → run gt F b inp pos = r

variable {gs gt : Grammar}

theorem SimAt.mono {f F F' : Nat} {k : Know} {as bs : List PE} (h : SimAt gs gt f F k as bs) (hle : F ≤ F') :
    SimAt gs gt f F' k as bs :=
  fun inp pos r hk hrun hr => runSeq_lift (h inp pos r hk hrun hr) hr hle

theorem SimE.mono {f F F' : Nat} {k : Know} {a b : PE} (h : SimE gs gt f F k a b) (hle : F ≤ F') :
    SimE gs gt f F' k a b :=
  fun inp pos r hk hrun hr => run_lift (h inp pos r hk hrun hr) hr hle

theorem SimAt.single {f F : Nat} {k : Know} {a b : PE} (h : SimAt gs gt f F k [a] [b]) : SimE gs gt f F k a b := by
  intro inp pos r hk hrun hr
  have := h inp pos r hk (by rw [runSeq_single]; exact hrun) hr
  rwa [runSeq_single] at this

theorem sim_nil (f F : Nat) (k : Know) : SimAt gs gt f F k [] [] := by
  intro inp pos r _ hrun _
  rw [runSeq_nil] at hrun ⊢; exact hrun

/-- heads simulate, tails simulate at the position the head ends -/
theorem sim_cons {f F : Nat} {k : Know} {a b : PE} {as bs : List PE}
    (hh : SimE gs gt f F k a b)
    (ht : ∀ (inp : Array Char) (pos p : Nat) (t : List Tok), k.holds inp pos → run gs f a inp pos = .ok p t →
      ∀ r', runSeq gs f as inp p = r' → r' ≠ .outOfFuel → runSeq gt F bs inp p = r') :
    SimAt gs gt f F k (a :: as) (b :: bs) := by
  intro inp pos r hk hrun hr
  rcases runSeq_cons_inv hrun hr with ⟨ha, rfl⟩ | ⟨p, t, r', ha, hrest, hr', rfl⟩
  · exact runSeq_cons_fail (hh inp pos _ hk ha (by simp))
  · rw [runSeq_cons_ok (hh inp pos _ hk ha (by simp)), ht inp pos p t hk ha r' hrest hr']

theorem sim_cons_top {f F : Nat} {k : Know} {a b : PE} {as bs : List PE}
    (hh : SimE gs gt f F k a b) (ht : SimAt gs gt f F .top as bs) :
    SimAt gs gt f F k (a :: as) (b :: bs) :=
  sim_cons hh (fun inp _ p _ _ _ r' hrest hr' => ht inp p r' (Know.holds_top p) hrest hr')

theorem sim_cons_keep {f F : Nat} {k : Know} {a b : PE} {as bs : List PE}
    (hh : SimE gs gt f F k a b)
    (hpos : ∀ (inp : Array Char) (pos p : Nat) (t : List Tok), run gs f a inp pos = .ok p t → p = pos)
    (ht : SimAt gs gt f F k as bs) :
    SimAt gs gt f F k (a :: as) (b :: bs) :=
  sim_cons hh (fun inp pos p t hk ha r' hrest hr' => by
    have := hpos inp pos p t ha; subst this
    exact ht inp p r' hk hrest hr')

/-! ### normalisation and unfolding -/

theorem sim_normL {f F : Nat} {k : Know} {a : PE} {l as bs : List PE} (hn : norm1 a = some l)
    (h : SimAt gs gt f F k (l ++ as) bs) : SimAt gs gt f F k (a :: as) bs := by
  intro inp pos r hk hrun hr
  exact h inp pos r hk (runSeq_head_src (fun r' => (norm1_run hn).1 f pos r') hrun hr) hr

theorem sim_normR {f F : Nat} {k : Know} {b : PE} {l as bs : List PE} (hn : norm1 b = some l)
    (h : SimAt gs gt f F k as (l ++ bs)) : SimAt gs gt f (F + 1) k as (b :: bs) := by
  intro inp pos r hk hrun hr
  exact runSeq_head_tgt (d := 1) (fun r' => (norm1_run hn).2 F pos r') (h inp pos r hk hrun hr) hr

theorem sim_unfoldL {f F : Nat} {k : Know} {x : String} {as bs : List PE}
    (h : SimAt gs gt f F k (ruleBody gs x :: as) bs) : SimAt gs gt f F k (.rule x :: as) bs := by
  intro inp pos r hk hrun hr
  refine h inp pos r hk (runSeq_head_src (l := [ruleBody gs x]) (fun r' hr1 hr2 => ?_) hrun hr) hr
  cases f with
  | zero => rw [run_zero] at hr1; exact absurd hr1.symm hr2
  | succ f =>
    rw [run_rule] at hr1
    rw [runSeq_single]; exact run_lift hr1 hr2 (Nat.le_succ f)

theorem sim_unfoldR {f F : Nat} {k : Know} {y : String} {as bs : List PE}
    (h : SimAt gs gt f F k as (ruleBody gt y :: bs)) : SimAt gs gt f (F + 1) k as (.rule y :: bs) := by
  intro inp pos r hk hrun hr
  refine runSeq_head_tgt (d := 1) (l := [ruleBody gt y]) (fun r' hr1 _ => ?_) (h inp pos r hk hrun hr) hr
  rw [runSeq_single] at hr1
  rw [run_rule]; exact hr1

/-- two references to the same rule whose bodies simulate -/
theorem simE_rule {f F F' : Nat} {k : Know} {x : String}
    (hb : ∀ f', f = f' + 1 → SimE gs gt f' F' .top (ruleBody gs x) (ruleBody gt x)) (hF : F' < F) :
    SimE gs gt f F k (.rule x) (.rule x) := by
  intro inp pos r _ hrun hr
  cases f with
  | zero => rw [run_zero] at hrun; exact absurd hrun.symm hr
  | succ f =>
    rw [run_rule] at hrun
    obtain ⟨F1, rfl⟩ : ∃ F1, F = F1 + 1 := ⟨F - 1, by omega⟩
    rw [run_rule]
    exact run_lift (hb f rfl inp pos r (Know.holds_top pos) hrun hr) hr (by omega)

/-! ### matchers -/

theorem mres_congr {k : Know} {x y : CS} {inp : Array Char} {pos : Nat} (hk : k.holds inp pos)
    (he : (CS.inter k.cs (.union (.diff x y) (.diff y x))).isEmpty = true) :
    mres x inp pos = mres y inp pos := by
  unfold mres
  unfold Know.holds at hk
  cases hc : inp[pos]? with
  | none => rfl
  | some c =>
    rw [hc] at hk
    have := CS.isEmpty_sound he c.toNat
    simp only [CS.mem, hk, Bool.true_and] at this
    have hxy : x.mem c.toNat = y.mem c.toNat := by
      cases hx : x.mem c.toNat <;> cases hy : y.mem c.toNat <;> simp [hx, hy] at this ⊢
    simp only [hxy]

theorem simE_matcher {f F : Nat} {k : Know} {a b : PE} {x y : CS}
    (ha : matcher? a = some x) (hb : matcher? b = some y) (hd : b.depth ≤ F)
    (he : (CS.inter k.cs (.union (.diff x y) (.diff y x))).isEmpty = true) :
    SimE gs gt f F k a b := by
  intro inp pos r hk hrun hr
  rw [matcher_run b y hb F pos hd, ← mres_congr hk he]
  exact (matcher_run_of_ne ha hrun hr).symm

/-! ### removing an alternative that fails -/

theorem sim_skipR {f F N : Nat} {k : Know} {b1 b2 : PE} {as bs : List PE}
    (hF : (behave gt N k b1).isF = true) (hN : N ≤ F)
    (h : SimAt gs gt f F k as (b2 :: bs)) : SimAt gs gt f (F + 1) k as (.alt b1 b2 :: bs) := by
  intro inp pos r hk hrun hr
  refine runSeq_head_tgt (d := 1) (l := [b2]) (fun r' hr1 _ => ?_) (h inp pos r hk hrun hr) hr
  rw [runSeq_single] at hr1
  rw [run_alt, (behave_F hF hk).1 F hN]; exact hr1

theorem sim_dropR {f F N : Nat} {k : Know} {b1 b2 : PE} {as bs : List PE}
    (hF : (behave gt N k b2).isF = true) (hN : N ≤ F)
    (h : SimAt gs gt f F k as (b1 :: bs)) : SimAt gs gt f (F + 1) k as (.alt b1 b2 :: bs) := by
  intro inp pos r hk hrun hr
  refine runSeq_head_tgt (d := 1) (l := [b1]) (fun r' hr1 hr2 => ?_) (h inp pos r hk hrun hr) hr
  rw [runSeq_single] at hr1
  rw [run_alt, hr1]
  cases r' with
  | fail => simp only; exact (behave_F hF hk).1 F hN
  | outOfFuel => exact absurd rfl hr2
  | ok p t => rfl

theorem sim_skipL {f F N : Nat} {k : Know} {a1 a2 : PE} {as bs : List PE}
    (hF : (behave gs N k a1).isF = true)
    (h : SimAt gs gt f F k (a2 :: as) bs) : SimAt gs gt f F k (.alt a1 a2 :: as) bs := by
  intro inp pos r hk hrun hr
  refine h inp pos r hk (runSeq_head_src (l := [a2]) (fun r' hr1 hr2 => ?_) hrun hr) hr
  rw [runSeq_single]
  cases f with
  | zero => rw [run_zero] at hr1; exact absurd hr1.symm hr2
  | succ f =>
    rw [run_alt] at hr1
    cases h1 : run gs f a1 inp pos with
    | fail => rw [h1] at hr1; exact run_lift hr1 hr2 (Nat.le_succ f)
    | outOfFuel => rw [h1] at hr1; exact absurd hr1.symm hr2
    | ok p t => exact absurd ((behave_F hF hk).2 f _ h1 (by simp)) (by simp)

theorem sim_dropL {f F N : Nat} {k : Know} {a1 a2 : PE} {as bs : List PE}
    (hF : (behave gs N k a2).isF = true)
    (h : SimAt gs gt f F k (a1 :: as) bs) : SimAt gs gt f F k (.alt a1 a2 :: as) bs := by
  intro inp pos r hk hrun hr
  refine h inp pos r hk (runSeq_head_src (l := [a1]) (fun r' hr1 hr2 => ?_) hrun hr) hr
  rw [runSeq_single]
  cases f with
  | zero => rw [run_zero] at hr1; exact absurd hr1.symm hr2
  | succ f =>
    rw [run_alt] at hr1
    cases h1 : run gs f a1 inp pos with
    | fail =>
      rw [h1] at hr1; simp only at hr1
      have := (behave_F hF hk).2 f _ hr1 hr2
      subst this
      exact run_lift h1 (by simp) (Nat.le_succ f)
    | outOfFuel => rw [h1] at hr1; exact absurd hr1.symm hr2
    | ok p t => rw [h1] at hr1; subst hr1; exact run_lift h1 (by simp) (Nat.le_succ f)

/-! ### a guard `!m` that holds -/

theorem sim_dropNotL {f F N : Nat} {k : Know} {m : PE} {as bs : List PE}
    (hm : mFails k m N = true)
    (h : SimAt gs gt f F k as bs) : SimAt gs gt f F k (.not m :: as) bs := by
  intro inp pos r hk hrun hr
  refine h inp pos r hk (runSeq_head_src (l := []) (fun r' hr1 hr2 => ?_) hrun hr) hr
  rw [runSeq_nil]
  cases f with
  | zero => rw [run_zero] at hr1; exact absurd hr1.symm hr2
  | succ f =>
    rw [run_not] at hr1
    cases h1 : run gs f m inp pos with
    | fail => rw [h1] at hr1; exact hr1
    | outOfFuel => rw [h1] at hr1; exact absurd hr1.symm hr2
    | ok p t =>
      have h2 := run_lift h1 (by simp) (Nat.le_max_left f N)
      have h3 := run_lift (mFails_run (g := gs) hm hk) (by simp) (Nat.le_max_right f N)
      rw [h2] at h3; cases h3

theorem sim_dropNotR {f F N : Nat} {k : Know} {m : PE} {as bs : List PE}
    (hm : mFails k m N = true) (hN : N ≤ F)
    (h : SimAt gs gt f F k as bs) : SimAt gs gt f (F + 1) k as (.not m :: bs) := by
  intro inp pos r hk hrun hr
  refine runSeq_head_tgt (d := 1) (l := []) (fun r' hr1 _ => ?_) (h inp pos r hk hrun hr) hr
  rw [runSeq_nil] at hr1
  rw [run_not, run_lift (mFails_run (g := gt) hm hk) (by simp) hN]; exact hr1

/-! ### the guarded choice `(&m A) / R` -/

/-- is the current character in `s` -/
def inSet (s : CS) (inp : Array Char) (pos : Nat) : Bool :=
  match inp[pos]? with
  | some c => s.mem c.toNat
  | none => false

theorem mres_eq_inSet (s : CS) (inp : Array Char) (pos : Nat) :
    mres s inp pos = if inSet s inp pos then .ok (pos + 1) [] else .fail := by
  unfold mres inSet
  cases inp[pos]? <;> simp

theorem holds_andIn {k : Know} {s : CS} {inp : Array Char} {pos : Nat} (hk : k.holds inp pos)
    (hs : inSet s inp pos = true) : (k.andIn s).holds inp pos := by
  unfold Know.holds at hk ⊢; unfold inSet at hs
  cases hc : inp[pos]? with
  | none => rw [hc] at hs; exact absurd hs (by simp)
  | some c => rw [hc] at hk hs; simp only at hk hs ⊢; simp [Know.andIn, CS.mem, hk, hs]

theorem holds_notIn {k : Know} {s : CS} {inp : Array Char} {pos : Nat} (hk : k.holds inp pos)
    (hs : inSet s inp pos = false) : (k.notIn s).holds inp pos := by
  unfold Know.holds at hk ⊢; unfold inSet at hs
  cases hc : inp[pos]? with
  | none => rw [hc] at hk; simpa [Know.notIn] using hk
  | some c => rw [hc] at hk hs; simp only at hk hs ⊢; simp [Know.notIn, CS.mem, hk, hs]

/-- what a guarded choice that answered did -/
theorem run_guard_src {g : Grammar} {inp : Array Char} {m A R : PE} {s : CS} (hm : matcher? m = some s)
    {f pos : Nat} {r : Result}
    (hrun : run g f (.alt (.seq (.and m) A) R) inp pos = r) (hr : r ≠ .outOfFuel) :
    (inSet s inp pos = true ∧
      ((∃ p t, run g f A inp pos = .ok p t ∧ r = .ok p t) ∨
       (run g f A inp pos = .fail ∧ run g f R inp pos = r))) ∨
    (inSet s inp pos = false ∧ run g f R inp pos = r) := by
  cases f with
  | zero => rw [run_zero] at hrun; exact absurd hrun.symm hr
  | succ f1 =>
  rw [run_alt] at hrun
  cases f1 with
  | zero => rw [run_zero] at hrun; exact absurd hrun.symm hr
  | succ f2 =>
  rw [run_seq'] at hrun
  cases f2 with
  | zero => rw [run_zero] at hrun; exact absurd hrun.symm hr
  | succ f3 =>
  rw [run_and] at hrun
  cases hmr : run g f3 m inp pos with
  | outOfFuel => rw [hmr] at hrun; exact absurd hrun.symm hr
  | fail =>
    rw [hmr] at hrun; simp only at hrun
    have := matcher_run_of_ne hm hmr (by simp)
    rw [mres_eq_inSet] at this
    have hs : inSet s inp pos = false := by
      cases h : inSet s inp pos with
      | false => rfl
      | true => rw [h] at this; simp at this
    exact Or.inr ⟨hs, run_lift hrun hr (by omega)⟩
  | ok p0 t0 =>
    rw [hmr] at hrun; simp only [glue_nil] at hrun
    have := matcher_run_of_ne hm hmr (by simp)
    rw [mres_eq_inSet] at this
    have hs : inSet s inp pos = true := by
      cases h : inSet s inp pos with
      | true => rfl
      | false => rw [h] at this; simp at this
    refine Or.inl ⟨hs, ?_⟩
    cases hA : run g (f3 + 1) A inp pos with
    | outOfFuel => rw [hA] at hrun; exact absurd hrun.symm hr
    | fail =>
      rw [hA] at hrun; simp only at hrun
      exact Or.inr ⟨run_lift hA (by simp) (by omega), run_lift hrun hr (by omega)⟩
    | ok p t =>
      rw [hA] at hrun; simp only at hrun
      exact Or.inl ⟨p, t, run_lift hA (by simp) (by omega), hrun.symm⟩

/-- building the answer of a guarded choice -/
theorem run_guard_tgt {g : Grammar} {inp : Array Char} {m B R : PE} {s : CS} (hm : matcher? m = some s)
    {F pos : Nat} (hd : m.depth ≤ F) :
    (inSet s inp pos = true → ∀ p t, run g F B inp pos = .ok p t →
      run g (F + 3) (.alt (.seq (.and m) B) R) inp pos = .ok p t) ∧
    (inSet s inp pos = true → run g F B inp pos = .fail → run g F R inp pos = .fail →
      run g (F + 3) (.alt (.seq (.and m) B) R) inp pos = .fail) ∧
    (inSet s inp pos = false → ∀ r, run g F R inp pos = r → r ≠ .outOfFuel →
      run g (F + 3) (.alt (.seq (.and m) B) R) inp pos = r) := by
  have hmr := matcher_run (g := g) (inp := inp) m s hm F pos hd
  rw [mres_eq_inSet] at hmr
  refine ⟨fun hs p t hB => ?_, fun hs hB hR => ?_, fun hs r hR hr => ?_⟩
  · rw [run_alt, run_seq', run_and, hmr, hs]
    simp only [if_true, glue_nil]
    rw [run_lift hB (by simp) (Nat.le_succ F)]
  · rw [run_alt, run_seq', run_and, hmr, hs]
    simp only [if_true, glue_nil]
    rw [run_lift hB (by simp) (Nat.le_succ F)]
    simp only
    exact run_lift hR (by simp) (by omega)
  · rw [run_alt, run_seq', run_and, hmr, hs]
    simp only [Bool.false_eq_true, if_false]
    exact run_lift hR hr (by omega)

theorem simE_guardL {f F N : Nat} {k : Know} {m A R b : PE} {s : CS} (hm : matcher? m = some s)
    (hA : SimE gs gt f F (k.andIn s) A b) (hF : (behave gs N (k.andIn s) R).isF = true)
    (hR : SimE gs gt f F (k.notIn s) R b) :
    SimE gs gt f F k (.alt (.seq (.and m) A) R) b := by
  intro inp pos r hk hrun hr
  rcases run_guard_src hm hrun hr with ⟨hs, ⟨p, t, hrA, rfl⟩ | ⟨hrA, hrR⟩⟩ | ⟨hs, hrR⟩
  · exact hA inp pos _ (holds_andIn hk hs) hrA (by simp)
  · have := (behave_F hF (holds_andIn hk hs)).2 f r hrR hr
    subst this
    exact hA inp pos _ (holds_andIn hk hs) hrA (by simp)
  · exact hR inp pos r (holds_notIn hk hs) hrR hr

theorem simE_guardR {f F N : Nat} {k : Know} {m B R a : PE} {s : CS} (hm : matcher? m = some s)
    (hd : m.depth ≤ F) (hN : N ≤ F)
    (hB : SimE gs gt f F (k.andIn s) a B) (hF : (behave gt N (k.andIn s) R).isF = true)
    (hR : SimE gs gt f F (k.notIn s) a R) :
    SimE gs gt f (F + 3) k a (.alt (.seq (.and m) B) R) := by
  intro inp pos r hk hrun hr
  obtain ⟨h1, h2, h3⟩ := run_guard_tgt (g := gt) (inp := inp) (B := B) (R := R) (pos := pos) hm hd
  cases hs : inSet s inp pos with
  | true =>
    have hB' := hB inp pos r (holds_andIn hk hs) hrun hr
    cases r with
    | ok p t => exact h1 hs p t hB'
    | fail => exact h2 hs hB' ((behave_F hF (holds_andIn hk hs)).1 F hN)
    | outOfFuel => exact absurd rfl hr
  | false =>
    exact h3 hs r (hR inp pos r (holds_notIn hk hs) hrun hr) hr

/-! ### same head constructor -/

theorem simE_alt {f F F' : Nat} {k : Know} {a1 a2 b1 b2 : PE}
    (h1 : ∀ f', f = f' + 1 → SimE gs gt f' F' k a1 b1) (h2 : ∀ f', f = f' + 1 → SimE gs gt f' F' k a2 b2)
    (hF : F' < F) : SimE gs gt f F k (.alt a1 a2) (.alt b1 b2) := by
  intro inp pos r hk hrun hr
  cases f with
  | zero => rw [run_zero] at hrun; exact absurd hrun.symm hr
  | succ f =>
    obtain ⟨F1, rfl⟩ : ∃ F1, F = F1 + 1 := ⟨F - 1, by omega⟩
    rw [run_alt] at hrun ⊢
    cases ha : run gs f a1 inp pos with
    | outOfFuel => rw [ha] at hrun; exact absurd hrun.symm hr
    | fail =>
      rw [ha] at hrun; simp only at hrun
      rw [run_lift (h1 f rfl inp pos _ hk ha (by simp)) (by simp) (by omega)]
      exact run_lift (h2 f rfl inp pos r hk hrun hr) hr (by omega)
    | ok p t =>
      rw [ha] at hrun; simp only at hrun
      rw [run_lift (h1 f rfl inp pos _ hk ha (by simp)) (by simp) (by omega)]
      exact hrun

theorem simE_opt {f F F' : Nat} {k : Know} {a1 b1 : PE}
    (h1 : ∀ f', f = f' + 1 → SimE gs gt f' F' k a1 b1) (hF : F' < F) :
    SimE gs gt f F k (.opt a1) (.opt b1) := by
  intro inp pos r hk hrun hr
  cases f with
  | zero => rw [run_zero] at hrun; exact absurd hrun.symm hr
  | succ f =>
    obtain ⟨F1, rfl⟩ : ∃ F1, F = F1 + 1 := ⟨F - 1, by omega⟩
    rw [run_opt] at hrun ⊢
    cases ha : run gs f a1 inp pos with
    | outOfFuel => rw [ha] at hrun; exact absurd hrun.symm hr
    | fail =>
      rw [ha] at hrun
      rw [run_lift (h1 f rfl inp pos _ hk ha (by simp)) (by simp) (by omega)]; exact hrun
    | ok p t =>
      rw [ha] at hrun
      rw [run_lift (h1 f rfl inp pos _ hk ha (by simp)) (by simp) (by omega)]; exact hrun

theorem simE_not {f F F' : Nat} {k : Know} {a1 b1 : PE}
    (h1 : ∀ f', f = f' + 1 → SimE gs gt f' F' k a1 b1) (hF : F' < F) :
    SimE gs gt f F k (.not a1) (.not b1) := by
  intro inp pos r hk hrun hr
  cases f with
  | zero => rw [run_zero] at hrun; exact absurd hrun.symm hr
  | succ f =>
    obtain ⟨F1, rfl⟩ : ∃ F1, F = F1 + 1 := ⟨F - 1, by omega⟩
    rw [run_not] at hrun ⊢
    cases ha : run gs f a1 inp pos with
    | outOfFuel => rw [ha] at hrun; exact absurd hrun.symm hr
    | fail =>
      rw [ha] at hrun
      rw [run_lift (h1 f rfl inp pos _ hk ha (by simp)) (by simp) (by omega)]; exact hrun
    | ok p t =>
      rw [ha] at hrun
      rw [run_lift (h1 f rfl inp pos _ hk ha (by simp)) (by simp) (by omega)]; exact hrun

theorem simE_and {f F F' : Nat} {k : Know} {a1 b1 : PE}
    (h1 : ∀ f', f = f' + 1 → SimE gs gt f' F' k a1 b1) (hF : F' < F) :
    SimE gs gt f F k (.and a1) (.and b1) := by
  intro inp pos r hk hrun hr
  cases f with
  | zero => rw [run_zero] at hrun; exact absurd hrun.symm hr
  | succ f =>
    obtain ⟨F1, rfl⟩ : ∃ F1, F = F1 + 1 := ⟨F - 1, by omega⟩
    rw [run_and] at hrun ⊢
    cases ha : run gs f a1 inp pos with
    | outOfFuel => rw [ha] at hrun; exact absurd hrun.symm hr
    | fail =>
      rw [ha] at hrun
      rw [run_lift (h1 f rfl inp pos _ hk ha (by simp)) (by simp) (by omega)]; exact hrun
    | ok p t =>
      rw [ha] at hrun
      rw [run_lift (h1 f rfl inp pos _ hk ha (by simp)) (by simp) (by omega)]; exact hrun

theorem simE_cap {f F F' : Nat} {k : Know} {a1 b1 : PE}
    (h1 : ∀ f', f = f' + 1 → SimE gs gt f' F' k a1 b1) (hF : F' < F) :
    SimE gs gt f F k (.cap a1) (.cap b1) := by
  intro inp pos r hk hrun hr
  cases f with
  | zero => rw [run_zero] at hrun; exact absurd hrun.symm hr
  | succ f =>
    obtain ⟨F1, rfl⟩ : ∃ F1, F = F1 + 1 := ⟨F - 1, by omega⟩
    rw [run_cap] at hrun ⊢
    cases ha : run gs f a1 inp pos with
    | outOfFuel => rw [ha] at hrun; exact absurd hrun.symm hr
    | fail =>
      rw [ha] at hrun
      rw [run_lift (h1 f rfl inp pos _ hk ha (by simp)) (by simp) (by omega)]; exact hrun
    | ok p t =>
      rw [ha] at hrun
      rw [run_lift (h1 f rfl inp pos _ hk ha (by simp)) (by simp) (by omega)]; exact hrun

theorem simE_act {f F : Nat} {k : Know} {i : Nat} (hF : 0 < F) : SimE gs gt f F k (.act i) (.act i) := by
  intro inp pos r _ hrun hr
  cases f with
  | zero => rw [run_zero] at hrun; exact absurd hrun.symm hr
  | succ f =>
    obtain ⟨F1, rfl⟩ : ∃ F1, F = F1 + 1 := ⟨F - 1, by omega⟩
    rw [run_act] at hrun ⊢; exact hrun

/-- `*`: every iteration costs one unit of fuel on both sides, hence the linear form -/
theorem simE_star {K c f : Nat} {a1 b1 : PE} (hK : 1 ≤ K)
    (h1 : ∀ f', f' < f → SimE gs gt f' (K * f' + c) .top a1 b1) :
    ∀ f'', f'' ≤ f → ∀ k, SimE gs gt f'' (K * f'' + c + 1) k (.star a1) (.star b1) := by
  intro f''
  induction f'' with
  | zero => intro _ k inp pos r _ hrun hr; rw [run_zero] at hrun; exact absurd hrun.symm hr
  | succ f2 ih =>
    intro hle k inp pos r _ hrun hr
    rw [run_star'] at hrun ⊢
    have hsub := h1 f2 (by omega)
    have hfu : K * f2 + c ≤ K * (f2 + 1) + c := by rw [Nat.mul_succ]; omega
    cases ha : run gs f2 a1 inp pos with
    | outOfFuel => rw [ha] at hrun; exact absurd hrun.symm hr
    | fail =>
      rw [ha] at hrun
      rw [run_lift (hsub inp pos _ (Know.holds_top pos) ha (by simp)) (by simp) hfu]; exact hrun
    | ok p t =>
      rw [ha] at hrun; simp only at hrun
      rw [run_lift (hsub inp pos _ (Know.holds_top pos) ha (by simp)) (by simp) hfu]
      simp only
      have hne : run gs f2 (.star a1) inp p ≠ .outOfFuel := glue_ne_oof (by rw [hrun]; exact hr)
      have hfu2 : K * f2 + c + 1 ≤ K * (f2 + 1) + c := by rw [Nat.mul_succ]; omega
      rw [run_lift (ih (by omega) .top inp p _ (Know.holds_top p) rfl hne) hne hfu2]
      exact hrun

theorem run_not_pos {g : Grammar} {inp : Array Char} {f : Nat} {a : PE} {pos p : Nat} {t : List Tok}
    (h : run g f (.not a) inp pos = .ok p t) : p = pos := by
  obtain ⟨f', rfl⟩ := run_ok_fuel h
  exact (run_not_inv h).1

theorem run_and_pos {g : Grammar} {inp : Array Char} {f : Nat} {a : PE} {pos p : Nat} {t : List Tok}
    (h : run g f (.and a) inp pos = .ok p t) : p = pos := by
  obtain ⟨f', rfl⟩ := run_ok_fuel h
  rw [run_and] at h
  cases ha : run g f' a inp pos with
  | fail => rw [ha] at h; cases h
  | outOfFuel => rw [ha] at h; cases h
  | ok p1 t1 => rw [ha] at h; cases h; rfl

theorem run_act_pos {g : Grammar} {inp : Array Char} {f : Nat} {i : Nat} {pos p : Nat} {t : List Tok}
    (h : run g f (.act i) inp pos = .ok p t) : p = pos := by
  obtain ⟨f', rfl⟩ := run_ok_fuel h
  exact (run_act_inv h).1

end JPV.Peg
