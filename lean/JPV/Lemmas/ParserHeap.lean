/-
ParserHeap — reasoning about the heap of `JPV/ParserNode.lean`: reads and writes at a known cell,
`Sat` (the heap holds a list of cells), `Frame` (what an operation leaves alone), and the loop over the
inner identifiers of a multi-name node that four helpers share.
-/
import JPV.Lemmas.ParserLayout
namespace JPV
namespace ParserLayout
open JPV JPV.ParserNode

/-! ### reads and writes -/

theorem rd_some {α : Type} {h : Heap} {i : Nat} {c : Cell} (hc : h[i]? = some c) (f : Cell → α) :
    rd h (some i) f = .ok (f c) := by
  simp only [rd, hc]

theorem wr_some {h : Heap} {i : Nat} {c : Cell} (hc : h[i]? = some c) (f : Cell → Cell) :
    wr h (some i) f = .ok (h.set i (f c)) := by
  simp only [wr, hc]

theorem lt_of_get {h : Heap} {i : Nat} {c : Cell} (hc : h[i]? = some c) : i < h.length := by
  rcases List.getElem?_eq_some_iff.mp hc with ⟨hlt, _⟩
  exact hlt

theorem get_set_self {h : Heap} {i : Nat} {c : Cell} (hc : h[i]? = some c) (c' : Cell) :
    (h.set i c')[i]? = some c' :=
  List.getElem?_set_self (lt_of_get hc)

theorem get_set_ne {h : Heap} {i j : Nat} (hne : i ≠ j) (c' : Cell) : (h.set i c')[j]? = h[j]? :=
  List.getElem?_set_ne hne

/-! ### Sat -/

theorem Sat.nil (h : Heap) : Sat h [] := by intro x hx; cases hx

theorem Sat.cons_iff {h : Heap} {x : Nat × Cell} {cs : List (Nat × Cell)} :
    Sat h (x :: cs) ↔ h[x.1]? = some x.2 ∧ Sat h cs := by
  constructor
  · intro hs
    exact ⟨hs x (List.mem_cons_self ..), fun y hy => hs y (List.mem_cons_of_mem _ hy)⟩
  · rintro ⟨h1, h2⟩ y hy
    rcases List.mem_cons.mp hy with rfl | hy
    · exact h1
    · exact h2 y hy

theorem Sat.append_iff {h : Heap} {cs ds : List (Nat × Cell)} :
    Sat h (cs ++ ds) ↔ Sat h cs ∧ Sat h ds := by
  constructor
  · intro hs
    exact ⟨fun y hy => hs y (List.mem_append_left _ hy), fun y hy => hs y (List.mem_append_right _ hy)⟩
  · rintro ⟨h1, h2⟩ y hy
    rcases List.mem_append.mp hy with hy | hy
    · exact h1 y hy
    · exact h2 y hy

theorem Sat.head {h : Heap} {x : Nat × Cell} {cs : List (Nat × Cell)} (hs : Sat h (x :: cs)) :
    h[x.1]? = some x.2 := (Sat.cons_iff.mp hs).1

theorem Sat.tail {h : Heap} {x : Nat × Cell} {cs : List (Nat × Cell)} (hs : Sat h (x :: cs)) :
    Sat h cs := (Sat.cons_iff.mp hs).2

theorem Sat.left {h : Heap} {cs ds : List (Nat × Cell)} (hs : Sat h (cs ++ ds)) : Sat h cs :=
  (Sat.append_iff.mp hs).1

theorem Sat.right {h : Heap} {cs ds : List (Nat × Cell)} (hs : Sat h (cs ++ ds)) : Sat h ds :=
  (Sat.append_iff.mp hs).2

theorem Sat.append {h : Heap} {cs ds : List (Nat × Cell)} (h1 : Sat h cs) (h2 : Sat h ds) :
    Sat h (cs ++ ds) := Sat.append_iff.mpr ⟨h1, h2⟩

theorem Sat.cons {h : Heap} {x : Nat × Cell} {cs : List (Nat × Cell)} (h1 : h[x.1]? = some x.2)
    (h2 : Sat h cs) : Sat h (x :: cs) := Sat.cons_iff.mpr ⟨h1, h2⟩

/-! ### Frame -/

theorem Frame.refl (S : List Nat) (h : Heap) : Frame S h h := ⟨rfl, fun _ _ => rfl⟩

theorem Frame.set (h : Heap) (i : Nat) (c : Cell) : Frame [i] h (h.set i c) := by
  refine ⟨List.length_set, ?_⟩
  intro j hj
  have : i ≠ j := by
    intro e
    exact hj (by rw [e]; exact List.mem_singleton.mpr rfl)
  exact get_set_ne this c

theorem Frame.mono {S T : List Nat} {h h' : Heap} (hf : Frame S h h') (hsub : ∀ i, i ∈ S → i ∈ T) :
    Frame T h h' :=
  ⟨hf.1, fun i hi => hf.2 i (fun hm => hi (hsub i hm))⟩

theorem Frame.trans {S T : List Nat} {h h' h'' : Heap} (h1 : Frame S h h') (h2 : Frame T h' h'') :
    Frame (S ++ T) h h'' := by
  refine ⟨h2.1.trans h1.1, ?_⟩
  intro i hi
  have hS : i ∉ S := fun hm => hi (List.mem_append_left _ hm)
  have hT : i ∉ T := fun hm => hi (List.mem_append_right _ hm)
  rw [h2.2 i hT, h1.2 i hS]

/-- the same set twice -/
theorem Frame.trans' {S : List Nat} {h h' h'' : Heap} (h1 : Frame S h h') (h2 : Frame S h' h'') :
    Frame S h h'' :=
  (h1.trans h2).mono (by intro i hi; rcases List.mem_append.mp hi with h | h <;> exact h)

theorem Sat.frame {S : List Nat} {h h' : Heap} {cs : List (Nat × Cell)} (hs : Sat h cs)
    (hf : Frame S h h') (hdis : ∀ x ∈ cs, x.1 ∉ S) : Sat h' cs := by
  intro x hx
  rw [hf.2 x.1 (hdis x hx)]
  exact hs x hx

theorem Frame.get {S : List Nat} {h h' : Heap} (hf : Frame S h h') {i : Nat} (hi : i ∉ S) {c : Cell}
    (hc : h[i]? = some c) : h'[i]? = some c := by
  rw [hf.2 i hi]; exact hc

/-! ### addresses -/

theorem ids_append (cs ds : List (Nat × Cell)) : ids (cs ++ ds) = ids cs ++ ids ds := List.map_append

theorem ids_cons (x : Nat × Cell) (cs : List (Nat × Cell)) : ids (x :: cs) = x.1 :: ids cs := rfl

theorem mem_ids_of_mem {x : Nat × Cell} {cs : List (Nat × Cell)} (hx : x ∈ cs) : x.1 ∈ ids cs :=
  List.mem_map.mpr ⟨x, hx, rfl⟩

theorem ids_innerCells (L : List LId) (nx : NRef) : ids (innerCells L nx) = L.map (·.id) := by
  unfold ids innerCells
  rw [List.map_map]
  rfl

/-! ### monad plumbing -/

theorem bind_ok {α β : Type} (a : α) (f : α → M β) : ((.ok a : M α) >>= f) = f a := rfl

theorem bind_err {α β : Type} (e : Err) (f : α → M β) : ((.error e : M α) >>= f) = .error e := rfl

theorem bind_pure_ok {α : Type} (x : M α) : (x >>= fun a => (.ok a : M α)) = x := by
  cases x <;> rfl

/-! ### the loop over the inner identifiers -/

/-- `for _, identifier := range multi.identifiers { identifier.<setter>(…) }` where the setter applies
    `g` to the cell of its receiver: all inner cells get `g`, nothing else changes. Generic in the
    state `σ` the loop threads (the heap itself, or the parser state). -/
theorem forEach_inner {σ : Type} (getH : σ → Heap) (setH : σ → Heap → σ)
    (hgs : ∀ s h, getH (setH s h) = h) (hss : ∀ s h h', setH (setH s h) h' = setH s h')
    (hsg : ∀ s, setH s (getH s) = s)
    (Inv : Heap → Prop) (g : Cell → Cell) (body : NRef → σ → M σ) (nx : NRef) :
    ∀ (L : List LId), (L.map (·.id)).Nodup →
    (∀ l ∈ L, ∀ (h : Heap) (c' : Cell), Inv h → Inv (h.set l.id c')) →
    (∀ l ∈ L, ∀ s, Inv (getH s) → (getH s)[l.id]? = some (innerCell l nx) →
        body (LId.ref l) s = .ok (setH s ((getH s).set l.id (g (innerCell l nx))))) →
    ∀ (s : σ), Inv (getH s) → Sat (getH s) (innerCells L nx) →
    ∃ h', forEach (L.map LId.ref) s body = .ok (setH s h') ∧ Inv h' ∧
      Sat h' (L.map (fun l => (l.id, g (innerCell l nx)))) ∧ Frame (L.map (·.id)) (getH s) h' := by
  intro L
  induction L with
  | nil =>
    intro _ _ _ s hinv _
    refine ⟨getH s, ?_, hinv, Sat.nil _, Frame.refl _ _⟩
    simp only [List.map_nil, forEach, hsg]
  | cons l L ih =>
    intro hnd hInv hbody s hinv hsat
    simp only [List.map_cons, List.nodup_cons] at hnd
    have hl : (getH s)[l.id]? = some (innerCell l nx) := by
      have := hsat (l.id, innerCell l nx) (by simp [innerCells])
      exact this
    have hb := hbody l (List.mem_cons_self ..) s hinv hl
    have hsat' : Sat (getH (setH s ((getH s).set l.id (g (innerCell l nx))))) (innerCells L nx) := by
      rw [hgs]
      refine Sat.frame (S := [l.id]) ?_ (Frame.set _ _ _) ?_
      · intro x hx
        exact hsat x (by
          unfold innerCells at hx ⊢
          exact List.mem_cons_of_mem _ hx)
      · intro x hx hm
        have hx' := mem_ids_of_mem hx
        rw [ids_innerCells] at hx'
        rw [List.mem_singleton.mp hm] at hx'
        exact hnd.1 hx'
    have hinv' : Inv (getH (setH s ((getH s).set l.id (g (innerCell l nx))))) := by
      rw [hgs]; exact hInv l (List.mem_cons_self ..) _ _ hinv
    rcases ih hnd.2 (fun l' hl' => hInv l' (List.mem_cons_of_mem _ hl'))
      (fun l' hl' => hbody l' (List.mem_cons_of_mem _ hl')) _ hinv' hsat' with ⟨h', he, hi', hs', hf'⟩
    refine ⟨h', ?_, hi', ?_, ?_⟩
    · simp only [List.map_cons, forEach, hb, bind_ok]
      show forEach (L.map LId.ref) _ body = _
      rw [he, hss]
    · refine Sat.cons ?_ hs'
      show h'[l.id]? = some (g (innerCell l nx))
      rw [hgs] at hf'
      rw [hf'.2 l.id hnd.1]
      exact get_set_self hl _
    · rw [hgs] at hf'
      have := (Frame.set (getH s) l.id (g (innerCell l nx))).trans hf'
      exact this

/-! ### the condition-only loop -/

theorem whileLoop_false {σ : Type} (fuel : Nat) (s : σ) (cond : σ → Bool) (body : σ → M σ)
    (hc : cond s = false) : whileLoop fuel s cond body = .ok s := by
  cases fuel <;> simp [whileLoop, hc]

theorem whileLoop_true {σ : Type} (fuel : Nat) (s s' : σ) (cond : σ → Bool) (body : σ → M σ)
    (hc : cond s = true) (hb : body s = .ok s') :
    whileLoop (fuel + 1) s cond body = whileLoop fuel s' cond body := by
  simp only [whileLoop, hc, if_true, hb, bind_ok]

end ParserLayout
end JPV
