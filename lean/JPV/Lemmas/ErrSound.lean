/-
ErrSound — the error `Impl.retrieve` returns, when entered with an empty buffer, is the best
of the chain's local failures `Fails.fails` (node-by-node lemmas + the induction over the chain).

The invariant (`ChainF`): entered with an empty buffer, a returned error `r` satisfies
`Best s r (fails env ch root cur)`. Entered with a non-empty buffer nothing is claimed, and
nothing needs to be: value-group nodes then return no error at all (`finishGroup`), and an
error a `child`/function node still returns is dropped by the enclosing loop (`stepAcc`
records only while the buffer is empty) — `loopF` in ErrBest shows that a loop that ends with
the buffer empty has entered every branch with the buffer empty.
-/
import JPV.Lemmas.ErrBest
namespace JPV
namespace ES
open Impl TSem Fails
open CE (tl)

/-! ### membership in `grp`, Infos of failures -/

theorem mem_grp {α : Type} {i : Info} {xs : List α} {F : α → List RtErr} {f : RtErr} (h : f ∈ grp i xs F) :
    f = .member i ∨ ∃ x ∈ xs, f ∈ F x := by
  unfold grp at h
  split at h
  · exact Or.inl (List.mem_singleton.mp h)
  · exact Or.inr (List.mem_flatMap.mp h)

theorem grp_map {α β : Type} (i : Info) (g : α → β) (xs : List α) (F : β → List RtErr) :
    grp i (xs.map g) F = grp i xs (fun a => F (g a)) := by
  unfold grp
  rw [List.isEmpty_map, List.flatMap_map]

theorem grp_congr {α : Type} (i : Info) {xs : List α} {F G : α → List RtErr} (h : ∀ x ∈ xs, F x = G x) :
    grp i xs F = grp i xs G := by
  unfold grp
  rw [BD.flatMap_congr' h]

theorem typeErr_tl (i : Info) (e : String) (v : Val) : tl (typeErr i e v) = i.conn.utf8ByteSize := rfl

/-- every failure names a node of the chain: a step of the query as written -/
theorem fails_info_mem (env : Env) : ∀ (ch : List N) (root cur : Val), ∀ f ∈ fails env ch root cur, f.info ∈ infos ch
  | [], _, _, f, h => by simp [fails] at h
  | .root i :: rest, root, cur, f, h => by
    simp only [fails, failsN] at h
    simp only [infos, infosN]
    exact List.mem_cons_of_mem _ (fails_info_mem env rest _ _ f h)
  | .cur i :: rest, root, cur, f, h => by
    simp only [fails, failsN] at h
    simp only [infos, infosN]
    exact List.mem_cons_of_mem _ (fails_info_mem env rest _ _ f h)
  | .child i k :: rest, root, cur, f, h => by
    simp only [infos, infosN]
    cases cur with
    | obj kvs =>
      simp only [fails, failsN] at h
      cases hl : Val.lookup k kvs with
      | none =>
        rw [hl] at h
        rw [List.mem_singleton.mp h]
        exact List.mem_cons_self
      | some v =>
        rw [hl] at h
        exact List.mem_cons_of_mem _ (fails_info_mem env rest _ _ f h)
    | null | bool _ | num _ | jnum _ | str _ | arr _ | opq _ _ =>
      simp only [fails, failsN] at h
      rw [List.mem_singleton.mp h]
      exact List.mem_cons_self
  | .wild i :: rest, root, cur, f, h => by
    simp only [infos, infosN]
    cases cur with
    | obj kvs =>
      simp only [fails, failsN] at h
      rcases mem_grp h with rfl | ⟨x, _, hx⟩
      · exact List.mem_cons_self
      · exact List.mem_cons_of_mem _ (fails_info_mem env rest _ _ f hx)
    | arr xs =>
      simp only [fails, failsN] at h
      rcases mem_grp h with rfl | ⟨x, _, hx⟩
      · exact List.mem_cons_self
      · exact List.mem_cons_of_mem _ (fails_info_mem env rest _ _ f hx)
    | null | bool _ | num _ | jnum _ | str _ | opq _ _ =>
      simp only [fails, failsN] at h
      rw [List.mem_singleton.mp h]
      exact List.mem_cons_self
  | .multi i ids twin :: rest, root, cur, f, h => by
    simp only [infos, infosN]
    have hrest : ∀ v, f ∈ fails env rest root v →
        f.info ∈ (i :: twin.toList ++ ids.map midInfo) ++ infos rest :=
      fun v hv => List.mem_append_right _ (fails_info_mem env rest _ _ f hv)
    have hself : (RtErr.member i).info ∈ (i :: twin.toList ++ ids.map midInfo) ++ infos rest :=
      List.mem_append_left _ List.mem_cons_self
    have hty : ∀ e v, (typeErr i e v).info ∈ (i :: twin.toList ++ ids.map midInfo) ++ infos rest :=
      fun _ _ => List.mem_append_left _ List.mem_cons_self
    have hobj : ∀ kvs, f ∈ (if ids.all (absentKey kvs) = true then [RtErr.member i]
        else ids.flatMap (fun id =>
          match id with
          | .key _ k => (match Val.lookup k kvs with
            | some v => fails env rest root v
            | none => [])
          | .wild ii => grp ii (sortKV kvs) (fun kv => fails env rest root kv.2))) →
        f.info ∈ (i :: twin.toList ++ ids.map midInfo) ++ infos rest := by
      intro kvs h
      split at h
      · rw [List.mem_singleton.mp h]; exact hself
      · obtain ⟨id, hid, hf⟩ := List.mem_flatMap.mp h
        cases id with
        | key ii k =>
          simp only [] at hf
          cases hl : Val.lookup k kvs with
          | none => rw [hl] at hf; simp at hf
          | some v => rw [hl] at hf; exact hrest v hf
        | wild ii =>
          simp only [] at hf
          rcases mem_grp hf with rfl | ⟨x, _, hx⟩
          · apply List.mem_append_left
            apply List.mem_cons_of_mem
            apply List.mem_append_right
            exact List.mem_map.mpr ⟨.wild ii, hid, rfl⟩
          · exact hrest _ hx
    cases cur with
    | obj kvs =>
      cases twin <;> (simp only [fails, failsN] at h; exact hobj kvs h)
    | arr xs =>
      cases twin with
      | none =>
        simp only [fails, failsN] at h
        rw [List.mem_singleton.mp h]; exact hty _ _
      | some ti =>
        simp only [fails, failsN] at h
        rcases mem_grp h with rfl | ⟨x, _, hx⟩
        · apply List.mem_append_left
          apply List.mem_cons_of_mem
          apply List.mem_append_left
          exact List.mem_singleton.mpr rfl
        · exact hrest _ hx
    | null | bool _ | num _ | jnum _ | str _ | opq _ _ =>
      cases twin <;> (simp only [fails, failsN] at h; rw [List.mem_singleton.mp h]; exact hty _ _)
  | .desc i mr lr :: rest, root, cur, f, h => by
    simp only [infos, infosN]
    simp only [fails, failsN] at h
    split at h
    · rcases mem_grp h with rfl | ⟨x, _, hx⟩
      · exact List.mem_cons_self
      · exact List.mem_cons_of_mem _ (fails_info_mem env rest _ _ f hx)
    · rw [List.mem_singleton.mp h]
      exact List.mem_cons_self
  | .union i subs :: rest, root, cur, f, h => by
    simp only [infos, infosN]
    cases cur with
    | arr xs =>
      simp only [fails, failsN] at h
      rcases mem_grp h with rfl | ⟨x, _, hx⟩
      · exact List.mem_cons_self
      · split at hx
        · exact List.mem_cons_of_mem _ (fails_info_mem env rest _ _ f hx)
        · simp at hx
    | null | bool _ | num _ | jnum _ | str _ | obj _ | opq _ _ =>
      simp only [fails, failsN] at h
      rw [List.mem_singleton.mp h]
      exact List.mem_cons_self
  | .filter i q :: rest, root, cur, f, h => by
    simp only [infos, infosN]
    simp only [fails, failsN] at h
    split at h
    · rcases mem_grp h with rfl | ⟨x, _, hx⟩
      · exact List.mem_cons_self
      · exact List.mem_cons_of_mem _ (fails_info_mem env rest _ _ f hx)
    · rw [List.mem_singleton.mp h]
      exact List.mem_cons_self
  | .ffn i name :: rest, root, cur, f, h => by
    simp only [infos, infosN]
    simp only [fails, failsN] at h
    split at h
    · split at h
      · exact List.mem_cons_of_mem _ (fails_info_mem env rest _ _ f h)
      · rw [List.mem_singleton.mp h]
        exact List.mem_cons_self
    · simp at h
  | .afn i name param :: rest, root, cur, f, h => by
    simp only [infos, infosN]
    simp only [fails, failsN] at h
    rcases List.mem_append.mp h with h | h
    · exact List.mem_append_left _ (fails_info_mem env param _ _ f h)
    · apply List.mem_append_right
      split at h
      · simp at h
      · split at h
        · split at h
          · exact List.mem_cons_of_mem _ (fails_info_mem env rest _ _ f h)
          · rw [List.mem_singleton.mp h]
            exact List.mem_cons_self
        · simp at h

/-! ### the side condition on connected texts -/

mutual
/-- what the strong mode needs of a chain: every Info that can reach an error has a non-empty
    connectedText, and at an aggregate the parameter chain's are longer than the aggregate's
    own and those of the nodes after it (the parameter chain is written BEFORE the function) -/
def ConnDeep : List N → Prop
  | [] => True
  | n :: rest => ConnDeepN n (infos rest) (ConnDeep rest)
def ConnDeepN : N → List Info → Prop → Prop
  | .afn i _ param, ri, R => ConnDeep param ∧ R ∧ 0 < i.conn.utf8ByteSize ∧
      (∀ j ∈ infos param, ∀ j' ∈ i :: ri, j'.conn.utf8ByteSize < j.conn.utf8ByteSize)
  | .root i, _, R => 0 < i.conn.utf8ByteSize ∧ R
  | .cur i, _, R => 0 < i.conn.utf8ByteSize ∧ R
  | .child i _, _, R => 0 < i.conn.utf8ByteSize ∧ R
  | .wild i, _, R => 0 < i.conn.utf8ByteSize ∧ R
  | .multi i ids twin, _, R => (∀ j ∈ i :: twin.toList ++ ids.map midInfo, 0 < j.conn.utf8ByteSize) ∧ R
  | .desc i _ _, _, R => 0 < i.conn.utf8ByteSize ∧ R
  | .union i _, _, R => 0 < i.conn.utf8ByteSize ∧ R
  | .filter i _, _, R => 0 < i.conn.utf8ByteSize ∧ R
  | .ffn i _, _, R => 0 < i.conn.utf8ByteSize ∧ R
end

/-! ### chains -/

/-- the invariant of `retrieve` -/
def ChainF (s : Bool) (env : Env) (ch : List N) : Prop :=
  ∀ (prev : Info) (root cur : Val) (aloc : Option Loc) (st st' : St) (r : RtErr),
    st.out = [] → retrieve env ch prev root cur aloc st = .ok (st', some r) →
    Best s r (fails env ch root cur)

theorem branchF_of_chain {s : Bool} {env : Env} {rest : List N} (hok : RetrieveOK env rest) (h : ChainF s env rest)
    {α : Type} (f : α → St → M (St × Option RtErr)) (FF : α → List RtErr) (x : α)
    (prev : Info) (root v : Val) (loc : Option Loc)
    (hf : ∀ st, f x st = retrieve env rest prev root v loc st) (hFF : FF x = fails env rest root v) :
    BranchF s f FF (fun _ => false) x := by
  intro st st' e hout hr hout'
  rw [hf] at hr
  cases e with
  | some r =>
    simp only []
    rw [hFF]
    exact ⟨h prev root v loc st st' r hout hr, trivial⟩
  | none =>
    obtain ⟨st2, e2, h1, h2⟩ := hok prev root v loc st
    rw [hr] at h1
    simp only [Except.ok.injEq, Prod.mk.injEq] at h1
    obtain ⟨rfl, rfl⟩ := h1
    exact absurd hout' (h2.ok_nonempty rfl)

theorem mono_of_chain {env : Env} {rest : List N} (hok : RetrieveOK env rest)
    {α : Type} (f : α → St → M (St × Option RtErr)) (x : α)
    (prev : Info) (root v : Val) (loc : Option Loc)
    (hf : ∀ st, f x st = retrieve env rest prev root v loc st) : Mono f x := by
  intro st st' e hr hout'
  rw [hf] at hr
  obtain ⟨st2, e2, h1, h2⟩ := hok prev root v loc st
  rw [hr] at h1
  simp only [Except.ok.injEq, Prod.mk.injEq] at h1
  obtain ⟨rfl, rfl⟩ := h1
  exact ext_out_nil h2.ext hout'

/-- a fan-out node whose branches run the rest of the chain -/
theorem loop_nodeF {s : Bool} {env : Env} {rest : List N} (hok : RetrieveOK env rest) (h : ChainF s env rest)
    {α : Type} (f : α → St → M (St × Option RtErr)) (FF : α → List RtErr)
    (xs : List α) (prev : Info) (root : Val)
    (hbr : ∀ x ∈ xs, ∃ v loc, (∀ st, f x st = retrieve env rest prev root v loc st) ∧ FF x = fails env rest root v)
    (i : Info) (hi : s = true → 0 < i.conn.utf8ByteSize) (st st' : St) (r : RtErr) (hout : st.out = [])
    (hrun : (do let acc ← loopAcc f xs (st, 0, none); pure (endGroup i acc) : M (St × Option RtErr)) = .ok (st', some r)) :
    Best s r (grp i xs FF) := by
  refine (groupF' f FF xs (fun x hx => ?_) (fun x hx => ?_) i hi st st' r hout hrun).2
  · obtain ⟨v, loc, hf, _⟩ := hbr x hx
    exact mono_of_chain hok f x prev root v loc hf
  · obtain ⟨v, loc, hf, hFF⟩ := hbr x hx
    exact branchF_of_chain hok h f FF x prev root v loc hf hFF

end ES
end JPV
