/-
ActionTieC — ties for the actions with tests of their own: Action 21 26 27 37.
-/
import JPV.Lemmas.ActionTieB
import JPV.Lemmas.ActionTieStr
set_option linter.unusedVariables false
set_option linter.unusedSimpArgs false
namespace JPV
namespace ParserLayout
open JPV JPV.ParserNode JPV.ActionNode
open JPV.Gen.ParserHelpersGo JPV.Gen.ActionsGo

theorem Rep.dropMid {c : Peg.Ctx} {g : PS} {L : LSt} {A B X : List (Nat × Cell)} (h : Rep c g L (A ++ (B ++ X))) :
    Rep c g L (A ++ X) := by
  refine h.held ?_ ?_
  · intro x hx
    simp only [List.mem_append] at hx ⊢
    rcases hx with hx | hx
    · exact Or.inl hx
    · exact Or.inr (Or.inr hx)
  · intro hnd
    simp only [ids_append, List.nodup_append, List.mem_append] at hnd ⊢
    refine ⟨hnd.1, hnd.2.1.2.1, ?_⟩
    intro a ha b hb
    exact hnd.2.2 a ha b (Or.inr hb)

theorem absAErr_two (tb : Nat) (buffer : String) :
    absAErr (.syntaxErr (tb : Int) "comparison between two current nodes is prohibited" buffer) =
      some (.syntaxErr tb .twoCurrentNode) := by
  simp [absAErr, reasonOf, Peg.Reason.msg]

theorem absAErr_vg (tb : Nat) (buffer : String) :
    absAErr (.syntaxErr (tb : Int) "JSONPath that returns a value group is prohibited" buffer) =
      some (.syntaxErr tb .filterValueGroup) := by
  simp [absAErr, reasonOf, Peg.Reason.msg]

section
variable (c : Peg.Ctx) (lib : Lib) (al : ALib) (g : PS) (L : LSt) (tb te fuel : Nat) (buffer : String)

/-! ### Action21 -/

theorem act21_tie (hlib : LibRep lib c) (hrep : Rep c g L []) :
    ASim c tb te (goAct21 fuel lib al (Peg.textOf c.input tb te) (tb : Int) buffer g) (Peg.act21 c (eraseSt L tb te)) := by
  have ht : (eraseSt L tb te).text c = Peg.textOf c.input tb te := rfl
  simp only [goAct21, Peg.act21, ht, strLen_pos]
  by_cases h : (Peg.textOf c.input tb te).length > 0
  · simp only [h, decide_true, if_true]
    exact ASim.ofSim' (pushIndexSubscript_tie c lib hlib g L [] tb te _ hrep)
  · simp only [h, decide_false, if_false, Bool.false_eq_true]
    exact ASim.ofSim' (pushOmittedIndexSubscript_tie c lib hlib g L [] tb te _ hrep)

/-! ### Action27 -/

theorem act27_tie (hrep : Rep c g L []) :
    ASim c tb te (goAct27 fuel lib al (Peg.textOf c.input tb te) (tb : Int) buffer g) (Peg.act27 c (eraseSt L tb te)) := by
  rcases pop_cases c g L [] tb te hrep with ⟨hg, hm⟩ | ⟨it, s, hs, hg, hm, hrep1, hwf⟩
  · simp only [goAct27, Peg.act27, hg, hm, liftH_err, ebind_err]
    exact ASim.err rfl rfl
  · rcases pop_cases c _ _ _ tb te hrep1 with ⟨hg2, hm2⟩ | ⟨it2, s2, hs2, hg2, hm2, hrep2, hwf2⟩
    · simp only [goAct27, Peg.act27, hg, hm, hg2, hm2, liftH_ok, liftH_err, ebind_ok, ebind_err]
      exact ASim.err rfl rfl
    · rcases asQuery_cases it2 with ⟨q, rfl, hga2, hma2⟩ | hma2 | ⟨hga2, hma2⟩
      · have ht : ∀ st : Peg.St, st.tb = tb → st.te = te → st.text c = Peg.textOf c.input tb te := by
          intro st h1 h2; simp only [Peg.St.text, h1, h2]
        simp only [goAct27, Peg.act27, hg, hm, hg2, hm2, hga2, hma2, liftH_ok, ebind_ok]
        rw [ht _ rfl rfl]
        have hrep3 := hrep2.dropMid
        unfold Peg.textOf
        rw [String.toList_ofList]
        cases hl : List.take (te - tb) (List.drop tb c.input.toList) with
        | nil =>
          rw [show String.ofList [] = "" from rfl, strSliceEq_empty]
          exact ASim.err rfl rfl
        | cons ch rest =>
          rw [strSliceEq_bang]
          simp only [ebind_ok]
          by_cases hb : (ch == '!') = true
          · simp only [hb, if_true]
            exact ASim.ofSim' (pushLogicalNot_tie c _ _ [] tb te q hrep3)
          · simp only [hb, if_false, Bool.false_eq_true]
            rw [gq_ne_cparam]
            exact push_plain_sim' c _ _ tb te (.query q) trivial hrep3
      · simp only [Peg.act27, hm, hm2, hma2, ebind_ok, ebind_err]
        exact ASim.unrep
      · simp only [goAct27, Peg.act27, hg, hm, hg2, hm2, hga2, hma2, liftH_ok, liftH_err, ebind_ok, ebind_err]
        exact ASim.err rfl rfl


/-! ### Action26 -/

theorem act26_tie (hrep : Rep c g L []) :
    ASim c tb te (goAct26 fuel lib al (Peg.textOf c.input tb te) (tb : Int) buffer g) (Peg.act26 c (eraseSt L tb te)) := by
  rcases pop_cases c g L [] tb te hrep with ⟨hg, hm⟩ | ⟨it, s, hs, hg, hm, hrep1, hwf⟩
  · simp only [goAct26, Peg.act26, hg, hm, liftH_err, ebind_err]
    exact ASim.err rfl rfl
  · obtain ⟨g', he, hr, hE⟩ := push_tie c _ _ [] it tb te hrep1 hwf
    simp only [goAct26, Peg.act26, hg, hm, he, liftH_ok, ebind_ok]
    have herr := absAErr_two tb buffer
    have htb : (Peg.push (eraseItem it) (eraseSt { L with stack := s } tb te)).tb = tb := rfl
    cases it with
    | query q =>
      cases q with
      | cmp l r cm =>
        cases l <;> cases r <;>
          first
          | exact ASim.ok ⟨g', _, rfl, hr, hE⟩
          | exact ASim.err rfl herr
      | not a =>
        cases a with
        | cmp l r cm =>
          cases l <;> cases r <;>
            first
            | exact ASim.ok ⟨g', _, rfl, hr, hE⟩
            | exact ASim.err rfl herr
        | exist p => cases p <;> exact ASim.ok ⟨g', _, rfl, hr, hE⟩
        | _ => exact ASim.ok ⟨g', _, rfl, hr, hE⟩
      | exist p => cases p <;> exact ASim.ok ⟨g', _, rfl, hr, hE⟩
      | _ => exact ASim.ok ⟨g', _, rfl, hr, hE⟩
    | chain ch =>
      cases ch with
      | nil => exact ASim.ok ⟨g', _, rfl, hr, hE⟩
      | cons n rest => obtain ⟨id, i, sh⟩ := n; exact ASim.ok ⟨g', _, rfl, hr, hE⟩
    | sub x => cases x <;> exact ASim.ok ⟨g', _, rfl, hr, hE⟩
    | cp p => cases p <;> exact ASim.ok ⟨g', _, rfl, hr, hE⟩
    | _ => exact ASim.ok ⟨g', _, rfl, hr, hE⟩

/-! ### Action37 -/

/-- what the grammar guarantees when `Action37` runs: the JSONPath parameter it pops has a (non-nil) node chain -/
def pre37 (st : Peg.St) : Bool :=
  match st.stack with
  | _ :: .query (.exist (.proot ch)) :: _ => !ch.isEmpty
  | _ :: .query (.exist (.pcur ch)) :: _ => !ch.isEmpty
  | _ => true

/-- `.(syntaxQueryJSONPathParameter)` -/
theorem asJP_cases (it : LItem) :
    (∃ ch, it = .query (.exist (.proot ch)) ∧ GItem.asJSONPathParameter (gitem it) = .ok (.proot (headRef ch)) ∧
      Peg.asJP (eraseItem it) = .ok (.proot (eraseCh ch))) ∨
    (∃ ch, it = .query (.exist (.pcur ch)) ∧ GItem.asJSONPathParameter (gitem it) = .ok (.pcur (headRef ch)) ∧
      Peg.asJP (eraseItem it) = .ok (.pcur (eraseCh ch))) ∨
    (GItem.asJSONPathParameter (gitem it) = .error .typeAssertion ∧
      Peg.asJP (eraseItem it) = .error (.panic .typeAssertion)) := by
  cases it with
  | query q =>
    cases q with
    | exist p =>
      cases p with
      | proot ch => left; exact ⟨ch, rfl, rfl, rfl⟩
      | pcur ch => right; left; exact ⟨ch, rfl, rfl, rfl⟩
      | lit l => right; right; exact ⟨rfl, rfl⟩
    | _ => right; right; exact ⟨rfl, rfl⟩
  | chain ch =>
    right; right
    cases ch with
    | nil => exact ⟨rfl, rfl⟩
    | cons n rest => obtain ⟨id, i, s⟩ := n; exact ⟨rfl, rfl⟩
  | sub s => right; right; cases s <;> exact ⟨rfl, rfl⟩
  | _ => right; right; exact ⟨rfl, rfl⟩

/-- `param.isValueGroup()` on the head of a held chain -/
theorem headVg {h : Heap} (n : LN) (rest : List LN) (Y : List (Nat × Cell)) (hs : Sat h (cellsCh (n :: rest) none ++ Y)) :
    nodeIsValueGroup (headRef (n :: rest)) h = .ok (chainVg (eraseCh (n :: rest))) := by
  obtain ⟨id, i, sh⟩ := n
  have hc : h[id]? = some (nodeCell id i sh (headRefD rest none)) :=
    hs (id, nodeCell id i sh (headRefD rest none)) (by
      simp only [cellsCh, cellsN, List.cons_append, List.mem_cons, true_or])
  have := nodeIsValueGroup_some (k := sh.kind) hc
  rw [show headRef (LN.mk id i sh :: rest) = some (sh.kind, id) from rfl, this]
  show _ = Except.ok (chainVg (eraseS i sh :: eraseCh rest))
  simp only [chainVg]
  have : (eraseS i sh).info = i := eraseN_info (.mk id i sh)
  rw [this]
  rfl

theorem act37_tie (hrep : Rep c g L []) (hpre : pre37 (eraseSt L tb te) = true) :
    ASim c tb te (goAct37 fuel lib al (Peg.textOf c.input tb te) (tb : Int) buffer g) (Peg.act37 c (eraseSt L tb te)) := by
  rcases pop_cases c g L [] tb te hrep with ⟨hg, hm⟩ | ⟨it, s, hs, hg, hm, hrep1, hwf⟩
  · simp only [goAct37, Peg.act37, hg, hm, liftH_err, ebind_err]
    exact ASim.err rfl rfl
  · rcases asBool_cases it with ⟨b, rfl, hga, hma⟩ | ⟨hga, hma⟩
    · rcases pop_cases c _ _ _ tb te hrep1 with ⟨hg2, hm2⟩ | ⟨it2, s2, hs2, hg2, hm2, hrep2, hwf2⟩
      · simp only [goAct37, Peg.act37, hg, hm, hga, hma, hg2, hm2, liftH_ok, liftH_err, ebind_ok, ebind_err]
        exact ASim.err rfl rfl
      · have hs2' : s = s2 ++ [it2] := hs2
        have hst : (eraseSt L tb te).stack = .bool b :: eraseItem it2 :: (s2.map eraseItem).reverse := by
          simp only [eraseSt, hs, hs2', List.map_append, List.map_cons, List.map_nil, List.reverse_append,
            List.reverse_cons, List.reverse_nil, List.nil_append, List.cons_append, eraseItem]
        have herr := absAErr_vg tb buffer
        have hrep3 : Rep c _ _ (cellsItem it2 ++ []) := hrep2
        rcases asJP_cases it2 with ⟨ch, rfl, hga2, hma2⟩ | ⟨ch, rfl, hga2, hma2⟩ | ⟨hga2, hma2⟩
        · have hne : ch ≠ [] := by
            intro h0; subst h0
            have hf : pre37 (eraseSt L tb te) = false := by simp only [pre37, hst]; rfl
            rw [hf] at hpre; cases hpre
          obtain ⟨n, rest, rfl⟩ : ∃ n rest, ch = n :: rest := by
            cases ch with
            | nil => exact absurd rfl hne
            | cons n rest => exact ⟨n, rest, rfl⟩
          have hvg := headVg n rest [] hrep3.sat.right
          simp only [goAct37, Peg.act37, hg, hm, hga, hma, hg2, hm2, hga2, hma2, liftH_ok, ebind_ok,
            jpIsValueGroupParameter, hvg, Peg.paramChain]
          cases hv : chainVg (eraseCh (n :: rest)) with
          | true =>
            simp only [if_true]
            exact ASim.err rfl herr
          | false =>
            simp only [if_false, Bool.false_eq_true, GQ.asQuery, liftH_ok, ebind_ok]
            cases b with
            | true => exact ASim.ofSim' (pushBasicCompareParameter_tie c _ _ [] tb te (.proot (n :: rest)) hrep3)
            | false => exact ASim.unrep
        · have hne : ch ≠ [] := by
            intro h0; subst h0
            have hf : pre37 (eraseSt L tb te) = false := by simp only [pre37, hst]; rfl
            rw [hf] at hpre; cases hpre
          obtain ⟨n, rest, rfl⟩ : ∃ n rest, ch = n :: rest := by
            cases ch with
            | nil => exact absurd rfl hne
            | cons n rest => exact ⟨n, rest, rfl⟩
          have hvg := headVg n rest [] hrep3.sat.right
          simp only [goAct37, Peg.act37, hg, hm, hga, hma, hg2, hm2, hga2, hma2, liftH_ok, ebind_ok,
            jpIsValueGroupParameter, hvg, Peg.paramChain]
          cases hv : chainVg (eraseCh (n :: rest)) with
          | true =>
            simp only [if_true]
            exact ASim.err rfl herr
          | false =>
            simp only [if_false, Bool.false_eq_true, GQ.asQuery, liftH_ok, ebind_ok]
            cases b with
            | true => exact ASim.unrep
            | false => exact ASim.ofSim' (pushBasicCompareParameter_tie c _ _ [] tb te (.pcur (n :: rest)) hrep3)
        · simp only [goAct37, Peg.act37, hg, hm, hga, hma, hg2, hm2, hga2, hma2, liftH_ok, liftH_err, ebind_ok, ebind_err]
          exact ASim.err rfl rfl
    · simp only [goAct37, Peg.act37, hg, hm, hga, hma, liftH_ok, liftH_err, ebind_ok, ebind_err]
      exact ASim.err rfl rfl

end
end ParserLayout
end JPV
