/-
C18ErrSim — C18 for FAILING evaluations: two trees of the same shape (equal up to the recorded
texts of their Infos) are evaluated in lock step by `Impl.retrieve`.

`sameCh C R ch ch'`: the two chains have the same constructors, keys, subscripts, function
names, flags; the Infos of corresponding nodes are related by `R` (when `C` holds; chains
inside filter queries are compared with `C := False`, their errors never leave the filter).
`OC R`: related Infos have non-empty connected texts and the ORDER of the lengths of the
connected texts is the same on both sides. Under `OC R` the deepest-error bookkeeping
(`addDeepest`) takes the same decisions in both runs, so: same panic, or the same state (values,
call log, write log) and errors of the same constructor with the same expected / found types at
`R`-related Infos (`ErrRel R`). Modelled on Lemmas/AccSim.lean.
-/
import JPV.Lemmas.AccSim
import JPV.Lemmas.ErrBest
namespace JPV
namespace C18E
open Impl

/-- `len(connectedText)` -/
abbrev sz (i : Info) : Nat := i.conn.utf8ByteSize

/-- corresponding Infos: related by `R` (in the mode `C`), the same flags -/
def RI (C : Prop) (R : Info → Info → Prop) (i i' : Info) : Prop := (C → R i i') ∧ i.vg = i'.vg ∧ i.acc = i'.acc

def sameId (C : Prop) (R : Info → Info → Prop) : MId → MId → Prop
  | .key i k, .key i' k' => RI C R i i' ∧ k = k'
  | .wild i, .wild i' => RI C R i i'
  | _, _ => False

def sameIds (C : Prop) (R : Info → Info → Prop) : List MId → List MId → Prop
  | [], [] => True
  | a :: as, b :: bs => sameId C R a b ∧ sameIds C R as bs
  | _, _ => False

def sameTw (C : Prop) (R : Info → Info → Prop) : Option Info → Option Info → Prop
  | none, none => True
  | some a, some b => RI C R a b
  | _, _ => False

mutual
def sameN (C : Prop) (R : Info → Info → Prop) : N → N → Prop
  | .root i, n' => match n' with | .root i' => RI C R i i' | _ => False
  | .cur i, n' => match n' with | .cur i' => RI C R i i' | _ => False
  | .child i k, n' => match n' with | .child i' k' => RI C R i i' ∧ k = k' | _ => False
  | .wild i, n' => match n' with | .wild i' => RI C R i i' | _ => False
  | .multi i ids tw, n' => match n' with
    | .multi i' ids' tw' => RI C R i i' ∧ sameIds C R ids ids' ∧ sameTw C R tw tw'
    | _ => False
  | .desc i a b, n' => match n' with | .desc i' a' b' => RI C R i i' ∧ a = a' ∧ b = b' | _ => False
  | .union i s, n' => match n' with | .union i' s' => RI C R i i' ∧ s = s' | _ => False
  | .filter i q, n' => match n' with | .filter i' q' => RI C R i i' ∧ sameQ R q q' | _ => False
  | .ffn i nm, n' => match n' with | .ffn i' nm' => RI C R i i' ∧ nm = nm' | _ => False
  | .afn i nm p, n' => match n' with
    | .afn i' nm' p' => RI C R i i' ∧ nm = nm' ∧ sameCh C R p p'
    | _ => False
def sameCh (C : Prop) (R : Info → Info → Prop) : List N → List N → Prop
  | [], ch' => ch' = []
  | n :: rest, ch' => match ch' with
    | n' :: rest' => sameN C R n n' ∧ sameCh C R rest rest'
    | [] => False
def sameQ (R : Info → Info → Prop) : Q → Q → Prop
  | .or a b, q' => match q' with | .or a' b' => sameQ R a a' ∧ sameQ R b b' | _ => False
  | .and a b, q' => match q' with | .and a' b' => sameQ R a a' ∧ sameQ R b b' | _ => False
  | .not a, q' => match q' with | .not a' => sameQ R a a' | _ => False
  | .cmp l r c, q' => match q' with | .cmp l' r' c' => sameP R l l' ∧ sameP R r r' ∧ c = c' | _ => False
  | .exist p, q' => match q' with | .exist p' => sameP R p p' | _ => False
def sameP (R : Info → Info → Prop) : P → P → Prop
  | .lit v, p' => p' = .lit v
  | .proot ch, p' => match p' with | .proot ch' => sameCh False R ch ch' | _ => False
  | .pcur ch, p' => match p' with | .pcur ch' => sameCh False R ch ch' | _ => False
end

/-- the same kind of error, the same expected / found types, at related Infos -/
def ErrRel (R : Info → Info → Prop) : RtErr → RtErr → Prop
  | .member i, .member i' => R i i'
  | .type i x f, .type i' x' f' => R i i' ∧ x = x' ∧ f = f'
  | .func i, .func i' => R i i'
  | _, _ => False

theorem ErrRel.info {R : Info → Info → Prop} {e e' : RtErr} (h : ErrRel R e e') : R e.info e'.info := by
  cases e <;> cases e' <;> first | exact h.elim | exact h | exact h.1

theorem ErrRel.isType {R : Info → Info → Prop} {e e' : RtErr} (h : ErrRel R e e') : e.isType = e'.isType := by
  cases e <;> cases e' <;> first | exact h.elim | rfl

def ER (C : Prop) (R : Info → Info → Prop) : Option RtErr → Option RtErr → Prop
  | none, none => True
  | some e, some e' => C → ErrRel R e e'
  | _, _ => False

/-- results of `retrieve` in the two runs -/
def RS (C : Prop) (R : Info → Info → Prop) (a b : St × Option RtErr) : Prop := a.1 = b.1 ∧ ER C R a.2 b.2

/-- loop accumulators in the two runs -/
def AccR (C : Prop) (R : Info → Info → Prop) : Acc → Acc → Prop
  | (s, dl, none), (s', dl', none) => s = s' ∧ dl = 0 ∧ dl' = 0
  | (s, _, some e), (s', _, some e') => s = s'
      ∧ (C → ErrRel R e e')
  | _, _ => False

/-- the recorded length is the length of the recorded error -/
def DlOK : Nat → Option RtErr → Prop
  | dl, none => dl = 0
  | dl, some e => dl = sz e.info

/-- related Infos: non-empty connected texts, whose lengths are ordered alike on both sides -/
def OC (R : Info → Info → Prop) : Prop :=
  ∀ a a' b b', R a a' → R b b' →
    0 < sz a ∧ 0 < sz a' ∧ (sz a < sz b ↔ sz a' < sz b') ∧ (sz a = sz b ↔ sz a' = sz b')

theorem addDeepest_dl (e : RtErr) (dl : Nat) (de : Option RtErr) (h : DlOK dl de) :
    DlOK (addDeepest e dl de).1 (addDeepest e dl de).2 := by
  rw [CE.addDeepest_eq]
  cases de with
  | none =>
    simp only [DlOK] at h
    subst h
    simp only [beq_self_eq_true, Bool.true_or, if_true, DlOK, CE.tl]
  | some d =>
    simp only [DlOK] at h
    split
    · simp only [DlOK, CE.tl]
    · split
      · rename_i heq
        have heq' : dl = CE.tl e := by simpa using heq
        simp only []
        split
        · simp only [DlOK]; exact heq'
        · simp only [DlOK]; exact h
      · simp only [DlOK]; exact h

theorem addDeepest_some (e d : RtErr) (hpos : 0 < CE.tl d) :
    addDeepest e (CE.tl d) (some d) =
      if CE.tl e < CE.tl d then (CE.tl e, some e)
      else if CE.tl e = CE.tl d then (if d.isType = true then (CE.tl d, some e) else (CE.tl d, some d))
      else (CE.tl d, some d) := by
  rw [CE.addDeepest_eq]
  by_cases h1 : CE.tl e < CE.tl d
  · rw [if_pos h1, if_pos]
    simp only [Bool.or_eq_true, beq_iff_eq, decide_eq_true_eq]
    exact Or.inr h1
  · rw [if_neg h1, if_neg]
    · by_cases h2 : CE.tl e = CE.tl d
      · rw [if_pos h2, if_pos]
        simp only [beq_iff_eq]
        exact h2.symm
      · rw [if_neg h2, if_neg]
        simp only [beq_iff_eq]
        exact fun x => h2 x.symm
    · simp only [Bool.or_eq_true, beq_iff_eq, decide_eq_true_eq, not_or]
      exact ⟨by omega, h1⟩

theorem addDeepest_rel {C : Prop} {R : Info → Info → Prop} (hoc : C → OC R) {e e' : RtErr} (he : C → ErrRel R e e')
    {s s' : St} {dl dl' : Nat} {de de' : Option RtErr} (h : AccR C R (s, dl, de) (s', dl', de'))
    (hd : DlOK dl de) (hd' : DlOK dl' de') {t t' : St} (ht : t = t') :
    AccR C R (t, (addDeepest e dl de).1, (addDeepest e dl de).2) (t', (addDeepest e' dl' de').1, (addDeepest e' dl' de').2) := by
  cases de with
  | none =>
    cases de' with
    | some _ => exact h.elim
    | none =>
      obtain ⟨_, h1, h2⟩ := h
      subst h1 h2
      rw [CE.addDeepest_eq, CE.addDeepest_eq]
      simp only [beq_self_eq_true, Bool.true_or, if_true]
      exact ⟨ht, he⟩
  | some d =>
    cases de' with
    | none => exact h.elim
    | some d' =>
      obtain ⟨_, hdd⟩ := h
      simp only [DlOK] at hd hd'
      by_cases hC : C
      · have hoc := hoc hC
        have hee := he hC
        have hdd := hdd hC
        obtain ⟨_, _, hlt, heq⟩ := hoc _ _ _ _ hee.info hdd.info
        have hlt : CE.tl e < CE.tl d ↔ CE.tl e' < CE.tl d' := hlt
        have heq : CE.tl e = CE.tl d ↔ CE.tl e' = CE.tl d' := heq
        obtain ⟨pd, pd', _, _⟩ := hoc _ _ _ _ hdd.info hdd.info
        subst hd hd'
        rw [show sz d.info = CE.tl d from rfl, show sz d'.info = CE.tl d' from rfl,
          addDeepest_some e d pd, addDeepest_some e' d' pd']
        by_cases h1 : CE.tl e < CE.tl d
        · rw [if_pos h1, if_pos (hlt.mp h1)]
          exact ⟨ht, fun _ => hee⟩
        · rw [if_neg h1, if_neg (fun x => h1 (hlt.mpr x))]
          by_cases h2 : CE.tl e = CE.tl d
          · rw [if_pos h2, if_pos (heq.mp h2), ← hdd.isType]
            cases d.isType with
            | true => simp only [if_true]; exact ⟨ht, fun _ => hee⟩
            | false => simp only [Bool.false_eq_true, if_false]; exact ⟨ht, fun _ => hdd⟩
          · rw [if_neg h2, if_neg (fun x => h2 (heq.mpr x))]
            exact ⟨ht, fun _ => hdd⟩
      · -- outside the mode `C` only "some error is recorded" matters
        have key : ∀ (x : RtErr) (n : Nat) (y : RtErr), ∃ z, (addDeepest x n (some y)).2 = some z := by
          intro x n y
          rcases ES.addDeepest_weak x n y with h | h <;> exact ⟨_, h⟩
        obtain ⟨z, hz⟩ := key e dl d
        obtain ⟨z', hz'⟩ := key e' dl' d'
        rw [hz, hz']
        exact ⟨ht, fun c => (hC c).elim⟩

/-- accumulators with the bookkeeping invariant -/
def AccI (C : Prop) (R : Info → Info → Prop) (a b : Acc) : Prop :=
  AccR C R a b ∧ DlOK a.2.1 a.2.2 ∧ DlOK b.2.1 b.2.2

theorem accR_st {C : Prop} {R : Info → Info → Prop} : ∀ {a b : Acc}, AccR C R a b → a.1 = b.1
  | (_, _, none), (_, _, none), h => h.1
  | (_, _, some _), (_, _, some _), h => h.1
  | (_, _, none), (_, _, some _), h => h.elim
  | (_, _, some _), (_, _, none), h => h.elim

theorem accR_of_st {C : Prop} {R : Info → Info → Prop} : ∀ {a b : Acc} {t t' : St}, AccR C R a b → t = t' →
    AccR C R (t, a.2.1, a.2.2) (t', b.2.1, b.2.2)
  | (_, _, none), (_, _, none), _, _, h, ht => ⟨ht, h.2⟩
  | (_, _, some _), (_, _, some _), _, _, h, ht => ⟨ht, h.2⟩
  | (_, _, none), (_, _, some _), _, _, h, _ => h.elim
  | (_, _, some _), (_, _, none), _, _, h, _ => h.elim

theorem stepAcc_rel {C : Prop} {R : Info → Info → Prop} (hoc : C → OC R) {r r' : M (St × Option RtErr)}
    (hr : RelM (RS C R) r r') {s s' : St} {dl dl' : Nat} {de de' : Option RtErr}
    (h : AccI C R (s, dl, de) (s', dl', de')) :
    RelM (AccI C R) (stepAcc r dl de) (stepAcc r' dl' de') := by
  unfold stepAcc
  refine RelM.bind hr ?_
  rintro ⟨t, e⟩ ⟨t', e'⟩ ⟨ht, he⟩
  simp only [] at ht he
  subst ht
  obtain ⟨h1, h2, h3⟩ := h
  cases e with
  | none =>
    cases e' with
    | some _ => exact he.elim
    | none => exact ⟨accR_of_st h1 rfl, h2, h3⟩
  | some err =>
    cases e' with
    | none => exact he.elim
    | some err' =>
      simp only []
      split
      · exact ⟨addDeepest_rel hoc he h1 h2 h3 rfl, addDeepest_dl _ _ _ h2, addDeepest_dl _ _ _ h3⟩
      · exact ⟨accR_of_st h1 rfl, h2, h3⟩

theorem loopAcc_rel {C : Prop} {R : Info → Info → Prop} (hoc : C → OC R) {α : Type}
    (f f' : α → St → M (St × Option RtErr)) :
    ∀ (xs : List α), (∀ x ∈ xs, ∀ s, RelM (RS C R) (f x s) (f' x s)) →
      ∀ (a a' : Acc), AccI C R a a' → RelM (AccI C R) (loopAcc f xs a) (loopAcc f' xs a')
  | [], _, a, a', h => by
    simp only [loopAcc]
    exact h
  | x :: xs, hf, (s, dl, de), (s', dl', de'), h => by
    have hs : s = s' := accR_st h.1
    subst hs
    simp only [loopAcc]
    refine RelM.bind (stepAcc_rel hoc (hf x List.mem_cons_self s) h) ?_
    intro a a' ha
    exact loopAcc_rel hoc f f' xs (fun y hy => hf y (List.mem_cons_of_mem _ hy)) a a' ha

theorem endGroup_rel {C : Prop} {R : Info → Info → Prop} {i i' : Info} (hi : C → R i i') :
    ∀ {a a' : Acc}, AccI C R a a' → RS C R (endGroup i a) (endGroup i' a')
  | (s, dl, none), (s', dl', none), ⟨h, _, _⟩ => by
    obtain ⟨hs, _, _⟩ := h
    subst hs
    refine ⟨rfl, ?_⟩
    simp only [endGroup, finishGroup]
    split
    · trivial
    · exact fun c => hi c
  | (s, dl, some e), (s', dl', some e'), ⟨h, _, _⟩ => by
    obtain ⟨hs, he⟩ := h
    subst hs
    refine ⟨rfl, ?_⟩
    simp only [endGroup, finishGroup]
    split
    · trivial
    · exact he
  | (_, _, none), (_, _, some _), ⟨h, _, _⟩ => h.elim
  | (_, _, some _), (_, _, none), ⟨h, _, _⟩ => h.elim

/-- a fan-out loop followed by the common tail, in both runs -/
theorem group_rel {C : Prop} {R : Info → Info → Prop} (hoc : C → OC R) {α : Type}
    (f f' : α → St → M (St × Option RtErr)) (xs : List α)
    (hf : ∀ x ∈ xs, ∀ s, RelM (RS C R) (f x s) (f' x s)) {i i' : Info} (hi : C → R i i') (s : St) :
    RelM (RS C R) (do let acc ← loopAcc f xs (s, 0, none); Except.ok (endGroup i acc))
      (do let acc ← loopAcc f' xs (s, 0, none); Except.ok (endGroup i' acc)) := by
  refine RelM.bind (loopAcc_rel hoc f f' xs hf _ _ ⟨⟨rfl, rfl, rfl⟩, rfl, rfl⟩) ?_
  intro a a' ha
  exact endGroup_rel hi ha

/-! ### node by node -/

def SimCh (env : Env) (C : Prop) (R : Info → Info → Prop) (ch ch' : List N) : Prop :=
  ∀ (prev prev' : Info), prev.acc = prev'.acc → ∀ (root cur : Val) (aloc : Option Loc) (s : St),
    RelM (RS C R) (retrieve env ch prev root cur aloc s) (retrieve env ch' prev' root cur aloc s)

def SimQ (env : Env) (q q' : Q) : Prop :=
  ∀ (root : Val) (ms : List Val) (s : St), computeQ env q root ms s = computeQ env q' root ms s

def SimP (env : Env) (p p' : P) : Prop :=
  ∀ (root : Val) (ms : List Val) (s : St), computeP env p root ms s = computeP env p' root ms s

theorem rs_err {C : Prop} {R : Info → Info → Prop} (s : St) {e e' : RtErr} (h : C → ErrRel R e e') :
    RelM (RS C R) (.ok (s, some e)) (.ok (s, some e')) := ⟨rfl, h⟩

section nodes
variable {env : Env} {C : Prop} {R : Info → Info → Prop} {rest rest' : List N}

theorem nil_sim : SimCh env C R [] [] := by
  intro prev prev' hp root cur aloc s
  simp only [retrieve, hp]
  exact ⟨rfl, trivial⟩

theorem root_sim {i i' : Info} (hi : RI C R i i') (ih : SimCh env C R rest rest') :
    SimCh env C R (.root i :: rest) (.root i' :: rest') := by
  intro prev prev' _ root cur aloc s
  simp only [retrieve]
  exact ih i i' hi.2.2 root root none s

theorem cur_sim {i i' : Info} (hi : RI C R i i') (ih : SimCh env C R rest rest') :
    SimCh env C R (.cur i :: rest) (.cur i' :: rest') := by
  intro prev prev' _ root cur aloc s
  simp only [retrieve]
  exact ih i i' hi.2.2 root cur none s

theorem child_sim {i i' : Info} (k : String) (hi : RI C R i i') (ih : SimCh env C R rest rest') :
    SimCh env C R (.child i k :: rest) (.child i' k :: rest') := by
  intro prev prev' _ root cur aloc s
  cases cur with
  | obj kvs =>
    simp only [retrieve]
    cases Val.lookup k kvs with
    | none => exact rs_err s (fun c => hi.1 c)
    | some v => exact ih i i' hi.2.2 root v _ s
  | _ => simp only [retrieve]; exact rs_err s (fun c => ⟨hi.1 c, rfl, rfl⟩)

theorem wild_sim (hoc : C → OC R) {i i' : Info} (hi : RI C R i i') (ih : SimCh env C R rest rest') :
    SimCh env C R (.wild i :: rest) (.wild i' :: rest') := by
  intro prev prev' _ root cur aloc s
  cases cur with
  | obj kvs =>
    simp only [retrieve]
    exact group_rel hoc _ _ _ (fun kv _ t => ih i i' hi.2.2 root kv.2 _ t) hi.1 s
  | arr xs =>
    simp only [retrieve]
    exact group_rel hoc _ _ _ (fun xi _ t => ih i i' hi.2.2 root xi.1 _ t) hi.1 s
  | _ => simp only [retrieve]; exact rs_err s (fun c => ⟨hi.1 c, rfl, rfl⟩)

theorem desc_sim (hoc : C → OC R) {i i' : Info} (mr lr : Bool) (hi : RI C R i i') (ih : SimCh env C R rest rest') :
    SimCh env C R (.desc i mr lr :: rest) (.desc i' mr lr :: rest') := by
  intro prev prev' _ root cur aloc s
  simp only [retrieve]
  split
  · exact group_rel hoc _ _ _ (fun cl _ t => ih i i' hi.2.2 root cl.1 _ t) hi.1 s
  · exact rs_err s (fun c => ⟨hi.1 c, rfl, rfl⟩)

theorem union_sim (hoc : C → OC R) {i i' : Info} (subs : List SubI) (hi : RI C R i i') (ih : SimCh env C R rest rest') :
    SimCh env C R (.union i subs :: rest) (.union i' subs :: rest') := by
  intro prev prev' _ root cur aloc s
  cases cur with
  | arr xs =>
    simp only [retrieve]
    refine group_rel hoc _ _ _ (fun ix _ t => ?_) hi.1 s
    split
    · exact RelM.error _
    · exact ih i i' hi.2.2 root _ _ t
  | _ => simp only [retrieve]; exact rs_err s (fun c => ⟨hi.1 c, rfl, rfl⟩)

theorem ffn_sim {i i' : Info} (name : String) (hi : RI C R i i') (ih : SimCh env C R rest rest') :
    SimCh env C R (.ffn i name :: rest) (.ffn i' name :: rest') := by
  intro prev prev' _ root cur aloc s
  simp only [retrieve]
  split
  · exact RelM.error _
  · split
    · exact rs_err _ (fun c => hi.1 c)
    · exact ih i i' hi.2.2 root _ none _

/-- the loop over the inner identifiers of a multi-name node: the lists have the same keys -/
theorem ids_loop (hoc : C → OC R) (root : Val) (aloc : Option Loc) (kvs : List (String × Val))
    (ih : SimCh env C R rest rest') :
    ∀ (ids ids' : List MId), sameIds C R ids ids' → ∀ (a a' : Acc), AccI C R a a' →
      RelM (AccI C R)
        (loopAcc (fun (id : MId) st =>
            match id with
            | .key ii k =>
              (match Val.lookup k kvs with
               | none => (.ok (st, none) : M (St × Option RtErr))
               | some v => retrieve env rest ii root v (ext aloc (.key k)) st)
            | .wild ii => do
              let acc ← loopAcc (fun (kv : String × Val) st => retrieve env rest ii root kv.2 (ext aloc (.key kv.1)) st)
                (sortKV kvs) (st, 0, none)
              .ok (endGroup ii acc)) ids a)
        (loopAcc (fun (id : MId) st =>
            match id with
            | .key ii k =>
              (match Val.lookup k kvs with
               | none => (.ok (st, none) : M (St × Option RtErr))
               | some v => retrieve env rest' ii root v (ext aloc (.key k)) st)
            | .wild ii => do
              let acc ← loopAcc (fun (kv : String × Val) st => retrieve env rest' ii root kv.2 (ext aloc (.key kv.1)) st)
                (sortKV kvs) (st, 0, none)
              .ok (endGroup ii acc)) ids' a')
  | [], [], _, a, a', h => by simp only [loopAcc]; exact h
  | [], _ :: _, hs, _, _, _ => hs.elim
  | _ :: _, [], hs, _, _, _ => hs.elim
  | id :: ids, id' :: ids', hs, (s, dl, de), (s', dl', de'), h => by
    have hst : s = s' := accR_st h.1
    subst hst
    simp only [loopAcc]
    refine RelM.bind (stepAcc_rel hoc ?_ h) ?_
    · cases id with
      | key ii k =>
        cases id' with
        | wild _ => exact hs.1.elim
        | key ii' k' =>
          obtain ⟨hii, hk⟩ := hs.1
          subst hk
          simp only []
          cases Val.lookup k kvs with
          | none => exact ⟨rfl, trivial⟩
          | some v => exact ih ii ii' hii.2.2 root v _ s
      | wild ii =>
        cases id' with
        | key _ _ => exact hs.1.elim
        | wild ii' =>
          have hii : RI C R ii ii' := hs.1
          simp only []
          exact group_rel hoc _ _ _ (fun kv _ u => ih ii ii' hii.2.2 root kv.2 _ u) hii.1 s
    · intro b b' hb
      exact ids_loop hoc root aloc kvs ih ids ids' hs.2 b b' hb

theorem sameIds_length {C : Prop} {R : Info → Info → Prop} : ∀ (ids ids' : List MId), sameIds C R ids ids' →
    ∀ {β : Type} (xs : List β), ids.flatMap (fun _ => xs) = ids'.flatMap (fun _ => xs)
  | [], [], _, _, _ => rfl
  | [], _ :: _, h, _, _ => h.elim
  | _ :: _, [], h, _, _ => h.elim
  | _ :: ids, _ :: ids', h, _, xs => by
    simp only [List.flatMap_cons, sameIds_length ids ids' h.2 xs]

theorem multi_sim (hoc : C → OC R) {i i' : Info} {ids ids' : List MId} {tw tw' : Option Info}
    (hi : RI C R i i') (hids : sameIds C R ids ids') (htw : sameTw C R tw tw') (ih : SimCh env C R rest rest') :
    SimCh env C R (.multi i ids tw :: rest) (.multi i' ids' tw' :: rest') := by
  intro prev prev' _ root cur aloc s
  have hobj : ∀ kvs : List (String × Val), RelM (RS C R)
      (do
        let acc ← loopAcc (fun (id : MId) st =>
            match id with
            | .key ii k =>
              (match Val.lookup k kvs with
               | none => (.ok (st, none) : M (St × Option RtErr))
               | some v => retrieve env rest ii root v (ext aloc (.key k)) st)
            | .wild ii => do
              let acc ← loopAcc (fun (kv : String × Val) st => retrieve env rest ii root kv.2 (ext aloc (.key kv.1)) st)
                (sortKV kvs) (st, 0, none)
              .ok (endGroup ii acc))
          ids (s, 0, none)
        (.ok (endGroup i acc) : M (St × Option RtErr)))
      (do
        let acc ← loopAcc (fun (id : MId) st =>
            match id with
            | .key ii k =>
              (match Val.lookup k kvs with
               | none => (.ok (st, none) : M (St × Option RtErr))
               | some v => retrieve env rest' ii root v (ext aloc (.key k)) st)
            | .wild ii => do
              let acc ← loopAcc (fun (kv : String × Val) st => retrieve env rest' ii root kv.2 (ext aloc (.key kv.1)) st)
                (sortKV kvs) (st, 0, none)
              .ok (endGroup ii acc))
          ids' (s, 0, none)
        (.ok (endGroup i' acc) : M (St × Option RtErr))) := by
    intro kvs
    refine RelM.bind (ids_loop hoc root aloc kvs ih ids ids' hids _ _ ⟨⟨rfl, rfl, rfl⟩, rfl, rfl⟩) ?_
    intro a a' ha
    exact endGroup_rel hi.1 ha
  cases cur with
  | obj kvs =>
    cases tw with
    | none =>
      cases tw' with
      | some _ => exact htw.elim
      | none => simp only [retrieve]; exact hobj kvs
    | some ti =>
      cases tw' with
      | none => exact htw.elim
      | some ti' => simp only [retrieve]; exact hobj kvs
  | arr xs =>
    cases tw with
    | none =>
      cases tw' with
      | some _ => exact htw.elim
      | none => simp only [retrieve]; exact rs_err s (fun c => ⟨hi.1 c, rfl, rfl⟩)
    | some ti =>
      cases tw' with
      | none => exact htw.elim
      | some ti' =>
        have hti : RI C R ti ti' := htw
        simp only [retrieve, sameIds_length ids ids' hids xs.zipIdx]
        exact group_rel hoc _ _ _ (fun xi _ t => ih ti ti' hti.2.2 root xi.1 _ t) hti.1 s
  | _ =>
    cases tw <;> cases tw' <;> first
      | exact htw.elim
      | (simp only [retrieve]; exact rs_err s (fun c => ⟨hi.1 c, rfl, rfl⟩))

theorem sameCh_vg : ∀ {ch ch' : List N}, sameCh C R ch ch' → chainVg ch = chainVg ch'
  | [], ch', h => by
    simp only [sameCh] at h
    subst h; rfl
  | n :: rest, [], h => by simp only [sameCh] at h
  | n :: rest, n' :: rest', h => by
    simp only [sameCh] at h
    have h1 := h.1
    simp only [chainVg]
    cases n <;> cases n' <;> simp only [sameN] at h1 <;> first | exact h1.2.1 | exact h1.1.2.1

theorem afn_sim {i i' : Info} (name : String) {param param' : List N} (hi : RI C R i i')
    (hp : sameCh C R param param')
    (ihp : SimCh env C R param param') (ih : SimCh env C R rest rest') :
    SimCh env C R (.afn i name param :: rest) (.afn i' name param' :: rest') := by
  intro prev prev' _ root cur aloc s
  simp only [retrieve]
  refine RelM.bind (ihp i i' hi.2.2 root cur aloc s.sub) ?_
  rintro ⟨t, e⟩ ⟨t', e'⟩ ⟨ht, he⟩
  simp only [] at ht he
  subst ht
  cases e with
  | some err =>
    cases e' with
    | none => exact he.elim
    | some err' => exact rs_err _ he
  | none =>
    cases e' with
    | some _ => exact he.elim
    | none =>
      simp only [sameCh_vg hp]
      cases t.out with
      | nil => exact RelM.error _
      | cons r0 rs =>
        simp only []
        split
        · exact RelM.error _
        · split
          · exact rs_err _ (fun c => hi.1 c)
          · exact ih i i' hi.2.2 root _ none _

theorem filter_sim (hoc : C → OC R) {i i' : Info} {q q' : Q} (hi : RI C R i i') (ihq : SimQ env q q')
    (ih : SimCh env C R rest rest') :
    SimCh env C R (.filter i q :: rest) (.filter i' q' :: rest') := by
  intro prev prev' _ root cur aloc s
  simp only [retrieve, ihq root]
  split
  · cases computeQ env q' root (List.map (fun x => x.2) (entriesSeg cur)) s with
    | error p => exact RelM.error _
    | ok x =>
      obtain ⟨vl, t⟩ := x
      simp only [bind, Except.bind]
      split
      · exact RelM.error _
      · split
        · exact rs_err t (fun c => hi.1 c)
        · exact group_rel hoc _ _ _ (fun sv _ u => ih i i' hi.2.2 root sv.2 _ u) hi.1 t
  · exact rs_err s (fun c => ⟨hi.1 c, rfl, rfl⟩)

end nodes

/-! ### operands and queries: the chains inside a filter are compared in the mode `False` -/

section operands
variable {env : Env} {R : Info → Info → Prop}

/-- what `computeP` looks at in the result of the chain of an operand -/
theorem rs_false {a b : St × Option RtErr} (h : RS False R a b) : a.1 = b.1 ∧ a.2.isSome = b.2.isSome := by
  obtain ⟨h1, h2⟩ := h
  refine ⟨h1, ?_⟩
  cases ha : a.2 <;> cases hb : b.2 <;> rw [ha, hb] at h2 <;> first | rfl | exact h2.elim

theorem proot_sim {ch ch' : List N} (ih : SimCh env False R ch ch') : SimP env (.proot ch) (.proot ch') := by
  intro root ms s
  simp only [computeP]
  have := ih default default rfl root root none s.sub
  cases h1 : retrieve env ch default root root none s.sub with
  | error p =>
    cases h2 : retrieve env ch' default root root none s.sub with
    | error p' => rw [h1, h2] at this; have : p = p' := this; subst this; rfl
    | ok y => rw [h1, h2] at this; exact this.elim
  | ok x =>
    cases h2 : retrieve env ch' default root root none s.sub with
    | error p' => rw [h1, h2] at this; exact this.elim
    | ok y =>
      rw [h1, h2] at this
      obtain ⟨t, e⟩ := x
      obtain ⟨t', e'⟩ := y
      obtain ⟨ht, he⟩ := rs_false this
      simp only [] at ht he
      subst ht
      simp only [bind, Except.bind]
      cases e <;> cases e' <;> first | rfl | (simp at he)

theorem pcurLoop_sim {ch ch' : List N} (ih : SimCh env False R ch ch') (root : Val) :
    ∀ (ms : List Val) (s : St), pcurLoop env ch root ms s = pcurLoop env ch' root ms s
  | [], s => by simp only [pcurLoop]
  | m :: ms, s => by
    simp only [pcurLoop]
    have := ih default default rfl root m none s.sub
    cases h1 : retrieve env ch default root m none s.sub with
    | error p =>
      cases h2 : retrieve env ch' default root m none s.sub with
      | error p' => rw [h1, h2] at this; have : p = p' := this; subst this; rfl
      | ok y => rw [h1, h2] at this; exact this.elim
    | ok x =>
      cases h2 : retrieve env ch' default root m none s.sub with
      | error p' => rw [h1, h2] at this; exact this.elim
      | ok y =>
        rw [h1, h2] at this
        obtain ⟨t, e⟩ := x
        obtain ⟨t', e'⟩ := y
        obtain ⟨ht, he⟩ := rs_false this
        simp only [] at ht he
        subst ht
        simp only [bind, Except.bind]
        cases e <;> cases e' <;> first
          | (simp at he; done)
          | (simp only [pcurLoop_sim ih root ms])

theorem pcur_sim {ch ch' : List N} (ih : SimCh env False R ch ch') : SimP env (.pcur ch) (.pcur ch') := by
  intro root ms s
  simp only [computeP, pcurLoop_sim ih root ms s]

theorem exist_sim {p p' : P} (ih : SimP env p p') : SimQ env (.exist p) (.exist p') := by
  intro root ms s
  simp only [computeQ]
  exact ih root ms s

theorem cmp_sim {l l' r r' : P} (c : Cmp) (ihl : SimP env l l') (ihr : SimP env r r') :
    SimQ env (.cmp l r c) (.cmp l' r' c) := by
  intro root ms s
  simp only [computeQ, ihl root ms, ihr root ms]

theorem not_sim {a a' : Q} (ih : SimQ env a a') : SimQ env (.not a) (.not a') := by
  intro root ms s
  simp only [computeQ, ih root ms]

theorem and_sim {a a' b b' : Q} (iha : SimQ env a a') (ihb : SimQ env b b') : SimQ env (.and a b) (.and a' b') := by
  intro root ms s
  simp only [computeQ, iha root ms, ihb root ms]

theorem or_sim {a a' b b' : Q} (iha : SimQ env a a') (ihb : SimQ env b b') : SimQ env (.or a b) (.or a' b') := by
  intro root ms s
  simp only [computeQ, iha root ms, ihb root ms]

end operands

/-! ### the mutual induction -/

mutual
theorem sim_chain (env : Env) (C : Prop) (R : Info → Info → Prop) (hoc : C → OC R) :
    ∀ (ch ch' : List N), sameCh C R ch ch' → SimCh env C R ch ch'
  | [], ch', h => by
    simp only [sameCh] at h
    subst h
    exact nil_sim
  | n :: rest, ch', h => by
    cases ch' with
    | nil => simp only [sameCh] at h
    | cons n' rest' =>
      simp only [sameCh] at h
      have ih := sim_chain env C R hoc rest rest' h.2
      have hn := h.1
      cases n with
      | root i => cases n' <;> simp only [sameN] at hn; exact root_sim hn ih
      | cur i => cases n' <;> simp only [sameN] at hn; exact cur_sim hn ih
      | child i k =>
        cases n' <;> simp only [sameN] at hn
        obtain ⟨hi, hk⟩ := hn
        subst hk
        exact child_sim k hi ih
      | wild i => cases n' <;> simp only [sameN] at hn; exact wild_sim hoc hn ih
      | multi i ids t =>
        cases n' <;> simp only [sameN] at hn
        exact multi_sim hoc hn.1 hn.2.1 hn.2.2 ih
      | desc i a b =>
        cases n' <;> simp only [sameN] at hn
        obtain ⟨hi, ha, hb⟩ := hn
        subst ha hb
        exact desc_sim hoc a b hi ih
      | union i subs =>
        cases n' <;> simp only [sameN] at hn
        obtain ⟨hi, hs⟩ := hn
        subst hs
        exact union_sim hoc subs hi ih
      | filter i q =>
        cases n' with
        | filter i' q' =>
          simp only [sameN] at hn
          exact filter_sim hoc hn.1 (sim_query env R q q' hn.2) ih
        | _ => simp only [sameN] at hn
      | ffn i name =>
        cases n' <;> simp only [sameN] at hn
        obtain ⟨hi, hk⟩ := hn
        subst hk
        exact ffn_sim name hi ih
      | afn i name param =>
        cases n' with
        | afn i' name' param' =>
          simp only [sameN] at hn
          obtain ⟨hi, hk, hp⟩ := hn
          subst hk
          exact afn_sim name hi hp (sim_chain env C R hoc param param' hp) ih
        | _ => simp only [sameN] at hn
theorem sim_query (env : Env) (R : Info → Info → Prop) : ∀ (q q' : Q), sameQ R q q' → SimQ env q q'
  | .exist p, q', h => by
    cases q' with
    | exist p' => simp only [sameQ] at h; exact exist_sim (sim_operand env R p p' h)
    | _ => simp only [sameQ] at h
  | .not a, q', h => by
    cases q' with
    | not a' => simp only [sameQ] at h; exact not_sim (sim_query env R a a' h)
    | _ => simp only [sameQ] at h
  | .and a b, q', h => by
    cases q' with
    | and a' b' => simp only [sameQ] at h; exact and_sim (sim_query env R a a' h.1) (sim_query env R b b' h.2)
    | _ => simp only [sameQ] at h
  | .or a b, q', h => by
    cases q' with
    | or a' b' => simp only [sameQ] at h; exact or_sim (sim_query env R a a' h.1) (sim_query env R b b' h.2)
    | _ => simp only [sameQ] at h
  | .cmp l r c, q', h => by
    cases q' with
    | cmp l' r' c' =>
      simp only [sameQ] at h
      obtain ⟨hl, hr, hc⟩ := h
      subst hc
      exact cmp_sim c (sim_operand env R l l' hl) (sim_operand env R r r' hr)
    | _ => simp only [sameQ] at h
theorem sim_operand (env : Env) (R : Info → Info → Prop) : ∀ (p p' : P), sameP R p p' → SimP env p p'
  | .lit v, p', h => by
    simp only [sameP] at h
    subst h
    intro _ _ _; rfl
  | .proot ch, p', h => by
    cases p' with
    | proot ch' =>
      simp only [sameP] at h
      exact proot_sim (sim_chain env False R (fun c => c.elim) ch ch' h)
    | _ => simp only [sameP] at h
  | .pcur ch, p', h => by
    cases p' with
    | pcur ch' =>
      simp only [sameP] at h
      exact pcur_sim (sim_chain env False R (fun c => c.elim) ch ch' h)
    | _ => simp only [sameP] at h
end

end C18E
end JPV
