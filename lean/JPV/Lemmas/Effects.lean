/-
Soundness of the tag checker of JPV/Peg/Effects.lean, part 1: what the tags mean (`TagOK`, `Segs`,
`Gamma`), the order on abstract states, and the simulation lemma of every action.
-/
import JPV.Peg.Effects
import JPV.Lemmas.Actions
namespace JPV.Peg

/-! ### documented ends -/

/-- the ends of a run that C02 allows (besides success): the four documented error types — and the
    model's own `unmodelled` -/
def Stop.documented : Stop → Prop
  | .panic _ => False
  | .unrepresentable => False
  | _ => True

/-- the computation raises a documented error or returns a value satisfying `Q` -/
def Post {α : Type} (m : M α) (Q : α → Prop) : Prop :=
  match m with
  | .ok a => Q a
  | .error e => e.documented

theorem Post.ok {α} {Q : α → Prop} {a : α} (h : Q a) : Post (.ok a : M α) Q := h
theorem Post.err {α} {Q : α → Prop} {e : Stop} (h : e.documented) : Post (.error e : M α) Q := h

theorem Post.bind {α β} {m : M α} {f : α → M β} {Q : α → Prop} {Q' : β → Prop}
    (hm : Post m Q) (hf : ∀ a, Q a → Post (f a) Q') : Post (m >>= f) Q' := by
  cases m with
  | error e => exact hm
  | ok a => exact hf a hm

theorem Post.mono {α} {m : M α} {Q Q' : α → Prop} (hm : Post m Q) (h : ∀ a, Q a → Q' a) :
    Post m Q' := by
  cases m with
  | error e => exact hm
  | ok a => exact h a hm

/-! ### what the tags mean -/

inductive TagOK : Tag → List Item → Prop
  | node (n : N) (r : List N) : TagOK .node [.chain (n :: r)]
  | nodeP (ch : List N) (h : innerHead ch ≠ .other) : TagOK .nodeP [.chain ch]
  | identC (i : Info) (k : String) : TagOK .ident [.chain [.child i k]]
  | identW (i : Info) : TagOK .ident [.chain [.wild i]]
  | idmC (i : Info) (k : String) : TagOK .idm [.chain [.child i k]]
  | idmW (i : Info) : TagOK .idm [.chain [.wild i]]
  | idmM (i : Info) (ids : List MId) (tw : Option Info) (r : List N) : TagOK .idm [.chain (.multi i ids tw :: r)]
  | union (i : Info) (subs : List SubI) (r : List N) : TagOK .union [.chain (.union i subs :: r)]
  | str (s : String) : TagOK .str [.str s]
  | idx (b : Bound) : TagOK .idx [.idx b]
  | subsI (b : Bound) : TagOK .subs [.idx b]
  | subsS (s : SubI) : TagOK .subs [.sub s]
  | query (q : Q) : TagOK .query [.query q]
  | jpbR (ch : List N) : TagOK .jpb [.bool true, .query (.exist (.proot ch))]
  | jpbC (ch : List N) : TagOK .jpb [.bool false, .query (.exist (.pcur ch))]
  | cp (p : P) : TagOK .cp [.cp p]
  | litN (n : Int) : TagOK .lit [.num n]
  | litB (b : Bool) : TagOK .lit [.bool b]
  | litS (s : String) : TagOK .lit [.str s]
  | litNull : TagOK .lit [.null]

theorem innerHead_ne_nil {ch : List N} (h : innerHead ch ≠ .other) : ∃ n r, ch = n :: r := by
  cases ch with
  | nil => exact absurd (by rfl) h
  | cons n r => exact ⟨n, r, rfl⟩

theorem TagOK.ne_nil {t : Tag} {its : List Item} (h : TagOK t its) : its ≠ [] := by
  cases h <;> simp

theorem TagOK.le {a b : Tag} {its : List Item} (hab : a.le b = true) (h : TagOK a its) : TagOK b its := by
  cases h <;> cases b <;> first
    | assumption
    | (simp [Tag.le] at hab)
    | exact .node _ _
    | exact .idmC _ _
    | exact .idmW _
    | exact .subsI _
    | skip
  all_goals first
    | (rename_i ch hh; obtain ⟨n, r, rfl⟩ := innerHead_ne_nil hh; exact .node _ _)
    | (rename_i hh; exact .nodeP _ hh)
    | constructor

/-- the entries `items` (top first) are, in order, segments with the given tags -/
inductive Segs : List Tag → List Item → Prop
  | nil : Segs [] []
  | cons {t : Tag} {ts : List Tag} {its rest : List Item} :
      TagOK t its → Segs ts rest → Segs (t :: ts) (its ++ rest)

theorem Segs.single {t : Tag} {its : List Item} (h : TagOK t its) : Segs [t] its := by
  have := Segs.cons h Segs.nil
  simpa using this

theorem Segs.append {a b : List Tag} {i1 i2 : List Item} (h1 : Segs a i1) (h2 : Segs b i2) :
    Segs (a ++ b) (i1 ++ i2) := by
  induction h1 with
  | nil => simpa using h2
  | cons ht _ ih => rw [List.cons_append, List.append_assoc]; exact .cons ht ih

theorem Segs.split {a b : List Tag} {items : List Item} (h : Segs (a ++ b) items) :
    ∃ i1 i2, items = i1 ++ i2 ∧ Segs a i1 ∧ Segs b i2 := by
  induction a generalizing items with
  | nil => exact ⟨[], items, rfl, .nil, h⟩
  | cons t ts ih =>
    cases h with
    | cons ht hrest =>
      obtain ⟨i1, i2, rfl, h1, h2⟩ := ih hrest
      exact ⟨_, i2, by rw [List.append_assoc], .cons ht h1, h2⟩

theorem Segs.ne_nil {ks : List Tag} {items : List Item} (h : Segs ks items) (hk : ks ≠ []) : items ≠ [] := by
  cases h with
  | nil => exact absurd rfl hk
  | cons ht _ =>
    intro hnil
    exact ht.ne_nil (List.append_eq_nil_iff.mp hnil).1

theorem Segs.nil_inv {items : List Item} (h : Segs [] items) : items = [] := by
  cases h; rfl

theorem listLe_sound : ∀ {a b : List Tag} {items : List Item}, listLe a b = true → Segs a items → Segs b items := by
  intro a
  induction a with
  | nil =>
    intro b items hab h
    cases b with
    | nil => exact h
    | cons _ _ => simp [listLe] at hab
  | cons t ts ih =>
    intro b items hab h
    cases b with
    | nil => simp [listLe] at hab
    | cons u us =>
      simp only [listLe, Bool.and_eq_true] at hab
      cases h with
      | cons ht hrest => exact .cons (ht.le hab.1) (ih hab.2 hrest)

/-- `takeTags`: the known tags start with tags below `pops`; the rest is what it returns -/
theorem takeTags_sound : ∀ {pops known ks : List Tag} {items : List Item},
    takeTags pops known = some ks → Segs known items →
    ∃ i1 i2, items = i1 ++ i2 ∧ Segs pops i1 ∧ Segs ks i2 := by
  intro pops
  induction pops with
  | nil =>
    intro known ks items h hs
    simp only [takeTags, Option.some.injEq] at h
    subst h
    exact ⟨[], items, rfl, .nil, hs⟩
  | cons p ps ih =>
    intro known ks items h hs
    cases known with
    | nil => simp [takeTags] at h
    | cons k kr =>
      simp only [takeTags] at h
      split at h
      · rename_i hle
        cases hs with
        | cons ht hrest =>
          obtain ⟨i1, i2, rfl, h1, h2⟩ := ih h hrest
          exact ⟨_, i2, by rw [List.append_assoc], .cons (ht.le hle) h1, h2⟩
      · cases h

/-! ### what the bases mean -/

def IsChain (x : Item) : Prop := ∃ n r, x = .chain (n :: r)

/-- one or more syntaxNodes, top first; with `p` the lowest one is parameter-rooted -/
def NodesRun (p : Bool) (X : List Item) : Prop :=
  X ≠ [] ∧ (∀ x ∈ X, IsChain x) ∧
  (p = true → ∃ ch, X.getLast? = some (.chain ch) ∧ innerHead ch ≠ .other)

/-- the part of the current frame below the known entries -/
def BaseX : Base → List Item → List Item → Prop
  | .bottom _, _, X => X = []
  | .nodesBelow p _, _, X => NodesRun p X
  | .rest, R, X => X = R

def Base.top : Base → Bool
  | .bottom t => t
  | .nodesBelow _ t => t
  | .rest => false

def Base.isOpaque : Base → Bool
  | .rest => true
  | _ => false

/-- what is known about `p.paramsList` when no frame has been put aside -/
def SavedOK (b : Base) (R : List Item) (S saved : List (List Item)) : Prop :=
  (b.top = true → saved = []) ∧ (b.isOpaque = true → saved = S ∧ (R ≠ [] ∨ S = []))

/-- the frame below the known entries and the saved frames -/
def SvOK (sv : Option (List Tag × Base)) (base : Base) (R : List Item) (S : List (List Item))
    (X : List Item) (saved : List (List Item)) : Prop :=
  match sv with
  | none => BaseX base R X ∧ SavedOK base R S saved
  | some (k0, b0) =>
    BaseX base R X ∧ base.top = false ∧ base.isOpaque = false ∧
    ∃ items0 X0 S0, Segs k0 items0 ∧ BaseX b0 R X0 ∧ SavedOK b0 R S S0 ∧
      ((items0 ++ X0 ≠ [] ∧ saved = (items0 ++ X0) :: S0) ∨ (items0 ++ X0 = [] ∧ saved = [] ∧ S0 = []))

/-- the concrete states an abstract state describes, relative to the unknown rest `R` of the
    frame and the unknown saved frames `S` of the rule being checked -/
def Gamma (c : Ctx) (A : AState) (R : List Item) (S : List (List Item)) (st : St) : Prop :=
  ∃ items X, st.stack = items ++ X ∧ Segs A.known items ∧ SvOK A.sv A.base R S X st.saved ∧
    (A.capNE = true → (textOf c.input st.tb st.te).toList ≠ []) ∧
    (A.rootSet = true → ∃ n r, st.root = some (n :: r))

theorem Gamma.le {c : Ctx} {A B : AState} {R S} {st : St} (hle : A.le B = true) (h : Gamma c A R S st) :
    Gamma c B R S st := by
  obtain ⟨items, X, hst, hseg, hsv, hcap, hroot⟩ := h
  simp only [AState.le, Bool.and_eq_true, Bool.or_eq_true, Bool.not_eq_true', beq_iff_eq] at hle
  obtain ⟨⟨⟨⟨hk, hb⟩, hs⟩, hc⟩, hr⟩ := hle
  refine ⟨items, X, hst, listLe_sound hk hseg, ?_, ?_, ?_⟩
  · rw [← hb, ← hs]; exact hsv
  · intro hB
    rcases hc with hc | hc
    · rw [hc] at hB; cases hB
    · exact hcap hc
  · intro hB
    rcases hr with hr | hr
    · rw [hr] at hB; cases hB
    · exact hroot hr

theorem Gamma.noCap {c : Ctx} {A : AState} {R S} {st : St} (h : Gamma c A R S st) :
    Gamma c { A with capNE := false } R S st := by
  obtain ⟨items, X, hst, hseg, hsv, _, hroot⟩ := h
  exact ⟨items, X, hst, hseg, hsv, (by intro h; cases h), hroot⟩

theorem Tag.lub_sound {a b c : Tag} (h : a.lub b = some c) : a.le c = true ∧ b.le c = true := by
  unfold Tag.lub at h
  split at h
  · cases h; rename_i h1; exact ⟨h1, by cases b <;> rfl⟩
  · split at h
    · cases h; rename_i h1; exact ⟨by cases a <;> rfl, h1⟩
    · split at h
      · cases h; rename_i h1; simpa using h1
      · cases h

theorem listLub_sound : ∀ {a b c : List Tag}, listLub a b = some c → listLe a c = true ∧ listLe b c = true := by
  intro a
  induction a with
  | nil =>
    intro b c h
    cases b with
    | nil => simp only [listLub, Option.some.injEq] at h; subst h; exact ⟨rfl, rfl⟩
    | cons _ _ => simp [listLub] at h
  | cons t ts ih =>
    intro b c h
    cases b with
    | nil => simp [listLub] at h
    | cons u us =>
      simp only [listLub] at h
      split at h
      · rename_i d ds h1 h2
        cases h
        have := Tag.lub_sound h1
        have := ih h2
        simp [listLe, *]
      · cases h

theorem AState.join_sound {A B C : AState} (h : A.join B = some C) : A.le C = true ∧ B.le C = true := by
  unfold AState.join at h
  split at h
  · rename_i k hk
    split at h
    · rename_i hbs
      cases h
      simp only [Bool.and_eq_true, beq_iff_eq] at hbs
      have := listLub_sound hk
      simp only [AState.le, this.1, this.2, hbs.1, hbs.2, Bool.and_eq_true, beq_self_eq_true, Bool.true_and,
        Bool.or_eq_true, Bool.not_eq_true', Bool.and_eq_false_imp]
      constructor
      · constructor
        · cases A.capNE <;> cases B.capNE <;> simp
        · cases A.rootSet <;> cases B.rootSet <;> simp
      · constructor
        · cases A.capNE <;> cases B.capNE <;> simp
        · cases A.rootSet <;> cases B.rootSet <;> simp
    · cases h
  · cases h

end JPV.Peg
