/-
CmpSem — the comparison part of the filter semantics, member by member:
`TSem.semQ (.cmp l r c)` as a `map` over the members, and the per-member test against
`Spec.cmpHolds`.
-/
import JPV.Lemmas.DenBasic
import JPV.Lemmas.ValWf
import JPV.Spec
namespace JPV
namespace BD
open TSem Impl Build

/-- one cell through a typed validator -/
def vcell (ty : LitTy) : Cell → Cell
  | .empty => .empty
  | .val v =>
    match ty, v with
    | .num, .num _ => .val v
    | .num, .jnum n => .val (.num n)
    | .bool, .bool _ => .val v
    | .str, .str _ => .val v
    | .null, .null => .val v
    | _, _ => .empty

theorem validateTy_cells (ty : LitTy) (cells : List Cell) :
    (validateTy ty cells).2.1 = cells.map (vcell ty) := by
  induction cells with
  | nil => rfl
  | cons c cs ih =>
    simp only [validateTy, List.map_cons]
    rw [← ih]
    cases c with
    | empty => rfl
    | val v => cases ty <;> cases v <;> rfl

/-- one cell through the validator of a comparator -/
def vc (c : Cmp) (cell : Cell) : Cell :=
  match cmpValidatorTy c with
  | none => cell
  | some ty => vcell ty cell

theorem validated_map {α : Type} (c : Cmp) (f : α → Cell) (ms : List α) :
    validated c (ms.map f) = ms.map (fun m => vc c (f m)) := by
  unfold validated vc
  cases cmpValidatorTy c with
  | none => rfl
  | some ty => simp only [validateTy_cells, List.map_map]; rfl

/-- the operand's cell for one member -/
def pcell (env : Env) (p : P) (root m : Val) : Cell :=
  match p with
  | .lit v => .val v
  | .proot ch => cellOf (den env ch root root)
  | .pcur ch => headCell (den env ch root m)

theorem pden_eq (env : Env) (p : P) (root : Val) (ms : List Val) :
    pden env p root ms = ms.map (pcell env p root) := by
  cases p <;> simp only [pden] <;> rfl

/-- comparator verdict for one member, after validation of both sides -/
def ptest (env : Env) (c : Cmp) (lc rc : Cell) : Bool :=
  match vc c rc with
  | .val r0 => testCell env c r0 (vc c lc)
  | .empty => false

theorem ptest_left_empty (env : Env) (c : Cmp) (lc rc : Cell) (h : cellNonEmpty (vc c lc) = false) :
    ptest env c lc rc = false := by
  unfold ptest
  cases hv : vc c lc with
  | empty => cases vc c rc <;> rfl
  | val v => rw [hv] at h; simp [cellNonEmpty, Cell.isEmpty] at h

theorem ptest_right_empty (env : Env) (c : Cmp) (lc rc : Cell) (h : cellNonEmpty (vc c rc) = false) :
    ptest env c lc rc = false := by
  unfold ptest
  cases hv : vc c rc with
  | empty => rfl
  | val v => rw [hv] at h; simp [cellNonEmpty, Cell.isEmpty] at h

theorem zipWith_map_same {α β γ δ : Type} (f : β → γ → δ) (g : α → β) (h : α → γ) (l : List α) :
    List.zipWith f (l.map g) (l.map h) = l.map (fun x => f (g x) (h x)) := by
  induction l with
  | nil => rfl
  | cons a l ih => simp only [List.map_cons, List.zipWith_cons_cons, ih]

/-- a typed comparison is decided member by member -/
theorem semQ_cmp_typed (env : Env) (l r : P) (c : Cmp) (hc : c ≠ .deepEq) (root : Val) (ms : List Val) :
    semQ env (.cmp l r c) root ms =
      ms.map (fun m => ptest env c (pcell env l root m) (pcell env r root m)) := by
  simp only [semQ, pden_eq, validated_map, List.any_map]
  have hd : (c == Cmp.deepEq) = false := by simpa using hc
  split
  · rw [zipWith_map_same]
    apply List.map_congr_left
    intro m _
    unfold ptest
    cases vc c (pcell env r root m) <;> rfl
  · rename_i hlr
    simp only [hd, Bool.and_false, Bool.false_eq_true, if_false]
    apply List.map_congr_left
    intro m hm
    simp only [Bool.and_eq_true, not_and, Bool.not_eq_true] at hlr
    by_cases hl : (ms.any (cellNonEmpty ∘ fun m => vc c (pcell env l root m))) = true
    · have hr := hlr hl
      rw [List.any_eq_false] at hr
      have := hr m hm
      exact (ptest_right_empty env c _ _ (by simpa using this)).symm
    · have hl' : (ms.any (cellNonEmpty ∘ fun m => vc c (pcell env l root m))) = false := by simpa using hl
      rw [List.any_eq_false] at hl'
      have := hl' m hm
      exact (ptest_left_empty env c _ _ (by simpa using this)).symm

/-- DeepEqual on two cells -/
def deepTest : Cell → Cell → Bool
  | .val a, .val b => Val.beq a b
  | _, _ => false

theorem all_isEmpty_eq {α : Type} (f : α → Cell) (ms : List α) :
    ms.all (fun m => (f m).isEmpty) = !ms.any (cellNonEmpty ∘ f) := by
  induction ms with
  | nil => rfl
  | cons a l ih =>
    simp only [List.all_cons, List.any_cons, ih, Function.comp, cellNonEmpty, Bool.not_or, Bool.not_not]

theorem deepTest_left_empty (lc rc : Cell) (h : cellNonEmpty lc = false) : deepTest lc rc = false := by
  cases lc with
  | empty => rfl
  | val v => simp [cellNonEmpty, Cell.isEmpty] at h

theorem deepTest_right_empty (lc rc : Cell) (h : cellNonEmpty rc = false) : deepTest lc rc = false := by
  cases rc with
  | empty => cases lc <;> rfl
  | val v => simp [cellNonEmpty, Cell.isEmpty] at h

/-- an untyped (`DeepEqual`) comparison: member by member, or "both sides absent everywhere" -/
theorem semQ_cmp_deep (env : Env) (l r : P) (root : Val) (ms : List Val) :
    semQ env (.cmp l r .deepEq) root ms =
      ms.map (fun m => deepTest (pcell env l root m) (pcell env r root m) ||
        (ms.all (fun m => (pcell env l root m).isEmpty) && ms.all (fun m => (pcell env r root m).isEmpty))) := by
  simp only [semQ, pden_eq, validated_map, List.any_map]
  have hvc : ∀ x, vc .deepEq x = x := fun x => rfl
  simp only [hvc, all_isEmpty_eq]
  generalize hlf : ms.any (cellNonEmpty ∘ pcell env l root) = lf
  generalize hrf : ms.any (cellNonEmpty ∘ pcell env r root) = rf
  cases lf with
  | true =>
    cases rf with
    | true =>
      simp only [Bool.and_self, if_true, Bool.not_true, Bool.or_false]
      rw [zipWith_map_same]
      apply List.map_congr_left
      intro m _
      cases hl : pcell env l root m <;> cases hr : pcell env r root m <;>
        simp [deepTest, pairTest, testCell, cmpTest]
    | false =>
      simp only [Bool.and_false, Bool.false_eq_true, if_false, Bool.not_true, Bool.false_and, Bool.or_false]
      apply List.map_congr_left
      intro m hm
      rw [List.any_eq_false] at hrf
      exact (deepTest_right_empty _ _ (by simpa using hrf m hm)).symm
  | false =>
    rw [List.any_eq_false] at hlf
    cases rf with
    | true =>
      simp only [Bool.false_and, Bool.false_eq_true, if_false, Bool.not_true, Bool.and_false, Bool.or_false]
      apply List.map_congr_left
      intro m hm
      exact (deepTest_left_empty _ _ (by simpa using hlf m hm)).symm
    | false =>
      simp only [Bool.and_self, Bool.false_eq_true, if_false, Bool.not_false, beq_self_eq_true, if_true,
        Bool.or_true]

/-! ### per-member tests against the specification -/

def ocell : Option Val → Cell
  | none => .empty
  | some v => .val v

theorem ocell_isEmpty (x : Option Val) : (ocell x).isEmpty = x.isNone := by
  cases x <;> rfl

/-- equality against a literal: the typed validator + Go `==` is `Spec.litEq` -/
theorem ptest_directEq (env : Env) (b : Lit) (x : Option Val) :
    ptest env (.directEq (litTyOfVal b.toVal)) (ocell x) (.val b.toVal) =
      (match x with | some a => Spec.litEq a b.toVal | none => false) := by
  cases x with
  | none => cases b <;> rfl
  | some a =>
    cases b <;> cases a <;>
      simp [ptest, vc, cmpValidatorTy, vcell, ocell, testCell, cmpTest, ifaceEq, Spec.litEq, Val.asNum?,
        litTyOfVal, Lit.toVal]

theorem litEq_symm (a b : Val) : Spec.litEq a b = Spec.litEq b a := by
  cases a <;> cases b <;> simp [Spec.litEq, Val.asNum?, Bool.beq_comm]

theorem vcell_num (x : Option Val) :
    vcell .num (ocell x) = ocell ((x.bind Val.asNum?).map Val.num) := by
  cases x with
  | none => rfl
  | some a => cases a <;> rfl

/-- the strict/weak order of a comparator on numbers -/
def ordRel : Cmp → Int → Int → Bool
  | .lt, x, y => decide (x < y)
  | .le, x, y => decide (x ≤ y)
  | .gt, x, y => decide (x > y)
  | .ge, x, y => decide (x ≥ y)
  | _, _, _ => false

def isOrd : Cmp → Bool
  | .lt | .le | .gt | .ge => true
  | _ => false

theorem ptest_ord (env : Env) (c : Cmp) (hc : isOrd c = true) (x y : Option Val) :
    ptest env c (ocell x) (ocell y) =
      (match x.bind Val.asNum?, y.bind Val.asNum? with
       | some p, some q => ordRel c p q
       | _, _ => false) := by
  have hv : ∀ z, vc c (ocell z) = ocell ((z.bind Val.asNum?).map Val.num) := by
    intro z
    cases c <;> simp only [isOrd, Bool.false_eq_true] at hc <;> exact vcell_num z
  unfold ptest
  rw [hv, hv]
  cases x.bind Val.asNum? <;> cases y.bind Val.asNum? <;>
    cases c <;> simp only [isOrd, Bool.false_eq_true] at hc <;> rfl

theorem deepTest_ocell (x y : Option Val) :
    deepTest (ocell x) (ocell y) = (match x, y with | some a, some b => Val.beq a b | _, _ => false) := by
  cases x <;> cases y <;> rfl

/-! ### the three shapes a built comparison can have -/

theorem all_congr_mem {α : Type} {l : List α} {f g : α → Bool} (h : ∀ x ∈ l, f x = g x) :
    l.all f = l.all g := by
  induction l with
  | nil => rfl
  | cons a l ih =>
    simp only [List.all_cons]
    rw [h a List.mem_cons_self, ih (fun x hx => h x (List.mem_cons_of_mem _ hx))]

section forms
variable (env : Env) (root : Val) (ms : List Val)

theorem form_lit (b : Lit) (tp : P) (f : Val → Option Val)
    (hf : ∀ m ∈ ms, pcell env tp root m = ocell (f m)) :
    semQ env (.cmp tp (.lit b.toVal) (.directEq (litTyOfVal b.toVal))) root ms =
      ms.map (fun m => match f m with | some a => Spec.litEq a b.toVal | none => false) := by
  rw [semQ_cmp_typed env _ _ _ (by simp)]
  apply List.map_congr_left
  intro m hm
  rw [hf m hm]
  exact ptest_directEq env b (f m)

theorem form_deep (tl tr : P) (f g : Val → Option Val)
    (hf : ∀ m ∈ ms, pcell env tl root m = ocell (f m))
    (hg : ∀ m ∈ ms, pcell env tr root m = ocell (g m)) :
    semQ env (.cmp tl tr .deepEq) root ms =
      ms.map (fun m => (match f m, g m with | some a, some b => Val.beq a b | _, _ => false) ||
        (ms.all (fun m => (f m).isNone) && ms.all (fun m => (g m).isNone))) := by
  rw [semQ_cmp_deep]
  have e1 : ms.all (fun m => (pcell env tl root m).isEmpty) = ms.all (fun m => (f m).isNone) := by
    apply all_congr_mem
    intro m hm; rw [hf m hm, ocell_isEmpty]
  have e2 : ms.all (fun m => (pcell env tr root m).isEmpty) = ms.all (fun m => (g m).isNone) := by
    apply all_congr_mem
    intro m hm; rw [hg m hm, ocell_isEmpty]
  rw [e1, e2]
  apply List.map_congr_left
  intro m hm
  rw [hf m hm, hg m hm, deepTest_ocell]

theorem form_ord (c : Cmp) (hc : isOrd c = true) (tl tr : P) (f g : Val → Option Val)
    (hf : ∀ m ∈ ms, pcell env tl root m = ocell (f m))
    (hg : ∀ m ∈ ms, pcell env tr root m = ocell (g m)) :
    semQ env (.cmp tl tr c) root ms =
      ms.map (fun m => match (f m).bind Val.asNum?, (g m).bind Val.asNum? with
        | some p, some q => ordRel c p q
        | _, _ => false) := by
  rw [semQ_cmp_typed env _ _ _ (by intro h; rw [h] at hc; cases hc)]
  apply List.map_congr_left
  intro m hm
  rw [hf m hm, hg m hm]
  exact ptest_ord env c hc (f m) (g m)

end forms

end BD
end JPV
