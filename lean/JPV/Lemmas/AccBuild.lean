/-
AccBuild — what `Build.build` guarantees about accessor mode (C12 / C13 at the level of `Parse`):
* `build_locChain`: functions come last, so every navigation step starts from a known location;
* `build_flags`   : with accessor mode on, the nodes that append results carry the flag;
* `build_erase`   : the tree built with accessor mode off is the tree built with it on, flags cleared;
* `build_subFree` : function parameters and filter queries carry no flag.
-/
import JPV.Lemmas.AccSim
import JPV.Lemmas.LocSound
import JPV.Lemmas.BuildDen
namespace JPV
open Impl Build BD

/-! ### what the steps of a written path become -/

/-- a written navigation step: the node stores the Info it is given, it is a navigation node,
    and every Info it can hand on carries the flag of that Info -/
def NavPre : Pre → Prop
  | .node _ _ mk => ∀ i, (mk i).info = i ∧ isNav (mk i) = true ∧ ∀ j ∈ tailInfos (mk i), j.acc = i.acc
  | _ => False

theorem navPre_single {t : String} {vg : Bool} {mk : Info → N}
    (h : ∀ i, (mk i).info = i ∧ isNav (mk i) = true ∧ ∀ j ∈ tailInfos (mk i), j.acc = i.acc) :
    ∀ p ∈ [Pre.node t vg mk], NavPre p := by
  intro p hp
  simp only [List.mem_singleton] at hp
  subst hp
  exact h

theorem mid_acc (i : Info) (n : Name) : (mid i n).info.acc = i.acc := by cases n <;> rfl

mutual
theorem step_nav (env : Env) (cfg : Cfg) : (s : Step) → (ps : List Pre) → stepPre env cfg s = .ok ps → ∀ p ∈ ps, NavPre p
  | .child t k, ps, h => by
    rw [stepPre] at h; cases h
    exact navPre_single (fun i => ⟨rfl, rfl, by simp [tailInfos]⟩)
  | .wild t, ps, h => by
    rw [stepPre] at h; cases h
    exact navPre_single (fun i => ⟨rfl, rfl, by simp [tailInfos]⟩)
  | .multi t ns, ps, h => by
    rw [stepPre] at h; cases h
    refine navPre_single (fun i => ⟨rfl, rfl, ?_⟩)
    intro j hj
    simp only [tailInfos, List.mem_cons, List.mem_append, List.mem_map] at hj
    rcases hj with rfl | ⟨id, ⟨n, _, rfl⟩, rfl⟩ | hj
    · rfl
    · exact mid_acc i n
    · split at hj
      · simp at hj; subst hj; rfl
      · simp at hj
  | .union t ss, ps, h => by
    rw [stepPre_union] at h; cases h
    exact navPre_single (fun i => ⟨rfl, rfl, by simp [tailInfos]⟩)
  | .filter t q, ps, h => by
    rw [stepPre] at h
    obtain ⟨tq, _, h2⟩ := bind_ok h
    cases h2
    exact navPre_single (fun i => ⟨rfl, rfl, by simp [tailInfos]⟩)
  | .desc s, ps, h => by
    rw [stepPre_desc] at h
    obtain ⟨inner, hi, h2⟩ := bind_ok h
    cases h2
    intro p hp
    rcases List.mem_cons.mp hp with rfl | hp
    · exact fun i => ⟨rfl, rfl, by simp [tailInfos]⟩
    · exact step_nav env cfg s inner hi p hp
theorem steps_nav (env : Env) (cfg : Cfg) : (ss : List Step) → (ps : List Pre) → stepsPre env cfg ss = .ok ps → ∀ p ∈ ps, NavPre p
  | [], ps, h => by
    rw [stepsPre] at h; cases h
    intro p hp; cases hp
  | s :: ss, ps, h => by
    rw [stepsPre] at h
    obtain ⟨a, ha, h2⟩ := bind_ok h
    obtain ⟨b, hb, h3⟩ := bind_ok h2
    cases h3
    intro p hp
    rcases List.mem_append.mp hp with hp | hp
    · exact step_nav env cfg s a ha p hp
    · exact steps_nav env cfg ss b hb p hp
end


/-! ### the shape of an assembled chain -/

def isFfn : N → Bool
  | .ffn _ _ => true
  | _ => false

/-- navigation nodes, then filter functions -/
def navsThenFfns : List N → Bool
  | [] => true
  | n :: rest => if isNav n then navsThenFfns rest else isFfn n && rest.all isFfn

/-- `$`/`@` then navigation nodes then filter functions, or an aggregate then filter functions -/
def shapeOK : List N → Bool
  | .root _ :: tl => navsThenFfns tl
  | .cur _ :: tl => navsThenFfns tl
  | .afn _ _ _ :: tl => tl.all isFfn
  | _ => false

theorem locChain_ffns : ∀ (l : List N) (a : Bool), l.all isFfn = true → locChain a l = true
  | [], _, _ => rfl
  | n :: rest, a, h => by
    simp only [List.all_cons, Bool.and_eq_true] at h
    obtain ⟨h1, h2⟩ := h
    cases n <;> simp [isFfn] at h1
    simp only [locChain]
    exact locChain_ffns rest false h2

theorem locChain_navsThenFfns : ∀ (l : List N), navsThenFfns l = true → locChain true l = true
  | [], _ => rfl
  | n :: rest, h => by
    simp only [navsThenFfns] at h
    by_cases hn : isNav n = true
    · rw [if_pos hn] at h
      have := locChain_navsThenFfns rest h
      cases n <;> simp [isNav] at hn <;> simp [locChain, this]
    · rw [if_neg hn, Bool.and_eq_true] at h
      obtain ⟨h1, h2⟩ := h
      cases n <;> simp [isFfn] at h1
      simp only [locChain]
      exact locChain_ffns rest false h2

theorem locChain_setVg (a : Bool) (n : N) (rest : List N) : locChain a (n.setVg :: rest) = locChain a (n :: rest) := by
  cases n <;> rfl

theorem locChain_markVg (a : Bool) (ch : List N) : locChain a (markVg ch) = locChain a ch := by
  cases ch with
  | nil => rfl
  | cons n rest =>
    simp only [markVg]
    split
    · exact locChain_setVg a n rest
    · rfl

theorem shapeOK_locChain (c : List N) (h : shapeOK c = true) : locChain true (finish c) = true := by
  unfold finish
  rw [locChain_markVg]
  match c, h with
  | [.root i], _ => rfl
  | [.cur i], _ => rfl
  | .root i :: n :: rest, h => simp only [deleteHead]; exact locChain_navsThenFfns _ h
  | .cur i :: n :: rest, h => simp only [deleteHead]; exact locChain_navsThenFfns _ h
  | .afn i name param :: tl, h =>
    have : deleteHead (.afn i name param :: tl) = .afn i name param :: tl := by
      cases tl <;> rfl
    rw [this]
    simp only [locChain]
    exact locChain_ffns tl false h

theorem all_ffn_snoc (l : List N) (i : Info) (name : String) (h : l.all isFfn = true) :
    (l ++ [N.ffn i name]).all isFfn = true := by
  simp [List.all_append, h, isFfn]

theorem navsThenFfns_snoc_ffn : ∀ (l : List N) (i : Info) (name : String), navsThenFfns l = true →
    navsThenFfns (l ++ [N.ffn i name]) = true
  | [], i, name, _ => by simp [navsThenFfns, isNav, isFfn]
  | n :: rest, i, name, h => by
    simp only [navsThenFfns, List.cons_append] at h ⊢
    by_cases hn : isNav n = true
    · rw [if_pos hn] at h ⊢
      exact navsThenFfns_snoc_ffn rest i name h
    · rw [if_neg hn, Bool.and_eq_true] at h
      rw [if_neg hn, Bool.and_eq_true]
      exact ⟨h.1, all_ffn_snoc rest i name h.2⟩

theorem shapeOK_snoc_ffn (c : List N) (i : Info) (name : String) (h : shapeOK c = true) :
    shapeOK (c ++ [N.ffn i name]) = true := by
  match c, h with
  | .root _ :: tl, h => exact navsThenFfns_snoc_ffn tl i name h
  | .cur _ :: tl, h => exact navsThenFfns_snoc_ffn tl i name h
  | .afn _ _ _ :: tl, h => exact all_ffn_snoc tl i name h

theorem navsThenFfns_navs : ∀ (l : List N), (∀ n ∈ l, isNav n = true) → navsThenFfns l = true
  | [], _ => rfl
  | n :: rest, h => by
    simp only [navsThenFfns]
    rw [if_pos (h n List.mem_cons_self)]
    exact navsThenFfns_navs rest (fun m hm => h m (List.mem_cons_of_mem _ hm))

def IsFnPre : Pre → Prop
  | .node _ _ _ => False
  | _ => True

/-- the function suffix keeps the shape -/
theorem assemble_fns_shape (env : Env) : ∀ (l : List (Pre × Info)), (∀ x ∈ l, IsFnPre x.1) →
    ∀ (ch c : List N), shapeOK ch = true → assemble env l ch = .ok c → shapeOK c = true
  | [], _, ch, c, hs, h => by
    simp only [assemble] at h
    cases h; exact hs
  | (p, i) :: l, hl, ch, c, hs, h => by
    have hp := hl (p, i) List.mem_cons_self
    have hl' : ∀ x ∈ l, IsFnPre x.1 := fun y hy => hl y (List.mem_cons_of_mem _ hy)
    cases p with
    | node t vg mk => exact hp.elim
    | ffn t name =>
      simp only [assemble] at h
      split at h
      · exact assemble_fns_shape env l hl' _ c (shapeOK_snoc_ffn ch i name hs) h
      · cases h
    | afn t name =>
      simp only [assemble] at h
      split at h
      · exact assemble_fns_shape env l hl' _ c rfl h
      · cases h


theorem preGood_of_nav {p : Pre} (h : NavPre p) : PreGood p := by
  cases p with
  | node t vg mk => exact fun i => (h i).1
  | ffn _ _ => exact h.elim
  | afn _ _ => exact h.elim

theorem nodeOf_nav {x : Pre × Info} (h : NavPre x.1) : isNav (nodeOf x) = true := by
  obtain ⟨p, i⟩ := x
  cases p with
  | node t vg mk => exact (h i).2.1
  | ffn _ _ => exact h.elim
  | afn _ _ => exact h.elim

/-- the chain `Parse` assembles for a path, before `finish` -/
theorem path_shape (env : Env) (cfg : Cfg) (top : Bool) (h : Head) (steps : List Step) (fns : List Fn) (ch : List N)
    (hb : buildPath env cfg top (.mk h steps fns) = .ok ch) :
    ∃ sp c, stepsPre env cfg steps = .ok sp ∧
      assemble env (mkInfos cfg top (headPreOf h :: sp ++ fns.map fnPre)) [] = .ok c ∧ ch = finish c ∧ shapeOK c = true := by
  rw [buildPath_eq] at hb
  obtain ⟨sp, hsp, h2⟩ := bind_ok hb
  obtain ⟨c, hc, h3⟩ := bind_ok h2
  cases h3
  refine ⟨sp, c, hsp, hc, rfl, ?_⟩
  have hnav := steps_nav env cfg steps sp hsp
  have hfst := mkInfos_fst cfg top (headPreOf h :: sp ++ fns.map fnPre)
  generalize mkInfos cfg top (headPreOf h :: sp ++ fns.map fnPre) = L at hc hfst
  obtain ⟨L1, L2, rfl, h1, h2⟩ := List.map_eq_append_iff.mp hfst
  cases L1 with
  | nil => simp at h1
  | cons x0 L1' =>
    simp only [List.map_cons, List.cons.injEq] at h1
    obtain ⟨hx0, hL1'⟩ := h1
    have hnav' : ∀ x ∈ L1', NavPre x.1 := by
      intro x hx
      apply hnav
      rw [← hL1']
      exact List.mem_map.mpr ⟨x, hx, rfl⟩
    rw [assemble_append] at hc
    rw [assemble_nodes env (x0 :: L1') (by
      intro x hx
      rcases List.mem_cons.mp hx with rfl | hx
      · rw [hx0]; cases h <;> exact fun _ => rfl
      · exact preGood_of_nav (hnav' x hx))] at hc
    refine assemble_fns_shape env L2 ?_ _ c ?_ hc
    · intro x hx
      have : x.1 ∈ fns.map fnPre := by rw [← h2]; exact List.mem_map.mpr ⟨x, hx, rfl⟩
      obtain ⟨fn, _, e⟩ := List.mem_map.mp this
      rw [← e]
      cases fn <;> trivial
    · simp only [List.nil_append, List.map_cons]
      obtain ⟨p0, i0⟩ := x0
      simp only [] at hx0
      subst hx0
      have hn := navsThenFfns_navs (L1'.map nodeOf) (by
        intro n hn
        obtain ⟨x, hx, rfl⟩ := List.mem_map.mp hn
        exact nodeOf_nav (hnav' x hx))
      cases h <;> exact hn

/-- **`Parse` only builds chains on which locations are meaningful** -/
theorem build_locChain (env : Env) (cfg : Cfg) (p : Path) (ch : List N) (hb : Build.build env cfg p = .ok ch) :
    locChain true ch = true := by
  obtain ⟨h, steps, fns⟩ := p
  obtain ⟨sp, c, _, _, rfl, hs⟩ := path_shape env cfg true h steps fns ch hb
  exact shapeOK_locChain c hs


/-! ### the flag of the last node -/

/-- every Info the node can hand on has the flag `b` -/
def AllAcc (b : Bool) (n : N) : Prop := ∀ j ∈ tailInfos n, j.acc = b

theorem tailInfos_setVg (n : N) : (tailInfos n.setVg).map (·.acc) = (tailInfos n).map (·.acc) := by
  cases n <;> simp [N.setVg, tailInfos]

theorem allAcc_setVg {b : Bool} {n : N} (h : AllAcc b n) : AllAcc b n.setVg := by
  intro j hj
  have : j.acc ∈ (tailInfos n.setVg).map (·.acc) := List.mem_map.mpr ⟨j, hj, rfl⟩
  rw [tailInfos_setVg] at this
  obtain ⟨j', hj', e⟩ := List.mem_map.mp this
  rw [← e]
  exact h j' hj'

theorem lastInfos_getLast : ∀ (ch : List N) (n : N) (prev : Info), ch.getLast? = some n → lastInfos ch prev = tailInfos n
  | [], _, _, h => by simp at h
  | [m], n, prev, h => by
    simp at h; subst h; rfl
  | _ :: m :: rest, n, prev, h => by
    simp only [lastInfos]
    exact lastInfos_getLast (m :: rest) n prev (by simpa [List.getLast?_cons_cons] using h)

theorem deleteHead_getLast (c : List N) (n : N) (h : c.getLast? = some n) : (deleteHead c).getLast? = some n := by
  match c, h with
  | .root _ :: m :: rest, h => simpa [deleteHead, List.getLast?_cons_cons] using h
  | .cur _ :: m :: rest, h => simpa [deleteHead, List.getLast?_cons_cons] using h
  | [.root _], h => exact h
  | [.cur _], h => exact h
  | .child _ _ :: _, h | .wild _ :: _, h | .multi _ _ _ :: _, h | .desc _ _ _ :: _, h | .union _ _ :: _, h
  | .filter _ _ :: _, h | .ffn _ _ :: _, h | .afn _ _ _ :: _, h => exact h

theorem markVg_getLast {b : Bool} (c : List N) (n : N) (h : c.getLast? = some n) (hn : AllAcc b n) :
    ∃ n', (markVg c).getLast? = some n' ∧ AllAcc b n' := by
  cases c with
  | nil => simp at h
  | cons m rest =>
    simp only [markVg]
    split
    · cases rest with
      | nil =>
        simp at h; subst h
        exact ⟨_, rfl, allAcc_setVg hn⟩
      | cons m' rest' =>
        exact ⟨n, by simpa [List.getLast?_cons_cons] using h, hn⟩
    · exact ⟨n, h, hn⟩

theorem finish_last {b : Bool} (c : List N) (n : N) (h : c.getLast? = some n) (hn : AllAcc b n) (prev : Info) :
    ∀ j ∈ lastInfos (finish c) prev, j.acc = b := by
  obtain ⟨n', h', hn'⟩ := markVg_getLast (deleteHead c) n (deleteHead_getLast c n h) hn
  unfold finish
  rw [lastInfos_getLast _ n' prev h']
  exact hn'

/-- nodes made from written elements hand on the flag they were given -/
def FlagPre : Pre → Prop
  | .node _ _ mk => ∀ i, AllAcc i.acc (mk i)
  | _ => True

theorem assemble_snoc_last (env : Env) (l : List (Pre × Info)) (p : Pre) (i : Info) (hp : FlagPre p) (ch c : List N)
    (h : assemble env (l ++ [(p, i)]) ch = .ok c) : ∃ n, c.getLast? = some n ∧ AllAcc i.acc n := by
  rw [assemble_append] at h
  obtain ⟨c', _, h⟩ := bind_ok h
  cases p with
  | node t vg mk =>
    simp only [assemble] at h
    cases h
    exact ⟨mk i, by simp, hp i⟩
  | ffn t name =>
    simp only [assemble] at h
    split at h
    · cases h
      exact ⟨.ffn i name, by simp, by intro j hj; simp [tailInfos] at hj; subst hj; rfl⟩
    · cases h
  | afn t name =>
    simp only [assemble] at h
    split at h
    · cases h
      exact ⟨_, rfl, by intro j hj; simp [tailInfos] at hj; subst hj; rfl⟩
    · cases h

theorem lastAfnIdx_lt (pres : List Pre) (j : Nat) (h : lastAfnIdx pres = some j) : j < pres.length := by
  unfold lastAfnIdx at h
  cases hl : (pres.zipIdx.filter (fun (p, _) => p.isAfn)).getLast? with
  | none => rw [hl] at h; cases h
  | some x =>
    rw [hl] at h
    simp only [Option.map_some, Option.some.injEq] at h
    have hm := List.mem_of_getLast? hl
    have := (List.mem_filter.mp hm).1
    obtain ⟨p, k⟩ := x
    simp only [] at h
    subst h
    have := List.mem_zipIdx this
    omega

/-- the flag `mkInfos` gives to the element at position `k` -/
theorem mkInfos_acc (cfg : Cfg) (top : Bool) (pres : List Pre) (k : Nat) (x : Pre × Info)
    (h : (mkInfos cfg top pres)[k]? = some x) :
    x.2.acc = (top && cfg.accessor && (match lastAfnIdx pres with | some j => decide (k ≥ j) | none => true)) := by
  unfold mkInfos at h
  simp only [List.getElem?_map, List.getElem?_zipIdx, Option.map_map] at h
  cases hz : (pres.zip (if top = true then suffixTexts (pres.map Pre.text) else pres.map (fun _ => "")))[k]? with
  | none => rw [hz] at h; cases h
  | some y =>
    rw [hz] at h
    simp only [Option.map_some, Function.comp, Option.some.injEq] at h
    subst h
    obtain ⟨p, c⟩ := y
    show (top && cfg.accessor && match lastAfnIdx pres with | some j => decide (0 + k ≥ j) | none => true) = _
    rw [Nat.zero_add]

theorem mkInfos_length (cfg : Cfg) (top : Bool) (pres : List Pre) : (mkInfos cfg top pres).length = pres.length := by
  have := congrArg List.length (mkInfos_fst cfg top pres)
  simpa using this

/-- with accessor mode on, the last written element of the top-level path gets the flag -/
theorem mkInfos_last_acc (pres : List Pre) (l : List (Pre × Info)) (p : Pre) (i : Info)
    (h : mkInfos ⟨true⟩ true pres = l ++ [(p, i)]) : i.acc = true := by
  have hlen := mkInfos_length ⟨true⟩ true pres
  rw [h] at hlen
  simp only [List.length_append, List.length_singleton] at hlen
  have hk : (mkInfos ⟨true⟩ true pres)[l.length]? = some (p, i) := by
    rw [h]; simp
  have := mkInfos_acc ⟨true⟩ true pres l.length (p, i) hk
  simp only [] at this
  rw [this]
  cases hl : lastAfnIdx pres with
  | none => rfl
  | some j =>
    have := lastAfnIdx_lt pres j hl
    simp only [Bool.and_self, Bool.true_and, decide_eq_true_eq]
    omega

theorem flagPre_of_mem (h : Head) (sp : List Pre) (fns : List Fn) (hnav : ∀ p ∈ sp, NavPre p) :
    ∀ p ∈ headPreOf h :: sp ++ fns.map fnPre, FlagPre p := by
  intro p hp
  rcases List.mem_append.mp hp with hp | hp
  · rcases List.mem_cons.mp hp with rfl | hp
    · cases h <;> (intro i j hj; simp [tailInfos] at hj; subst hj; rfl)
    · have := hnav p hp
      cases p with
      | node t vg mk => exact fun i => (this i).2.2
      | ffn _ _ => trivial
      | afn _ _ => trivial
  · obtain ⟨fn, _, e⟩ := List.mem_map.mp hp
    rw [← e]
    cases fn <;> trivial

/-- **C12_wrapped at the level of `Build`**: with accessor mode on, every Info that decides the
    wrapping of the results of the built chain has the flag set -/
theorem build_flags (env : Env) (p : Path) (ch : List N) (hb : Build.build env ⟨true⟩ p = .ok ch) (prev : Info) :
    ∀ j ∈ lastInfos ch prev, j.acc = true := by
  obtain ⟨h, steps, fns⟩ := p
  obtain ⟨sp, c, hsp, hc, rfl, _⟩ := path_shape env ⟨true⟩ true h steps fns ch hb
  have hflag := flagPre_of_mem h sp fns (steps_nav env ⟨true⟩ steps sp hsp)
  have hfst := mkInfos_fst ⟨true⟩ true (headPreOf h :: sp ++ fns.map fnPre)
  have hne : mkInfos ⟨true⟩ true (headPreOf h :: sp ++ fns.map fnPre) ≠ [] := by
    intro hnil
    rw [hnil] at hfst
    simp at hfst
  obtain ⟨l, x, hlx⟩ : ∃ l x, mkInfos ⟨true⟩ true (headPreOf h :: sp ++ fns.map fnPre) = l ++ [x] :=
    ⟨_, _, (List.dropLast_concat_getLast hne).symm⟩
  obtain ⟨q, i⟩ := x
  have hi := mkInfos_last_acc _ l q i hlx
  have hq : FlagPre q := by
    apply hflag
    rw [← hfst, hlx]
    simp
  rw [hlx] at hc
  obtain ⟨n, hn, hall⟩ := assemble_snoc_last env l q i hq [] c hc
  rw [hi] at hall
  exact finish_last c n hn hall prev

/-! ### erasure commutes with the assembly of a chain -/

theorem eraseAcc_append : ∀ (a b : List N), eraseAcc (a ++ b) = eraseAcc a ++ eraseAcc b
  | [], b => by simp only [eraseAcc, List.nil_append]
  | n :: a, b => by simp only [List.cons_append, eraseAcc, eraseAcc_append a b]

theorem eraseN_setVg (n : N) : eraseN n.setVg = (eraseN n).setVg := by
  cases n <;> simp only [N.setVg, eraseN] <;> rfl

theorem any_vg_erase : ∀ (l : List N), (eraseAcc l).any (fun x => x.info.vg) = l.any (fun x => x.info.vg)
  | [] => by simp only [eraseAcc]
  | n :: l => by
    simp only [eraseAcc, List.any_cons, eraseN_info, any_vg_erase l]
    rfl

theorem erase_markVg (ch : List N) : eraseAcc (markVg ch) = markVg (eraseAcc ch) := by
  cases ch with
  | nil => simp only [markVg, eraseAcc]
  | cons n rest =>
    have h := any_vg_erase (n :: rest)
    simp only [eraseAcc] at h
    simp only [markVg, eraseAcc, h]
    split
    · simp only [eraseAcc, eraseN_setVg]
    · simp only [eraseAcc]

theorem erase_deleteHead (ch : List N) : eraseAcc (deleteHead ch) = deleteHead (eraseAcc ch) := by
  match ch with
  | [] => simp only [deleteHead, eraseAcc]
  | [n] => cases n <;> simp only [deleteHead, eraseAcc, eraseN]
  | n :: m :: rest => cases n <;> simp only [deleteHead, eraseAcc, eraseN]

theorem erase_finish (ch : List N) : eraseAcc (finish ch) = finish (eraseAcc ch) := by
  unfold finish
  rw [erase_markVg, erase_deleteHead]

/-- the node a written element makes commutes with clearing the flag -/
def ErasePre : Pre → Prop
  | .node _ _ mk => ∀ i, eraseN (mk i) = mk (eraseI i)
  | _ => True

def eraseSnd (x : Pre × Info) : Pre × Info := (x.1, eraseI x.2)

theorem assemble_erase (env : Env) : ∀ (l : List (Pre × Info)), (∀ x ∈ l, ErasePre x.1) → ∀ (ch : List N),
    assemble env (l.map eraseSnd) (eraseAcc ch) = Except.map eraseAcc (assemble env l ch)
  | [], _, ch => by simp only [List.map_nil, assemble]; rfl
  | (p, i) :: l, hl, ch => by
    have hp := hl (p, i) List.mem_cons_self
    have hl' : ∀ x ∈ l, ErasePre x.1 := fun y hy => hl y (List.mem_cons_of_mem _ hy)
    cases p with
    | node t vg mk =>
      simp only [List.map_cons, eraseSnd, assemble]
      rw [← hp i, ← assemble_erase env l hl' (ch ++ [mk i]), eraseAcc_append]
      simp only [eraseAcc]
    | ffn t name =>
      simp only [List.map_cons, eraseSnd, assemble]
      cases env.ffn name with
      | none => rfl
      | some f =>
        simp only []
        rw [← assemble_erase env l hl' (ch ++ [N.ffn i name]), eraseAcc_append]
        simp only [eraseAcc, eraseN]
    | afn t name =>
      simp only [List.map_cons, eraseSnd, assemble]
      cases env.afn name with
      | none => rfl
      | some f =>
        simp only []
        rw [← assemble_erase env l hl' [N.afn i name (finish ch)]]
        simp only [eraseAcc, eraseN, erase_finish]


/-! ### below the top level the configuration is not looked at -/

theorem mkInfos_false (c1 c2 : Cfg) (pres : List Pre) : mkInfos c1 false pres = mkInfos c2 false pres := by
  unfold mkInfos
  simp

mutual
theorem stepPre_cfg (env : Env) (c1 c2 : Cfg) : (s : Step) → stepPre env c1 s = stepPre env c2 s
  | .child t k => by rw [stepPre, stepPre]
  | .wild t => by rw [stepPre, stepPre]
  | .multi t ns => by rw [stepPre, stepPre]
  | .union t ss => by rw [stepPre_union, stepPre_union]
  | .filter t q => by rw [stepPre, stepPre, buildQ_cfg env c1 c2 q]
  | .desc s => by rw [stepPre_desc, stepPre_desc, stepPre_cfg env c1 c2 s]
theorem stepsPre_cfg (env : Env) (c1 c2 : Cfg) : (ss : List Step) → stepsPre env c1 ss = stepsPre env c2 ss
  | [] => by rw [stepsPre, stepsPre]
  | s :: ss => by rw [stepsPre, stepsPre, stepPre_cfg env c1 c2 s, stepsPre_cfg env c1 c2 ss]
theorem buildPath_cfg (env : Env) (c1 c2 : Cfg) : (p : Path) → buildPath env c1 false p = buildPath env c2 false p
  | .mk h steps fns => by
    rw [buildPath_eq, buildPath_eq, stepsPre_cfg env c1 c2 steps]
    simp only [mkInfos_false c1 c2]
theorem buildOperand_cfg (env : Env) (c1 c2 : Cfg) : (o : Operand) → buildOperand env c1 o = buildOperand env c2 o
  | .lit l => by rw [buildOperand, buildOperand]
  | .path p => by rw [buildOperand, buildOperand, buildP_eq, buildP_eq, buildPath_cfg env c1 c2 p]
theorem buildQ_cfg (env : Env) (c1 c2 : Cfg) : (q : Query) → buildQ env c1 q = buildQ env c2 q
  | .or a b => by rw [buildQ, buildQ, buildQ_cfg env c1 c2 a, buildQ_cfg env c1 c2 b]
  | .and a b => by rw [buildQ, buildQ, buildQ_cfg env c1 c2 a, buildQ_cfg env c1 c2 b]
  | .exist neg p => by rw [buildQ, buildQ, buildP_eq, buildP_eq, buildPath_cfg env c1 c2 p]
  | .cmp op l r => by rw [buildQ, buildQ, buildOperand_cfg env c1 c2 l, buildOperand_cfg env c1 c2 r]
  | .regex p re => by rw [buildQ, buildQ, buildP_eq, buildP_eq, buildPath_cfg env c1 c2 p]
end


/-! ### filter operands and queries carry no flag -/

theorem eraseI_of_acc_false {i : Info} (h : i.acc = false) : eraseI i = i := by
  cases i
  simp only [eraseI] at h ⊢
  simp only [h]

theorem eraseI_idem (i : Info) : eraseI (eraseI i) = eraseI i := rfl

theorem mid_erase (i : Info) (n : Name) : eraseMId (mid i n) = mid (eraseI i) n := by
  cases n <;> rfl

theorem erasePre_single {t : String} {vg : Bool} {mk : Info → N} (h : ∀ i, eraseN (mk i) = mk (eraseI i)) :
    ∀ p ∈ [Pre.node t vg mk], ErasePre p := by
  intro p hp
  simp only [List.mem_singleton] at hp
  subst hp
  exact h

theorem mkInfos_false_acc (cfg : Cfg) (pres : List Pre) : ∀ x ∈ mkInfos cfg false pres, eraseI x.2 = x.2 := by
  intro x hx
  obtain ⟨k, hk⟩ := List.getElem?_of_mem hx
  have := mkInfos_acc cfg false pres k x hk
  exact eraseI_of_acc_false (by rw [this]; rfl)

theorem map_eraseSnd_fixed (l : List (Pre × Info)) (h : ∀ x ∈ l, eraseI x.2 = x.2) : l.map eraseSnd = l := by
  induction l with
  | nil => rfl
  | cons x l ih =>
    simp only [List.map_cons]
    rw [ih (fun y hy => h y (List.mem_cons_of_mem _ hy))]
    have := h x List.mem_cons_self
    obtain ⟨p, i⟩ := x
    simp only [eraseSnd, this]

theorem erasePre_of_mem (h : Head) (sp : List Pre) (fns : List Fn) (hsp : ∀ p ∈ sp, ErasePre p) :
    ∀ p ∈ headPreOf h :: sp ++ fns.map fnPre, ErasePre p := by
  intro p hp
  rcases List.mem_append.mp hp with hp | hp
  · rcases List.mem_cons.mp hp with rfl | hp
    · cases h <;> exact fun _ => rfl
    · exact hsp p hp
  · obtain ⟨fn, _, e⟩ := List.mem_map.mp hp
    rw [← e]
    cases fn <;> trivial

/-- a chain assembled from flag-free Infos is flag-free -/
theorem path_erase_glue (env : Env) (cfg : Cfg) (h : Head) (fns : List Fn) (sp : List Pre) (hsp : ∀ p ∈ sp, ErasePre p)
    (c : List N) (hc : assemble env (mkInfos cfg false (headPreOf h :: sp ++ fns.map fnPre)) [] = .ok c) :
    eraseAcc (finish c) = finish c := by
  have hfst := mkInfos_fst cfg false (headPreOf h :: sp ++ fns.map fnPre)
  have hacc := mkInfos_false_acc cfg (headPreOf h :: sp ++ fns.map fnPre)
  generalize mkInfos cfg false (headPreOf h :: sp ++ fns.map fnPre) = L at hc hfst hacc
  have hL : ∀ x ∈ L, ErasePre x.1 := by
    intro x hx
    apply erasePre_of_mem h sp fns hsp
    rw [← hfst]
    exact List.mem_map.mpr ⟨x, hx, rfl⟩
  have := assemble_erase env L hL []
  simp only [eraseAcc] at this
  rw [map_eraseSnd_fixed L hacc, hc] at this
  have hcc : eraseAcc c = c := by
    have h2 : (Except.ok c : Except ParseErr (List N)) = .ok (eraseAcc c) := this
    injection h2 with h2
    exact h2.symm
  rw [erase_finish, hcc]

theorem eraseQ_mkEq (l r : P) (hl : eraseP l = l) (hr : eraseP r = r) : eraseQ (mkEq l r) = mkEq l r := by
  unfold mkEq
  by_cases h : rank l > rank r
  · simp only [h, if_true]
    cases l <;> simp only [eraseQ, hl, hr]
  · simp only [h, if_false]
    cases r <;> simp only [eraseQ, hl, hr]

theorem eraseQ_mkOrd (op : CmpOp) (l r : P) (hl : eraseP l = l) (hr : eraseP r = r) : eraseQ (mkOrd op l r) = mkOrd op l r := by
  unfold mkOrd
  simp only []
  split <;> simp only [eraseQ, hl, hr]

theorem buildP_erase_glue (env : Env) (cfg : Cfg) (single : Bool) (p : Path) (tp : P)
    (ih : ∀ ch, buildPath env cfg false p = .ok ch → eraseAcc ch = ch) (h : buildP env cfg single p = .ok tp) :
    eraseP tp = tp := by
  rw [buildP_eq] at h
  obtain ⟨ch, hch, h2⟩ := bind_ok h
  have := ih ch hch
  split at h2
  · cases h2
  · split at h2 <;> (cases h2; simp only [eraseP, this])

mutual
theorem step_erase (env : Env) (cfg : Cfg) : (s : Step) → (ps : List Pre) → stepPre env cfg s = .ok ps → ∀ p ∈ ps, ErasePre p
  | .child t k, ps, h => by
    rw [stepPre] at h; cases h
    exact erasePre_single (fun _ => rfl)
  | .wild t, ps, h => by
    rw [stepPre] at h; cases h
    exact erasePre_single (fun _ => rfl)
  | .multi t ns, ps, h => by
    rw [stepPre] at h; cases h
    refine erasePre_single (fun i => ?_)
    simp only [eraseN, List.map_map]
    congr 1
    · apply List.map_congr_left
      intro n _
      exact mid_erase i n
    · split <;> rfl
  | .union t ss, ps, h => by
    rw [stepPre_union] at h; cases h
    exact erasePre_single (fun _ => rfl)
  | .filter t q, ps, h => by
    rw [stepPre] at h
    obtain ⟨tq, hq, h2⟩ := bind_ok h
    cases h2
    have := query_erase env cfg q tq hq
    exact erasePre_single (fun i => by simp only [eraseN, this])
  | .desc s, ps, h => by
    rw [stepPre_desc] at h
    obtain ⟨inner, hi, h2⟩ := bind_ok h
    cases h2
    intro p hp
    rcases List.mem_cons.mp hp with rfl | hp
    · exact fun _ => rfl
    · exact step_erase env cfg s inner hi p hp
theorem steps_erase (env : Env) (cfg : Cfg) : (ss : List Step) → (ps : List Pre) → stepsPre env cfg ss = .ok ps → ∀ p ∈ ps, ErasePre p
  | [], ps, h => by
    rw [stepsPre] at h; cases h
    intro p hp; cases hp
  | s :: ss, ps, h => by
    rw [stepsPre] at h
    obtain ⟨a, ha, h2⟩ := bind_ok h
    obtain ⟨b, hb, h3⟩ := bind_ok h2
    cases h3
    intro p hp
    rcases List.mem_append.mp hp with hp | hp
    · exact step_erase env cfg s a ha p hp
    · exact steps_erase env cfg ss b hb p hp
theorem path_erase (env : Env) (cfg : Cfg) : (p : Path) → (ch : List N) → buildPath env cfg false p = .ok ch → eraseAcc ch = ch
  | .mk h steps fns, ch, hb => by
    rw [buildPath_eq] at hb
    obtain ⟨sp, hsp, h2⟩ := bind_ok hb
    obtain ⟨c, hc, h3⟩ := bind_ok h2
    cases h3
    exact path_erase_glue env cfg h fns sp (steps_erase env cfg steps sp hsp) c hc
theorem operand_erase (env : Env) (cfg : Cfg) : (o : Operand) → (tp : P) → buildOperand env cfg o = .ok tp → eraseP tp = tp
  | .lit l, tp, h => by
    rw [buildOperand] at h; cases h
    simp only [eraseP]
  | .path p, tp, h => by
    rw [buildOperand] at h
    exact buildP_erase_glue env cfg true p tp (path_erase env cfg p) h
theorem query_erase (env : Env) (cfg : Cfg) : (q : Query) → (tq : Q) → buildQ env cfg q = .ok tq → eraseQ tq = tq
  | .or a b, tq, h => by
    rw [buildQ] at h
    obtain ⟨ta, ha, h2⟩ := bind_ok h
    obtain ⟨tb, hb, h3⟩ := bind_ok h2
    cases h3
    simp only [eraseQ, query_erase env cfg a ta ha, query_erase env cfg b tb hb]
  | .and a b, tq, h => by
    rw [buildQ] at h
    obtain ⟨ta, ha, h2⟩ := bind_ok h
    obtain ⟨tb, hb, h3⟩ := bind_ok h2
    cases h3
    simp only [eraseQ, query_erase env cfg a ta ha, query_erase env cfg b tb hb]
  | .exist neg p, tq, h => by
    rw [buildQ] at h
    obtain ⟨e, he, h2⟩ := bind_ok h
    have := buildP_erase_glue env cfg false p e (path_erase env cfg p) he
    cases h2
    split <;> simp only [eraseQ, this]
  | .cmp op l r, tq, h => by
    rw [buildQ] at h
    obtain ⟨tl, hl, h2⟩ := bind_ok h
    obtain ⟨tr, hr, h3⟩ := bind_ok h2
    have el := operand_erase env cfg l tl hl
    have er := operand_erase env cfg r tr hr
    split at h3
    · cases h3
    · split at h3
      · cases h3; exact eraseQ_mkEq tl tr el er
      · cases h3; simp only [eraseQ, eraseQ_mkEq tl tr el er]
      · cases h3; exact eraseQ_mkOrd _ tl tr el er
  | .regex p re, tq, h => by
    rw [buildQ] at h
    obtain ⟨tl, hl, h2⟩ := bind_ok h
    have := buildP_erase_glue env cfg true p tl (path_erase env cfg p) hl
    cases h2
    simp only [eraseQ, eraseP, this]
end


/-! ### the top level -/

theorem mkInfos_erase (pres : List Pre) : mkInfos ⟨false⟩ true pres = (mkInfos ⟨true⟩ true pres).map eraseSnd := by
  unfold mkInfos
  simp only [List.map_map]
  apply List.map_congr_left
  intro x _
  obtain ⟨⟨p, c⟩, idx⟩ := x
  simp [eraseSnd, eraseI]

/-- **the tree `Parse` builds with accessor mode off is the tree it builds with accessor mode
    on, with the flags cleared** (and the same parse error otherwise) -/
theorem build_erase (env : Env) (p : Path) :
    Build.build env ⟨false⟩ p = Except.map eraseAcc (Build.build env ⟨true⟩ p) := by
  obtain ⟨h, steps, fns⟩ := p
  unfold Build.build
  rw [buildPath_eq, buildPath_eq, stepsPre_cfg env ⟨false⟩ ⟨true⟩ steps]
  cases hs : stepsPre env ⟨true⟩ steps with
  | error e => rfl
  | ok sp =>
    simp only [bind, Except.bind]
    rw [mkInfos_erase]
    have hL : ∀ x ∈ mkInfos ⟨true⟩ true (headPreOf h :: sp ++ fns.map fnPre), ErasePre x.1 := by
      intro x hx
      apply erasePre_of_mem h sp fns (steps_erase env ⟨true⟩ steps sp hs)
      rw [← mkInfos_fst ⟨true⟩ true (headPreOf h :: sp ++ fns.map fnPre)]
      exact List.mem_map.mpr ⟨x, hx, rfl⟩
    have := assemble_erase env _ hL []
    simp only [eraseAcc] at this
    rw [this]
    cases assemble env (mkInfos ⟨true⟩ true (headPreOf h :: sp ++ fns.map fnPre)) [] with
    | error e => rfl
    | ok c => simp only [Except.map, erase_finish]

/-! ### sub-evaluations carry no flag -/

/-- the chain a function evaluates for its argument and the operands of a filter carry no flag:
    whatever they append to their own buffer is a plain value -/
def subFreeN : N → Prop
  | .afn _ _ param => eraseAcc param = param ∧ param ≠ []
  | .filter _ q => eraseQ q = q
  | _ => True

def subFree (ch : List N) : Prop := ∀ n ∈ ch, subFreeN n

def SubFreePre : Pre → Prop
  | .node _ _ mk => ∀ i, subFreeN (mk i)
  | _ => True

theorem subFreePre_single {t : String} {vg : Bool} {mk : Info → N} (h : ∀ i, subFreeN (mk i)) :
    ∀ p ∈ [Pre.node t vg mk], SubFreePre p := by
  intro p hp
  simp only [List.mem_singleton] at hp
  subst hp
  exact h

mutual
theorem step_subfree (env : Env) (cfg : Cfg) : (s : Step) → (ps : List Pre) → stepPre env cfg s = .ok ps → ∀ p ∈ ps, SubFreePre p
  | .child t k, ps, h => by
    rw [stepPre] at h; cases h
    exact subFreePre_single (fun _ => trivial)
  | .wild t, ps, h => by
    rw [stepPre] at h; cases h
    exact subFreePre_single (fun _ => trivial)
  | .multi t ns, ps, h => by
    rw [stepPre] at h; cases h
    exact subFreePre_single (fun _ => trivial)
  | .union t ss, ps, h => by
    rw [stepPre_union] at h; cases h
    exact subFreePre_single (fun _ => trivial)
  | .filter t q, ps, h => by
    rw [stepPre] at h
    obtain ⟨tq, hq, h2⟩ := bind_ok h
    cases h2
    exact subFreePre_single (fun _ => query_erase env cfg q tq hq)
  | .desc s, ps, h => by
    rw [stepPre_desc] at h
    obtain ⟨inner, hi, h2⟩ := bind_ok h
    cases h2
    intro p hp
    rcases List.mem_cons.mp hp with rfl | hp
    · exact fun _ => trivial
    · exact step_subfree env cfg s inner hi p hp
theorem steps_subfree (env : Env) (cfg : Cfg) : (ss : List Step) → (ps : List Pre) → stepsPre env cfg ss = .ok ps → ∀ p ∈ ps, SubFreePre p
  | [], ps, h => by
    rw [stepsPre] at h; cases h
    intro p hp; cases hp
  | s :: ss, ps, h => by
    rw [stepsPre] at h
    obtain ⟨a, ha, h2⟩ := bind_ok h
    obtain ⟨b, hb, h3⟩ := bind_ok h2
    cases h3
    intro p hp
    rcases List.mem_append.mp hp with hp | hp
    · exact step_subfree env cfg s a ha p hp
    · exact steps_subfree env cfg ss b hb p hp
end

def hasAfn (l : List (Pre × Info)) : Prop := ∃ x ∈ l, x.1.isAfn = true

/-- every written element that precedes an aggregate function has its flag cleared -/
def Mono : List (Pre × Info) → Prop
  | [] => True
  | x :: l => (hasAfn l → x.2.acc = false) ∧ Mono l

theorem subFree_snoc {ch : List N} {n : N} (h : subFree ch) (hn : subFreeN n) : subFree (ch ++ [n]) := by
  intro m hm
  rcases List.mem_append.mp hm with hm | hm
  · exact h m hm
  · simp only [List.mem_singleton] at hm; subst hm; exact hn

theorem eraseAcc_snoc_fixed {ch : List N} {n : N} (h : eraseAcc ch = ch) (hn : eraseN n = n) :
    eraseAcc (ch ++ [n]) = ch ++ [n] := by
  rw [eraseAcc_append, h]
  simp only [eraseAcc, hn]

theorem finish_ne (ch : List N) (h : ch ≠ []) : finish ch ≠ [] := by
  have hd : deleteHead ch ≠ [] := by
    match ch, h with
    | .root _ :: m :: rest, _ => simp [deleteHead]
    | .cur _ :: m :: rest, _ => simp [deleteHead]
    | [.root _], _ => simp [deleteHead]
    | [.cur _], _ => simp [deleteHead]
    | .child _ _ :: _, _ | .wild _ :: _, _ | .multi _ _ _ :: _, _ | .desc _ _ _ :: _, _ | .union _ _ :: _, _
    | .filter _ _ :: _, _ | .ffn _ _ :: _, _ | .afn _ _ _ :: _, _ => simp [deleteHead]
  unfold finish
  generalize deleteHead ch = c at hd
  cases c with
  | nil => exact absurd rfl hd
  | cons n rest => simp only [markVg]; split <;> simp

theorem assemble_subfree (env : Env) : ∀ (l : List (Pre × Info)),
    (∀ x ∈ l, ErasePre x.1 ∧ SubFreePre x.1) → Mono l → ∀ (ch c : List N), ch ≠ [] → subFree ch →
      (hasAfn l → eraseAcc ch = ch) → assemble env l ch = .ok c → subFree c
  | [], _, _, ch, c, _, hs, _, h => by
    simp only [assemble] at h
    cases h; exact hs
  | (p, i) :: l, hl, hm, ch, c, hne, hs, hfix, h => by
    have hp := hl (p, i) List.mem_cons_self
    have hl' : ∀ x ∈ l, ErasePre x.1 ∧ SubFreePre x.1 := fun y hy => hl y (List.mem_cons_of_mem _ hy)
    obtain ⟨hacc, hm'⟩ := hm
    have hup : hasAfn l → hasAfn ((p, i) :: l) := fun ⟨x, hx, hx'⟩ => ⟨x, List.mem_cons_of_mem _ hx, hx'⟩
    cases p with
    | node t vg mk =>
      simp only [assemble] at h
      refine assemble_subfree env l hl' hm' _ c (by simp) (subFree_snoc hs (hp.2 i)) ?_ h
      intro ha
      refine eraseAcc_snoc_fixed (hfix (hup ha)) ?_
      rw [hp.1 i, eraseI_of_acc_false (hacc ha)]
    | ffn t name =>
      simp only [assemble] at h
      split at h
      · refine assemble_subfree env l hl' hm' _ c (by simp) (subFree_snoc (n := N.ffn i name) hs trivial) ?_ h
        intro ha
        refine eraseAcc_snoc_fixed (hfix (hup ha)) ?_
        simp only [eraseN, eraseI_of_acc_false (hacc ha)]
      · cases h
    | afn t name =>
      simp only [assemble] at h
      split at h
      · have hch : eraseAcc ch = ch := hfix ⟨_, List.mem_cons_self, rfl⟩
        have hpar : eraseAcc (finish ch) = finish ch := by rw [erase_finish, hch]
        refine assemble_subfree env l hl' hm' _ c (by simp) ?_ ?_ h
        · intro n hn
          simp only [List.mem_singleton] at hn
          subst hn
          exact ⟨hpar, finish_ne ch hne⟩
        · intro ha
          simp only [eraseAcc, eraseN, hpar, eraseI_of_acc_false (hacc ha)]
      · cases h


theorem getLast?_cons_of_some {α : Type} (a : α) (l : List α) (b : α) (h : l.getLast? = some b) :
    (a :: l).getLast? = some b := by
  cases l with
  | nil => simp at h
  | cons c l => simpa [List.getLast?_cons_cons] using h

theorem lastAfn_ge_aux : ∀ (l : List Pre) (n k : Nat) (p : Pre), l[k]? = some p → p.isAfn = true →
    ∃ j, (((l.zipIdx n).filter (fun (p, _) => p.isAfn)).getLast?.map (·.2)) = some j ∧ n + k ≤ j
  | [], _, k, p, h, _ => by simp at h
  | q :: rest, n, 0, p, h, hp => by
    simp only [List.getElem?_cons_zero, Option.some.injEq] at h
    subst h
    simp only [List.zipIdx_cons, List.filter_cons, hp, if_true]
    cases hF : ((rest.zipIdx (n + 1)).filter (fun (p, _) => p.isAfn)).getLast? with
    | none =>
      have : (rest.zipIdx (n + 1)).filter (fun (p, _) => p.isAfn) = [] := List.getLast?_eq_none_iff.mp hF
      rw [this]
      exact ⟨n, rfl, Nat.le_refl _⟩
    | some x =>
      rw [getLast?_cons_of_some _ _ x hF]
      obtain ⟨q', j⟩ := x
      have hm := (List.mem_filter.mp (List.mem_of_getLast? hF)).1
      have := List.mem_zipIdx hm
      exact ⟨j, rfl, by omega⟩
  | q :: rest, n, k + 1, p, h, hp => by
    simp only [List.getElem?_cons_succ] at h
    obtain ⟨j, hj, hle⟩ := lastAfn_ge_aux rest (n + 1) k p h hp
    refine ⟨j, ?_, by omega⟩
    simp only [List.zipIdx_cons, List.filter_cons]
    cases hF : ((rest.zipIdx (n + 1)).filter (fun (p, _) => p.isAfn)).getLast? with
    | none => rw [hF] at hj; cases hj
    | some x =>
      rw [hF] at hj
      split
      · rw [getLast?_cons_of_some _ _ x hF]; exact hj
      · rw [hF]; exact hj

/-- the last aggregate is at or after every aggregate -/
theorem lastAfnIdx_ge (pres : List Pre) (k : Nat) (p : Pre) (h : pres[k]? = some p) (hp : p.isAfn = true) :
    ∃ j, lastAfnIdx pres = some j ∧ k ≤ j := by
  obtain ⟨j, hj, hle⟩ := lastAfn_ge_aux pres 0 k p h hp
  exact ⟨j, hj, by omega⟩

theorem mono_of_getElem : ∀ (l : List (Pre × Info)),
    (∀ (k k' : Nat) (x y : Pre × Info), k < k' → l[k]? = some x → l[k']? = some y → y.1.isAfn = true → x.2.acc = false) → Mono l
  | [], _ => trivial
  | x :: l, h => by
    refine ⟨?_, mono_of_getElem l (fun k k' a b hk ha hb hb' => h (k + 1) (k' + 1) a b (by omega) (by simpa using ha) (by simpa using hb) hb')⟩
    rintro ⟨y, hy, hy'⟩
    obtain ⟨k', hk'⟩ := List.getElem?_of_mem hy
    exact h 0 (k' + 1) x y (by omega) rfl (by simpa using hk') hy'

theorem mkInfos_mono (cfg : Cfg) (top : Bool) (pres : List Pre) : Mono (mkInfos cfg top pres) := by
  apply mono_of_getElem
  intro k k' x y hk hx hy hy'
  have hfst := mkInfos_fst cfg top pres
  have hpk' : pres[k']? = some y.1 := by
    rw [← hfst, List.getElem?_map, hy]; rfl
  obtain ⟨j, hj, hle⟩ := lastAfnIdx_ge pres k' y.1 hpk' hy'
  rw [mkInfos_acc cfg top pres k x hx, hj]
  have : decide (k ≥ j) = false := by simp only [decide_eq_false_iff_not]; omega
  simp only [this, Bool.and_false]

theorem subFreeN_setVg (n : N) : subFreeN n.setVg = subFreeN n := by cases n <;> rfl

theorem subFree_finish (ch : List N) (h : subFree ch) : subFree (finish ch) := by
  have hd : subFree (deleteHead ch) := by
    intro n hn
    apply h
    match ch, hn with
    | .root _ :: m :: rest, hn => exact List.mem_cons_of_mem _ (by simpa [deleteHead] using hn)
    | .cur _ :: m :: rest, hn => exact List.mem_cons_of_mem _ (by simpa [deleteHead] using hn)
    | [.root _], hn => exact hn
    | [.cur _], hn => exact hn
    | [], hn => exact hn
    | .child _ _ :: _, hn | .wild _ :: _, hn | .multi _ _ _ :: _, hn | .desc _ _ _ :: _, hn | .union _ _ :: _, hn
    | .filter _ _ :: _, hn | .ffn _ _ :: _, hn | .afn _ _ _ :: _, hn => exact hn
  unfold finish
  generalize deleteHead ch = c at hd
  cases c with
  | nil => exact hd
  | cons n rest =>
    simp only [markVg]
    split
    · intro m hm
      rcases List.mem_cons.mp hm with rfl | hm
      · rw [subFreeN_setVg]; exact hd _ List.mem_cons_self
      · exact hd m (List.mem_cons_of_mem _ hm)
    · exact hd

/-- **in every tree `Parse` builds, the parameter chain of every aggregate function and every filter
    query carry no flag** (the model's form of `updateAccessorMode(…, false)` and of the multi-name
    node handing the cleared flag to its inner identifiers) -/
theorem build_subFree (env : Env) (cfg : Cfg) (p : Path) (ch : List N) (hb : Build.build env cfg p = .ok ch) :
    subFree ch := by
  obtain ⟨h, steps, fns⟩ := p
  obtain ⟨sp, c, hsp, hc, rfl, _⟩ := path_shape env cfg true h steps fns ch hb
  apply subFree_finish
  have he := erasePre_of_mem h sp fns (steps_erase env cfg steps sp hsp)
  have hs := steps_subfree env cfg steps sp hsp
  have hfst := mkInfos_fst cfg true (headPreOf h :: sp ++ fns.map fnPre)
  have hmono := mkInfos_mono cfg true (headPreOf h :: sp ++ fns.map fnPre)
  generalize mkInfos cfg true (headPreOf h :: sp ++ fns.map fnPre) = L at hc hfst hmono
  have hall : ∀ x ∈ L, ErasePre x.1 ∧ SubFreePre x.1 := by
    intro x hx
    have hx1 : x.1 ∈ headPreOf h :: sp ++ fns.map fnPre := by
      rw [← hfst]; exact List.mem_map.mpr ⟨x, hx, rfl⟩
    refine ⟨he _ hx1, ?_⟩
    rcases List.mem_append.mp hx1 with hx2 | hx2
    · rcases List.mem_cons.mp hx2 with e | hx2
      · rw [e]; cases h <;> exact fun _ => trivial
      · exact hs _ hx2
    · obtain ⟨fn, _, e⟩ := List.mem_map.mp hx2
      rw [← e]
      cases fn <;> trivial
  cases L with
  | nil => simp at hfst
  | cons x0 L' =>
    obtain ⟨p0, i0⟩ := x0
    have hp0 : p0 = headPreOf h := by
      simp only [List.map_cons, List.cons_append, List.cons.injEq] at hfst
      exact hfst.1
    subst hp0
    obtain ⟨hacc0, hmono'⟩ := hmono
    have hall' : ∀ x ∈ L', ErasePre x.1 ∧ SubFreePre x.1 := fun y hy => hall y (List.mem_cons_of_mem _ hy)
    cases h with
    | root =>
      simp only [headPreOf, assemble, List.nil_append] at hc
      refine assemble_subfree env L' hall' hmono' _ c (by simp) (fun n hn => by simp at hn; subst hn; trivial) ?_ hc
      intro ha
      simp only [eraseAcc, eraseN, eraseI_of_acc_false (hacc0 ha)]
    | cur =>
      simp only [headPreOf, assemble, List.nil_append] at hc
      refine assemble_subfree env L' hall' hmono' _ c (by simp) (fun n hn => by simp at hn; subst hn; trivial) ?_ hc
      intro ha
      simp only [eraseAcc, eraseN, eraseI_of_acc_false (hacc0 ha)]

end JPV
