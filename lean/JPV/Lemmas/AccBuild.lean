/-
AccBuild — what `Build.build` guarantees about accessor mode (C12 / C13 at the level of `Parse`):
* `build_locChain`: functions come last, so every navigation step starts from a known location;
* `build_flags`   : with accessor mode on, the nodes that append results carry the flag;
* `build_erase`   : the tree built with accessor mode off is the tree built with it on, flags cleared.
-/
import JPV.Lemmas.AccSim
import JPV.Lemmas.LocSound
import JPV.Lemmas.BuildDen
namespace JPV
open Impl Build BD

/-! ### what the steps of a written path become -/

/-- a written navigation step: the node stores the Info it is given, it is a navigation node,
    and every Info it can hand on carries the flag of that Info -/
def NavPre : Pre → Prop
  | .node _ _ mk => ∀ i, (mk i).info = i ∧ isNav (mk i) = true ∧ ∀ j ∈ tailInfos (mk i), j.acc = i.acc
  | _ => False

theorem navPre_single {t : String} {vg : Bool} {mk : Info → N}
    (h : ∀ i, (mk i).info = i ∧ isNav (mk i) = true ∧ ∀ j ∈ tailInfos (mk i), j.acc = i.acc) :
    ∀ p ∈ [Pre.node t vg mk], NavPre p := by
  intro p hp
  simp only [List.mem_singleton] at hp
  subst hp
  exact h

theorem mid_acc (i : Info) (n : Name) : (mid i n).info.acc = i.acc := by cases n <;> rfl

mutual
theorem step_nav (env : Env) (cfg : Cfg) : (s : Step) → (ps : List Pre) → stepPre env cfg s = .ok ps → ∀ p ∈ ps, NavPre p
  | .child t k, ps, h => by
    rw [stepPre] at h; cases h
    exact navPre_single (fun i => ⟨rfl, rfl, by simp [tailInfos]⟩)
  | .wild t, ps, h => by
    rw [stepPre] at h; cases h
    exact navPre_single (fun i => ⟨rfl, rfl, by simp [tailInfos]⟩)
  | .multi t ns, ps, h => by
    rw [stepPre] at h; cases h
    refine navPre_single (fun i => ⟨rfl, rfl, ?_⟩)
    intro j hj
    simp only [tailInfos, List.mem_cons, List.mem_append, List.mem_map] at hj
    rcases hj with rfl | ⟨id, ⟨n, _, rfl⟩, rfl⟩ | hj
    · rfl
    · exact mid_acc i n
    · split at hj
      · simp at hj; subst hj; rfl
      · simp at hj
  | .union t ss, ps, h => by
    rw [stepPre_union] at h; cases h
    exact navPre_single (fun i => ⟨rfl, rfl, by simp [tailInfos]⟩)
  | .filter t q, ps, h => by
    rw [stepPre] at h
    obtain ⟨tq, _, h2⟩ := bind_ok h
    cases h2
    exact navPre_single (fun i => ⟨rfl, rfl, by simp [tailInfos]⟩)
  | .desc s, ps, h => by
    rw [stepPre_desc] at h
    obtain ⟨inner, hi, h2⟩ := bind_ok h
    cases h2
    intro p hp
    rcases List.mem_cons.mp hp with rfl | hp
    · exact fun i => ⟨rfl, rfl, by simp [tailInfos]⟩
    · exact step_nav env cfg s inner hi p hp
theorem steps_nav (env : Env) (cfg : Cfg) : (ss : List Step) → (ps : List Pre) → stepsPre env cfg ss = .ok ps → ∀ p ∈ ps, NavPre p
  | [], ps, h => by
    rw [stepsPre] at h; cases h
    intro p hp; cases hp
  | s :: ss, ps, h => by
    rw [stepsPre] at h
    obtain ⟨a, ha, h2⟩ := bind_ok h
    obtain ⟨b, hb, h3⟩ := bind_ok h2
    cases h3
    intro p hp
    rcases List.mem_append.mp hp with hp | hp
    · exact step_nav env cfg s a ha p hp
    · exact steps_nav env cfg ss b hb p hp
end


/-! ### the shape of an assembled chain -/

def isFfn : N → Bool
  | .ffn _ _ => true
  | _ => false

/-- navigation nodes, then filter functions -/
def navsThenFfns : List N → Bool
  | [] => true
  | n :: rest => if isNav n then navsThenFfns rest else isFfn n && rest.all isFfn

/-- `$`/`@` then navigation nodes then filter functions, or an aggregate then filter functions -/
def shapeOK : List N → Bool
  | .root _ :: tl => navsThenFfns tl
  | .cur _ :: tl => navsThenFfns tl
  | .afn _ _ _ :: tl => tl.all isFfn
  | _ => false

theorem locChain_ffns : ∀ (l : List N) (a : Bool), l.all isFfn = true → locChain a l = true
  | [], _, _ => rfl
  | n :: rest, a, h => by
    simp only [List.all_cons, Bool.and_eq_true] at h
    obtain ⟨h1, h2⟩ := h
    cases n <;> simp [isFfn] at h1
    simp only [locChain]
    exact locChain_ffns rest false h2

theorem locChain_navsThenFfns : ∀ (l : List N), navsThenFfns l = true → locChain true l = true
  | [], _ => rfl
  | n :: rest, h => by
    simp only [navsThenFfns] at h
    by_cases hn : isNav n = true
    · rw [if_pos hn] at h
      have := locChain_navsThenFfns rest h
      cases n <;> simp [isNav] at hn <;> simp [locChain, this]
    · rw [if_neg hn, Bool.and_eq_true] at h
      obtain ⟨h1, h2⟩ := h
      cases n <;> simp [isFfn] at h1
      simp only [locChain]
      exact locChain_ffns rest false h2

theorem locChain_setVg (a : Bool) (n : N) (rest : List N) : locChain a (n.setVg :: rest) = locChain a (n :: rest) := by
  cases n <;> rfl

theorem locChain_markVg (a : Bool) (ch : List N) : locChain a (markVg ch) = locChain a ch := by
  cases ch with
  | nil => rfl
  | cons n rest =>
    simp only [markVg]
    split
    · exact locChain_setVg a n rest
    · rfl

theorem shapeOK_locChain (c : List N) (h : shapeOK c = true) : locChain true (finish c) = true := by
  unfold finish
  rw [locChain_markVg]
  match c, h with
  | [.root i], _ => rfl
  | [.cur i], _ => rfl
  | .root i :: n :: rest, h => simp only [deleteHead]; exact locChain_navsThenFfns _ h
  | .cur i :: n :: rest, h => simp only [deleteHead]; exact locChain_navsThenFfns _ h
  | .afn i name param :: tl, h =>
    have : deleteHead (.afn i name param :: tl) = .afn i name param :: tl := by
      cases tl <;> rfl
    rw [this]
    simp only [locChain]
    exact locChain_ffns tl false h

theorem all_ffn_snoc (l : List N) (i : Info) (name : String) (h : l.all isFfn = true) :
    (l ++ [N.ffn i name]).all isFfn = true := by
  simp [List.all_append, h, isFfn]

theorem navsThenFfns_snoc_ffn : ∀ (l : List N) (i : Info) (name : String), navsThenFfns l = true →
    navsThenFfns (l ++ [N.ffn i name]) = true
  | [], i, name, _ => by simp [navsThenFfns, isNav, isFfn]
  | n :: rest, i, name, h => by
    simp only [navsThenFfns, List.cons_append] at h ⊢
    by_cases hn : isNav n = true
    · rw [if_pos hn] at h ⊢
      exact navsThenFfns_snoc_ffn rest i name h
    · rw [if_neg hn, Bool.and_eq_true] at h
      rw [if_neg hn, Bool.and_eq_true]
      exact ⟨h.1, all_ffn_snoc rest i name h.2⟩

theorem shapeOK_snoc_ffn (c : List N) (i : Info) (name : String) (h : shapeOK c = true) :
    shapeOK (c ++ [N.ffn i name]) = true := by
  match c, h with
  | .root _ :: tl, h => exact navsThenFfns_snoc_ffn tl i name h
  | .cur _ :: tl, h => exact navsThenFfns_snoc_ffn tl i name h
  | .afn _ _ _ :: tl, h => exact all_ffn_snoc tl i name h

theorem navsThenFfns_navs : ∀ (l : List N), (∀ n ∈ l, isNav n = true) → navsThenFfns l = true
  | [], _ => rfl
  | n :: rest, h => by
    simp only [navsThenFfns]
    rw [if_pos (h n List.mem_cons_self)]
    exact navsThenFfns_navs rest (fun m hm => h m (List.mem_cons_of_mem _ hm))

def IsFnPre : Pre → Prop
  | .node _ _ _ => False
  | _ => True

/-- the function suffix keeps the shape -/
theorem assemble_fns_shape (env : Env) : ∀ (l : List (Pre × Info)), (∀ x ∈ l, IsFnPre x.1) →
    ∀ (ch c : List N), shapeOK ch = true → assemble env l ch = .ok c → shapeOK c = true
  | [], _, ch, c, hs, h => by
    simp only [assemble] at h
    cases h; exact hs
  | (p, i) :: l, hl, ch, c, hs, h => by
    have hp := hl (p, i) List.mem_cons_self
    have hl' : ∀ x ∈ l, IsFnPre x.1 := fun y hy => hl y (List.mem_cons_of_mem _ hy)
    cases p with
    | node t vg mk => exact hp.elim
    | ffn t name =>
      simp only [assemble] at h
      split at h
      · exact assemble_fns_shape env l hl' _ c (shapeOK_snoc_ffn ch i name hs) h
      · cases h
    | afn t name =>
      simp only [assemble] at h
      split at h
      · exact assemble_fns_shape env l hl' _ c rfl h
      · cases h


theorem preGood_of_nav {p : Pre} (h : NavPre p) : PreGood p := by
  cases p with
  | node t vg mk => exact fun i => (h i).1
  | ffn _ _ => exact h.elim
  | afn _ _ => exact h.elim

theorem nodeOf_nav {x : Pre × Info} (h : NavPre x.1) : isNav (nodeOf x) = true := by
  obtain ⟨p, i⟩ := x
  cases p with
  | node t vg mk => exact (h i).2.1
  | ffn _ _ => exact h.elim
  | afn _ _ => exact h.elim

/-- the chain `Parse` assembles for a path, before `finish` -/
theorem path_shape (env : Env) (cfg : Cfg) (top : Bool) (h : Head) (steps : List Step) (fns : List Fn) (ch : List N)
    (hb : buildPath env cfg top (.mk h steps fns) = .ok ch) :
    ∃ sp c, stepsPre env cfg steps = .ok sp ∧
      assemble env (mkInfos cfg top (headPreOf h :: sp ++ fns.map fnPre)) [] = .ok c ∧ ch = finish c ∧ shapeOK c = true := by
  rw [buildPath_eq] at hb
  obtain ⟨sp, hsp, h2⟩ := bind_ok hb
  obtain ⟨c, hc, h3⟩ := bind_ok h2
  cases h3
  refine ⟨sp, c, hsp, hc, rfl, ?_⟩
  have hnav := steps_nav env cfg steps sp hsp
  have hfst := mkInfos_fst cfg top (headPreOf h :: sp ++ fns.map fnPre)
  generalize mkInfos cfg top (headPreOf h :: sp ++ fns.map fnPre) = L at hc hfst
  obtain ⟨L1, L2, rfl, h1, h2⟩ := List.map_eq_append_iff.mp hfst
  cases L1 with
  | nil => simp at h1
  | cons x0 L1' =>
    simp only [List.map_cons, List.cons.injEq] at h1
    obtain ⟨hx0, hL1'⟩ := h1
    have hnav' : ∀ x ∈ L1', NavPre x.1 := by
      intro x hx
      apply hnav
      rw [← hL1']
      exact List.mem_map.mpr ⟨x, hx, rfl⟩
    rw [assemble_append] at hc
    rw [assemble_nodes env (x0 :: L1') (by
      intro x hx
      rcases List.mem_cons.mp hx with rfl | hx
      · rw [hx0]; cases h <;> exact fun _ => rfl
      · exact preGood_of_nav (hnav' x hx))] at hc
    refine assemble_fns_shape env L2 ?_ _ c ?_ hc
    · intro x hx
      have : x.1 ∈ fns.map fnPre := by rw [← h2]; exact List.mem_map.mpr ⟨x, hx, rfl⟩
      obtain ⟨fn, _, e⟩ := List.mem_map.mp this
      rw [← e]
      cases fn <;> trivial
    · simp only [List.nil_append, List.map_cons]
      obtain ⟨p0, i0⟩ := x0
      simp only [] at hx0
      subst hx0
      have hn := navsThenFfns_navs (L1'.map nodeOf) (by
        intro n hn
        obtain ⟨x, hx, rfl⟩ := List.mem_map.mp hn
        exact nodeOf_nav (hnav' x hx))
      cases h <;> exact hn

/-- **`Parse` only builds chains on which locations are meaningful** -/
theorem build_locChain (env : Env) (cfg : Cfg) (p : Path) (ch : List N) (hb : Build.build env cfg p = .ok ch) :
    locChain true ch = true := by
  obtain ⟨h, steps, fns⟩ := p
  obtain ⟨sp, c, _, _, rfl, hs⟩ := path_shape env cfg true h steps fns ch hb
  exact shapeOK_locChain c hs


/-! ### the flag of the last node -/

/-- every Info the node can hand on has the flag `b` -/
def AllAcc (b : Bool) (n : N) : Prop := ∀ j ∈ tailInfos n, j.acc = b

theorem tailInfos_setVg (n : N) : (tailInfos n.setVg).map (·.acc) = (tailInfos n).map (·.acc) := by
  cases n <;> simp [N.setVg, tailInfos]

theorem allAcc_setVg {b : Bool} {n : N} (h : AllAcc b n) : AllAcc b n.setVg := by
  intro j hj
  have : j.acc ∈ (tailInfos n.setVg).map (·.acc) := List.mem_map.mpr ⟨j, hj, rfl⟩
  rw [tailInfos_setVg] at this
  obtain ⟨j', hj', e⟩ := List.mem_map.mp this
  rw [← e]
  exact h j' hj'

theorem lastInfos_getLast : ∀ (ch : List N) (n : N) (prev : Info), ch.getLast? = some n → lastInfos ch prev = tailInfos n
  | [], _, _, h => by simp at h
  | [m], n, prev, h => by
    simp at h; subst h; rfl
  | _ :: m :: rest, n, prev, h => by
    simp only [lastInfos]
    exact lastInfos_getLast (m :: rest) n prev (by simpa [List.getLast?_cons_cons] using h)

theorem deleteHead_getLast (c : List N) (n : N) (h : c.getLast? = some n) : (deleteHead c).getLast? = some n := by
  match c, h with
  | .root _ :: m :: rest, h => simpa [deleteHead, List.getLast?_cons_cons] using h
  | .cur _ :: m :: rest, h => simpa [deleteHead, List.getLast?_cons_cons] using h
  | [.root _], h => exact h
  | [.cur _], h => exact h
  | .child _ _ :: _, h | .wild _ :: _, h | .multi _ _ _ :: _, h | .desc _ _ _ :: _, h | .union _ _ :: _, h
  | .filter _ _ :: _, h | .ffn _ _ :: _, h | .afn _ _ _ :: _, h => exact h

theorem markVg_getLast {b : Bool} (c : List N) (n : N) (h : c.getLast? = some n) (hn : AllAcc b n) :
    ∃ n', (markVg c).getLast? = some n' ∧ AllAcc b n' := by
  cases c with
  | nil => simp at h
  | cons m rest =>
    simp only [markVg]
    split
    · cases rest with
      | nil =>
        simp at h; subst h
        exact ⟨_, rfl, allAcc_setVg hn⟩
      | cons m' rest' =>
        exact ⟨n, by simpa [List.getLast?_cons_cons] using h, hn⟩
    · exact ⟨n, h, hn⟩

theorem finish_last {b : Bool} (c : List N) (n : N) (h : c.getLast? = some n) (hn : AllAcc b n) (prev : Info) :
    ∀ j ∈ lastInfos (finish c) prev, j.acc = b := by
  obtain ⟨n', h', hn'⟩ := markVg_getLast (deleteHead c) n (deleteHead_getLast c n h) hn
  unfold finish
  rw [lastInfos_getLast _ n' prev h']
  exact hn'

/-- nodes made from written elements hand on the flag they were given -/
def FlagPre : Pre → Prop
  | .node _ _ mk => ∀ i, AllAcc i.acc (mk i)
  | _ => True

theorem assemble_snoc_last (env : Env) (l : List (Pre × Info)) (p : Pre) (i : Info) (hp : FlagPre p) (ch c : List N)
    (h : assemble env (l ++ [(p, i)]) ch = .ok c) : ∃ n, c.getLast? = some n ∧ AllAcc i.acc n := by
  rw [assemble_append] at h
  obtain ⟨c', _, h⟩ := bind_ok h
  cases p with
  | node t vg mk =>
    simp only [assemble] at h
    cases h
    exact ⟨mk i, by simp, hp i⟩
  | ffn t name =>
    simp only [assemble] at h
    split at h
    · cases h
      exact ⟨.ffn i name, by simp, by intro j hj; simp [tailInfos] at hj; subst hj; rfl⟩
    · cases h
  | afn t name =>
    simp only [assemble] at h
    split at h
    · cases h
      exact ⟨_, rfl, by intro j hj; simp [tailInfos] at hj; subst hj; rfl⟩
    · cases h

theorem lastAfnIdx_lt (pres : List Pre) (j : Nat) (h : lastAfnIdx pres = some j) : j < pres.length := by
  unfold lastAfnIdx at h
  cases hl : (pres.zipIdx.filter (fun (p, _) => p.isAfn)).getLast? with
  | none => rw [hl] at h; cases h
  | some x =>
    rw [hl] at h
    simp only [Option.map_some, Option.some.injEq] at h
    have hm := List.mem_of_getLast? hl
    have := (List.mem_filter.mp hm).1
    obtain ⟨p, k⟩ := x
    simp only [] at h
    subst h
    have := List.mem_zipIdx this
    omega

/-- the flag `mkInfos` gives to the element at position `k` -/
theorem mkInfos_acc (cfg : Cfg) (top : Bool) (pres : List Pre) (k : Nat) (x : Pre × Info)
    (h : (mkInfos cfg top pres)[k]? = some x) :
    x.2.acc = (top && cfg.accessor && (match lastAfnIdx pres with | some j => decide (k ≥ j) | none => true)) := by
  unfold mkInfos at h
  simp only [List.getElem?_map, List.getElem?_zipIdx, Option.map_map] at h
  cases hz : (pres.zip (if top = true then suffixTexts (pres.map Pre.text) else pres.map (fun _ => "")))[k]? with
  | none => rw [hz] at h; cases h
  | some y =>
    rw [hz] at h
    simp only [Option.map_some, Function.comp, Option.some.injEq] at h
    subst h
    obtain ⟨p, c⟩ := y
    show (top && cfg.accessor && match lastAfnIdx pres with | some j => decide (0 + k ≥ j) | none => true) = _
    rw [Nat.zero_add]

theorem mkInfos_length (cfg : Cfg) (top : Bool) (pres : List Pre) : (mkInfos cfg top pres).length = pres.length := by
  have := congrArg List.length (mkInfos_fst cfg top pres)
  simpa using this

/-- with accessor mode on, the last written element of the top-level path gets the flag -/
theorem mkInfos_last_acc (pres : List Pre) (l : List (Pre × Info)) (p : Pre) (i : Info)
    (h : mkInfos ⟨true⟩ true pres = l ++ [(p, i)]) : i.acc = true := by
  have hlen := mkInfos_length ⟨true⟩ true pres
  rw [h] at hlen
  simp only [List.length_append, List.length_singleton] at hlen
  have hk : (mkInfos ⟨true⟩ true pres)[l.length]? = some (p, i) := by
    rw [h]; simp
  have := mkInfos_acc ⟨true⟩ true pres l.length (p, i) hk
  simp only [] at this
  rw [this]
  cases hl : lastAfnIdx pres with
  | none => rfl
  | some j =>
    have := lastAfnIdx_lt pres j hl
    simp only [Bool.and_self, Bool.true_and, decide_eq_true_eq]
    omega

theorem flagPre_of_mem (h : Head) (sp : List Pre) (fns : List Fn) (hnav : ∀ p ∈ sp, NavPre p) :
    ∀ p ∈ headPreOf h :: sp ++ fns.map fnPre, FlagPre p := by
  intro p hp
  rcases List.mem_append.mp hp with hp | hp
  · rcases List.mem_cons.mp hp with rfl | hp
    · cases h <;> (intro i j hj; simp [tailInfos] at hj; subst hj; rfl)
    · have := hnav p hp
      cases p with
      | node t vg mk => exact fun i => (this i).2.2
      | ffn _ _ => trivial
      | afn _ _ => trivial
  · obtain ⟨fn, _, e⟩ := List.mem_map.mp hp
    rw [← e]
    cases fn <;> trivial

/-- **C12_wrapped at the level of `Build`**: with accessor mode on, every Info that decides the
    wrapping of the results of the built chain has the flag set -/
theorem build_flags (env : Env) (p : Path) (ch : List N) (hb : Build.build env ⟨true⟩ p = .ok ch) (prev : Info) :
    ∀ j ∈ lastInfos ch prev, j.acc = true := by
  obtain ⟨h, steps, fns⟩ := p
  obtain ⟨sp, c, hsp, hc, rfl, _⟩ := path_shape env ⟨true⟩ true h steps fns ch hb
  have hflag := flagPre_of_mem h sp fns (steps_nav env ⟨true⟩ steps sp hsp)
  have hfst := mkInfos_fst ⟨true⟩ true (headPreOf h :: sp ++ fns.map fnPre)
  have hne : mkInfos ⟨true⟩ true (headPreOf h :: sp ++ fns.map fnPre) ≠ [] := by
    intro hnil
    rw [hnil] at hfst
    simp at hfst
  obtain ⟨l, x, hlx⟩ : ∃ l x, mkInfos ⟨true⟩ true (headPreOf h :: sp ++ fns.map fnPre) = l ++ [x] :=
    ⟨_, _, (List.dropLast_concat_getLast hne).symm⟩
  obtain ⟨q, i⟩ := x
  have hi := mkInfos_last_acc _ l q i hlx
  have hq : FlagPre q := by
    apply hflag
    rw [← hfst, hlx]
    simp
  rw [hlx] at hc
  obtain ⟨n, hn, hall⟩ := assemble_snoc_last env l q i hq [] c hc
  rw [hi] at hall
  exact finish_last c n hn hall prev

end JPV
