/-
ParsePrintToks — the token stream (captures + action indices, in order) that the recogniser
produces on the plainest spelling of each construct, as a function of the position where the
construct starts. The recogniser lemmas (ParsePrintRec*) prove that `Peg.run Gen.grammar` yields
exactly these lists; the action lemmas (ParsePrintAct*) run the stack machine on them.
-/
import JPV.Print
import JPV.Lemmas.ParsePrintPeg
namespace JPV.PP
open JPV.Peg JPV.Print JPV.Lex

/-! ### subscripts -/

/-- `anyIndex` -/
def tkOpt (p : Nat) (o : Option Int) : List Tok := [.text p (p + (optInt o).length), .action 21]

/-- `index` -/
def tkSub (p : Nat) : Sub → List Tok
  | .idx n => [.text p (p + (intText n).length), .action 17, .action 19]
  | .wild => [.action 18, .action 19]
  | .slice s e none =>
    tkOpt p s ++ (tkOpt (p + (optInt s).length + 1) e ++ [.action 20, .action 16, .action 19])
  | .slice s e (some t) =>
    tkOpt p s ++ (tkOpt (p + (optInt s).length + 1) e ++
      (tkOpt (p + (optInt s).length + 1 + (optInt e).length + 1) (some t) ++ [.action 16, .action 19]))

/-- `, index {15}` -/
def commaSub (s : Sub) : List Char := ',' :: subText s
def tkCommaSub (s : Sub) (p : Nat) : List Tok := tkSub (p + 1) s ++ [.action 15]

/-- `union` on `s, ss…` -/
def tkUnion (p : Nat) : List Sub → List Tok
  | [] => []
  | s :: ss => tkSub p s ++ toksStar commaSub tkCommaSub ss (p + (subText s).length)

/-! ### names in brackets -/

/-- `bracketNodeIdentifier` -/
def tkName (p : Nat) : Name → List Tok
  | .wild => [.action 12]
  | .key k => [.text (p + 1) (p + 1 + (escSingle k.toList).length), .action 13]

def commaName (n : Name) : List Char := ',' :: nameText n
def tkCommaName (n : Name) (p : Nat) : List Tok := tkName (p + 1) n ++ [.action 11]

/-- `bracketChildIdentifier` on `n, ns…` -/
def tkNames (p : Nat) : List Name → List Tok
  | [] => []
  | n :: ns => tkName p n ++ toksStar commaName tkCommaName ns (p + (nameText n).length)

/-! ### functions -/

/-- `function` on `.name()` -/
def tkFn (f : Fn) (p : Nat) : List Tok :=
  [.text (p + 1) (p + 1 + (fnName f).toList.length), .action 6,
   .text p (p + (fnText f).length), .action 5]

/-! ### literals -/

/-- `qLiteral` -/
def tkLit (p : Nat) : Lit → List Tok
  | .num n => [.text p (p + (intText n).length), .action 40]
  | .bool true => [.action 41]
  | .bool false => [.action 42]
  | .str s => [.text (p + 1) (p + 1 + (escLit s.toList).length), .action 43]
  | .null => [.action 45]

def isOrdOp : CmpOp → Bool
  | .eq => false
  | .ne => false
  | _ => true

def opAction : CmpOp → Nat
  | .eq => 28
  | .ne => 29
  | .le => 30
  | .lt => 31
  | .ge => 32
  | .gt => 33

/-- `rootIdentifier` / `currentRootIdentifier` -/
def headAct : Head → Nat
  | .root => 8
  | .cur => 9

/-! ### steps, queries, paths -/

mutual
/-- `childNode` (or what stands after `..` when `ad`) -/
def tkStep (ad : Bool) (p : Nat) : Step → List Tok
  | .child _ k =>
    if dotSpellable k.toList then
      (if ad then [.text p (p + (escDot k.toList).length), .action 10]
       else [.text (p + 1) (p + 1 + (escDot k.toList).length), .action 10,
             .text p (p + 1 + (escDot k.toList).length), .action 4])
    else tkName (p + 1) (.key k) ++ [.text p (p + (bracket (quoted k)).length), .action 7]
  | .wild _ => if ad then [.action 12] else [.action 12, .text p (p + 2), .action 4]
  | .multi t ns => tkNames (p + 1) ns ++ [.text p (p + (step ad (.multi t ns)).length), .action 7]
  | .union t ss => tkUnion (p + 1) ss ++ [.text p (p + (step ad (.union t ss)).length), .action 7]
  | .filter t q =>
    tkQ 0 (p + 3) q ++ [.action 23, .text p (p + (step ad (.filter t q)).length), .action 7]
  | .desc s => tkStep true (p + 2) s ++ [.action 3]
/-- `childNode*` -/
def tkSteps (p : Nat) : List Step → List Tok
  | [] => []
  | s :: ss => tkStep false p s ++ tkSteps (p + (step false s).length) ss
/-- `query` (prec 0) / `andQuery` (prec 1) / `basicQuery` (prec 2) on `Print.query prec q` -/
def tkQ (prec : Nat) (p : Nat) : Query → List Tok
  | .or a b =>
    let off := if 0 < prec then 1 else 0
    tkQ 0 (p + off) a ++ (tkQ 1 (p + off + (query 0 a).length + 2) b ++ [.action 24])
  | .and a b =>
    let off := if 1 < prec then 1 else 0
    tkQ 1 (p + off) a ++ (tkQ 2 (p + off + (query 1 a).length + 2) b ++ [.action 25])
  | .exist neg q =>
    .action 38 :: (tkPath (p + (if neg then 1 else 0)) q ++
      [.action 39, .text p (p + (query prec (.exist neg q)).length), .action 27])
  | .cmp op l r =>
    tkOperand (isOrdOp op) p l ++
      (tkOperand (isOrdOp op) (p + (operand l).length + (opText op).length) r ++
        [.action (opAction op), .text p (p + (query prec (.cmp op l r)).length), .action 26])
  | .regex q re =>
    .action 38 :: (tkPath p q ++
      [.action 39, .text p (p + (path q).length), .action 37,
       .text (p + (path q).length + 3) (p + (path q).length + 3 + (escRegex re.toList).length), .action 34,
       .text p (p + (query prec (.regex q re)).length), .action 26])
/-- `qParam` / `qNumericParam` -/
def tkOperand (ord : Bool) (p : Nat) : Operand → List Tok
  | .lit l => tkLit p l ++ [.action (if ord then 36 else 35)]
  | .path q => .action 38 :: (tkPath p q ++ [.action 39, .text p (p + (path q).length), .action 37])
/-- `rootNode continuedJsonpath` / `parameterRootNode continuedJsonpath` -/
def tkPath (p : Nat) : Path → List Tok
  | .mk h ss fns =>
    .action (headAct h) ::
      (tkSteps (p + 1) ss ++ (toksStar fnText tkFn fns (p + 1 + (steps ss).length) ++ [.action 2]))
end

/-- `expression` on the whole printed path -/
def tkExpr (p : Path) : List Tok := tkPath 0 p ++ [.action 0]

end JPV.PP
