/-
SpellToks — the token stream (captures + action indices, in order) that the recogniser produces on a
SPELLED construct (JPV/Spell.lean), as a function of the position where the construct starts — and,
for the constructs of a filter, of the number `k` of blanks that follow the construct: a path inside a
filter takes the blanks behind it into `continuedJsonpath` (`childNode* function* space`), so the
captures `< jsonpathFilter >`, `< comparator >`, `< logicNot? jsonpathFilter >` that END with such a
path end behind those blanks.

The recogniser lemmas (SpellRec*) prove that `Peg.run Gen.grammar` yields exactly these lists; the
action lemmas (SpellAct*) run the stack machine on them.
-/
import JPV.Spell
import JPV.Lemmas.ParsePrintToks
namespace JPV.SP
open JPV.Peg JPV.PP JPV.Lex
open JPV.Print (fnText fnsText opText escRegex headChar)
open JPV.Spell (blanks Quote Sign SInt STail SSub SName Cap SLit ChildForm WildForm Sep SStep SQuery SOperand SOpPath SPath
  optTxt tailP subP keyBody nameP sepP sepsP brP litP childP wildP escLitQ)

/-! ### subscripts

An omitted bound is an EMPTY capture; it stands behind all the blanks around it, because the `space` in
front of it takes them all: `f` is the number of blanks that follow the place of the bound. -/

/-- `anyIndex` at `p`, followed by `f` blanks when the bound is omitted -/
def tkOptS (p : Nat) (o : Option SInt) (f : Nat) : List Tok :=
  match o with
  | none => [.text (p + f) (p + f), .action 21]
  | some n => [.text p (p + n.txt.length), .action 21]

/-- where the second bound of a slice starts -/
def sliceP1 (p : Nat) (s : Option SInt) (b1 a1 : Nat) : Nat := p + (optTxt s).length + b1 + 1 + a1

/-- where the third part of a slice starts (behind its colon and blanks) -/
def sliceP2 (p : Nat) (s : Option SInt) (b1 a1 : Nat) (e : Option SInt) (b a : Nat) : Nat :=
  sliceP1 p s b1 a1 + (optTxt e).length + b + 1 + a

/-- `slice` at `p`, followed by `k` blanks -/
def tkSliceS (k : Nat) (p : Nat) (s : Option SInt) (b1 a1 : Nat) (e : Option SInt) : STail → List Tok
  | .absent => tkOptS p s b1 ++ (tkOptS (sliceP1 p s b1 a1) e k ++ [.action 20])
  | .step b a t =>
    tkOptS p s b1 ++ (tkOptS (sliceP1 p s b1 a1) e b ++ tkOptS (sliceP2 p s b1 a1 e b a) (some t) 0)
  | .colon b a =>
    tkOptS p s b1 ++ (tkOptS (sliceP1 p s b1 a1) e b ++ tkOptS (sliceP2 p s b1 a1 e b a) none k)

/-- `index` at `p`, followed by `k` blanks -/
def tkSubS (k : Nat) (p : Nat) : SSub → List Tok
  | .idx n => [.text p (p + n.txt.length), .action 17, .action 19]
  | .wild => [.action 18, .action 19]
  | .slice s b1 a1 e t => tkSliceS k p s b1 a1 e t ++ [.action 16, .action 19]

/-- how many of the `k` blanks behind a subscript belong to the rule `index` -/
def capS (k : Nat) : SSub → Nat
  | .slice _ _ _ _ .absent => k
  | .slice _ _ _ _ (.colon _ _) => k
  | _ => 0

/-- one round of `(sep X {act})*` on `b , a x` that starts at `q`; `k`: the blanks behind `x` -/
def tkSepS {α : Type} (tk : Nat → Nat → α → List Tok) (act : Nat) (k : Nat) (x : Sep α) (q : Nat) : List Tok :=
  tk k (q + x.1 + 1 + x.2.1) x.2.2 ++ [.action act]

/-- the blanks in front of the comma of the next element, or `rb` behind the last one -/
def nextB {α : Type} (rb : Nat) : List (Sep α) → Nat
  | [] => rb
  | x :: _ => x.1

/-- the rounds of `(sep X {act})*`; `rb`: the blanks behind the last element -/
def tkSepsS {α : Type} (pr : α → List Char) (tk : Nat → Nat → α → List Tok) (act : Nat) (rb : Nat) :
    List (Sep α) → Nat → List Tok
  | [], _ => []
  | x :: xs, q => tkSepS tk act (nextB rb xs) x q ++ tkSepsS pr tk act rb xs (q + (sepP pr x).length)

/-- `union` on `s, ss…` followed by `rb` blanks -/
def tkUnionS (rb : Nat) (p : Nat) (s : SSub) (ss : List (Sep SSub)) : List Tok :=
  tkSubS (nextB rb ss) p s ++ tkSepsS subP tkSubS 15 rb ss (p + (subP s).length)

/-! ### names in brackets -/

def quoteAct : Quote → Nat
  | .sq => 13
  | .dq => 14

/-- `bracketNodeIdentifier` (the blanks behind it play no role) -/
def tkNameS (_k : Nat) (p : Nat) : SName → List Tok
  | .wild => [.action 12]
  | .key q k => [.text (p + 1) (p + 1 + (keyBody q k).length), .action (quoteAct q)]

/-- `bracketChildIdentifier` on `n, ns…` -/
def tkNamesS (p : Nat) (n : SName) (ns : List (Sep SName)) : List Tok :=
  tkNameS 0 p n ++ tkSepsS nameP tkNameS 11 0 ns (p + (nameP n).length)

/-! ### literals -/

def strAct : Quote → Nat
  | .sq => 43
  | .dq => 44

/-- `qLiteral` -/
def tkLitS (p : Nat) : SLit → List Tok
  | .num n sg d rest => [.text p (p + (litP (.num n sg d rest)).length), .action 40]
  | .bool true _ => [.action 41]
  | .bool false _ => [.action 42]
  | .str q s => [.text (p + 1) (p + 1 + (escLitQ q s.toList).length), .action (strAct q)]
  | .null _ => [.action 45]

/-- how many of the `k` blanks behind an operand belong to the operand's own rule -/
def capO (k : Nat) : SOperand → Nat
  | .lit _ => 0
  | .path _ => k

/-- … behind a query -/
def capQ (k : Nat) : SQuery → Nat
  | .or _ _ _ b => capQ k b
  | .and _ _ _ b => capQ k b
  | .exist _ _ => k
  | .cmp _ _ _ _ r => capO k r
  | .regex _ _ _ _ => 0
  | .paren _ _ _ => 0

/-- `!` and its blanks -/
def negLen : Option Nat → Nat
  | none => 0
  | some j => 1 + j

/-! ### steps, queries, paths -/

mutual
/-- `childNode` (or what stands after `..` / in the place of `$` when `ad`) -/
def tkStepS (ad : Bool) (p : Nat) : SStep → List Tok
  | .child .dot k =>
    if ad then [.text p (p + (escDot k.toList).length), .action 10]
    else [.text (p + 1) (p + 1 + (escDot k.toList).length), .action 10,
          .text p (p + 1 + (escDot k.toList).length), .action 4]
  | .child (.br lb q rb) k =>
    tkNameS 0 (p + 1 + lb) (.key q k) ++ [.text p (p + (Spell.step ad (.child (.br lb q rb) k)).length), .action 7]
  | .wild .dot => if ad then [.action 12] else [.action 12, .text p (p + 2), .action 4]
  | .wild (.br lb rb) => [.action 12, .text p (p + (Spell.step ad (.wild (.br lb rb))).length), .action 7]
  | .multi lb n ns rb =>
    tkNamesS (p + 1 + lb) n ns ++ [.text p (p + (Spell.step ad (.multi lb n ns rb)).length), .action 7]
  | .union lb s ss rb =>
    tkUnionS rb (p + 1 + lb) s ss ++ [.text p (p + (Spell.step ad (.union lb s ss rb)).length), .action 7]
  | .filter b0 b1 q b2 b3 =>
    tkQS b2 (p + 1 + b0 + 2 + b1) q ++
      [.action 23, .text p (p + (Spell.step ad (.filter b0 b1 q b2 b3)).length), .action 7]
  | .desc s => tkStepS true (p + 2) s ++ [.action 3]
/-- `childNode*` -/
def tkStepsS (p : Nat) : List SStep → List Tok
  | [] => []
  | s :: ss => tkStepS false p s ++ tkStepsS (p + (Spell.step false s).length) ss
/-- `query` / `andQuery` / `basicQuery` on a spelled query followed by `k` blanks -/
def tkQS (k : Nat) (p : Nat) : SQuery → List Tok
  | .or a l r b => tkQS l p a ++ (tkQS k (p + (Spell.query a).length + l + 2 + r) b ++ [.action 24])
  | .and a l r b => tkQS l p a ++ (tkQS k (p + (Spell.query a).length + l + 2 + r) b ++ [.action 25])
  | .exist neg q =>
    .action 38 :: (tkOPathS (p + negLen neg) q ++
      [.action 39, .text p (p + (Spell.query (.exist neg q)).length + k), .action 27])
  | .cmp op l bl br r =>
    tkOperandS bl (isOrdOp op) p l ++
      (tkOperandS k (isOrdOp op) (p + (Spell.operand l).length + bl + (opText op).length + br) r ++
        [.action (opAction op), .text p (p + (Spell.query (.cmp op l bl br r)).length + capO k r), .action 26])
  | .regex q bl br re =>
    .action 38 :: (tkOPathS p q ++
      [.action 39, .text p (p + (Spell.opath q).length + bl), .action 37,
       .text (p + (Spell.opath q).length + bl + 2 + br + 1)
         (p + (Spell.opath q).length + bl + 2 + br + 1 + (escRegex re.toList).length), .action 34,
       .text p (p + (Spell.query (.regex q bl br re)).length), .action 26])
  | .paren l q r => tkQS r (p + 1 + l) q
/-- `qParam` / `qNumericParam` on an operand followed by `k` blanks -/
def tkOperandS (k : Nat) (ord : Bool) (p : Nat) : SOperand → List Tok
  | .lit l => tkLitS p l ++ [.action (if ord then 36 else 35)]
  | .path q =>
    .action 38 :: (tkOPathS p q ++ [.action 39, .text p (p + (Spell.opath q).length + k), .action 37])
/-- `parameterRootNode continuedJsonpath` -/
def tkOPathS (p : Nat) : SOpPath → List Tok
  | .mk h ss fns =>
    .action (headAct h) ::
      (tkStepsS (p + 1) ss ++ (toksStar fnText tkFn fns (p + 1 + (Spell.steps ss).length) ++ [.action 2]))
end

/-- `rootNode childNode*` on the steps of the whole path, which start at `p` -/
def tkTopStepsS (p : Nat) (dollar : Bool) (ss : List SStep) : List Tok :=
  if dollar then .action 8 :: tkStepsS (p + 1) ss
  else match ss with
    | [] => []
    | s :: rest => tkStepS true p s ++ tkStepsS (p + (Spell.step true s).length) rest

/-- `expression` on the whole spelled path -/
def tkTopS (a : SPath) : List Tok :=
  tkTopStepsS a.lead a.dollar a.steps ++
    (toksStar fnText tkFn a.fns (a.lead + (Spell.topSteps a.dollar a.steps).length) ++ [.action 2, .action 0])

end JPV.SP
