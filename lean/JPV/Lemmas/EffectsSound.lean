/-
Soundness of the tag checker, part 4: the checker's verdict holds for every run of the interpreter.
-/
import JPV.Lemmas.EffectsSpecial
import JPV.Lemmas.Peg
namespace JPV.Peg

variable {g : Grammar} {inp : Array Char}

/-! ### pure expressions produce no tokens -/

theorem run_pure (pr : List String) (hp : ∀ n ∈ pr, (ruleBody g n).pure pr = true) :
    ∀ (f : Nat) (e : PE) (pos p : Nat) (toks : List Tok), e.pure pr = true →
      run g f e inp pos = .ok p toks → toks = [] := by
  intro f
  induction f with
  | zero => intro e pos p toks _ h; rw [run_zero] at h; cases h
  | succ f ih =>
    intro e pos p toks hpure h
    cases e with
    | lit s =>
      rw [run_lit] at h
      split at h
      · cases h; rfl
      · cases h
    | cls neg rs =>
      rw [run_cls] at h
      split at h
      · split at h
        · cases h; rfl
        · cases h
      · cases h
    | any =>
      rw [run_any] at h
      split at h
      · cases h; rfl
      · cases h
    | act i => simp [PE.pure] at hpure
    | cap a => simp [PE.pure] at hpure
    | rule n =>
      rw [run_rule] at h
      have hm : n ∈ pr := by simpa [PE.pure] using hpure
      exact ih _ _ _ _ (hp n hm) h
    | seq a b =>
      simp only [PE.pure, Bool.and_eq_true] at hpure
      obtain ⟨p1, t1, t2, ha, hb, rfl⟩ := run_seq_inv h
      rw [ih _ _ _ _ hpure.1 ha, ih _ _ _ _ hpure.2 hb]; rfl
    | alt a b =>
      simp only [PE.pure, Bool.and_eq_true] at hpure
      rcases run_alt_inv h with ha | ⟨_, hb⟩
      · exact ih _ _ _ _ hpure.1 ha
      · exact ih _ _ _ _ hpure.2 hb
    | star a =>
      have hpa : a.pure pr = true := by simpa [PE.pure] using hpure
      rw [run_star] at h
      cases ha : run g f a inp pos with
      | fail => rw [ha] at h; cases h; rfl
      | outOfFuel => rw [ha] at h; cases h
      | ok p1 t1 =>
        rw [ha] at h
        simp only at h
        cases hb : run g f (.star a) inp p1 with
        | fail => rw [hb] at h; cases h
        | outOfFuel => rw [hb] at h; cases h
        | ok p2 t2 =>
          rw [hb] at h
          cases h
          rw [ih _ _ _ _ hpa ha, ih _ _ _ _ hpure hb]; rfl
    | plus a =>
      have hpa : a.pure pr = true := by simpa [PE.pure] using hpure
      have hps : (PE.star a).pure pr = true := by simpa [PE.pure] using hpure
      rw [run_plus] at h
      cases ha : run g f a inp pos with
      | fail => rw [ha] at h; cases h
      | outOfFuel => rw [ha] at h; cases h
      | ok p1 t1 =>
        rw [ha] at h
        simp only at h
        cases hb : run g f (.star a) inp p1 with
        | fail => rw [hb] at h; cases h
        | outOfFuel => rw [hb] at h; cases h
        | ok p2 t2 =>
          rw [hb] at h
          cases h
          rw [ih _ _ _ _ hpa ha, ih _ _ _ _ hps hb]; rfl
    | opt a =>
      have hpa : a.pure pr = true := by simpa [PE.pure] using hpure
      rw [run_opt] at h
      cases ha : run g f a inp pos with
      | fail => rw [ha] at h; cases h; rfl
      | outOfFuel => rw [ha] at h; cases h
      | ok p1 t1 => rw [ha] at h; cases h; exact ih _ _ _ _ hpa ha
    | not a => exact (run_not_inv h).2
    | and a =>
      rw [run_and] at h
      cases ha : run g f a inp pos with
      | fail => rw [ha] at h; cases h
      | outOfFuel => rw [ha] at h; cases h
      | ok p1 t1 => rw [ha] at h; cases h; rfl

/-! ### non-nullable expressions consume input -/

theorem run_nn (nr : List String) (hn : ∀ n ∈ nr, (ruleBody g n).nn nr = true) :
    ∀ (f : Nat) (e : PE) (pos p : Nat) (toks : List Tok), e.nn nr = true →
      run g f e inp pos = .ok p toks → pos < p := by
  intro f
  induction f with
  | zero => intro e pos p toks _ h; rw [run_zero] at h; cases h
  | succ f ih =>
    intro e pos p toks hnn h
    cases e with
    | lit s =>
      rw [run_lit] at h
      split at h
      · cases h
        have : s.toList ≠ [] := by simpa [PE.nn] using hnn
        have hl : 0 < s.toList.length := List.length_pos_iff.mpr this
        rw [String.length_toList] at hl
        omega
      · cases h
    | cls neg rs =>
      rw [run_cls] at h
      split at h
      · split at h
        · cases h; omega
        · cases h
      · cases h
    | any =>
      rw [run_any] at h
      split at h
      · cases h; omega
      · cases h
    | act i => simp [PE.nn] at hnn
    | star a => simp [PE.nn] at hnn
    | opt a => simp [PE.nn] at hnn
    | not a => simp [PE.nn] at hnn
    | and a => simp [PE.nn] at hnn
    | rule n =>
      rw [run_rule] at h
      have hm : n ∈ nr := by simpa [PE.nn] using hnn
      exact ih _ _ _ _ (hn n hm) h
    | cap a =>
      have hna : a.nn nr = true := by simpa [PE.nn] using hnn
      obtain ⟨t1, ha, _⟩ := run_cap_inv h
      exact ih _ _ _ _ hna ha
    | seq a b =>
      simp only [PE.nn, Bool.or_eq_true] at hnn
      obtain ⟨p1, t1, t2, ha, hb, _⟩ := run_seq_inv h
      have h1 := run_pos_le _ _ _ _ _ ha
      have h2 := run_pos_le _ _ _ _ _ hb
      rcases hnn with hna | hnb
      · have := ih _ _ _ _ hna ha; omega
      · have := ih _ _ _ _ hnb hb; omega
    | alt a b =>
      simp only [PE.nn, Bool.and_eq_true] at hnn
      rcases run_alt_inv h with ha | ⟨_, hb⟩
      · exact ih _ _ _ _ hnn.1 ha
      · exact ih _ _ _ _ hnn.2 hb
    | plus a =>
      have hna : a.nn nr = true := by simpa [PE.nn] using hnn
      rw [run_plus] at h
      cases ha : run g f a inp pos with
      | fail => rw [ha] at h; cases h
      | outOfFuel => rw [ha] at h; cases h
      | ok p1 t1 =>
        rw [ha] at h
        simp only at h
        cases hb : run g f (.star a) inp p1 with
        | fail => rw [hb] at h; cases h
        | outOfFuel => rw [hb] at h; cases h
        | ok p2 t2 =>
          rw [hb] at h
          cases h
          have := ih _ _ _ _ hna ha
          have := run_pos_le _ _ _ _ _ hb
          omega

/-- a capture that spans at least one rune of the input has a non-empty text -/
theorem textOf_ne_nil (input : Array Char) (b e : Nat) (hlt : b < e) (hle : e ≤ input.size) :
    (textOf input b e).toList ≠ [] := by
  unfold textOf
  rw [String.toList_ofList]
  intro h
  have := congrArg List.length h
  simp only [List.length_take, List.length_drop, Array.length_toList, List.length_nil] at this
  omega

/-! ### moving between abstract states -/

theorem Gamma.setCap {c : Ctx} {A : AState} {R S} {st : St} (b : Bool) (x y : Nat)
    (hb : b = true → (textOf c.input x y).toList ≠ []) (h : Gamma c A R S st) :
    Gamma c { A with capNE := b } R S { st with tb := x, te := y } := by
  obtain ⟨items, X, hst, hseg, hsv, _, hroot⟩ := h
  exact ⟨items, X, hst, hseg, hsv, hb, hroot⟩

theorem NodesRun.single {k : Tag} {n : N} {r : List N} (h : TagOK k [.chain (n :: r)]) :
    NodesRun (k.le .nodeP) [.chain (n :: r)] := by
  refine ⟨by simp, ?_, ?_⟩
  · intro x hx
    simp only [List.mem_singleton] at hx
    subst hx
    exact ⟨n, r, rfl⟩
  · intro hp
    have := h.le hp
    cases this with
    | nodeP _ hh => exact ⟨_, rfl, hh⟩

theorem NodesRun.cons {p : Bool} {X : List Item} {n : N} {r : List N} (h : NodesRun p X) :
    NodesRun p (.chain (n :: r) :: X) := by
  obtain ⟨hne, hall, hp⟩ := h
  refine ⟨by simp, ?_, ?_⟩
  · intro x hx
    rcases List.mem_cons.mp hx with rfl | hx
    · exact ⟨n, r, rfl⟩
    · exact hall x hx
  · intro hpt
    obtain ⟨ch, hl, hh⟩ := hp hpt
    refine ⟨ch, ?_, hh⟩
    rw [List.getLast?_cons_of_ne_nil hne]
    exact hl

theorem AState.absorb_sound {c : Ctx} {A A' : AState} {R S} {st : St} (ha : A.absorb = some A')
    (h : Gamma c A R S st) : Gamma c A' R S st := by
  obtain ⟨items, X, hst, hseg, hsv, hcap, hroot⟩ := h
  unfold AState.absorb at ha
  split at ha
  · -- directly above the bottom
    rename_i k top hk hb
    split at ha
    · rename_i hle
      cases ha
      rw [hk] at hseg
      have ht := segs1 hseg
      obtain ⟨n, r, rfl⟩ := TagOK_node_inv hle ht
      refine ⟨[], [.chain (n :: r)] ++ X, by simpa using hst, .nil, ?_, hcap, hroot⟩
      cases hs : A.sv with
      | none =>
        rw [hs, hb] at hsv
        obtain ⟨hX, hsaved⟩ := hsv
        simp only [BaseX] at hX
        subst hX
        exact ⟨NodesRun.single ht, hsaved⟩
      | some kb =>
        obtain ⟨k0, b0⟩ := kb
        rw [hs, hb] at hsv
        obtain ⟨hX, htop, _, hrest⟩ := hsv
        simp only [BaseX] at hX
        subst hX
        exact ⟨NodesRun.single ht, htop, rfl, hrest⟩
    · cases ha
  · -- above a run of nodes
    rename_i k p top hk hb
    split at ha
    · rename_i hle
      cases ha
      rw [hk] at hseg
      have ht := segs1 hseg
      obtain ⟨n, r, rfl⟩ := TagOK_node_inv hle ht
      refine ⟨[], [.chain (n :: r)] ++ X, by simpa using hst, .nil, ?_, hcap, hroot⟩
      cases hs : A.sv with
      | none =>
        rw [hs, hb] at hsv
        exact ⟨NodesRun.cons hsv.1, hsv.2⟩
      | some kb =>
        obtain ⟨k0, b0⟩ := kb
        rw [hs, hb] at hsv
        obtain ⟨hX, htop, _, hrest⟩ := hsv
        exact ⟨NodesRun.cons hX, htop, rfl, hrest⟩
    · cases ha
  · cases ha

/-- what `invOK` promises: the body's result can be brought back into the invariant -/
theorem invOK_sound {c : Ctx} {chk : AState → Option AState} {C : AState} (h : invOK chk C = true) :
    ∃ C', chk C = some C' ∧ ∀ R S st, Gamma c C' R S st → Gamma c C R S st := by
  unfold invOK at h
  split at h
  · rename_i C' hc
    refine ⟨C', hc, ?_⟩
    intro R S st hg
    simp only [Bool.or_eq_true] at h
    rcases h with h | h
    · exact hg.le h
    · split at h
      · rename_i C'' ha
        exact (AState.absorb_sound ha hg).le h
      · cases h
  · cases h

/-- what `starCheck` promises -/
theorem starCheck_sound {c : Ctx} {chk : AState → Option AState} {A C : AState}
    (h : starCheck chk A = some C) :
    invOK chk C = true ∧ C.capNE = false ∧ (∀ R S st, Gamma c A R S st → Gamma c C R S st) := by
  unfold starCheck at h
  simp only at h
  split at h
  · rename_i hinv
    cases h
    exact ⟨hinv, rfl, fun R S st hg => hg.noCap⟩
  · split at h
    · rename_i r hw
      cases h
      split at hw
      · rename_i A' _
        split at hw
        · rename_i hcond
          cases hw
          simp only [Bool.and_eq_true] at hcond
          exact ⟨hcond.2, rfl, fun R S st hg => hg.noCap.le hcond.1⟩
        · cases hw
      · cases hw
    · split at h
      · rename_i A2 hab
        split at h
        · rename_i hinv
          cases h
          refine ⟨hinv, ?_, fun R S st hg => AState.absorb_sound hab hg.noCap⟩
          -- absorb keeps capNE
          unfold AState.absorb at hab
          split at hab
          · split at hab
            · cases hab; rfl
            · cases hab
          · split at hab
            · cases hab; rfl
            · cases hab
          · cases hab
        · cases h
      · cases h

theorem starCheck_idem {chk : AState → Option AState} {C : AState}
    (hinv : invOK chk C = true) (hcap : C.capNE = false) : starCheck chk C = some C := by
  unfold starCheck
  have : ({ C with capNE := false } : AState) = C := by
    cases C; simp only at hcap; subst hcap; rfl
  simp only [this, hinv, if_true]

/-! ### rule summaries -/

theorem lookup_mem {α : Type} : ∀ (l : List (String × α)) (n : String) (v : α),
    l.lookup n = some v → (n, v) ∈ l := by
  intro l
  induction l with
  | nil => intro n v h; simp [List.lookup] at h
  | cons x rest ih =>
    intro n v h
    obtain ⟨m, w⟩ := x
    simp only [List.lookup] at h
    cases hnm : (n == m) with
    | true =>
      rw [hnm] at h
      simp only [Option.some.injEq] at h
      have : n = m := by simpa using hnm
      subst this; subst h
      exact List.mem_cons_self
    | false =>
      rw [hnm] at h
      exact List.mem_cons_of_mem _ (ih n v h)

/-- using a summary at a call site: the callee's unknown rest is the caller's remaining frame -/
theorem applySum_sound {c : Ctx} {pre post : List Tag} {Apost A A' : AState} {toks : List Tok}
    (hbody : ∀ R' S' st0, Gamma c (polyState pre) R' S' st0 →
      Post (execFrom c st0 toks) (Gamma c Apost R' S'))
    (hpost : Apost.le (polyState post) = true)
    (happ : applySum pre post A = some A') {R S} {st : St} (h : Gamma c A R S st) :
    Post (execFrom c st toks) (Gamma c A' R S) := by
  unfold applySum at happ
  split at happ
  · rename_i ks ht
    split at happ
    · rename_i hcond
      cases happ
      obtain ⟨items, X, hst, hseg, hsv, _, _⟩ := h
      obtain ⟨i1, i2, rfl, h1, h2⟩ := takeTags_sound ht hseg
      -- the callee's view
      have hinv : i2 ++ X ≠ [] ∨ st.saved = [] := by
        by_cases hks : ks = []
        · subst hks
          have hi2 := h2.nil_inv
          subst hi2
          simp only [List.isEmpty_nil, Bool.not_true, Bool.false_or, bne_iff_ne, ne_eq] at hcond
          cases hs : A.sv with
          | none =>
            rw [hs] at hsv
            obtain ⟨hbx, hsaved⟩ := hsv
            cases hb : A.base with
            | bottom top =>
              cases top with
              | true => exact .inr (hsaved.1 (by rw [hb]; rfl))
              | false => exact absurd hb hcond
            | nodesBelow p top =>
              rw [hb] at hbx
              exact .inl (by simpa using hbx.1)
            | rest =>
              rw [hb] at hbx hsaved
              have := hsaved.2 rfl
              simp only [BaseX] at hbx
              rcases this.2 with hR | hS
              · exact .inl (by simpa [hbx] using hR)
              · exact .inr (by rw [this.1, hS])
          | some kb =>
            obtain ⟨k0, b0⟩ := kb
            rw [hs] at hsv
            obtain ⟨hbx, htop, hop, _⟩ := hsv
            cases hb : A.base with
            | bottom top =>
              rw [hb] at htop
              simp only [Base.top] at htop
              subst htop
              exact absurd hb hcond
            | nodesBelow p top =>
              rw [hb] at hbx
              exact .inl (by simpa using hbx.1)
            | rest => rw [hb] at hop; cases hop
        · exact .inl (by
            intro hnil
            exact h2.ne_nil hks (List.append_eq_nil_iff.mp hnil).1)
      have hcallee : Gamma c (polyState pre) (i2 ++ X) st.saved st :=
        ⟨i1, i2 ++ X, by rw [hst, List.append_assoc], h1,
          ⟨rfl, ⟨(by intro h; cases h), fun _ => ⟨rfl, hinv⟩⟩⟩, (by intro h; cases h), (by intro h; cases h)⟩
      refine Post.mono (hbody _ _ _ hcallee) ?_
      intro st' hg'
      have hg'' := hg'.le hpost
      obtain ⟨items', X', hst', hseg', hsv', _, _⟩ := hg''
      obtain ⟨hX', hsaved'⟩ := hsv'
      simp only [polyState, BaseX] at hX'
      subst hX'
      have hsv_eq : st'.saved = st.saved := (hsaved'.2 rfl).1
      refine ⟨items' ++ i2, X, by rw [hst', List.append_assoc], Segs.append hseg' h2, ?_,
        (by intro h; cases h), (by intro h; cases h)⟩
      rw [hsv_eq]
      exact hsv
    · cases happ
  · cases happ

end JPV.Peg
