/-
Lemmas/PegMemo — the packrat interpreter `runM` (Peg/Memo.lean) against the plain interpreter `run` (L22, C02/C17).

Table invariant `Inv`: every stored entry is what `run` returns for the body of that rule at that position, with
some budget, and is not `outOfFuel`.  One induction on the fuel (`runM_spec`) shows, whenever `run` answers:

  (a) `runM` returns the SAME `Result` and preserves the invariant          — memoisation is transparent;
  (b) every key the evaluation adds to the table belongs to a rule body that `run` evaluates with a strictly
      smaller budget than the expression itself (`Below`) — hence the body of (x, pos) never stores (x, pos)
      (`no_self`), every miss is a NEW key, and with the potential "keys of the universe still absent":
        evals' + |absent'| ≤ evals + |absent|                                 — each (rule, position) at most once;
        steps' + Σ_absent' work(body) ≤ steps + Σ_absent work(body) + work e  — the step bound.

Consequences for the empty table: `runM_empty_eq_run`, `runM_rule_evals_le`, `runM_steps_le`.
No hypothesis on the grammar is needed: a loop body that does not advance makes `run` answer `outOfFuel`
(`star_advances`), and everything here is stated for the case that `run` answers.
-/
import JPV.Lemmas.PegMemoBase
namespace JPV.Peg
open MemoTable

variable {T : Type} [MemoTable T] {g : Grammar} {inp : Array Char}

/-- every stored entry is the answer of `run` for that rule body at that position -/
def Inv (g : Grammar) (inp : Array Char) (t : T) : Prop :=
  ∀ x q v, find? t x q = some v → v ≠ .outOfFuel ∧ ∃ f, run g f (ruleBody g x) inp q = v

theorem Inv_empty : Inv g inp (empty : T) := by
  intro x q v h; rw [find?_empty] at h; cases h

/-- cost charged to the key (x, q): the work of the body of x with the characters left at q -/
def keyWork (g : Grammar) (n : Nat) (x : String) (q : Nat) : Nat := work (ruleBody g x) (n - q)

/-- what one evaluation of `e` at `pos` does to the state -/
structure Spec (g : Grammar) (inp : Array Char) (st st' : MState T) (e : PE) (pos : Nat) : Prop where
  inv : Inv g inp st'.table
  newk : ∀ x q, find? st.table x q = none → find? st'.table x q ≠ none →
    Below g inp x q e pos ∧ (pos ≤ inp.size → (x, q) ∈ univ g inp.size)
  evals : pos ≤ inp.size →
    st'.evals + pot (fun _ _ => 1) (univ g inp.size) st'.table ≤
      st.evals + pot (fun _ _ => 1) (univ g inp.size) st.table
  steps : pos ≤ inp.size →
    st'.steps + pot (keyWork g inp.size) (univ g inp.size) st'.table ≤
      st.steps + pot (keyWork g inp.size) (univ g inp.size) st.table + work e (inp.size - pos)

theorem Spec.leaf {st : MState T} (e : PE) (pos : Nat) (hinv : Inv g inp st.table) : Spec g inp st st.tick e pos where
  inv := hinv
  newk := fun x q h h' => absurd h h'
  evals := fun _ => Nat.le_refl _
  steps := fun _ => by
    have := work_pos e (inp.size - pos)
    have h3 : st.tick.steps = st.steps + 1 := rfl
    have h4 : st.tick.table = st.table := rfl
    rw [h3, h4]
    omega

theorem Spec.lift1 {st st1 : MState T} {E a : PE} {pos q : Nat}
    (h : Spec g inp st.tick st1 a q) (hc : Calls g inp E pos a q) (hq : pos ≤ inp.size → q ≤ inp.size)
    (hw : pos ≤ inp.size → work a (inp.size - q) + 1 ≤ work E (inp.size - pos)) :
    Spec g inp st st1 E pos where
  inv := h.inv
  newk := fun x k h0 h1 =>
    have ⟨hb, hu⟩ := h.newk x k h0 h1
    ⟨hb.of_calls hc, fun hp => hu (hq hp)⟩
  evals := fun hp => h.evals (hq hp)
  steps := fun hp => by
    have h1 := h.steps (hq hp)
    have h2 := hw hp
    have h3 : st.tick.steps = st.steps + 1 := rfl
    have h4 : st.tick.table = st.table := rfl
    rw [h3, h4] at h1
    omega

theorem Spec.lift2 {st st1 st2 : MState T} {E a b : PE} {pos q q' : Nat}
    (h : Spec g inp st.tick st1 a q) (h' : Spec g inp st1 st2 b q')
    (hc : Calls g inp E pos a q) (hc' : Calls g inp E pos b q')
    (hq : pos ≤ inp.size → q ≤ inp.size) (hq' : pos ≤ inp.size → q' ≤ inp.size)
    (hw : pos ≤ inp.size → work a (inp.size - q) + work b (inp.size - q') + 1 ≤ work E (inp.size - pos)) :
    Spec g inp st st2 E pos where
  inv := h'.inv
  newk := fun x k h0 h2 => by
    cases h1 : find? st1.table x k with
    | none =>
      have ⟨hb, hu⟩ := h'.newk x k h1 h2
      exact ⟨hb.of_calls hc', fun hp => hu (hq' hp)⟩
    | some v =>
      have ⟨hb, hu⟩ := h.newk x k h0 (by rw [h1]; simp)
      exact ⟨hb.of_calls hc, fun hp => hu (hq hp)⟩
  evals := fun hp => by
    have h1 := h.evals (hq hp)
    have h2 := h'.evals (hq' hp)
    have h3 : st.tick.evals = st.evals := rfl
    have h4 : st.tick.table = st.table := rfl
    rw [h3, h4] at h1
    omega
  steps := fun hp => by
    have h1 := h.steps (hq hp)
    have h2 := h'.steps (hq' hp)
    have h5 := hw hp
    have h3 : st.tick.steps = st.steps + 1 := rfl
    have h4 : st.tick.table = st.table := rfl
    rw [h3, h4] at h1
    omega

/-- the memo miss: the body was evaluated from `st.tickEval`, its answer is stored -/
theorem Spec.store {st st1 : MState T} {x : String} {body : PE} {pos f : Nat} {r : Result}
    (hlk : g.lookup x = some body) (habs : find? st.table x pos = none)
    (h : Spec g inp st.tickEval st1 body pos)
    (hr : run g f body inp pos = r) (hne : r ≠ .outOfFuel) :
    Spec g inp st (st1.store x pos r) (.rule x) pos := by
  have hbody := ruleBody_of_lookup hlk
  have hcalls : Calls g inp (.rule x) pos body pos := hbody ▸ calls_rule x pos
  -- the body of (x, pos) has not stored (x, pos)
  have habs1 : find? st1.table x pos = none := by
    cases h1 : find? st1.table x pos with
    | none => rfl
    | some v =>
      have ⟨hb, _⟩ := h.newk x pos habs (by rw [h1]; simp)
      have : run g f body inp pos = .outOfFuel := no_self (by rw [Below, hbody] at hb; exact hb) f
      exact absurd (hr ▸ this) hne
  refine ⟨?_, ?_, ?_, ?_⟩
  · intro y k v hv
    have hv2 : (if x = y ∧ pos = k then some r else find? st1.table y k) = some v := by
      rw [← find?_insert]; exact hv
    by_cases heq : x = y ∧ pos = k
    · rw [if_pos heq] at hv2
      obtain ⟨rfl, rfl⟩ := heq
      cases hv2
      exact ⟨hne, f, by rw [hbody]; exact hr⟩
    · rw [if_neg heq] at hv2
      exact h.inv y k v hv2
  · intro y k h0 h2
    by_cases heq : x = y ∧ pos = k
    · obtain ⟨rfl, rfl⟩ := heq
      exact ⟨below_rule_self x pos, fun hp => mem_univ (lookup_mem_keys hlk) hp⟩
    · have h2' : find? st1.table y k ≠ none := by
        have : find? (insert st1.table x pos r) y k = find? st1.table y k := by
          rw [find?_insert, if_neg heq]
        rw [← this]; exact h2
      have ⟨hb, hu⟩ := h.newk y k h0 h2'
      exact ⟨hb.of_calls hcalls, hu⟩
  · intro hp
    have h1 := h.evals hp
    have h2 := pot_insert_absent (fun _ _ => 1) (univ g inp.size) st1.table x pos r
      (mem_univ (lookup_mem_keys hlk) hp) habs1
    have h3 : st.tickEval.evals = st.evals + 1 := rfl
    have h4 : st.tickEval.table = st.table := rfl
    rw [h3, h4] at h1
    show st1.evals + pot _ _ (insert st1.table x pos r) ≤ _
    omega
  · intro hp
    have h1 := h.steps hp
    have h2 := pot_insert_absent (keyWork g inp.size) (univ g inp.size) st1.table x pos r
      (mem_univ (lookup_mem_keys hlk) hp) habs1
    have h3 : st.tickEval.steps = st.steps + 1 := rfl
    have h4 : st.tickEval.table = st.table := rfl
    have h5 : keyWork g inp.size x pos = work body (inp.size - pos) := by rw [keyWork, hbody]
    rw [h3, h4] at h1
    rw [h5] at h2
    show st1.steps + pot _ _ (insert st1.table x pos r) ≤ _
    simp only [work]
    omega

/-- **runM_spec.** Whenever `run` answers, `runM` returns the same answer from any table satisfying the
    invariant, and the new state satisfies `Spec`. -/
theorem runM_spec : ∀ (f : Nat) (e : PE) (pos : Nat) (st : MState T), Inv g inp st.table →
    run g f e inp pos ≠ .outOfFuel →
    (runM g f e inp pos st).1 = run g f e inp pos ∧ Spec g inp st (runM g f e inp pos st).2 e pos := by
  intro f
  induction f with
  | zero => intro e pos st _ h; exact absurd (run_zero e pos) h
  | succ f ih =>
    intro e pos st hinv h
    have hinv' : Inv g inp st.tick.table := hinv
    cases e with
    | lit s => rw [runM_lit]; exact ⟨rfl, Spec.leaf _ pos hinv⟩
    | cls neg rs => rw [runM_cls]; exact ⟨rfl, Spec.leaf _ pos hinv⟩
    | any => rw [runM_any]; exact ⟨rfl, Spec.leaf _ pos hinv⟩
    | act i => rw [runM_act]; exact ⟨rfl, Spec.leaf _ pos hinv⟩
    | seq a b =>
      have ha := calls_seq_left a b pos f h
      obtain ⟨e1, s1⟩ := ih a pos st.tick hinv' ha
      rw [runM_seq, run_seq]
      cases hm : runM g f a inp pos st.tick with
      | mk r st1 =>
      rw [hm] at e1 s1
      simp only at e1 s1
      cases hr : run g f a inp pos with
      | outOfFuel => exact absurd hr ha
      | fail =>
        rw [hr] at e1; subst e1
        exact ⟨rfl, s1.lift1 (calls_seq_left a b pos) id (fun _ => by simp only [work]; omega)⟩
      | ok p t =>
        rw [hr] at e1; subst e1
        have hb := calls_seq_right (b := b) hr f h
        obtain ⟨e2, s2⟩ := ih b p st1 s1.inv hb
        have hpp := fun hp => run_le_size f a pos p t hp hr
        have hsp := s1.lift2 s2 (calls_seq_left a b pos) (calls_seq_right hr) id hpp
          (fun hp => by
            have := work_mono b (m := inp.size - p) (m' := inp.size - pos)
              (by have := run_pos_le f a pos p t hr; omega)
            simp only [work]; omega)
        simp only
        cases hm2 : runM g f b inp p st1 with
        | mk r2 st2 =>
        rw [hm2] at e2 hsp
        simp only at e2 hsp
        rw [← e2]
        cases r2 <;> exact ⟨rfl, hsp⟩
    | alt a b =>
      have ha := calls_alt_left a b pos f h
      obtain ⟨e1, s1⟩ := ih a pos st.tick hinv' ha
      rw [runM_alt, run_alt]
      cases hm : runM g f a inp pos st.tick with
      | mk r st1 =>
      rw [hm] at e1 s1
      simp only at e1 s1
      cases hr : run g f a inp pos with
      | outOfFuel => exact absurd hr ha
      | ok p t =>
        rw [hr] at e1; subst e1
        exact ⟨rfl, s1.lift1 (calls_alt_left a b pos) id (fun _ => by simp only [work]; omega)⟩
      | fail =>
        rw [hr] at e1; subst e1
        have hb := calls_alt_right (b := b) hr f h
        obtain ⟨e2, s2⟩ := ih b pos st1 s1.inv hb
        exact ⟨e2, s1.lift2 s2 (calls_alt_left a b pos) (calls_alt_right hr) id id
          (fun _ => by simp only [work]; omega)⟩
    | star a =>
      have ha := calls_star_body a pos f h
      obtain ⟨e1, s1⟩ := ih a pos st.tick hinv' ha
      rw [runM_star, run_star]
      cases hm : runM g f a inp pos st.tick with
      | mk r st1 =>
      rw [hm] at e1 s1
      simp only at e1 s1
      cases hr : run g f a inp pos with
      | outOfFuel => exact absurd hr ha
      | fail =>
        rw [hr] at e1; subst e1
        exact ⟨rfl, s1.lift1 (calls_star_body a pos) id (fun _ => work_star_last a _)⟩
      | ok p t =>
        rw [hr] at e1; subst e1
        have hb := calls_star_rest hr f h
        obtain ⟨e2, s2⟩ := ih (.star a) p st1 s1.inv hb
        have hpp := fun hp => run_le_size f a pos p t hp hr
        have hadv := star_advances (f + 1) h hr
        have hsp := s1.lift2 s2 (calls_star_body a pos) (calls_star_rest hr) id hpp
          (fun hp => work_star_step a hadv (hpp hp))
        simp only
        cases hm2 : runM g f (.star a) inp p st1 with
        | mk r2 st2 =>
        rw [hm2] at e2 hsp
        simp only at e2 hsp
        rw [← e2]
        cases r2 <;> exact ⟨rfl, hsp⟩
    | plus a =>
      have ha := calls_plus_body a pos f h
      obtain ⟨e1, s1⟩ := ih a pos st.tick hinv' ha
      rw [runM_plus, run_plus]
      cases hm : runM g f a inp pos st.tick with
      | mk r st1 =>
      rw [hm] at e1 s1
      simp only at e1 s1
      cases hr : run g f a inp pos with
      | outOfFuel => exact absurd hr ha
      | fail =>
        rw [hr] at e1; subst e1
        exact ⟨rfl, s1.lift1 (calls_plus_body a pos) id (fun _ => by simp only [work]; omega)⟩
      | ok p t =>
        rw [hr] at e1; subst e1
        have hb := calls_plus_rest hr f h
        obtain ⟨e2, s2⟩ := ih (.star a) p st1 s1.inv hb
        have hpp := fun hp => run_le_size f a pos p t hp hr
        have hsp := s1.lift2 s2 (calls_plus_body a pos) (calls_plus_rest hr) id hpp
          (fun _ => work_plus_step a (run_pos_le f a pos p t hr))
        simp only
        cases hm2 : runM g f (.star a) inp p st1 with
        | mk r2 st2 =>
        rw [hm2] at e2 hsp
        simp only at e2 hsp
        rw [← e2]
        cases r2 <;> exact ⟨rfl, hsp⟩
    | opt a =>
      have ha := calls_opt a pos f h
      obtain ⟨e1, s1⟩ := ih a pos st.tick hinv' ha
      rw [runM_opt, run_opt]
      cases hm : runM g f a inp pos st.tick with
      | mk r st1 =>
      rw [hm] at e1 s1
      simp only at e1 s1
      have hsp := s1.lift1 (calls_opt a pos) id (fun _ => by simp only [work]; omega)
      rw [← e1]
      cases r <;> exact ⟨rfl, hsp⟩
    | not a =>
      have ha := calls_not a pos f h
      obtain ⟨e1, s1⟩ := ih a pos st.tick hinv' ha
      rw [runM_not, run_not]
      cases hm : runM g f a inp pos st.tick with
      | mk r st1 =>
      rw [hm] at e1 s1
      simp only at e1 s1
      have hsp := s1.lift1 (calls_not a pos) id (fun _ => by simp only [work]; omega)
      rw [← e1]
      cases r <;> exact ⟨rfl, hsp⟩
    | and a =>
      have ha := calls_and a pos f h
      obtain ⟨e1, s1⟩ := ih a pos st.tick hinv' ha
      rw [runM_and, run_and]
      cases hm : runM g f a inp pos st.tick with
      | mk r st1 =>
      rw [hm] at e1 s1
      simp only at e1 s1
      have hsp := s1.lift1 (calls_and a pos) id (fun _ => by simp only [work]; omega)
      rw [← e1]
      cases r <;> exact ⟨rfl, hsp⟩
    | cap a =>
      have ha := calls_cap a pos f h
      obtain ⟨e1, s1⟩ := ih a pos st.tick hinv' ha
      rw [runM_cap, run_cap]
      cases hm : runM g f a inp pos st.tick with
      | mk r st1 =>
      rw [hm] at e1 s1
      simp only at e1 s1
      have hsp := s1.lift1 (calls_cap a pos) id (fun _ => by simp only [work]; omega)
      rw [← e1]
      cases r <;> exact ⟨rfl, hsp⟩
    | rule x =>
      rw [runM_rule, run_rule]
      rw [run_rule] at h
      cases hlk : g.lookup x with
      | none =>
        simp only
        rw [ruleBody_of_lookup_none hlk] at h ⊢
        refine ⟨?_, Spec.leaf _ pos hinv⟩
        cases f with
        | zero => exact absurd (run_zero _ pos) h
        | succ f' => rw [run_cls]; cases inp[pos]? <;> rfl
      | some body =>
        have hbody := ruleBody_of_lookup hlk
        rw [hbody] at h ⊢
        simp only
        cases hfd : find? st.table x pos with
        | some v =>
          simp only
          obtain ⟨hv, f0, hf0⟩ := hinv x pos v hfd
          rw [hbody] at hf0
          exact ⟨(run_eq_of hf0 hv h).symm, Spec.leaf _ pos hinv⟩
        | none =>
          simp only
          have hinv2 : Inv g inp st.tickEval.table := hinv
          obtain ⟨e1, s1⟩ := ih body pos st.tickEval hinv2 h
          cases hm : runM g f body inp pos st.tickEval with
          | mk r st1 =>
          rw [hm] at e1 s1
          simp only at e1 s1
          have hne : r ≠ .outOfFuel := by rw [e1]; exact h
          have hsp := Spec.store hlk hfd s1 e1.symm hne
          rw [← e1]
          cases r with
          | outOfFuel => exact absurd rfl hne
          | fail => exact ⟨rfl, hsp⟩
          | ok p t => exact ⟨rfl, hsp⟩

/-! ### (a) memoisation is transparent -/

/-- **runM_eq_run.** From a table in which every entry is the answer of `run` for that rule at that position,
    `runM` returns what `run` returns (whenever `run` answers within the budget), and the new table satisfies
    the invariant again. -/
theorem runM_eq_run (f : Nat) (e : PE) (pos : Nat) (st : MState T) (hinv : Inv g inp st.table)
    (h : run g f e inp pos ≠ .outOfFuel) :
    (runM g f e inp pos st).1 = run g f e inp pos ∧ Inv g inp (runM g f e inp pos st).2.table :=
  have ⟨h1, h2⟩ := runM_spec f e pos st hinv h
  ⟨h1, h2.inv⟩

/-- **runM_empty_eq_run.** Started with the empty table, the packrat interpreter returns what the plain one returns. -/
theorem runM_empty_eq_run (f : Nat) (e : PE) (pos : Nat) (h : run g f e inp pos ≠ .outOfFuel) :
    (runM g f e inp pos (MState.init : MState T)).1 = run g f e inp pos :=
  (runM_eq_run f e pos _ Inv_empty h).1

/-- the budget does not matter either, once it suffices for `run` -/
theorem runM_empty_eq_run_of_le {f f' : Nat} (e : PE) (pos : Nat) (hle : f ≤ f')
    (h : run g f e inp pos ≠ .outOfFuel) :
    (runM g f' e inp pos (MState.init : MState T)).1 = run g f e inp pos := by
  have h' : run g f' e inp pos = run g f e inp pos := run_mono e pos hle h
  rw [← h']
  exact runM_empty_eq_run f' e pos (by rw [h']; exact h)

/-! ### (b) the packrat bound -/

/-- **runM_rule_evals_le.** From the empty table, `runM` evaluates at most (number of rules)·(n+1) rule bodies:
    every (rule, position) at most once. -/
theorem runM_rule_evals_le (f : Nat) (e : PE) (pos : Nat) (hpos : pos ≤ inp.size)
    (h : run g f e inp pos ≠ .outOfFuel) :
    (runM g f e inp pos (MState.init : MState T)).2.evals ≤ g.length * (inp.size + 1) := by
  have h1 := (runM_spec f e pos (MState.init : MState T) Inv_empty h).2.evals hpos
  have h2 : pot (fun _ _ => 1) (univ g inp.size) (MState.init : MState T).table = g.length * (inp.size + 1) := by
    show pot _ _ (empty : T) = _
    rw [pot_empty, sum_const_one, length_univ]
  have h3 : (MState.init : MState T).evals = 0 := rfl
  rw [h2, h3] at h1
  omega

theorem sum_keyWork (g : Grammar) (n : Nat) :
    ((univ g n).map fun k => keyWork g n k.1 k.2).sum = tableWork g n := by
  rw [sum_univ]; rfl

/-- **runM_steps_le.** From the empty table, the number of interpreter calls is at most
    `stepBound g e n = work e n + Σ_{rules, positions} work(body)`. -/
theorem runM_steps_le (f : Nat) (e : PE) (h : run g f e inp 0 ≠ .outOfFuel) :
    (runM g f e inp 0 (MState.init : MState T)).2.steps ≤ stepBound g e inp.size := by
  have h1 := (runM_spec f e 0 (MState.init : MState T) Inv_empty h).2.steps (Nat.zero_le _)
  have h2 : pot (keyWork g inp.size) (univ g inp.size) (MState.init : MState T).table = tableWork g inp.size := by
    show pot _ _ (empty : T) = _
    rw [pot_empty, sum_keyWork]
  have h3 : (MState.init : MState T).steps = 0 := rfl
  rw [h2, h3, Nat.sub_zero] at h1
  unfold stepBound
  omega

end JPV.Peg
