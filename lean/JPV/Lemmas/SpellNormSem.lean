/-
SpellNormSem — evaluation ignores the `omitted` flag of slice STEPS.

`normCh` (SpellNormDefs) clears the flag everywhere in a tree.  No evaluation function reads it
(`Impl.subIndexes` reads `t.number` only), so well-formedness (`wfChain`) and the denotation (`TSem.den`)
are invariant under `normCh`, and the refinement theorem C01 holds for every tree `ch` whose
normal form is what `Build.build` returns.
-/
import JPV.Lemmas.SpellNormDefs
import JPV.Props.C01
namespace JPV.SP
open JPV JPV.Peg Impl TSem

/-! ### leaves -/

theorem subIndexes_norm (s : SubI) (len : Nat) : subIndexes (normSub s) len = subIndexes s len := by
  cases s <;> rfl

theorem subIndexes_norm_fun (len : Nat) :
    (fun s => subIndexes (normSub s) len) = (fun s => subIndexes s len) :=
  funext (fun s => subIndexes_norm s len)

theorem flatMap_map_normSub (subs : List SubI) (len : Nat) :
    (subs.map normSub).flatMap (fun s => subIndexes s len) = subs.flatMap (fun s => subIndexes s len) := by
  rw [List.flatMap_map]
  rw [subIndexes_norm_fun]

theorem info_normN (n : N) : (normN n).info = n.info := by
  cases n <;> simp only [normN, N.info]

theorem chainVg_norm (ch : List N) : chainVg (normCh ch) = chainVg ch := by
  cases ch with
  | nil => simp only [normCh]
  | cons n rest => simp only [normCh, chainVg, info_normN]

theorem singleNode_norm (n : N) : singleNode (normN n) = singleNode n := by
  cases n with
  | union i subs =>
    simp only [normN]
    cases subs with
    | nil => rfl
    | cons s rest =>
      cases rest with
      | nil => cases s <;> simp only [List.map, normSub, singleNode]
      | cons s2 rest2 => cases s <;> rfl
  | _ => simp only [normN, singleNode]

theorem singleChain_norm : ∀ (ch : List N), singleChain (normCh ch) = singleChain ch
  | [] => by simp only [normCh]
  | n :: rest => by simp only [normCh, singleChain, singleNode_norm, singleChain_norm rest]

theorem singleP_norm (p : P) : singleP (normP p) = singleP p := by
  cases p <;> simp only [normP, singleP, singleChain_norm]

theorem isPcur_norm (p : P) : isPcur (normP p) = isPcur p := by
  cases p <;> simp only [normP, isPcur]

/-! ### well-formedness -/

mutual
theorem wfChain_norm' (env : Env) : ∀ (ch : List N), wfChain env (normCh ch) = wfChain env ch
  | [] => by simp only [normCh]
  | n :: rest => by simp only [normCh, wfChain, wfN_norm env n, wfChain_norm' env rest]
theorem wfN_norm (env : Env) : ∀ (n : N), wfN env (normN n) = wfN env n
  | .root i => by simp only [normN]
  | .cur i => by simp only [normN]
  | .child i k => by simp only [normN]
  | .wild i => by simp only [normN]
  | .multi i ids t => by simp only [normN]
  | .desc i a b => by simp only [normN]
  | .union i s => by simp only [normN, wfN]
  | .filter i q => by simp only [normN, wfN, wfQ_norm env q]
  | .ffn i n => by simp only [normN]
  | .afn i n p => by simp only [normN, wfN, wfChain_norm' env p]
theorem wfQ_norm (env : Env) : ∀ (q : Q), wfQ env (normQ q) = wfQ env q
  | .or a b => by simp only [normQ, wfQ, wfQ_norm env a, wfQ_norm env b]
  | .and a b => by simp only [normQ, wfQ, wfQ_norm env a, wfQ_norm env b]
  | .not a => by simp only [normQ, wfQ, wfQ_norm env a]
  | .exist p => by simp only [normQ, wfQ, wfP_norm env p]
  | .cmp l r c => by
    simp only [normQ, wfQ, wfP_norm env l, wfP_norm env r, singleP_norm, isPcur_norm]
theorem wfP_norm (env : Env) : ∀ (p : P), wfP env (normP p) = wfP env p
  | .lit v => by simp only [normP]
  | .proot ch => by simp only [normP, wfP, wfChain_norm' env ch]
  | .pcur ch => by simp only [normP, wfP, wfChain_norm' env ch]
end

theorem wfChain_norm (env : Env) (ch : List N) : wfChain env (normCh ch) = wfChain env ch :=
  wfChain_norm' env ch

/-! ### denotation -/

mutual
theorem den_norm' (env : Env) : ∀ (ch : List N) (root cur : Val),
    den env (normCh ch) root cur = den env ch root cur
  | [], _, _ => by simp only [normCh]
  | .root i :: rest, root, cur => by simp only [normCh, normN, den, den_norm' env rest]
  | .cur i :: rest, root, cur => by simp only [normCh, normN, den, den_norm' env rest]
  | .child i k :: rest, root, cur => by simp only [normCh, normN, den, den_norm' env rest]
  | .wild i :: rest, root, cur => by simp only [normCh, normN, den, den_norm' env rest]
  | .multi i ids t :: rest, root, cur => by simp only [normCh, normN, den, den_norm' env rest]
  | .desc i a b :: rest, root, cur => by simp only [normCh, normN, den, den_norm' env rest]
  | .union i s :: rest, root, cur => by
    simp only [normCh, normN, den, den_norm' env rest, flatMap_map_normSub]
  | .filter i q :: rest, root, cur => by
    simp only [normCh, normN, den, den_norm' env rest, semQ_norm env q]
  | .ffn i n :: rest, root, cur => by simp only [normCh, normN, den, den_norm' env rest]
  | .afn i n p :: rest, root, cur => by
    simp only [normCh, normN, den, den_norm' env rest, den_norm' env p, chainVg_norm]
theorem semQ_norm (env : Env) : ∀ (q : Q) (root : Val) (ms : List Val),
    semQ env (normQ q) root ms = semQ env q root ms
  | .or a b, root, ms => by simp only [normQ, semQ, semQ_norm env a, semQ_norm env b]
  | .and a b, root, ms => by simp only [normQ, semQ, semQ_norm env a, semQ_norm env b]
  | .not a, root, ms => by simp only [normQ, semQ, semQ_norm env a]
  | .exist p, root, ms => by simp only [normQ, semQ, pden_norm env p]
  | .cmp l r c, root, ms => by simp only [normQ, semQ, pden_norm env l, pden_norm env r]
theorem pden_norm (env : Env) : ∀ (p : P) (root : Val) (ms : List Val),
    pden env (normP p) root ms = pden env p root ms
  | .lit v, _, _ => by simp only [normP]
  | .proot ch, root, ms => by simp only [normP, pden, den_norm' env ch]
  | .pcur ch, root, ms => by simp only [normP, pden, den_norm' env ch]
end

theorem den_norm (env : Env) (ch : List N) (root cur : Val) :
    TSem.den env (normCh ch) root cur = TSem.den env ch root cur :=
  den_norm' env ch root cur

/-! ### the refinement theorem for a tree that is a built tree up to the flag -/

theorem refines_of_norm (env : Env) (cfg : Cfg) (p : Path) (ch : List N) (d : Val)
    (hb : Build.build env cfg p = .ok (normCh ch)) (hd : d.wf = true) :
    (∃ vs rs st, Spec.run env p d = some vs ∧ Impl.run env ch d = (.ok rs, st) ∧ rs.map Impl.Res.val = vs ∧ vs ≠ []) ∨
    (∃ e st, Spec.run env p d = none ∧ Impl.run env ch d = (.err e, st)) := by
  have hwf0 : wfChain env (normCh ch) = true := C01Build.build_wf env cfg true p (normCh ch) hb
  have hwf : wfChain env ch = true := by rw [← wfChain_norm env ch]; exact hwf0
  have hspec0 := C01Build.C01_build env cfg p (normCh ch) d hb hd
  have hspec : TSem.run env ch d = Spec.run env p d := by
    rw [← hspec0]
    unfold TSem.run
    rw [den_norm env ch d d]
  rcases run_refines env ch hwf d with ⟨rs, st, h1, hv, hne, _⟩ | ⟨e, st, h1, hdn, _⟩
  · left
    have hden : den env ch d d ≠ [] := by
      intro h0
      rw [h0] at hv
      simp at hv
      exact hne hv
    refine ⟨den env ch d d, rs, st, ?_, h1, hv, hden⟩
    rw [← hspec]
    unfold TSem.run
    cases hh : den env ch d d with
    | nil => exact absurd hh hden
    | cons a b => rfl
  · right
    refine ⟨e, st, ?_, h1⟩
    rw [← hspec]
    unfold TSem.run
    rw [hdn]

end JPV.SP
