/-
ParsePrintSimRec — the mutual structural recursion of the action side: every construct of a
well-formed abstract path is simulated (`StepSim`, `QSim`, `OperandSim`, `ParamSim`), and with the
recogniser theorem `recognise_print_wf` the agreement of `parseModel` with `Build.build` on the whole
domain of the printer.
-/
import JPV.Lemmas.ParsePrintSimTop
import JPV.Lemmas.ParsePrintActQ
import JPV.Lemmas.ParsePrintRecF
namespace JPV.PP
open JPV.Peg JPV.Print JPV.Lex JPV.Build

mutual
theorem sim_step (c : Ctx) (cfg : Cfg) : (s : Step) → (ad : Bool) → stepWf ad s = true → stepExt c.ext s →
    stepEnv c.env s → StepSim c cfg ad s
  | .child t k, ad, hwf, hext, _ =>
    sim_step_plain c cfg ad _ (by intro s' h; cases h) rfl hwf (by rw [stepExt] at hext; exact hext)
  | .wild t, ad, hwf, _, _ =>
    sim_step_plain c cfg ad _ (by intro s' h; cases h) rfl hwf trivial
  | .multi t ns, ad, hwf, hext, _ =>
    sim_step_plain c cfg ad _ (by intro s' h; cases h) rfl hwf (by rw [stepExt] at hext; exact hext)
  | .union t ss, ad, hwf, hext, _ =>
    sim_step_plain c cfg ad _ (by intro s' h; cases h) rfl hwf (by rw [stepExt] at hext; exact hext)
  | .filter t q, ad, hwf, hext, henv =>
    sim_step_filter c cfg ad t q
      (sim_query c cfg q (by rw [stepWf] at hwf; exact hwf) (by rw [stepExt] at hext; exact hext)
        (by rw [stepEnv] at henv; exact henv))
  | .desc s, true, hwf, _, _ => by simp [stepWf] at hwf
  | .desc s, false, hwf, hext, henv =>
    have hwf1 : stepWf true s = true := by simpa [stepWf] using hwf
    have hnd : ∀ s', s ≠ .desc s' := by
      intro s' he; subst he; simp [stepWf] at hwf1
    sim_step_desc c cfg s hnd
      (sim_step c cfg s true hwf1 (by rw [stepExt] at hext; exact hext) (by rw [stepEnv] at henv; exact henv))
theorem sim_steps (c : Ctx) (cfg : Cfg) : (ss : List Step) → stepsWf ss = true → stepsExt c.ext ss →
    stepsEnv c.env ss → ∀ s ∈ ss, StepSim c cfg false s
  | [], _, _, _ => fun _ hs => by cases hs
  | s :: ss, hwf, hext, henv =>
    have hwf' : stepWf false s = true ∧ stepsWf ss = true := by simpa [stepsWf] using hwf
    have hext' : stepExt c.ext s ∧ stepsExt c.ext ss := by rw [stepsExt] at hext; exact hext
    have henv' : stepEnv c.env s ∧ stepsEnv c.env ss := by rw [stepsEnv] at henv; exact henv
    fun x hx => (List.mem_cons.mp hx).elim (fun e => e ▸ sim_step c cfg s false hwf'.1 hext'.1 henv'.1)
      (fun hx => sim_steps c cfg ss hwf'.2 hext'.2 henv'.2 x hx)
theorem sim_query (c : Ctx) (cfg : Cfg) : (q : Query) → queryWf q = true → queryExt c.ext q →
    queryEnv c.env q → QSim c cfg q
  | .or a b, hwf, hext, henv =>
    have hwf' : queryWf a = true ∧ queryWf b = true := by simpa [queryWf] using hwf
    have hext' : queryExt c.ext a ∧ queryExt c.ext b := by rw [queryExt] at hext; exact hext
    have henv' : queryEnv c.env a ∧ queryEnv c.env b := by rw [queryEnv] at henv; exact henv
    sim_or c cfg a b (sim_query c cfg a hwf'.1 hext'.1 henv'.1) (sim_query c cfg b hwf'.2 hext'.2 henv'.2)
  | .and a b, hwf, hext, henv =>
    have hwf' : queryWf a = true ∧ queryWf b = true := by simpa [queryWf] using hwf
    have hext' : queryExt c.ext a ∧ queryExt c.ext b := by rw [queryExt] at hext; exact hext
    have henv' : queryEnv c.env a ∧ queryEnv c.env b := by rw [queryEnv] at henv; exact henv
    sim_and c cfg a b (sim_query c cfg a hwf'.1 hext'.1 henv'.1) (sim_query c cfg b hwf'.2 hext'.2 henv'.2)
  | .exist neg p, hwf, hext, henv =>
    sim_exist c cfg neg p (sim_param c cfg p (by rw [queryWf] at hwf; exact hwf)
      (by rw [queryExt] at hext; exact hext) (by rw [queryEnv] at henv; exact henv))
  | .cmp op l r, hwf, hext, henv =>
    have hwf' : operandWf (isOrd op) l = true ∧ operandWf (isOrd op) r = true := by simpa [queryWf] using hwf
    have hext' : operandExt c.ext l ∧ operandExt c.ext r := by rw [queryExt] at hext; exact hext
    have henv' : operandEnv c.env l ∧ operandEnv c.env r := by rw [queryEnv] at henv; exact henv
    sim_cmp c cfg op l r (sim_operand c cfg l _ hwf'.1 hext'.1 henv'.1) (sim_operand c cfg r _ hwf'.2 hext'.2 henv'.2)
  | .regex p re, hwf, hext, henv =>
    have hwf' : pathWf p = true ∧ regexOK re = true := by simpa [queryWf] using hwf
    have hext' : pathExt c.ext p ∧ c.ext.regexCompile re = .ok := by rw [queryExt] at hext; exact hext
    sim_regex c cfg p re (sim_param c cfg p hwf'.1 hext'.1 (by rw [queryEnv] at henv; exact henv)) hwf'.2 hext'.2
theorem sim_operand (c : Ctx) (cfg : Cfg) : (o : Operand) → (ord : Bool) → operandWf ord o = true →
    operandExt c.ext o → operandEnv c.env o → OperandSim c cfg o
  | .lit l, _, _, hext, _ => sim_operand_lit c cfg l (by rw [operandExt] at hext; exact hext)
  | .path p, _, hwf, hext, henv =>
    sim_operand_path c cfg p (sim_param c cfg p (by rw [operandWf] at hwf; exact hwf)
      (by rw [operandExt] at hext; exact hext) (by rw [operandEnv] at henv; exact henv))
theorem sim_param (c : Ctx) (cfg : Cfg) : (p : Path) → pathWf p = true → pathExt c.ext p → pathEnv c.env p →
    ParamSim c cfg p
  | .mk h ss fns, hwf, hext, henv =>
    have hwf' : stepsWf ss = true ∧ fns.all fnNameOK = true := by simpa [pathWf] using hwf
    have henv' : stepsEnv c.env ss ∧ ∀ f ∈ fns, fnKindOK c.env f := by rw [pathEnv] at henv; exact henv
    paramSim_of c cfg h ss fns (sim_steps c cfg ss hwf'.1 (by rw [pathExt] at hext; exact hext) henv'.1) henv'.2
end

/-- **parse ∘ print = build**, exactly: on the whole domain of the printer `Parse` answers the chain
    `Build.build` answers, or the error `Build.build` answers — a syntax error at rune `errPos` -/
theorem parse_print_exact (env : Env) (ext : Ext) (cfg : Cfg) (ss : List Step) (fns : List Fn)
    (hwf : pathWf (.mk .root ss fns) = true) (hext : ExtOK ext (.mk .root ss fns))
    (henv : EnvOK env (.mk .root ss fns)) :
    parseModel env ext cfg (printS (.mk .root ss fns)) = expected env cfg (.mk .root ss fns) := by
  have hwf' := hwf
  rw [pathWf, Bool.and_eq_true] at hwf'
  have hext' : stepsExt ext ss := by
    have := hext; unfold ExtOK at this; rw [pathExt] at this; exact this
  have henv' : stepsEnv env ss ∧ ∀ f ∈ fns, fnKindOK env f := by
    have := henv; unfold EnvOK at this; rw [pathEnv] at this; exact this
  exact parse_print_exact_of_sim env ext cfg ss fns (recognise_print_wf ss fns hwf)
    (sim_steps ⟨env, ext, cfg.accessor, (print (.mk .root ss fns)).toArray⟩ cfg ss hwf'.1 hext' henv'.1) henv'.2

/-- **parse ∘ print = build** on the whole domain of the printer -/
theorem parse_print_all (env : Env) (ext : Ext) (cfg : Cfg) (ss : List Step) (fns : List Fn)
    (hwf : pathWf (.mk .root ss fns) = true) (hext : ExtOK ext (.mk .root ss fns))
    (henv : EnvOK env (.mk .root ss fns)) :
    Agree (Build.build env cfg (texts (.mk .root ss fns)))
      (parseModel env ext cfg (printS (.mk .root ss fns))) := by
  rw [parse_print_exact env ext cfg ss fns hwf hext henv]
  exact agree_expected env cfg _

/-- the reason of the syntax error `Parse` returns for an error of `Build` -/
def reasonOf : ParseErr → Reason
  | .valueGroupOperand => .filterValueGroup
  | _ => .twoCurrentNode

/-- a syntax error of `Build` on the recorded texts is the syntax error of `Parse` on the printed path
    with that reason, at rune `errPos` of the printed path, `near` = the printed path from there on -/
theorem parse_print_syntaxErr (env : Env) (ext : Ext) (cfg : Cfg) (ss : List Step) (fns : List Fn)
    (hwf : pathWf (.mk .root ss fns) = true) (hext : ExtOK ext (.mk .root ss fns))
    (henv : EnvOK env (.mk .root ss fns)) (e : ParseErr)
    (he : e = .valueGroupOperand ∨ e = .twoCurrentNodes)
    (hb : Build.build env cfg (texts (.mk .root ss fns)) = .error e) :
    parseModel env ext cfg (printS (.mk .root ss fns)) =
      .syntaxErr (errPos env cfg (.mk .root ss fns))
        (reasonOf e).msg
        (String.ofList ((print (.mk .root ss fns)).drop (errPos env cfg (.mk .root ss fns)))) := by
  rw [parse_print_exact env ext cfg ss fns hwf hext henv, expected, hb]
  rcases he with rfl | rfl <;>
    simp only [outcomeOfBuild, stopOf, outcomeOfStop, nearOf, reasonOf]

/-- a value-group path as an operand of a comparison -/
theorem parse_print_valueGroup (env : Env) (ext : Ext) (cfg : Cfg) (ss : List Step) (fns : List Fn)
    (hwf : pathWf (.mk .root ss fns) = true) (hext : ExtOK ext (.mk .root ss fns))
    (henv : EnvOK env (.mk .root ss fns))
    (hb : Build.build env cfg (texts (.mk .root ss fns)) = .error .valueGroupOperand) :
    parseModel env ext cfg (printS (.mk .root ss fns)) =
      .syntaxErr (errPos env cfg (.mk .root ss fns)) "JSONPath that returns a value group is prohibited"
        (String.ofList ((print (.mk .root ss fns)).drop (errPos env cfg (.mk .root ss fns)))) :=
  parse_print_syntaxErr env ext cfg ss fns hwf hext henv _ (.inl rfl) hb

/-- a comparison of two `@`-paths -/
theorem parse_print_twoCurrentNodes (env : Env) (ext : Ext) (cfg : Cfg) (ss : List Step) (fns : List Fn)
    (hwf : pathWf (.mk .root ss fns) = true) (hext : ExtOK ext (.mk .root ss fns))
    (henv : EnvOK env (.mk .root ss fns))
    (hb : Build.build env cfg (texts (.mk .root ss fns)) = .error .twoCurrentNodes) :
    parseModel env ext cfg (printS (.mk .root ss fns)) =
      .syntaxErr (errPos env cfg (.mk .root ss fns)) "comparison between two current nodes is prohibited"
        (String.ofList ((print (.mk .root ss fns)).drop (errPos env cfg (.mk .root ss fns)))) :=
  parse_print_syntaxErr env ext cfg ss fns hwf hext henv _ (.inr rfl) hb

end JPV.PP
