/-
ParsePrintRecA — recogniser lemmas, part A: integers, subscripts, unions.
Each lemma: on an input that continues with the plainest spelling of a construct followed by a
"stopper", the regenerated rule accepts exactly that spelling and yields the tokens of
ParsePrintToks, with fuel `C + 32 * length`.
-/
import JPV.Lemmas.ParsePrintToks
namespace JPV.PP
open JPV.Peg JPV.Print JPV.Lex

variable {inp : Array Char}

/-! ### first characters -/

/-- the list starts with a character satisfying `P` -/
def startsWith (P : Char → Bool) : List Char → Bool
  | [] => false
  | c :: _ => P c

theorem startsWith_cons (P : Char → Bool) (c : Char) (l : List Char) : startsWith P (c :: l) = P c := rfl

theorem startsWith_append_cons (P : Char → Bool) (c : Char) (l r : List Char) :
    startsWith P ((c :: l) ++ r) = P c := rfl

theorem startsWith_false_of_imp {P Q : Char → Bool} (h : ∀ c, Q c = true → P c = true) {l : List Char}
    (hl : startsWith P l = false) : startsWith Q l = false := by
  cases l with
  | nil => rfl
  | cons c r =>
    simp only [startsWith] at hl ⊢
    cases hq : Q c with
    | false => rfl
    | true => rw [h c hq] at hl; cases hl

theorem startsWith_of_true {P Q : Char → Bool} (h : ∀ c, P c = true → Q c = true) {l : List Char}
    (hl : startsWith P l = true) : startsWith Q l = true := by
  cases l with
  | nil => cases hl
  | cons c r => exact h c hl

theorem startsWith_false_of_true {P Q : Char → Bool} (h : ∀ c, P c = true → Q c = false) {l : List Char}
    (hl : startsWith P l = true) : startsWith Q l = false := by
  cases l with
  | nil => cases hl
  | cons c r => exact h c hl

/-- no blank in front -/
def NoSp (l : List Char) : Prop := [' '].isPrefixOf l = false

theorem noSp_iff (l : List Char) : NoSp l ↔ startsWith (fun c => c == ' ') l = false := by
  cases l with
  | nil => simp [NoSp, startsWith]
  | cons c r =>
    simp only [NoSp, startsWith, List.isPrefixOf, Bool.and_true]
    by_cases hc : c = ' '
    · subst hc; simp
    · have h1 : (' ' == c) = false := by simp; exact fun h => hc h.symm
      have h2 : (c == ' ') = false := by simp [hc]
      simp [h1, h2]

theorem noSp_of {P : Char → Bool} (hP : P ' ' = true) {l : List Char} (h : startsWith P l = false) : NoSp l := by
  rw [noSp_iff]
  refine startsWith_false_of_imp ?_ h
  intro c hc
  have : c = ' ' := by simpa using hc
  rw [this]; exact hP

theorem noSp_of_true {P : Char → Bool} (hP : P ' ' = false) {l : List Char} (h : startsWith P l = true) : NoSp l := by
  rw [noSp_iff]
  refine startsWith_false_of_true ?_ h
  intro c hc
  cases hx : (c == ' ') with
  | false => rfl
  | true =>
    have : c = ' ' := by simpa using hx
    rw [this, hP] at hc; cases hc

theorem noSp_cons {c : Char} (hc : c ≠ ' ') (l : List Char) : NoSp (c :: l) := by
  rw [noSp_iff]; simp [startsWith, hc]

/-- a literal is rejected when the input does not start with its first character -/
theorem not_prefix_of_startsWith (c : Char) (cs : List Char) {l : List Char}
    (h : startsWith (fun d => d == c) l = false) : (c :: cs).isPrefixOf l = false := by
  cases l with
  | nil => rfl
  | cons d r =>
    simp only [startsWith] at h
    simp only [List.isPrefixOf]
    have : (c == d) = false := by
      rw [Bool.eq_false_iff] at h ⊢
      intro hcd; apply h; simp at hcd ⊢; exact hcd.symm
    rw [this]; rfl

/-! ### `space`, single-character literals -/

theorem space_body : ruleBody Gen.grammar "space" = .star (.lit " ") := rfl

theorem acc_space {p : Nat} {l : List Char} (h : Sfx inp p l) (hl : NoSp l) :
    Acc 3 (.rule "space") inp p p [] :=
  Acc.rule "space" space_body (Acc.star_nil (rej_lit " " [' '] rfl h hl))

/-- a one-character literal -/
theorem acc_lit1 (s : String) (c : Char) (hs : s.toList = [c]) {p : Nat} {r : List Char}
    (h : Sfx inp p (c :: r)) : Acc 1 (.lit s) inp p (p + 1) [] :=
  acc_lit s [c] hs (r := r) h

theorem rej_lit1 (s : String) (c : Char) (cs : List Char) (hs : s.toList = c :: cs) {p : Nat} {l : List Char}
    (h : Sfx inp p l) (hl : startsWith (fun d => d == c) l = false) : Rej 1 (.lit s) inp p :=
  rej_lit s (c :: cs) hs h (not_prefix_of_startsWith c cs hl)

/-! ### character classes of the grammar -/

def isDigit (c : Char) : Bool := decide (48 ≤ c.toNat) && decide (c.toNat ≤ 57)

def isSignChar (c : Char) : Bool := c == '-' || c == '+'

/-- what an `indexNumber` can start with -/
def isNumStart (c : Char) : Bool := isDigit c || isSignChar c

theorem inRanges_digit (c : Char) : inRanges c [(Char.ofNat 48, Char.ofNat 57)] = isDigit c := by
  simp [inRanges, isDigit]

theorem inRanges_pm (c : Char) :
    inRanges c [(Char.ofNat 45, Char.ofNat 45), (Char.ofNat 43, Char.ofNat 43)] = isSignChar c := by
  simp only [inRanges, isSignChar]
  rw [Bool.eq_iff_iff]
  simp only [Bool.or_eq_true, Bool.and_eq_true, decide_eq_true_eq, beq_iff_eq, Bool.or_false,
    ← Char.toNat_inj]
  have h1 : (Char.ofNat 45).toNat = 45 := by decide
  have h2 : (Char.ofNat 43).toNat = 43 := by decide
  have h3 : ('-' : Char).toNat = 45 := by decide
  have h4 : ('+' : Char).toNat = 43 := by decide
  simp only [h1, h2, h3, h4]
  omega

theorem rej_cls_of (neg : Bool) (rs : List (Char × Char)) {p : Nat} {l : List Char} (h : Sfx inp p l)
    (hl : startsWith (fun c => inRanges c rs != neg) l = false) : Rej 1 (.cls neg rs) inp p := by
  cases l with
  | nil => exact rej_cls_nil neg rs h
  | cons c r => exact rej_cls neg rs h hl

theorem not_sign_of_digit (c : Char) (h : isDigit c = true) : isSignChar c = false := by
  simp only [isSignChar, Bool.or_eq_false_iff, beq_eq_false_iff_ne, ne_eq]
  constructor <;> (intro hc; subst hc; revert h; decide)

/-! ### digits -/

theorem digit_of_lt : ∀ d, d < 10 → isDigit (Char.ofNat (48 + d)) = true := by decide

theorem natDigitsAux_spec : ∀ (fuel n : Nat) (acc : List Char), (∀ c ∈ acc, isDigit c = true) →
    (fuel = 0 → acc ≠ []) →
    (∀ c ∈ natDigitsAux fuel n acc, isDigit c = true) ∧ natDigitsAux fuel n acc ≠ [] := by
  intro fuel
  induction fuel with
  | zero => intro n acc h hne; exact ⟨h, hne rfl⟩
  | succ fuel ih =>
    intro n acc h _
    have hd : isDigit (Char.ofNat (48 + n % 10)) = true := digit_of_lt _ (Nat.mod_lt _ (by decide))
    have hacc : ∀ c ∈ Char.ofNat (48 + n % 10) :: acc, isDigit c = true := by
      intro c hc
      rcases List.mem_cons.mp hc with rfl | hc
      · exact hd
      · exact h c hc
    unfold natDigitsAux
    split
    · exact ⟨hacc, by simp⟩
    · exact ih _ _ hacc (fun _ => by simp)

theorem natDigits_digits (n : Nat) : ∀ c ∈ natDigits n, isDigit c = true :=
  (natDigitsAux_spec (n + 1) n [] (by simp) (by simp)).1

theorem natDigits_ne_nil (n : Nat) : natDigits n ≠ [] :=
  (natDigitsAux_spec (n + 1) n [] (by simp) (by simp)).2

/-- `[0-9]*` over a run of digits -/
theorem acc_star_digits : ∀ (ds : List Char) {p : Nat} {r : List Char}, (∀ c ∈ ds, isDigit c = true) →
    Sfx inp p (ds ++ r) → startsWith isDigit r = false →
    Acc (2 + 32 * ds.length) (.star (.cls false [(Char.ofNat 48, Char.ofNat 57)])) inp p (p + ds.length) [] := by
  intro ds
  induction ds with
  | nil =>
    intro p r _ h hr
    refine (Acc.star_nil (rej_cls_of false _ h ?_)).mono (by simp)
    simpa [inRanges_digit] using hr
  | cons d ds ih =>
    intro p r hd h hr
    have h1 : Acc 1 (.cls false [(Char.ofNat 48, Char.ofNat 57)]) inp p (p + 1) [] :=
      acc_cls false _ h (by rw [inRanges_digit, hd d (by simp)]; rfl)
    have h2 := ih (fun c hc => hd c (by simp [hc])) h.tail hr
    refine ((Acc.star_cons h1 h2).mono ?_).cast ?_ rfl
    · simp only [List.length_cons]; omega
    · simp only [List.length_cons]; omega

/-- `[0-9]+` over a non-empty run of digits -/
theorem acc_plus_digits (ds : List Char) {p : Nat} {r : List Char} (hne : ds ≠ [])
    (hd : ∀ c ∈ ds, isDigit c = true) (h : Sfx inp p (ds ++ r)) (hr : startsWith isDigit r = false) :
    Acc (2 + 32 * ds.length) (.plus (.cls false [(Char.ofNat 48, Char.ofNat 57)])) inp p (p + ds.length) [] := by
  cases ds with
  | nil => exact absurd rfl hne
  | cons d ds =>
    have h1 : Acc 1 (.cls false [(Char.ofNat 48, Char.ofNat 57)]) inp p (p + 1) [] :=
      acc_cls false _ h (by rw [inRanges_digit, hd d (by simp)]; rfl)
    have h2 := acc_star_digits ds (fun c hc => hd c (by simp [hc])) h.tail hr
    refine ((Acc.plus h1 h2).mono ?_).cast ?_ rfl
    · simp only [List.length_cons]; omega
    · simp only [List.length_cons]; omega

/-! ### `indexNumber`, `anyIndex` -/

theorem indexNumber_body : ruleBody Gen.grammar "indexNumber" =
    .seq (.opt (.cls false [(Char.ofNat 45, Char.ofNat 45), (Char.ofNat 43, Char.ofNat 43)]))
      (.plus (.cls false [(Char.ofNat 48, Char.ofNat 57)])) := rfl

theorem intText_ne_nil (n : Int) : intText n ≠ [] := by
  cases n with
  | ofNat n => exact natDigits_ne_nil n
  | negSucc n => simp [intText]

theorem intText_length_pos (n : Int) : 1 ≤ (intText n).length := by
  have := intText_ne_nil n
  cases h : intText n with
  | nil => exact absurd h this
  | cons c l => simp

/-- an integer starts with a digit or a minus sign -/
theorem startsWith_intText (P : Char → Bool) (b : Bool) (hd : ∀ c, isDigit c = true → P c = b)
    (hm : P '-' = b) (n : Int) (r : List Char) : startsWith P (intText n ++ r) = b := by
  cases n with
  | ofNat n =>
    simp only [intText]
    have hne := natDigits_ne_nil n
    have hds := natDigits_digits n
    cases h : natDigits n with
    | nil => exact absurd h hne
    | cons c l =>
      rw [h] at hds
      exact hd c (hds c (by simp))
  | negSucc n => exact hm

theorem acc_indexNumber (n : Int) {p : Nat} {r : List Char} (h : Sfx inp p (intText n ++ r))
    (hr : startsWith isDigit r = false) :
    Acc (6 + 32 * (intText n).length) (.rule "indexNumber") inp p (p + (intText n).length) [] := by
  suffices hb : Acc (5 + 32 * (intText n).length) (.seq (.opt (.cls false [(Char.ofNat 45, Char.ofNat 45), (Char.ofNat 43, Char.ofNat 43)]))
      (.plus (.cls false [(Char.ofNat 48, Char.ofNat 57)]))) inp p (p + (intText n).length) [] from
    (Acc.rule "indexNumber" indexNumber_body hb).mono (by omega)
  cases n with
  | ofNat n =>
    simp only [intText] at h ⊢
    have hne := natDigits_ne_nil n
    have hds := natDigits_digits n
    have h0 : Rej 1 (.cls false [(Char.ofNat 45, Char.ofNat 45), (Char.ofNat 43, Char.ofNat 43)]) inp p := by
      refine rej_cls_of false _ h ?_
      cases hx : natDigits n with
      | nil => exact absurd hx hne
      | cons c l =>
        rw [hx] at hds
        have hc := hds c (by simp)
        simp only [List.cons_append, startsWith, inRanges_pm]
        have : isSignChar c = false := not_sign_of_digit c hc
        rw [this]; rfl
    have h1 := acc_plus_digits (natDigits n) hne hds h hr
    exact ((Acc.seq (Acc.opt_none h0) h1).mono (by omega)).cast (by omega) rfl
  | negSucc n =>
    simp only [intText] at h ⊢
    have h0 : Acc 1 (.cls false [(Char.ofNat 45, Char.ofNat 45), (Char.ofNat 43, Char.ofNat 43)]) inp p (p + 1) [] :=
      acc_cls false _ h (by rw [inRanges_pm]; rfl)
    have h1 := acc_plus_digits (natDigits (n + 1)) (natDigits_ne_nil _) (natDigits_digits _) h.tail hr
    refine ((Acc.seq (Acc.opt_some h0) h1).mono ?_).cast ?_ rfl
    · simp only [List.length_cons]; omega
    · simp only [List.length_cons]; omega

theorem rej_indexNumber {p : Nat} {l : List Char} (h : Sfx inp p l) (hl : startsWith isNumStart l = false) :
    Rej 5 (.rule "indexNumber") inp p := by
  refine (Rej.rule "indexNumber" indexNumber_body (Fa := 4) ?_).mono (Nat.le_refl _)
  have h0 : Rej 1 (.cls false [(Char.ofNat 45, Char.ofNat 45), (Char.ofNat 43, Char.ofNat 43)]) inp p := by
    refine rej_cls_of false _ h (startsWith_false_of_imp ?_ hl)
    intro c hc
    simp only [inRanges_pm, bne_iff_ne, ne_eq, Bool.not_eq_false] at hc
    simp [isNumStart, hc]
  have h1 : Rej 1 (.cls false [(Char.ofNat 48, Char.ofNat 57)]) inp p := by
    refine rej_cls_of false _ h (startsWith_false_of_imp ?_ hl)
    intro c hc
    simp only [inRanges_digit, bne_iff_ne, ne_eq, Bool.not_eq_false] at hc
    simp [isNumStart, hc]
  exact (Rej.seq_r (Acc.opt_none h0) (Rej.plus h1)).mono (by omega)

theorem anyIndex_body : ruleBody Gen.grammar "anyIndex" =
    .seq (.cap (.opt (.rule "indexNumber"))) (.act 21) := rfl

theorem acc_anyIndex (o : Option Int) {p : Nat} {r : List Char} (h : Sfx inp p (optInt o ++ r))
    (hr : startsWith isNumStart r = false) :
    Acc (11 + 32 * (optInt o).length) (.rule "anyIndex") inp p (p + (optInt o).length) (tkOpt p o) := by
  refine (Acc.rule "anyIndex" anyIndex_body (Fa := 10 + 32 * (optInt o).length) ?_).mono (by omega)
  cases o with
  | none =>
    simp only [optInt, List.nil_append] at h
    have h0 := rej_indexNumber h hr
    exact ((Acc.seq (Acc.cap (Acc.opt_none h0)) (acc_act 21 _)).mono (by simp [optInt])).cast rfl rfl
  | some n =>
    simp only [optInt] at h ⊢
    have h0 := acc_indexNumber n h (startsWith_false_of_imp (by intro c hc; simp [isNumStart, hc]) hr)
    exact ((Acc.seq (Acc.cap (Acc.opt_some h0)) (acc_act 21 _)).mono (by omega)).cast rfl rfl

/-! ### `sep`, `sepSlice` -/

theorem sep_body : ruleBody Gen.grammar "sep" = .seq (.rule "space") (.seq (.lit ",") (.rule "space")) := rfl
theorem sepSlice_body : ruleBody Gen.grammar "sepSlice" =
    .seq (.rule "space") (.seq (.lit ":") (.rule "space")) := rfl

theorem acc_sep {p : Nat} {r : List Char} (h : Sfx inp p (',' :: r)) (hr : NoSp r) :
    Acc 6 (.rule "sep") inp p (p + 1) [] :=
  ((Acc.rule "sep" sep_body
    (Acc.seq (acc_space h (noSp_cons (by decide) r))
      (Acc.seq (acc_lit1 "," ',' rfl h) (acc_space h.tail hr)))).mono (by omega)).cast rfl rfl

theorem rej_sep {p : Nat} {l : List Char} (h : Sfx inp p l)
    (hl : startsWith (fun c => c == ' ' || c == ',') l = false) : Rej 6 (.rule "sep") inp p :=
  (Rej.rule "sep" sep_body
    (Rej.seq_r (acc_space h (noSp_of (P := fun c => c == ' ' || c == ',') rfl hl))
      (Rej.seq_l _ (rej_lit1 "," ',' [] rfl h
        (startsWith_false_of_imp (by intro c hc; simp at hc; simp [hc]) hl))))).mono (by omega)

theorem acc_sepSlice {p : Nat} {r : List Char} (h : Sfx inp p (':' :: r)) (hr : NoSp r) :
    Acc 6 (.rule "sepSlice") inp p (p + 1) [] :=
  ((Acc.rule "sepSlice" sepSlice_body
    (Acc.seq (acc_space h (noSp_cons (by decide) r))
      (Acc.seq (acc_lit1 ":" ':' rfl h) (acc_space h.tail hr)))).mono (by omega)).cast rfl rfl

theorem rej_sepSlice {p : Nat} {l : List Char} (h : Sfx inp p l)
    (hl : startsWith (fun c => c == ' ' || c == ':') l = false) : Rej 6 (.rule "sepSlice") inp p :=
  (Rej.rule "sepSlice" sepSlice_body
    (Rej.seq_r (acc_space h (noSp_of (P := fun c => c == ' ' || c == ':') rfl hl))
      (Rej.seq_l _ (rej_lit1 ":" ':' [] rfl h
        (startsWith_false_of_imp (by intro c hc; simp at hc; simp [hc]) hl))))).mono (by omega)

/-! ### `slice`, `index`, `union` -/

/-- arithmetic on lengths of concatenations -/
macro "len_omega" : tactic =>
  `(tactic| ((try simp only [List.length_append, List.length_cons, List.length_nil]); omega))

/-- what may follow a subscript: `,` or `]` -/
def SubStop (r : List Char) : Prop := startsWith (fun c => c == ',' || c == ']') r = true

theorem SubStop.noNum {r : List Char} (h : SubStop r) : startsWith isNumStart r = false :=
  startsWith_false_of_true (by intro c hc; simp at hc; rcases hc with rfl | rfl <;> decide) h

theorem SubStop.noSp {r : List Char} (h : SubStop r) : NoSp r := noSp_of_true (by decide) h

theorem SubStop.noColon {r : List Char} (h : SubStop r) : startsWith (fun c => c == ' ' || c == ':') r = false :=
  startsWith_false_of_true (by intro c hc; simp at hc; rcases hc with rfl | rfl <;> decide) h

theorem noSp_intText (n : Int) (r : List Char) : NoSp (intText n ++ r) := by
  rw [noSp_iff]
  exact startsWith_intText _ false (by intro c hc; simp; intro h; subst h; revert hc; decide) (by decide) n r

theorem noSp_optInt (o : Option Int) {r : List Char} (hr : NoSp r) : NoSp (optInt o ++ r) := by
  cases o with
  | none => exact hr
  | some n => exact noSp_intText n r

theorem slice_body : ruleBody Gen.grammar "slice" =
    .seq (.rule "anyIndex") (.seq (.rule "sepSlice") (.seq (.rule "anyIndex")
      (.alt (.seq (.rule "sepSlice") (.rule "anyIndex")) (.seq (.rule "space") (.act 20))))) := rfl

/-- the tokens of the `slice` rule -/
def tkSlice (p : Nat) (s e t : Option Int) : List Tok :=
  match t with
  | none => tkOpt p s ++ (tkOpt (p + (optInt s).length + 1) e ++ [.action 20])
  | some t => tkOpt p s ++ (tkOpt (p + (optInt s).length + 1) e ++
      tkOpt (p + (optInt s).length + 1 + (optInt e).length + 1) (some t))

theorem tkSub_slice (p : Nat) (s e t : Option Int) :
    tkSub p (.slice s e t) = tkSlice p s e t ++ [.action 16, .action 19] := by
  cases t <;> simp [tkSub, tkSlice]

theorem acc_slice (s e t : Option Int) {p : Nat} {r : List Char}
    (h : Sfx inp p (subText (.slice s e t) ++ r)) (hr : SubStop r) :
    Acc (20 + 32 * (subText (.slice s e t)).length) (.rule "slice") inp p
      (p + (subText (.slice s e t)).length) (tkSlice p s e t) := by
  refine (Acc.rule "slice" slice_body (Fa := 19 + 32 * (subText (.slice s e t)).length) ?_).mono (by omega)
  cases t with
  | none =>
    simp only [subText, List.append_nil, List.append_assoc, List.cons_append] at h ⊢
    have a1 := acc_anyIndex s h rfl
    have h2 := h.append
    have a2 := acc_sepSlice h2 (noSp_optInt e hr.noSp)
    have h3 := h2.tail
    have a3 := acc_anyIndex e h3 hr.noNum
    have h4 := h3.append
    have a4 : Acc 10 (.alt (.seq (.rule "sepSlice") (.rule "anyIndex")) (.seq (.rule "space") (.act 20))) inp
        (p + (optInt s).length + 1 + (optInt e).length) (p + (optInt s).length + 1 + (optInt e).length)
        [.action 20] :=
      ((Acc.alt_r (Rej.seq_l _ (rej_sepSlice h4 hr.noColon))
        (Acc.seq (acc_space h4 hr.noSp) (acc_act 20 _))).mono (by omega)).cast rfl rfl
    refine ((Acc.seq a1 (Acc.seq a2 (Acc.seq a3 a4))).mono ?_).cast ?_ ?_
    · len_omega
    · len_omega
    · simp [tkSlice]
  | some t =>
    simp only [subText, List.append_assoc, List.cons_append] at h ⊢
    have a1 := acc_anyIndex s h rfl
    have h2 := h.append
    have a2 := acc_sepSlice h2 (noSp_optInt e (noSp_cons (by decide) _))
    have h3 := h2.tail
    have a3 := acc_anyIndex e h3 rfl
    have h4 := h3.append
    have a4 := acc_sepSlice h4 (noSp_intText t r)
    have h5 := h4.tail
    have a5 := acc_anyIndex (some t) h5 hr.noNum
    refine ((Acc.seq a1 (Acc.seq a2 (Acc.seq a3 (Acc.alt_l _ (Acc.seq a4 a5))))).mono ?_).cast ?_ ?_
    · simp only [optInt]; len_omega
    · simp only [optInt]; len_omega
    · simp [tkSlice]

/-- `slice` gives up after a first number that is not followed by a colon -/
theorem rej_slice (o : Option Int) {p : Nat} {r : List Char} (h : Sfx inp p (optInt o ++ r))
    (hr : startsWith (fun c => isNumStart c || c == ' ' || c == ':') r = false) :
    Rej (14 + 32 * (optInt o).length) (.rule "slice") inp p := by
  have a1 := acc_anyIndex o h (startsWith_false_of_imp (by intro c hc; simp [hc]) hr)
  have r2 := rej_sepSlice h.append (startsWith_false_of_imp (by intro c hc; simp at hc; rcases hc with rfl | rfl <;> simp) hr)
  exact (Rej.rule "slice" slice_body (Rej.seq_r a1 (Rej.seq_l _ r2))).mono (by omega)

theorem index_body : ruleBody Gen.grammar "index" =
    .seq (.alt (.seq (.rule "slice") (.act 16))
      (.alt (.seq (.cap (.rule "indexNumber")) (.act 17)) (.seq (.lit "*") (.act 18)))) (.act 19) := rfl

theorem acc_index (s : Sub) {p : Nat} {r : List Char} (h : Sfx inp p (subText s ++ r)) (hr : SubStop r) :
    Acc (25 + 32 * (subText s).length) (.rule "index") inp p (p + (subText s).length) (tkSub p s) := by
  refine (Acc.rule "index" index_body (Fa := 24 + 32 * (subText s).length) ?_).mono (by omega)
  cases s with
  | idx n =>
    simp only [subText] at h ⊢
    have r1 := rej_slice (some n) h
      (startsWith_false_of_true (by intro c hc; simp at hc; rcases hc with rfl | rfl <;> decide) hr)
    have a2 := acc_indexNumber n h (startsWith_false_of_imp (by intro c hc; simp [isNumStart, hc]) hr.noNum)
    refine ((Acc.seq (Acc.alt_r (Rej.seq_l _ r1) (Acc.alt_l _ (Acc.seq (Acc.cap a2) (acc_act 17 _))))
      (acc_act 19 _)).mono ?_).cast rfl ?_
    · simp only [optInt]; omega
    · simp [tkSub]
  | wild =>
    simp only [subText, List.cons_append, List.nil_append] at h ⊢
    have r1 := rej_slice none (r := '*' :: r) h rfl
    have r2 := rej_indexNumber h rfl
    have a3 := acc_lit1 "*" '*' rfl h
    refine ((Acc.seq (Acc.alt_r (Rej.seq_l _ r1) (Acc.alt_r (Rej.seq_l _ (Rej.cap r2))
      (Acc.seq a3 (acc_act 18 _)))) (acc_act 19 _)).mono ?_).cast rfl ?_
    · simp only [optInt, List.length_nil, List.length_cons]; omega
    · simp [tkSub]
  | slice s e t =>
    have a1 := acc_slice s e t h hr
    refine ((Acc.seq (Acc.alt_l _ (Acc.seq a1 (acc_act 16 _))) (acc_act 19 _)).mono (by omega)).cast rfl ?_
    rw [tkSub_slice]; simp

/-- a subscript starts with a digit, a sign, `*` or `:` -/
def isSubStart (c : Char) : Bool := isNumStart c || c == '*' || c == ':'

theorem startsWith_subText (P : Char → Bool) (b : Bool) (hP : ∀ c, isSubStart c = true → P c = b)
    (s : Sub) (r : List Char) : startsWith P (subText s ++ r) = b := by
  have hint : ∀ n r', startsWith P (intText n ++ r') = b := fun n r' =>
    startsWith_intText P b (fun c hc => hP c (by simp [isSubStart, isNumStart, hc])) (hP '-' (by decide)) n r'
  cases s with
  | idx n => exact hint n r
  | wild => exact hP '*' (by decide)
  | slice s e t =>
    cases s with
    | none => exact hP ':' (by decide)
    | some n =>
      simp only [subText, optInt, List.append_assoc]
      exact hint n _

theorem noSp_subText (s : Sub) (r : List Char) : NoSp (subText s ++ r) := by
  rw [noSp_iff]
  refine startsWith_subText _ false ?_ s r
  intro c hc
  simp only [beq_eq_false_iff_ne, ne_eq]
  intro h; subst h; revert hc; decide

theorem subText_length_pos (s : Sub) : 1 ≤ (subText s).length := by
  cases s with
  | idx n => exact intText_length_pos n
  | wild => simp [subText]
  | slice s e t => simp only [subText]; len_omega

theorem union_body : ruleBody Gen.grammar "union" =
    .seq (.rule "index") (.seq (.star (.seq (.rule "sep") (.seq (.rule "index") (.act 15))))
      (.not (.rule "sep"))) := rfl

theorem joinComma_cons {α : Type} (f : α → List Char) (x : α) (xs : List α) :
    joinComma ((x :: xs).map f) = f x ++ flat (fun y => ',' :: f y) xs := by
  induction xs generalizing x with
  | nil => simp [joinComma, flat]
  | cons y ys ih =>
    have := ih y
    simp only [List.map_cons] at this ⊢
    simp only [joinComma, flat, this, List.cons_append]

theorem joinComma_subs (s : Sub) (ss : List Sub) :
    joinComma ((s :: ss).map subText) = subText s ++ flat commaSub ss := joinComma_cons subText s ss

/-- the loop `(sep index {15})*` over `,s1,s2…` in front of `]` -/
theorem acc_union_tail (ss : List Sub) {p : Nat} {r : List Char} (h : Sfx inp p (flat commaSub ss ++ r))
    (hr : startsWith (fun c => c == ']') r = true) :
    Acc (63 + 32 * (flat commaSub ss).length) (.star (.seq (.rule "sep") (.seq (.rule "index") (.act 15)))) inp p
      (p + (flat commaSub ss).length) (toksStar commaSub tkCommaSub ss p) := by
  have hsub : SubStop r := startsWith_of_true (by intro c hc; simp at hc; simp [hc]) hr
  refine (acc_star_items (inp := inp) (.seq (.rule "sep") (.seq (.rule "index") (.act 15))) commaSub tkCommaSub
    (fun _ => True) SubStop 62 62 r hsub ?_ ?_ ?_ ?_ ss p (fun _ _ => trivial) h).mono (by omega)
  · intro x r' _; rfl
  · intro x _; simp [commaSub]
  · intro x r' pos _ hstop hs
    simp only [commaSub, List.cons_append] at hs ⊢
    have a1 := acc_sep hs (noSp_subText x r')
    have a2 := acc_index x hs.tail hstop
    refine ((Acc.seq a1 (Acc.seq a2 (acc_act 15 _))).mono ?_).cast ?_ ?_
    · len_omega
    · len_omega
    · simp [tkCommaSub]
  · intro pos hs
    exact (Rej.seq_l _ (rej_sep hs (startsWith_false_of_true
      (by intro c hc; simp at hc; subst hc; decide) hr))).mono (by omega)

theorem acc_union (s : Sub) (ss : List Sub) {p : Nat} {r : List Char}
    (h : Sfx inp p (joinComma ((s :: ss).map subText) ++ r)) (hr : startsWith (fun c => c == ']') r = true) :
    Acc (70 + 32 * (joinComma ((s :: ss).map subText)).length) (.rule "union") inp p
      (p + (joinComma ((s :: ss).map subText)).length) (tkUnion p (s :: ss)) := by
  rw [joinComma_subs] at h ⊢
  rw [List.append_assoc] at h
  have hstop : SubStop (flat commaSub ss ++ r) := by
    cases ss with
    | nil => exact startsWith_of_true (by intro c hc; simp at hc; simp [hc]) hr
    | cons y ys => rfl
  have a1 := acc_index s h hstop
  have a2 := acc_union_tail ss h.append hr
  have a3 := Acc.not (rej_sep h.append.append
    (startsWith_false_of_true (by intro c hc; simp at hc; subst hc; decide) hr))
  refine ((Acc.rule "union" union_body (Acc.seq a1 (Acc.seq a2 a3))).mono ?_).cast ?_ ?_
  · len_omega
  · len_omega
  · simp [tkUnion]

end JPV.PP
