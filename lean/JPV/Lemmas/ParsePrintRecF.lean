/-
ParsePrintRecF — recogniser lemmas, part F: the structural recursion over steps, queries, operands and
paths that discharges `FilterHyp` for every well-formed step, and the final theorem: the recogniser
accepts the printed form of every well-formed path and yields exactly `tkExpr`.
-/
import JPV.Lemmas.ParsePrintRecE
namespace JPV.PP
open JPV.Peg JPV.Print JPV.Lex

/-- the three levels of a query -/
def QAll (inp : Array Char) (q : Query) : Prop := P0 inp q ∧ P1 inp q ∧ P2 inp q

theorem qall_of_basic {inp : Array Char} (q : Query)
    (h10 : query 0 q = query 1 q) (h21 : query 1 q = query 2 q)
    (t10 : ∀ p, tkQ 0 p q = tkQ 1 p q) (t21 : ∀ p, tkQ 1 p q = tkQ 2 p q)
    (p2 : P2 inp q) : QAll inp q :=
  have p1 := p1_of_p2 q h21 t21 p2
  ⟨p0_of_p1 q h10 t10 p1, p1, p2⟩

theorem qall_or {inp : Array Char} (a b : Query) (ha : QAll inp a) (hb : QAll inp b) : QAll inp (.or a b) :=
  have p0 : P0 inp (.or a b) := p0_or a b ha.1 hb.2.1
  have p2 : P2 inp (.or a b) := p2_of_p0 _ (by simp [query, paren]) (fun p => by simp [tkQ]) p0
  ⟨p0, p1_of_p2 _ (by simp [query, paren]) (fun p => by simp [tkQ]) p2, p2⟩

theorem qall_and {inp : Array Char} (a b : Query) (ha : QAll inp a) (hb : QAll inp b) : QAll inp (.and a b) :=
  have p1 : P1 inp (.and a b) := p1_and a b ha.2.1 hb.2.2
  have p0 : P0 inp (.and a b) := p0_of_p1 _ (by simp [query, paren]) (fun p => by simp [tkQ]) p1
  ⟨p0, p1, p2_of_p0 _ (by simp [query, paren]) (fun p => by simp [tkQ]) p0⟩

theorem qall_exist {inp : Array Char} (neg : Bool) (q : Path) (hq : PathHyp inp q) : QAll inp (.exist neg q) :=
  qall_of_basic _ (by simp [query]) (by simp [query]) (fun p => by simp [tkQ, query]) (fun p => by simp [tkQ, query])
    (fun _ _ hs hr => acc_basic_exist 2 neg q hq hs hr)

theorem qall_cmp {inp : Array Char} (op : CmpOp) (l r : Operand) (hl : OpHyp inp l) (hr : OpHyp inp r)
    (hwl : operandWf (isOrd op) l = true) (hwr : operandWf (isOrd op) r = true) : QAll inp (.cmp op l r) :=
  qall_of_basic _ (by simp [query]) (by simp [query]) (fun p => by simp [tkQ, query]) (fun p => by simp [tkQ, query])
    (fun _ _ hs hrest => acc_basic_cmp 2 op l r hl hr hwl hwr hs hrest)

theorem qall_regex {inp : Array Char} (q : Path) (hq : PathHyp inp q) (re : String) (hre : regexOK re = true) :
    QAll inp (.regex q re) :=
  qall_of_basic _ (by simp [query]) (by simp [query]) (fun p => by simp [tkQ, query]) (fun p => by simp [tkQ, query])
    (fun _ _ hs _ => acc_basic_regex 2 q hq re hre hs)

mutual
theorem thStep (inp : Array Char) : (s : Step) → (ad : Bool) → stepWf ad s = true → FilterHyp inp s
  | .child _ _, _, _ => trivial
  | .wild _, _, _ => trivial
  | .multi _ _, _, _ => trivial
  | .union _ _, _, _ => trivial
  | .filter t q, _, h => recBracketFilter_of_p0 t q (thQuery inp q h).1
  | .desc s, _, h => thStep inp s true (by simp only [stepWf, Bool.and_eq_true] at h; exact h.2)
theorem thSteps (inp : Array Char) : (ss : List Step) → stepsWf ss = true → ∀ s ∈ ss, FilterHyp inp s
  | [], _ => fun _ hs => by cases hs
  | s :: ss, h =>
    have h' : stepWf false s = true ∧ stepsWf ss = true := by simpa [stepsWf] using h
    fun x hx => (List.mem_cons.mp hx).elim (fun e => e ▸ thStep inp s false h'.1)
      (fun hx => thSteps inp ss h'.2 x hx)
theorem thQuery (inp : Array Char) : (q : Query) → queryWf q = true → QAll inp q
  | .or a b, h =>
    have h' : queryWf a = true ∧ queryWf b = true := by simpa [queryWf] using h
    qall_or a b (thQuery inp a h'.1) (thQuery inp b h'.2)
  | .and a b, h =>
    have h' : queryWf a = true ∧ queryWf b = true := by simpa [queryWf] using h
    qall_and a b (thQuery inp a h'.1) (thQuery inp b h'.2)
  | .exist neg q, h => qall_exist neg q (thPath inp q h)
  | .cmp op l r, h =>
    have h' : operandWf (isOrd op) l = true ∧ operandWf (isOrd op) r = true := by simpa [queryWf] using h
    qall_cmp op l r (thOperand inp l _ h'.1) (thOperand inp r _ h'.2) h'.1 h'.2
  | .regex q re, h =>
    have h' : pathWf q = true ∧ regexOK re = true := by simpa [queryWf] using h
    qall_regex q (thPath inp q h'.1) re h'.2
theorem thOperand (inp : Array Char) : (o : Operand) → (ord : Bool) → operandWf ord o = true → OpHyp inp o
  | .lit _, _, _ => trivial
  | .path q, _, h => thPath inp q h
theorem thPath (inp : Array Char) : (q : Path) → pathWf q = true → PathHyp inp q
  | .mk hd ss fns, h =>
    have h' : stepsWf ss = true ∧ fns.all fnNameOK = true := by simpa [pathWf] using h
    ⟨h, thSteps inp ss h'.1⟩
end

/-- the bracket of every filter step of a well-formed step is accepted -/
theorem filterHyp_all (inp : Array Char) : ∀ (s : Step) (ad : Bool), stepWf ad s = true → FilterHyp inp s :=
  thStep inp

/-- the recogniser accepts the printed form of every well-formed path and yields `tkExpr` -/
theorem recognise_print_wf (ss : List Step) (fns : List Fn) (hwf : pathWf (.mk .root ss fns) = true) :
    recognise (print (.mk .root ss fns)).toArray =
      .ok (print (.mk .root ss fns)).length (tkExpr (.mk .root ss fns)) :=
  recognise_print ss fns hwf (thPath _ (.mk .root ss fns) hwf).2

end JPV.PP
