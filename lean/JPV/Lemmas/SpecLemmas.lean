/-
SpecLemmas — facts about the specification alone: steps compose by `flatMap`, selections from a
canonical document are canonical, steps that are not value groups select at most one value.
-/
import JPV.Spec
import JPV.Lemmas.ValWf
import JPV.Lemmas.SubIdx
namespace JPV
namespace BD
open Spec

theorem evalSteps_flatMap (env : Env) (root : Val) (steps : List Step) :
    ∀ vs, evalSteps env steps root vs = vs.flatMap (fun v => evalSteps env steps root [v]) := by
  induction steps with
  | nil =>
    intro vs
    simp only [evalSteps]
    induction vs with
    | nil => rfl
    | cons a l ih => simp only [List.flatMap_cons, ← ih]; rfl
  | cons s ss ih =>
    intro vs
    simp only [evalSteps]
    rw [ih]
    simp only [List.flatMap_assoc, List.flatMap_cons, List.flatMap_nil, List.append_nil]
    congr 1
    funext v
    exact (ih _).symm

theorem evalSteps_cons_single (env : Env) (root : Val) (s : Step) (ss : List Step) (v : Val) :
    evalSteps env (s :: ss) root [v] = (sel env s root v).flatMap (fun w => evalSteps env ss root [w]) := by
  simp only [evalSteps, List.flatMap_cons, List.flatMap_nil, List.append_nil]
  exact evalSteps_flatMap env root ss _

theorem keep_sub : ∀ (vs : List Val) (bs : List Bool), ∀ v ∈ keep vs bs, v ∈ vs
  | [], _, v, h => by simp [keep] at h
  | _ :: _, [], v, h => by simp [keep] at h
  | x :: xs, b :: bs, v, h => by
    simp only [keep] at h
    split at h
    · rcases List.mem_cons.mp h with rfl | h
      · exact List.mem_cons_self
      · exact List.mem_cons_of_mem _ (keep_sub xs bs v h)
    · exact List.mem_cons_of_mem _ (keep_sub xs bs v h)

theorem selName_wf {kvs : List (String × Val)} (hw : (Val.obj kvs).wf = true) (n : Name) :
    ∀ v ∈ selName kvs n, v.wf = true := by
  intro v hv
  cases n with
  | key k =>
    simp only [selName, Option.mem_toList] at hv
    exact ValWf.wf_lookup hw hv
  | wild => exact ValWf.wf_vals hw v hv

/-- everything a step selects from a canonical value is canonical -/
theorem sel_wf (env : Env) (root : Val) : (s : Step) → (cur : Val) → cur.wf = true →
    ∀ v ∈ sel env s root cur, v.wf = true
  | .child t k, cur, hw, v, hv => by
    cases cur <;> simp only [sel, List.not_mem_nil] at hv
    rename_i kvs
    simp only [Option.mem_toList] at hv
    exact ValWf.wf_lookup hw hv
  | .wild t, cur, hw, v, hv => by
    simp only [sel] at hv
    exact ValWf.wf_members hw v hv
  | .multi t ns, cur, hw, v, hv => by
    cases cur <;> simp only [sel, List.not_mem_nil] at hv
    · rename_i xs
      split at hv
      · obtain ⟨_, _, h⟩ := List.mem_flatMap.mp hv
        exact ValWf.wf_elems hw v h
      · cases hv
    · rename_i kvs
      obtain ⟨n, _, h⟩ := List.mem_flatMap.mp hv
      exact selName_wf hw n v h
  | .union t ss, cur, hw, v, hv => by
    cases cur <;> simp only [sel, List.not_mem_nil] at hv
    rename_i xs
    obtain ⟨s, _, h⟩ := List.mem_flatMap.mp hv
    obtain ⟨i, _, h⟩ := List.mem_flatMap.mp h
    simp only [atIdx, Option.mem_toList] at h
    exact ValWf.wf_getElem? hw h
  | .filter t q, cur, hw, v, hv => by
    simp only [sel] at hv
    split at hv
    · exact ValWf.wf_members hw v (keep_sub _ _ v hv)
    · cases hv
  | .desc s, cur, hw, v, hv => by
    simp only [sel] at hv
    obtain ⟨c, hc, h⟩ := List.mem_flatMap.mp hv
    exact sel_wf env root s c (ValWf.wf_containers cur hw c hc) v h

theorem length_flatMap_le_one {α β : Type} (l : List α) (f : α → List β) (hl : l.length ≤ 1)
    (hf : ∀ x, (f x).length ≤ 1) : (l.flatMap f).length ≤ 1 := by
  match l, hl with
  | [], _ => simp
  | [a], _ => simpa using hf a

/-- a step that is not a value group selects at most one value -/
theorem sel_single (env : Env) (root : Val) (s : Step) (hs : isVgStep s = false) (cur : Val) :
    (sel env s root cur).length ≤ 1 := by
  cases s with
  | child t k =>
    cases cur <;> simp only [sel, List.length_nil, Nat.zero_le]
    rename_i kvs
    cases Val.lookup k kvs <;> simp
  | union t ss =>
    match ss, hs with
    | [sub], hs =>
      cases sub with
      | idx n =>
        cases cur <;> simp only [sel, List.length_nil, Nat.zero_le]
        rename_i xs
        simp only [List.flatMap_cons, List.flatMap_nil, List.append_nil, subIndices]
        apply length_flatMap_le_one
        · unfold pyIndex; simp only; split <;> split <;> simp
        · intro i; unfold atIdx; cases xs[i]? <;> simp
      | slice _ _ _ => simp [isVgStep, isVgSub] at hs
      | wild => simp [isVgStep, isVgSub] at hs
    | [], hs => simp [isVgStep] at hs
    | _ :: _ :: _, hs => simp [isVgStep] at hs
  | wild _ => simp [isVgStep] at hs
  | multi _ _ => simp [isVgStep] at hs
  | filter _ _ => simp [isVgStep] at hs
  | desc _ => simp [isVgStep] at hs

theorem evalSteps_single (env : Env) (root : Val) (steps : List Step) :
    steps.any isVgStep = false → ∀ vs, vs.length ≤ 1 → (evalSteps env steps root vs).length ≤ 1 := by
  induction steps with
  | nil => intro _ vs h; simpa [evalSteps] using h
  | cons s ss ih =>
    intro hs vs hv
    simp only [List.any_cons, Bool.or_eq_false_iff] at hs
    simp only [evalSteps]
    exact ih hs.2 _ (length_flatMap_le_one vs _ hv (sel_single env root s hs.1))

theorem evalSteps_wf (env : Env) (root : Val) (steps : List Step) :
    ∀ vs, (∀ v ∈ vs, v.wf = true) → ∀ w ∈ evalSteps env steps root vs, w.wf = true := by
  induction steps with
  | nil => intro vs h w hw; exact h w (by simpa [evalSteps] using hw)
  | cons s ss ih =>
    intro vs h w hw
    simp only [evalSteps] at hw
    refine ih _ ?_ w hw
    intro v hv
    obtain ⟨c, hc, hv⟩ := List.mem_flatMap.mp hv
    exact sel_wf env root s c (h c hc) v hv

theorem firstOf_isSome (o : Option (List Val)) : (firstOf o).isSome = !(o.getD []).isEmpty := by
  cases o with
  | none => rfl
  | some l => cases l <;> rfl

theorem firstOf_head (o : Option (List Val)) : firstOf o = (o.getD []).head? := by
  cases o with
  | none => rfl
  | some l => cases l <;> rfl

/-- a `$`-path does not look at the member -/
theorem evalPath_root (env : Env) (steps : List Step) (fns : List Fn) (root m : Val) :
    evalPath env (.mk .root steps fns) root m = evalPath env (.mk .root steps fns) root root := by
  simp only [evalPath]

end BD
end JPV
