/-
Fuel lemmas for `adds` (worker L30): one unfolding equation per constructor, one more unit of fuel does not change
the count once `run` has an answer, and two fuels that both give an answer give the same answer and the same count.
-/
import JPV.Lemmas.Peg
import JPV.Lemmas.RunGoAdds
namespace JPV
namespace RunGoGen
open JPV.Peg

variable {g : Grammar} {inp : Array Char}

/-! ### unfolding equations -/

theorem adds_zero (e : PE) (pos : Nat) : adds g 0 e inp pos = 0 := by
  cases e <;> rfl

theorem adds_seq (f : Nat) (a b : PE) (pos : Nat) :
    adds g (f + 1) (.seq a b) inp pos =
      adds g f a inp pos + (match run g f a inp pos with | .ok p' _ => adds g f b inp p' | _ => 0) := rfl

theorem adds_alt (f : Nat) (a b : PE) (pos : Nat) :
    adds g (f + 1) (.alt a b) inp pos =
      adds g f a inp pos + (match run g f a inp pos with | .fail => adds g f b inp pos | _ => 0) := rfl

theorem adds_star (f : Nat) (a : PE) (pos : Nat) :
    adds g (f + 1) (.star a) inp pos =
      adds g f a inp pos +
        (match run g f a inp pos with | .ok p' _ => adds g f (.star a) inp p' | _ => 0) := rfl

theorem adds_plus (f : Nat) (a : PE) (pos : Nat) :
    adds g (f + 1) (.plus a) inp pos =
      adds g f a inp pos +
        (match run g f a inp pos with | .ok p' _ => adds g f (.star a) inp p' | _ => 0) := rfl

theorem adds_opt (f : Nat) (a : PE) (pos : Nat) :
    adds g (f + 1) (.opt a) inp pos = adds g f a inp pos := rfl

theorem adds_not (f : Nat) (a : PE) (pos : Nat) :
    adds g (f + 1) (.not a) inp pos = adds g f a inp pos := rfl

theorem adds_and (f : Nat) (a : PE) (pos : Nat) :
    adds g (f + 1) (.and a) inp pos = adds g f a inp pos := rfl

theorem adds_rule (f : Nat) (name : String) (pos : Nat) :
    adds g (f + 1) (.rule name) inp pos = adds g f (ruleBody g name) inp pos + 1 := rfl

theorem adds_cap (f : Nat) (a : PE) (pos : Nat) :
    adds g (f + 1) (.cap a) inp pos = adds g f a inp pos + 1 := rfl

/-! ### fuel monotonicity -/

/-- one more unit of fuel does not change the count when `run` has an answer -/
theorem adds_succ : ∀ (f : Nat) (e : PE) (pos : Nat),
    run g f e inp pos ≠ .outOfFuel → adds g (f + 1) e inp pos = adds g f e inp pos := by
  intro f
  induction f with
  | zero => intro e pos h; exact absurd (run_zero e pos) h
  | succ f ih =>
    intro e pos h
    cases e with
    | lit s => rfl
    | cls neg rs => rfl
    | any => rfl
    | act i => rfl
    | rule name =>
      rw [run_rule] at h
      rw [adds_rule (f + 1), adds_rule f, ih _ _ h]
    | seq a b =>
      rw [run_seq] at h
      have ha' : run g f a inp pos ≠ .outOfFuel := by
        intro ha; rw [ha] at h; exact h rfl
      rw [adds_seq (f + 1), adds_seq f, run_succ f a pos ha', ih a pos ha']
      cases ha : run g f a inp pos with
      | fail => rfl
      | outOfFuel => exact absurd ha ha'
      | ok p t =>
        rw [ha] at h
        simp only at h ⊢
        have hb' : run g f b inp p ≠ .outOfFuel := by
          intro hb; rw [hb] at h; exact h rfl
        rw [ih b p hb']
    | alt a b =>
      rw [run_alt] at h
      have ha' : run g f a inp pos ≠ .outOfFuel := by
        intro ha; rw [ha] at h; exact h rfl
      rw [adds_alt (f + 1), adds_alt f, run_succ f a pos ha', ih a pos ha']
      cases ha : run g f a inp pos with
      | fail =>
        rw [ha] at h
        simp only at h ⊢
        rw [ih b pos h]
      | outOfFuel => exact absurd ha ha'
      | ok p t => rfl
    | star a =>
      rw [run_star] at h
      have ha' : run g f a inp pos ≠ .outOfFuel := by
        intro ha; rw [ha] at h; exact h rfl
      rw [adds_star (f + 1), adds_star f, run_succ f a pos ha', ih a pos ha']
      cases ha : run g f a inp pos with
      | fail => rfl
      | outOfFuel => exact absurd ha ha'
      | ok p t =>
        rw [ha] at h
        simp only at h ⊢
        have hb' : run g f (.star a) inp p ≠ .outOfFuel := by
          intro hb; rw [hb] at h; exact h rfl
        rw [ih _ p hb']
    | plus a =>
      rw [run_plus] at h
      have ha' : run g f a inp pos ≠ .outOfFuel := by
        intro ha; rw [ha] at h; exact h rfl
      rw [adds_plus (f + 1), adds_plus f, run_succ f a pos ha', ih a pos ha']
      cases ha : run g f a inp pos with
      | fail => rfl
      | outOfFuel => exact absurd ha ha'
      | ok p t =>
        rw [ha] at h
        simp only at h ⊢
        have hb' : run g f (.star a) inp p ≠ .outOfFuel := by
          intro hb; rw [hb] at h; exact h rfl
        rw [ih _ p hb']
    | opt a =>
      rw [run_opt] at h
      have ha' : run g f a inp pos ≠ .outOfFuel := by
        intro ha; rw [ha] at h; exact h rfl
      rw [adds_opt (f + 1), adds_opt f, ih a pos ha']
    | not a =>
      rw [run_not] at h
      have ha' : run g f a inp pos ≠ .outOfFuel := by
        intro ha; rw [ha] at h; exact h rfl
      rw [adds_not (f + 1), adds_not f, ih a pos ha']
    | and a =>
      rw [run_and] at h
      have ha' : run g f a inp pos ≠ .outOfFuel := by
        intro ha; rw [ha] at h; exact h rfl
      rw [adds_and (f + 1), adds_and f, ih a pos ha']
    | cap a =>
      rw [run_cap] at h
      have ha' : run g f a inp pos ≠ .outOfFuel := by
        intro ha; rw [ha] at h; exact h rfl
      rw [adds_cap (f + 1), adds_cap f, ih a pos ha']

/-- more fuel never changes the count when `run` has an answer -/
theorem adds_mono {f f' : Nat} (e : PE) (pos : Nat) (hle : f ≤ f')
    (h : run g f e inp pos ≠ .outOfFuel) : adds g f' e inp pos = adds g f e inp pos := by
  induction hle with
  | refl => rfl
  | @step m hm ih =>
    rw [adds_succ m e pos (by rw [run_mono e pos hm h]; exact h), ih]

/-- two fuels that both give an answer give the same answer and the same count -/
theorem run_det {f0 f1 : Nat} (e : PE) (pos : Nat)
    (h0 : run g f0 e inp pos ≠ .outOfFuel) (h1 : run g f1 e inp pos ≠ .outOfFuel) :
    run g f0 e inp pos = run g f1 e inp pos ∧ adds g f0 e inp pos = adds g f1 e inp pos := by
  cases Nat.le_total f0 f1 with
  | inl hle => exact ⟨(run_mono e pos hle h0).symm, (adds_mono e pos hle h0).symm⟩
  | inr hle => exact ⟨run_mono e pos hle h1, adds_mono e pos hle h1⟩

end RunGoGen
end JPV
