/-
Lemmas/PegTerm — soundness of the termination analysis of Peg/Term.lean (L21, property C02):

  * `adv_sound`      — an expression the checked table calls advancing consumes a character whenever it succeeds;
  * `run_terminates` — `wfGrammar g K = true` and `depthBound g K e (characters left) ≤ fuel` imply that
                       `run g fuel e input pos` is not `outOfFuel`.

Both are inductions on the interpreter's fuel; the tables enter only through the checks of `checkTables`.
-/
import JPV.Lemmas.Peg
import JPV.Peg.Term
namespace JPV.Peg.Term
open JPV.Peg

variable {g : Grammar} {inp : Array Char}

/-- the body of a rule is an entry of the grammar, or the never-matching class of an undefined rule -/
theorem ruleBody_cases (g : Grammar) (x : String) :
    ruleBody g x = .cls false [] ∨ (x, ruleBody g x) ∈ g := by
  unfold ruleBody
  induction g with
  | nil => exact .inl rfl
  | cons r rest ih =>
    obtain ⟨n, b⟩ := r
    simp only [List.lookup]
    cases hnb : (x == n) with
    | true =>
      have hx : x = n := beq_iff_eq.mp hnb
      subst hx
      exact .inr List.mem_cons_self
    | false =>
      rcases ih with h | h
      · exact .inl h
      · exact .inr (List.mem_cons_of_mem _ h)

theorem tget_pos (T : CostTable) (x : String) : 1 ≤ tget T x := by
  unfold tget
  split <;> omega

theorem ruleBody_adv {A : AdvTable} (hA : checkAdv g A = true) (x : String) (hx : aget A x = true) :
    advT A (ruleBody g x) = true := by
  rcases ruleBody_cases g x with h | h
  · rw [h]; rfl
  · have := List.all_eq_true.mp hA _ h
    simp only [Bool.or_eq_true, Bool.not_eq_true'] at this
    rcases this with h' | h'
    · rw [hx] at h'; cases h'
    · exact h'

theorem ruleBody_wf {A : AdvTable} (hW : checkWf g A = true) (x : String) :
    wfPE A (ruleBody g x) = true := by
  rcases ruleBody_cases g x with h | h
  · rw [h]; rfl
  · exact List.all_eq_true.mp hW _ h

theorem ruleBody_cost {K : Nat} {A : AdvTable} {T : CostTable} (hC : checkCost g K A T = true) (x : String) :
    costT K A T (ruleBody g x) ≤ tget T x := by
  rcases ruleBody_cases g x with h | h
  · rw [h]; exact tget_pos T x
  · exact Nat.le_of_ble_eq_true (List.all_eq_true.mp hC _ h)

/-- **adv_sound.** What the checked table calls advancing consumes at least one character whenever it succeeds. -/
theorem adv_sound {A : AdvTable} (hA : checkAdv g A = true) :
    ∀ (f : Nat) (e : PE) (pos p : Nat) (t : List Tok), advT A e = true →
      run g f e inp pos = .ok p t → pos < p := by
  intro f
  induction f with
  | zero => intro e pos p t _ h; rw [run_zero] at h; cases h
  | succ f ih =>
    intro e pos p t ha h
    cases e with
    | lit s =>
      rw [run_lit] at h
      split at h
      · cases h
        have hne : s.toList ≠ [] := by simpa [advT] using ha
        have hl : 0 < s.toList.length := List.length_pos_iff.mpr hne
        rw [String.length_toList] at hl
        omega
      · cases h
    | cls neg rs =>
      rw [run_cls] at h
      split at h
      · split at h
        · cases h; omega
        · cases h
      · cases h
    | any =>
      rw [run_any] at h
      split at h
      · cases h; omega
      · cases h
    | act j => cases ha
    | star a => cases ha
    | opt a => cases ha
    | not a => cases ha
    | and a => cases ha
    | rule x =>
      rw [run_rule] at h
      exact ih _ _ _ _ (ruleBody_adv hA x ha) h
    | seq a b =>
      rw [run_seq] at h
      cases hr : run g f a inp pos with
      | fail => rw [hr] at h; cases h
      | outOfFuel => rw [hr] at h; cases h
      | ok q tq =>
        rw [hr] at h
        simp only at h
        cases hb : run g f b inp q with
        | fail => rw [hb] at h; cases h
        | outOfFuel => rw [hb] at h; cases h
        | ok q' tq' =>
          rw [hb] at h
          cases h
          have h1 := run_pos_le f a pos q tq hr
          have h2 := run_pos_le f b q p tq' hb
          simp only [advT, Bool.or_eq_true] at ha
          rcases ha with ha | ha
          · have := ih a pos q tq ha hr; omega
          · have := ih b q p tq' ha hb; omega
    | alt a b =>
      rw [run_alt] at h
      simp only [advT, Bool.and_eq_true] at ha
      cases hr : run g f a inp pos with
      | fail => rw [hr] at h; exact ih b pos p t ha.2 h
      | outOfFuel => rw [hr] at h; cases h
      | ok q tq =>
        rw [hr] at h
        cases h
        exact ih a pos p t ha.1 hr
    | plus a =>
      rw [run_plus] at h
      cases hr : run g f a inp pos with
      | fail => rw [hr] at h; cases h
      | outOfFuel => rw [hr] at h; cases h
      | ok q tq =>
        rw [hr] at h
        simp only at h
        cases hb : run g f (.star a) inp q with
        | fail => rw [hb] at h; cases h
        | outOfFuel => rw [hb] at h; cases h
        | ok q' tq' =>
          rw [hb] at h
          cases h
          have h1 := ih a pos q tq ha hr
          have h2 := run_pos_le f (.star a) q p tq' hb
          omega
    | cap a =>
      rw [run_cap] at h
      cases hr : run g f a inp pos with
      | fail => rw [hr] at h; cases h
      | outOfFuel => rw [hr] at h; cases h
      | ok q tq =>
        rw [hr] at h
        cases h
        exact ih a pos p tq ha hr

/-! ### arithmetic of `K * (characters left)` -/

theorem rem_mono (K : Nat) {s pos p : Nat} (h : pos ≤ p) : K * (s - p) ≤ K * (s - pos) :=
  Nat.mul_le_mul_left K (by omega)

theorem rem_step (K : Nat) {s pos p : Nat} (h1 : pos < p) (h2 : p ≤ s) : K * (s - p) + K ≤ K * (s - pos) := by
  have h : s - p + 1 ≤ s - pos := by omega
  calc K * (s - p) + K = K * (s - p + 1) := by rw [Nat.mul_succ]
    _ ≤ K * (s - pos) := Nat.mul_le_mul_left K h

/-- the induction behind `run_terminates`, for any tables that pass the checks -/
theorem run_terminates_tables {K : Nat} {A : AdvTable} {T : CostTable}
    (h : checkTables g K A T = true) :
    ∀ (f : Nat) (e : PE) (pos : Nat), wfPE A e = true → pos ≤ inp.size →
      costT K A T e + K * (inp.size - pos) ≤ f → run g f e inp pos ≠ .outOfFuel := by
  simp only [checkTables, Bool.and_eq_true] at h
  obtain ⟨⟨⟨hK, hA⟩, hW⟩, hC⟩ := h
  have hK : 1 ≤ K := Nat.le_of_ble_eq_true hK
  intro f
  induction f with
  | zero =>
    intro e pos _ _ hf
    exfalso
    cases e <;> simp only [costT] at hf <;> omega
  | succ f ih =>
    intro e pos hw hle hf
    cases e with
    | lit s => rw [run_lit]; split <;> simp
    | cls neg rs =>
      rw [run_cls]
      split
      · split <;> simp
      · simp
    | any => rw [run_any]; split <;> simp
    | act j => rw [run_act]; simp
    | rule x =>
      rw [run_rule]
      have hc := ruleBody_cost hC x
      simp only [costT] at hf
      exact ih _ _ (ruleBody_wf hW x) hle (by omega)
    | seq a b =>
      simp only [wfPE, Bool.and_eq_true] at hw
      simp only [costT] at hf
      rw [run_seq]
      have ha := ih a pos hw.1 hle (by omega)
      cases hr : run g f a inp pos with
      | fail => simp
      | outOfFuel => exact absurd hr ha
      | ok q tq =>
        simp only
        have hq := run_le_size f a pos q tq hle hr
        have hpq := run_pos_le f a pos q tq hr
        have hb : run g f b inp q ≠ .outOfFuel := by
          apply ih b q hw.2 hq
          split at hf
          · rename_i hadv
            have := rem_step K (adv_sound hA f a pos q tq hadv hr) hq
            omega
          · have := rem_mono K (s := inp.size) hpq
            omega
        cases hb' : run g f b inp q with
        | fail => simp
        | outOfFuel => exact absurd hb' hb
        | ok q' tq' => simp
    | alt a b =>
      simp only [wfPE, Bool.and_eq_true] at hw
      simp only [costT] at hf
      rw [run_alt]
      have ha := ih a pos hw.1 hle (by omega)
      have hb := ih b pos hw.2 hle (by omega)
      cases hr : run g f a inp pos with
      | fail => exact hb
      | outOfFuel => exact absurd hr ha
      | ok q tq => simp
    | star a =>
      simp only [wfPE, Bool.and_eq_true] at hw
      simp only [costT] at hf
      rw [run_star]
      have ha := ih a pos hw.2 hle (by omega)
      cases hr : run g f a inp pos with
      | fail => simp
      | outOfFuel => exact absurd hr ha
      | ok q tq =>
        simp only
        have hq := run_le_size f a pos q tq hle hr
        have hs : run g f (.star a) inp q ≠ .outOfFuel := by
          apply ih (.star a) q (by simp only [wfPE, Bool.and_eq_true]; exact hw) hq
          have := rem_step K (adv_sound hA f a pos q tq hw.1 hr) hq
          simp only [costT]
          omega
        cases hs' : run g f (.star a) inp q with
        | fail => simp
        | outOfFuel => exact absurd hs' hs
        | ok q' tq' => simp
    | plus a =>
      simp only [wfPE, Bool.and_eq_true] at hw
      simp only [costT] at hf
      rw [run_plus]
      have ha := ih a pos hw.2 hle (by omega)
      cases hr : run g f a inp pos with
      | fail => simp
      | outOfFuel => exact absurd hr ha
      | ok q tq =>
        simp only
        have hq := run_le_size f a pos q tq hle hr
        have hs : run g f (.star a) inp q ≠ .outOfFuel := by
          apply ih (.star a) q (by simp only [wfPE, Bool.and_eq_true]; exact hw) hq
          have := rem_mono K (s := inp.size) (run_pos_le f a pos q tq hr)
          simp only [costT]
          omega
        cases hs' : run g f (.star a) inp q with
        | fail => simp
        | outOfFuel => exact absurd hs' hs
        | ok q' tq' => simp
    | opt a =>
      simp only [wfPE] at hw
      simp only [costT] at hf
      rw [run_opt]
      have ha := ih a pos hw hle (by omega)
      cases hr : run g f a inp pos with
      | fail => simp
      | outOfFuel => exact absurd hr ha
      | ok q tq => simp
    | not a =>
      simp only [wfPE] at hw
      simp only [costT] at hf
      rw [run_not]
      have ha := ih a pos hw hle (by omega)
      cases hr : run g f a inp pos with
      | fail => simp
      | outOfFuel => exact absurd hr ha
      | ok q tq => simp
    | and a =>
      simp only [wfPE] at hw
      simp only [costT] at hf
      rw [run_and]
      have ha := ih a pos hw hle (by omega)
      cases hr : run g f a inp pos with
      | fail => simp
      | outOfFuel => exact absurd hr ha
      | ok q tq => simp
    | cap a =>
      simp only [wfPE] at hw
      simp only [costT] at hf
      rw [run_cap]
      have ha := ih a pos hw hle (by omega)
      cases hr : run g f a inp pos with
      | fail => simp
      | outOfFuel => exact absurd hr ha
      | ok q tq => simp

/-- **run_terminates.** Under a grammar the analysis accepts, `depthBound` is enough fuel: the interpreter
    answers `ok` or `fail`, at every position inside the input. -/
theorem run_terminates {K : Nat} (h : wfGrammar g K = true) (f : Nat) (e : PE) (pos : Nat)
    (hw : wfPE (advTable g) e = true) (hle : pos ≤ inp.size)
    (hf : depthBound g K e (inp.size - pos) ≤ f) : run g f e inp pos ≠ .outOfFuel :=
  run_terminates_tables h f e pos hw hle hf

/-- … in particular for the body of every rule -/
theorem run_rule_terminates {K : Nat} (h : wfGrammar g K = true) (f : Nat) (x : String) (pos : Nat)
    (hle : pos ≤ inp.size) (hf : depthBound g K (ruleBody g x) (inp.size - pos) ≤ f) :
    run g f (ruleBody g x) inp pos ≠ .outOfFuel := by
  have hW : checkWf g (advTable g) = true := by
    have h' := h
    simp only [wfGrammar, checkTables, Bool.and_eq_true] at h'
    exact h'.1.2
  exact run_terminates h f _ pos (ruleBody_wf hW x) hle hf

/-- every loop body of an accepted grammar consumes a character per iteration -/
theorem wfGrammar_adv_sound {K : Nat} (h : wfGrammar g K = true) (f : Nat) (e : PE) (pos p : Nat) (t : List Tok)
    (ha : advT (advTable g) e = true) (hr : run g f e inp pos = .ok p t) : pos < p := by
  have hA : checkAdv g (advTable g) = true := by
    have h' := h
    simp only [wfGrammar, checkTables, Bool.and_eq_true] at h'
    exact h'.1.1.2
  exact adv_sound hA f e pos p t ha hr

end JPV.Peg.Term
