/-
C18ErrFails — C18 for the DENOTATION of failures: two trees of the same shape (`C18E.sameCh`)
select the same values (`den_same`) and meet, position by position, errors of the same kind at
`R`-related Infos (`fails_same`).
-/
import JPV.Lemmas.C18ErrSim
import JPV.Fails
namespace JPV
namespace C18E
open Impl TSem Fails

/-! ### part 1: the denotation does not read the Infos -/

theorem ids_den {C : Prop} {R : Info → Info → Prop} {β : Type} (fk : String → List β) (fw : List β) :
    ∀ (ids ids' : List MId), sameIds C R ids ids' →
      ids.flatMap (fun id => match id with | .key _ k => fk k | .wild _ => fw)
        = ids'.flatMap (fun id => match id with | .key _ k => fk k | .wild _ => fw)
  | [], [], _ => rfl
  | [], _ :: _, h => h.elim
  | _ :: _, [], h => h.elim
  | id :: ids, id' :: ids', h => by
    simp only [List.flatMap_cons, ids_den fk fw ids ids' h.2]
    cases id <;> cases id' <;> first
      | exact h.1.elim
      | (obtain ⟨_, hk⟩ := h.1; subst hk; rfl)
      | rfl

mutual
theorem den_same (env : Env) (C : Prop) (R : Info → Info → Prop) :
    ∀ (ch ch' : List N), sameCh C R ch ch' → ∀ (root cur : Val), den env ch root cur = den env ch' root cur
  | [], ch', h => by
    simp only [sameCh] at h
    subst h
    intro _ _; rfl
  | n :: rest, ch', h => by
    cases ch' with
    | nil => simp only [sameCh] at h
    | cons n' rest' =>
      simp only [sameCh] at h
      have ih := den_same env C R rest rest' h.2
      have hn := h.1
      intro root cur
      cases n with
      | root i => cases n' <;> simp only [sameN] at hn; simp only [den, ih]
      | cur i => cases n' <;> simp only [sameN] at hn; simp only [den, ih]
      | child i k =>
        cases n' <;> simp only [sameN] at hn
        obtain ⟨_, hk⟩ := hn
        subst hk
        simp only [den, ih]
      | wild i => cases n' <;> simp only [sameN] at hn; simp only [den, ih]
      | multi i ids t =>
        cases n' with
        | multi i' ids' t' =>
          simp only [sameN] at hn
          obtain ⟨_, hids, htw⟩ := hn
          cases t with
          | none =>
            cases t' with
            | some _ => exact htw.elim
            | none =>
              cases cur <;> simp only [den, ih]
              exact ids_den _ _ ids ids' hids
          | some ti =>
            cases t' with
            | none => exact htw.elim
            | some ti' =>
              cases cur <;> simp only [den, ih]
              · exact sameIds_length ids ids' hids _
              · exact ids_den _ _ ids ids' hids
        | _ => simp only [sameN] at hn
      | desc i a b =>
        cases n' <;> simp only [sameN] at hn
        obtain ⟨_, ha, hb⟩ := hn
        subst ha hb
        simp only [den, ih]
      | union i subs =>
        cases n' <;> simp only [sameN] at hn
        obtain ⟨_, hs⟩ := hn
        subst hs
        simp only [den, ih]
      | filter i q =>
        cases n' with
        | filter i' q' =>
          simp only [sameN] at hn
          simp only [den, ih, semQ_same env R q q' hn.2]
        | _ => simp only [sameN] at hn
      | ffn i name =>
        cases n' <;> simp only [sameN] at hn
        obtain ⟨_, hk⟩ := hn
        subst hk
        simp only [den, ih]
      | afn i name param =>
        cases n' with
        | afn i' name' param' =>
          simp only [sameN] at hn
          obtain ⟨_, hk, hp⟩ := hn
          subst hk
          simp only [den, ih, den_same env C R param param' hp, sameCh_vg hp]
        | _ => simp only [sameN] at hn
theorem semQ_same (env : Env) (R : Info → Info → Prop) :
    ∀ (q q' : Q), sameQ R q q' → ∀ (root : Val) (ms : List Val), semQ env q root ms = semQ env q' root ms
  | .exist p, q', h => by
    cases q' with
    | exist p' =>
      simp only [sameQ] at h
      intro root ms
      simp only [semQ, pden_same env R p p' h]
    | _ => simp only [sameQ] at h
  | .not a, q', h => by
    cases q' with
    | not a' =>
      simp only [sameQ] at h
      intro root ms
      simp only [semQ, semQ_same env R a a' h]
    | _ => simp only [sameQ] at h
  | .and a b, q', h => by
    cases q' with
    | and a' b' =>
      simp only [sameQ] at h
      intro root ms
      simp only [semQ, semQ_same env R a a' h.1, semQ_same env R b b' h.2]
    | _ => simp only [sameQ] at h
  | .or a b, q', h => by
    cases q' with
    | or a' b' =>
      simp only [sameQ] at h
      intro root ms
      simp only [semQ, semQ_same env R a a' h.1, semQ_same env R b b' h.2]
    | _ => simp only [sameQ] at h
  | .cmp l r c, q', h => by
    cases q' with
    | cmp l' r' c' =>
      simp only [sameQ] at h
      obtain ⟨hl, hr, hc⟩ := h
      subst hc
      intro root ms
      simp only [semQ, pden_same env R l l' hl, pden_same env R r r' hr]
    | _ => simp only [sameQ] at h
theorem pden_same (env : Env) (R : Info → Info → Prop) :
    ∀ (p p' : P), sameP R p p' → ∀ (root : Val) (ms : List Val), pden env p root ms = pden env p' root ms
  | .lit v, p', h => by
    simp only [sameP] at h
    subst h
    intro _ _; rfl
  | .proot ch, p', h => by
    cases p' with
    | proot ch' =>
      simp only [sameP] at h
      intro root ms
      simp only [pden, den_same env False R ch ch' h]
    | _ => simp only [sameP] at h
  | .pcur ch, p', h => by
    cases p' with
    | pcur ch' =>
      simp only [sameP] at h
      intro root ms
      simp only [pden, den_same env False R ch ch' h]
    | _ => simp only [sameP] at h
end

/-! ### part 2: the failures are related position by position -/

/-- the two lists have the same length and `ErrRel R` holds position by position -/
def allRel (R : Info → Info → Prop) : List RtErr → List RtErr → Prop
  | [], [] => True
  | e :: l, e' :: l' => ErrRel R e e' ∧ allRel R l l'
  | _, _ => False

theorem allRel_length {R : Info → Info → Prop} : ∀ {l l' : List RtErr}, allRel R l l' → l.length = l'.length
  | [], [], _ => rfl
  | [], _ :: _, h => h.elim
  | _ :: _, [], h => h.elim
  | _ :: l, _ :: l', h => by
    simp only [List.length_cons, allRel_length (l := l) (l' := l') h.2]

theorem allRel_get {R : Info → Info → Prop} : ∀ {l l' : List RtErr}, allRel R l l' → ∀ (k : Nat) (e : RtErr),
    l[k]? = some e → ∃ e', l'[k]? = some e' ∧ ErrRel R e e'
  | [], [], _, k, e, hk => by simp at hk
  | [], _ :: _, h, _, _, _ => h.elim
  | _ :: _, [], h, _, _, _ => h.elim
  | a :: l, a' :: l', h, 0, e, hk => by
    simp only [List.getElem?_cons_zero, Option.some.injEq] at hk
    subst hk
    exact ⟨a', by simp only [List.getElem?_cons_zero], h.1⟩
  | a :: l, a' :: l', h, k + 1, e, hk => by
    simp only [List.getElem?_cons_succ] at hk ⊢
    exact allRel_get (l := l) (l' := l') h.2 k e hk

theorem allRel_append {R : Info → Info → Prop} : ∀ {a a' b b' : List RtErr}, allRel R a a' → allRel R b b' →
    allRel R (a ++ b) (a' ++ b')
  | [], [], _, _, _, hb => hb
  | [], _ :: _, _, _, h, _ => h.elim
  | _ :: _, [], _, _, h, _ => h.elim
  | _ :: a, _ :: a', _, _, h, hb => ⟨h.1, allRel_append (a := a) (a' := a') h.2 hb⟩

theorem allRel_flatMap {R : Info → Info → Prop} {α : Type} (F F' : α → List RtErr) (h : ∀ x, allRel R (F x) (F' x)) :
    ∀ (xs : List α), allRel R (xs.flatMap F) (xs.flatMap F')
  | [] => trivial
  | x :: xs => by
    simp only [List.flatMap_cons]
    exact allRel_append (h x) (allRel_flatMap F F' h xs)

theorem allRel_grp {R : Info → Info → Prop} {α : Type} {i i' : Info} (hi : R i i') (xs : List α)
    (F F' : α → List RtErr) (h : ∀ x, allRel R (F x) (F' x)) : allRel R (grp i xs F) (grp i' xs F') := by
  unfold grp
  split
  · exact ⟨hi, trivial⟩
  · exact allRel_flatMap F F' h xs

theorem allRel_type {R : Info → Info → Prop} {i i' : Info} (hi : R i i') (x : String) (v : Val) :
    allRel R [typeErr i x v] [typeErr i' x v] := ⟨⟨hi, rfl, rfl⟩, trivial⟩

/-- related continuations -/
def KRel (R : Info → Info → Prop) (K K' : Val → Val → List RtErr) : Prop :=
  ∀ (root v : Val), allRel R (K root v) (K' root v)

theorem ids_all {C : Prop} {R : Info → Info → Prop} (kvs : List (String × Val)) :
    ∀ (ids ids' : List MId), sameIds C R ids ids' → ids.all (absentKey kvs) = ids'.all (absentKey kvs)
  | [], [], _ => rfl
  | [], _ :: _, h => h.elim
  | _ :: _, [], h => h.elim
  | id :: ids, id' :: ids', h => by
    simp only [List.all_cons, ids_all kvs ids ids' h.2]
    cases id <;> cases id' <;> first
      | exact h.1.elim
      | (obtain ⟨_, hk⟩ := h.1; subst hk; rfl)
      | rfl

theorem ids_fails {R : Info → Info → Prop} {K K' : Val → Val → List RtErr} (hK : KRel R K K') (root : Val)
    (kvs : List (String × Val)) :
    ∀ (ids ids' : List MId), sameIds True R ids ids' →
      allRel R
        (ids.flatMap (fun id =>
          match id with
          | .key _ k => (match Val.lookup k kvs with
            | some v => K root v
            | none => [])
          | .wild ii => grp ii (sortKV kvs) (fun kv => K root kv.2)))
        (ids'.flatMap (fun id =>
          match id with
          | .key _ k => (match Val.lookup k kvs with
            | some v => K' root v
            | none => [])
          | .wild ii => grp ii (sortKV kvs) (fun kv => K' root kv.2)))
  | [], [], _ => trivial
  | [], _ :: _, h => h.elim
  | _ :: _, [], h => h.elim
  | id :: ids, id' :: ids', h => by
    simp only [List.flatMap_cons]
    refine allRel_append ?_ (ids_fails hK root kvs ids ids' h.2)
    cases id with
    | key ii k =>
      cases id' with
      | wild _ => exact h.1.elim
      | key ii' k' =>
        obtain ⟨_, hk⟩ := h.1
        subst hk
        simp only []
        cases Val.lookup k kvs with
        | none => trivial
        | some v => exact hK root v
    | wild ii =>
      cases id' with
      | key _ _ => exact h.1.elim
      | wild ii' =>
        have hii : RI True R ii ii' := h.1
        exact allRel_grp (hii.1 trivial) _ _ _ (fun kv => hK root kv.2)

section nodes
variable {env : Env} {R : Info → Info → Prop} {K K' : Val → Val → List RtErr}

theorem root_fails {i i' : Info} (hK : KRel R K K') (root cur : Val) :
    allRel R (failsN env (.root i) K root cur) (failsN env (.root i') K' root cur) := by
  simp only [failsN]; exact hK _ _

theorem cur_fails {i i' : Info} (hK : KRel R K K') (root cur : Val) :
    allRel R (failsN env (.cur i) K root cur) (failsN env (.cur i') K' root cur) := by
  simp only [failsN]; exact hK _ _

theorem child_fails {i i' : Info} (k : String) (hi : RI True R i i') (hK : KRel R K K') (root cur : Val) :
    allRel R (failsN env (.child i k) K root cur) (failsN env (.child i' k) K' root cur) := by
  cases cur with
  | obj kvs =>
    simp only [failsN]
    cases Val.lookup k kvs with
    | none => exact ⟨hi.1 trivial, trivial⟩
    | some v => exact hK root v
  | _ => simp only [failsN]; exact allRel_type (hi.1 trivial) _ _

theorem wild_fails {i i' : Info} (hi : RI True R i i') (hK : KRel R K K') (root cur : Val) :
    allRel R (failsN env (.wild i) K root cur) (failsN env (.wild i') K' root cur) := by
  cases cur with
  | obj kvs => simp only [failsN]; exact allRel_grp (hi.1 trivial) _ _ _ (fun kv => hK root kv.2)
  | arr xs => simp only [failsN]; exact allRel_grp (hi.1 trivial) _ _ _ (fun x => hK root x)
  | _ => simp only [failsN]; exact allRel_type (hi.1 trivial) _ _

theorem multi_fails {i i' : Info} {ids ids' : List MId} {tw tw' : Option Info} (hi : RI True R i i')
    (hids : sameIds True R ids ids') (htw : sameTw True R tw tw') (hK : KRel R K K') (root cur : Val) :
    allRel R (failsN env (.multi i ids tw) K root cur) (failsN env (.multi i' ids' tw') K' root cur) := by
  have hobj : ∀ kvs : List (String × Val), allRel R
      (if ids.all (absentKey kvs) then [.member i]
       else ids.flatMap (fun id =>
        match id with
        | .key _ k => (match Val.lookup k kvs with
          | some v => K root v
          | none => [])
        | .wild ii => grp ii (sortKV kvs) (fun kv => K root kv.2)))
      (if ids'.all (absentKey kvs) then [.member i']
       else ids'.flatMap (fun id =>
        match id with
        | .key _ k => (match Val.lookup k kvs with
          | some v => K' root v
          | none => [])
        | .wild ii => grp ii (sortKV kvs) (fun kv => K' root kv.2))) := by
    intro kvs
    rw [ids_all kvs ids ids' hids]
    split
    · exact ⟨hi.1 trivial, trivial⟩
    · exact ids_fails hK root kvs ids ids' hids
  cases tw with
  | none =>
    cases tw' with
    | some _ => exact htw.elim
    | none =>
      cases cur with
      | obj kvs => simp only [failsN]; exact hobj kvs
      | _ => simp only [failsN]; exact allRel_type (hi.1 trivial) _ _
  | some ti =>
    cases tw' with
    | none => exact htw.elim
    | some ti' =>
      have hti : RI True R ti ti' := htw
      cases cur with
      | obj kvs => simp only [failsN]; exact hobj kvs
      | arr xs =>
        simp only [failsN, sameIds_length ids ids' hids xs]
        exact allRel_grp (hti.1 trivial) _ _ _ (fun x => hK root x)
      | _ => simp only [failsN]; exact allRel_type (hi.1 trivial) _ _

theorem desc_fails {i i' : Info} (mr lr : Bool) (hi : RI True R i i') (hK : KRel R K K') (root cur : Val) :
    allRel R (failsN env (.desc i mr lr) K root cur) (failsN env (.desc i' mr lr) K' root cur) := by
  simp only [failsN]
  split
  · exact allRel_grp (hi.1 trivial) _ _ _ (fun c => hK root c)
  · exact allRel_type (hi.1 trivial) _ _

theorem union_fails {i i' : Info} (subs : List SubI) (hi : RI True R i i') (hK : KRel R K K') (root cur : Val) :
    allRel R (failsN env (.union i subs) K root cur) (failsN env (.union i' subs) K' root cur) := by
  cases cur with
  | arr xs =>
    simp only [failsN]
    refine allRel_grp (hi.1 trivial) _ _ _ (fun ix => ?_)
    generalize (if ix < 0 then none else xs[ix.toNat]?) = o
    cases o with
    | none => trivial
    | some v => exact hK root v
  | _ => simp only [failsN]; exact allRel_type (hi.1 trivial) _ _

theorem filter_fails {i i' : Info} {q q' : Q} (hi : RI True R i i') (hq : sameQ R q q') (hK : KRel R K K')
    (root cur : Val) :
    allRel R (failsN env (.filter i q) K root cur) (failsN env (.filter i' q') K' root cur) := by
  simp only [failsN, semQ_same env R q q' hq]
  split
  · exact allRel_grp (hi.1 trivial) _ _ _ (fun v => hK root v)
  · exact allRel_type (hi.1 trivial) _ _

theorem ffn_fails {i i' : Info} (name : String) (hi : RI True R i i') (hK : KRel R K K') (root cur : Val) :
    allRel R (failsN env (.ffn i name) K root cur) (failsN env (.ffn i' name) K' root cur) := by
  simp only [failsN]
  cases env.ffn name with
  | none => trivial
  | some f =>
    simp only []
    cases f cur with
    | none => exact ⟨hi.1 trivial, trivial⟩
    | some r => exact hK root r

theorem afn_fails {i i' : Info} (name : String) {param param' : List N} (hi : RI True R i i')
    (hp : sameCh True R param param')
    (ihp : ∀ root cur, allRel R (fails env param root cur) (fails env param' root cur))
    (hK : KRel R K K') (root cur : Val) :
    allRel R (failsN env (.afn i name param) K root cur) (failsN env (.afn i' name param') K' root cur) := by
  simp only [failsN, den_same env True R param param' hp, sameCh_vg hp]
  refine allRel_append (ihp root cur) ?_
  cases den env param' root cur with
  | nil => trivial
  | cons r0 rs =>
    simp only []
    cases env.afn name with
    | none => trivial
    | some f =>
      simp only []
      cases f (aggArgs (chainVg param') r0 (r0 :: rs)) with
      | none => exact ⟨hi.1 trivial, trivial⟩
      | some r => exact hK root r

end nodes

/-- two trees of the same shape meet the same failures, at related Infos, in the same order -/
theorem fails_allRel (env : Env) (R : Info → Info → Prop) :
    ∀ (ch ch' : List N), sameCh True R ch ch' →
      ∀ (root cur : Val), allRel R (fails env ch root cur) (fails env ch' root cur)
  | [], ch', h => by
    simp only [sameCh] at h
    subst h
    intro _ _
    simp only [fails]
    trivial
  | n :: rest, ch', h => by
    cases ch' with
    | nil => simp only [sameCh] at h
    | cons n' rest' =>
      simp only [sameCh] at h
      have ih := fails_allRel env R rest rest' h.2
      have hK : KRel R (fun r v => fails env rest r v) (fun r v => fails env rest' r v) := fun r v => ih r v
      have hn := h.1
      intro root cur
      simp only [fails]
      cases n with
      | root i => cases n' <;> simp only [sameN] at hn; exact root_fails hK root cur
      | cur i => cases n' <;> simp only [sameN] at hn; exact cur_fails hK root cur
      | child i k =>
        cases n' <;> simp only [sameN] at hn
        obtain ⟨hi, hk⟩ := hn
        subst hk
        exact child_fails k hi hK root cur
      | wild i => cases n' <;> simp only [sameN] at hn; exact wild_fails hn hK root cur
      | multi i ids t =>
        cases n' <;> simp only [sameN] at hn
        exact multi_fails hn.1 hn.2.1 hn.2.2 hK root cur
      | desc i a b =>
        cases n' <;> simp only [sameN] at hn
        obtain ⟨hi, ha, hb⟩ := hn
        subst ha hb
        exact desc_fails a b hi hK root cur
      | union i subs =>
        cases n' <;> simp only [sameN] at hn
        obtain ⟨hi, hs⟩ := hn
        subst hs
        exact union_fails subs hi hK root cur
      | filter i q =>
        cases n' with
        | filter i' q' =>
          simp only [sameN] at hn
          exact filter_fails hn.1 hn.2 hK root cur
        | _ => simp only [sameN] at hn
      | ffn i name =>
        cases n' <;> simp only [sameN] at hn
        obtain ⟨hi, hk⟩ := hn
        subst hk
        exact ffn_fails name hi hK root cur
      | afn i name param =>
        cases n' with
        | afn i' name' param' =>
          simp only [sameN] at hn
          obtain ⟨hi, hk, hp⟩ := hn
          subst hk
          exact afn_fails name hi hp (fails_allRel env R param param' hp) hK root cur
        | _ => simp only [sameN] at hn

/-- `fails_same`, stated with `allRel` (core Lean has no `List.Forall₂`) -/
theorem fails_same {env : Env} {R : Info → Info → Prop} {ch ch' : List N} (h : sameCh True R ch ch') :
    ∀ (root cur : Val), allRel R (fails env ch root cur) (fails env ch' root cur) :=
  fails_allRel env R ch ch' h

theorem fails_same_length {env : Env} {R : Info → Info → Prop} {ch ch' : List N} (h : sameCh True R ch ch')
    (root cur : Val) : (fails env ch root cur).length = (fails env ch' root cur).length :=
  allRel_length (fails_allRel env R ch ch' h root cur)

theorem fails_same_get {env : Env} {R : Info → Info → Prop} {ch ch' : List N} (h : sameCh True R ch ch')
    (root cur : Val) (k : Nat) (e : RtErr) (hk : (fails env ch root cur)[k]? = some e) :
    ∃ e', (fails env ch' root cur)[k]? = some e' ∧ ErrRel R e e' :=
  allRel_get (fails_allRel env R ch ch' h root cur) k e hk

end C18E
end JPV
