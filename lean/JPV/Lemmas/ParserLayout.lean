/-
ParserLayout — the abstraction between the heap of `JPV/ParserNode.lean` (what the regenerated parser
helpers of `Gen/ParserHelpersGo.lean` work on: cells with `next` links, shared tails, addresses) and the
chains-as-lists of `Tree` / `Peg/Actions.lean`.

A LAYOUT is a tree `LN` / `LQ` / `LP` of the same shape as `Tree.N` / `Q` / `P` in which every node also
carries its ADDRESS (and the addresses of the inner identifiers and of the all-wildcard twin of a
multi-name node, and the concrete subscripts of a union). Two functions read a layout:

* `erase…`  forgets the addresses: the `Tree` value the model works on;
* `cells…`  lists the heap cells the layout stands for: `(address, Cell)` pairs, where the `next` of a
  node is the address of its successor in the list, the inner identifiers and the twin of a
  multi-name node have the SAME `next` as the multi node (the sharing `setNext` establishes), `param`
  of an aggregate is the head of its parameter chain, `errorRuntime` points to the node itself
  (nil for `$` and `@`), a query holds the head addresses of its operand chains.

`Sat h cs`: the heap holds these cells. A heap REPRESENTS a chain `ch : List N` at `r : NRef` when there is
a layout `l` with `eraseCh l = ch`, `headRef l = r`, `Sat h (cellsCh l none)` and pairwise different
addresses (`(ids (cellsCh l none)).Nodup`): no sharing other than the one described, no cycles.
-/
import JPV.ParserNode
import JPV.Peg.Actions
namespace JPV
namespace ParserLayout
open JPV JPV.ParserNode JPV.Peg

/-! ### layouts -/

/-- an inner identifier of a multi-name node and its address -/
structure LId where
  id : Nat
  m : MId
  deriving Inhabited

mutual
inductive LN where
  | mk (id : Nat) (i : Info) (s : LShape)
inductive LShape where
  | root
  | cur
  | child (k : String)
  | wild
  | multi (ids : List LId) (twin : Option (Nat × Info))
  | desc (a b : Bool)
  | union (subs : List GSub)
  | filter (q : LQ)
  | ffn (name : String)
  | afn (name : String) (param : List LN)
inductive LQ where
  | or (a b : LQ)
  | and (a b : LQ)
  | not (a : LQ)
  | cmp (l r : LP) (c : Cmp)
  | exist (p : LP)
inductive LP where
  | lit (l : Lit)
  | proot (ch : List LN)
  | pcur (ch : List LN)
end

instance : Inhabited LN := ⟨.mk 0 default .root⟩

def LN.id : LN → Nat
  | .mk id _ _ => id
def LN.info : LN → Info
  | .mk _ i _ => i
def LN.shape : LN → LShape
  | .mk _ _ s => s

def LShape.kind : LShape → Kind
  | .root => .root
  | .cur => .cur
  | .child _ => .child
  | .wild => .wild
  | .multi _ _ => .multi
  | .desc _ _ => .desc
  | .union _ => .union
  | .filter _ => .filter
  | .ffn _ => .ffn
  | .afn _ _ => .afn

/-- the `syntaxNode` value that points to the node -/
def LN.ref : LN → NRef
  | .mk id _ s => some (s.kind, id)

/-- the head of a chain (`none`: the nil interface) -/
def headRef : List LN → NRef
  | [] => none
  | n :: _ => n.ref

/-- the head of a chain, or `tl` when the chain is empty -/
def headRefD (ch : List LN) (tl : NRef) : NRef :=
  match ch with
  | [] => tl
  | n :: _ => n.ref

def MId.kind : MId → Kind
  | .key _ _ => .child
  | .wild _ => .wild

def MId.info : MId → Info
  | .key i _ => i
  | .wild i => i

def LId.ref (l : LId) : NRef := some (MId.kind l.m, l.id)

/-! ### erasure: the `Tree` value -/

def subI : GSub → SubI
  | .index i => .idx i.number
  | .slicePositive _ s e t => .slicePos ⟨s.number, s.isOmitted⟩ ⟨e.number, e.isOmitted⟩ ⟨t.number, t.isOmitted⟩
  | .sliceNegative _ s e t => .sliceNeg ⟨s.number, s.isOmitted⟩ ⟨e.number, e.isOmitted⟩ ⟨t.number, t.isOmitted⟩
  | .wildcard _ => .wild

mutual
def eraseN : LN → N
  | .mk _ i s => eraseS i s
def eraseS (i : Info) : LShape → N
  | .root => .root i
  | .cur => .cur i
  | .child k => .child i k
  | .wild => .wild i
  | .multi ids twin => .multi i (ids.map (·.m)) (twin.map (·.2))
  | .desc a b => .desc i a b
  | .union subs => .union i (subs.map subI)
  | .filter q => .filter i (eraseQ q)
  | .ffn name => .ffn i name
  | .afn name p => .afn i name (eraseCh p)
def eraseCh : List LN → List N
  | [] => []
  | n :: rest => eraseN n :: eraseCh rest
def eraseQ : LQ → Q
  | .or a b => .or (eraseQ a) (eraseQ b)
  | .and a b => .and (eraseQ a) (eraseQ b)
  | .not a => .not (eraseQ a)
  | .cmp l r c => .cmp (eraseP l) (eraseP r) c
  | .exist p => .exist (eraseP p)
def eraseP : LP → P
  | .lit l => .lit l.toVal
  | .proot ch => .proot (eraseCh ch)
  | .pcur ch => .pcur (eraseCh ch)
end

/-! ### concretisation: the heap cells -/

def itemOfLit : Lit → GItem
  | .num n => .num n
  | .bool b => .bool b
  | .str s => .str s
  | .null => .nilv

mutual
/-- the query object -/
def gq : LQ → GQ
  | .or a b => .or (gq a) (gq b)
  | .and a b => .and (gq a) (gq b)
  | .not a => .not (gq a)
  | .cmp l r c => .cmp (gcp l) (gcp r) c
  | .exist p => gparam p
/-- the parameter node `syntaxQueryParam…` -/
def gparam : LP → GQ
  | .lit l => .lit [itemOfLit l]
  | .proot ch => .proot (headRef ch)
  | .pcur ch => .pcur (headRef ch)
/-- the `syntaxBasicCompareParameter` around it -/
def gcp : LP → GCP
  | .lit l => .mk (.lit [itemOfLit l]) true
  | .proot ch => .mk (.proot (headRef ch)) true
  | .pcur ch => .mk (.pcur (headRef ch)) false
end

/-- `errorRuntime` of a node at `id`: set by every constructor except those of `$` and `@` -/
def errOf (id : Nat) : LShape → ErrRt
  | .root => none
  | .cur => none
  | _ => some (some id)

/-- the struct value `unionQualifier` of a multi-name node -/
def uqOf (n : Nat) : Option (Nat × Info) → UQ
  | none => {}
  | some (t, _) => { basic := some t, subscripts := List.replicate n (GSub.wildcard none) }

/-- the cell of a node -/
def nodeCell (id : Nat) (i : Info) (s : LShape) (nx : NRef) : Cell :=
  { text := i.text
    connectedText := i.conn
    valueGroup := i.vg
    next := nx
    accessorMode := i.acc
    errorRuntime := errOf id s
    identifier := match s with | .child k => k | _ => ""
    identifiers := match s with | .multi ids _ => ids.map LId.ref | _ => []
    isAllWildcard := match s with | .multi _ twin => twin.isSome | _ => false
    unionQualifier := match s with | .multi ids twin => uqOf ids.length twin | _ => {}
    nextMapRequired := match s with | .desc a _ => a | _ => false
    nextListRequired := match s with | .desc _ b => b | _ => false
    subscripts := match s with | .union subs => subs | _ => []
    query := match s with | .filter q => gq q | _ => .nilq
    function := match s with | .ffn name => some name | .afn name _ => some name | _ => none
    param := match s with | .afn _ p => headRef p | _ => none }

/-- a bare `syntaxBasicNode` with an `errorRuntime` of its own -/
def plainCell (id : Nat) (i : Info) (nx : NRef) : Cell :=
  { text := i.text, connectedText := i.conn, valueGroup := i.vg, next := nx, accessorMode := i.acc,
    errorRuntime := some (some id) }

/-- the cell of an inner identifier -/
def innerCell (l : LId) (nx : NRef) : Cell :=
  { plainCell l.id (MId.info l.m) nx with identifier := match l.m with | .key _ k => k | .wild _ => "" }

def innerCells (ids : List LId) (nx : NRef) : List (Nat × Cell) := ids.map (fun l => (l.id, innerCell l nx))

def twinCells (twin : Option (Nat × Info)) (nx : NRef) : List (Nat × Cell) :=
  match twin with
  | none => []
  | some (t, ti) => [(t, plainCell t ti nx)]

mutual
/-- the cells of a node whose `next` is `nx` -/
def cellsN : LN → NRef → List (Nat × Cell)
  | .mk id i s, nx => (id, nodeCell id i s nx) :: cellsS nx s
/-- the cells a node owns besides its own -/
def cellsS (nx : NRef) : LShape → List (Nat × Cell)
  | .multi ids twin => innerCells ids nx ++ twinCells twin nx
  | .filter q => cellsQ q
  | .afn _ p => cellsCh p none
  | _ => []
/-- the cells of a chain whose last node has `next = tl` -/
def cellsCh : List LN → NRef → List (Nat × Cell)
  | [], _ => []
  | n :: rest, tl => cellsN n (headRefD rest tl) ++ cellsCh rest tl
def cellsQ : LQ → List (Nat × Cell)
  | .or a b => cellsQ a ++ cellsQ b
  | .and a b => cellsQ a ++ cellsQ b
  | .not a => cellsQ a
  | .cmp l r _ => cellsP l ++ cellsP r
  | .exist p => cellsP p
def cellsP : LP → List (Nat × Cell)
  | .lit _ => []
  | .proot ch => cellsCh ch none
  | .pcur ch => cellsCh ch none
end

/-- the addresses -/
def ids (cs : List (Nat × Cell)) : List Nat := cs.map (·.1)

/-- the heap holds these cells -/
def Sat (h : Heap) (cs : List (Nat × Cell)) : Prop := ∀ x ∈ cs, h[x.1]? = some x.2

/-- `h'` differs from `h` at most at the addresses in `S` -/
def Frame (S : List Nat) (h h' : Heap) : Prop := h'.length = h.length ∧ ∀ i, i ∉ S → h'[i]? = h[i]?


/-! ### updates of the `Info` of a node, on layouts and on cells -/

def LId.mapInfo (f : Info → Info) (l : LId) : LId := { l with m := midMapInfo f l.m }

/-- what `syntaxChildMultiIdentifier` forwards to its inner identifiers and its twin -/
def LShape.mapDeep (f : Info → Info) : LShape → LShape
  | .multi ids twin => .multi (ids.map (LId.mapInfo f)) (twin.map (fun t => (t.1, f t.2)))
  | s => s

def LN.mapDeep (f : Info → Info) : LN → LN
  | .mk id i s => .mk id (f i) (s.mapDeep f)

def LN.mapInfo (f : Info → Info) : LN → LN
  | .mk id i s => .mk id (f i) s

/-- the update of the four `Info` fields of a cell -/
def cellInfo (f : Info → Info) (c : Cell) : Cell :=
  { c with
    text := (f ⟨c.text, c.connectedText, c.valueGroup, c.accessorMode⟩).text
    connectedText := (f ⟨c.text, c.connectedText, c.valueGroup, c.accessorMode⟩).conn
    valueGroup := (f ⟨c.text, c.connectedText, c.valueGroup, c.accessorMode⟩).vg
    accessorMode := (f ⟨c.text, c.connectedText, c.valueGroup, c.accessorMode⟩).acc }

theorem LId.ref_mapInfo (f : Info → Info) (l : LId) : (l.mapInfo f).ref = l.ref := by
  obtain ⟨id, m⟩ := l
  cases m <;> rfl

theorem LId.id_mapInfo (f : Info → Info) (l : LId) : (l.mapInfo f).id = l.id := rfl

theorem LShape.kind_mapDeep (f : Info → Info) (s : LShape) : (s.mapDeep f).kind = s.kind := by
  cases s <;> rfl

theorem LN.ref_mapDeep (f : Info → Info) (n : LN) : (n.mapDeep f).ref = n.ref := by
  obtain ⟨id, i, s⟩ := n
  simp only [LN.mapDeep, LN.ref, LShape.kind_mapDeep]

theorem LN.ref_mapInfo (f : Info → Info) (n : LN) : (n.mapInfo f).ref = n.ref := by
  obtain ⟨id, i, s⟩ := n
  rfl

theorem plainCell_info (f : Info → Info) (t : Nat) (ti : Info) (nx : NRef) :
    plainCell t (f ti) nx = cellInfo f (plainCell t ti nx) := rfl

theorem innerCell_info (f : Info → Info) (l : LId) (nx : NRef) :
    innerCell (l.mapInfo f) nx = cellInfo f (innerCell l nx) := by
  obtain ⟨id, m⟩ := l
  cases m <;> rfl

theorem nodeCell_info (f : Info → Info) (id : Nat) (i : Info) (s : LShape) (nx : NRef) :
    nodeCell id (f i) s nx = cellInfo f (nodeCell id i s nx) := rfl

theorem nodeCell_mapDeep (f : Info → Info) (id : Nat) (i : Info) (s : LShape) (nx : NRef) :
    nodeCell id (f i) (s.mapDeep f) nx = cellInfo f (nodeCell id i s nx) := by
  cases s <;> try rfl
  case multi L twin =>
    have h1 : (L.map (LId.mapInfo f)).map LId.ref = L.map LId.ref := by
      rw [List.map_map]
      apply List.map_congr_left
      intro l _
      exact LId.ref_mapInfo f l
    have h2 : (twin.map (fun t => (t.1, f t.2))).isSome = twin.isSome := by cases twin <;> rfl
    have h3 : uqOf (L.map (LId.mapInfo f)).length (twin.map (fun t => (t.1, f t.2))) = uqOf L.length twin := by
      rw [List.length_map]
      cases twin <;> rfl
    simp only [LShape.mapDeep, nodeCell, cellInfo, h1, h2, h3]
    rfl

theorem innerCells_mapInfo (f : Info → Info) (L : List LId) (nx : NRef) :
    innerCells (L.map (LId.mapInfo f)) nx = L.map (fun l => (l.id, cellInfo f (innerCell l nx))) := by
  unfold innerCells
  rw [List.map_map]
  apply List.map_congr_left
  intro l _
  show ((l.mapInfo f).id, innerCell (l.mapInfo f) nx) = _
  rw [innerCell_info]
  rfl

/-! ### erasure commutes with the updates -/

theorem eraseN_mapInfo (f : Info → Info) (n : LN) : eraseN (n.mapInfo f) = nMapInfo f (eraseN n) := by
  obtain ⟨id, i, s⟩ := n
  cases s <;> rfl

theorem eraseN_mapDeep (f : Info → Info) (n : LN) : eraseN (n.mapDeep f) = nMapInfoDeep f (eraseN n) := by
  obtain ⟨id, i, s⟩ := n
  cases s <;> try rfl
  case multi L twin =>
    simp only [LN.mapDeep, LShape.mapDeep, eraseN, eraseS, nMapInfoDeep, List.map_map]
    congr 1
    cases twin <;> rfl

theorem eraseN_info (n : LN) : (eraseN n).info = n.info := by
  obtain ⟨id, i, s⟩ := n
  cases s <;> rfl

theorem eraseN_setVg (n : LN) : (eraseN n).setVg = eraseN (n.mapInfo (fun i => { i with vg := true })) := by
  obtain ⟨id, i, s⟩ := n
  cases s <;> rfl

theorem eraseCh_append (A B : List LN) : eraseCh (A ++ B) = eraseCh A ++ eraseCh B := by
  induction A with
  | nil => rfl
  | cons n rest ih => simp only [List.cons_append, eraseCh, ih]

theorem eraseCh_map (f : LN → LN) (A : List LN) : eraseCh (A.map f) = (A.map f).map eraseN := by
  induction A with
  | nil => rfl
  | cons n rest ih => simp only [List.map_cons, eraseCh, ih]

theorem eraseCh_eq_map (A : List LN) : eraseCh A = A.map eraseN := by
  induction A with
  | nil => rfl
  | cons n rest ih => simp only [List.map_cons, eraseCh, ih]

end ParserLayout
end JPV
