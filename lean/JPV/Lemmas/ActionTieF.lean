/-
ActionTieF — the tie for Action15 (`parentIndexUnion.merge(childIndexUnion)`; `setValueGroup()`): the one action
that writes into a node it has popped, through a `*syntaxUnionQualifier`.
-/
import JPV.Lemmas.ActionTieC
set_option linter.unusedVariables false
set_option linter.unusedSimpArgs false
namespace JPV
namespace ParserLayout
open JPV JPV.ParserNode JPV.ActionNode
open JPV.Gen.ParserHelpersGo JPV.Gen.ActionsGo

/-- `.(*syntaxUnionQualifier)` -/
theorem asUnion_cases (it : LItem) (hwf : wfItem it) :
    (∃ id i subs rest, it = .chain (.mk id i (.union subs) :: rest) ∧
      GItem.asNodePtr .union (gitem it) = .ok id ∧
      Peg.asUnion (eraseItem it) = .ok (i, subs.map subI, eraseCh rest)) ∨
    (GItem.asNodePtr .union (gitem it) = .error .typeAssertion ∧
      Peg.asUnion (eraseItem it) = .error (.panic .typeAssertion)) := by
  cases it with
  | chain ch =>
    cases ch with
    | nil => exact absurd rfl hwf
    | cons n rest =>
      obtain ⟨id, i, s⟩ := n
      cases s with
      | union subs => left; exact ⟨id, i, subs, rest, rfl, rfl, rfl⟩
      | _ => right; exact ⟨rfl, rfl⟩
  | sub s => right; cases s <;> exact ⟨rfl, rfl⟩
  | _ => right; exact ⟨rfl, rfl⟩

/-- the cells of a chain whose head is a union node -/
theorem cellsCh_union (id : Nat) (i : Info) (subs : List GSub) (rest : List LN) :
    cellsCh (.mk id i (.union subs) :: rest) none =
      (id, nodeCell id i (.union subs) (headRefD rest none)) :: cellsCh rest none := by
  simp only [cellsCh, cellsN, cellsS, List.cons_append, List.nil_append]

/-- the cell after `u.subscripts = append(u.subscripts, cs...)` -/
def mergedCell (cP : Cell) (cs : List GSub) : Cell := { cP with subscripts := cP.subscripts ++ cs }

/-- `u.merge(union)` when both cells are there -/
theorem merge_some (fuel : Nat) (lib : Lib) (al : ALib) (p : PS) (idP idC : Nat) (cP cC : Cell)
    (hP : p.heap[idP]? = some cP) (hC : p.heap[idC]? = some cC) :
    syntaxUnionQualifier_merge fuel lib al (some idP) (some idC) p =
      .ok { p with heap := p.heap.set idP (mergedCell cP cC.subscripts) } := by
  simp only [syntaxUnionQualifier_merge, rd_some hP, rd_some hC, liftH_ok, ebind_ok, PS.onHeap, wr_some hP, bind_ok,
    mergedCell]

/-- the cell of the parent after `merge` and `setValueGroup` -/
theorem unionCell_merged (id : Nat) (i : Info) (ps cs : List GSub) (nx : NRef) :
    { mergedCell (nodeCell id i (.union ps) nx) cs with valueGroup := true } =
      nodeCell id { i with vg := true } (.union (ps ++ cs)) nx := rfl

section
variable (c : Peg.Ctx) (lib : Lib) (al : ALib) (g : PS) (L : LSt) (tb te fuel : Nat) (buffer : String)

/-- `merge`, `setValueGroup` on a held chain whose head is a union node, with a second held union node -/
theorem mergeVg_held (X : List (Nat × Cell)) (idP idC : Nat) (iP iC : Info) (ps cs : List GSub) (restP restC : List LN)
    (hrep : Rep c g L (cellsCh (.mk idP iP (.union ps) :: restP) none ++
      (cellsCh (.mk idC iC (.union cs) :: restC) none ++ X))) :
    ∃ g1 g', syntaxUnionQualifier_merge fuel lib al (some idP) (some idC) g = .ok g1 ∧
      liftH (g1.onHeap (nodeSetValueGroup (NRef.of .union idP))) = .ok g' ∧
      Rep c g' L (cellsCh (.mk idP { iP with vg := true } (.union (ps ++ cs)) :: restP) none ++ X) := by
  have hsat := hrep.sat
  have hcP : g.heap[idP]? = some (nodeCell idP iP (.union ps) (headRefD restP none)) :=
    hsat (idP, nodeCell idP iP (.union ps) (headRefD restP none)) (by
      rw [cellsCh_union]
      simp only [List.mem_append, List.mem_cons, true_or, or_true])
  have hcC : g.heap[idC]? = some (nodeCell idC iC (.union cs) (headRefD restC none)) :=
    hsat (idC, nodeCell idC iC (.union cs) (headRefD restC none)) (by
      rw [cellsCh_union idC]
      simp only [List.mem_append, List.mem_cons, true_or, or_true])
  have hsubC : (nodeCell idC iC (.union cs) (headRefD restC none)).subscripts = cs := rfl
  have hm := merge_some fuel lib al g idP idC _ _ hcP hcC
  rw [hsubC] at hm
  have h1 := get_set_self hcP (mergedCell (nodeCell idP iP (.union ps) (headRefD restP none)) cs)
  have hrepD := hrep.dropMid
  obtain ⟨hsatY, hndY⟩ := hrepD.held_sat
  rw [cellsCh_union] at hsatY hndY
  have hfr : Frame [idP] g.heap
      ((g.heap.set idP (mergedCell (nodeCell idP iP (.union ps) (headRefD restP none)) cs)).set idP
        (nodeCell idP { iP with vg := true } (.union (ps ++ cs)) (headRefD restP none))) :=
    (Frame.set _ _ _).trans' (Frame.set _ _ _)
  refine ⟨_, PS.mk ((g.heap.set idP (mergedCell (nodeCell idP iP (.union ps) (headRefD restP none)) cs)).set idP
      (nodeCell idP { iP with vg := true } (.union (ps ++ cs)) (headRefD restP none)))
    g.root g.paramsList g.params g.filterFunctions g.aggregateFunctions g.accessorMode, hm, ?_, ?_⟩
  · show liftH (PS.onHeap _ (nodeSetValueGroup (some (Kind.union, idP)))) = _
    rw [onHeap_ok (nodeSetValueGroup_some (k := Kind.union) h1), liftH_ok, unionCell_merged]
  · refine hrepD.update_held _ _ ?_ ?_ ?_ ?_
    · refine hfr.mono ?_
      intro j hj
      rw [cellsCh_union, ids_cons]
      rw [List.mem_singleton.mp hj]
      exact List.mem_cons_self ..
    · rw [cellsCh_union]
      refine Sat.cons ?_ (Sat.frame hsatY.tail hfr ?_)
      · exact get_set_self h1 _
      · intro x hx hmem
        rw [ids_cons, List.nodup_cons] at hndY
        have hx1 := mem_ids_of_mem hx
        rw [List.mem_singleton.mp hmem] at hx1
        exact hndY.1 hx1
    · intro j hj
      rw [cellsCh_union, ids_cons] at hj ⊢
      exact hj
    · rw [cellsCh_union, ids_cons]
      exact hndY

/-! ### Action15 -/

theorem act15_tie (hrep : Rep c g L []) :
    ASim c tb te (goAct15 fuel lib al (Peg.textOf c.input tb te) (tb : Int) buffer g) (Peg.act15 c (eraseSt L tb te)) := by
  rcases pop_cases c g L [] tb te hrep with ⟨hg, hm⟩ | ⟨it, s, hs, hg, hm, hrep1, hwf⟩
  · simp only [goAct15, Peg.act15, hg, hm, liftH_err, ebind_err]
    exact ASim.err rfl rfl
  · rcases asUnion_cases it hwf with ⟨idC, iC, cs, restC, rfl, hga, hma⟩ | ⟨hga, hma⟩
    · rcases pop_cases c _ _ _ tb te hrep1 with ⟨hg2, hm2⟩ | ⟨it2, s2, hs2, hg2, hm2, hrep2, hwf2⟩
      · simp only [goAct15, Peg.act15, hg, hm, hga, hma, hg2, hm2, liftH_ok, liftH_err, ebind_ok, ebind_err]
        exact ASim.err rfl rfl
      · rcases asUnion_cases it2 hwf2 with ⟨idP, iP, ps, restP, rfl, hga2, hma2⟩ | ⟨hga2, hma2⟩
        · obtain ⟨g1, g', he1, he2, hrep3⟩ := mergeVg_held c lib al _ _ fuel [] idP idC iP iC ps cs restP restC hrep2
          have hsim := push_plain_sim' c g' _ tb te
            (.chain (.mk idP { iP with vg := true } (.union (ps ++ cs)) :: restP)) (List.cons_ne_nil _ _) hrep3
          have herase : eraseItem (.chain (.mk idP { iP with vg := true } (.union (ps ++ cs)) :: restP)) =
              .chain (.union { iP with vg := true } (ps.map subI ++ cs.map subI) :: eraseCh restP) := by
            show Peg.Item.chain (N.union { iP with vg := true } ((ps ++ cs).map subI) :: eraseCh restP) = _
            rw [List.map_append]
          rw [herase] at hsim
          simp only [goAct15, Peg.act15, hg, hm, hga, hma, hg2, hm2, hga2, hma2, liftH_ok, ebind_ok]
          rw [he1, ebind_ok, he2, ebind_ok]
          exact hsim
        · simp only [goAct15, Peg.act15, hg, hm, hga, hma, hg2, hm2, hga2, hma2, liftH_ok, liftH_err, ebind_ok, ebind_err]
          exact ASim.err rfl rfl
    · simp only [goAct15, Peg.act15, hg, hm, hga, hma, liftH_ok, liftH_err, ebind_ok, ebind_err]
      exact ASim.err rfl rfl

end
end ParserLayout
end JPV
