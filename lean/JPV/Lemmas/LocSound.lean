/-
LocSound — C13: the location an accessor carries points at the value it was created for;
`setAt` replaces exactly one location; which results have no `Set`.
-/
import JPV.Lemmas.Appends
import JPV.Lemmas.ValWf
namespace JPV
open Impl

/-! ### reading at a location -/

theorem getAt_nil (v : Val) : v.getAt [] = some v := by
  cases v <;> rfl

theorem getAt_key (kvs : List (String × Val)) (k : String) (rest : Loc) :
    (Val.obj kvs).getAt (.key k :: rest) = (Val.lookup k kvs).bind (fun v => v.getAt rest) := by
  simp only [Val.getAt]
  cases Val.lookup k kvs <;> rfl

theorem getAt_idx (xs : List Val) (i : Nat) (rest : Loc) :
    (Val.arr xs).getAt (.idx i :: rest) = xs[i]?.bind (fun v => v.getAt rest) := by
  simp only [Val.getAt]
  cases xs[i]? <;> rfl

theorem getAt_append : ∀ (a b : Loc) (v : Val), v.getAt (a ++ b) = (v.getAt a).bind (fun w => w.getAt b)
  | [], b, v => by simp [getAt_nil]
  | s :: a, b, v => by
    cases v with
    | obj kvs =>
      cases s with
      | key k =>
        simp only [List.cons_append, getAt_key]
        cases Val.lookup k kvs with
        | none => rfl
        | some w => simp only [Option.bind_some]; exact getAt_append a b w
      | idx i => simp [Val.getAt]
    | arr xs =>
      cases s with
      | idx i =>
        simp only [List.cons_append, getAt_idx]
        cases xs[i]? with
        | none => rfl
        | some w => simp only [Option.bind_some]; exact getAt_append a b w
      | key k => simp [Val.getAt]
    | _ => simp [Val.getAt]

theorem getAt_snoc {root cur : Val} {l : Loc} (h : root.getAt l = some cur) (s : Seg) :
    root.getAt (l ++ [s]) = cur.getAt [s] := by
  rw [getAt_append, h]; rfl

/-- everything reached from a canonical document is canonical -/
theorem getAt_wf : ∀ (l : Loc) (d v : Val), d.wf = true → d.getAt l = some v → v.wf = true
  | [], d, v, hw, h => by
    rw [getAt_nil] at h
    cases h; exact hw
  | s :: l, d, v, hw, h => by
    cases d with
    | obj kvs =>
      cases s with
      | key k =>
        rw [getAt_key] at h
        cases hl : Val.lookup k kvs with
        | none => rw [hl] at h; cases h
        | some w => rw [hl] at h; exact getAt_wf l w v (ValWf.wf_lookup hw hl) h
      | idx i => simp [Val.getAt] at h
    | arr xs =>
      cases s with
      | idx i =>
        rw [getAt_idx] at h
        cases hl : xs[i]? with
        | none => rw [hl] at h; cases h
        | some w => rw [hl] at h; exact getAt_wf l w v (ValWf.wf_getElem? hw hl) h
      | key k => simp [Val.getAt] at h
    | _ => simp [Val.getAt] at h

/-! ### distinct keys: an entry is found under its key -/

theorem keysAsc_lt_all : ∀ (a : String) (l : List String), Val.keysAsc (a :: l) = true → ∀ b ∈ l, a < b
  | _, [], _, b, hb => by cases hb
  | a, c :: l, h, b, hb => by
    have hac := ValWf.keysAsc_head h
    rcases List.mem_cons.mp hb with rfl | hb
    · exact hac
    · exact String.lt_trans hac (keysAsc_lt_all c l (ValWf.keysAsc_tail h) b hb)

theorem lookup_of_mem : ∀ (kvs : List (String × Val)), Val.keysAsc (kvs.map (·.1)) = true →
    ∀ k v, (k, v) ∈ kvs → Val.lookup k kvs = some v
  | [], _, k, v, h => by cases h
  | (k0, v0) :: rest, hk, k, v, h => by
    rcases List.mem_cons.mp h with heq | hin
    · cases heq
      simp [Val.lookup]
    · have hlt : k0 < k := keysAsc_lt_all k0 (rest.map (·.1)) (by simpa using hk) k
        (List.mem_map.mpr ⟨(k, v), hin, rfl⟩)
      have hne : (k == k0) = false := by
        rw [beq_eq_false_iff_ne]
        intro heq
        subst heq
        exact String.lt_irrefl _ hlt
      simp only [Val.lookup, hne]
      exact lookup_of_mem rest (ValWf.keysAsc_tail (a := k0) (by simpa using hk)) k v hin

theorem entriesSeg_getAt {cur : Val} (hw : cur.wf = true) (sv : Seg × Val) (h : sv ∈ entriesSeg cur) :
    cur.getAt [sv.1] = some sv.2 := by
  cases cur with
  | obj kvs =>
    simp only [entriesSeg, ValWf.sortKV_of_wf hw] at h
    obtain ⟨⟨k, v⟩, hkv, rfl⟩ := List.mem_map.mp h
    rw [getAt_key, lookup_of_mem kvs (ValWf.wf_obj hw).1 k v hkv]
    simp [getAt_nil]
  | arr xs =>
    simp only [entriesSeg] at h
    obtain ⟨⟨x, i⟩, hxi, rfl⟩ := List.mem_map.mp h
    have : xs[i]? = some x := by simpa using List.mem_zipIdx_iff_getElem?.mp hxi
    rw [getAt_idx, this]
    simp [getAt_nil]
  | _ => simp [entriesSeg] at h

/-! ### the locations `..` enumerates -/

mutual
theorem containersLoc_sound : ∀ (v : Val) (loc : Loc), v.wf = true → ∀ cl ∈ containersLoc v loc,
    ∃ s, cl.2 = loc ++ s ∧ v.getAt s = some cl.1
  | .arr xs, loc, hw, cl, h => by
    simp only [containersLoc, List.mem_cons] at h
    rcases h with rfl | h
    · exact ⟨[], by simp, rfl⟩
    · obtain ⟨j, x, s, hx, hl, hg⟩ := containersLocList_sound xs loc 0 (ValWf.wf_arr hw) cl h
      refine ⟨.idx j :: s, by simpa using hl, ?_⟩
      rw [getAt_idx, hx]; exact hg
  | .obj kvs, loc, hw, cl, h => by
    simp only [containersLoc, List.mem_cons] at h
    rcases h with rfl | h
    · exact ⟨[], by simp, rfl⟩
    · obtain ⟨k, x, s, hx, hl, hg⟩ := containersLocKVs_sound kvs loc (ValWf.wf_obj hw).2 cl h
      refine ⟨.key k :: s, hl, ?_⟩
      rw [getAt_key, lookup_of_mem kvs (ValWf.wf_obj hw).1 k x hx]; exact hg
  | .null, _, _, _, h | .bool _, _, _, _, h | .num _, _, _, _, h | .jnum _, _, _, _, h | .str _, _, _, _, h
  | .opq _ _, _, _, _, h => by
    simp [containersLoc] at h
theorem containersLocList_sound : ∀ (xs : List Val) (loc : Loc) (i : Nat), Val.wfList xs = true →
    ∀ cl ∈ containersLocList xs loc i,
      ∃ j x s, xs[j]? = some x ∧ cl.2 = loc ++ (.idx (i + j) :: s) ∧ x.getAt s = some cl.1
  | [], _, _, _, cl, h => by simp [containersLocList] at h
  | x :: xs, loc, i, hw, cl, h => by
    simp only [Val.wfList, Bool.and_eq_true] at hw
    simp only [containersLocList, List.mem_append] at h
    rcases h with h | h
    · obtain ⟨s, hl, hg⟩ := containersLoc_sound x (loc ++ [.idx i]) hw.1 cl h
      exact ⟨0, x, s, rfl, by simpa using hl, hg⟩
    · obtain ⟨j, y, s, hy, hl, hg⟩ := containersLocList_sound xs loc (i + 1) hw.2 cl h
      refine ⟨j + 1, y, s, by simpa using hy, ?_, hg⟩
      rw [hl]
      congr 3
      omega
theorem containersLocKVs_sound : ∀ (kvs : List (String × Val)) (loc : Loc), Val.wfKVs kvs = true →
    ∀ cl ∈ containersLocKVs kvs loc,
      ∃ k x s, (k, x) ∈ kvs ∧ cl.2 = loc ++ (.key k :: s) ∧ x.getAt s = some cl.1
  | [], _, _, cl, h => by simp [containersLocKVs] at h
  | (k, x) :: kvs, loc, hw, cl, h => by
    simp only [Val.wfKVs, Bool.and_eq_true] at hw
    simp only [containersLocKVs, List.mem_append] at h
    rcases h with h | h
    · obtain ⟨s, hl, hg⟩ := containersLoc_sound x (loc ++ [.key k]) hw.1 cl h
      exact ⟨k, x, s, List.mem_cons_self, by simpa using hl, hg⟩
    · obtain ⟨k', y, s, hy, hl, hg⟩ := containersLocKVs_sound kvs loc hw.2 cl h
      exact ⟨k', y, s, List.mem_cons_of_mem _ hy, hl, hg⟩
end

/-! ### the chains for which locations are meaningful -/

/-- navigation steps: they move from a container to one of its entries -/
def isNav : N → Bool
  | .child _ _ | .wild _ | .multi _ _ _ | .desc _ _ _ | .union _ _ | .filter _ _ => true
  | .root _ | .cur _ | .ffn _ _ | .afn _ _ _ => false

/-- `locChain a ch`: no navigation step of the chain is applied to a value whose place in the
    document is unknown (the output of a function, or the current node re-rooted by `@`).
    `a`: the value the chain is applied to is at its recorded location.
    `Build.build` only produces such chains (functions come last): `build_locChain`. -/
def locChain : Bool → List N → Bool
  | _, [] => true
  | _, .root _ :: rest => locChain true rest
  | _, .cur _ :: rest => locChain false rest
  | _, .ffn _ _ :: rest => locChain false rest
  | _, .afn _ _ _ :: rest => locChain false rest
  | a, .child _ _ :: rest => a && locChain true rest
  | a, .wild _ :: rest => a && locChain true rest
  | a, .multi _ _ _ :: rest => a && locChain true rest
  | a, .desc _ _ _ :: rest => a && locChain true rest
  | a, .union _ _ :: rest => a && locChain true rest
  | a, .filter _ _ :: rest => a && locChain true rest

/-- what is known about the current value and the location handed to `retrieve` -/
def Anch (root cur : Val) (aloc : Option Loc) : Bool → Prop
  | true => root.getAt (aloc.getD []) = some cur
  | false => aloc = none

/-- a result whose `Set` is not nil points at its own value in `root` -/
def LocOK (root : Val) (r : Res) : Prop := ∀ v l, r = .acc v (some l) → root.getAt l = some v

def LocPre (root : Val) (ch : List N) (_prev : Info) (cur : Val) (aloc : Option Loc) : Prop :=
  ∃ a, locChain a ch = true ∧ Anch root cur aloc a

theorem anch_ext {root cur v : Val} {aloc : Option Loc} {s : Seg}
    (h : root.getAt (aloc.getD []) = some cur) (hs : cur.getAt [s] = some v) :
    Anch root v (ext aloc s) true := by
  show root.getAt (aloc.getD [] ++ [s]) = some v
  rw [getAt_snoc h, hs]

theorem locPre_nav {root cur v : Val} {aloc : Option Loc} {s : Seg} {rest : List N} {i : Info} {a : Bool}
    (hl : (a && locChain true rest) = true) (hA : Anch root cur aloc a) (hs : cur.wf = true → cur.getAt [s] = some v)
    (hw : root.wf = true) : LocPre root rest i v (ext aloc s) := by
  simp only [Bool.and_eq_true] at hl
  obtain ⟨rfl, hl⟩ := hl
  exact ⟨true, hl, anch_ext hA (hs (getAt_wf _ _ _ hw hA))⟩

theorem mem_entries_obj {kvs : List (String × Val)} {kv : String × Val} (h : kv ∈ sortKV kvs) :
    (Seg.key kv.1, kv.2) ∈ entriesSeg (.obj kvs) := by
  simp only [entriesSeg]
  exact List.mem_map.mpr ⟨kv, h, rfl⟩

theorem mem_entries_arr {xs : List Val} {xi : Val × Nat} (h : xi ∈ xs.zipIdx) :
    (Seg.idx xi.2, xi.1) ∈ entriesSeg (.arr xs) := by
  simp only [entriesSeg]
  exact List.mem_map.mpr ⟨xi, h, rfl⟩

theorem getAt_lookup {kvs : List (String × Val)} {k : String} {v : Val} (h : Val.lookup k kvs = some v) :
    (Val.obj kvs).getAt [.key k] = some v := by
  rw [getAt_key, h]; simp [getAt_nil]

theorem locHoare (root : Val) (hw : root.wf = true) : Hoare root (LocPre root) (LocOK root) where
  nil := by
    intro prev cur aloc ⟨a, _, hA⟩ v l hr
    unfold wrap at hr
    split at hr
    · cases hr
      cases a with
      | true => exact hA
      | false => cases hA
    · cases hr
  root := by
    intro i rest prev cur aloc ⟨a, hl, _⟩
    exact ⟨true, by cases a <;> exact hl, getAt_nil root⟩
  cur := by
    intro i rest prev cur aloc ⟨a, hl, _⟩
    exact ⟨false, by cases a <;> exact hl, rfl⟩
  child := by
    intro i k rest prev kvs aloc v ⟨a, hl, hA⟩ hlk
    exact locPre_nav hl hA (fun _ => getAt_lookup hlk) hw
  wildObj := by
    intro i rest prev kvs aloc kv ⟨a, hl, hA⟩ hkv
    exact locPre_nav hl hA (fun hc => entriesSeg_getAt hc _ (mem_entries_obj hkv)) hw
  wildArr := by
    intro i rest prev xs aloc xi ⟨a, hl, hA⟩ hxi
    exact locPre_nav hl hA (fun hc => entriesSeg_getAt hc _ (mem_entries_arr hxi)) hw
  twin := by
    intro i ids ti rest prev xs aloc xi ⟨a, hl, hA⟩ hxi
    exact locPre_nav hl hA (fun hc => entriesSeg_getAt hc _ (mem_entries_arr hxi)) hw
  multiKey := by
    intro i ids tw rest prev kvs aloc ii k v ⟨a, hl, hA⟩ _ hlk
    exact locPre_nav hl hA (fun _ => getAt_lookup hlk) hw
  multiWild := by
    intro i ids tw rest prev kvs aloc ii kv ⟨a, hl, hA⟩ _ hkv
    exact locPre_nav hl hA (fun hc => entriesSeg_getAt hc _ (mem_entries_obj hkv)) hw
  desc := by
    intro i mr lr rest prev cur aloc cl ⟨a, hl, hA⟩ hcl
    simp only [locChain, Bool.and_eq_true] at hl
    obtain ⟨rfl, hl⟩ := hl
    obtain ⟨s, hs, hg⟩ := containersLoc_sound cur _ (getAt_wf _ _ _ hw hA) cl hcl
    refine ⟨true, hl, ?_⟩
    show root.getAt cl.2 = some cl.1
    rw [hs, getAt_append, hA]
    exact hg
  union := by
    intro i subs rest prev xs aloc n v ⟨a, hl, hA⟩ hn
    exact locPre_nav hl hA (fun _ => by rw [getAt_idx, hn]; simp [getAt_nil]) hw
  filter := by
    intro i q rest prev cur aloc sv ⟨a, hl, hA⟩ hsv
    exact locPre_nav hl hA (fun hc => entriesSeg_getAt hc _ hsv) hw
  ffn := by
    intro i name rest prev cur aloc r ⟨a, hl, _⟩
    exact ⟨false, by cases a <;> exact hl, rfl⟩
  afn := by
    intro i name param rest prev cur aloc r ⟨a, hl, _⟩
    exact ⟨false, by cases a <;> exact hl, rfl⟩

/-- **Soundness of accessor locations**, for every run of `retrieve` that returns: every
    result appended with a location points, in `root`, at the value it was appended with. -/
theorem retrieve_loc_sound (env : Env) (root : Val) (hw : root.wf = true) (ch : List N) (a : Bool)
    (hl : locChain a ch = true) (prev : Info) (cur : Val) (aloc : Option Loc) (hA : Anch root cur aloc a)
    (st st' : St) (e : Option RtErr) (h : retrieve env ch prev root cur aloc st = .ok (st', e)) :
    App (LocOK root) st st' :=
  retrieve_appends env (locHoare root hw) ch prev cur aloc st st' e ⟨a, hl, hA⟩ h

/-! ### writing at a location -/

theorem lookup_updKV_self (k : String) (w : Val) : ∀ (kvs : List (String × Val)) (v : Val),
    Val.lookup k kvs = some v → Val.lookup k (Val.updKV k w kvs) = some w
  | [], _, h => by simp [Val.lookup] at h
  | (k', v') :: rest, v, h => by
    simp only [Val.lookup] at h
    simp only [Val.updKV]
    by_cases hk : (k == k') = true
    · simp [hk, Val.lookup]
    · simp only [hk, if_false, Bool.false_eq_true] at h ⊢
      simp only [Val.lookup, hk, if_false, Bool.false_eq_true]
      exact lookup_updKV_self k w rest v h

theorem lookup_updKV_other (k k2 : String) (w : Val) (hne : k2 ≠ k) : ∀ (kvs : List (String × Val)),
    Val.lookup k2 (Val.updKV k w kvs) = Val.lookup k2 kvs
  | [] => rfl
  | (k', v') :: rest => by
    simp only [Val.updKV]
    by_cases hk : (k == k') = true
    · have : k = k' := by simpa using hk
      subst this
      have h2 : (k2 == k) = false := by simpa using hne
      simp [Val.lookup, h2]
    · simp only [hk, if_false, Bool.false_eq_true, Val.lookup]
      rw [lookup_updKV_other k k2 w hne rest]

theorem updKV_keys (k : String) (w : Val) : ∀ (kvs : List (String × Val)),
    (Val.updKV k w kvs).map (·.1) = kvs.map (·.1)
  | [] => rfl
  | (k', v') :: rest => by
    simp only [Val.updKV]
    split
    · rfl
    · simp [updKV_keys k w rest]

theorem setAt_key (kvs : List (String × Val)) (k : String) (rest : Loc) (x : Val) :
    (Val.obj kvs).setAt (.key k :: rest) x =
      (Val.lookup k kvs).bind (fun v => (v.setAt rest x).map (fun v' => .obj (Val.updKV k v' kvs))) := by
  simp only [Val.setAt]
  cases Val.lookup k kvs with
  | none => rfl
  | some v => simp only [Option.bind_some]; cases v.setAt rest x <;> rfl

theorem setAt_idx (xs : List Val) (i : Nat) (rest : Loc) (x : Val) :
    (Val.arr xs).setAt (.idx i :: rest) x =
      xs[i]?.bind (fun v => (v.setAt rest x).map (fun v' => .arr (xs.set i v'))) := by
  simp only [Val.setAt]
  cases xs[i]? with
  | none => rfl
  | some v => simp only [Option.bind_some]; cases v.setAt rest x <;> rfl

/-- **setAt is exact**: writing at an existing location succeeds, the location then holds the
    new value, and every location that is neither below nor above it reads as before. -/
theorem setAt_exact : ∀ (loc : Loc) (d v x : Val), d.getAt loc = some v →
    ∃ d', d.setAt loc x = some d' ∧ d'.getAt loc = some x ∧
      ∀ loc', ¬ Loc.prefixRelated loc loc' → d'.getAt loc' = d.getAt loc'
  | [], d, v, x, _ => by
    refine ⟨x, by cases d <;> rfl, getAt_nil x, ?_⟩
    intro loc' h
    exact absurd (Loc.prefixRelated_nil loc') h
  | s :: rest, d, v, x, h => by
    cases d with
    | obj kvs =>
      cases s with
      | key k =>
        rw [getAt_key] at h
        cases hl : Val.lookup k kvs with
        | none => rw [hl] at h; cases h
        | some w =>
          rw [hl] at h
          obtain ⟨w', hs, hg, hrest⟩ := setAt_exact rest w v x h
          refine ⟨.obj (Val.updKV k w' kvs), ?_, ?_, ?_⟩
          · rw [setAt_key, hl]; simp [hs]
          · rw [getAt_key, lookup_updKV_self k w' kvs w hl]; exact hg
          · intro loc' hn
            cases loc' with
            | nil => exact absurd (Loc.prefixRelated_symm (Loc.prefixRelated_nil _)) hn
            | cons s' rest' =>
              cases s' with
              | idx j => simp [Val.getAt]
              | key k2 =>
                by_cases hk : k2 = k
                · subst hk
                  rw [getAt_key, getAt_key, lookup_updKV_self k2 w' kvs w hl, hl]
                  exact hrest rest' (fun hr => hn (Loc.prefixRelated_cons.mpr hr))
                · rw [getAt_key, getAt_key, lookup_updKV_other k k2 w' hk]
      | idx i => simp [Val.getAt] at h
    | arr xs =>
      cases s with
      | idx i =>
        rw [getAt_idx] at h
        cases hl : xs[i]? with
        | none => rw [hl] at h; cases h
        | some w =>
          rw [hl] at h
          obtain ⟨w', hs, hg, hrest⟩ := setAt_exact rest w v x h
          have hi : i < xs.length := by
            rcases Nat.lt_or_ge i xs.length with hi | hi
            · exact hi
            · rw [List.getElem?_eq_none hi] at hl; cases hl
          refine ⟨.arr (xs.set i w'), ?_, ?_, ?_⟩
          · rw [setAt_idx, hl]; simp [hs]
          · rw [getAt_idx, List.getElem?_set_self hi]; exact hg
          · intro loc' hn
            cases loc' with
            | nil => exact absurd (Loc.prefixRelated_symm (Loc.prefixRelated_nil _)) hn
            | cons s' rest' =>
              cases s' with
              | key k => simp [Val.getAt]
              | idx j =>
                by_cases hj : j = i
                · subst hj
                  rw [getAt_idx, getAt_idx, List.getElem?_set_self hi, hl]
                  exact hrest rest' (fun hr => hn (Loc.prefixRelated_cons.mpr hr))
                · rw [getAt_idx, getAt_idx, List.getElem?_set_ne (fun h => hj h.symm)]
      | key k => simp [Val.getAt] at h
    | _ => simp [Val.getAt] at h


/-! ### which results have a `Set` -/

/-- does the chain end in a navigation step?  `b`: the answer for the empty chain (whether the
    value the chain is applied to has a location) -/
def endsSome : List N → Bool → Bool
  | [], b => b
  | n :: rest, _ => endsSome rest (isNav n)

/-- the last node of the chain is a navigation step (child, wildcard, multiple names, `..`,
    union, filter) and not `$`, `@` or a function.  (The empty chain: `true`, the run starts at
    the location `[]`; `Build.build` never produces it.) -/
def lastIsNav (ch : List N) : Bool := endsSome ch true

theorem endsSome_snoc (ch : List N) (n : N) (b : Bool) : endsSome (ch ++ [n]) b = isNav n := by
  induction ch generalizing b with
  | nil => rfl
  | cons m rest ih => exact ih (isNav m)

theorem lastIsNav_snoc (ch : List N) (n : N) : lastIsNav (ch ++ [n]) = isNav n := endsSome_snoc ch n true

theorem lastIsNav_getLast (ch : List N) (hne : ch ≠ []) : lastIsNav ch = isNav (ch.getLast hne) := by
  obtain ⟨ch', n, rfl⟩ : ∃ ch' n, ch = ch' ++ [n] := ⟨ch.dropLast, ch.getLast hne, (List.dropLast_concat_getLast hne).symm⟩
  rw [lastIsNav_snoc]
  simp

def NilPre (b : Bool) (ch : List N) (_prev : Info) (_cur : Val) (aloc : Option Loc) : Prop :=
  endsSome ch aloc.isSome = b

/-- an accessor has a `Set` iff `b` -/
def SetIs (b : Bool) (r : Res) : Prop := ∀ v l, r = .acc v l → l.isSome = b

theorem nilHoare (root : Val) (b : Bool) : Hoare root (NilPre b) (SetIs b) where
  nil := by
    intro prev cur aloc hp v l hr
    unfold wrap at hr
    split at hr
    · cases hr; exact hp
    · cases hr
  root := fun _ _ _ _ _ hp => hp
  cur := fun _ _ _ _ _ hp => hp
  child := fun _ _ _ _ _ _ _ hp _ => hp
  wildObj := fun _ _ _ _ _ _ hp _ => hp
  wildArr := fun _ _ _ _ _ _ hp _ => hp
  twin := fun _ _ _ _ _ _ _ _ hp _ => hp
  multiKey := fun _ _ _ _ _ _ _ _ _ _ hp _ _ => hp
  multiWild := fun _ _ _ _ _ _ _ _ _ hp _ _ => hp
  desc := fun _ _ _ _ _ _ _ _ hp _ => hp
  union := fun _ _ _ _ _ _ _ _ hp _ => hp
  filter := fun _ _ _ _ _ _ _ hp _ => hp
  ffn := fun _ _ _ _ _ _ _ hp => hp
  afn := fun _ _ _ _ _ _ _ _ hp => hp

theorem retrieve_set_nil (env : Env) (root : Val) (ch : List N) (prev : Info) (cur : Val) (aloc : Option Loc)
    (st st' : St) (e : Option RtErr) (h : retrieve env ch prev root cur aloc st = .ok (st', e)) :
    App (SetIs (endsSome ch aloc.isSome)) st st' :=
  retrieve_appends env (nilHoare root _) ch prev cur aloc st st' e rfl h


/-! ### locations above and below the one written -/

/-- a location at or below the one written reads from the new value -/
theorem getAt_setAt_below {d' x : Val} {loc : Loc} (h : d'.getAt loc = some x) (s : Loc) :
    d'.getAt (loc ++ s) = x.getAt s := by
  rw [getAt_append, h]; rfl

/-- a location above the one written holds its old value with the rest of the location written -/
theorem getAt_setAt_above : ∀ (p q : Loc) (d d' u x : Val), d.setAt (p ++ q) x = some d' → d.getAt p = some u →
    ∃ u', u.setAt q x = some u' ∧ d'.getAt p = some u'
  | [], q, d, d', u, x, hs, hg => by
    rw [getAt_nil] at hg
    cases hg
    exact ⟨d', hs, getAt_nil d'⟩
  | s :: p, q, d, d', u, x, hs, hg => by
    cases d with
    | obj kvs =>
      cases s with
      | key k =>
        rw [List.cons_append, setAt_key] at hs
        rw [getAt_key] at hg
        cases hl : Val.lookup k kvs with
        | none => rw [hl] at hg; cases hg
        | some w =>
          rw [hl] at hs hg
          simp only [Option.bind_some] at hs hg
          cases hw : w.setAt (p ++ q) x with
          | none => rw [hw] at hs; cases hs
          | some w' =>
            rw [hw] at hs
            simp only [Option.map_some, Option.some.injEq] at hs
            subst hs
            obtain ⟨u', hu, hg'⟩ := getAt_setAt_above p q w w' u x hw hg
            refine ⟨u', hu, ?_⟩
            rw [getAt_key, lookup_updKV_self k w' kvs w hl]
            exact hg'
      | idx i => simp [Val.getAt] at hg
    | arr xs =>
      cases s with
      | idx i =>
        rw [List.cons_append, setAt_idx] at hs
        rw [getAt_idx] at hg
        cases hl : xs[i]? with
        | none => rw [hl] at hg; cases hg
        | some w =>
          rw [hl] at hs hg
          simp only [Option.bind_some] at hs hg
          have hi : i < xs.length := by
            rcases Nat.lt_or_ge i xs.length with hi | hi
            · exact hi
            · rw [List.getElem?_eq_none hi] at hl; cases hl
          cases hw : w.setAt (p ++ q) x with
          | none => rw [hw] at hs; cases hs
          | some w' =>
            rw [hw] at hs
            simp only [Option.map_some, Option.some.injEq] at hs
            subst hs
            obtain ⟨u', hu, hg'⟩ := getAt_setAt_above p q w w' u x hw hg
            refine ⟨u', hu, ?_⟩
            rw [getAt_idx, List.getElem?_set_self hi]
            exact hg'
      | key k => simp [Val.getAt] at hg
    | _ => simp [Val.getAt] at hg

end JPV
