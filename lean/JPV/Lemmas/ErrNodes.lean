/-
ErrNodes — `ES.ChainF` node by node, and the induction over the chain.
-/
import JPV.Lemmas.ErrSound
namespace JPV
namespace ES
open Impl TSem Fails
open CE (tl)

section nodes
variable {s : Bool} {env : Env} {rest : List N}

theorem nilF : ChainF s env [] := by
  intro prev root cur aloc st st' r _ hr
  simp only [retrieve, Except.ok.injEq, Prod.mk.injEq] at hr
  cases hr.2

theorem rootF (i : Info) (h : ChainF s env rest) : ChainF s env (.root i :: rest) := by
  intro prev root cur aloc st st' r hout hr
  simp only [retrieve] at hr
  simp only [fails, failsN]
  exact h i root root none st st' r hout hr

theorem curF (i : Info) (h : ChainF s env rest) : ChainF s env (.cur i :: rest) := by
  intro prev root cur aloc st st' r hout hr
  simp only [retrieve] at hr
  simp only [fails, failsN]
  exact h i root cur none st st' r hout hr

/-- an immediate error -/
theorem immF {s1 st' : St} {err r : RtErr}
    (h : (Except.ok (s1, some err) : M (St × Option RtErr)) = .ok (st', some r))
    (hpos : s = true → 0 < tl err) : Best s r [err] := by
  simp only [Except.ok.injEq, Prod.mk.injEq, Option.some.injEq] at h
  rw [← h.2]
  exact Best.single hpos

theorem childF (i : Info) (k : String) (hi : s = true → 0 < i.conn.utf8ByteSize) (h : ChainF s env rest) :
    ChainF s env (.child i k :: rest) := by
  intro prev root cur aloc st st' r hout hr
  cases cur with
  | obj kvs =>
    simp only [retrieve] at hr
    simp only [fails, failsN]
    cases hl : Val.lookup k kvs with
    | none =>
      rw [hl] at hr
      exact immF hr hi
    | some v =>
      rw [hl] at hr
      exact h i root v _ st st' r hout hr
  | null | bool _ | num _ | jnum _ | str _ | arr _ | opq _ _ =>
    simp only [retrieve] at hr
    simp only [fails, failsN]
    exact immF hr hi

theorem wildF (hok : RetrieveOK env rest) (i : Info) (hi : s = true → 0 < i.conn.utf8ByteSize)
    (h : ChainF s env rest) : ChainF s env (.wild i :: rest) := by
  intro prev root cur aloc st st' r hout hr
  cases cur with
  | obj kvs =>
    simp only [retrieve] at hr
    simp only [fails, failsN]
    exact loop_nodeF hok h _ (fun kv : String × Val => fails env rest root kv.2) (sortKV kvs) i root
      (fun x _ => ⟨x.2, ext aloc (.key x.1), fun _ => rfl, rfl⟩) i hi st st' r hout hr
  | arr xs =>
    simp only [retrieve] at hr
    simp only [fails, failsN]
    have := loop_nodeF hok h _ (fun xi : Val × Nat => fails env rest root xi.1) xs.zipIdx i root
      (fun x _ => ⟨x.1, ext aloc (.idx x.2), fun _ => rfl, rfl⟩) i hi st st' r hout hr
    rw [← grp_map i (fun xi : Val × Nat => xi.1) xs.zipIdx (fun x => fails env rest root x), List.zipIdx_map_fst] at this
    exact this
  | null | bool _ | num _ | jnum _ | str _ | opq _ _ =>
    simp only [retrieve] at hr
    simp only [fails, failsN]
    exact immF hr hi

theorem descF (hok : RetrieveOK env rest) (i : Info) (mr lr : Bool) (hi : s = true → 0 < i.conn.utf8ByteSize)
    (h : ChainF s env rest) : ChainF s env (.desc i mr lr :: rest) := by
  intro prev root cur aloc st st' r hout hr
  simp only [retrieve] at hr
  simp only [fails, failsN]
  by_cases hc : cur.isContainer = true
  · rw [if_pos hc] at hr
    rw [if_pos hc]
    have := loop_nodeF hok h _ (fun cl : Val × Loc => fails env rest root cl.1)
      ((containersLoc cur (aloc.getD [])).filter (fun cl => if isObj cl.1 then mr else lr)) i root
      (fun x _ => ⟨x.1, some x.2, fun _ => rfl, rfl⟩) i hi st st' r hout hr
    rw [← grp_map i (fun cl : Val × Loc => cl.1) _ (fun c => fails env rest root c)] at this
    have hm : ((containersLoc cur (aloc.getD [])).filter (fun cl => if isObj cl.1 then mr else lr)).map (fun cl => cl.1)
        = (Val.containers cur).filter (fun c => if isObj c then mr else lr) := by
      rw [← containersLoc_fst cur (aloc.getD []), List.filter_map]
      rfl
    rw [hm] at this
    exact this
  · rw [if_neg hc] at hr
    rw [if_neg hc]
    exact immF hr hi

theorem unionF (hok : RetrieveOK env rest) (i : Info) (subs : List SubI) (hi : s = true → 0 < i.conn.utf8ByteSize)
    (h : ChainF s env rest) : ChainF s env (.union i subs :: rest) := by
  intro prev root cur aloc st st' r hout hr
  cases cur with
  | arr xs =>
    simp only [retrieve] at hr
    simp only [fails, failsN]
    refine loop_nodeF hok h _
      (fun ix : Int => match (if ix < 0 then none else xs[ix.toNat]?) with
        | some v => fails env rest root v
        | none => [])
      (subs.flatMap (fun s => subIndexes s xs.length)) i root (fun ix hix => ?_) i hi st st' r hout hr
    obtain ⟨s0, _, hs⟩ := List.mem_flatMap.mp hix
    have hrg := subIndexes_range s0 xs.length ix hs
    have hlt : ix.toNat < xs.length := by omega
    have hget : (if ix < 0 then none else xs[ix.toNat]?) = some xs[ix.toNat] := by
      rw [if_neg (by omega)]
      exact List.getElem?_eq_getElem hlt
    refine ⟨xs[ix.toNat], ext aloc (.idx ix.toNat), fun st0 => ?_, ?_⟩ <;> simp only [hget]
  | null | bool _ | num _ | jnum _ | str _ | obj _ | opq _ _ =>
    simp only [retrieve] at hr
    simp only [fails, failsN]
    exact immF hr hi

theorem ffnF (i : Info) (name : String) (hi : s = true → 0 < i.conn.utf8ByteSize) (h : ChainF s env rest) :
    ChainF s env (.ffn i name :: rest) := by
  intro prev root cur aloc st st' r hout hr
  simp only [retrieve] at hr
  simp only [fails, failsN]
  cases hf : env.ffn name with
  | none => rw [hf] at hr; simp at hr
  | some f =>
    rw [hf] at hr
    simp only [] at hr ⊢
    cases hfc : f cur with
    | none =>
      rw [hfc] at hr
      exact immF hr hi
    | some v =>
      rw [hfc] at hr
      exact h i root v none (st.call (.ffn name cur)) st' r hout hr

end nodes

theorem mono_of_branchOK {α : Type} {f : α → St → M (St × Option RtErr)} {D : α → List Val} {x : α}
    (h : BranchOK f D x) : Mono f x := by
  intro st st' e hr hout'
  obtain ⟨st2, e2, h1, h2⟩ := h st
  rw [hr] at h1
  simp only [Except.ok.injEq, Prod.mk.injEq] at h1
  obtain ⟨rfl, rfl⟩ := h1
  exact ext_out_nil h2 hout'

/-- a successful run leaves a non-empty buffer -/
theorem rinv_none_out {st st' st2 : St} {e2 : Option RtErr} {D : List Val} {r : M (St × Option RtErr)}
    (h1 : r = .ok (st2, e2)) (h2 : RInv st st2 e2 D) (hr : r = .ok (st', none)) : st'.out ≠ [] := by
  rw [hr] at h1
  simp only [Except.ok.injEq, Prod.mk.injEq] at h1
  obtain ⟨rfl, rfl⟩ := h1
  exact h2.ok_nonempty rfl

section multi
variable {s : Bool} {env : Env} {rest : List N}

/-- the failures of one inner identifier of a multi-name node on an object -/
def midFails (env : Env) (rest : List N) (root : Val) (kvs : List (String × Val)) : MId → List RtErr
  | .key _ k => (match Val.lookup k kvs with
    | some v => fails env rest root v
    | none => [])
  | .wild ii => grp ii (sortKV kvs) (fun kv => fails env rest root kv.2)

theorem fails_multi_obj (i : Info) (ids : List MId) (twin : Option Info) (root : Val) (kvs : List (String × Val)) :
    fails env (.multi i ids twin :: rest) root (.obj kvs) =
      if ids.all (absentKey kvs) then [.member i] else ids.flatMap (midFails env rest root kvs) := by
  cases twin <;> (simp only [fails, failsN]; rfl)

theorem multiF (hok : RetrieveOK env rest) (i : Info) (ids : List MId) (twin : Option Info)
    (hi : s = true → ∀ j ∈ i :: twin.toList ++ ids.map midInfo, 0 < j.conn.utf8ByteSize)
    (h : ChainF s env rest) : ChainF s env (.multi i ids twin :: rest) := by
  intro prev root cur aloc st st' r hout hr
  have hi0 : s = true → 0 < i.conn.utf8ByteSize := fun hs => hi hs i List.mem_cons_self
  have hobj : ∀ kvs : List (String × Val),
      (do
        let acc ← loopAcc (fun (id : MId) st =>
            match id with
            | .key ii k =>
              (match Val.lookup k kvs with
               | none => (.ok (st, none) : M (St × Option RtErr))
               | some v => retrieve env rest ii root v (ext aloc (.key k)) st)
            | .wild ii => do
              let acc ← loopAcc (fun (kv : String × Val) st => retrieve env rest ii root kv.2 (ext aloc (.key kv.1)) st)
                (sortKV kvs) (st, 0, none)
              .ok (endGroup ii acc))
          ids (st, 0, none)
        (.ok (endGroup i acc) : M (St × Option RtErr))) = .ok (st', some r) →
      Best s r (if ids.all (absentKey kvs) then [.member i] else ids.flatMap (midFails env rest root kvs)) := by
    intro kvs hr
    -- every branch only appends, and returns no error only after appending (or as a `continue`)
    have hbranch : ∀ id ∈ ids, ∀ st0 : St, ∃ (st1 : St) (e1 : Option RtErr) (D : List Val),
        (match id with
          | .key ii k =>
            (match Val.lookup k kvs with
             | none => (.ok (st0, none) : M (St × Option RtErr))
             | some v => retrieve env rest ii root v (ext aloc (.key k)) st0)
          | .wild ii => do
            let acc ← loopAcc (fun (kv : String × Val) st => retrieve env rest ii root kv.2 (ext aloc (.key kv.1)) st)
              (sortKV kvs) (st0, 0, none)
            .ok (endGroup ii acc)) = .ok (st1, e1) ∧ Ext st0 st1 D ∧
          (e1 = none → st1.out = [] → absentKey kvs id = true ∧ midFails env rest root kvs id = []) := by
      intro id _ st0
      cases id with
      | key ii k =>
        simp only [absentKey, midFails]
        cases hl : Val.lookup k kvs with
        | none => exact ⟨st0, none, [], rfl, Ext.refl st0, fun _ _ => ⟨rfl, rfl⟩⟩
        | some v =>
          obtain ⟨st1, e1, h1, h2⟩ := hok ii root v (ext aloc (.key k)) st0
          exact ⟨st1, e1, den env rest root v, h1, h2.ext, fun he ho => absurd ho (h2.ok_nonempty he)⟩
      | wild ii =>
        simp only []
        obtain ⟨st1, e1, h1, h2⟩ := group_inv _ (fun kv : String × Val => den env rest root kv.2) (sortKV kvs)
          (fun x _ => branch_of_retrieveOK hok ii root (fun kv : String × Val => kv.2) (fun kv => ext aloc (.key kv.1)) x) ii st0
        exact ⟨st1, e1, (sortKV kvs).flatMap (fun kv : String × Val => den env rest root kv.2), h1, h2.ext,
          fun he ho => absurd ho (h2.ok_nonempty he)⟩
    have hg := groupF (s := s) _ (midFails env rest root kvs) (absentKey kvs) ids
      (fun id hid st0 st1 e1 hrun hout1 => by
        obtain ⟨st2, e2, D, h1, h2, _⟩ := hbranch id hid st0
        rw [hrun] at h1
        simp only [Except.ok.injEq, Prod.mk.injEq] at h1
        obtain ⟨rfl, rfl⟩ := h1
        exact ext_out_nil h2 hout1)
      (fun id hid st0 st1 e1 hout0 hrun hout1 => by
        obtain ⟨st2, e2, D, h1, h2, h3⟩ := hbranch id hid st0
        have hrun0 := hrun
        rw [hrun] at h1
        simp only [Except.ok.injEq, Prod.mk.injEq] at h1
        obtain ⟨rfl, rfl⟩ := h1
        cases e1 with
        | none => exact h3 rfl hout1
        | some r1 =>
          simp only []
          cases id with
          | key ii k =>
            simp only [] at hrun0
            simp only [absentKey, midFails]
            cases hl : Val.lookup k kvs with
            | none => rw [hl] at hrun0; simp at hrun0
            | some v =>
              rw [hl] at hrun0
              exact ⟨h ii root v _ st0 st1 r1 hout0 hrun0, rfl⟩
          | wild ii =>
            simp only [] at hrun0
            simp only [absentKey, midFails]
            have hii : s = true → 0 < ii.conn.utf8ByteSize := fun hs => hi hs ii (by
              apply List.mem_cons_of_mem
              apply List.mem_append_right
              exact List.mem_map.mpr ⟨.wild ii, hid, rfl⟩)
            exact ⟨loop_nodeF hok h _ (fun kv : String × Val => fails env rest root kv.2) (sortKV kvs) ii root
              (fun x _ => ⟨x.2, ext aloc (.key x.1), fun _ => rfl, rfl⟩) ii hii st0 st1 r1 hout0 hrun0, trivial⟩)
      i st st' r hout hr
    rcases hg.2 with ⟨hall, hrm⟩ | ⟨⟨id, hid, hsk⟩, hb⟩
    · have : ids.all (absentKey kvs) = true := List.all_eq_true.mpr hall
      rw [if_pos this, hrm]
      exact Best.single hi0
    · have : ¬ ids.all (absentKey kvs) = true := by
        intro hall
        have := List.all_eq_true.mp hall id hid
        rw [hsk] at this
        cases this
      rw [if_neg this]
      exact hb
  cases cur with
  | obj kvs =>
    rw [fails_multi_obj]
    cases twin with
    | none => simp only [retrieve] at hr; exact hobj kvs hr
    | some ti => simp only [retrieve] at hr; exact hobj kvs hr
  | arr xs =>
    cases twin with
    | none =>
      simp only [retrieve] at hr
      simp only [fails, failsN]
      exact immF hr hi0
    | some ti =>
      have hti : s = true → 0 < ti.conn.utf8ByteSize := fun hs => hi hs ti (by simp)
      simp only [retrieve] at hr
      simp only [fails, failsN]
      have := loop_nodeF hok h _ (fun xi : Val × Nat => fails env rest root xi.1)
        (ids.flatMap (fun _ => xs.zipIdx)) ti root
        (fun x _ => ⟨x.1, ext aloc (.idx x.2), fun _ => rfl, rfl⟩) ti hti st st' r hout hr
      rw [← grp_map ti (fun xi : Val × Nat => xi.1) _ (fun x => fails env rest root x), List.map_flatMap] at this
      simp only [List.zipIdx_map_fst] at this
      exact this
  | null | bool _ | num _ | jnum _ | str _ | opq _ _ =>
    cases twin <;>
    · simp only [retrieve] at hr
      simp only [fails, failsN]
      exact immF hr hi0

end multi

section filter
variable {s : Bool} {env : Env} {rest : List N}

theorem grp_nil {α : Type} (i : Info) (F : α → List RtErr) : grp i ([] : List α) F = [.member i] := rfl

theorem filterF (hok : RetrieveOK env rest) (i : Info) (q : Q) (hq : ComputeQOK env q)
    (hi : s = true → 0 < i.conn.utf8ByteSize) (h : ChainF s env rest) : ChainF s env (.filter i q :: rest) := by
  intro prev root cur aloc st st' r hout hr
  simp only [retrieve] at hr
  simp only [fails, failsN]
  by_cases hc : cur.isContainer = true
  · rw [if_pos hc] at hr
    rw [if_pos hc]
    have hms := entriesSeg_snd cur
    generalize entriesSeg cur = E at hms hr
    obtain ⟨vl, st1, hq1, hsub, hvl, habs⟩ := hq root (E.map (·.2)) st
    have hout1 : st1.out = [] := by rw [hsub.out, hout]
    simp only [hq1, bind, Except.bind] at hr
    rw [← hms, ← habs]
    cases hcells : vl.cells with
    | nil => exact absurd hcells hvl.ne
    | cons c0 cs =>
      rw [hcells] at hr
      simp only [] at hr
      by_cases hshort : (!((c0 :: cs).length == (E.map (·.2)).length) && c0.isEmpty) = true
      · rw [if_pos hshort] at hr
        simp only [Bool.and_eq_true, Bool.not_eq_true', beq_eq_false_iff_ne, ne_eq] at hshort
        rw [absVL_not_each_empty _ c0 cs _ rfl hshort.1 hshort.2, keepBy_all_false, grp_nil]
        exact immF hr hi
      · rw [if_neg hshort] at hr
        have hsel := CL.filter_sel E c0 cs hshort
        have := loop_nodeF hok h
          (fun (sv : Seg × Val) st => retrieve env rest i root sv.2 (ext aloc sv.1) st)
          (fun sv : Seg × Val => fails env rest root sv.2) _ i root
          (fun x _ => ⟨x.2, ext aloc x.1, fun _ => rfl, rfl⟩) i hi st1 st' r hout1 hr
        rw [← grp_map i (fun sv : Seg × Val => sv.2) _ (fun v => fails env rest root v), hsel] at this
        exact this
  · rw [if_neg hc] at hr
    rw [if_neg hc]
    exact immF hr hi

end filter

section afn
variable {s : Bool} {env : Env} {rest param : List N}

theorem afnF (hokp : RetrieveOK env param) (i : Info) (name : String)
    (hi : s = true → 0 < i.conn.utf8ByteSize)
    (hsep : s = true → ∀ j ∈ infos param, ∀ j' ∈ i :: infos rest, j'.conn.utf8ByteSize < j.conn.utf8ByteSize)
    (hp : ChainF s env param) (h : ChainF s env rest) : ChainF s env (.afn i name param :: rest) := by
  intro prev root cur aloc st st' r hout hr
  obtain ⟨s1, e1, hp1, hp2⟩ := hokp i root cur aloc st.sub
  have hvals := sub_out_vals st s1 _ hp2.ext
  simp only [retrieve, hp1, bind, Except.bind] at hr
  simp only [fails, failsN]
  -- the parameter chain's failures are all longer than anything reported from here on
  have hrep : ∀ {e : RtErr} {F2 : List RtErr}, Best s e F2 → e.info ∈ i :: infos rest →
      Best s e (fails env param root cur ++ F2) := by
    intro e F2 hb he
    refine Best.replace hb (fun hs => Or.inl (fun f hf => ?_))
    exact hsep hs f.info (fails_info_mem env param root cur f hf) e.info he
  cases e1 with
  | some err =>
    simp only [Except.ok.injEq, Prod.mk.injEq, Option.some.injEq] at hr
    rw [CL.den_nil_of_err hp2]
    simp only [List.append_nil]
    rw [← hr.2]
    exact hp i root cur aloc st.sub s1 err rfl hp1
  | none =>
    have hne := hp2.ok_nonempty rfl
    cases hout1 : s1.out with
    | nil => exact absurd hout1 hne
    | cons r0 rs =>
      rw [hout1] at hr hvals
      simp only [List.map_cons] at hvals hr
      rw [← hvals]
      simp only []
      cases hf : env.afn name with
      | none => rw [hf] at hr; simp at hr
      | some f =>
        rw [hf] at hr
        simp only [] at hr ⊢
        cases hfa : f (aggArgs (chainVg param) r0.val (r0.val :: List.map Res.val rs)) with
        | none =>
          rw [hfa] at hr
          have hb := immF (s := s) hr hi
          refine hrep hb ?_
          rw [List.mem_singleton.mp hb.mem]
          exact List.mem_cons_self
        | some v =>
          rw [hfa] at hr
          have hb := h i root v none _ st' r (by simpa [St.call, St.back] using hout) hr
          exact hrep hb (List.mem_cons_of_mem _ (fails_info_mem env rest root v r hb.mem))

end afn

/-! ### the induction -/

theorem chainF (s : Bool) (env : Env) : ∀ (ch : List N), wfChain env ch = true → (s = true → ConnDeep ch) →
    ChainF s env ch
  | [], _, _ => nilF
  | n :: rest, hwf, hc => by
    simp only [wfChain, Bool.and_eq_true] at hwf
    obtain ⟨hn, hr⟩ := hwf
    have hok := retrieve_ok env rest hr
    cases n with
    | root i =>
      simp only [ConnDeep, ConnDeepN] at hc
      exact rootF i (chainF s env rest hr (fun hs => (hc hs).2))
    | cur i =>
      simp only [ConnDeep, ConnDeepN] at hc
      exact curF i (chainF s env rest hr (fun hs => (hc hs).2))
    | child i k =>
      simp only [ConnDeep, ConnDeepN] at hc
      exact childF i k (fun hs => (hc hs).1) (chainF s env rest hr (fun hs => (hc hs).2))
    | wild i =>
      simp only [ConnDeep, ConnDeepN] at hc
      exact wildF hok i (fun hs => (hc hs).1) (chainF s env rest hr (fun hs => (hc hs).2))
    | multi i ids t =>
      simp only [ConnDeep, ConnDeepN] at hc
      exact multiF hok i ids t (fun hs => (hc hs).1) (chainF s env rest hr (fun hs => (hc hs).2))
    | desc i a b =>
      simp only [ConnDeep, ConnDeepN] at hc
      exact descF hok i a b (fun hs => (hc hs).1) (chainF s env rest hr (fun hs => (hc hs).2))
    | union i subs =>
      simp only [ConnDeep, ConnDeepN] at hc
      exact unionF hok i subs (fun hs => (hc hs).1) (chainF s env rest hr (fun hs => (hc hs).2))
    | filter i q =>
      simp only [ConnDeep, ConnDeepN] at hc
      simp only [wfN] at hn
      exact filterF hok i q (computeQ_ok env q hn) (fun hs => (hc hs).1) (chainF s env rest hr (fun hs => (hc hs).2))
    | ffn i name =>
      simp only [ConnDeep, ConnDeepN] at hc
      exact ffnF i name (fun hs => (hc hs).1) (chainF s env rest hr (fun hs => (hc hs).2))
    | afn i name param =>
      simp only [ConnDeep, ConnDeepN] at hc
      simp only [wfN, Bool.and_eq_true] at hn
      exact afnF (retrieve_ok env param hn.2) i name (fun hs => (hc hs).2.2.1) (fun hs => (hc hs).2.2.2)
        (chainF s env param hn.2 (fun hs => (hc hs).1)) (chainF s env rest hr (fun hs => (hc hs).2.1))

/-- the top level: the error `run` reports is the best of the failures of the chain on the document -/
theorem run_best (s : Bool) (env : Env) (ch : List N) (hwf : wfChain env ch = true) (hc : s = true → ConnDeep ch)
    (d : Val) (e : RtErr) (st : St) (h : Impl.run env ch d = (.err e, st)) : Best s e (fails env ch d d) := by
  unfold Impl.run at h
  cases hr : retrieve env ch default d d (some []) {} with
  | error p => rw [hr] at h; simp at h
  | ok x =>
    obtain ⟨st', e'⟩ := x
    rw [hr] at h
    cases e' with
    | none => simp at h
    | some r =>
      simp only [Prod.mk.injEq, Outcome.err.injEq] at h
      rw [← h.1]
      exact chainF s env ch hwf hc default d d (some []) {} st' r rfl hr

end ES
end JPV
