/-
The lower half of the C01 refinement: evaluation with the shared buffer, the deepest-error
bookkeeping and the filter list protocol (Impl.retrieve / Impl.computeQ) appends exactly
what the tree denotes (TSem.den / TSem.semQ), succeeds iff the buffer ends non-empty,
never panics on a well-formed tree, and writes only to lists it allocated itself.
-/
import JPV.Lemmas.Helpers
namespace JPV
open Impl TSem

/-- shape and ownership of a protocol list for `n` members -/
structure VLInv (vl : VL) (n : Nat) : Prop where
  ne : vl.cells ≠ []
  len : vl.cells.length = n ∨ vl.cells.length = 1
  own : vl.org = .fresh ∨ vl = emptyL ∨ vl = fullL

theorem VLInv.emptyL (n : Nat) : VLInv emptyL n := ⟨by simp [Impl.emptyL], Or.inr rfl, Or.inr (Or.inl rfl)⟩
theorem VLInv.fullL (n : Nat) : VLInv fullL n := ⟨by simp [Impl.fullL], Or.inr rfl, Or.inr (Or.inr rfl)⟩

theorem absVL_emptyL (n : Nat) : absVL emptyL.cells n = List.replicate n false := by
  simp [absVL, Impl.emptyL, expand_single, cellNonEmpty, Cell.isEmpty]

theorem absVL_fullL (n : Nat) : absVL fullL.cells n = List.replicate n true := by
  simp [absVL, Impl.fullL, expand_single, cellNonEmpty, Cell.isEmpty]

/-- statement for chains -/
def RetrieveOK (env : Env) (ch : List N) : Prop :=
  ∀ (prev : Info) (root cur : Val) (aloc : Option Loc) (st : St),
    ∃ st' e, retrieve env ch prev root cur aloc st = .ok (st', e) ∧ RInv st st' e (den env ch root cur)

/-- statement for operands -/
def ComputePOK (env : Env) (p : P) : Prop :=
  ∀ (root : Val) (ms : List Val) (st : St),
    ∃ vl st1, computeP env p root ms st = .ok (vl, st1) ∧ SubInv st st1 ∧ VLInv vl ms.length ∧
      expand vl.cells ms.length = pden env p root ms ∧ (singleP p = true → vl.org ≠ .gFull) ∧
      (isPcur p = false → vl.cells.length = 1)

/-- statement for queries -/
def ComputeQOK (env : Env) (q : Q) : Prop :=
  ∀ (root : Val) (ms : List Val) (st : St),
    ∃ vl st1, computeQ env q root ms st = .ok (vl, st1) ∧ SubInv st st1 ∧ VLInv vl ms.length ∧
      absVL vl.cells ms.length = semQ env q root ms

theorem branch_of_retrieveOK {env : Env} {rest : List N} (h : RetrieveOK env rest) {α : Type}
    (prev : Info) (root : Val) (val : α → Val) (loc : α → Option Loc) (x : α) :
    BranchOK (fun a st => retrieve env rest prev root (val a) (loc a) st) (fun a => den env rest root (val a)) x :=
  fun st => by
    obtain ⟨st', e, h1, h2⟩ := h prev root (val x) (loc x) st
    exact ⟨st', e, h1, h2.ext⟩

/-- a fan-out loop over `xs` followed by the common tail -/
theorem group_inv {α : Type} (f : α → St → M (St × Option RtErr)) (D : α → List Val)
    (xs : List α) (hb : ∀ x ∈ xs, BranchOK f D x) (i : Info) (st : St) :
    ∃ st' e, (do let acc ← loopAcc f xs (st, 0, none); pure (endGroup i acc) : M (St × Option RtErr)) = .ok (st', e) ∧
      RInv st st' e (xs.flatMap D) := by
  obtain ⟨st1, dl, de, hl, hext⟩ := loopAcc_ok f D xs hb st 0 none
  refine ⟨(endGroup i (st1, dl, de)).1, (endGroup i (st1, dl, de)).2, ?_, endGroup_inv i dl de hext⟩
  simp [hl, bind, Except.bind, pure, Except.pure]

end JPV

namespace JPV
open Impl TSem

/-! ### node by node -/

theorem nil_ok (env : Env) : RetrieveOK env [] := by
  intro prev root cur aloc st
  refine ⟨_, none, by simp only [retrieve]; rfl, ⟨⟨⟨[_], rfl, ?_⟩, ⟨[], by simp [St.push]⟩⟩, ?_, fun _ => rfl⟩⟩
  · simp only [den]
    split <;> rfl
  · intro _
    simp [St.push]

theorem root_ok {env : Env} {rest : List N} (i : Info) (h : RetrieveOK env rest) : RetrieveOK env (.root i :: rest) := by
  intro prev root cur aloc st
  simp only [retrieve, den]
  exact h i root root none st

theorem cur_ok {env : Env} {rest : List N} (i : Info) (h : RetrieveOK env rest) : RetrieveOK env (.cur i :: rest) := by
  intro prev root cur aloc st
  simp only [retrieve, den]
  exact h i root cur none st

theorem err_inv (st : St) (err : RtErr) : RInv st st (some err) [] := RInv.of_err (SubInv.refl st)

theorem child_ok {env : Env} {rest : List N} (i : Info) (k : String) (h : RetrieveOK env rest) :
    RetrieveOK env (.child i k :: rest) := by
  intro prev root cur aloc st
  cases cur with
  | obj kvs =>
    simp only [retrieve, den]
    cases hl : Val.lookup k kvs with
    | none => exact ⟨st, _, rfl, err_inv st _⟩
    | some v => exact h i root v _ st
  | null => simp only [retrieve, den]; exact ⟨st, _, rfl, err_inv st _⟩
  | bool b => simp only [retrieve, den]; exact ⟨st, _, rfl, err_inv st _⟩
  | num n => simp only [retrieve, den]; exact ⟨st, _, rfl, err_inv st _⟩
  | jnum n => simp only [retrieve, den]; exact ⟨st, _, rfl, err_inv st _⟩
  | str s => simp only [retrieve, den]; exact ⟨st, _, rfl, err_inv st _⟩
  | arr xs => simp only [retrieve, den]; exact ⟨st, _, rfl, err_inv st _⟩
  | opq t c => simp only [retrieve, den]; exact ⟨st, _, rfl, err_inv st _⟩

theorem zipIdx_flatMap_fst {α β : Type} (g : α → List β) (xs : List α) (k : Nat) :
    (xs.zipIdx k).flatMap (fun xi => g xi.1) = xs.flatMap g := by
  induction xs generalizing k with
  | nil => rfl
  | cons x xs ih => simp [List.zipIdx_cons, List.flatMap_cons, ih]

theorem wild_ok {env : Env} {rest : List N} (i : Info) (h : RetrieveOK env rest) :
    RetrieveOK env (.wild i :: rest) := by
  intro prev root cur aloc st
  cases cur with
  | obj kvs =>
    simp only [retrieve, den]
    exact group_inv _ (fun kv : String × Val => den env rest root kv.2) (sortKV kvs)
      (fun x _ => branch_of_retrieveOK h i root (fun kv : String × Val => kv.2) (fun kv => ext aloc (.key kv.1)) x) i st
  | arr xs =>
    simp only [retrieve, den]
    have := group_inv _ (fun xi : Val × Nat => den env rest root xi.1) xs.zipIdx
      (fun x _ => branch_of_retrieveOK h i root (fun xi : Val × Nat => xi.1) (fun xi => ext aloc (.idx xi.2)) x) i st
    rwa [zipIdx_flatMap_fst] at this
  | null => simp only [retrieve, den]; exact ⟨st, _, rfl, err_inv st _⟩
  | bool b => simp only [retrieve, den]; exact ⟨st, _, rfl, err_inv st _⟩
  | num n => simp only [retrieve, den]; exact ⟨st, _, rfl, err_inv st _⟩
  | jnum n => simp only [retrieve, den]; exact ⟨st, _, rfl, err_inv st _⟩
  | str s => simp only [retrieve, den]; exact ⟨st, _, rfl, err_inv st _⟩
  | opq t c => simp only [retrieve, den]; exact ⟨st, _, rfl, err_inv st _⟩

end JPV

namespace JPV
open Impl TSem

theorem type_err_cases {env : Env} {n : N} {rest : List N} (prev : Info) (root cur : Val) (aloc : Option Loc) (st : St)
    (err : RtErr) (h1 : retrieve env (n :: rest) prev root cur aloc st = .ok (st, some err))
    (h2 : den env (n :: rest) root cur = []) :
    ∃ st' e, retrieve env (n :: rest) prev root cur aloc st = .ok (st', e) ∧ RInv st st' e (den env (n :: rest) root cur) := by
  rw [h2]
  exact ⟨st, _, h1, err_inv st _⟩

theorem multi_ok {env : Env} {rest : List N} (i : Info) (ids : List MId) (twin : Option Info)
    (h : RetrieveOK env rest) : RetrieveOK env (.multi i ids twin :: rest) := by
  intro prev root cur aloc st
  -- the object case, shared by both shapes of `twin`
  have hobj : ∀ kvs : List (String × Val),
      ∃ st' e, (do
        let acc ← loopAcc (fun (id : MId) st =>
            match id with
            | .key ii k =>
              (match Val.lookup k kvs with
               | none => (.ok (st, none) : M (St × Option RtErr))
               | some v => retrieve env rest ii root v (ext aloc (.key k)) st)
            | .wild ii => do
              let acc ← loopAcc (fun (kv : String × Val) st => retrieve env rest ii root kv.2 (ext aloc (.key kv.1)) st)
                (sortKV kvs) (st, 0, none)
              .ok (endGroup ii acc))
          ids (st, 0, none)
        (.ok (endGroup i acc) : M (St × Option RtErr))) = .ok (st', e) ∧
      RInv st st' e (ids.flatMap (fun id =>
        match id with
        | .key _ k => (match Val.lookup k kvs with
          | some v => den env rest root v
          | none => [])
        | .wild _ => (sortKV kvs).flatMap (fun kv => den env rest root kv.2))) := by
    intro kvs
    refine group_inv _ _ ids (fun id _ => ?_) i st
    intro st0
    cases id with
    | key ii k =>
      simp only []
      cases hl : Val.lookup k kvs with
      | none => exact ⟨st0, none, rfl, Ext.refl st0⟩
      | some v =>
        obtain ⟨st', e, h1, h2⟩ := h ii root v (ext aloc (.key k)) st0
        exact ⟨st', e, h1, h2.ext⟩
    | wild ii =>
      simp only []
      obtain ⟨st', e, h1, h2⟩ := group_inv _ (fun kv : String × Val => den env rest root kv.2) (sortKV kvs)
        (fun x _ => branch_of_retrieveOK h ii root (fun kv : String × Val => kv.2) (fun kv => ext aloc (.key kv.1)) x) ii st0
      exact ⟨st', e, h1, h2.ext⟩
  cases cur with
  | obj kvs =>
    cases twin with
    | none => simp only [retrieve, den]; exact hobj kvs
    | some ti => simp only [retrieve, den]; exact hobj kvs
  | arr xs =>
    cases twin with
    | none => simp only [retrieve, den]; exact ⟨st, _, rfl, err_inv st _⟩
    | some ti =>
      simp only [retrieve, den]
      have := group_inv _ (fun xi : Val × Nat => den env rest root xi.1) (ids.flatMap (fun _ => xs.zipIdx))
        (fun x _ => branch_of_retrieveOK h ti root (fun xi : Val × Nat => xi.1) (fun xi => ext aloc (.idx xi.2)) x) ti st
      have hD : (ids.flatMap (fun _ => xs.zipIdx)).flatMap (fun xi : Val × Nat => den env rest root xi.1)
          = ids.flatMap (fun _ => xs.flatMap (fun x => den env rest root x)) := by
        rw [List.flatMap_assoc]
        simp only [zipIdx_flatMap_fst]
      rw [hD] at this
      exact this
  | null => cases twin <;> (simp only [retrieve, den]; exact ⟨st, _, rfl, err_inv st _⟩)
  | bool b => cases twin <;> (simp only [retrieve, den]; exact ⟨st, _, rfl, err_inv st _⟩)
  | num n => cases twin <;> (simp only [retrieve, den]; exact ⟨st, _, rfl, err_inv st _⟩)
  | jnum n => cases twin <;> (simp only [retrieve, den]; exact ⟨st, _, rfl, err_inv st _⟩)
  | str s => cases twin <;> (simp only [retrieve, den]; exact ⟨st, _, rfl, err_inv st _⟩)
  | opq t c => cases twin <;> (simp only [retrieve, den]; exact ⟨st, _, rfl, err_inv st _⟩)

end JPV

namespace JPV
open Impl TSem

theorem filter_map_fst {α β : Type} (p : α → Bool) (g : α × β → List Val) (h : α → List Val)
    (hg : ∀ x, g x = h x.1) : ∀ (xs : List (α × β)),
    (xs.filter (fun cl => p cl.1)).flatMap g = ((xs.map (·.1)).filter p).flatMap h
  | [] => rfl
  | x :: xs => by
    have ih := filter_map_fst p g h hg xs
    by_cases hp : p x.1 = true
    · simp [hp, hg, ih]
    · simp [hp, ih]

theorem desc_ok {env : Env} {rest : List N} (i : Info) (mr lr : Bool) (h : RetrieveOK env rest) :
    RetrieveOK env (.desc i mr lr :: rest) := by
  intro prev root cur aloc st
  simp only [retrieve, den]
  by_cases hc : cur.isContainer = true
  · rw [if_pos hc]
    have := group_inv _ (fun cl : Val × Loc => den env rest root cl.1)
      ((containersLoc cur (aloc.getD [])).filter (fun cl => if isObj cl.1 then mr else lr))
      (fun x _ => branch_of_retrieveOK h i root (fun cl : Val × Loc => cl.1) (fun cl => some cl.2) x) i st
    rw [filter_map_fst (fun c => if isObj c then mr else lr) _ (fun c => den env rest root c) (fun _ => rfl),
      containersLoc_fst] at this
    exact this
  · rw [if_neg hc]
    have hcont : Val.containers cur = [] := by
      cases cur <;> simp [Val.isContainer] at hc <;> simp [Val.containers]
    rw [hcont]
    exact ⟨st, _, rfl, err_inv st _⟩

theorem union_ok {env : Env} {rest : List N} (i : Info) (subs : List SubI) (h : RetrieveOK env rest) :
    RetrieveOK env (.union i subs :: rest) := by
  intro prev root cur aloc st
  cases cur with
  | arr xs =>
    simp only [retrieve, den]
    refine group_inv _ _ (subs.flatMap (fun s => subIndexes s xs.length)) (fun ix hix => ?_) i st
    intro st0
    obtain ⟨s, _, hs⟩ := List.mem_flatMap.mp hix
    have hr := subIndexes_range s xs.length ix hs
    have hlt : ix.toNat < xs.length := by omega
    have hget : (if ix < 0 then none else xs[ix.toNat]?) = some xs[ix.toNat] := by
      rw [if_neg (by omega)]
      exact List.getElem?_eq_getElem hlt
    simp only [hget]
    obtain ⟨st', e, h1, h2⟩ := h i root xs[ix.toNat] (ext aloc (.idx ix.toNat)) st0
    exact ⟨st', e, h1, h2.ext⟩
  | obj kvs => simp only [retrieve, den]; exact ⟨st, _, rfl, err_inv st _⟩
  | null => simp only [retrieve, den]; exact ⟨st, _, rfl, err_inv st _⟩
  | bool b => simp only [retrieve, den]; exact ⟨st, _, rfl, err_inv st _⟩
  | num n => simp only [retrieve, den]; exact ⟨st, _, rfl, err_inv st _⟩
  | jnum n => simp only [retrieve, den]; exact ⟨st, _, rfl, err_inv st _⟩
  | str s => simp only [retrieve, den]; exact ⟨st, _, rfl, err_inv st _⟩
  | opq t c => simp only [retrieve, den]; exact ⟨st, _, rfl, err_inv st _⟩

theorem ffn_ok {env : Env} {rest : List N} (i : Info) (name : String) (hreg : (env.ffn name).isSome = true)
    (h : RetrieveOK env rest) : RetrieveOK env (.ffn i name :: rest) := by
  intro prev root cur aloc st
  simp only [retrieve, den]
  cases hf : env.ffn name with
  | none => simp [hf] at hreg
  | some f =>
    simp only []
    cases hr : f cur with
    | none => exact ⟨_, _, rfl, RInv.of_err (call_inv st _)⟩
    | some r =>
      obtain ⟨st', e, h1, h2⟩ := h i root r none (st.call (.ffn name cur))
      exact ⟨st', e, h1, RInv.pre (call_inv st _) h2⟩

theorem afn_ok {env : Env} {rest param : List N} (i : Info) (name : String) (hreg : (env.afn name).isSome = true)
    (hp : RetrieveOK env param) (h : RetrieveOK env rest) : RetrieveOK env (.afn i name param :: rest) := by
  intro prev root cur aloc st
  obtain ⟨s1, e1, hp1, hp2⟩ := hp i root cur aloc st.sub
  have hback := back_inv st s1 _ hp2.ext
  have hvals := sub_out_vals st s1 _ hp2.ext
  cases e1 with
  | some err =>
    have hD : den env param root cur = [] := by
      cases hden : den env param root cur with
      | nil => rfl
      | cons a b =>
        have := hp2.sel_ok (by simp [hden])
        simp at this
    refine ⟨st.back s1, some err, ?_, ?_⟩
    · simp only [retrieve, hp1, bind, Except.bind]
    · simp only [den, hD]
      exact RInv.of_err hback
  | none =>
    have hne := hp2.ok_nonempty rfl
    cases hout : s1.out with
    | nil => exact absurd hout hne
    | cons r0 rs =>
      rw [hout] at hvals
      simp only [List.map_cons] at hvals
      cases hf : env.afn name with
      | none => simp [hf] at hreg
      | some f =>
        simp only [retrieve, den, hp1, bind, Except.bind, hout, hf, List.map_cons, ← hvals]
        split
        · rename_i hr
          rw [hr]
          exact ⟨_, _, rfl, RInv.of_err (hback.trans (call_inv _ _))⟩
        · rename_i r hr
          rw [hr]
          obtain ⟨st', e, h1, h2⟩ := h i root r none ((st.back s1).call (.afn name _))
          exact ⟨st', e, h1, RInv.pre (hback.trans (call_inv _ _)) h2⟩

end JPV

namespace JPV
open Impl TSem

theorem entriesSeg_snd (cur : Val) : (entriesSeg cur).map (·.2) = entries cur := by
  cases cur <;> simp [entriesSeg, entries, Function.comp_def]

theorem absVL_not_each_empty (cells : List Cell) (c0 : Cell) (cs : List Cell) (n : Nat) (hc : cells = c0 :: cs)
    (hne : ¬ cells.length = n) (h0 : c0.isEmpty = true) : absVL cells n = List.replicate n false := by
  subst hc
  simp only [absVL, expand, hne, if_false, List.map_replicate, cellNonEmpty, h0, Bool.not_true]

theorem absVL_not_each_full (cells : List Cell) (c0 : Cell) (cs : List Cell) (n : Nat) (hc : cells = c0 :: cs)
    (hne : ¬ cells.length = n) (h0 : c0.isEmpty = false) : absVL cells n = List.replicate n true := by
  subst hc
  simp only [absVL, expand, hne, if_false, List.map_replicate, cellNonEmpty, h0, Bool.not_false]

theorem flatMap_snd {α : Type} (g : Val → List Val) : ∀ (xs : List (α × Val)),
    xs.flatMap (fun sv => g sv.2) = (xs.map (·.2)).flatMap g
  | [] => rfl
  | x :: xs => by simp [flatMap_snd g xs]

theorem filter_ok {env : Env} {rest : List N} (i : Info) (q : Q) (hq : ComputeQOK env q)
    (h : RetrieveOK env rest) : RetrieveOK env (.filter i q :: rest) := by
  intro prev root cur aloc st
  simp only [retrieve, den]
  by_cases hc : cur.isContainer = true
  · rw [if_pos hc]
    have hms := entriesSeg_snd cur
    generalize entriesSeg cur = E at hms ⊢
    obtain ⟨vl, st1, hq1, hsub, hvl, habs⟩ := hq root (E.map (·.2)) st
    simp only [hq1, bind, Except.bind]
    rw [← hms]
    rw [← habs]
    cases hcells : vl.cells with
    | nil => exact absurd hcells hvl.ne
    | cons c0 cs =>
      simp only []
      have hlen : (E.map (·.2)).length = E.length := by simp
      by_cases hshort : (!((c0 :: cs).length == (E.map (·.2)).length) && c0.isEmpty) = true
      · -- a whole-match "no": nothing is selected
        rw [if_pos hshort]
        simp only [Bool.and_eq_true, Bool.not_eq_true', beq_eq_false_iff_ne, ne_eq] at hshort
        rw [absVL_not_each_empty _ c0 cs _ rfl hshort.1 hshort.2, keepBy_all_false]
        exact ⟨st1, _, rfl, RInv.of_err hsub⟩
      · rw [if_neg hshort]
        have hsel : ((if ((c0 :: cs).length == (E.map (·.2)).length) = true then
              List.map (fun x => x.1) (List.filter (fun ec => !ec.2.isEmpty) (E.zip (c0 :: cs))) else E).map (·.2))
            = keepBy (E.map (·.2)) (absVL (c0 :: cs) (E.map (·.2)).length) := by
          by_cases heach : (c0 :: cs).length = (E.map (·.2)).length
          · have : ((c0 :: cs).length == (E.map (·.2)).length) = true := by simpa using heach
            rw [if_pos this, keepBy_zip_filter E (c0 :: cs) (by rw [heach, hlen]), keepBy_map]
            simp only [absVL, expand, heach, if_true]
          · have hb : ((c0 :: cs).length == (E.map (·.2)).length) = false := by simpa using heach
            rw [hb]
            simp only [hb, Bool.not_false, Bool.true_and, Bool.not_eq_true] at hshort
            simp only [Bool.false_eq_true, if_false]
            rw [absVL_not_each_full _ c0 cs _ rfl heach hshort]
            exact (keepBy_all_true _).symm
        have := group_inv _ (fun sv : Seg × Val => den env rest root sv.2)
          (if ((c0 :: cs).length == (E.map (·.2)).length) = true then
              List.map (fun x => x.1) (List.filter (fun ec => !ec.2.isEmpty) (E.zip (c0 :: cs))) else E)
          (fun x _ => branch_of_retrieveOK h i root (fun sv : Seg × Val => sv.2) (fun sv => ext aloc sv.1) x) i st1
        rw [flatMap_snd (fun v => den env rest root v), hsel] at this
        obtain ⟨st', e, h1, h2⟩ := this
        exact ⟨st', e, h1, RInv.pre hsub h2⟩
  · rw [if_neg hc]
    have : entries cur = [] := by
      cases cur <;> simp [Val.isContainer] at hc <;> rfl
    rw [this]
    simp only [keepBy, List.flatMap_nil]
    exact ⟨st, _, rfl, err_inv st _⟩

end JPV

namespace JPV
open Impl TSem

/-! ### operands -/

theorem expand_const (c : Cell) (ms : List Val) : expand [c] ms.length = ms.map (fun _ => c) := by
  rw [expand_single]
  induction ms with
  | nil => rfl
  | cons m ms ih => simp [List.replicate_succ, ih]

theorem lit_ok (env : Env) (v : Val) : ComputePOK env (.lit v) := by
  intro root ms st
  refine ⟨⟨.fresh, [.val v]⟩, st, by simp only [computeP], SubInv.refl st,
    ⟨by simp, Or.inr rfl, Or.inl rfl⟩, ?_, fun _ => by simp, fun _ => rfl⟩
  simp only [pden]
  exact expand_const _ ms

theorem proot_ok {env : Env} {ch : List N} (h : RetrieveOK env ch) : ComputePOK env (.proot ch) := by
  intro root ms st
  obtain ⟨s1, e1, h1, h2⟩ := h default root root none st.sub
  have hback := back_inv st s1 _ h2.ext
  have hvals := sub_out_vals st s1 _ h2.ext
  simp only [computeP, h1, bind, Except.bind, pden]
  cases e1 with
  | some err =>
    have hD : den env ch root root = [] := by
      cases hden : den env ch root root with
      | nil => rfl
      | cons a b =>
        have := h2.sel_ok (by simp [hden])
        simp at this
    refine ⟨emptyL, _, rfl, hback, VLInv.emptyL _, ?_, fun _ => by simp [emptyL], fun _ => rfl⟩
    rw [hD]
    exact expand_const _ ms
  | none =>
    have hne := h2.ok_nonempty rfl
    match hout : s1.out, hne with
    | [r], _ =>
      refine ⟨⟨.fresh, [.val r.val]⟩, _, rfl, hback, ⟨by simp, Or.inr rfl, Or.inl rfl⟩, ?_, fun _ => by simp, fun _ => rfl⟩
      rw [hout] at hvals
      rw [← hvals]
      exact expand_const _ ms
    | r :: r' :: rs, _ =>
      refine ⟨fullL, _, rfl, hback, VLInv.fullL _, ?_, ?_, fun _ => rfl⟩
      · rw [hout] at hvals
        rw [← hvals]
        exact expand_const _ ms
      · intro hs
        have := single_den env ch root root hs
        rw [← hvals, hout] at this
        simp at this

theorem pcurLoop_ok {env : Env} {ch : List N} (h : RetrieveOK env ch) (root : Val) :
    ∀ (ms : List Val) (st : St), ∃ st1, pcurLoop env ch root ms st =
        .ok (ms.map (fun m => headCell (den env ch root m)), st1) ∧ SubInv st st1
  | [], st => ⟨st, by simp only [pcurLoop, List.map_nil], SubInv.refl st⟩
  | m :: ms, st => by
    obtain ⟨s1, e1, h1, h2⟩ := h default root m none st.sub
    have hback := back_inv st s1 _ h2.ext
    have hvals := sub_out_vals st s1 _ h2.ext
    obtain ⟨st2, hl, hs2⟩ := pcurLoop_ok h root ms (st.back s1)
    cases e1 with
    | some err =>
      have hD : den env ch root m = [] := by
        cases hden : den env ch root m with
        | nil => rfl
        | cons a b =>
          have := h2.sel_ok (by simp [hden])
          simp at this
      refine ⟨st2, ?_, hback.trans hs2⟩
      simp only [pcurLoop, h1, bind, Except.bind, hl, List.map_cons, hD, headCell]
    | none =>
      have hne := h2.ok_nonempty rfl
      cases hout : s1.out with
      | nil => exact absurd hout hne
      | cons r rs =>
        refine ⟨st2, ?_, hback.trans hs2⟩
        rw [hout] at hvals
        simp only [pcurLoop, h1, bind, Except.bind, hl, List.map_cons, hout, ← hvals, headCell]

theorem pcur_ok {env : Env} {ch : List N} (h : RetrieveOK env ch) : ComputePOK env (.pcur ch) := by
  intro root ms st
  obtain ⟨st1, hl, hs⟩ := pcurLoop_ok h root ms st
  simp only [computeP, hl, bind, Except.bind, pden]
  by_cases hany : (ms.map (fun m => headCell (den env ch root m))).any (fun c => !c.isEmpty) = true
  · rw [if_pos hany]
    refine ⟨_, st1, rfl, hs, ⟨?_, Or.inl (by simp), Or.inl rfl⟩, ?_, fun _ => by simp, fun h => by simp [isPcur] at h⟩
    · intro hnil
      simp only [] at hnil
      rw [hnil] at hany
      simp at hany
    · have : (ms.map (fun m => headCell (den env ch root m))).length = ms.length := by simp
      simp only [expand, this, if_true]
  · rw [if_neg hany]
    refine ⟨emptyL, st1, rfl, hs, VLInv.emptyL _, ?_, fun _ => by simp [emptyL], fun h => by simp [isPcur] at h⟩
    simp only [emptyL]
    rw [expand_const]
    apply List.map_congr_left
    intro m hm
    have : ¬ (!(headCell (den env ch root m)).isEmpty) = true := by
      intro hh
      exact hany (List.any_eq_true.mpr ⟨_, List.mem_map.mpr ⟨m, hm, rfl⟩, hh⟩)
    cases hc : headCell (den env ch root m) with
    | empty => rfl
    | val v => rw [hc] at this; simp [Cell.isEmpty] at this

end JPV

namespace JPV
open Impl TSem

/-! ### queries: existence and the logical operators -/

theorem absVL_single (c : Cell) (n : Nat) : absVL [c] n = List.replicate n (cellNonEmpty c) := by
  simp [absVL, expand_single]

theorem absVL_length (cells : List Cell) (n : Nat) (h : cells.length = n ∨ cells.length = 1) :
    (absVL cells n).length = n := by
  simp [absVL, expand_length cells n h]

theorem VLInv.fresh_of_long {vl : VL} {n : Nat} (h : VLInv vl n) (hl : vl.cells.length ≠ 1) : vl.org = .fresh := by
  rcases h.own with h | h | h
  · exact h
  · subst h; simp [Impl.emptyL] at hl
  · subst h; simp [Impl.fullL] at hl

theorem VLInv.len_of_long {vl : VL} {n : Nat} (h : VLInv vl n) (hl : vl.cells.length ≠ 1) : vl.cells.length = n := by
  rcases h.len with h | h
  · exact h
  · exact absurd h hl

theorem semQ_length {env : Env} {q : Q} (hq : ComputeQOK env q) (root : Val) (ms : List Val) :
    (semQ env q root ms).length = ms.length := by
  obtain ⟨vl, st1, _, _, hvl, habs⟩ := hq root ms {}
  rw [← habs]
  exact absVL_length _ _ hvl.len

theorem exist_ok {env : Env} {p : P} (hp : ComputePOK env p) : ComputeQOK env (.exist p) := by
  intro root ms st
  obtain ⟨vl, st1, h1, hs, hvl, hexp, _, _⟩ := hp root ms st
  refine ⟨vl, st1, by simp only [computeQ, h1], hs, hvl, ?_⟩
  simp only [semQ, absVL, hexp]

def flipCell : Cell → Cell
  | .empty => .val (.bool true)
  | .val _ => .empty

theorem notFlip_eq : ∀ cells : List Cell, notFlip cells = (cells.any Cell.isEmpty, cells.map flipCell)
  | [] => rfl
  | c :: cs => by
    cases c <;> simp [notFlip, notFlip_eq cs, flipCell, Cell.isEmpty]

theorem flipCell_nonEmpty (c : Cell) : cellNonEmpty (flipCell c) = !cellNonEmpty c := by
  cases c <;> rfl

theorem one_cell {cells : List Cell} (h : cells.length = 1) : ∃ c, cells = [c] := by
  match cells, h with
  | [c], _ => exact ⟨c, rfl⟩

theorem not_ok {env : Env} {a : Q} (ha : ComputeQOK env a) : ComputeQOK env (.not a) := by
  intro root ms st
  obtain ⟨cl, st1, h1, hs, hvl, habs⟩ := ha root ms st
  simp only [computeQ, h1, bind, Except.bind, semQ, ← habs]
  by_cases hone : cl.cells.length = 1
  · have hb : (cl.cells.length == 1) = true := by simp [hone]
    rw [if_pos hb]
    obtain ⟨c, hc⟩ := one_cell hone
    rw [hc]
    cases c with
    | empty =>
      refine ⟨fullL, st1, rfl, hs, VLInv.fullL _, ?_⟩
      rw [absVL_fullL, absVL_single]
      simp [cellNonEmpty, Cell.isEmpty]
    | val v =>
      refine ⟨emptyL, st1, rfl, hs, VLInv.emptyL _, ?_⟩
      rw [absVL_emptyL, absVL_single]
      simp [cellNonEmpty, Cell.isEmpty]
  · have hb : (cl.cells.length == 1) = false := by simp [hone]
    rw [hb]
    simp only [Bool.false_eq_true, if_false, notFlip_eq]
    have hfresh := hvl.fresh_of_long hone
    have hlen := hvl.len_of_long hone
    have hw := wrote_inv st1 cl.org cl.cells.length (Or.inl hfresh)
    by_cases hany : cl.cells.any Cell.isEmpty = true
    · rw [if_pos hany]
      refine ⟨_, _, rfl, hs.trans hw, ⟨?_, Or.inl (by simpa using hlen), Or.inl hfresh⟩, ?_⟩
      · intro hnil
        simp only [List.map_eq_nil_iff] at hnil
        exact hvl.ne hnil
      · simp only [absVL, expand, List.length_map, hlen, if_true, List.map_map]
        apply List.map_congr_left
        intro c _
        exact flipCell_nonEmpty c
    · rw [if_neg hany]
      refine ⟨emptyL, _, rfl, hs.trans hw, VLInv.emptyL _, ?_⟩
      rw [absVL_emptyL]
      simp only [absVL, expand, hlen, if_true, List.map_map]
      rw [← hlen]
      clear hlen hw hone hb
      generalize cl.cells = cells at hany
      induction cells with
      | nil => rfl
      | cons c cs ih =>
        simp only [List.any_cons, Bool.or_eq_true, not_or] at hany
        have hc : cellNonEmpty c = true := by
          cases c with
          | empty => simp [Cell.isEmpty] at hany
          | val v => rfl
        simp only [List.length_cons, List.replicate_succ, List.map_cons, Function.comp, hc, Bool.not_true]
        rw [ih (by simpa using hany.2)]

end JPV

namespace JPV
open Impl TSem

def andCell (l r : Cell) : Cell := match r with | .empty => .empty | .val _ => l
def orCell (l r : Cell) : Cell := match r with | .empty => l | .val _ => r

theorem andMerge_eq : ∀ (ls rs : List Cell), ls.length = rs.length →
    ∃ w, andMerge ls rs = .ok ((List.zipWith (fun l r => cellNonEmpty l && cellNonEmpty r) ls rs).any id,
      List.zipWith andCell ls rs, w)
  | [], [], _ => ⟨0, rfl⟩
  | [], _ :: _, h => by simp at h
  | _ :: _, [], h => by simp at h
  | l :: ls, r :: rs, h => by
    obtain ⟨w, ih⟩ := andMerge_eq ls rs (by simpa using h)
    cases r with
    | empty => exact ⟨w + 1, by simp [andMerge, ih, bind, Except.bind, andCell, cellNonEmpty, Cell.isEmpty]⟩
    | val v =>
      refine ⟨w, ?_⟩
      cases l <;> simp [andMerge, ih, bind, Except.bind, andCell, cellNonEmpty, Cell.isEmpty, Bool.or_comm]

theorem orMerge_eq : ∀ (ls rs : List Cell), ls.length = rs.length →
    ∃ w, orMerge ls rs = .ok (List.zipWith orCell ls rs, w)
  | [], [], _ => ⟨0, rfl⟩
  | [], _ :: _, h => by simp at h
  | _ :: _, [], h => by simp at h
  | l :: ls, r :: rs, h => by
    obtain ⟨w, ih⟩ := orMerge_eq ls rs (by simpa using h)
    cases r with
    | empty => exact ⟨w, by simp [orMerge, ih, bind, Except.bind, orCell]⟩
    | val v => exact ⟨w + 1, by simp [orMerge, ih, bind, Except.bind, orCell]⟩

theorem zipWith_and_map (ls rs : List Cell) :
    (List.zipWith andCell ls rs).map cellNonEmpty = List.zipWith (· && ·) (ls.map cellNonEmpty) (rs.map cellNonEmpty) := by
  induction ls generalizing rs with
  | nil => simp
  | cons l ls ih =>
    cases rs with
    | nil => simp
    | cons r rs =>
      simp only [List.zipWith_cons_cons, List.map_cons, ih]
      cases r <;> cases l <;> rfl

theorem zipWith_or_map (ls rs : List Cell) :
    (List.zipWith orCell ls rs).map cellNonEmpty = List.zipWith (· || ·) (ls.map cellNonEmpty) (rs.map cellNonEmpty) := by
  induction ls generalizing rs with
  | nil => simp
  | cons l ls ih =>
    cases rs with
    | nil => simp
    | cons r rs =>
      simp only [List.zipWith_cons_cons, List.map_cons, ih]
      cases r <;> cases l <;> rfl

theorem zipWith_and_replicate_false_left (n : Nat) (bs : List Bool) (h : bs.length = n) :
    List.zipWith (· && ·) (List.replicate n false) bs = List.replicate n false := by
  subst h
  induction bs with
  | nil => rfl
  | cons b bs ih => simp [List.replicate_succ, ih]

theorem zipWith_and_replicate_false_right (n : Nat) (bs : List Bool) (h : bs.length = n) :
    List.zipWith (· && ·) bs (List.replicate n false) = List.replicate n false := by
  subst h
  induction bs with
  | nil => rfl
  | cons b bs ih => simp [List.replicate_succ, ih]

theorem zipWith_and_replicate_true_left (n : Nat) (bs : List Bool) (h : bs.length = n) :
    List.zipWith (· && ·) (List.replicate n true) bs = bs := by
  subst h
  induction bs with
  | nil => rfl
  | cons b bs ih => simp [List.replicate_succ, ih]

theorem zipWith_and_replicate_true_right (n : Nat) (bs : List Bool) (h : bs.length = n) :
    List.zipWith (· && ·) bs (List.replicate n true) = bs := by
  subst h
  induction bs with
  | nil => rfl
  | cons b bs ih => simp [List.replicate_succ, ih]

theorem zipWith_or_replicate_false_left (n : Nat) (bs : List Bool) (h : bs.length = n) :
    List.zipWith (· || ·) (List.replicate n false) bs = bs := by
  subst h
  induction bs with
  | nil => rfl
  | cons b bs ih => simp [List.replicate_succ, ih]

theorem zipWith_or_replicate_false_right (n : Nat) (bs : List Bool) (h : bs.length = n) :
    List.zipWith (· || ·) bs (List.replicate n false) = bs := by
  subst h
  induction bs with
  | nil => rfl
  | cons b bs ih => simp [List.replicate_succ, ih]

theorem zipWith_or_replicate_true_left (n : Nat) (bs : List Bool) (h : bs.length = n) :
    List.zipWith (· || ·) (List.replicate n true) bs = List.replicate n true := by
  subst h
  induction bs with
  | nil => rfl
  | cons b bs ih => simp [List.replicate_succ, ih]

theorem zipWith_or_replicate_true_right (n : Nat) (bs : List Bool) (h : bs.length = n) :
    List.zipWith (· || ·) bs (List.replicate n true) = List.replicate n true := by
  subst h
  induction bs with
  | nil => rfl
  | cons b bs ih => simp [List.replicate_succ, ih]

theorem any_false_replicate : ∀ (bs : List Bool), bs.any id = false → bs = List.replicate bs.length false
  | [], _ => rfl
  | b :: bs, h => by
    simp only [List.any_cons, id, Bool.or_eq_false_iff] at h
    rw [List.length_cons, List.replicate_succ, h.1, ← any_false_replicate bs h.2]

theorem absVL_of_len {cells : List Cell} {n : Nat} (h : cells.length = n) : absVL cells n = cells.map cellNonEmpty := by
  simp [absVL, expand, h]

end JPV

namespace JPV
open Impl TSem

theorem and_ok {env : Env} {a b : Q} (ha : ComputeQOK env a) (hb : ComputeQOK env b) : ComputeQOK env (.and a b) := by
  intro root ms st
  obtain ⟨l, st1, h1, hs1, hvl, habsl⟩ := ha root ms st
  have hlb := semQ_length hb root ms
  have hla := semQ_length ha root ms
  simp only [computeQ, h1, bind, Except.bind, semQ, ← habsl]
  by_cases hone : l.cells.length = 1
  · have hbq : (l.cells.length == 1) = true := by simp [hone]
    rw [if_pos hbq]
    obtain ⟨c, hc⟩ := one_cell hone
    rw [hc]
    cases c with
    | empty =>
      refine ⟨l, st1, rfl, hs1, hvl, ?_⟩
      rw [hc, absVL_single]
      simp only [cellNonEmpty, Cell.isEmpty, Bool.not_true]
      exact (zipWith_and_replicate_false_left _ _ hlb).symm
    | val v =>
      obtain ⟨r, st2, h2, hs2, hvr, habsr⟩ := hb root ms st1
      refine ⟨r, st2, h2, hs1.trans hs2, hvr, ?_⟩
      rw [absVL_single, habsr]
      simp only [cellNonEmpty, Cell.isEmpty, Bool.not_false]
      exact (zipWith_and_replicate_true_left _ _ hlb).symm
  · have hbq : (l.cells.length == 1) = false := by simp [hone]
    rw [hbq]
    simp only [Bool.false_eq_true, if_false]
    obtain ⟨r, st2, h2, hs2, hvr, habsr⟩ := hb root ms st1
    simp only [h2]
    have hll := hvl.len_of_long hone
    rw [← habsr]
    by_cases hone' : r.cells.length = 1
    · have hbq' : (r.cells.length == 1) = true := by simp [hone']
      rw [if_pos hbq']
      obtain ⟨c, hc⟩ := one_cell hone'
      rw [hc]
      cases c with
      | empty =>
        refine ⟨r, st2, rfl, hs1.trans hs2, hvr, ?_⟩
        rw [hc, absVL_single]
        simp only [cellNonEmpty, Cell.isEmpty, Bool.not_true]
        exact (zipWith_and_replicate_false_right _ _ (absVL_length _ _ hvl.len)).symm
      | val v =>
        refine ⟨l, st2, rfl, hs1.trans hs2, hvl, ?_⟩
        rw [absVL_single]
        simp only [cellNonEmpty, Cell.isEmpty, Bool.not_false]
        exact (zipWith_and_replicate_true_right _ _ (absVL_length _ _ hvl.len)).symm
    · have hbq' : (r.cells.length == 1) = false := by simp [hone']
      rw [hbq']
      simp only [Bool.false_eq_true, if_false]
      have hlr := hvr.len_of_long hone'
      obtain ⟨w, hm⟩ := andMerge_eq l.cells r.cells (by rw [hll, hlr])
      have hfresh := hvl.fresh_of_long hone
      have hw := wrote_inv st2 l.org w (Or.inl hfresh)
      simp only [hm]
      have hzip : (List.zipWith andCell l.cells r.cells).map cellNonEmpty
          = List.zipWith (· && ·) (absVL l.cells ms.length) (absVL r.cells ms.length) := by
        rw [zipWith_and_map, absVL_of_len hll, absVL_of_len hlr]
      have hzlen : (List.zipWith andCell l.cells r.cells).length = ms.length := by
        simp [List.length_zipWith, hll, hlr]
      have hhit : (List.zipWith (fun l r => cellNonEmpty l && cellNonEmpty r) l.cells r.cells)
          = (List.zipWith andCell l.cells r.cells).map cellNonEmpty := by
        rw [zipWith_and_map, List.zipWith_map]
      rw [hhit]
      by_cases hany : ((List.zipWith andCell l.cells r.cells).map cellNonEmpty).any id = true
      · rw [if_pos hany]
        refine ⟨_, _, rfl, (hs1.trans hs2).trans hw, ⟨?_, Or.inl hzlen, Or.inl hfresh⟩, ?_⟩
        · intro hnil
          simp only [] at hnil
          rw [hnil] at hany
          simp at hany
        · rw [absVL_of_len hzlen, hzip]
      · rw [if_neg hany]
        refine ⟨emptyL, _, rfl, (hs1.trans hs2).trans hw, VLInv.emptyL _, ?_⟩
        rw [absVL_emptyL, ← hzip]
        have hf : ((List.zipWith andCell l.cells r.cells).map cellNonEmpty).any id = false := by
          cases hh : ((List.zipWith andCell l.cells r.cells).map cellNonEmpty).any id
          · rfl
          · exact absurd hh hany
        have := any_false_replicate _ hf
        rw [this, List.length_map, hzlen]

theorem or_ok {env : Env} {a b : Q} (ha : ComputeQOK env a) (hb : ComputeQOK env b) : ComputeQOK env (.or a b) := by
  intro root ms st
  obtain ⟨l, st1, h1, hs1, hvl, habsl⟩ := ha root ms st
  have hlb := semQ_length hb root ms
  simp only [computeQ, h1, bind, Except.bind, semQ, ← habsl]
  by_cases hone : l.cells.length = 1
  · have hbq : (l.cells.length == 1) = true := by simp [hone]
    rw [if_pos hbq]
    obtain ⟨c, hc⟩ := one_cell hone
    rw [hc]
    cases c with
    | empty =>
      obtain ⟨r, st2, h2, hs2, hvr, habsr⟩ := hb root ms st1
      refine ⟨r, st2, h2, hs1.trans hs2, hvr, ?_⟩
      rw [absVL_single, habsr]
      simp only [cellNonEmpty, Cell.isEmpty, Bool.not_true]
      exact (zipWith_or_replicate_false_left _ _ hlb).symm
    | val v =>
      refine ⟨l, st1, rfl, hs1, hvl, ?_⟩
      rw [hc, absVL_single]
      simp only [cellNonEmpty, Cell.isEmpty, Bool.not_false]
      exact (zipWith_or_replicate_true_left _ _ hlb).symm
  · have hbq : (l.cells.length == 1) = false := by simp [hone]
    rw [hbq]
    simp only [Bool.false_eq_true, if_false]
    obtain ⟨r, st2, h2, hs2, hvr, habsr⟩ := hb root ms st1
    simp only [h2]
    have hll := hvl.len_of_long hone
    rw [← habsr]
    by_cases hone' : r.cells.length = 1
    · have hbq' : (r.cells.length == 1) = true := by simp [hone']
      rw [if_pos hbq']
      obtain ⟨c, hc⟩ := one_cell hone'
      rw [hc]
      cases c with
      | empty =>
        refine ⟨l, st2, rfl, hs1.trans hs2, hvl, ?_⟩
        rw [absVL_single]
        simp only [cellNonEmpty, Cell.isEmpty, Bool.not_true]
        exact (zipWith_or_replicate_false_right _ _ (absVL_length _ _ hvl.len)).symm
      | val v =>
        refine ⟨r, st2, rfl, hs1.trans hs2, hvr, ?_⟩
        rw [hc, absVL_single]
        simp only [cellNonEmpty, Cell.isEmpty, Bool.not_false]
        exact (zipWith_or_replicate_true_right _ _ (absVL_length _ _ hvl.len)).symm
    · have hbq' : (r.cells.length == 1) = false := by simp [hone']
      rw [hbq']
      simp only [Bool.false_eq_true, if_false]
      have hlr := hvr.len_of_long hone'
      obtain ⟨w, hm⟩ := orMerge_eq l.cells r.cells (by rw [hll, hlr])
      have hfresh := hvl.fresh_of_long hone
      have hw := wrote_inv st2 l.org w (Or.inl hfresh)
      simp only [hm]
      have hzlen : (List.zipWith orCell l.cells r.cells).length = ms.length := by
        simp [List.length_zipWith, hll, hlr]
      refine ⟨_, _, rfl, (hs1.trans hs2).trans hw, ⟨?_, Or.inl hzlen, Or.inl hfresh⟩, ?_⟩
      · intro hnil
        simp only [] at hnil
        have := hvl.ne
        rw [hnil] at hzlen
        have : l.cells.length = 0 := by rw [hll]; simpa using hzlen.symm
        exact hvl.ne (List.length_eq_zero_iff.mp this)
      · rw [absVL_of_len hzlen, zipWith_or_map, absVL_of_len hll, absVL_of_len hlr]

end JPV

namespace JPV
open Impl TSem

/-! ### comparisons -/

/-- one cell after the comparator's embedded validator -/
def vc (c : Cmp) : Cell → Cell :=
  match cmpValidatorTy c with
  | none => id
  | some ty => v1 ty

theorem validated_eq (c : Cmp) (cells : List Cell) : validated c cells = cells.map (vc c) := by
  unfold validated vc
  cases cmpValidatorTy c with
  | none => simp
  | some ty => exact validateTy_cells ty cells

theorem vc_empty (c : Cmp) : vc c .empty = .empty := by
  unfold vc
  cases cmpValidatorTy c <;> rfl

theorem vc_tyOK (c : Cmp) (cell : Cell) (v : Val) (h : vc c cell = .val v) : cmpTyOK c v = true := by
  unfold vc at h
  unfold cmpTyOK
  cases hty : cmpValidatorTy c with
  | none => rfl
  | some ty =>
    rw [hty] at h
    exact v1_ty ty cell v h

theorem validateTy_emptyL (ty : LitTy) : validateTy ty [.empty] = (false, [.empty], 0) := by
  cases ty <;> rfl

theorem valStep_spec (c : Cmp) (lv : VL) (st : St) (hown : lv.org = .fresh ∨ lv = emptyL) :
    (valStep c lv st).1 = (lv.cells.map (vc c)).any cellNonEmpty ∧
    (valStep c lv st).2.1 = { lv with cells := lv.cells.map (vc c) } ∧
    SubInv st (valStep c lv st).2.2 := by
  unfold valStep vc
  cases hty : cmpValidatorTy c with
  | none =>
    refine ⟨?_, by simp, SubInv.refl st⟩
    simp only [validateAny, List.map_id]
    rfl
  | some ty =>
    simp only []
    refine ⟨validateTy_found ty lv.cells, by rw [validateTy_cells], ?_⟩
    apply wrote_inv
    rcases hown with h | h
    · exact Or.inl h
    · right
      subst h
      simp only [emptyL, validateTy_emptyL]

theorem cm_nonEmpty (env : Env) (c : Cmp) (r : Val) (cell : Cell) :
    cellNonEmpty (cm env c r cell) = testCell env c r cell := by
  unfold cm
  cases ht : testCell env c r cell with
  | false => rfl
  | true =>
    cases cell with
    | empty => simp [testCell] at ht
    | val v => rfl

theorem expand_all_false (p : Cell → Bool) (cells : List Cell) (n : Nat)
    (hlen : cells.length = n ∨ cells.length = 1) (h : cells.any p = false) :
    (expand cells n).map p = List.replicate n false := by
  have hall : ∀ c ∈ cells, p c = false := by
    intro c hc
    cases hp : p c with
    | false => rfl
    | true =>
      have : cells.any p = true := List.any_eq_true.mpr ⟨c, hc, hp⟩
      rw [h] at this
      simp at this
  unfold expand
  by_cases hn : cells.length = n
  · rw [if_pos hn]
    subst hn
    clear hlen h
    induction cells with
    | nil => rfl
    | cons c cs ih =>
      simp only [List.map_cons, List.length_cons, List.replicate_succ, hall c (List.mem_cons_self)]
      rw [ih (fun c hc => hall c (List.mem_cons_of_mem _ hc))]
  · rw [if_neg hn]
    rcases hlen with h1 | h1
    · exact absurd h1 hn
    · obtain ⟨c, hc⟩ := one_cell h1
      subst hc
      simp [hall c (List.mem_cons_self)]

theorem absVL_zero (cells : List Cell) : absVL cells 0 = [] := by
  unfold absVL expand
  by_cases h : cells.length = 0
  · simp [h, List.length_eq_zero_iff.mp h]
  · simp only [h, if_false]
    cases cells <;> simp

theorem zipWith_replicate_right {α β γ : Type} (f : α → β → γ) (b : β) : ∀ (xs : List α),
    List.zipWith f xs (List.replicate xs.length b) = xs.map (fun x => f x b)
  | [] => rfl
  | x :: xs => by simp [List.replicate_succ, zipWith_replicate_right f b xs]

end JPV

namespace JPV
open Impl TSem

theorem map_const_replicate {α β : Type} (xs : List α) (b : β) : xs.map (fun _ => b) = List.replicate xs.length b := by
  induction xs with
  | nil => rfl
  | cons x xs ih => simp [List.replicate_succ, ih]

theorem own_of_single {vl : VL} {n : Nat} (hvl : VLInv vl n) (h : vl.org ≠ .gFull) : vl.org = .fresh ∨ vl = emptyL := by
  rcases hvl.own with h1 | h1 | h1
  · exact Or.inl h1
  · exact Or.inr h1
  · subst h1; simp [fullL] at h

theorem cmp_ok {env : Env} {l r : P} (c : Cmp) (hl : ComputePOK env l) (hr : ComputePOK env r)
    (hsl : singleP l = true) (hsr : singleP r = true) (hnr : isPcur r = false) : ComputeQOK env (.cmp l r c) := by
  intro root ms st
  obtain ⟨lv, st1, h1, hs1, hvl, hexpl, hgl, _⟩ := hl root ms st
  simp only [computeQ, h1, bind, Except.bind]
  obtain ⟨hlf, hlv, hsl2⟩ := valStep_spec c lv st1 (own_of_single hvl (hgl hsl))
  obtain ⟨rv, st3, h3, hs3, hvr, hexpr, hgr, hr1⟩ := hr root ms (valStep c lv st1).2.2
  simp only [h3]
  obtain ⟨hrf, hrv, hsr2⟩ := valStep_spec c rv st3 (own_of_single hvr (hgr hsr))
  have hsub : SubInv st (valStep c rv st3).2.2 := ((hs1.trans hsl2).trans hs3).trans hsr2
  obtain ⟨rc, hrc⟩ := one_cell (hr1 hnr)
  -- the semantic side
  have hL : validated c (pden env l root ms) = expand (lv.cells.map (vc c)) ms.length := by
    rw [validated_eq, ← hexpl, expand_map]
  have hR : validated c (pden env r root ms) = List.replicate ms.length (vc c rc) := by
    rw [validated_eq, ← hexpr, hrc, expand_single, List.map_replicate]
  have hlenl : (lv.cells.map (vc c)).length = ms.length ∨ (lv.cells.map (vc c)).length = 1 := by
    simpa using hvl.len
  rw [hlf, hrf, hlv, hrv, hrc]
  simp only [List.map_cons, List.map_nil, List.any_cons, List.any_nil, Bool.or_false]
  -- n = 0: everything is the empty list
  by_cases hn : ms.length = 0
  · have hms : ms = [] := List.length_eq_zero_iff.mp hn
    have hsem : semQ env (.cmp l r c) root ms = [] := by
      subst hms
      have hpl : pden env l root [] = [] := by cases l <;> rfl
      have hpr : pden env r root [] = [] := by cases r <;> rfl
      simp [semQ, hpl, hpr, validated_eq]
    rw [hsem, hn]
    by_cases hboth : ((lv.cells.map (vc c)).any cellNonEmpty && cellNonEmpty (vc c rc)) = true
    · rw [if_pos hboth]
      simp only [Bool.and_eq_true] at hboth
      cases hvc : vc c rc with
      | empty => rw [hvc] at hboth; simp [cellNonEmpty, Cell.isEmpty] at hboth
      | val r0 =>
        simp only []
        have hr0 := vc_tyOK c rc r0 hvc
        obtain ⟨w, hcmp⟩ := comparator_ok env c r0 (lv.cells.map (vc c)) (by
          intro v hv
          obtain ⟨cell, _, hcell⟩ := List.mem_map.mp hv
          exact cmpTest_ok env c v r0 (vc_tyOK c cell v hcell) hr0)
        simp only [hcmp]
        have hfresh : lv.org = .fresh := by
          rcases own_of_single hvl (hgl hsl) with h | h
          · exact h
          · subst h
            simp [emptyL, vc_empty, cellNonEmpty, Cell.isEmpty] at hboth
        split
        · refine ⟨_, _, rfl, hsub.trans (wrote_inv _ _ _ (Or.inl hfresh)), ⟨?_, ?_, Or.inl hfresh⟩, absVL_zero _⟩
          · simp only [ne_eq, List.map_eq_nil_iff]; exact hvl.ne
          · simpa [hn] using hvl.len
        · exact ⟨emptyL, _, rfl, hsub.trans (wrote_inv _ _ _ (Or.inl hfresh)), VLInv.emptyL _, absVL_zero _⟩
    · rw [if_neg hboth]
      split
      · exact ⟨fullL, _, rfl, hsub, VLInv.fullL _, absVL_zero _⟩
      · exact ⟨emptyL, _, rfl, hsub, VLInv.emptyL _, absVL_zero _⟩
  · have hpos : 0 < ms.length := Nat.pos_of_ne_zero hn
    have hlfS : (validated c (pden env l root ms)).any cellNonEmpty = (lv.cells.map (vc c)).any cellNonEmpty := by
      rw [hL, expand_any _ _ _ hpos hlenl]
    have hrfS : (validated c (pden env r root ms)).any cellNonEmpty = cellNonEmpty (vc c rc) := by
      rw [hR, List.any_replicate]
      simp [hn]
    simp only [semQ, hlfS, hrfS]
    by_cases hboth : ((lv.cells.map (vc c)).any cellNonEmpty && cellNonEmpty (vc c rc)) = true
    · rw [if_pos hboth, if_pos hboth]
      simp only [Bool.and_eq_true] at hboth
      cases hvc : vc c rc with
      | empty => rw [hvc] at hboth; simp [cellNonEmpty, Cell.isEmpty] at hboth
      | val r0 =>
        simp only []
        have hr0 := vc_tyOK c rc r0 hvc
        obtain ⟨w, hcmp⟩ := comparator_ok env c r0 (lv.cells.map (vc c)) (by
          intro v hv
          obtain ⟨cell, _, hcell⟩ := List.mem_map.mp hv
          exact cmpTest_ok env c v r0 (vc_tyOK c cell v hcell) hr0)
        simp only [hcmp]
        have hfresh : lv.org = .fresh := by
          rcases own_of_single hvl (hgl hsl) with h | h
          · exact h
          · subst h
            simp [emptyL, vc_empty, cellNonEmpty, Cell.isEmpty] at hboth
        have hsemEq : List.zipWith (pairTest env c) (validated c (pden env l root ms)) (validated c (pden env r root ms))
            = (expand (lv.cells.map (vc c)) ms.length).map (testCell env c r0) := by
          rw [hR, hL, hvc]
          have hlen := expand_length _ _ hlenl
          have hz := zipWith_replicate_right (pairTest env c) (Cell.val r0) (expand (lv.cells.map (vc c)) ms.length)
          rw [hlen] at hz
          exact hz
        rw [hsemEq]
        by_cases hhit : (lv.cells.map (vc c)).any (testCell env c r0) = true
        · rw [if_pos hhit]
          refine ⟨_, _, rfl, hsub.trans (wrote_inv _ _ _ (Or.inl hfresh)), ⟨?_, ?_, Or.inl hfresh⟩, ?_⟩
          · simp only [ne_eq, List.map_eq_nil_iff]; exact hvl.ne
          · simpa using hvl.len
          · simp only [absVL, expand_map, List.map_map]
            apply List.map_congr_left
            intro cell _
            exact cm_nonEmpty env c r0 (vc c cell)
        · rw [if_neg hhit]
          refine ⟨emptyL, _, rfl, hsub.trans (wrote_inv _ _ _ (Or.inl hfresh)), VLInv.emptyL _, ?_⟩
          rw [absVL_emptyL]
          have hf : (lv.cells.map (vc c)).any (testCell env c r0) = false := by
            cases hh : (lv.cells.map (vc c)).any (testCell env c r0)
            · rfl
            · exact absurd hh hhit
          exact (expand_all_false _ _ _ hlenl hf).symm
    · rw [if_neg hboth, if_neg hboth]
      by_cases hcorner : ((lv.cells.map (vc c)).any cellNonEmpty == cellNonEmpty (vc c rc) && c == .deepEq) = true
      · rw [if_pos hcorner]
        have : (!(lv.cells.map (vc c)).any cellNonEmpty && !cellNonEmpty (vc c rc) && c == .deepEq) = true := by
          revert hboth hcorner
          cases (lv.cells.map (vc c)).any cellNonEmpty <;> cases cellNonEmpty (vc c rc) <;> simp
        rw [if_pos this]
        refine ⟨fullL, _, rfl, hsub, VLInv.fullL _, ?_⟩
        rw [absVL_fullL]
        exact (map_const_replicate ms true).symm
      · rw [if_neg hcorner]
        have : ¬ (!(lv.cells.map (vc c)).any cellNonEmpty && !cellNonEmpty (vc c rc) && c == .deepEq) = true := by
          revert hboth hcorner
          cases (lv.cells.map (vc c)).any cellNonEmpty <;> cases cellNonEmpty (vc c rc) <;> simp
        rw [if_neg this]
        refine ⟨emptyL, _, rfl, hsub, VLInv.emptyL _, ?_⟩
        rw [absVL_emptyL]
        exact (map_const_replicate ms false).symm

end JPV

namespace JPV
open Impl TSem

/-! ### the mutual induction -/

mutual
theorem retrieve_ok (env : Env) : ∀ (ch : List N), wfChain env ch = true → RetrieveOK env ch
  | [], _ => nil_ok env
  | n :: rest, h => by
    simp only [wfChain, Bool.and_eq_true] at h
    obtain ⟨hn, hr⟩ := h
    have ih := retrieve_ok env rest hr
    cases n with
    | root i => exact root_ok i ih
    | cur i => exact cur_ok i ih
    | child i k => exact child_ok i k ih
    | wild i => exact wild_ok i ih
    | multi i ids t => exact multi_ok i ids t ih
    | desc i a b => exact desc_ok i a b ih
    | union i subs => exact union_ok i subs ih
    | filter i q =>
      simp only [wfN] at hn
      exact filter_ok i q (computeQ_ok env q hn) ih
    | ffn i name =>
      simp only [wfN] at hn
      exact ffn_ok i name hn ih
    | afn i name param =>
      simp only [wfN, Bool.and_eq_true] at hn
      exact afn_ok i name hn.1 (retrieve_ok env param hn.2) ih
theorem computeQ_ok (env : Env) : ∀ (q : Q), wfQ env q = true → ComputeQOK env q
  | .exist p, h => by
    simp only [wfQ] at h
    exact exist_ok (computeP_ok env p h)
  | .not a, h => by
    simp only [wfQ] at h
    exact not_ok (computeQ_ok env a h)
  | .and a b, h => by
    simp only [wfQ, Bool.and_eq_true] at h
    exact and_ok (computeQ_ok env a h.1) (computeQ_ok env b h.2)
  | .or a b, h => by
    simp only [wfQ, Bool.and_eq_true] at h
    exact or_ok (computeQ_ok env a h.1) (computeQ_ok env b h.2)
  | .cmp l r c, h => by
    simp only [wfQ, Bool.and_eq_true, Bool.not_eq_true'] at h
    obtain ⟨⟨⟨⟨hl, hr⟩, hsl⟩, hsr⟩, hnr⟩ := h
    exact cmp_ok c (computeP_ok env l hl) (computeP_ok env r hr) hsl hsr hnr
theorem computeP_ok (env : Env) : ∀ (p : P), wfP env p = true → ComputePOK env p
  | .lit v, _ => lit_ok env v
  | .proot ch, h => by
    simp only [wfP] at h
    exact proot_ok (retrieve_ok env ch h)
  | .pcur ch, h => by
    simp only [wfP] at h
    exact pcur_ok (retrieve_ok env ch h)
end

/-! ### top level -/

/-- The function returned by `Parse`, on a well-formed tree: never panics; returns exactly
    the denotation's values, in order; an error iff the denotation is empty; every list it
    wrote to was allocated by this evaluation. -/
theorem run_refines (env : Env) (ch : List N) (hwf : wfChain env ch = true) (d : Val) :
    (∃ rs st, Impl.run env ch d = (.ok rs, st) ∧ rs.map Res.val = den env ch d d ∧ rs ≠ [] ∧
        (∀ w ∈ st.writes, w = Org.fresh)) ∨
    (∃ e st, Impl.run env ch d = (.err e, st) ∧ den env ch d d = [] ∧ (∀ w ∈ st.writes, w = Org.fresh)) := by
  obtain ⟨st', e, h1, h2⟩ := retrieve_ok env ch hwf default d d (some []) {}
  obtain ⟨⟨R, hout, hvals⟩, ⟨ws, hws, hfresh⟩⟩ := h2.ext
  have hw : ∀ w ∈ st'.writes, w = Org.fresh := by
    intro w hw
    rw [hws] at hw
    simp at hw
    exact hfresh w hw
  simp only [List.nil_append] at hout
  cases e with
  | none =>
    left
    refine ⟨st'.out, st', by simp only [Impl.run, h1], ?_, h2.ok_nonempty rfl, hw⟩
    rw [hout, hvals]
  | some err =>
    right
    refine ⟨err, st', by simp only [Impl.run, h1], ?_, hw⟩
    cases hden : den env ch d d with
    | nil => rfl
    | cons a b =>
      have := h2.sel_ok (by simp [hden])
      simp at this

end JPV
