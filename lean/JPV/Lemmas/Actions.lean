/-
Lemmas about the action stack machine: which errors a computation can raise (`Only`),
`execFrom` over concatenated token lists, and the one place the `unrecognized input` error comes from.
-/
import JPV.Peg.Actions
namespace JPV.Peg

/-- the computation raises only errors satisfying `P` -/
@[irreducible] def Only {α : Type} (P : Stop → Prop) (m : M α) : Prop := ∀ e, m = .error e → P e

theorem Only.intro {α} {P : Stop → Prop} {m : M α} (h : ∀ e, m = .error e → P e) : Only P m := by
  unfold Only; exact h
theorem Only.elim {α} {P : Stop → Prop} {m : M α} (h : Only P m) : ∀ e, m = .error e → P e := by
  unfold Only at h; exact h
theorem Only.ok {α} {P : Stop → Prop} (a : α) : Only P (.ok a : M α) := .intro (by intro e h; cases h)
theorem Only.pure {α} {P : Stop → Prop} (a : α) : Only P (pure a : M α) := .intro (by intro e h; cases h)
theorem Only.err {α} {P : Stop → Prop} (e : Stop) (h : P e) : Only P (.error e : M α) :=
  .intro (by intro e' h'; cases h'; exact h)
theorem Only.bind {α β} {P : Stop → Prop} (m : M α) (f : α → M β) (hm : Only P m)
    (hf : ∀ a, Only P (f a)) : Only P (m >>= f) := by
  apply Only.intro
  intro e h
  cases m with
  | error e' =>
    change Except.error e' = Except.error e at h
    cases h
    exact hm.elim _ rfl
  | ok a => exact (hf a).elim e h

/-- every error except the `unrecognized input` syntax error -/
def Stop.notUnrec : Stop → Prop
  | .syntaxErr _ .unrecognizedInput => False
  | _ => True

abbrev NU {α : Type} (m : M α) : Prop := Only Stop.notUnrec m

/-- structural steps of a proof of `Only P m`; `extra` closes calls of helpers -/
macro "only_steps" extra:tactic : tactic => `(tactic|
  repeat' (first
    | exact Only.ok _
    | exact Only.pure _
    | exact Only.err _ trivial
    | ($extra:tactic)
    | (refine Only.bind _ _ ?_ ?_)
    | (intro _)
    | split
    | (dsimp only)))

theorem pop_nu (st : St) : NU (pop st) := by unfold pop; only_steps fail
theorem asNode_nu (x : Item) : NU (asNode x) := by unfold asNode; only_steps fail
theorem asStr_nu (x : Item) : NU (asStr x) := by unfold asStr; only_steps fail
theorem asIdx_nu (x : Item) : NU (asIdx x) := by unfold asIdx; only_steps fail
theorem asSubscript_nu (x : Item) : NU (asSubscript x) := by unfold asSubscript; only_steps fail
theorem asUnion_nu (x : Item) : NU (asUnion x) := by unfold asUnion; only_steps fail
theorem asQuery_nu (x : Item) : NU (asQuery x) := by unfold asQuery; only_steps fail
theorem asJP_nu (x : Item) : NU (asJP x) := by unfold asJP; only_steps fail
theorem asCP_nu (x : Item) : NU (asCP x) := by unfold asCP; only_steps fail
theorem asBool_nu (x : Item) : NU (asBool x) := by unfold asBool; only_steps fail

macro "nu_base" : tactic => `(tactic| first
  | exact pop_nu _ | exact asNode_nu _ | exact asStr_nu _ | exact asIdx_nu _ | exact asSubscript_nu _
  | exact asUnion_nu _ | exact asQuery_nu _ | exact asJP_nu _ | exact asCP_nu _ | exact asBool_nu _)

theorem linkOne_nu (r : List N) (x : Item) : NU (linkOne r x) := by unfold linkOne; only_steps nu_base
theorem linkAll_nu (r : List N) (xs : List Item) : NU (linkAll r xs) := by
  induction xs generalizing r with
  | nil => unfold linkAll; only_steps fail
  | cons x xs ih => unfold linkAll; only_steps (first | exact linkOne_nu _ _ | exact ih _)
theorem setNodeChain_nu (st : St) : NU (setNodeChain st) := by
  unfold setNodeChain; only_steps (first | nu_base | exact linkAll_nu _ _)
theorem updateRootValueGroup_nu (st : St) : NU (updateRootValueGroup st) := by
  unfold updateRootValueGroup; only_steps nu_base
theorem setLastNodeText_nu (t : String) (st : St) : NU (setLastNodeText t st) := by
  unfold setLastNodeText; only_steps nu_base
theorem pushFunction_nu (c : Ctx) (t n : String) (st : St) : NU (pushFunction c t n st) := by
  unfold pushFunction; only_steps fail
theorem toMId_nu (ch : List N) : NU (toMId ch) := by unfold toMId; only_steps fail
theorem pushChildMulti_nu (c : Ctx) (a b : List N) (st : St) : NU (pushChildMulti c a b st) := by
  unfold pushChildMulti; only_steps (exact toMId_nu _)
theorem pushIndexSubscript_nu (c : Ctx) (t : String) (o : Bool) (st : St) :
    NU (pushIndexSubscript c t o st) := by unfold pushIndexSubscript; only_steps fail
theorem compareAction_nu (mk : P → P → Q) (st : St) : NU (compareAction mk st) := by
  unfold compareAction; only_steps nu_base
theorem pushCompareParameterLiteral_nu (st : St) : NU (pushCompareParameterLiteral st) := by
  unfold pushCompareParameterLiteral; only_steps nu_base

macro "nu_helpers" : tactic => `(tactic| first
  | nu_base
  | exact setNodeChain_nu _ | exact updateRootValueGroup_nu _ | exact setLastNodeText_nu _ _
  | exact pushFunction_nu _ _ _ _ | exact pushChildMulti_nu _ _ _ _ | exact pushIndexSubscript_nu _ _ _ _
  | exact compareAction_nu _ _ | exact pushCompareParameterLiteral_nu _)

theorem act0_nu (c : Ctx) (st : St) : NU (act0 c st) := by unfold act0; only_steps nu_helpers
theorem act2_nu (c : Ctx) (st : St) : NU (act2 c st) := by unfold act2; only_steps nu_helpers
theorem act3_nu (c : Ctx) (st : St) : NU (act3 c st) := by unfold act3; only_steps nu_helpers
theorem act4_nu (c : Ctx) (st : St) : NU (act4 c st) := by unfold act4; only_steps nu_helpers
theorem act5_nu (c : Ctx) (st : St) : NU (act5 c st) := by unfold act5; only_steps nu_helpers
theorem act6_nu (c : Ctx) (st : St) : NU (act6 c st) := by unfold act6; only_steps nu_helpers
theorem act7_nu (c : Ctx) (st : St) : NU (act7 c st) := by unfold act7; only_steps nu_helpers
theorem act8_nu (c : Ctx) (st : St) : NU (act8 c st) := by unfold act8; only_steps nu_helpers
theorem act9_nu (c : Ctx) (st : St) : NU (act9 c st) := by unfold act9; only_steps nu_helpers
theorem act10_nu (c : Ctx) (st : St) : NU (act10 c st) := by unfold act10; only_steps nu_helpers
theorem act11_nu (c : Ctx) (st : St) : NU (act11 c st) := by unfold act11; only_steps nu_helpers
theorem act12_nu (c : Ctx) (st : St) : NU (act12 c st) := by unfold act12; only_steps nu_helpers
theorem act13_nu (c : Ctx) (st : St) : NU (act13 c st) := by unfold act13; only_steps nu_helpers
theorem act14_nu (c : Ctx) (st : St) : NU (act14 c st) := by unfold act14; only_steps nu_helpers
theorem act15_nu (c : Ctx) (st : St) : NU (act15 c st) := by unfold act15; only_steps nu_helpers
theorem act16_nu (c : Ctx) (st : St) : NU (act16 c st) := by unfold act16; only_steps nu_helpers
theorem act17_nu (c : Ctx) (st : St) : NU (act17 c st) := by unfold act17; only_steps nu_helpers
theorem act18_nu (c : Ctx) (st : St) : NU (act18 c st) := by unfold act18; only_steps nu_helpers
theorem act19_nu (c : Ctx) (st : St) : NU (act19 c st) := by unfold act19; only_steps nu_helpers
theorem act20_nu (c : Ctx) (st : St) : NU (act20 c st) := by unfold act20; only_steps nu_helpers
theorem act21_nu (c : Ctx) (st : St) : NU (act21 c st) := by
  unfold act21; split <;> exact pushIndexSubscript_nu _ _ _ _
theorem act22_nu (c : Ctx) (st : St) : NU (act22 c st) := by unfold act22; only_steps nu_helpers
theorem act23_nu (c : Ctx) (st : St) : NU (act23 c st) := by unfold act23; only_steps nu_helpers
theorem act24_nu (c : Ctx) (st : St) : NU (act24 c st) := by unfold act24; only_steps nu_helpers
theorem act25_nu (c : Ctx) (st : St) : NU (act25 c st) := by unfold act25; only_steps nu_helpers
theorem act26_nu (c : Ctx) (st : St) : NU (act26 c st) := by unfold act26; only_steps nu_helpers
theorem act27_nu (c : Ctx) (st : St) : NU (act27 c st) := by unfold act27; only_steps nu_helpers
theorem act28_nu (c : Ctx) (st : St) : NU (act28 c st) := by unfold act28; only_steps nu_helpers
theorem act29_nu (c : Ctx) (st : St) : NU (act29 c st) := by unfold act29; only_steps nu_helpers
theorem act30_nu (c : Ctx) (st : St) : NU (act30 c st) := by unfold act30; only_steps nu_helpers
theorem act31_nu (c : Ctx) (st : St) : NU (act31 c st) := by unfold act31; only_steps nu_helpers
theorem act32_nu (c : Ctx) (st : St) : NU (act32 c st) := by unfold act32; only_steps nu_helpers
theorem act33_nu (c : Ctx) (st : St) : NU (act33 c st) := by unfold act33; only_steps nu_helpers
theorem act34_nu (c : Ctx) (st : St) : NU (act34 c st) := by unfold act34; only_steps nu_helpers
theorem act35_nu (c : Ctx) (st : St) : NU (act35 c st) := by unfold act35; only_steps nu_helpers
theorem act36_nu (c : Ctx) (st : St) : NU (act36 c st) := by unfold act36; only_steps nu_helpers
theorem act37_nu (c : Ctx) (st : St) : NU (act37 c st) := by unfold act37; only_steps nu_helpers
theorem act38_nu (c : Ctx) (st : St) : NU (act38 c st) := by unfold act38; only_steps nu_helpers
theorem act39_nu (c : Ctx) (st : St) : NU (act39 c st) := by unfold act39; only_steps nu_helpers
theorem act40_nu (c : Ctx) (st : St) : NU (act40 c st) := by unfold act40; only_steps nu_helpers
theorem act41_nu (c : Ctx) (st : St) : NU (act41 c st) := by unfold act41; only_steps nu_helpers
theorem act42_nu (c : Ctx) (st : St) : NU (act42 c st) := by unfold act42; only_steps nu_helpers
theorem act43_nu (c : Ctx) (st : St) : NU (act43 c st) := by unfold act43; only_steps nu_helpers
theorem act44_nu (c : Ctx) (st : St) : NU (act44 c st) := by unfold act44; only_steps nu_helpers
theorem act45_nu (c : Ctx) (st : St) : NU (act45 c st) := by unfold act45; only_steps nu_helpers

/-- every action other than Action1 raises only errors other than `unrecognized input` -/
theorem act_nu (c : Ctx) (i : Nat) (st : St) (hi : i ≠ 1) : NU (act c i st) := by
  match i with
  | 1 => exact absurd rfl hi
  | 0 => exact act0_nu c st
  | 2 => exact act2_nu c st
  | 3 => exact act3_nu c st
  | 4 => exact act4_nu c st
  | 5 => exact act5_nu c st
  | 6 => exact act6_nu c st
  | 7 => exact act7_nu c st
  | 8 => exact act8_nu c st
  | 9 => exact act9_nu c st
  | 10 => exact act10_nu c st
  | 11 => exact act11_nu c st
  | 12 => exact act12_nu c st
  | 13 => exact act13_nu c st
  | 14 => exact act14_nu c st
  | 15 => exact act15_nu c st
  | 16 => exact act16_nu c st
  | 17 => exact act17_nu c st
  | 18 => exact act18_nu c st
  | 19 => exact act19_nu c st
  | 20 => exact act20_nu c st
  | 21 => exact act21_nu c st
  | 22 => exact act22_nu c st
  | 23 => exact act23_nu c st
  | 24 => exact act24_nu c st
  | 25 => exact act25_nu c st
  | 26 => exact act26_nu c st
  | 27 => exact act27_nu c st
  | 28 => exact act28_nu c st
  | 29 => exact act29_nu c st
  | 30 => exact act30_nu c st
  | 31 => exact act31_nu c st
  | 32 => exact act32_nu c st
  | 33 => exact act33_nu c st
  | 34 => exact act34_nu c st
  | 35 => exact act35_nu c st
  | 36 => exact act36_nu c st
  | 37 => exact act37_nu c st
  | 38 => exact act38_nu c st
  | 39 => exact act39_nu c st
  | 40 => exact act40_nu c st
  | 41 => exact act41_nu c st
  | 42 => exact act42_nu c st
  | 43 => exact act43_nu c st
  | 44 => exact act44_nu c st
  | 45 => exact act45_nu c st
  | _ + 46 => exact Only.ok _

/-! ### `execFrom` -/

theorem execFrom_nil (c : Ctx) (st : St) : execFrom c st [] = .ok st := rfl

theorem execFrom_cons (c : Ctx) (st : St) (t : Tok) (rest : List Tok) :
    execFrom c st (t :: rest) = step c st t >>= fun st' => execFrom c st' rest := rfl

/-- `Execute()` over a concatenation: first the one, then — if it did not panic — the other -/
theorem execFrom_append (c : Ctx) : ∀ (t1 t2 : List Tok) (st : St),
    execFrom c st (t1 ++ t2) = execFrom c st t1 >>= fun st' => execFrom c st' t2 := by
  intro t1
  induction t1 with
  | nil => intro t2 st; rfl
  | cons t rest ih =>
    intro t2 st
    rw [List.cons_append, execFrom_cons, execFrom_cons]
    cases hs : step c st t with
    | error e => rfl
    | ok st' => exact ih t2 st'

theorem step_nu (c : Ctx) (st : St) (t : Tok) (h : t ≠ .action 1) : NU (step c st t) := by
  cases t with
  | text b e => exact Only.ok _
  | action i =>
    have : i ≠ 1 := fun hi => h (by rw [hi])
    exact act_nu c i st this

/-- a token list without Action1 cannot raise `unrecognized input` -/
theorem execFrom_nu (c : Ctx) : ∀ (toks : List Tok) (st : St), Tok.action 1 ∉ toks →
    NU (execFrom c st toks) := by
  intro toks
  induction toks with
  | nil => intro st _; exact Only.ok _
  | cons t rest ih =>
    intro st h
    rw [execFrom_cons]
    refine Only.bind _ _ (step_nu c st t ?_) (fun st' => ih st' ?_)
    · intro ht; exact h (by rw [ht]; exact List.mem_cons_self)
    · intro hm; exact h (List.mem_cons_of_mem _ hm)

/-- `exec` fails with whatever `execFrom` fails with, or with the nil root -/
theorem exec_error (c : Ctx) (toks : List Tok) (e : Stop) (h : exec c toks = .error e) :
    execFrom c {} toks = .error e ∨ e = .panic .nilRoot := by
  unfold exec at h
  cases hx : execFrom c {} toks with
  | error e' =>
    rw [hx] at h
    change Except.error e' = Except.error e at h
    cases h
    exact .inl rfl
  | ok st =>
    rw [hx] at h
    change (match st.root with
      | some (n :: rest) => (Except.ok (n :: rest) : M (List N))
      | _ => Except.error (Stop.panic Panic.nilRoot)) = Except.error e at h
    split at h
    · cases h
    · cases h; exact .inr rfl

end JPV.Peg
