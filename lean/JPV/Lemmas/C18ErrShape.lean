/-
C18ErrShape — from "equal up to recorded texts" (`SP.eraseCh ch = SP.eraseCh ch'`, what
`SP.build_same` gives for two spellings) to the hypotheses of the lock-step simulation of
Lemmas/C18ErrSim.lean:

  * `Rflat ch ch' a b`: `a` and `b` sit at the same POSITION of the two trees — the same slot `j`
    of the Infos (`Fails.errInfos`) of the `k`-th node of the chains as written (`Fails.flat`:
    the parameter chain of an aggregate before the aggregate). No text is mentioned.
  * `same_of_erase`: trees equal up to texts are `sameCh C (Rflat ch ch')`.
  * `oc_flat`: when both trees satisfy the text invariant of built trees (`CE.ConnOK (flat ch)`:
    connected texts non-empty, strictly shorter from node to node, inner identifiers carrying
    their node's), the ORDER of the lengths of connected texts at two positions is the same in
    both trees — it is decided by the positions: `OC (Rflat ch ch')`.
-/
import JPV.Lemmas.C18ErrSim
import JPV.Lemmas.ErrBuild
import JPV.Lemmas.SpellBuild
namespace JPV
namespace C18E
open Impl Fails
open CE (ConnOK)

/-- the Infos at the same slot of a pair of corresponding nodes -/
def RZ (L : List (N × N)) (a b : Info) : Prop :=
  ∃ p ∈ L, (a, b) ∈ (errInfos p.1).zip (errInfos p.2)

/-- the same position of the two trees -/
def Rflat (ch ch' : List N) : Info → Info → Prop := RZ ((flat ch).zip (flat ch'))

/-- … spelled out with indices -/
def SamePos (ch ch' : List N) (a b : Info) : Prop :=
  ∃ (k j : Nat) (n n' : N), (flat ch)[k]? = some n ∧ (flat ch')[k]? = some n' ∧
    (errInfos n)[j]? = some a ∧ (errInfos n')[j]? = some b

theorem mem_zip_idx {α β : Type} {l : List α} {l' : List β} {x : α} {y : β} (h : (x, y) ∈ l.zip l') :
    ∃ k : Nat, l[k]? = some x ∧ l'[k]? = some y := by
  obtain ⟨k, hk⟩ := List.mem_iff_getElem?.mp h
  exact ⟨k, List.getElem?_zip_eq_some.mp hk⟩

theorem samePos_of_rflat {ch ch' : List N} {a b : Info} (h : Rflat ch ch' a b) : SamePos ch ch' a b := by
  obtain ⟨⟨n, n'⟩, hp, hab⟩ := h
  obtain ⟨k, h1, h2⟩ := mem_zip_idx hp
  obtain ⟨j, h3, h4⟩ := mem_zip_idx hab
  exact ⟨k, j, n, n', h1, h2, h3, h4⟩

/-! ### `flat` and erasure -/

/-- what `flat` writes before the node itself -/
def pre : N → List N
  | .afn _ _ p => flat p
  | _ => []

theorem flatN_eq (n : N) (tl : List N) : flatN n tl = pre n ++ n :: tl := by
  cases n <;> simp only [flatN, pre, List.nil_append]

theorem flat_cons (n : N) (rest : List N) : flat (n :: rest) = pre n ++ n :: flat rest := by
  rw [flat, flatN_eq]

theorem eraseCh_cons (n : N) (l : List N) : SP.eraseCh (n :: l) = SP.eraseN n :: SP.eraseCh l := by
  rw [SP.eraseCh]

theorem eraseCh_length : ∀ (l : List N), (SP.eraseCh l).length = l.length
  | [] => by rw [SP.eraseCh]
  | n :: l => by rw [eraseCh_cons, List.length_cons, List.length_cons, eraseCh_length l]

mutual
theorem flat_erase : ∀ (ch : List N), flat (SP.eraseCh ch) = SP.eraseCh (flat ch)
  | [] => by simp only [SP.eraseCh, flat]
  | n :: rest => by
    rw [eraseCh_cons, flat, flat, flat_erase rest]
    exact flatN_erase n (flat rest)
theorem flatN_erase : ∀ (n : N) (tl : List N), flatN (SP.eraseN n) (SP.eraseCh tl) = SP.eraseCh (flatN n tl)
  | .afn i nm p, tl => by
    simp only [SP.eraseN, flatN]
    rw [flat_erase p, SP.eraseCh_append, eraseCh_cons]
    simp only [SP.eraseN]
  | .root i, tl => by simp only [SP.eraseN, flatN, eraseCh_cons]
  | .cur i, tl => by simp only [SP.eraseN, flatN, eraseCh_cons]
  | .child i k, tl => by simp only [SP.eraseN, flatN, eraseCh_cons]
  | .wild i, tl => by simp only [SP.eraseN, flatN, eraseCh_cons]
  | .multi i ids t, tl => by simp only [SP.eraseN, flatN, eraseCh_cons]
  | .desc i a b, tl => by simp only [SP.eraseN, flatN, eraseCh_cons]
  | .union i s, tl => by simp only [SP.eraseN, flatN, eraseCh_cons]
  | .filter i q, tl => by simp only [SP.eraseN, flatN, eraseCh_cons]
  | .ffn i nm, tl => by simp only [SP.eraseN, flatN, eraseCh_cons]
end

theorem flat_len {ch ch' : List N} (h : SP.eraseCh ch = SP.eraseCh ch') : (flat ch).length = (flat ch').length := by
  rw [← eraseCh_length (flat ch), ← eraseCh_length (flat ch'), ← flat_erase, ← flat_erase, h]

theorem pre_len {n n' : N} (h : SP.eraseN n = SP.eraseN n') : (pre n).length = (pre n').length := by
  cases n <;> cases n' <;> simp only [SP.eraseN, reduceCtorEq, N.afn.injEq] at h <;> first
    | rfl
    | exact flat_len h.2.2

theorem ri {C : Prop} {R : Info → Info → Prop} {i i' : Info} (h : SP.eraseInfo i = SP.eraseInfo i')
    (hr : C → R i i') : RI C R i i' :=
  ⟨hr, ((SP.infoRel_iff i i').mp h).1, ((SP.infoRel_iff i i').mp h).2⟩

theorem sameIds_of_erase {C : Prop} {R : Info → Info → Prop} : ∀ (ids ids' : List MId),
    ids.map SP.eraseMId = ids'.map SP.eraseMId →
    (C → ∀ a b, (a, b) ∈ (ids.map midInfo).zip (ids'.map midInfo) → R a b) → sameIds C R ids ids'
  | [], [], _, _ => trivial
  | [], _ :: _, h, _ => by simp at h
  | _ :: _, [], h, _ => by simp at h
  | id :: ids, id' :: ids', h, hR => by
    simp only [List.map_cons, List.cons.injEq] at h
    refine ⟨?_, sameIds_of_erase ids ids' h.2 (fun c a b hab => hR c a b (by
      simp only [List.map_cons, List.zip_cons_cons]; exact List.mem_cons_of_mem _ hab))⟩
    have hh := h.1
    cases id <;> cases id' <;> simp only [SP.eraseMId, reduceCtorEq, MId.key.injEq, MId.wild.injEq] at hh
    · exact ⟨ri hh.1 (fun c => hR c _ _ (by simp [midInfo])), hh.2⟩
    · exact ri hh (fun c => hR c _ _ (by simp [midInfo]))

theorem ids_len : ∀ (ids ids' : List MId), ids.map SP.eraseMId = ids'.map SP.eraseMId → ids.length = ids'.length := by
  intro ids ids' h
  have := congrArg List.length h
  simpa using this

mutual
theorem same_of_erase (C : Prop) (R : Info → Info → Prop) : ∀ (ch ch' : List N), SP.eraseCh ch = SP.eraseCh ch' →
    (C → ∀ a b, RZ ((flat ch).zip (flat ch')) a b → R a b) → sameCh C R ch ch'
  | [], ch', h, _ => by
    cases ch' with
    | nil => simp only [sameCh]
    | cons _ _ => simp [SP.eraseCh] at h
  | n :: rest, ch', h, hR => by
    cases ch' with
    | nil => simp [SP.eraseCh] at h
    | cons n' rest' =>
      simp only [eraseCh_cons, List.cons.injEq] at h
      obtain ⟨hn, hrest⟩ := h
      have hz : (flat (n :: rest)).zip (flat (n' :: rest')) =
          (pre n).zip (pre n') ++ (n, n') :: (flat rest).zip (flat rest') := by
        rw [flat_cons, flat_cons, List.zip_append (pre_len hn), List.zip_cons_cons]
      rw [hz] at hR
      have hRrest : C → ∀ a b, RZ ((flat rest).zip (flat rest')) a b → R a b := fun c a b ⟨p, hp, hab⟩ =>
        hR c a b ⟨p, List.mem_append_right _ (List.mem_cons_of_mem _ hp), hab⟩
      have hRn : C → ∀ a b, (a, b) ∈ (errInfos n).zip (errInfos n') → R a b := fun c a b hab =>
        hR c a b ⟨(n, n'), List.mem_append_right _ List.mem_cons_self, hab⟩
      have hRpre : C → ∀ a b, RZ ((pre n).zip (pre n')) a b → R a b := fun c a b ⟨p, hp, hab⟩ =>
        hR c a b ⟨p, List.mem_append_left _ hp, hab⟩
      simp only [sameCh]
      refine ⟨?_, same_of_erase C R rest rest' hrest hRrest⟩
      cases n with
      | root i =>
        cases n' <;> simp only [SP.eraseN, reduceCtorEq, N.root.injEq] at hn
        simp only [sameN]
        exact ri hn (fun c => hRn c _ _ (by simp [errInfos, N.info]))
      | cur i =>
        cases n' <;> simp only [SP.eraseN, reduceCtorEq, N.cur.injEq] at hn
        simp only [sameN]
        exact ri hn (fun c => hRn c _ _ (by simp [errInfos, N.info]))
      | child i k =>
        cases n' <;> simp only [SP.eraseN, reduceCtorEq, N.child.injEq] at hn
        simp only [sameN]
        exact ⟨ri hn.1 (fun c => hRn c _ _ (by simp [errInfos, N.info])), hn.2⟩
      | wild i =>
        cases n' <;> simp only [SP.eraseN, reduceCtorEq, N.wild.injEq] at hn
        simp only [sameN]
        exact ri hn (fun c => hRn c _ _ (by simp [errInfos, N.info]))
      | multi i ids tw =>
        cases n' with
        | multi i' ids' tw' =>
          simp only [SP.eraseN, N.multi.injEq] at hn
          obtain ⟨hi, hids, htw⟩ := hn
          simp only [sameN]
          have htl : tw.toList.length = tw'.toList.length := by
            cases tw <;> cases tw' <;> simp at htw <;> rfl
          refine ⟨ri hi (fun c => hRn c _ _ (by simp [errInfos])), ?_, ?_⟩
          · refine sameIds_of_erase ids ids' hids (fun c a b hab => hRn c a b ?_)
            simp only [errInfos, List.cons_append, List.zip_cons_cons, List.zip_append htl]
            exact List.mem_cons_of_mem _ (List.mem_append_right _ hab)
          · cases tw with
            | none => cases tw' with
              | none => trivial
              | some _ => simp at htw
            | some ti => cases tw' with
              | none => simp at htw
              | some ti' =>
                simp only [Option.map_some, Option.some.injEq] at htw
                exact ri htw (fun c => hRn c _ _ (by simp [errInfos]))
        | _ => simp only [SP.eraseN, reduceCtorEq] at hn
      | desc i a b =>
        cases n' <;> simp only [SP.eraseN, reduceCtorEq, N.desc.injEq] at hn
        simp only [sameN]
        exact ⟨ri hn.1 (fun c => hRn c _ _ (by simp [errInfos, N.info])), hn.2.1, hn.2.2⟩
      | union i s =>
        cases n' <;> simp only [SP.eraseN, reduceCtorEq, N.union.injEq] at hn
        simp only [sameN]
        exact ⟨ri hn.1 (fun c => hRn c _ _ (by simp [errInfos, N.info])), hn.2⟩
      | filter i q =>
        cases n' with
        | filter i' q' =>
          simp only [SP.eraseN, N.filter.injEq] at hn
          simp only [sameN]
          exact ⟨ri hn.1 (fun c => hRn c _ _ (by simp [errInfos, N.info])), sameQ_of_erase R q q' hn.2⟩
        | _ => simp only [SP.eraseN, reduceCtorEq] at hn
      | ffn i nm =>
        cases n' <;> simp only [SP.eraseN, reduceCtorEq, N.ffn.injEq] at hn
        simp only [sameN]
        exact ⟨ri hn.1 (fun c => hRn c _ _ (by simp [errInfos, N.info])), hn.2⟩
      | afn i nm p =>
        cases n' with
        | afn i' nm' p' =>
          simp only [SP.eraseN, N.afn.injEq] at hn
          simp only [sameN]
          exact ⟨ri hn.1 (fun c => hRn c _ _ (by simp [errInfos, N.info])), hn.2.1,
            same_of_erase C R p p' hn.2.2 hRpre⟩
        | _ => simp only [SP.eraseN, reduceCtorEq] at hn
theorem sameQ_of_erase (R : Info → Info → Prop) : ∀ (q q' : Q), SP.eraseQ q = SP.eraseQ q' → sameQ R q q'
  | .or a b, q', h => by
    cases q' with
    | or a' b' =>
      simp only [SP.eraseQ, Q.or.injEq] at h
      simp only [sameQ]
      exact ⟨sameQ_of_erase R a a' h.1, sameQ_of_erase R b b' h.2⟩
    | _ => simp only [SP.eraseQ, reduceCtorEq] at h
  | .and a b, q', h => by
    cases q' with
    | and a' b' =>
      simp only [SP.eraseQ, Q.and.injEq] at h
      simp only [sameQ]
      exact ⟨sameQ_of_erase R a a' h.1, sameQ_of_erase R b b' h.2⟩
    | _ => simp only [SP.eraseQ, reduceCtorEq] at h
  | .not a, q', h => by
    cases q' with
    | not a' =>
      simp only [SP.eraseQ, Q.not.injEq] at h
      simp only [sameQ]
      exact sameQ_of_erase R a a' h
    | _ => simp only [SP.eraseQ, reduceCtorEq] at h
  | .cmp l r c, q', h => by
    cases q' with
    | cmp l' r' c' =>
      simp only [SP.eraseQ, Q.cmp.injEq] at h
      simp only [sameQ]
      exact ⟨sameP_of_erase R l l' h.1, sameP_of_erase R r r' h.2.1, h.2.2⟩
    | _ => simp only [SP.eraseQ, reduceCtorEq] at h
  | .exist p, q', h => by
    cases q' with
    | exist p' =>
      simp only [SP.eraseQ, Q.exist.injEq] at h
      simp only [sameQ]
      exact sameP_of_erase R p p' h
    | _ => simp only [SP.eraseQ, reduceCtorEq] at h
theorem sameP_of_erase (R : Info → Info → Prop) : ∀ (p p' : P), SP.eraseP p = SP.eraseP p' → sameP R p p'
  | .lit v, p', h => by
    cases p' <;> simp only [SP.eraseP, reduceCtorEq, P.lit.injEq] at h
    simp only [sameP, h]
  | .proot ch, p', h => by
    cases p' with
    | proot ch' =>
      simp only [SP.eraseP, P.proot.injEq] at h
      simp only [sameP]
      exact same_of_erase False R ch ch' h (fun c => c.elim)
    | _ => simp only [SP.eraseP, reduceCtorEq] at h
  | .pcur ch, p', h => by
    cases p' with
    | pcur ch' =>
      simp only [SP.eraseP, P.pcur.injEq] at h
      simp only [sameP]
      exact same_of_erase False R ch ch' h (fun c => c.elim)
    | _ => simp only [SP.eraseP, reduceCtorEq] at h
end

/-- trees equal up to recorded texts have the same shape, corresponding Infos at the same position -/
theorem same_of_erase_flat (ch ch' : List N) (h : SP.eraseCh ch = SP.eraseCh ch') :
    sameCh True (Rflat ch ch') ch ch' :=
  same_of_erase True (Rflat ch ch') ch ch' h (fun _ _ _ hab => hab)

/-! ### the order of the lengths is decided by the positions -/

theorem zip_tri {α β : Type} (P : α → α → Prop) (P' : β → β → Prop) : ∀ (l : List α) (l' : List β),
    List.Pairwise P l → List.Pairwise P' l' → ∀ p ∈ l.zip l', ∀ q ∈ l.zip l',
      p = q ∨ (P p.1 q.1 ∧ P' p.2 q.2) ∨ (P q.1 p.1 ∧ P' q.2 p.2)
  | [], _, _, _, p, hp, _, _ => by simp at hp
  | _ :: _, [], _, _, p, hp, _, _ => by simp at hp
  | x :: l, y :: l', h, h', p, hp, q, hq => by
    obtain ⟨hx, hl⟩ := List.pairwise_cons.mp h
    obtain ⟨hy, hl'⟩ := List.pairwise_cons.mp h'
    simp only [List.zip_cons_cons, List.mem_cons] at hp hq
    rcases hp with rfl | hp
    · rcases hq with rfl | hq
      · exact Or.inl rfl
      · obtain ⟨q1, q2⟩ := q
        have := List.of_mem_zip hq
        exact Or.inr (Or.inl ⟨hx _ this.1, hy _ this.2⟩)
    · rcases hq with rfl | hq
      · obtain ⟨p1, p2⟩ := p
        have := List.of_mem_zip hp
        exact Or.inr (Or.inr ⟨hx _ this.1, hy _ this.2⟩)
      · exact zip_tri P P' l l' hl hl' p hp q hq

theorem oc_zip {l l' : List N} (h : ConnOK l) (h' : ConnOK l') : OC (RZ (l.zip l')) := by
  intro a a' b b' ⟨⟨p1, p2⟩, hp, hab⟩ ⟨⟨q1, q2⟩, hq, hcd⟩
  have hpm := List.of_mem_zip hp
  have hqm := List.of_mem_zip hq
  have habm := List.of_mem_zip hab
  have hcdm := List.of_mem_zip hcd
  simp only [] at habm hcdm
  have ea : sz a = sz p1.info := congrArg String.utf8ByteSize (h.2.2 p1 hpm.1 a (by rw [ES.errInfos_eq]; exact habm.1))
  have ea' : sz a' = sz p2.info := congrArg String.utf8ByteSize (h'.2.2 p2 hpm.2 a' (by rw [ES.errInfos_eq]; exact habm.2))
  have eb : sz b = sz q1.info := congrArg String.utf8ByteSize (h.2.2 q1 hqm.1 b (by rw [ES.errInfos_eq]; exact hcdm.1))
  have eb' : sz b' = sz q2.info := congrArg String.utf8ByteSize (h'.2.2 q2 hqm.2 b' (by rw [ES.errInfos_eq]; exact hcdm.2))
  have pa := h.2.1 p1 hpm.1
  have pa' := h'.2.1 p2 hpm.2
  have ea0 : a.conn.utf8ByteSize = p1.info.conn.utf8ByteSize := ea
  have ea0' : a'.conn.utf8ByteSize = p2.info.conn.utf8ByteSize := ea'
  have eb0 : b.conn.utf8ByteSize = q1.info.conn.utf8ByteSize := eb
  have eb0' : b'.conn.utf8ByteSize = q2.info.conn.utf8ByteSize := eb'
  rcases zip_tri _ _ l l' h.1 h'.1 _ hp _ hq with heq | ⟨h1, h2⟩ | ⟨h1, h2⟩
  · simp only [Prod.mk.injEq] at heq
    obtain ⟨rfl, rfl⟩ := heq
    simp only [sz]
    omega
  · simp only [] at h1 h2
    simp only [sz]
    omega
  · simp only [] at h1 h2
    simp only [sz]
    omega

theorem oc_flat {ch ch' : List N} (h : ConnOK (flat ch)) (h' : ConnOK (flat ch')) : OC (Rflat ch ch') :=
  oc_zip h h'

end C18E
end JPV
